(* Relocation: what a list of restorer actions contributes -- line breaks, comments, positions,
   cursor advance, the "just after a line break" flag -- does not depend on where it is run:
   two runs of the same actions from states that agree on the flag produce the same
   contributions up to the offset between the two cursors (and between the two bases).
   Special cases: the restored file does not depend on the FileSet base (C01: every entry
   point), a list element renders the same wherever it is moved (C02). *)
From Coq Require Import List String ZArith NArith Bool Lia.
Import ListNotations.
From DV Require Import Model.Tree Model.Tables Model.Restore Proofs.RestoreProofs.
Local Open Scope Z_scope.
Local Open Scope list_scope.

Definition shiftc (d : Z) (c : Z * Z * N) : Z * Z * N := match c with (p, l, u) => (p + d, l, u) end.
Definition shiftg (d : Z) (g : cgroup) : cgroup := mkGroup (g_owner g) (map (shiftc d) (g_list g)).
Definition relp (d : Z) (a b : N * path * Z) : Prop :=
  fst a = fst b /\ ((snd a = 0 /\ snd b = 0) \/ snd b = snd a + d).

Definition act_ids (a : action) : list N :=
  match a with AEnter id | AMapAt id => [id] | ADecs id _ _ _ _ => [id] | _ => [] end.

Section Reloc.
Variables (s1 s2 : rstate) (d k : Z).

(* t1, t2: the states reached from s1, s2 by the same actions *)
Record rel (t1 t2 : rstate) : Prop := mkRel {
  rel_b1 : base t1 = base s1;
  rel_b2 : base t2 = base s2;
  rel_cur : cursor t2 = cursor t1 + d;
  rel_le1 : atnl t1 <= cursor t1;
  rel_le2 : atnl t2 <= cursor t2;
  rel_fr : Z.eqb (cursor t1) (atnl t1) = Z.eqb (cursor t2) (atnl t2);
  rel_lines : exists L, lines t1 = L ++ lines s1 /\ lines t2 = map (Z.add k) L ++ lines s2;
  rel_com : exists G, comments t1 = G ++ comments s1 /\ comments t2 = map (shiftg d) G ++ comments s2;
  rel_pos : exists P1 P2, poss t1 = P1 ++ poss s1 /\ poss t2 = P2 ++ poss s2 /\ Forall2 (relp d) P1 P2;
  rel_seen : exists S, seen t1 = S ++ seen s1 /\ seen t2 = S ++ seen s2;
  rel_panic : panic t1 = panic t2
}.

Hypothesis Hk : k = d - (base s2 - base s1).

Lemma rel_advance t1 t2 l : rel t1 t2 -> 0 <= l -> rel (set_cursor t1 (cursor t1 + l)) (set_cursor t2 (cursor t2 + l)).
Proof.
  intros [B1 B2 C L1 L2 F Li Co Po Se Pa] Hl. constructor; cbn; try assumption; try lia.
Qed.

Lemma rel_add_line t1 t2 off :
  rel t1 t2 -> rel (add_line t1 (cursor t1 - base t1 + off)) (add_line t2 (cursor t2 - base t2 + off)).
Proof.
  intros [B1 B2 C L1 L2 F [L [A B]] Co Po Se Pa]. constructor; cbn; try assumption.
  exists ((cursor t1 - base t1 + off) :: L). split; [rewrite A; reflexivity|].
  rewrite B. cbn. f_equal. lia.
Qed.

Lemma rel_add_lines nls : forall t1 t2,
  rel t1 t2 ->
  rel (fold_left (fun s off => add_line s (cursor s - base s + off)) nls t1)
      (fold_left (fun s off => add_line s (cursor s - base s + off)) nls t2).
Proof. induction nls as [|o r IH]; intros t1 t2 H; cbn [fold_left]; [exact H|]. apply IH. apply rel_add_line. exact H. Qed.

Lemma rel_mark t1 t2 : rel t1 t2 -> rel (set_atnl t1 (cursor t1)) (set_atnl t2 (cursor t2)).
Proof.
  intros [B1 B2 C L1 L2 F Li Co Po Se Pa]. constructor; cbn; try assumption; try lia.
Qed.

Lemma rel_space_nl t1 t2 : rel t1 t2 -> rel (space_nl t1) (space_nl t2).
Proof.
  intros H. unfold space_nl. cbn zeta.
  pose proof (rel_advance _ _ 1 H ltac:(lia)) as H1.
  pose proof (rel_add_line _ _ 0 H1) as H2. rewrite !Z.add_0_r in H2.
  pose proof (rel_advance _ _ 1 H2 ltac:(lia)) as H3.
  exact (rel_mark _ _ H3).
Qed.

Lemma rel_apply_space t1 t2 isbad after sp : rel t1 t2 -> rel (apply_space t1 isbad after sp) (apply_space t2 isbad after sp).
Proof.
  intros H. unfold apply_space. cbn zeta. rewrite <- (rel_fr _ _ H).
  destruct (Z.leb _ 0); [exact H|]. destruct (Z.eqb _ 1); [apply rel_space_nl; exact H|].
  apply rel_space_nl. apply rel_space_nl. exact H.
Qed.

Lemma rel_free_comment t1 t2 l u :
  rel t1 t2 ->
  rel (add_comment t1 (mkGroup 0 [(cursor t1, l, u)] :: comments t1))
      (add_comment t2 (mkGroup 0 [(cursor t2, l, u)] :: comments t2)).
Proof.
  intros [B1 B2 C L1 L2 F Li [G [A B]] Po Se Pa]. constructor; cbn; try assumption.
  exists (mkGroup 0 [(cursor t1, l, u)] :: G). split; [rewrite A; reflexivity|].
  rewrite B. cbn. unfold shiftg at 1. cbn. rewrite C. reflexivity.
Qed.

Lemma add_to_group_none gs id c : (forall g, In g gs -> g_owner g <> id) -> add_to_group gs id c = None.
Proof.
  induction gs as [|g r IH]; intros H; cbn; [reflexivity|].
  assert (E : N.eqb (g_owner g) id = false) by (apply N.eqb_neq; apply H; left; reflexivity).
  rewrite E. cbn. rewrite IH; [reflexivity|]. intros g' Hg. apply H. right. exact Hg.
Qed.

Lemma add_to_group_app G old id c :
  (forall g, In g old -> g_owner g <> id) ->
  add_to_group (G ++ old) id c = match add_to_group G id c with Some G' => Some (G' ++ old) | None => None end.
Proof.
  intros Ho. induction G as [|g r IH]; cbn [app add_to_group].
  - apply add_to_group_none. exact Ho.
  - destruct (N.eqb (g_owner g) id && negb (N.eqb id 0)); [reflexivity|].
    rewrite IH. destruct (add_to_group r id c); reflexivity.
Qed.

Lemma add_to_group_shift G id c :
  add_to_group (map (shiftg d) G) id (shiftc d c) = option_map (map (shiftg d)) (add_to_group G id c).
Proof.
  induction G as [|g r IH]; cbn [map add_to_group]; [reflexivity|].
  cbn [shiftg g_owner]. destruct (N.eqb (g_owner g) id && negb (N.eqb id 0)).
  - cbn. unfold shiftg at 2. cbn. rewrite map_app. reflexivity.
  - rewrite IH. destruct (add_to_group r id c); reflexivity.
Qed.

Lemma rel_field_comment t1 t2 id l u :
  (forall g, In g (comments s1) -> g_owner g <> id) -> (forall g, In g (comments s2) -> g_owner g <> id) ->
  rel t1 t2 ->
  rel (add_field_comment t1 id (cursor t1, l, u)) (add_field_comment t2 id (cursor t2, l, u)).
Proof.
  intros H1 H2 [B1 B2 C L1 L2 F Li [G [A B]] Po Se Pa]. unfold add_field_comment.
  rewrite A, B, (add_to_group_app G _ id _ H1), (add_to_group_app (map (shiftg d) G) _ id _ H2).
  replace (cursor t2, l, u) with (shiftc d (cursor t1, l, u)) by (cbn; rewrite C; reflexivity).
  rewrite add_to_group_shift. destruct (add_to_group G id (cursor t1, l, u)) as [G'|]; cbn [option_map].
  - constructor; cbn; try assumption. exists G'. split; reflexivity.
  - constructor; cbn; try assumption. exists (mkGroup id [(cursor t1, l, u)] :: G). split; reflexivity.
Qed.

Definition id_free (id : N) : Prop :=
  (forall g, In g (comments s1) -> g_owner g <> id) /\ (forall g, In g (comments s2) -> g_owner g <> id) /\
  ~ In id (seen s1) /\ ~ In id (seen s2).

Lemma rel_dec_step id kind isend t1 t2 first dc :
  id_free id -> dec_ok dc -> rel t1 t2 ->
  rel (fst (dec_step id kind isend (t1, first) dc)) (fst (dec_step id kind isend (t2, first) dc)) /\
  snd (dec_step id kind isend (t1, first) dc) = snd (dec_step id kind isend (t2, first) dc).
Proof.
  intros [Hf1 [Hf2 _]] Hok H. unfold dec_step.
  (* the bump *)
  assert (Hb : rel (if isend && Z.eqb (atnl t1) (cursor t1) then set_cursor t1 (cursor t1 + 1) else t1)
                   (if isend && Z.eqb (atnl t2) (cursor t2) then set_cursor t2 (cursor t2 + 1) else t2)).
  { rewrite (Z.eqb_sym (atnl t1)), (Z.eqb_sym (atnl t2)), <- (rel_fr _ _ H).
    destruct (isend && _); [apply rel_advance; [exact H|lia]|exact H]. }
  set (u1 := if isend && Z.eqb (atnl t1) (cursor t1) then set_cursor t1 (cursor t1 + 1) else t1) in *.
  set (u2 := if isend && Z.eqb (atnl t2) (cursor t2) then set_cursor t2 (cursor t2 + 1) else t2) in *.
  destruct dc as [|l u|l nls u|l u]; cbn [dec_ok] in Hok.
  - (* "\n" *)
    cbn. split; [|reflexivity].
    pose proof (rel_advance _ _ 1 Hb ltac:(lia)) as Hb1.
    pose proof (rel_add_line _ _ 0 Hb1) as H2. rewrite !Z.add_0_r in H2.
    pose proof (rel_advance _ _ 1 H2 ltac:(lia)) as H3. exact (rel_mark _ _ H3).
  - (* line comment *)
    assert (Hc : rel (if first && isend && has_comment_field kind then add_field_comment u1 id (cursor u1, l, u)
                      else add_comment u1 (mkGroup 0 [(cursor u1, l, u)] :: comments u1))
                     (if first && isend && has_comment_field kind then add_field_comment u2 id (cursor u2, l, u)
                      else add_comment u2 (mkGroup 0 [(cursor u2, l, u)] :: comments u2))).
    { destruct (first && isend && has_comment_field kind); [apply rel_field_comment; assumption|apply rel_free_comment; exact Hb]. }
    cbn. split; [|reflexivity].
    match type of Hc with rel ?a ?b => set (v1 := a) in *; set (v2 := b) in * end.
    pose proof (rel_advance _ _ l Hc ltac:(lia)) as H1.
    pose proof (rel_add_line _ _ 0 H1) as H2. rewrite !Z.add_0_r in H2.
    pose proof (rel_advance _ _ 1 H2 ltac:(lia)) as H3. exact (rel_mark _ _ H3).
  - (* block comment *)
    pose proof (rel_add_lines nls _ _ Hb) as Hl.
    match type of Hl with rel ?a ?b => set (w1 := a) in *; set (w2 := b) in * end.
    assert (Hc : rel (if first && isend && has_comment_field kind then add_field_comment w1 id (cursor w1, l, u)
                      else add_comment w1 (mkGroup 0 [(cursor w1, l, u)] :: comments w1))
                     (if first && isend && has_comment_field kind then add_field_comment w2 id (cursor w2, l, u)
                      else add_comment w2 (mkGroup 0 [(cursor w2, l, u)] :: comments w2))).
    { destruct (first && isend && has_comment_field kind); [apply rel_field_comment; assumption|apply rel_free_comment; exact Hl]. }
    cbn. split; [|reflexivity]. apply rel_advance; [exact Hc|lia].
  - cbn. split; [exact Hb|reflexivity].
Qed.

Lemma rel_fold_decs id kind isend ds : forall t1 t2 first,
  id_free id -> Forall dec_ok ds -> rel t1 t2 ->
  rel (fst (fold_left (dec_step id kind isend) ds (t1, first))) (fst (fold_left (dec_step id kind isend) ds (t2, first))).
Proof.
  induction ds as [|dc r IH]; intros t1 t2 first Hf Hok H; cbn [fold_left]; [exact H|].
  inversion Hok as [|? ? Hd Hr]; subst.
  destruct (rel_dec_step id kind isend t1 t2 first dc Hf Hd H) as [A B].
  destruct (dec_step id kind isend (t1, first) dc) as [a1 f1] eqn:E1.
  destruct (dec_step id kind isend (t2, first) dc) as [a2 f2] eqn:E2.
  cbn in A, B. subst f2. apply IH; assumption.
Qed.

Lemma rel_rstep t1 t2 a :
  Forall id_free (act_ids a) -> act_ok a -> rel t1 t2 -> rel (rstep t1 a) (rstep t2 a).
Proof.
  intros Hid Hok H. unfold rstep. rewrite <- (rel_panic _ _ H). destruct (panic t1) eqn:Ep; [exact H|].
  destruct a as [id|id|isbad after sp|id kind name isend ds|l|id f|id f|l nls|w]; cbn [act_ok act_ids] in *.
  - (* AEnter *)
    inversion Hid as [|? ? [_ [_ [N1 N2]]] _]; subst.
    destruct H as [B1 B2 C L1 L2 F Li Co Po [S [A B]] Pa].
    assert (E : existsb (N.eqb id) (seen t1) = existsb (N.eqb id) (seen t2)).
    { rewrite A, B, !existsb_app. f_equal.
      assert (Hn : forall ll : list N, ~ In id ll -> existsb (N.eqb id) ll = false).
      { intros ll. induction ll as [|x r IH]; intros Hx; cbn; [reflexivity|].
        assert (Hne : N.eqb id x = false) by (apply N.eqb_neq; intros ->; apply Hx; left; reflexivity).
        rewrite Hne. apply IH. intros Hr. apply Hx. right. exact Hr. }
      rewrite (Hn _ N1), (Hn _ N2). reflexivity. }
    rewrite <- E. destruct (existsb (N.eqb id) (seen t1)).
    + unfold set_panic. rewrite Ep, <- Pa, Ep. constructor; cbn; try assumption; try reflexivity. exists S. split; assumption.
    + constructor; cbn; try assumption; try congruence. exists (id :: S). split; [rewrite A|rewrite B]; reflexivity.
  - destruct H as [B1 B2 C L1 L2 F Li Co Po [S [A B]] Pa]. constructor; cbn; try assumption; try congruence.
    exists (id :: S). split; [rewrite A|rewrite B]; reflexivity.
  - apply rel_apply_space. exact H.
  - inversion Hid as [|? ? Hf _]; subst. unfold apply_decs.
    pose proof (rel_fold_decs id kind isend ds t1 t2 true Hf Hok H) as Hd.
    destruct (String.eqb kind "File" && String.eqb name "Start"); [apply rel_advance; [exact Hd|lia]|exact Hd].
  - apply rel_advance; assumption.
  - destruct H as [B1 B2 C L1 L2 F Li Co [P1 [P2 [A [B R]]]] Se Pa]. constructor; cbn; try assumption; try congruence.
    exists ((id, f, cursor t1) :: P1), ((id, f, cursor t2) :: P2). split; [rewrite A; reflexivity|]. split; [rewrite B; reflexivity|].
    constructor; [|exact R]. split; [reflexivity|]. right. exact C.
  - destruct H as [B1 B2 C L1 L2 F Li Co [P1 [P2 [A [B R]]]] Se Pa]. constructor; cbn; try assumption; try congruence.
    exists ((id, f, 0) :: P1), ((id, f, 0) :: P2). split; [rewrite A; reflexivity|]. split; [rewrite B; reflexivity|].
    constructor; [|exact R]. split; [reflexivity|]. left. split; reflexivity.
  - destruct nls as [|o r]; [exact H|]. apply rel_add_lines. exact H.
  - destruct H as [B1 B2 C L1 L2 F Li Co Po Se Pa]. unfold set_panic. rewrite <- Pa, Ep. constructor; cbn; try assumption; reflexivity.
Qed.

Theorem rel_run acts : forall t1 t2,
  Forall (fun a => Forall id_free (act_ids a)) acts -> Forall act_ok acts ->
  rel t1 t2 -> rel (fold_left rstep acts t1) (fold_left rstep acts t2).
Proof.
  induction acts as [|a r IH]; intros t1 t2 Hid Hok H; cbn [fold_left]; [exact H|].
  inversion Hid; inversion Hok; subst. apply IH; try assumption. apply rel_rstep; assumption.
Qed.

End Reloc.

(* the starting states are related to themselves *)
Lemma rel_start s1 s2 d k :
  cursor s2 = cursor s1 + d -> atnl s1 <= cursor s1 -> atnl s2 <= cursor s2 ->
  Z.eqb (cursor s1) (atnl s1) = Z.eqb (cursor s2) (atnl s2) -> panic s1 = panic s2 ->
  rel s1 s2 d k s1 s2.
Proof.
  intros C L1 L2 F P. constructor; try assumption; try reflexivity.
  - exists []. split; reflexivity.
  - exists []. split; reflexivity.
  - exists [], []. repeat split; constructor.
  - exists []. split; reflexivity.
Qed.

(* ---- C02: a segment renders the same wherever it is placed -------------------------------- *)
Theorem segment_relocatable acts s1 s2 :
  base s1 = base s2 -> atnl s1 <= cursor s1 -> atnl s2 <= cursor s2 ->
  Z.eqb (cursor s1) (atnl s1) = Z.eqb (cursor s2) (atnl s2) -> panic s1 = panic s2 ->
  Forall (fun a => Forall (id_free s1 s2) (act_ids a)) acts -> Forall act_ok acts ->
  let d := cursor s2 - cursor s1 in
  let t1 := fold_left rstep acts s1 in
  let t2 := fold_left rstep acts s2 in
  cursor t2 - cursor s2 = cursor t1 - cursor s1 /\
  Z.eqb (cursor t1) (atnl t1) = Z.eqb (cursor t2) (atnl t2) /\
  panic t1 = panic t2 /\
  (exists L, lines t1 = L ++ lines s1 /\ lines t2 = map (Z.add d) L ++ lines s2) /\
  (exists G, comments t1 = G ++ comments s1 /\ comments t2 = map (shiftg d) G ++ comments s2) /\
  (exists P1 P2, poss t1 = P1 ++ poss s1 /\ poss t2 = P2 ++ poss s2 /\ Forall2 (relp d) P1 P2).
Proof.
  intros Hb L1 L2 F P Hid Hok d t1 t2.
  assert (H0 : rel s1 s2 d d s1 s2) by (apply rel_start; try assumption; unfold d; lia).
  assert (Hk : d = d - (base s2 - base s1)) by lia.
  pose proof (rel_run s1 s2 d d Hk acts s1 s2 Hid Hok H0) as [B1 B2 C l1 l2 Fr Li Co Po Se Pa].
  fold t1 in B1, C, l1, Fr, Li, Co, Po, Se, Pa. fold t2 in B2, C, l2, Fr, Li, Co, Po, Se, Pa.
  repeat split; try assumption. lia.
Qed.

(* ---- C01 / C12: the restored file does not depend on the FileSet base ---------------------- *)
Lemma group_end_shift d g : g_list g <> [] -> group_end (shiftg d g) = group_end g + d.
Proof.
  intros Hne. unfold group_end, shiftg. cbn [g_list].
  destruct (g_list g) as [|c r]; [contradiction|].
  assert (E : last (map (shiftc d) (c :: r)) (0, 0, 0%N) = shiftc d (last (c :: r) (0, 0, 0%N))).
  { clear Hne. revert c. induction r as [|x r IH]; intros c; [reflexivity|]. change (map (shiftc d) (c :: x :: r)) with (shiftc d c :: map (shiftc d) (x :: r)).
    cbn [last]. cbn [map]. apply IH. }
  rewrite E. destruct (last (c :: r) (0, 0, 0%N)) as [[p l] u]. cbn. lia.
Qed.

Definition groups_nonempty (gs : list cgroup) : Prop := Forall (fun g => g_list g <> []) gs.

Lemma file_end_comments_shift d gs : groups_nonempty gs -> forall e,
  fold_right (fun g e => if Z.leb e (group_end g) then group_end g + 1 else e) (e + d) (map (shiftg d) gs) =
  fold_right (fun g e => if Z.leb e (group_end g) then group_end g + 1 else e) e gs + d.
Proof.
  induction 1 as [|g r Hg Hr IH]; intros e; cbn [map fold_right]; [reflexivity|].
  rewrite IH, (group_end_shift d g Hg).
  set (x := fold_right _ e r).
  destruct (Z.leb_spec (x + d) (group_end g + d)), (Z.leb_spec x (group_end g)); lia.
Qed.

Lemma file_end_lines_same (ls : list Z) b d : forall e,
  fold_right (fun off e => if Z.leb e (off + (b + d)) then off + (b + d) + 1 else e) (e + d) ls =
  fold_right (fun off e => if Z.leb e (off + b) then off + b + 1 else e) e ls + d.
Proof.
  induction ls as [|o r IH]; intros e; cbn [fold_right]; [reflexivity|].
  rewrite IH. set (x := fold_right _ e r).
  destruct (Z.leb_spec (x + d) (o + (b + d))), (Z.leb_spec x (o + b)); lia.
Qed.

(* every group the state machine creates has at least one comment *)
Lemma add_to_group_nonempty gs id c gs' : groups_nonempty gs -> add_to_group gs id c = Some gs' -> groups_nonempty gs'.
Proof.
  revert gs'. induction gs as [|g r IH]; intros gs' Hn H; cbn in H; [discriminate|].
  inversion Hn as [|? ? Hg Hr]; subst.
  destruct (N.eqb (g_owner g) id && negb (N.eqb id 0)).
  - inversion H; subst. constructor; [cbn; destruct (g_list g); discriminate|exact Hr].
  - destruct (add_to_group r id c) as [r'|] eqn:E; [|discriminate]. inversion H; subst.
    constructor; [exact Hg|apply IH; [exact Hr|reflexivity]].
Qed.

Lemma dec_step_nonempty id kind isend st dc :
  groups_nonempty (comments (fst st)) -> groups_nonempty (comments (fst (dec_step id kind isend st dc))).
Proof.
  destruct st as [s first]. cbn [fst]. intros Hn. unfold dec_step.
  set (u := if isend && Z.eqb (atnl s) (cursor s) then set_cursor s (cursor s + 1) else s).
  assert (Hu : groups_nonempty (comments u)) by (subst u; destruct (isend && _); exact Hn).
  assert (Hal : forall nls v, groups_nonempty (comments v) ->
                 groups_nonempty (comments (fold_left (fun s off => add_line s (cursor s - base s + off)) nls v))).
  { induction nls as [|o r IH]; intros v Hv; cbn [fold_left]; [exact Hv|]. apply IH. exact Hv. }
  assert (Hc : forall v l x, groups_nonempty (comments v) ->
                 groups_nonempty (comments (if first && isend && has_comment_field kind then add_field_comment v id (cursor v, l, x)
                                            else add_comment v (mkGroup 0 [(cursor v, l, x)] :: comments v)))).
  { intros v l x Hv. destruct (first && isend && has_comment_field kind).
    - unfold add_field_comment. destruct (add_to_group (comments v) id (cursor v, l, x)) as [gs|] eqn:E; cbn.
      + eapply add_to_group_nonempty; eassumption.
      + constructor; [cbn; discriminate|exact Hv].
    - cbn. constructor; [cbn; discriminate|exact Hv]. }
  destruct dc as [|l x|l nls x|l x]; cbn; try exact Hu.
  - apply (Hc u l x Hu).
  - apply (Hc _ l x (Hal nls u Hu)).
Qed.

Lemma rstep_nonempty s a : groups_nonempty (comments s) -> groups_nonempty (comments (rstep s a)).
Proof.
  intros Hn. unfold rstep. destruct (panic s); [exact Hn|].
  destruct a as [id|id|isbad after sp|id kind name isend ds|l|id f|id f|l nls|w]; cbn; try exact Hn.
  - destruct (existsb _ _); exact Hn.
  - rewrite apply_space_comments. exact Hn.
  - unfold apply_decs.
    assert (Hf : forall ds st, groups_nonempty (comments (fst st)) ->
                  groups_nonempty (comments (fst (fold_left (dec_step id kind isend) ds st)))).
    { induction ds0 as [|dc r IH]; intros st Hs; cbn [fold_left]; [exact Hs|]. apply IH. apply dec_step_nonempty. exact Hs. }
    destruct (String.eqb kind "File" && String.eqb name "Start"); cbn; apply (Hf ds (s, true)); exact Hn.
  - destruct nls as [|o r]; [exact Hn|].
    assert (Hal : forall nls v, groups_nonempty (comments v) ->
                   groups_nonempty (comments (fold_left (fun s off => add_line s (cursor s - base s + off)) nls v))).
    { induction nls as [|o' r' IH]; intros v Hv; cbn [fold_left]; [exact Hv|]. apply IH. exact Hv. }
    apply Hal. exact Hn.
Qed.

Lemma run_nonempty acts : forall s, groups_nonempty (comments s) -> groups_nonempty (comments (fold_left rstep acts s)).
Proof. induction acts as [|a r IH]; intros s H; cbn [fold_left]; [exact H|]. apply IH. apply rstep_nonempty. exact H. Qed.

(* Running the same action list in FileSets with bases b and b + d (1 <= b, 1 <= b + d) gives
   the same line table and size, comments and positions shifted by d, NoPos left alone. *)
Theorem base_invariance acts b d :
  1 <= b -> 1 <= b + d -> Forall act_ok acts ->
  match finish (run_acts b acts), finish (run_acts (b + d) acts) with
  | Ok r1, Ok r2 =>
    r_lines r2 = r_lines r1 /\ r_size r2 = r_size r1 /\
    r_comments r2 = map (shiftg d) (r_comments r1) /\ Forall2 (relp d) (r_poss r1) (r_poss r2)
  | Panic w1, Panic w2 => w1 = w2
  | _, _ => False
  end.
Proof.
  intros Hb Hbd Hok. unfold run_acts.
  set (s1 := init_r b). set (s2 := init_r (b + d)).
  assert (H0 : rel s1 s2 d 0 s1 s2).
  { apply rel_start; cbn; try lia; try reflexivity. }
  assert (Hk : 0 = d - (base s2 - base s1)) by (cbn; lia).
  assert (Hid : Forall (fun a => Forall (id_free s1 s2) (act_ids a)) acts).
  { apply Forall_forall. intros a _. apply Forall_forall. intros id _. repeat split; cbn; intros; auto. }
  pose proof (rel_run s1 s2 d 0 Hk acts s1 s2 Hid Hok H0) as [B1 B2 C l1 l2 Fr [L [LA LB]] [G [GA GB]] [P1 [P2 [PA [PB PR]]]] Se Pa].
  set (t1 := fold_left rstep acts s1) in *. set (t2 := fold_left rstep acts s2) in *.
  unfold finish. rewrite <- Pa. destruct (panic t1); [reflexivity|].
  cbn [comments lines poss init_r s1 s2] in *. rewrite app_nil_r in GA, GB, PA, PB.
  assert (Hl : lines t2 = lines t1).
  { rewrite LA, LB. f_equal. clear. induction L as [|x r IH]; cbn; [reflexivity|]. rewrite IH. reflexivity. }
  assert (Hne : groups_nonempty (comments t1)) by (apply run_nonempty; constructor).
  assert (Hfe : file_end t2 = file_end t1 + d).
  { unfold file_end. rewrite Hl, GB, B1, B2, C. rewrite GA in Hne |- *. cbn [base init_r s1 s2].
    rewrite (file_end_comments_shift d _ Hne). apply file_end_lines_same. }
  rewrite Hfe, B1, B2, Hl. cbn [base init_r s1 s2].
  replace (file_end t1 + d - (b + d)) with (file_end t1 - b) by lia.
  destruct (strictly_increasing (rev (lines t1)) && forallb (fun o => Z.ltb o (file_end t1 - b)) (rev (lines t1))); [|reflexivity].
  cbn. repeat split.
  - rewrite GB, GA, <- map_rev. reflexivity.
  - rewrite PA, PB. clear -PR. induction PR as [|x y l l' Hxy Hr IH]; cbn; [constructor|].
    apply Forall2_app; [exact IH|constructor; [exact Hxy|constructor]].
Qed.
