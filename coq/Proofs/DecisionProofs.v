(* The translated sources of the three decision functions compute the hand models -- for EVERY
   abstract state, not only the enumerated ones: the programs and the models depend on the strings
   inside a state (package paths, the Parent.Field name) only through the predicates, so a case
   split on the constructors and on the remaining boolean tests decides the equation. *)
From Coq Require Import List String Bool.
Import ListNotations.
From DV Require Import Model.Resolvers Model.Decision Model.DecisionInterp Gen.DecisionSrc.
Local Open Scope string_scope.
Local Open Scope list_scope.

Ltac split_ifs :=
  repeat match goal with
         | |- context [if ?c then _ else _] => let E := fresh "E" in destruct c eqn:E
         end.

Theorem gotypes_source_is_model : forall g,
  out_string (gotypes_syms g) (run (fun p => str_case p (gotypes_preds g) false) gotypes_resolveident_src) = gotypes_resolve (g_occ g).
Proof.
  intros [ps fs x u].
  destruct ps, fs; destruct x as [|[[imp [pk|]|f [pk|]|[pk|]]|]]; destruct u as [[imp' [pk'|]|f' [pk'|]|[pk'|]]|];
    try destruct f; try destruct f'; vm_compute; reflexivity.
Qed.

Theorem goast_source_is_model : forall a,
  out_string (goast_syms a) (run (fun p => str_case p (goast_preds a) false) goast_resolveident_src) = goast_model a.
Proof.
  intros [sf ps fs x xo t].
  destruct sf, ps, fs, xo; destruct x as [n|]; try (vm_compute; reflexivity).
  all: cbv [goast_model a_scan_fails a_parent_sel a_field_sel a_x a_x_obj a_table goast_resolve andb negb];
    cbv [out_string run run_stmt goast_resolveident_src goast_preds goast_syms str_case xorb a_scan_fails a_parent_sel a_field_sel a_x a_x_obj a_table negb];
    cbn [find fst snd String.eqb Ascii.eqb Bool.eqb andb];
    induction t as [|[k v] r IH]; cbn [existsb find fst snd]; try reflexivity;
    destruct (String.eqb k n); cbn [orb]; [reflexivity|exact IH].
Qed.

Theorem resolvepath_source_is_model : forall p,
  out_string (resolvepath_syms p) (run (fun q => str_case q (resolvepath_preds p) false) resolvepath_src) = resolvepath_model p.
Proof.
  intros [f pf te rf raw loc rl].
  cbv [resolvepath_model resolve_path p_force p_pf p_type_expr p_resolver_fails p_raw p_local p_resolve_local].
  cbv [out_string run run_stmt resolvepath_src resolvepath_preds resolvepath_syms str_case xorb p_force p_pf p_type_expr p_resolver_fails p_raw p_local p_resolve_local].
  cbn [find fst snd String.eqb Ascii.eqb Bool.eqb].
  destruct f, te, rf, rl; destruct (in_avoid pf); destruct (String.eqb (strip_vendor raw) (strip_vendor loc)); cbn; reflexivity.
Qed.

(* the two package-name resolvers: pure decision programs over their map (no statement assigns
   anything: an assignment is outside the language), computing the models for every map and path *)
Theorem guess_source_is_model : forall m p,
  out_string (pkgres_syms m p) (run (fun q => str_case q (pkgres_preds m p) false) guess_resolvepackage_src) = guess_resolve m p.
Proof.
  intros m p. unfold guess_resolve.
  cbv [out_string run run_stmt guess_resolvepackage_src pkgres_preds pkgres_syms str_case xorb].
  cbn [find fst snd String.eqb Ascii.eqb Bool.eqb].
  destruct (map_get m p); [reflexivity|]. destruct (contains_slash p); reflexivity.
Qed.

Theorem simple_source_is_model : forall m p,
  out_string (pkgres_syms m p) (run (fun q => str_case q (pkgres_preds m p) false) simple_resolvepackage_src) =
  match simple_resolve m p with Some n => n | None => "<error>" end.
Proof.
  intros m p. unfold simple_resolve.
  cbv [out_string run run_stmt simple_resolvepackage_src pkgres_preds pkgres_syms str_case xorb].
  cbn [find fst snd String.eqb Ascii.eqb Bool.eqb].
  destruct (map_get m p); reflexivity.
Qed.
