(* C06: restoring a clone renders exactly what restoring the original renders.
   flatten tbl managed pkg (normalize t) = flatten tbl managed pkg t for every tree, given that the
   restorer table never restores an Init field (FuncDecl.Type) as a node of its own; with
   CloneProofs.clone_exact (clone = normalize): the clone prints as the original does. *)
From Coq Require Import List String ZArith NArith Bool Lia.
Import ListNotations.
From DV Require Import Model.Tree Model.Tables Model.Restore Model.Clone Proofs.TreeInd.
Local Open Scope string_scope.
Local Open Scope list_scope.

(* ---- what the restorer reads of two related restored trees --------------------------------------- *)
Definition vrel (x y : string * val) : Prop := fst x = fst y /\ drop_ref (snd x) = drop_ref (snd y).

Inductive kid_rel (R : rtree -> rtree -> Prop) (loose : bool) : kid rtree -> kid rtree -> Prop :=
| KR_none : kid_rel R loose (One None) (One None)
| KR_one a b : R a b -> (loose = false -> rt_acts a = rt_acts b) -> kid_rel R loose (One (Some a)) (One (Some b))
| KR_many l l' : Forall2 (fun a b => R a b /\ rt_acts a = rt_acts b) l l' -> kid_rel R loose (Many l) (Many l').

Inductive rsim : rtree -> rtree -> Prop :=
| RSim r r' :
    tid (rt_tree r) = tid (rt_tree r') -> tkind (rt_tree r) = tkind (rt_tree r') ->
    tdecs (rt_tree r) = tdecs (rt_tree r') ->
    Forall2 vrel (tvals (rt_tree r)) (tvals (rt_tree r')) ->
    Forall2 (fun x y => fst x = fst y /\ kid_rel rsim (is_init_field (tkind (rt_tree r)) (fst x)) (snd x) (snd y))
            (rt_kids r) (rt_kids r') ->
    rsim r r'.

Definition kids_rel (k : string) (rk rk' : list (string * kid rtree)) : Prop :=
  Forall2 (fun x y => fst x = fst y /\ kid_rel rsim (is_init_field k (fst x)) (snd x) (snd y)) rk rk'.

Lemma lookup_rel {A B} (Q : string -> A -> B -> Prop) (l : list (string * A)) (l' : list (string * B)) f :
  Forall2 (fun x y => fst x = fst y /\ Q (fst x) (snd x) (snd y)) l l' ->
  match lookup l f, lookup l' f with
  | Some a, Some b => Q f a b
  | None, None => True
  | _, _ => False
  end.
Proof.
  induction 1 as [|[k a] [k' b] l l' [Hk HQ] _ IH]; cbn; [exact I|].
  cbn in Hk, HQ. subst k'. destruct (String.eqb_spec f k) as [->|Hne]; [exact HQ|exact IH].
Qed.

(* is the node at the end of the path restored with its own spacing?  [f]: f is not an Init field
   of the kind; deeper paths: the last component is not an Init field of any kind *)
Definition init_name (f : string) : bool := existsb (fun e => String.eqb (snd e) f) init_fields.

Fixpoint last_of (p : path) : string := match p with [] => "" | [f] => f | _ :: r => last_of r end.

Definition path_safe (k : string) (p : path) : bool :=
  match p with
  | [f] => negb (is_init_field k f)
  | _ => negb (init_name (last_of p))
  end.

Lemma init_field_name k f : is_init_field k f = true -> init_name f = true.
Proof.
  unfold is_init_field, init_name. intros H. apply existsb_exists in H. destruct H as [e [He H]].
  apply andb_true_iff in H. destruct H as [_ H]. apply existsb_exists. exists e. split; assumption.
Qed.

Lemma kid_rel_weaken R b k k' : kid_rel R false k k' -> kid_rel R b k k'.
Proof. intros H. destruct H; constructor; auto. Qed.

Lemma sub_rel : forall p k rk rk', kids_rel k rk rk' ->
  match sub rk p, sub rk' p with
  | Some a, Some b => kid_rel rsim (negb (path_safe k p)) a b
  | None, None => True
  | _, _ => False
  end.
Proof.
  induction p as [|f p IH]; intros k rk rk' H; [exact I|].
  destruct p as [|g rest].
  - cbn [sub path_safe]. rewrite negb_involutive. apply (lookup_rel (fun f a b => kid_rel rsim (is_init_field k f) a b) _ _ f H).
  - change (sub rk (f :: g :: rest)) with (match lookup rk f with Some (One (Some r)) => sub (rt_kids r) (g :: rest) | _ => None end).
    change (sub rk' (f :: g :: rest)) with (match lookup rk' f with Some (One (Some r)) => sub (rt_kids r) (g :: rest) | _ => None end).
    assert (L := lookup_rel (fun f a b => kid_rel rsim (is_init_field k f) a b) _ _ f H).
    destruct (lookup rk f) as [a|], (lookup rk' f) as [b|]; try contradiction; try exact I.
    destruct L as [|a b Hab _|l l' _]; try exact I.
    destruct Hab as [r r' _ Hk _ _ Hkids].
    specialize (IH (tkind (rt_tree r)) (rt_kids r) (rt_kids r') Hkids).
    destruct (sub (rt_kids r) (g :: rest)) as [x|], (sub (rt_kids r') (g :: rest)) as [y|]; try contradiction; try exact I.
    assert (E : negb (path_safe k (f :: g :: rest)) = true -> negb (path_safe (tkind (rt_tree r)) (g :: rest)) = true -> True) by auto.
    clear E. unfold path_safe at 1. cbn [last_of]. fold (last_of (g :: rest)).
    destruct rest as [|h rest'].
    + cbn [path_safe last_of] in *. rewrite negb_involutive in *.
      destruct (is_init_field (tkind (rt_tree r)) g) eqn:Ei.
      * rewrite (init_field_name _ _ Ei). exact IH.
      * apply kid_rel_weaken. exact IH.
    + exact IH.
Qed.

Lemma owner_rel : forall p t t' k rk rk', tdecs t = tdecs t' -> kids_rel k rk rk' ->
  match owner t rk p, owner t' rk' p with
  | Some o, Some o' => tdecs o = tdecs o'
  | None, None => True
  | _, _ => False
  end.
Proof.
  induction p as [|f p IH]; intros t t' k rk rk' Hd H; cbn [owner]; [exact Hd|].
  assert (L := lookup_rel (fun f a b => kid_rel rsim (is_init_field k f) a b) _ _ f H).
  destruct (lookup rk f) as [a|], (lookup rk' f) as [b|]; try contradiction; try exact I.
  destruct L as [|a b Hab _|l l' _]; try exact I.
  destruct Hab as [r r' _ _ Hdd _ Hkids]. apply (IH _ _ (tkind (rt_tree r))); assumption.
Qed.

Definition vsim (a b : option val) : Prop :=
  match a, b with Some v, Some v' => drop_ref v = drop_ref v' | None, None => True | _, _ => False end.

Lemma val_at_rel : forall p t t' k rk rk', Forall2 vrel (tvals t) (tvals t') -> kids_rel k rk rk' ->
  vsim (val_at t rk p) (val_at t' rk' p).
Proof.
  induction p as [|f p IH]; intros t t' k rk rk' Hv H; [exact I|].
  destruct p as [|g rest].
  - cbn [val_at]. apply (lookup_rel (fun _ a b => drop_ref a = drop_ref b) _ _ f Hv).
  - change (val_at t rk (f :: g :: rest)) with (match lookup rk f with Some (One (Some r)) => val_at (rt_tree r) (rt_kids r) (g :: rest) | _ => None end).
    change (val_at t' rk' (f :: g :: rest)) with (match lookup rk' f with Some (One (Some r)) => val_at (rt_tree r) (rt_kids r) (g :: rest) | _ => None end).
    assert (L := lookup_rel (fun f a b => kid_rel rsim (is_init_field k f) a b) _ _ f H).
    destruct (lookup rk f) as [a|], (lookup rk' f) as [b|]; try contradiction; try exact I.
    destruct L as [|a b Hab _|l l' _]; try exact I.
    destruct Hab as [r r' _ _ _ Hvv Hkids]. apply (IH _ _ (tkind (rt_tree r))); assumption.
Qed.

Lemma kid_nil_rel b (a a' : option (kid rtree)) :
  match a, a' with Some x, Some y => kid_rel rsim b x y | None, None => True | _, _ => False end ->
  kid_nil a = kid_nil a'.
Proof.
  destruct a as [x|], a' as [y|]; try contradiction; [|reflexivity].
  intros H. destruct H as [|? ? _ _|l l' Hl]; cbn; try reflexivity. destruct Hl; reflexivity.
Qed.

Section Stmt.
Variables (t t' : tree) (rk rk' : list (string * kid rtree)).
Hypothesis Hid : tid t = tid t'.
Hypothesis Hkind : tkind t = tkind t'.
Hypothesis Hdecs : tdecs t = tdecs t'.
Hypothesis Hvals : Forall2 vrel (tvals t) (tvals t').
Hypothesis Hkids : kids_rel (tkind t) rk rk'.
Hypothesis Hb : tbefore t = tbefore t'.
Hypothesis Ha : tafter t = tafter t'.

Ltac vcase p :=
  let V := fresh "V" in
  assert (V := val_at_rel p t t' (tkind t) rk rk' Hvals Hkids); unfold vsim in V;
  destruct (val_at t rk p) as [[]|], (val_at t' rk' p) as [[]|]; cbn in V; try contradiction; try discriminate;
  try (inversion V; subst); try reflexivity.

Lemma eval_cond_rel c : eval_cond t rk c = eval_cond t' rk' c.
Proof.
  destruct c; cbn [eval_cond]; try reflexivity.
  - rewrite (kid_nil_rel _ _ _ (sub_rel p _ _ _ Hkids)). reflexivity.
  - rewrite (kid_nil_rel _ _ _ (sub_rel p _ _ _ Hkids)). reflexivity.
  - vcase p.
  - vcase p.
  - vcase p.
  - vcase p.
  - vcase p.
  - vcase p.
Qed.

Lemma tok_len_rel x : tok_len t rk x = tok_len t' rk' x.
Proof.
  induction x as [n s|p|c a IHa b IHb|s]; cbn [tok_len]; try reflexivity.
  - vcase p.
  - rewrite eval_cond_rel, IHa, IHb. reflexivity.
Qed.

Definition stmt_safe (s : rstmt) : bool := forallb (path_safe (tkind t)) (rest_node_paths s).

Lemma kid_acts_rel p :
  path_safe (tkind t) p = true ->
  match sub rk p with Some k => kid_acts k | None => [] end = match sub rk' p with Some k => kid_acts k | None => [] end.
Proof.
  intros Hs. assert (R := sub_rel p _ _ _ Hkids). rewrite Hs in R. cbn [negb] in R.
  destruct (sub rk p) as [a|], (sub rk' p) as [b|]; try contradiction; [|reflexivity].
  destruct R as [|x y _ Hacts|l l' Hl]; cbn [kid_acts]; [reflexivity|apply Hacts; reflexivity|].
  induction Hl as [|x y l l' [_ E] _ IH]; cbn; [reflexivity|rewrite E, IH; reflexivity].
Qed.

Lemma go_paths (l : list rstmt) :
  (fix go (l : list rstmt) := match l with [] => [] | x :: r => rest_node_paths x ++ go r end) l = flat_map rest_node_paths l.
Proof. induction l as [|x r IH]; [reflexivity|]. cbn [flat_map]. rewrite <- IH. reflexivity. Qed.

Lemma go_acts tt rrk (l : list rstmt) :
  (fix go (l : list rstmt) : list action := match l with [] => [] | x :: r => stmt_acts tt rrk x ++ go r end) l
  = flat_map (stmt_acts tt rrk) l.
Proof. induction l as [|x r IH]; [reflexivity|]. cbn [flat_map]. rewrite <- IH. reflexivity. Qed.

Lemma stmt_acts_if tt rrk c th el :
  stmt_acts tt rrk (RIf c th el) =
  match eval_cond tt rrk c with
  | Some b => flat_map (stmt_acts tt rrk) (if b then th else el)
  | None => [APanic "bad condition"]
  end.
Proof. cbn [stmt_acts]. destruct (eval_cond tt rrk c); [rewrite go_acts|]; reflexivity. Qed.

(* induction over statements with nested lists *)
Fixpoint ssize (s : rstmt) : nat :=
  match s with
  | RIf _ th el => S ((fix go (l : list rstmt) := match l with [] => O | x :: r => (ssize x + go r)%nat end) th +
                      (fix go (l : list rstmt) := match l with [] => O | x :: r => (ssize x + go r)%nat end) el)
  | _ => 1%nat
  end.

Lemma ssize_in l x :
  In x l -> (ssize x <= (fix go (l : list rstmt) := match l with [] => O | x :: r => (ssize x + go r)%nat end) l)%nat.
Proof. induction l as [|y r IH]; intros H; [destruct H|]. destruct H as [->|H]; [lia|]. specialize (IH H). lia. Qed.

Lemma stmt_acts_rel : forall n s, (ssize s <= n)%nat -> stmt_safe s = true -> stmt_acts t rk s = stmt_acts t' rk' s.
Proof.
  induction n as [|n IH]; intros s Hn Hs; [destruct s; cbn in Hn; lia|].
  destruct s; try reflexivity.
  - (* RMapAstAt *) cbn [stmt_acts]. assert (R := sub_rel p _ _ _ Hkids).
    destruct (sub rk p) as [a|], (sub rk' p) as [b|]; try contradiction; [|reflexivity].
    destruct R as [|x y Hxy _|l l' _]; try reflexivity. destruct Hxy as [r r' Hi _ _ _ _]. rewrite Hi. reflexivity.
  - (* RSpace *) cbn [stmt_acts]. rewrite Hkind, Hb, Ha. reflexivity.
  - (* RDec *) cbn [stmt_acts]. rewrite Hid, Hkind. assert (R := owner_rel owner t t' _ rk rk' Hdecs Hkids).
    destruct (Restore.owner t rk owner) as [o|], (Restore.owner t' rk' owner) as [o'|]; try contradiction; [|reflexivity].
    rewrite R. reflexivity.
  - cbn [stmt_acts]. rewrite Hid. reflexivity.
  - cbn [stmt_acts]. rewrite Hid. reflexivity.
  - cbn [stmt_acts]. rewrite tok_len_rel. reflexivity.
  - cbn [stmt_acts]. vcase p.
  - cbn [stmt_acts]. vcase p.
  - cbn [stmt_acts]. vcase p.
  - (* RNode *) cbn [stmt_acts]. apply kid_acts_rel. unfold stmt_safe in Hs. cbn [rest_node_paths forallb] in Hs. apply andb_true_iff in Hs. exact (proj1 Hs).
  - cbn [stmt_acts]. apply kid_acts_rel. unfold stmt_safe in Hs. cbn [rest_node_paths forallb] in Hs. apply andb_true_iff in Hs. exact (proj1 Hs).
  - cbn [stmt_acts]. apply kid_acts_rel. unfold stmt_safe in Hs. cbn [rest_node_paths forallb] in Hs. apply andb_true_iff in Hs. exact (proj1 Hs).
  - (* RIf *) rewrite !stmt_acts_if, eval_cond_rel.
    unfold stmt_safe in Hs. cbn [rest_node_paths] in Hs. rewrite !go_paths, forallb_app in Hs. apply andb_true_iff in Hs. destruct Hs as [Hth Hel].
    cbn [ssize] in Hn.
    assert (Hall : forall l, (forall x, In x l -> (ssize x <= n)%nat) -> forallb (path_safe (tkind t)) (flat_map rest_node_paths l) = true ->
                   flat_map (stmt_acts t rk) l = flat_map (stmt_acts t' rk') l).
    { induction l as [|x r IHl]; intros Hsz Hsafe; [reflexivity|]. cbn [flat_map] in *. rewrite forallb_app in Hsafe. apply andb_true_iff in Hsafe.
      destruct Hsafe as [S1 S2]. rewrite (IH x (Hsz x (or_introl eq_refl)) S1), (IHl (fun y Hy => Hsz y (or_intror Hy)) S2). reflexivity. }
    destruct (eval_cond t' rk' c) as [[|]|]; [| |reflexivity].
    + apply Hall; [|exact Hth]. intros x Hx. assert (X := ssize_in th x Hx). lia.
    + apply Hall; [|exact Hel]. intros x Hx. assert (X := ssize_in el x Hx). lia.
Qed.

Lemma stmts_acts_rel l : forallb stmt_safe l = true -> stmts_acts t rk l = stmts_acts t' rk' l.
Proof.
  unfold stmts_acts. induction l as [|s r IH]; intros H; [reflexivity|]. cbn [forallb flat_map] in *. apply andb_true_iff in H. destruct H as [H1 H2].
  rewrite (stmt_acts_rel (ssize s) s (le_n _) H1), (IH H2). reflexivity.
Qed.

Lemma lookup_vals_rel f : vsim (lookup (tvals t) f) (lookup (tvals t') f).
Proof. apply (lookup_rel (fun _ a b => drop_ref a = drop_ref b) _ _ f Hvals). Qed.

Lemma ident_path_uid_rel : ident_path_uid t = ident_path_uid t'.
Proof.
  unfold ident_path_uid. assert (V := lookup_vals_rel "Path"). unfold vsim in V.
  destruct (lookup (tvals t) "Path") as [[]|], (lookup (tvals t') "Path") as [[]|]; cbn in V; try contradiction; try discriminate;
    try (inversion V; subst); reflexivity.
Qed.

Lemma ident_name_len_rel : ident_name_len t = ident_name_len t'.
Proof.
  unfold ident_name_len. assert (V := lookup_vals_rel "Name"). unfold vsim in V.
  destruct (lookup (tvals t) "Name") as [[]|], (lookup (tvals t') "Name") as [[]|]; cbn in V; try contradiction; try discriminate;
    try (inversion V; subst); reflexivity.
Qed.

Lemma node_acts_rel tbl managed pkg :
  forallb stmt_safe (tbl_parts tbl (RUnknown "no case") (tkind t)) = true ->
  node_acts tbl managed pkg t rk = node_acts tbl managed pkg t' rk'.
Proof.
  intros Hs. unfold node_acts. rewrite <- Hkind, <- Hid, <- ident_path_uid_rel.
  destruct (tbl_parts tbl (RUnknown "no case") (tkind t)) as [|s0 rest] eqn:E; [reflexivity|].
  assert (Hall := stmts_acts_rel _ Hs).
  assert (Hrest : stmts_acts t rk rest = stmts_acts t' rk' rest).
  { apply stmts_acts_rel. cbn [forallb] in Hs. apply andb_true_iff in Hs. exact (proj2 Hs). }
  destruct s0; try (f_equal; exact Hall).
  f_equal. destruct (N.eqb (ident_path_uid t) 0); [exact Hrest|]. destruct managed; [|reflexivity].
  destruct (pkg (ident_path_uid t)); [|exact Hrest].
  unfold selector_acts, dec_of. rewrite <- Hid, <- Hb, <- Ha, <- Hdecs, <- ident_name_len_rel. reflexivity.
Qed.

End Stmt.

(* ---- the table condition --------------------------------------------------------------------------- *)
Definition tbl_safe (tbl : list (string * list rstmt)) : bool :=
  forallb (fun e => forallb (fun s => forallb (path_safe (fst e)) (rest_node_paths s)) (snd e)) tbl.

Lemma lookup_In_tbl {A} (l : list (string * A)) k v : lookup l k = Some v -> In (k, v) l.
Proof.
  induction l as [|[k' v'] r IH]; cbn; [discriminate|]. destruct (String.eqb_spec k k') as [->|Hne]; intros H; [inversion H; left; reflexivity|right; auto].
Qed.

Lemma tbl_safe_kind tbl t : tbl_safe tbl = true -> forallb (stmt_safe t) (tbl_parts tbl (RUnknown "no case") (tkind t)) = true.
Proof.
  intros H. unfold tbl_parts. destruct (lookup tbl (tkind t)) as [stmts|] eqn:E; [|reflexivity].
  unfold tbl_safe in H. rewrite forallb_forall in H. exact (H _ (lookup_In_tbl _ _ _ E)).
Qed.

Lemma drop_ref_idem v : drop_ref (drop_ref v) = drop_ref v.
Proof. destruct v; reflexivity. Qed.

Section Tree.
Variables (tbl : list (string * list rstmt)) (managed : bool) (pkg : N -> option Z).
Hypothesis Hsafe : tbl_safe tbl = true.

Let B := build tbl managed pkg.

Definition P (t : tree) : Prop :=
  rsim (B (normalize t)) (B t) /\ rt_acts (B (normalize t)) = rt_acts (B t) /\ rsim (B (strip_space (normalize t))) (B t).

Definition bkid (k : kid tree) : kid rtree :=
  match k with One (Some c) => One (Some (B c)) | One None => One None | Many l => Many (map B l) end.

Lemma build_eq t : B t = RT t (node_acts tbl managed pkg t (map (fun p => (fst p, bkid (snd p))) (tkids t))) (map (fun p => (fst p, bkid (snd p))) (tkids t)).
Proof. destruct t. reflexivity. Qed.

Definition nkid (k : string) (fk : string * kid tree) : string * kid tree :=
  (fst fk, match snd fk with
           | One (Some c) => One (Some (if is_init_field k (fst fk) then strip_space (normalize c) else normalize c))
           | One None => One None
           | Many l => Many (map normalize l)
           end).

Lemma kids_rel_build k kids :
  Forall (fun p => kid_all P (snd p)) kids ->
  kids_rel k (map (fun p => (fst p, bkid (snd p))) (map (nkid k) kids)) (map (fun p => (fst p, bkid (snd p))) kids).
Proof.
  unfold kids_rel. induction 1 as [|[f kd] r Hk _ IH]; cbn [map]; constructor; [|exact IH].
  cbn [fst snd nkid]. split; [reflexivity|]. cbn [snd] in Hk.
  destruct kd as [[c|]|l]; cbn [bkid kid_all] in *.
  - destruct Hk as [H1 [H2 H3]]. destruct (is_init_field k f); constructor; auto. intros X. discriminate.
  - constructor.
  - constructor. induction Hk as [|c l [H1 [H2 _]] _ IHl]; cbn [map]; constructor; auto.
Qed.

Theorem normalize_P : forall t, P t.
Proof.
  apply tree_ind'. intros id k vals kids decs b a Hk.
  set (t := Node id k vals kids decs b a).
  set (vals' := map (fun fv : string * val => (fst fv, drop_ref (snd fv))) vals).
  set (tn := Node id k vals' (map (nkid k) kids) decs b a).
  assert (En : normalize t = tn) by reflexivity.
  assert (Hv : Forall2 vrel vals' vals).
  { unfold vals'. clear. induction vals as [|[f v] r IH]; cbn [map]; constructor; [|exact IH]. split; [reflexivity|apply drop_ref_idem]. }
  assert (Hkr := kids_rel_build k kids Hk).
  unfold P. rewrite En. change (strip_space tn) with (Node id k vals' (map (nkid k) kids) decs SNone SNone).
  rewrite !build_eq. cbn [tkids].
  split; [|split].
  - constructor; cbn [rt_tree rt_kids tid tkind tdecs tvals]; auto.
  - cbn [rt_acts]. apply node_acts_rel; cbn [tid tkind tdecs tvals tbefore tafter]; auto. apply tbl_safe_kind. exact Hsafe.
  - constructor; cbn [rt_tree rt_kids tid tkind tdecs tvals]; auto.
Qed.

Theorem normalize_renders_the_same t : flatten tbl managed pkg (normalize t) = flatten tbl managed pkg t.
Proof. unfold flatten. exact (proj1 (proj2 (normalize_P t))). Qed.

End Tree.
