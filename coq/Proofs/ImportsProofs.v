(* C07 / C17 / C08: theorems about the updateImports model. *)
From Coq Require Import List String ZArith NArith Bool Ascii Lia.
From Coq Require DecimalString DecimalNat FinFun.
Import ListNotations.
From DV Require Import Model.Tree Model.Imports.
Local Open Scope string_scope.
Local Open Scope list_scope.

(* ---- strings --------------------------------------------------------------------------- *)
Lemma append_inv_head (p a b : string) : (p ++ a)%string = (p ++ b)%string -> a = b.
Proof. induction p as [|c p IH]; cbn; intros H; [exact H|]. inversion H. auto. Qed.

Lemma append_length (a b : string) : String.length (a ++ b)%string = String.length a + String.length b.
Proof. induction a; cbn; auto. Qed.

Lemma nat_str_inj j k : nat_str j = nat_str k -> j = k.
Proof.
  unfold nat_str. intros H.
  apply DecimalNat.Unsigned.to_uint_inj.
  assert (E : DecimalString.NilEmpty.uint_of_string (DecimalString.NilEmpty.string_of_uint (Nat.to_uint j))
            = DecimalString.NilEmpty.uint_of_string (DecimalString.NilEmpty.string_of_uint (Nat.to_uint k))) by (rewrite H; reflexivity).
  rewrite !DecimalString.NilEmpty.usu in E. inversion E. reflexivity.
Qed.

Lemma nat_str_nonempty k : nat_str k <> "".
Proof.
  unfold nat_str. intros H.
  assert (E : Nat.to_uint k = Decimal.Nil).
  { assert (E' : DecimalString.NilEmpty.uint_of_string (DecimalString.NilEmpty.string_of_uint (Nat.to_uint k)) = Some Decimal.Nil)
      by (rewrite H; reflexivity).
    rewrite DecimalString.NilEmpty.usu in E'. inversion E'. reflexivity. }
  assert (K : k = 0) by (rewrite <- (DecimalNat.Unsigned.of_to k), E; reflexivity).
  subst k. discriminate E.
Qed.

Definition cand (pref : string) (k : nat) : string := match k with O => pref | _ => (pref ++ nat_str k)%string end.

Lemma cand_inj pref j k : cand pref j = cand pref k -> j = k.
Proof.
  destruct j as [|j], k as [|k]; cbn [cand]; intros H; auto.
  - exfalso. apply (nat_str_nonempty (S k)).
    assert (L : String.length pref = String.length pref + String.length (nat_str (S k))) by (rewrite <- append_length, <- H; reflexivity).
    destruct (nat_str (S k)); [reflexivity|cbn in L; lia].
  - exfalso. apply (nat_str_nonempty (S j)).
    assert (L : String.length pref + String.length (nat_str (S j)) = String.length pref) by (rewrite <- append_length, H; reflexivity).
    destruct (nat_str (S j)); [reflexivity|cbn in L; lia].
  - apply append_inv_head in H. apply nat_str_inj. exact H.
Qed.

Lemma mem_In x l : mem x l = true <-> In x l.
Proof.
  induction l as [|y r IH]; cbn; [split; [discriminate|tauto]|].
  rewrite orb_true_iff, IH, String.eqb_eq. split; intros [A|A]; auto.
Qed.

(* ---- the conflict loop terminates with a free name --------------------------------------- *)
Lemma find_free_spec names pref : forall fuel k,
  (forall j, j < k -> mem (cand pref j) names = true) ->
  List.length names < fuel + k ->
  exists m, find_free fuel names pref (cand pref k) (S k) = cand pref m /\
            (negb (cand pref m =? "") && mem (cand pref m) names) = false.
Proof.
  induction fuel as [|f IH]; intros k Hall Hlen.
  - (* k distinct candidates all inside names: impossible *)
    exfalso. cbn in Hlen.
    assert (Hnd : NoDup (map (cand pref) (seq 0 k))).
    { apply FinFun.Injective_map_NoDup; [intros a b; apply cand_inj|apply seq_NoDup]. }
    assert (Hincl : incl (map (cand pref) (seq 0 k)) names).
    { intros s Hs. apply in_map_iff in Hs. destruct Hs as [j [<- Hj]]. apply in_seq in Hj.
      apply mem_In. apply Hall. lia. }
    pose proof (NoDup_incl_length Hnd Hincl) as L. rewrite map_length, seq_length in L. lia.
  - cbn [find_free]. destruct (negb (cand pref k =? "") && mem (cand pref k) names) eqn:E.
    + change (pref ++ nat_str (S k))%string with (cand pref (S k)).
      apply (IH (S k)); [|lia]. apply andb_true_iff in E. destruct E as [_ E].
      intros j Hj. destruct (Nat.eq_dec j k) as [->|Hne]; [exact E|apply Hall; lia].
    + exists k. split; [reflexivity|exact E].
Qed.

Theorem find_free_is_free names pref :
  let r := find_free (S (List.length names)) names pref pref 1 in (negb (r =? "") && mem r names) = false.
Proof.
  destruct (find_free_spec names pref (S (List.length names)) 0) as [m [Hm Hf]]; [intros j Hj; lia|lia|].
  change (cand pref 0) with pref in Hm. cbv zeta. rewrite Hm. exact Hf.
Qed.

(* ---- names chosen for ordinary imports are pairwise distinct ------------------------------ *)
Lemma aget_aset_same m k v : aget (aset m k v) k = Some v.
Proof. induction m as [|[k' v'] r IH]; cbn; [rewrite String.eqb_refl; reflexivity|].
  destruct (String.eqb_spec k k') as [->|Hne]; cbn; [rewrite String.eqb_refl; reflexivity|].
  destruct (String.eqb_spec k k'); [contradiction|exact IH]. Qed.

Lemma aget_aset_other m k v k' : k' <> k -> aget (aset m k v) k' = aget m k'.
Proof.
  intros Hne. induction m as [|[k0 v0] r IH]; cbn.
  - destruct (String.eqb_spec k' k); [contradiction|reflexivity].
  - destruct (String.eqb_spec k k0) as [->|Hk]; cbn.
    + destruct (String.eqb_spec k' k0); [contradiction|reflexivity].
    + destruct (String.eqb_spec k' k0); [reflexivity|exact IH].
Qed.

Lemma aset_fresh m k v : aget m k = None -> aset m k v = m ++ [(k, v)].
Proof.
  induction m as [|[k' v'] r IH]; cbn; [reflexivity|].
  destruct (String.eqb_spec k k') as [->|Hne]; [discriminate|]. intros H. f_equal. apply IH. exact H.
Qed.

Lemma NoDup_app_single {A} (l : list A) x : NoDup l -> ~ In x l -> NoDup (l ++ [x]).
Proof.
  induction l as [|a l IH]; cbn; intros Hd Hn; [constructor; [intros []|constructor]|].
  inversion Hd as [|? ? Ha Hd']; subst. constructor.
  - intros Hin. apply in_app_or in Hin. destruct Hin as [Hin|[<-|[]]]; [contradiction|]. apply Hn. left. reflexivity.
  - apply IH; [exact Hd'|]. intros Hin. apply Hn. right. exact Hin.
Qed.

(* names of ordinary (non dot, non blank) imports *)
Definition ordinary (names : amap) : list string := filter (fun n => negb (String.eqb n "")) (values names).

Lemma find_alias_free resolved names path preferred :
  fst (find_alias resolved names path preferred) = "" \/ ~ In (fst (find_alias resolved names path preferred)) (values names).
Proof.
  unfold find_alias.
  set (pref := if negb (preferred =? "") then preferred else match aget resolved path with Some n => n | None => "" end).
  pose proof (find_free_is_free (values names) pref) as H. cbv zeta in H.
  unfold values in *. rewrite map_length in H.
  set (r := find_free _ _ _ _ _) in *.
  assert (Hr : r = "" \/ ~ In r (map snd names)).
  { apply andb_false_iff in H. destruct H as [H|H].
    - left. apply negb_false_iff in H. apply String.eqb_eq in H. exact H.
    - right. intros Hin. apply mem_In in Hin. congruence. }
  destruct (negb (negb (preferred =? "")) && _); cbn [fst]; exact Hr.
Qed.

Theorem names_distinct resolved eff : forall ordered names aliases,
  NoDup ordered -> (forall p, In p ordered -> aget names p = None) -> NoDup (ordinary names) ->
  NoDup (ordinary (fst (fold_left (fun (st : amap * amap) path =>
               let '(names, aliases) := st in
               let alias := match aget eff path with Some a => a | None => "" end in
               if String.eqb alias "." || String.eqb alias "_" then (aset names path "", aset aliases path alias)
               else let '(n, a) := find_alias resolved names path alias in (aset names path n, aset aliases path a))
            ordered (names, aliases)))).
Proof.
  induction ordered as [|p r IH]; intros names aliases Hnd Hfresh Hdist; cbn [fold_left]; [exact Hdist|].
  inversion Hnd as [|? ? Hnotin Hnd']; subst.
  assert (Hp : aget names p = None) by (apply Hfresh; left; reflexivity).
  destruct ((match aget eff p with Some a => a | None => "" end =? ".") || (match aget eff p with Some a => a | None => "" end =? "_")) eqn:Hdot.
  - apply IH; [exact Hnd'| |].
    + intros q Hq. rewrite aget_aset_other; [apply Hfresh; right; exact Hq|]. intros ->. contradiction.
    + rewrite (aset_fresh _ _ _ Hp). unfold ordinary, values. rewrite map_app, filter_app. cbn. rewrite app_nil_r. exact Hdist.
  - destruct (find_alias resolved names p (match aget eff p with Some a => a | None => "" end)) as [n a] eqn:Hfa.
    apply IH; [exact Hnd'| |].
    + intros q Hq. rewrite aget_aset_other; [apply Hfresh; right; exact Hq|]. intros ->. contradiction.
    + rewrite (aset_fresh _ _ _ Hp). unfold ordinary, values. rewrite map_app, filter_app. cbn [map filter snd].
      destruct (negb (n =? "")) eqn:Hn; [|rewrite app_nil_r; exact Hdist].
      apply NoDup_app_single.
      * exact Hdist.
      * intros Hin. apply filter_In in Hin. destruct Hin as [Hin _].
        pose proof (find_alias_free resolved names p (match aget eff p with Some a => a | None => "" end)) as Hfree.
        rewrite Hfa in Hfree. cbn [fst] in Hfree. destruct Hfree as [He|Hfree]; [subst n; discriminate|]. apply Hfree. exact Hin.
Qed.

(* ---- failure: reported before anything is built -------------------------------------------- *)
Lemma resolve_all_failed resolve eff : forall ps acc p,
  resolve_all resolve eff ps acc = inl p -> In p ps /\ resolve p = None /\ ahas eff p = false.
Proof.
  induction ps as [|q r IH]; cbn; intros acc p H; [discriminate|].
  destruct (ahas eff q) eqn:E.
  - destruct (IH _ _ H) as [A B]. split; [right; exact A|exact B].
  - destruct (resolve q) eqn:R.
    + destruct (IH _ _ H) as [A B]. split; [right; exact A|exact B].
    + inversion H; subst. split; [left; reflexivity|split; assumption].
Qed.

Lemma resolve_all_ok resolve eff : forall ps acc,
  (forall p, In p ps -> ahas eff p = false -> resolve p <> None) ->
  exists resolved, resolve_all resolve eff ps acc = inr resolved.
Proof.
  induction ps as [|q r IH]; cbn; intros acc H; [eauto|].
  destruct (ahas eff q) eqn:E; [apply IH; intros; apply H; auto|].
  destruct (resolve q) eqn:R; [apply IH; intros; apply H; auto|].
  exfalso. apply (H q); auto.
Qed.

(* A failing run names a referenced, non-aliased path the resolver rejects; it returns nothing
   else: no block, no name is produced (the file of the model is the input, untouched). *)
Theorem update_imports_failure resolve local alias all_blocks used p :
  update_imports resolve local alias all_blocks used = Failed p ->
  In p (in_use local used) /\ resolve p = None /\ ahas (eff_of local alias all_blocks used) p = false.
Proof.
  unfold update_imports. cbn zeta.
  destruct (resolve_all resolve (eff_of local alias all_blocks used) (in_use local used) []) as [q|resolved] eqn:E.
  - intros H. inversion H; subst. apply (resolve_all_failed _ _ _ _ _ E).
  - destruct (assign_names _ _ _). destruct (rebuild_blocks _ _ _ _ _) as [[[? ?] ?] ?]. discriminate.
Qed.

(* and it fails only then: if every referenced path without an effective alias resolves, the
   update succeeds *)
Theorem update_imports_succeeds resolve local alias all_blocks used :
  (forall p, In p (in_use local used) -> ahas (eff_of local alias all_blocks used) p = false -> resolve p <> None) ->
  exists bs del names nb added, update_imports resolve local alias all_blocks used = Done bs del names nb added.
Proof.
  intros H. unfold update_imports. cbn zeta.
  destruct (resolve_all_ok resolve (eff_of local alias all_blocks used) (in_use local used) [] H) as [resolved E].
  rewrite E. destruct (assign_names _ _ _). destruct (rebuild_blocks _ _ _ _ _) as [[[? ?] ?] ?]. eauto 10.
Qed.

(* ---- exactness: nothing but required paths remains in the managed blocks ------------------- *)
Lemma respace_paths l : forall fd, map s_path (respace fd l) = map s_path l.
Proof. induction l as [|s r IH]; intros fd; cbn; [reflexivity|]. destruct (has_dot (s_path s) && negb fd); cbn; f_equal; apply IH. Qed.

Definition all_required (required : list string) (b : block) : Prop :=
  Forall (fun s => mem (s_path s) required = true) (b_specs b).

Lemma update_block_paths required aliases b : all_required required (fst (update_block required aliases b)).
Proof.
  unfold all_required, update_block.
  set (specs := map (fix_spec aliases) (filter (fun s => mem (s_path s) required) (b_specs b))).
  assert (H : Forall (fun s => mem (s_path s) required = true) specs).
  { subst specs. apply Forall_forall. intros s Hin. apply in_map_iff in Hin. destruct Hin as [s0 [<- Hin]].
    apply filter_In in Hin. destruct Hin as [_ Hm]. exact Hm. }
  destruct (Nat.eqb _ _); [exact H|]. destruct (Nat.eqb _ 0); exact H.
Qed.

Lemma respace_head_required required l : Forall (all_required required) l -> Forall (all_required required) (respace_head l).
Proof.
  destruct l as [|b0 rest]; cbn; intros H; [constructor|]. inversion H as [|? ? H0 Hr]; subst. constructor; [|exact Hr].
  unfold all_required in *. cbn [b_specs]. apply Forall_forall. intros s Hs.
  assert (Hp : In (s_path s) (map s_path (respace false (b_specs b0)))) by (apply in_map; exact Hs).
  rewrite respace_paths in Hp. apply in_map_iff in Hp. destruct Hp as [s0 [Hp0 Hin0]].
  rewrite Forall_forall in H0. rewrite <- Hp0. apply H0. exact Hin0.
Qed.

Lemma finish_only_required required aliases added blocks2 :
  Forall (all_required required) (fst (finish_blocks required aliases added blocks2)).
Proof.
  unfold finish_blocks. cbn zeta. cbn [fst].
  match goal with |- Forall _ (filter _ ?l) => assert (H : Forall (all_required required) l) end.
  { match goal with |- Forall _ (if ?c then respace_head ?x else ?x) =>
      assert (Hx : Forall (all_required required) x) end.
    { apply Forall_forall. intros b Hb. apply in_map_iff in Hb. destruct Hb as [[b1 d1] [<- Hb]].
      apply in_map_iff in Hb. destruct Hb as [b2 [Hb _]]. rewrite <- Hb. apply update_block_paths. }
    destruct added; [apply respace_head_required|]; exact Hx. }
  apply Forall_forall. intros b Hb. apply filter_In in Hb. destruct Hb as [Hb _].
  rewrite Forall_forall in H. apply H. exact Hb.
Qed.

Lemma rebuild_only_required required aliases found ordered blocks :
  Forall (all_required required) (fst (fst (fst (rebuild_blocks required aliases found ordered blocks)))).
Proof.
  unfold rebuild_blocks. cbn zeta.
  match goal with |- context [finish_blocks ?r ?a ?ad ?b2] => pose proof (finish_only_required r a ad b2) as H; destruct (finish_blocks r a ad b2) as [bs del] end.
  cbn [fst] in *. exact H.
Qed.

Theorem only_required_imports_remain resolve local alias all_blocks used bs del names nb added :
  update_imports resolve local alias all_blocks used = Done bs del names nb added ->
  forall b s, In b bs -> In s (b_specs b) -> mem (s_path s) (required_paths local alias all_blocks used) = true.
Proof.
  unfold update_imports. cbn zeta.
  destruct (resolve_all _ _ _ _) as [q|resolved]; [discriminate|].
  destruct (assign_names _ _ _) as [names0 aliases].
  pose proof (rebuild_only_required (required_paths local alias all_blocks used) aliases (imports_found all_blocks)
                (sort_by (fun p0 => p0) (required_paths local alias all_blocks used))
                (filter (fun b => negb (is_cgo_only b)) all_blocks)) as Hreq.
  destruct (rebuild_blocks _ _ _ _ _) as [[[bs0 del0] nb0] added0]. cbn [fst] in Hreq.
  intros H. inversion H; subst. intros b s Hb Hs.
  rewrite Forall_forall in Hreq. specialize (Hreq b Hb). unfold all_required in Hreq.
  rewrite Forall_forall in Hreq. apply Hreq. exact Hs.
Qed.

(* ---- transparency: nothing to add, nothing to rename => the blocks are untouched ------------ *)
Lemma fix_spec_id aliases s : alias_of aliases (s_path s) = s_name s -> fix_spec aliases s = s.
Proof. intros H. unfold fix_spec. rewrite H. destruct s; reflexivity. Qed.

Lemma update_block_id required aliases b :
  (forall s, In s (b_specs b) -> mem (s_path s) required = true /\ alias_of aliases (s_path s) = s_name s) ->
  update_block required aliases b = (b, false).
Proof.
  intros H. unfold update_block.
  assert (Hf : filter (fun s => mem (s_path s) required) (b_specs b) = b_specs b).
  { induction (b_specs b) as [|s r IH]; cbn; [reflexivity|].
    destruct (H s (or_introl eq_refl)) as [Hm _]. rewrite Hm. f_equal. apply IH. intros s' Hs'. apply H. right. exact Hs'. }
  rewrite Hf.
  assert (Hm : map (fix_spec aliases) (b_specs b) = b_specs b).
  { rewrite <- (map_id (b_specs b)) at 2. apply map_ext_in. intros s Hs. apply fix_spec_id. apply H. exact Hs. }
  rewrite Hm. rewrite Nat.eqb_refl. destruct b; reflexivity.
Qed.

Lemma filter_snd_false {A} (l : list A) : filter (fun bd : A * bool => snd bd) (map (fun b => (b, false)) l) = [].
Proof. induction l; cbn; auto. Qed.

Lemma filter_all_true {A} (l : list A) : filter (fun _ => true) l = l.
Proof. induction l; cbn; [reflexivity|]. f_equal. auto. Qed.

Theorem rebuild_noop required aliases found ordered blocks :
  filter (fun p => negb (ahas found p)) ordered = [] ->
  (forall b s, In b blocks -> In s (b_specs b) -> mem (s_path s) required = true /\ alias_of aliases (s_path s) = s_name s) ->
  rebuild_blocks required aliases found ordered blocks = (blocks, [], false, false).
Proof.
  intros Hm Hall. unfold rebuild_blocks. rewrite Hm. cbn zeta. cbn [negb andb].
  assert (H2 : add_missing aliases [] false blocks = blocks).
  { destruct blocks as [|b0 rest]; cbn; [reflexivity|]. rewrite app_nil_r. destruct b0; reflexivity. }
  rewrite H2. unfold finish_blocks. cbn zeta.
  assert (Hu : map (update_block required aliases) blocks = map (fun b => (b, false)) blocks).
  { apply map_ext_in. intros b Hb. apply update_block_id. intros s Hs. apply (Hall b s Hb Hs). }
  rewrite Hu. rewrite !map_map. cbn [fst snd].
  rewrite filter_snd_false. cbn [map existsb negb]. rewrite map_id.
  rewrite filter_all_true. reflexivity.
Qed.

(* ---- every required path ends up imported under the alias chosen for it -------------------- *)
Lemma In_insert_sorted {A} (key : A -> string) x y l : In y (insert_sorted key x l) <-> y = x \/ In y l.
Proof.
  induction l as [|z r IH]; cbn [insert_sorted In]; [intuition|].
  destruct (path_less (key x) (key z)); cbn [In]; [intuition|]. rewrite IH. intuition.
Qed.

Lemma In_sort_by {A} (key : A -> string) y l : In y (sort_by key l) <-> In y l.
Proof.
  unfold sort_by. induction l as [|x r IH]; cbn [fold_right In]; [tauto|]. rewrite In_insert_sorted, IH. split; intros [H|H]; auto.
Qed.

Lemma respace_keeps l : forall fd s, In s l ->
  exists s', In s' (respace fd l) /\ s_path s' = s_path s /\ s_name s' = s_name s.
Proof.
  induction l as [|x r IH]; intros fd s Hin; [destruct Hin|].
  cbn [respace]. destruct Hin as [->|Hin].
  - destruct (has_dot (s_path s) && negb fd); eexists; (split; [left; reflexivity|split; reflexivity]).
  - destruct (has_dot (s_path x) && negb fd).
    + destruct (IH true s Hin) as [s' [H1 H2]]. exists s'. split; [right; exact H1|exact H2].
    + destruct (IH fd s Hin) as [s' [H1 H2]]. exists s'. split; [right; exact H1|exact H2].
Qed.

Lemma update_block_keeps required aliases b s :
  In s (b_specs b) -> mem (s_path s) required = true ->
  In (fix_spec aliases s) (b_specs (fst (update_block required aliases b))) /\
  snd (update_block required aliases b) = false /\ b_id (fst (update_block required aliases b)) = b_id b.
Proof.
  intros Hin Hm. unfold update_block.
  set (specs := map (fix_spec aliases) (filter (fun s => mem (s_path s) required) (b_specs b))).
  assert (Hs : In (fix_spec aliases s) specs).
  { subst specs. apply in_map. apply filter_In. split; assumption. }
  destruct (Nat.eqb (List.length specs) (List.length (b_specs b))); [cbn; auto|].
  destruct (Nat.eqb_spec (List.length specs) 0) as [H0|H0].
  - destruct specs; [destruct Hs|discriminate].
  - cbn. auto.
Qed.

Lemma update_block_id_kept required aliases b : b_id (fst (update_block required aliases b)) = b_id b.
Proof.
  unfold update_block. destruct (Nat.eqb _ _); [reflexivity|]. destruct (Nat.eqb _ 0); reflexivity.
Qed.

Lemma not_deleted_if_unique required aliases blocks2 b :
  NoDup (map b_id blocks2) -> In b blocks2 -> snd (update_block required aliases b) = false ->
  existsb (N.eqb (b_id b))
          (map (fun bd : block * bool => b_id (fst bd)) (filter (fun bd => snd bd) (map (update_block required aliases) blocks2))) = false.
Proof.
  intros Hnd Hin Hflag.
  destruct (existsb _ _) eqn:E; [|reflexivity]. exfalso.
  apply existsb_exists in E. destruct E as [i [Hi Heq]]. apply N.eqb_eq in Heq. subst i.
  apply in_map_iff in Hi. destruct Hi as [[b' d'] [Hid Hf]]. cbn [fst] in Hid.
  apply filter_In in Hf. destruct Hf as [Hm Hd]. cbn [snd] in Hd.
  apply in_map_iff in Hm. destruct Hm as [b0 [Hu Hin0]].
  assert (Hid0 : b_id b0 = b_id b).
  { rewrite <- Hid. replace b' with (fst (update_block required aliases b0)) by (rewrite Hu; reflexivity).
    symmetry. apply update_block_id_kept. }
  (* same id, NoDup ids => same block *)
  assert (Hsame : b0 = b).
  { clear - Hnd Hin Hin0 Hid0. induction blocks2 as [|x r IH]; [destruct Hin|].
    cbn in Hnd. inversion Hnd as [|? ? Hn Hnd']; subst.
    destruct Hin as [->|Hin], Hin0 as [->|Hin0]; auto.
    - exfalso. apply Hn. rewrite <- Hid0. apply (in_map b_id _ _ Hin0).
    - exfalso. apply Hn. rewrite Hid0. apply (in_map b_id _ _ Hin). }
  subst b0. rewrite Hu in Hflag. cbn [snd] in Hflag. congruence.
Qed.

Lemma finish_keeps required aliases added blocks2 b s :
  NoDup (map b_id blocks2) -> In b blocks2 -> In s (b_specs b) -> mem (s_path s) required = true ->
  exists b' s', In b' (fst (finish_blocks required aliases added blocks2)) /\ In s' (b_specs b') /\
                s_path s' = s_path s /\ s_name s' = alias_of aliases (s_path s).
Proof.
  intros Hnd Hb Hs Hm. unfold finish_blocks. cbn zeta. cbn [fst].
  destruct (update_block_keeps required aliases b s Hs Hm) as [Hk [Hflag Hid]].
  set (b3 := fst (update_block required aliases b)) in *.
  assert (Hb3 : In b3 (map fst (map (update_block required aliases) blocks2))).
  { apply in_map_iff. exists (update_block required aliases b). split; [reflexivity|apply in_map; exact Hb]. }
  pose proof (not_deleted_if_unique required aliases blocks2 b Hnd Hb Hflag) as Hnotdel.
  destruct added.
  - (* respaced head *)
    remember (map fst (map (update_block required aliases) blocks2)) as blocks3 eqn:E3.
    destruct blocks3 as [|h rest]; [destruct Hb3|]. cbn [respace_head].
    destruct Hb3 as [Hh|Hr].
    + subst h. destruct (respace_keeps (b_specs b3) false (fix_spec aliases s) Hk) as [s' [H1 [H2 H3]]].
      exists (mkBlock (respace false (b_specs b3)) (negb (Nat.eqb (List.length (b_specs b3)) 1)) (b_id b3)), s'.
      split; [|split; [exact H1|split; [rewrite H2; reflexivity|rewrite H3; reflexivity]]].
      apply filter_In. split; [left; reflexivity|]. cbn [b_id]. rewrite Hid. rewrite Hnotdel. reflexivity.
    + exists b3, (fix_spec aliases s). split; [|split; [exact Hk|split; reflexivity]].
      apply filter_In. split; [right; exact Hr|]. rewrite Hid. rewrite Hnotdel. reflexivity.
  - exists b3, (fix_spec aliases s). split; [|split; [exact Hk|split; reflexivity]].
    apply filter_In. split; [exact Hb3|]. rewrite Hid. rewrite Hnotdel. reflexivity.
Qed.

Lemma add_missing_ids aliases missing added blocks1 : map b_id (add_missing aliases missing added blocks1) = map b_id blocks1.
Proof. destruct blocks1 as [|b0 r]; reflexivity. Qed.

Lemma add_missing_keeps aliases missing added blocks1 b s :
  In b blocks1 -> In s (b_specs b) ->
  exists b', In b' (add_missing aliases missing added blocks1) /\ In s (b_specs b').
Proof.
  destruct blocks1 as [|b0 r]; intros Hb Hs; [destruct Hb|]. cbn [add_missing].
  destruct Hb as [->|Hb].
  - eexists. split; [left; reflexivity|]. cbn [b_specs].
    destruct added; [apply In_sort_by|]; apply in_or_app; left; exact Hs.
  - exists b. split; [right; exact Hb|exact Hs].
Qed.

Lemma add_missing_adds aliases missing added blocks1 p :
  blocks1 <> [] -> In p missing ->
  exists b' s, In b' (add_missing aliases missing added blocks1) /\ In s (b_specs b') /\ s_path s = p.
Proof.
  destruct blocks1 as [|b0 r]; intros Hne Hp; [contradiction|]. cbn [add_missing].
  eexists. exists (mkSpec p (alias_of aliases p) 0 SNone SNone). split; [left; reflexivity|]. split; [|reflexivity].
  cbn [b_specs]. assert (Hin : In (mkSpec p (alias_of aliases p) 0 SNone SNone) (b_specs b0 ++ map (fun p => mkSpec p (alias_of aliases p) 0 SNone SNone) missing)).
  { apply in_or_app. right. apply in_map_iff. exists p. auto. }
  destruct added; [apply In_sort_by|]; exact Hin.
Qed.

(* Every required path is, after the update, imported by a spec of the managed blocks that
   carries the alias chosen for it -- whether the spec was there (kept, re-aliased) or had to
   be added; given that the path was found in a managed block when it was found at all, and
   that blocks are distinct objects. *)
Theorem required_path_is_imported required aliases found ordered blocks p :
  NoDup (map b_id blocks) -> (forall b, In b blocks -> b_id b <> 0%N) ->
  mem p required = true -> In p ordered ->
  (ahas found p = true -> exists b s, In b blocks /\ In s (b_specs b) /\ s_path s = p) ->
  exists b s, In b (fst (fst (fst (rebuild_blocks required aliases found ordered blocks)))) /\ In s (b_specs b) /\
              s_path s = p /\ s_name s = alias_of aliases p.
Proof.
  intros Hnd Hnz Hreq Hord Hfound. unfold rebuild_blocks. cbn zeta.
  set (missing := filter (fun p => negb (ahas found p)) ordered).
  set (added := negb (match missing with [] => true | _ => false end)).
  set (new_block := added && (match blocks with [] => true | _ => false end)).
  set (blocks1 := if new_block then [mkBlock [] false 0] else blocks).
  assert (Hnd1 : NoDup (map b_id blocks1)).
  { subst blocks1. destruct new_block; [cbn; constructor; [intros []|constructor]|exact Hnd]. }
  assert (Hchain : exists b2 s2, In b2 (add_missing aliases missing added blocks1) /\ In s2 (b_specs b2) /\ s_path s2 = p).
  { destruct (ahas found p) eqn:Ef.
    - destruct (Hfound eq_refl) as [b [s [Hb [Hs Hp]]]].
      assert (Hb1 : In b blocks1).
      { subst blocks1 new_block. destruct blocks; [destruct Hb|]. rewrite andb_false_r. exact Hb. }
      destruct (add_missing_keeps aliases missing added blocks1 b s Hb1 Hs) as [b' [Hb' Hs']].
      exists b', s. auto.
    - assert (Hmiss : In p missing) by (subst missing; apply filter_In; split; [exact Hord|rewrite Ef; reflexivity]).
      assert (Hadded : added = true) by (subst added; destruct missing; [destruct Hmiss|reflexivity]).
      assert (Hne : blocks1 <> []).
      { subst blocks1 new_block. rewrite Hadded. destruct blocks; cbn; discriminate. }
      destruct (add_missing_adds aliases missing added blocks1 p Hne Hmiss) as [b' [s [H1 [H2 H3]]]]. eauto. }
  destruct Hchain as [b2 [s2 [Hb2 [Hs2 Hp2]]]].
  assert (Hnd2 : NoDup (map b_id (add_missing aliases missing added blocks1))) by (rewrite add_missing_ids; exact Hnd1).
  assert (Hm2 : mem (s_path s2) required = true) by (rewrite Hp2; exact Hreq).
  destruct (finish_keeps required aliases added _ b2 s2 Hnd2 Hb2 Hs2 Hm2) as [b' [s' [H1 [H2 [H3 H4]]]]].
  destruct (finish_blocks required aliases added (add_missing aliases missing added blocks1)) as [bs del]. cbn [fst] in *.
  exists b', s'. split; [exact H1|split; [exact H2|]]. rewrite H3, H4, Hp2. auto.
Qed.

(* ---- the alias written into the import spec binds the name used in the code ---------------- *)
Definition res_name (resolved : amap) (p : string) : string := match aget resolved p with Some n => n | None => "" end.
Definition eff_alias (eff : amap) (p : string) : string := match aget eff p with Some a => a | None => "" end.

(* for path q: how the code names it (names) vs what the import spec says (aliases) *)
Definition entry_ok (resolved eff names aliases : amap) (q : string) : Prop :=
  if String.eqb (eff_alias eff q) "." || String.eqb (eff_alias eff q) "_"
  then aget names q = Some "" /\ aget aliases q = Some (eff_alias eff q)
  else exists n a, aget names q = Some n /\ aget aliases q = Some a /\
                   ((a = "" /\ n = res_name resolved q) \/ a = n).

Lemma find_alias_shape resolved names path preferred n a :
  find_alias resolved names path preferred = (n, a) -> (a = "" /\ n = res_name resolved path) \/ a = n.
Proof.
  unfold find_alias, res_name.
  set (cur := find_free _ _ _ _ _).
  destruct (negb (negb (preferred =? "")) && (cur =? match aget resolved path with Some n0 => n0 | None => "" end)) eqn:E; intros H; inversion H; subst.
  - apply andb_true_iff in E. destruct E as [_ E]. apply String.eqb_eq in E. left. split; [reflexivity|exact E].
  - right. reflexivity.
Qed.

Theorem assigned_names_bind resolved eff : forall ordered names aliases,
  NoDup ordered ->
  (forall q, In q ordered -> aget names q = None /\ aget aliases q = None) ->
  forall q0, (entry_ok resolved eff names aliases q0 \/ In q0 ordered) ->
  let '(names', aliases') := fold_left (fun (st : amap * amap) path =>
               let '(names, aliases) := st in
               let alias := match aget eff path with Some a => a | None => "" end in
               if String.eqb alias "." || String.eqb alias "_" then (aset names path "", aset aliases path alias)
               else let '(n, a) := find_alias resolved names path alias in (aset names path n, aset aliases path a))
            ordered (names, aliases) in
  entry_ok resolved eff names' aliases' q0.
Proof.
  induction ordered as [|p r IH]; intros names aliases Hnd Hfresh q0 Hq0; cbn [fold_left].
  - destruct Hq0 as [H|[]]. exact H.
  - inversion Hnd as [|? ? Hnotin Hnd']; subst.
    set (alias := match aget eff p with Some a => a | None => "" end).
    destruct ((alias =? ".") || (alias =? "_")) eqn:Hdot.
    + apply IH; [exact Hnd'| |].
      * intros q Hq. destruct (Hfresh q (or_intror Hq)) as [A B].
        assert (q <> p) by (intros ->; contradiction). rewrite !aget_aset_other by assumption. auto.
      * destruct (String.eqb_spec q0 p) as [->|Hne].
        -- left. unfold entry_ok, eff_alias. fold alias. rewrite Hdot. rewrite !aget_aset_same. auto.
        -- destruct Hq0 as [H|[H|H]]; [|congruence|right; exact H].
           left. unfold entry_ok in *. destruct ((eff_alias eff q0 =? ".") || (eff_alias eff q0 =? "_")).
           ++ rewrite !aget_aset_other by assumption. exact H.
           ++ destruct H as [n [a H]]. exists n, a. rewrite !aget_aset_other by assumption. exact H.
    + destruct (find_alias resolved names p alias) as [n a] eqn:Hfa.
      apply IH; [exact Hnd'| |].
      * intros q Hq. destruct (Hfresh q (or_intror Hq)) as [A B].
        assert (q <> p) by (intros ->; contradiction). rewrite !aget_aset_other by assumption. auto.
      * destruct (String.eqb_spec q0 p) as [->|Hne].
        -- left. unfold entry_ok, eff_alias. fold alias. rewrite Hdot. exists n, a. rewrite !aget_aset_same.
           split; [reflexivity|split; [reflexivity|]]. apply (find_alias_shape _ _ _ _ _ _ Hfa).
        -- destruct Hq0 as [H|[H|H]]; [|congruence|right; exact H].
           left. unfold entry_ok in *. destruct ((eff_alias eff q0 =? ".") || (eff_alias eff q0 =? "_")).
           ++ rewrite !aget_aset_other by assumption. exact H.
           ++ destruct H as [n0 [a0 H]]. exists n0, a0. rewrite !aget_aset_other by assumption. exact H.
Qed.

Corollary assign_names_bind resolved eff ordered q :
  NoDup ordered -> In q ordered ->
  let '(names, aliases) := assign_names resolved eff ordered in entry_ok resolved eff names aliases q.
Proof.
  intros Hnd Hin. unfold assign_names.
  apply (assigned_names_bind resolved eff ordered [] [] Hnd); [intros; split; reflexivity|right; exact Hin].
Qed.
