(* C06: under the table obligation, the table-driven Clone is the complete copy [normalize]. *)
From Coq Require Import List String ZArith NArith Bool Lia.
Import ListNotations.
From DV Require Import Model.Tree Model.Tables Model.Skeleton Model.Clone Proofs.TreeInd.
Local Open Scope string_scope.
Local Open Scope list_scope.

Lemma map_ext_aligned {A B C} (P : A -> B -> bool) (Q : B -> bool) (R : A -> Prop) (F G : A -> C) :
  (forall a b, P a b = true -> Q b = true -> R a -> F a = G a) ->
  forall l cf, all2 P l cf = true -> forallb Q cf = true -> Forall R l -> map F l = map G l.
Proof.
  intros H. induction l as [|a l IH]; intros [|b cf] Ha Hq Hr; cbn in *; try discriminate; [reflexivity|].
  apply andb_true_iff in Ha. destruct Ha as [Ha1 Ha2]. apply andb_true_iff in Hq. destruct Hq as [Hq1 Hq2].
  inversion Hr as [|? ? Hr1 Hr2]; subst. f_equal; [apply (H a b); assumption|apply (IH cf); assumption].
Qed.

Definition kid_cbuild (tbl : list (string * list cstmt)) (k : kid tree) : kid ctree :=
  match k with
  | One (Some c) => One (Some (cbuild tbl c))
  | One None => One None
  | Many l => Many (map (cbuild tbl) l)
  end.

Lemma cbuild_unfold tbl id k vals kids decs b a :
  cbuild tbl (Node id k vals kids decs b a) =
  let rk := map (fun p => (fst p, kid_cbuild tbl (snd p))) kids in
  CT (Node id k vals kids decs b a) (clone_node tbl (Node id k vals kids decs b a) rk) rk.
Proof. reflexivity. Qed.

Lemma ct_orig_cbuild tbl t : ct_orig (cbuild tbl t) = t.
Proof. destruct t; reflexivity. Qed.

Lemma ct_kids_cbuild tbl t : ct_kids (cbuild tbl t) = map (fun p => (fst p, kid_cbuild tbl (snd p))) (tkids t).
Proof. destruct t; reflexivity. Qed.

Lemma lookup_In' {A} (l : list (string * A)) k v : lookup l k = Some v -> In (k, v) l.
Proof.
  induction l as [|[k' v'] l IH]; cbn; [discriminate|].
  destruct (String.eqb_spec k k') as [->|Hne]; intros H; [inversion H; left; reflexivity|right; auto].
Qed.

Lemma path_eqb_refl p : path_eqb p p = true.
Proof. induction p as [|x p IH]; cbn; [reflexivity|]. rewrite String.eqb_refl. exact IH. Qed.

Lemma list_string_eqb_eq a : forall b, list_string_eqb a b = true -> a = b.
Proof.
  induction a as [|x a IH]; intros [|y b] H; cbn in H; try discriminate; [reflexivity|].
  apply andb_true_iff in H. destruct H as [H1 H2]. apply String.eqb_eq in H1. f_equal; auto.
Qed.

Section Exact.
  Variable u : universe_t.
  Variable du : list (string * list string).
  Variable tbl : list (string * list cstmt).
  Hypothesis Hok : clone_tbl_ok u du tbl = true.

  Definition P (t : tree) : Prop :=
    conforms_full u du t = true -> spacing_conforms u t = true -> clone tbl t = normalize t.

  Definition kids_all (t : tree) : Prop := Forall (fun p => kid_all P (snd p)) (tkids t).

  Lemma kind_ok k fs : lookup u k = Some fs -> clone_kind_ok u du tbl k = true.
  Proof.
    intros H. unfold clone_tbl_ok in Hok. rewrite forallb_forall in Hok.
    apply (Hok (k, fs)). apply lookup_In'. exact H.
  Qed.

  (* values *)
  Lemma vals_exact stmts prefix (vals : list (string * val)) cf :
    all2 (fun (p : string * val) (f : string * ftype) => String.eqb (fst p) (fst f) && val_shape_ok (snd f) (snd p)) vals cf = true ->
    forallb (val_field_ok stmts prefix) cf = true ->
    map (fun fv => (fst fv, match find_stmt (targets_val (prefix ++ [fst fv])) stmts with
                            | Some (KCopy _) => snd fv
                            | _ => zero_val (snd fv)
                            end)) vals
    = map (fun fv => (fst fv, drop_ref (snd fv))) vals.
  Proof.
    intros Ha Hq.
    eapply (map_ext_aligned _ (val_field_ok stmts prefix) (fun _ => True)); cycle 1; [exact Ha|exact Hq| |].
    2: { intros [fn v] [gn ft] Hp Hf _. cbn [fst snd] in *.
      apply andb_true_iff in Hp. destruct Hp as [Hn Hs]. apply String.eqb_eq in Hn. subst gn.
      unfold val_field_ok in Hf. cbn [fst snd] in Hf. f_equal.
      destruct ft; destruct (find_stmt (targets_val (prefix ++ [fn])) stmts) as [[]|]; try discriminate;
        destruct v; cbn in Hs; try discriminate; reflexivity. }
    clear. induction vals; constructor; auto.
  Qed.

  (* decorations *)
  Lemma decs_exact stmts prefix (decs : list (string * list dec)) pts :
    map fst decs = pts -> decs_ok stmts prefix pts = true ->
    map (fun pd => (fst pd, match find_stmt (targets_dec prefix (fst pd)) stmts with
                            | Some _ => snd pd
                            | None => []
                            end)) decs = decs.
  Proof.
    intros Hm Hd. subst pts. unfold decs_ok in Hd. rewrite forallb_forall in Hd.
    rewrite <- (map_id decs) at 2. apply map_ext_in. intros [pn ds] Hin. cbn [fst snd].
    specialize (Hd pn (in_map fst _ _ Hin)).
    destruct (find_stmt (targets_dec prefix pn) stmts); [reflexivity|discriminate].
  Qed.

  Lemma map_ct_res_cbuild (l : list tree) :
    Forall P l -> forallb (conforms_full u du) l = true -> forallb (spacing_conforms u) l = true ->
    map ct_res (map (cbuild tbl) l) = map normalize l.
  Proof.
    induction 1 as [|c l Hc _ IH]; cbn; intros H1 H2; [reflexivity|].
    apply andb_true_iff in H1. destruct H1. apply andb_true_iff in H2. destruct H2.
    f_equal; [apply Hc; assumption|apply IH; assumption].
  Qed.

  Definition kid_conf (p : string * kid tree) : bool :=
    match snd p with
    | One (Some c) => conforms_full u du c
    | One None => true
    | Many l => forallb (conforms_full u du) l
    end.

  Definition kid_sp (p : string * kid tree) : bool :=
    match snd p with
    | One (Some c) => spacing_conforms u c
    | One None => true
    | Many l => forallb (spacing_conforms u) l
    end.

  (* the node allocated by an Init statement *)
  Lemma nested_exact stmts f ty c :
    tkind c = ty ->
    conforms_full u du c = true -> spacing_conforms u c = true -> kids_all c ->
    forallb (val_field_ok stmts [f]) (val_fields_t u ty) = true ->
    forallb (fun g => match snd g, find_stmt (targets_kid [f; fst g]) stmts with
                      | FNode _, Some (KNode _ _) => true
                      | FList _, Some (KList _ _) => true
                      | _, _ => false
                      end) (child_fields_t u ty) = true ->
    forallb (fun g => negb (is_init_field ty (fst g))) (child_fields_t u ty) = true ->
    decs_ok stmts [f] (match lookup du ty with Some ps => ps | None => [] end) = true ->
    find_stmt (targets_space [f] false) stmts = None ->
    find_stmt (targets_space [f] true) stmts = None ->
    clone_level stmts [f] (ct_orig (cbuild tbl c)) (ct_kids (cbuild tbl c)) (fun _ k => empty_kid k)
    = strip_space (normalize c).
  Proof.
    intros Hk Hc Hs Hg Hv Hkk Hni Hd Hb Ha.
    rewrite ct_orig_cbuild, ct_kids_cbuild.
    destruct c as [id k vals kids decs b a]. cbn [tkind] in Hk. subst k.
    cbn [conforms_full] in Hc. repeat (apply andb_true_iff in Hc; destruct Hc as [Hc ?]).
    match goal with H : forallb _ kids = true |- _ => rename H into Hsub end.
    match goal with H : list_string_eqb _ _ = true |- _ => rename H into Hdn end.
    match goal with H : all2 _ kids _ = true |- _ => rename H into Hka end.
    match goal with H : all2 _ vals _ = true |- _ => rename H into Hva end.
    cbn [spacing_conforms] in Hs. apply andb_true_iff in Hs. destruct Hs as [_ Hss].
    unfold clone_level. cbn [tid tkind tvals tdecs tbefore tafter tkids normalize strip_space].
    rewrite Hb, Ha. f_equal.
    - apply vals_exact with (cf := val_fields_t u ty); assumption.
    - rewrite map_map. cbn [fst snd].
      unfold kids_all in Hg. cbn [tkids] in Hg.
      eapply (map_ext_aligned _ (fun g => (match snd g, find_stmt (targets_kid [f; fst g]) stmts with
                      | FNode _, Some (KNode _ _) => true
                      | FList _, Some (KList _ _) => true
                      | _, _ => false
                      end) && negb (is_init_field ty (fst g)))
               (fun p => kid_all P (snd p) /\ kid_conf p = true /\ kid_sp p = true)); cycle 1.
      + exact Hka.
      + clear - Hkk Hni. revert Hkk Hni. generalize (child_fields_t u ty). induction l as [|g l IH]; cbn; intros A B; [reflexivity|].
        apply andb_true_iff in A. destruct A as [A1 A2]. apply andb_true_iff in B. destruct B as [B1 B2].
        rewrite A1, B1. cbn. apply IH; assumption.
      + rewrite forallb_forall in Hsub, Hss. rewrite Forall_forall in Hg. apply Forall_forall. intros p Hin.
        split; [apply Hg; exact Hin|]. split; [apply (Hsub p Hin)|apply (Hss p Hin)].
      + intros [kn kk] [gn ft] Hp Hq [Hkid [Hcf Hsp]]. cbn [fst snd] in *.
        unfold kid_full_ok in Hp. cbn [fst snd] in Hp.
        apply andb_true_iff in Hp. destruct Hp as [Hp _]. apply andb_true_iff in Hp. destruct Hp as [Hn Hshape].
        apply String.eqb_eq in Hn. subst gn.
        apply andb_true_iff in Hq. destruct Hq as [Hq Hnot]. apply negb_true_iff in Hnot. rewrite Hnot.
        unfold kid_conf, kid_sp in *. cbn [fst snd] in *. f_equal.
        cbn [app].
        destruct ft; try discriminate;
          destruct (find_stmt (targets_kid [f; kn]) stmts) as [[]|]; try discriminate;
          destruct kk as [[c|]|l]; cbn in Hshape; try discriminate; cbn [kid_cbuild kid_all] in *.
        * f_equal. f_equal. apply Hkid; assumption.
        * reflexivity.
        * f_equal. apply map_ct_res_cbuild; assumption.
    - apply decs_exact with (pts := match lookup du ty with Some ps => ps | None => [] end); [|assumption].
      apply list_string_eqb_eq. exact Hdn.
  Qed.

  Theorem clone_exact_strong : forall t, P t /\ kids_all t.
  Proof.
    induction t as [id k vals kids decs b a IH] using tree_ind'.
    assert (HP : Forall (fun p => kid_all P (snd p)) kids).
    { clear - IH. induction IH as [|p l Hp _ IHl]; constructor; [|exact IHl].
      destruct (snd p) as [[c|]|l0]; cbn in *; [tauto|exact I|].
      clear - Hp. induction Hp as [|c l0 [Hc _] _ IHl]; constructor; auto. }
    assert (HG : Forall (fun p => kid_all kids_all (snd p)) kids).
    { clear - IH. induction IH as [|p l Hp _ IHl]; constructor; [|exact IHl].
      destruct (snd p) as [[c|]|l0]; cbn in *; [tauto|exact I|].
      clear - Hp. induction Hp as [|c l0 [_ Hc] _ IHl]; constructor; auto. }
    split; [|exact HP].
    intros Hc Hs. unfold clone. rewrite cbuild_unfold. cbn zeta. cbn [ct_res].
    cbn [conforms_full] in Hc. repeat (apply andb_true_iff in Hc; destruct Hc as [Hc ?]).
    match goal with H : forallb _ kids = true |- _ => rename H into Hsub end.
    match goal with H : list_string_eqb _ _ = true |- _ => rename H into Hdn end.
    match goal with H : all2 _ kids _ = true |- _ => rename H into Hka end.
    match goal with H : all2 _ vals _ = true |- _ => rename H into Hva end.
    cbn [spacing_conforms] in Hs. apply andb_true_iff in Hs. destruct Hs as [Hsp Hss].
    destruct (lookup u k) as [fs|] eqn:Hlk; [|discriminate].
    pose proof (kind_ok k fs Hlk) as Hkind. unfold clone_kind_ok in Hkind.
    unfold clone_node. cbn [tkind]. unfold tbl_parts.
    destruct (lookup tbl k) as [stmts|] eqn:Htk; [|discriminate].
    repeat (apply andb_true_iff in Hkind; destruct Hkind as [Hkind ?]).
    match goal with H : decs_ok _ _ _ = true |- _ => rename H into Hdk end.
    match goal with H : forallb (kid_field_ok _ _ _ _) _ = true |- _ => rename H into Hkf end.
    match goal with H : forallb (val_field_ok _ _) _ = true |- _ => rename H into Hvf end.
    match goal with H : (negb _ || _) = true |- _ => rename H into Hspace end.
    match goal with |- clone_level _ _ _ _ ?nf = _ => set (nested := nf) end.
    unfold clone_level. cbn [tid tkind tvals tdecs tbefore tafter normalize].
    f_equal.
    - apply vals_exact with (cf := val_fields_t u k); assumption.
    - rewrite map_map. cbn [fst snd].
      eapply (map_ext_aligned _ (kid_field_ok u du k stmts)
               (fun p => kid_all P (snd p) /\ kid_all kids_all (snd p) /\ kid_conf p = true /\ kid_sp p = true)); cycle 1.
      + exact Hka.
      + exact Hkf.
      + rewrite forallb_forall in Hsub, Hss. rewrite Forall_forall in HP, HG. apply Forall_forall. intros p Hin.
        split; [apply HP; exact Hin|]. split; [apply HG; exact Hin|]. split; [apply (Hsub p Hin)|apply (Hss p Hin)].
      + intros [kn kk] [gn ft] Hp Hq [Hkid [Hgk [Hcf Hspk]]]. cbn [fst snd] in *.
        unfold kid_full_ok in Hp. cbn [fst snd] in Hp.
        apply andb_true_iff in Hp. destruct Hp as [Hp Hinit]. apply andb_true_iff in Hp. destruct Hp as [Hn Hshape].
        apply String.eqb_eq in Hn. subst gn.
        unfold kid_field_ok in Hq. cbn [fst snd] in Hq. unfold kid_conf, kid_sp in *. cbn [fst snd] in *.
        f_equal. cbn [app].
        destruct ft; try discriminate;
          destruct (find_stmt (targets_kid [kn]) stmts) as [[]|] eqn:Hfind; try discriminate;
          destruct kk as [[c|]|l]; cbn in Hshape; try discriminate; cbn [kid_cbuild kid_all] in *.
        * (* FNode, KNode, Some *)
          apply negb_true_iff in Hq. rewrite Hq. f_equal. f_equal. apply Hkid; assumption.
        * reflexivity.
        * (* FNode, KInit, Some *)
          do 7 (apply andb_true_iff in Hq; destruct Hq as [Hq ?]).
          rewrite Hq in *. cbn in Hinit. apply String.eqb_eq in Hinit.
          match goal with H : String.eqb ty _ = true |- _ => apply String.eqb_eq in H; rewrite <- H in * end.
          subst nested. cbn beta iota. f_equal. f_equal.
          apply nested_exact with (ty := ty); try assumption.
          -- destruct (find_stmt (targets_space [kn] false) stmts); [discriminate|reflexivity].
          -- destruct (find_stmt (targets_space [kn] true) stmts); [discriminate|reflexivity].
        * (* FNode, KInit, None: excluded by conformance *)
          do 7 (apply andb_true_iff in Hq; destruct Hq as [Hq ?]). rewrite Hq in Hinit. discriminate.
        * f_equal. apply map_ct_res_cbuild; assumption.
        * f_equal. apply map_ct_res_cbuild; assumption.
    - apply decs_exact with (pts := match lookup du k with Some ps => ps | None => [] end); [|assumption].
      apply list_string_eqb_eq. exact Hdn.
    - destruct (has_decs u k); cbn in Hspace, Hsp.
      + apply andb_true_iff in Hspace. destruct Hspace as [Hs1 _].
        destruct (find_stmt (targets_space [] false) stmts); [reflexivity|discriminate].
      + apply andb_true_iff in Hsp. destruct Hsp as [Hb _]. destruct b; try discriminate.
        destruct (find_stmt (targets_space [] false) stmts); reflexivity.
    - destruct (has_decs u k); cbn in Hspace, Hsp.
      + apply andb_true_iff in Hspace. destruct Hspace as [_ Hs2].
        destruct (find_stmt (targets_space [] true) stmts); [reflexivity|discriminate].
      + apply andb_true_iff in Hsp. destruct Hsp as [_ Ha]. destruct a; try discriminate.
        destruct (find_stmt (targets_space [] true) stmts); reflexivity.
  Qed.

  Theorem clone_exact t :
    conforms_full u du t = true -> spacing_conforms u t = true -> clone tbl t = normalize t.
  Proof. exact (proj1 (clone_exact_strong t)). Qed.
End Exact.

(* ---- the storage of a cloned decoration list ------------------------------------------ *)
From DV Require Import Model.SliceHeap.

Lemma nth_app_len {A} (h : list A) x d : nth (List.length h) (h ++ [x]) d = x.
Proof. induction h; cbn; auto. Qed.

Lemma nth_app_lt {A} (h : list A) x d a : (a < List.length h)%nat -> nth a (h ++ [x]) d = nth a h d.
Proof. revert a. induction h as [|y h IH]; intros [|a] H; cbn in *; try lia; auto. apply IH. lia. Qed.

Lemma firstn_app_exact {A} (xs ys : list A) : firstn (List.length xs) (xs ++ ys) = xs.
Proof. induction xs; cbn; [destruct ys; reflexivity|]. f_equal. auto. Qed.

(* out.Decs.P = append(out.Decs.P, n.Decs.P...) with out.Decs.P == nil: the result is nil when
   the source is empty and otherwise a slice of a NEW array (index = size of the old heap)
   holding the same strings; no existing array is written. *)
Theorem append_to_nil_is_fresh grow (h : heap) (src : option slice) :
  let xs := contents h src in
  let '(h', s') := go_append grow h None xs in
  (xs = [] -> h' = h /\ s' = None) /\
  (xs <> [] -> exists sl, s' = Some sl /\ arr sl = List.length h /\ contents h' s' = xs) /\
  (forall a, (a < List.length h)%nat -> read_arr h' a = read_arr h a).
Proof.
  cbn zeta. destruct (contents h src) as [|x xs] eqn:E; cbn [go_append].
  - split; [auto|]. split; [intros H; exfalso; apply H; reflexivity|auto].
  - split; [discriminate|]. split.
    + intros _. eexists. split; [reflexivity|]. split; [reflexivity|].
      unfold contents. cbn [arr off len]. unfold read_arr. rewrite nth_app_len. cbn [skipn].
      change (S (List.length xs)) with (List.length (x :: xs)). rewrite <- app_comm_cons.
      change (x :: xs ++ repeat 0%nat (grow 0%nat (List.length (x :: xs)) - List.length (x :: xs)))
        with ((x :: xs) ++ repeat 0%nat (grow 0%nat (List.length (x :: xs)) - List.length (x :: xs))).
      apply firstn_app_exact.
    + intros a Ha. unfold read_arr. apply nth_app_lt. exact Ha.
Qed.
