(* C18: the memoised copy of an object / scope graph (Model/ObjGraph.v copy) produces, for every
   well-formed source graph -- cyclic or not -- and enough fuel, a copy that the isomorphism check
   accepts.  Together with GraphProofs.iso_check_sound: the copy is isomorphic to the source. *)
From Coq Require Import List String ZArith NArith Bool Lia.
Import ListNotations.
From DV Require Import Model.ObjGraph Proofs.GraphProofs.
Local Open Scope list_scope.

(* ---- association lists ---------------------------------------------------------------------------- *)
Lemma nget_nset_same {A} (l : list (N * A)) k v : nget (nset l k v) k = Some v.
Proof. induction l as [|[k' v'] r IH]; cbn; [rewrite N.eqb_refl; reflexivity|]. destruct (N.eqb k k') eqn:E; cbn; rewrite ?N.eqb_refl, ?E; auto. Qed.

Lemma nget_nset_other {A} (l : list (N * A)) k v k' : k' <> k -> nget (nset l k v) k' = nget l k'.
Proof.
  intros Hne. induction l as [|[k0 v0] r IH]; cbn.
  - assert (E : N.eqb k' k = false) by (apply N.eqb_neq; exact Hne). rewrite E. reflexivity.
  - destruct (N.eqb k k0) eqn:E.
    + apply N.eqb_eq in E. subst k0. cbn. assert (E2 : N.eqb k' k = false) by (apply N.eqb_neq; exact Hne). rewrite E2. reflexivity.
    + cbn. destruct (N.eqb k' k0); [reflexivity|exact IH].
Qed.

Lemma nget_None_notin {A} (l : list (N * A)) k : nget l k = None -> ~ In k (map fst l).
Proof.
  induction l as [|[k' v] r IH]; cbn; [intros _ []|]. destruct (N.eqb_spec k k') as [->|Hne]; [discriminate|].
  intros H [E|Hin]; [apply Hne; symmetry; exact E|apply (IH H Hin)].
Qed.

Lemma nset_fresh {A} (l : list (N * A)) k v : nget l k = None -> nset l k v = l ++ [(k, v)].
Proof.
  induction l as [|[k' v'] r IH]; cbn; [reflexivity|]. destruct (N.eqb_spec k k') as [->|Hne].
  - discriminate.
  - intros H. rewrite (IH H). reflexivity.
Qed.

Lemma nset_keys_present {A} (l : list (N * A)) k v v0 : nget l k = Some v0 -> map fst (nset l k v) = map fst l.
Proof.
  induction l as [|[k' v'] r IH]; cbn; [discriminate|]. destruct (N.eqb_spec k k') as [->|Hne].
  - reflexivity.
  - intros H. cbn. rewrite (IH H). reflexivity.
Qed.

Lemma nget_Some_in {A} (l : list (N * A)) k v : nget l k = Some v -> In k (map fst l).
Proof. intros H. apply nget_In in H. apply (in_map fst _ _ H). Qed.

Lemma NoDup_nodupN l : NoDup l -> nodupN l = true.
Proof.
  induction 1 as [|x r Hn Hnd IH]; [reflexivity|]. cbn. rewrite IH, andb_true_r. apply negb_true_iff.
  destruct (existsb (N.eqb x) r) eqn:E; [|reflexivity]. apply existsb_exists in E. destruct E as [y [Hy He]].
  apply N.eqb_eq in He. subst. contradiction.
Qed.

(* ---- counting what is not copied yet ------------------------------------------------------------ *)
Lemma filter_length_le {A} (p q : A -> bool) (l : list A) :
  (forall x, In x l -> q x = true -> p x = true) -> (List.length (filter q l) <= List.length (filter p l))%nat.
Proof.
  induction l as [|x r IH]; intros H; [reflexivity|]. cbn [filter].
  assert (IH' : (List.length (filter q r) <= List.length (filter p r))%nat) by (apply IH; intros y Hy; apply H; right; exact Hy).
  destruct (q x) eqn:Eq; [rewrite (H x (or_introl eq_refl) Eq); cbn; lia|destruct (p x); cbn; lia].
Qed.

Lemma filter_length_lt {A} (p q : A -> bool) (l : list A) x :
  (forall y, In y l -> q y = true -> p y = true) -> In x l -> p x = true -> q x = false ->
  (List.length (filter q l) < List.length (filter p l))%nat.
Proof.
  induction l as [|y r IH]; intros H Hin Hp Hq; [destruct Hin|]. cbn [filter].
  assert (Hle : (List.length (filter q r) <= List.length (filter p r))%nat) by (apply filter_length_le; intros z Hz; apply H; right; exact Hz).
  destruct Hin as [->|Hin].
  - rewrite Hp, Hq. cbn. lia.
  - assert (IH' : (List.length (filter q r) < List.length (filter p r))%nat) by (apply IH; [intros z Hz; apply H; right; exact Hz|assumption..]).
    destruct (q y) eqn:Eq; [rewrite (H y (or_introl eq_refl) Eq); cbn; lia|destruct (p y); cbn; lia].
Qed.

Section CopyCorrect.
Variables (src : graph) (mn : N -> N).

Definition unseen {A} (m : list (N * N)) (e : N * A) : bool := match nget m (fst e) with None => true | Some _ => false end.
Definition todo (st : cstate) : nat :=
  (List.length (filter (unseen (c_mo st)) (g_objs src)) + List.length (filter (unseen (c_ms st)) (g_scopes src)))%nat.

(* the memo maps only grow *)
Definition ext (st st' : cstate) : Prop :=
  (forall k v, nget (c_mo st) k = Some v -> nget (c_mo st') k = Some v) /\
  (forall k v, nget (c_ms st) k = Some v -> nget (c_ms st') k = Some v) /\
  (c_next st <= c_next st')%N.

Lemma ext_refl st : ext st st.
Proof. repeat split; auto. lia. Qed.

Lemma ext_trans a b c : ext a b -> ext b c -> ext a c.
Proof. intros [A1 [A2 A3]] [B1 [B2 B3]]. repeat split; auto. lia. Qed.

Lemma todo_ext st st' : ext st st' -> (todo st' <= todo st)%nat.
Proof.
  intros [A [B _]]. unfold todo.
  assert (H1 : (List.length (filter (unseen (c_mo st')) (g_objs src)) <= List.length (filter (unseen (c_mo st)) (g_objs src)))%nat).
  { apply filter_length_le. intros x _. unfold unseen. destruct (nget (c_mo st) (fst x)) eqn:E; [rewrite (A _ _ E); discriminate|reflexivity]. }
  assert (H2 : (List.length (filter (unseen (c_ms st')) (g_scopes src)) <= List.length (filter (unseen (c_ms st)) (g_scopes src)))%nat).
  { apply filter_length_le. intros x _. unfold unseen. destruct (nget (c_ms st) (fst x)) eqn:E; [rewrite (B _ _ E); discriminate|reflexivity]. }
  lia.
Qed.

(* ---- well-formed source graphs --------------------------------------------------------------------- *)
Definition ref_closed (r : ref) : Prop :=
  match r with RScope s => s <> 0%N /\ exists sc, nget (g_scopes src) s = Some sc | _ => True end.

Record wf_src : Prop := mkWf {
  w_obj : forall a oa, nget (g_objs src) a = Some oa -> ref_closed (o_decl oa) /\ ref_closed (o_data oa);
  w_outer : forall s sc u, nget (g_scopes src) s = Some sc -> s_outer sc = Some u ->
            u <> 0%N /\ exists x, nget (g_scopes src) u = Some x;
  w_members : forall s sc n o, nget (g_scopes src) s = Some sc -> In (n, o) (s_objs sc) ->
              o <> 0%N /\ exists x, nget (g_objs src) o = Some x
}.

(* ---- what is finished ------------------------------------------------------------------------------ *)
Definition obj_done (st : cstate) (a d : N) : Prop :=
  exists oa od, nget (g_objs src) a = Some oa /\ nget (g_objs (c_out st)) d = Some od /\
    o_kind oa = o_kind od /\ o_name oa = o_name od /\
    ref_mapped [] (c_ms st) mn (o_decl oa) (o_decl od) /\ ref_mapped [] (c_ms st) mn (o_data oa) (o_data od).

Definition members_done (mo : list (N * N)) (a d : list (string * N)) : Prop :=
  Forall2 (fun x y => fst x = fst y /\ nget mo (snd x) = Some (snd y)) a d.

Definition outer_done (ms : list (N * N)) (a d : option N) : Prop :=
  match a, d with None, None => True | Some u, Some u' => nget ms u = Some u' | _, _ => False end.

Definition scope_done (st : cstate) (s d : N) : Prop :=
  exists sa sd, nget (g_scopes src) s = Some sa /\ nget (g_scopes (c_out st)) d = Some sd /\
    outer_done (c_ms st) (s_outer sa) (s_outer sd) /\ members_done (c_mo st) (s_objs sa) (s_objs sd).

Record inv (st : cstate) (Oo Os : list N) : Prop := mkInv {
  i_pos : (0 < c_next st)%N;
  i_mo_nd : NoDup (map fst (c_mo st));
  i_mo_rg : NoDup (map snd (c_mo st));
  i_ms_nd : NoDup (map fst (c_ms st));
  i_ms_rg : NoDup (map snd (c_ms st));
  i_mo_lt : forall a d, In (a, d) (c_mo st) -> (0 < d < c_next st)%N;
  i_ms_lt : forall a d, In (a, d) (c_ms st) -> (0 < d < c_next st)%N;
  i_odone : forall a d, In (a, d) (c_mo st) -> ~ In a Oo -> obj_done st a d;
  i_sdone : forall s d, In (s, d) (c_ms st) -> ~ In s Os -> scope_done st s d
}.

Lemma ref_mapped_ext ms ms' a d :
  (forall k v, nget ms k = Some v -> nget ms' k = Some v) -> ref_mapped [] ms mn a d -> ref_mapped [] ms' mn a d.
Proof. intros H. destruct a, d; cbn; auto. Qed.

Lemma members_done_ext mo mo' a d :
  (forall k v, nget mo k = Some v -> nget mo' k = Some v) -> members_done mo a d -> members_done mo' a d.
Proof. intros H Hm. induction Hm as [|x y a' d' [Hf Hn] _ IH]; constructor; [split; [exact Hf|apply H; exact Hn]|exact IH]. Qed.

Lemma outer_done_ext ms ms' a d :
  (forall k v, nget ms k = Some v -> nget ms' k = Some v) -> outer_done ms a d -> outer_done ms' a d.
Proof. intros H. destruct a, d; cbn; auto. Qed.

Lemma obj_done_ext st st' a d :
  ext st st' -> nget (g_objs (c_out st')) d = nget (g_objs (c_out st)) d -> obj_done st a d -> obj_done st' a d.
Proof.
  intros [_ [Hms _]] Ho [oa [od [A [B [C [D [E F]]]]]]]. exists oa, od. rewrite Ho.
  repeat split; try assumption; eapply ref_mapped_ext; eauto.
Qed.

Lemma scope_done_ext st st' s d :
  ext st st' -> nget (g_scopes (c_out st')) d = nget (g_scopes (c_out st)) d -> scope_done st s d -> scope_done st' s d.
Proof.
  intros [Hmo [Hms _]] Ho [sa [sd [A [B [C D]]]]]. exists sa, sd. rewrite Ho.
  repeat split; try assumption; [eapply outer_done_ext; eauto|eapply members_done_ext; eauto].
Qed.

(* ---- the recursion, unfolded once ------------------------------------------------------------------ *)
Definition copy_ref (f : nat) (r : ref) (st : cstate) : cstate * ref :=
  match r with
  | RScope s => let '(st', s') := copy src mn f (WScope s) st in (st', if N.eqb s' 0 then RNil else RScope s')
  | RNode n => (st, RNode (mn n))
  | RInt z => (st, RInt z)
  | RNil => (st, RNil)
  end.

Definition copy_outer (f : nat) (o : option N) (st : cstate) : cstate * option N :=
  match o with
  | Some u => let '(st', u') := copy src mn f (WScope u) st in (st', if N.eqb u' 0 then None else Some u')
  | None => (st, None)
  end.

Definition copy_members (f : nat) (l : list (string * N)) (acc : cstate * list (string * N)) : cstate * list (string * N) :=
  fold_left (fun (acc : cstate * list (string * N)) (e : string * N) =>
               let '(st, l) := acc in
               let '(st', d') := copy src mn f (WObj (snd e)) st in
               (st', l ++ [(fst e, d')])) l acc.

Definition alloc_obj (st : cstate) (o : N) (ob : obj) : cstate :=
  mkC (nset (c_mo st) o (c_next st)) (c_ms st)
      (mkGraph (nset (g_objs (c_out st)) (c_next st) (mkObj (o_kind ob) (o_name ob) RNil RNil)) (g_scopes (c_out st)))
      (c_next st + 1).

Definition finish_obj (st : cstate) (d : N) (ob : obj) (decl data : ref) : cstate :=
  mkC (c_mo st) (c_ms st)
      (mkGraph (nset (g_objs (c_out st)) d (mkObj (o_kind ob) (o_name ob) decl data)) (g_scopes (c_out st)))
      (c_next st).

Definition alloc_scope (st : cstate) (s : N) : cstate :=
  mkC (c_mo st) (nset (c_ms st) s (c_next st))
      (mkGraph (g_objs (c_out st)) (nset (g_scopes (c_out st)) (c_next st) placeholder_scope))
      (c_next st + 1).

Definition finish_scope (st : cstate) (d : N) (outer : option N) (objs : list (string * N)) : cstate :=
  mkC (c_mo st) (c_ms st)
      (mkGraph (g_objs (c_out st)) (nset (g_scopes (c_out st)) d (mkScope outer objs)))
      (c_next st).

Lemma copy_obj_eq f o st :
  copy src mn (S f) (WObj o) st =
  if N.eqb o 0 then (st, 0%N) else
  match nget (c_mo st) o with
  | Some d => (st, d)
  | None =>
    match nget (g_objs src) o with
    | None => (st, 0%N)
    | Some ob =>
      let '(st2, decl) := copy_ref f (o_decl ob) (alloc_obj st o ob) in
      let '(st3, data) := copy_ref f (o_data ob) st2 in
      (finish_obj st3 (c_next st) ob decl data, c_next st)
    end
  end.
Proof. reflexivity. Qed.

Lemma copy_scope_eq f s st :
  copy src mn (S f) (WScope s) st =
  if N.eqb s 0 then (st, 0%N) else
  match nget (c_ms st) s with
  | Some d => (st, d)
  | None =>
    match nget (g_scopes src) s with
    | None => (st, 0%N)
    | Some sc =>
      let '(st2, outer) := copy_outer f (s_outer sc) (alloc_scope st s) in
      let '(st3, objs) := copy_members f (s_objs sc) (st2, []) in
      (finish_scope st3 (c_next st) outer objs, c_next st)
    end
  end.
Proof. reflexivity. Qed.

(* ---- the four state transitions ---------------------------------------------------------------- *)
Lemma unseen_nset_lt {A} (m : list (N * N)) (l : list (N * A)) k v d :
  nget m k = None -> nget l k = Some v ->
  (List.length (filter (unseen (nset m k d)) l) < List.length (filter (unseen m) l))%nat.
Proof.
  intros Hm Hl. apply (filter_length_lt _ _ _ (k, v)).
  - intros y _. unfold unseen. destruct (N.eq_dec (fst y) k) as [->|Hne].
    + rewrite nget_nset_same. discriminate.
    + rewrite (nget_nset_other _ _ _ _ Hne). auto.
  - apply nget_In. exact Hl.
  - unfold unseen. cbn [fst]. rewrite Hm. reflexivity.
  - unfold unseen. cbn [fst]. rewrite nget_nset_same. reflexivity.
Qed.

Lemma nset_ext (m : list (N * N)) k d : nget m k = None -> forall k' v, nget m k' = Some v -> nget (nset m k d) k' = Some v.
Proof. intros Hn k' v H. rewrite nget_nset_other; [exact H|]. intros ->. rewrite Hn in H. discriminate. Qed.

Lemma map_snd_app {A B} (l r : list (A * B)) : map snd (l ++ r) = map snd l ++ map snd r.
Proof. apply map_app. Qed.

Lemma NoDup_snoc {A} (l : list A) x : NoDup l -> ~ In x l -> NoDup (l ++ [x]).
Proof.
  intros Hnd Hx. induction Hnd as [|y r Hy Hr IH]; cbn; [constructor; [intros []|constructor]|].
  constructor.
  - intros Hin. apply in_app_or in Hin. destruct Hin as [Hin|[->|[]]]; [contradiction|apply Hx; left; reflexivity].
  - apply IH. intros Hin. apply Hx. right. exact Hin.
Qed.

Lemma fresh_value (m : list (N * N)) (n : N) :
  (forall a d, In (a, d) m -> (0 < d < n)%N) -> ~ In n (map snd m).
Proof. intros H Hin. apply in_map_iff in Hin. destruct Hin as [[a d] [E Hi]]. cbn in E. subst. specialize (H _ _ Hi). lia. Qed.

Lemma alloc_obj_spec st Oo Os o ob :
  inv st Oo Os -> nget (c_mo st) o = None -> nget (g_objs src) o = Some ob ->
  inv (alloc_obj st o ob) (o :: Oo) Os /\ ext st (alloc_obj st o ob) /\
  nget (c_mo (alloc_obj st o ob)) o = Some (c_next st) /\ (todo (alloc_obj st o ob) < todo st)%nat.
Proof.
  intros I Hn Hs.
  assert (Hext : ext st (alloc_obj st o ob)).
  { repeat split; cbn; [apply nset_ext; exact Hn|auto|lia]. }
  split; [|split; [exact Hext|split]].
  - destruct I as [A0 A1 A2 A3 A4 A5 A6 A7 A8]. constructor; cbn [alloc_obj c_mo c_ms c_next c_out].
    + lia.
    + rewrite (nset_fresh _ _ _ Hn), map_app. apply NoDup_snoc; [exact A1|apply nget_None_notin; exact Hn].
    + rewrite (nset_fresh _ _ _ Hn), map_app. apply NoDup_snoc; [exact A2|apply (fresh_value _ _ A5)].
    + exact A3.
    + exact A4.
    + intros a d Hin. rewrite (nset_fresh _ _ _ Hn) in Hin. apply in_app_or in Hin. destruct Hin as [Hin|[E|[]]].
      * specialize (A5 _ _ Hin). lia.
      * inversion E; subst. lia.
    + intros a d Hin. specialize (A6 _ _ Hin). lia.
    + intros a d Hin Hno. rewrite (nset_fresh _ _ _ Hn) in Hin. apply in_app_or in Hin. destruct Hin as [Hin|[E|[]]].
      * assert (Ha : ~ In a Oo) by (intros X; apply Hno; right; exact X).
        apply (obj_done_ext st); [exact Hext| |apply A7; assumption].
        cbn. apply nget_nset_other. specialize (A5 _ _ Hin). lia.
      * inversion E; subst. exfalso. apply Hno. left. reflexivity.
    + intros s d Hin Hno. apply (scope_done_ext st); [exact Hext|reflexivity|apply A8; assumption].
  - cbn. apply nget_nset_same.
  - unfold todo. cbn [alloc_obj c_mo c_ms]. assert (H := unseen_nset_lt (c_mo st) (g_objs src) o ob (c_next st) Hn Hs). lia.
Qed.

Lemma alloc_scope_spec st Oo Os s sc :
  inv st Oo Os -> nget (c_ms st) s = None -> nget (g_scopes src) s = Some sc ->
  inv (alloc_scope st s) Oo (s :: Os) /\ ext st (alloc_scope st s) /\
  nget (c_ms (alloc_scope st s)) s = Some (c_next st) /\ (todo (alloc_scope st s) < todo st)%nat.
Proof.
  intros I Hn Hs.
  assert (Hext : ext st (alloc_scope st s)).
  { repeat split; cbn; [auto|apply nset_ext; exact Hn|lia]. }
  split; [|split; [exact Hext|split]].
  - destruct I as [A0 A1 A2 A3 A4 A5 A6 A7 A8]. constructor; cbn [alloc_scope c_mo c_ms c_next c_out].
    + lia.
    + exact A1.
    + exact A2.
    + rewrite (nset_fresh _ _ _ Hn), map_app. apply NoDup_snoc; [exact A3|apply nget_None_notin; exact Hn].
    + rewrite (nset_fresh _ _ _ Hn), map_app. apply NoDup_snoc; [exact A4|apply (fresh_value _ _ A6)].
    + intros a d Hin. specialize (A5 _ _ Hin). lia.
    + intros a d Hin. rewrite (nset_fresh _ _ _ Hn) in Hin. apply in_app_or in Hin. destruct Hin as [Hin|[E|[]]].
      * specialize (A6 _ _ Hin). lia.
      * inversion E; subst. lia.
    + intros a d Hin Hno. apply (obj_done_ext st); [exact Hext|reflexivity|apply A7; assumption].
    + intros a d Hin Hno. rewrite (nset_fresh _ _ _ Hn) in Hin. apply in_app_or in Hin. destruct Hin as [Hin|[E|[]]].
      * assert (Ha : ~ In a Os) by (intros X; apply Hno; right; exact X).
        apply (scope_done_ext st); [exact Hext| |apply A8; assumption].
        cbn. apply nget_nset_other. specialize (A6 _ _ Hin). lia.
      * inversion E; subst. exfalso. apply Hno. left. reflexivity.
  - cbn. apply nget_nset_same.
  - unfold todo. cbn [alloc_scope c_mo c_ms]. assert (H := unseen_nset_lt (c_ms st) (g_scopes src) s sc (c_next st) Hn Hs). lia.
Qed.

Lemma finish_obj_spec st Oo Os o d ob decl data :
  inv st (o :: Oo) Os -> nget (c_mo st) o = Some d -> nget (g_objs src) o = Some ob ->
  ref_mapped [] (c_ms st) mn (o_decl ob) decl -> ref_mapped [] (c_ms st) mn (o_data ob) data ->
  inv (finish_obj st d ob decl data) Oo Os /\ ext st (finish_obj st d ob decl data).
Proof.
  intros I Hm Hs Hdecl Hdata.
  assert (Hext : ext st (finish_obj st d ob decl data)) by (repeat split; cbn; auto; lia).
  split; [|exact Hext].
  destruct I as [A0 A1 A2 A3 A4 A5 A6 A7 A8]. constructor; cbn [finish_obj c_mo c_ms c_next c_out]; try assumption.
  - intros a d' Hin Hno. destruct (N.eq_dec a o) as [->|Hne].
    + assert (E : nget (c_mo st) o = Some d') by (apply In_nget; assumption). rewrite Hm in E. inversion E; subst d'.
      exists ob, (mkObj (o_kind ob) (o_name ob) decl data). cbn. rewrite nget_nset_same. repeat split; assumption.
    + assert (Ha : ~ In a (o :: Oo)) by (intros [X|X]; [apply Hne; symmetry; exact X|contradiction]).
      apply (obj_done_ext st); [exact Hext| |apply A7; assumption].
      cbn. apply nget_nset_other. intros ->. apply Hne. apply (map_injective (c_mo st) a o d A2 Hin). apply nget_In. exact Hm.
Qed.

Lemma finish_scope_spec st Oo Os s d sc outer objs :
  inv st Oo (s :: Os) -> nget (c_ms st) s = Some d -> nget (g_scopes src) s = Some sc ->
  outer_done (c_ms st) (s_outer sc) outer -> members_done (c_mo st) (s_objs sc) objs ->
  inv (finish_scope st d outer objs) Oo Os /\ ext st (finish_scope st d outer objs).
Proof.
  intros I Hm Hs Ho Hmem.
  assert (Hext : ext st (finish_scope st d outer objs)) by (repeat split; cbn; auto; lia).
  split; [|exact Hext].
  destruct I as [A0 A1 A2 A3 A4 A5 A6 A7 A8]. constructor; cbn [finish_scope c_mo c_ms c_next c_out]; try assumption.
  - intros a d' Hin Hno. destruct (N.eq_dec a s) as [->|Hne].
    + assert (E : nget (c_ms st) s = Some d') by (apply In_nget; assumption). rewrite Hm in E. inversion E; subst d'.
      exists sc, (mkScope outer objs). cbn. rewrite nget_nset_same. repeat split; assumption.
    + assert (Ha : ~ In a (s :: Os)) by (intros [X|X]; [apply Hne; symmetry; exact X|contradiction]).
      apply (scope_done_ext st); [exact Hext| |apply A8; assumption].
      cbn. apply nget_nset_other. intros ->. apply Hne. apply (map_injective (c_ms st) a s d A4 Hin). apply nget_In. exact Hm.
Qed.

(* ---- the copy -------------------------------------------------------------------------------------- *)
Hypothesis Hwf : wf_src.

Definition res_ok (w : what) (st' : cstate) (r : N) : Prop :=
  match w with
  | WObj o => o <> 0%N -> (exists x, nget (g_objs src) o = Some x) -> nget (c_mo st') o = Some r /\ r <> 0%N
  | WScope s => s <> 0%N -> (exists x, nget (g_scopes src) s = Some x) -> nget (c_ms st') s = Some r /\ r <> 0%N
  end.

Definition copy_ok (f : nat) : Prop :=
  forall w st Oo Os st' r,
    inv st Oo Os -> (todo st < f)%nat -> copy src mn f w st = (st', r) ->
    inv st' Oo Os /\ ext st st' /\ res_ok w st' r.

Lemma copy_ref_ok f : copy_ok f -> forall r st Oo Os st' r',
  inv st Oo Os -> (todo st < f)%nat -> ref_closed r -> copy_ref f r st = (st', r') ->
  inv st' Oo Os /\ ext st st' /\ ref_mapped [] (c_ms st') mn r r'.
Proof.
  intros IH r st Oo Os st' r' Hi Ht Hc H. destruct r as [|n|s|z]; cbn [copy_ref] in H.
  - inversion H; subst. split; [exact Hi|split; [apply ext_refl|exact Logic.I]].
  - inversion H; subst. split; [exact Hi|split; [apply ext_refl|reflexivity]].
  - destruct (copy src mn f (WScope s) st) as [st1 s'] eqn:E. inversion H; subst. destruct Hc as [Hs0 Hex].
    destruct (IH _ _ _ _ _ _ Hi Ht E) as [I1 [X1 R1]]. cbn [res_ok] in R1. destruct (R1 Hs0 Hex) as [Hg Hnz].
    split; [exact I1|split; [exact X1|]]. apply N.eqb_neq in Hnz. rewrite Hnz. cbn. exact Hg.
  - inversion H; subst. split; [exact Hi|split; [apply ext_refl|reflexivity]].
Qed.

Lemma copy_outer_ok f : copy_ok f -> forall o st Oo Os st' o',
  inv st Oo Os -> (todo st < f)%nat ->
  (forall u, o = Some u -> u <> 0%N /\ exists x, nget (g_scopes src) u = Some x) ->
  copy_outer f o st = (st', o') ->
  inv st' Oo Os /\ ext st st' /\ outer_done (c_ms st') o o'.
Proof.
  intros IH o st Oo Os st' o' Hi Ht Hc H. destruct o as [u|]; cbn [copy_outer] in H.
  - destruct (copy src mn f (WScope u) st) as [st1 u'] eqn:E. inversion H; subst. destruct (Hc u eq_refl) as [Hs0 Hex].
    destruct (IH _ _ _ _ _ _ Hi Ht E) as [I1 [X1 R1]]. cbn [res_ok] in R1. destruct (R1 Hs0 Hex) as [Hg Hnz].
    split; [exact I1|split; [exact X1|]]. apply N.eqb_neq in Hnz. rewrite Hnz. cbn. exact Hg.
  - inversion H; subst. split; [exact Hi|split; [apply ext_refl|exact Logic.I]].
Qed.

Lemma copy_members_ok f : copy_ok f -> forall l st acc Oo Os st' l',
  inv st Oo Os -> (todo st < f)%nat ->
  (forall e, In e l -> snd e <> 0%N /\ exists x, nget (g_objs src) (snd e) = Some x) ->
  copy_members f l (st, acc) = (st', l') ->
  inv st' Oo Os /\ ext st st' /\ exists l2, l' = acc ++ l2 /\ members_done (c_mo st') l l2.
Proof.
  intros IH l. unfold copy_members. induction l as [|e l IHl]; intros st acc Oo Os st' l' Hi Ht Hc H; cbn [fold_left] in H.
  - inversion H; subst. split; [exact Hi|split; [apply ext_refl|]]. exists []. rewrite app_nil_r. split; [reflexivity|constructor].
  - destruct (copy src mn f (WObj (snd e)) st) as [st1 d'] eqn:E.
    destruct (Hc e (or_introl eq_refl)) as [Hn0 Hex].
    destruct (IH _ _ _ _ _ _ Hi Ht E) as [I1 [X1 R1]]. cbn [res_ok] in R1. destruct (R1 Hn0 Hex) as [Hg _].
    assert (Ht1 : (todo st1 < f)%nat) by (assert (X := todo_ext _ _ X1); lia).
    destruct (IHl st1 (acc ++ [(fst e, d')]) Oo Os st' l' I1 Ht1 (fun e' He' => Hc e' (or_intror He')) H) as [I2 [X2 [l2 [El Hm]]]].
    split; [exact I2|split; [eapply ext_trans; eassumption|]].
    exists ((fst e, d') :: l2). split; [rewrite El, <- app_assoc; reflexivity|].
    constructor; [split; [reflexivity|]|exact Hm]. cbn [snd]. destruct X2 as [Xo _]. apply Xo. exact Hg.
Qed.

Lemma copy_correct : forall f, copy_ok f.
Proof.
  induction f as [|f IHf]; intros w st Oo Os st' r Hi Ht H; [lia|].
  destruct w as [o|s].
  - rewrite copy_obj_eq in H. destruct (N.eqb_spec o 0) as [->|Ho0].
    { inversion H; subst. split; [exact Hi|split; [apply ext_refl|]]. intros X. exfalso. apply X. reflexivity. }
    destruct (nget (c_mo st) o) as [d|] eqn:Em.
    { inversion H; subst. split; [exact Hi|split; [apply ext_refl|]]. intros _ _. split; [exact Em|].
      assert (X := i_mo_lt _ _ _ Hi _ _ (nget_In _ _ _ Em)). lia. }
    destruct (nget (g_objs src) o) as [ob|] eqn:Es.
    2:{ inversion H; subst. split; [exact Hi|split; [apply ext_refl|]]. intros _ [x Hx]. congruence. }
    destruct (alloc_obj_spec st Oo Os o ob Hi Em Es) as [I1 [X1 [G1 T1]]].
    destruct (copy_ref f (o_decl ob) (alloc_obj st o ob)) as [st2 decl] eqn:E2.
    destruct (copy_ref f (o_data ob) st2) as [st3 data] eqn:E3. inversion H; subst st' r.
    destruct (w_obj Hwf _ _ Es) as [Cd Ca].
    assert (Ht1 : (todo (alloc_obj st o ob) < f)%nat) by lia.
    destruct (copy_ref_ok f IHf _ _ _ _ _ _ I1 Ht1 Cd E2) as [I2 [X2 M2]].
    assert (Ht2 : (todo st2 < f)%nat) by (assert (X := todo_ext _ _ X2); lia).
    destruct (copy_ref_ok f IHf _ _ _ _ _ _ I2 Ht2 Ca E3) as [I3 [X3 M3]].
    assert (G3 : nget (c_mo st3) o = Some (c_next st)) by (apply X3, X2; exact G1).
    assert (M2' : ref_mapped [] (c_ms st3) mn (o_decl ob) decl) by (eapply ref_mapped_ext; [apply X3|exact M2]).
    destruct (finish_obj_spec st3 Oo Os o (c_next st) ob decl data I3 G3 Es M2' M3) as [I4 X4].
    split; [exact I4|split; [eapply ext_trans; [exact X1|eapply ext_trans; [exact X2|eapply ext_trans; [exact X3|exact X4]]]|]].
    intros _ _. split; [exact G3|]. assert (X := i_pos _ _ _ Hi). lia.
  - rewrite copy_scope_eq in H. destruct (N.eqb_spec s 0) as [->|Hs0].
    { inversion H; subst. split; [exact Hi|split; [apply ext_refl|]]. intros X. exfalso. apply X. reflexivity. }
    destruct (nget (c_ms st) s) as [d|] eqn:Em.
    { inversion H; subst. split; [exact Hi|split; [apply ext_refl|]]. intros _ _. split; [exact Em|].
      assert (X := i_ms_lt _ _ _ Hi _ _ (nget_In _ _ _ Em)). lia. }
    destruct (nget (g_scopes src) s) as [sc|] eqn:Es.
    2:{ inversion H; subst. split; [exact Hi|split; [apply ext_refl|]]. intros _ [x Hx]. congruence. }
    destruct (alloc_scope_spec st Oo Os s sc Hi Em Es) as [I1 [X1 [G1 T1]]].
    destruct (copy_outer f (s_outer sc) (alloc_scope st s)) as [st2 outer] eqn:E2.
    destruct (copy_members f (s_objs sc) (st2, [])) as [st3 objs] eqn:E3. inversion H; subst st' r.
    assert (Ht1 : (todo (alloc_scope st s) < f)%nat) by lia.
    destruct (copy_outer_ok f IHf _ _ _ _ _ _ I1 Ht1 (fun u Hu => w_outer Hwf _ _ _ Es Hu) E2) as [I2 [X2 M2]].
    assert (Ht2 : (todo st2 < f)%nat) by (assert (X := todo_ext _ _ X2); lia).
    assert (Hcl : forall e, In e (s_objs sc) -> snd e <> 0%N /\ exists x, nget (g_objs src) (snd e) = Some x).
    { intros [n o] He. exact (w_members Hwf _ _ _ _ Es He). }
    destruct (copy_members_ok f IHf _ _ _ _ _ _ _ I2 Ht2 Hcl E3) as [I3 [X3 [l2 [El M3]]]]. cbn [app] in El. subst objs.
    assert (G3 : nget (c_ms st3) s = Some (c_next st)) by (apply X3, X2; exact G1).
    assert (M2' : outer_done (c_ms st3) (s_outer sc) outer) by (eapply outer_done_ext; [apply X3|exact M2]).
    destruct (finish_scope_spec st3 Oo Os s (c_next st) sc outer l2 I3 G3 Es M2' M3) as [I4 X4].
    split; [exact I4|split; [eapply ext_trans; [exact X1|eapply ext_trans; [exact X2|eapply ext_trans; [exact X3|exact X4]]]|]].
    intros _ _. split; [exact G3|]. assert (X := i_pos _ _ _ Hi). lia.
Qed.

(* ---- from the invariant (nothing open) to the executable check ------------------------------------ *)
Lemma ref_eqb_refl r : ref_eqb r r = true.
Proof. destruct r; cbn; auto using N.eqb_refl, Z.eqb_refl. Qed.

Lemma mapped_oref_eqb mo ms a d : ref_mapped [] ms mn a d -> oref_eqb (map_ref mo ms mn a) d = true.
Proof.
  destruct a as [|n|s|z], d as [|n'|s'|z']; cbn; try contradiction; auto.
  - intros ->. apply N.eqb_refl.
  - intros ->. cbn. apply N.eqb_refl.
  - intros ->. apply Z.eqb_refl.
Qed.

Lemma members_done_ok mo a d : members_done mo a d -> members_ok mo a d = true.
Proof.
  induction 1 as [|[n o] [n' o'] a d [Hf Hn] _ IH]; [reflexivity|]. cbn in Hf, Hn. subst n'. cbn [members_ok].
  rewrite String.eqb_refl, Hn, N.eqb_refl, IH. reflexivity.
Qed.

Lemma inv_closed_accepted st : inv st [] [] -> iso_check src (c_out st) (c_mo st) (c_ms st) mn = true.
Proof.
  intros [A0 A1 A2 A3 A4 A5 A6 A7 A8]. unfold iso_check.
  rewrite (NoDup_nodupN _ A1), (NoDup_nodupN _ A2), (NoDup_nodupN _ A3), (NoDup_nodupN _ A4). cbn [andb].
  apply andb_true_iff. split; apply forallb_forall.
  - intros [a d] Hin. destruct (A7 a d Hin (fun X => X)) as [oa [od [B1 [B2 [B3 [B4 [B5 B6]]]]]]].
    unfold obj_ok. cbn [fst snd]. rewrite B1, B2, B3, B4, N.eqb_refl, String.eqb_refl.
    rewrite (mapped_oref_eqb (c_mo st) _ _ _ B5), (mapped_oref_eqb (c_mo st) _ _ _ B6). reflexivity.
  - intros [a d] Hin. destruct (A8 a d Hin (fun X => X)) as [sa [sd [B1 [B2 [B3 B4]]]]].
    unfold scope_ok. cbn [fst snd]. rewrite B1, B2, (members_done_ok _ _ _ B4), andb_true_r.
    unfold outer_done in B3. destruct (s_outer sa), (s_outer sd); try contradiction; [rewrite B3; apply N.eqb_refl|reflexivity].
Qed.

Lemma init_inv : inv (mkC [] [] (mkGraph [] []) 1) [] [].
Proof. constructor; cbn; try constructor; try (intros ? ? []); lia. Qed.

Lemma todo_init : todo (mkC [] [] (mkGraph [] []) 1) = (List.length (g_objs src) + List.length (g_scopes src))%nat.
Proof.
  unfold todo. cbn [c_mo c_ms].
  assert (H : forall A (l : list (N * A)), filter (unseen (@nil (N * N))) l = l).
  { intros A l. induction l as [|x r IH]; [reflexivity|]. cbn. rewrite IH. reflexivity. }
  rewrite !H. reflexivity.
Qed.

Definition root_copied (st : cstate) (w : what) : Prop :=
  match w with
  | WObj o => o <> 0%N -> (exists x, nget (g_objs src) o = Some x) -> exists d, nget (c_mo st) o = Some d /\ d <> 0%N
  | WScope s => s <> 0%N -> (exists x, nget (g_scopes src) s = Some x) -> exists d, nget (c_ms st) s = Some d /\ d <> 0%N
  end.

Lemma root_copied_ext st st' w : ext st st' -> root_copied st w -> root_copied st' w.
Proof.
  intros [Xo [Xs _]] H. destruct w; cbn in *; intros H0 Hex; destruct (H H0 Hex) as [d [Hg Hd]]; exists d; auto.
Qed.

Lemma copy_roots_ok fuel roots : forall st,
  inv st [] [] -> (todo st < fuel)%nat ->
  let st' := fold_left (fun st w => fst (copy src mn fuel w st)) roots st in
  inv st' [] [] /\ ext st st' /\ forall w, In w roots -> root_copied st' w.
Proof.
  induction roots as [|w roots IH]; intros st Hi Ht; cbn [fold_left].
  - split; [exact Hi|split; [apply ext_refl|intros w []]].
  - destruct (copy src mn fuel w st) as [st1 r] eqn:E. cbn [fst].
    destruct (copy_correct fuel w st [] [] st1 r Hi Ht E) as [I1 [X1 R1]].
    assert (Ht1 : (todo st1 < fuel)%nat) by (assert (X := todo_ext _ _ X1); lia).
    destruct (IH st1 I1 Ht1) as [I2 [X2 R2]].
    split; [exact I2|split; [eapply ext_trans; eassumption|]].
    intros w' [<-|Hin]; [|apply R2; exact Hin].
    apply (root_copied_ext st1); [exact X2|]. destruct w; cbn in *; intros H0 Hex; exists r; apply R1; assumption.
Qed.

End CopyCorrect.

(* The memoised copy of any well-formed object / scope graph -- cyclic or not, any roots -- is accepted
   by the isomorphism check, and every root that exists in the source has a copy.  Fuel: one more
   than the number of objects and scopes is enough. *)
Theorem memoised_copy_accepted src mn fuel roots :
  wf_src src -> (List.length (g_objs src) + List.length (g_scopes src) < fuel)%nat ->
  let st := copy_all src mn fuel roots in
  iso_check src (c_out st) (c_mo st) (c_ms st) mn = true /\
  forall w, In w roots -> root_copied src st w.
Proof.
  intros Hwf Hf. unfold copy_all.
  destruct (copy_roots_ok src mn Hwf fuel roots _ (init_inv src mn)) as [I [_ R]]; [rewrite todo_init; exact Hf|].
  split; [apply inv_closed_accepted; exact I|exact R].
Qed.

(* the executable well-formedness test implies the hypothesis *)
Lemma is_some_ex {A} (o : option A) : is_some o = true -> exists x, o = Some x.
Proof. destruct o; [eexists; reflexivity|discriminate]. Qed.

Lemma wf_srcb_sound g : wf_srcb g = true -> wf_src g.
Proof.
  unfold wf_srcb. intros H. apply andb_true_iff in H. destruct H as [Ho Hs].
  rewrite forallb_forall in Ho, Hs.
  assert (Hc : forall r, ref_closedb g r = true -> ref_closed g r).
  { intros r Hr. destruct r; cbn in *; auto. apply andb_true_iff in Hr. destruct Hr as [A B].
    split; [apply N.eqb_neq, negb_true_iff; exact A|apply is_some_ex; exact B]. }
  constructor.
  - intros a oa Ha. specialize (Ho _ (nget_In _ _ _ Ha)). cbn [snd] in Ho. apply andb_true_iff in Ho. destruct Ho. split; apply Hc; assumption.
  - intros s sc u Hsc Hu. specialize (Hs _ (nget_In _ _ _ Hsc)). cbn [snd] in Hs. apply andb_true_iff in Hs. destruct Hs as [A _].
    rewrite Hu in A. apply andb_true_iff in A. destruct A as [A B]. split; [apply N.eqb_neq, negb_true_iff; exact A|apply is_some_ex; exact B].
  - intros s sc n o Hsc Hin. specialize (Hs _ (nget_In _ _ _ Hsc)). cbn [snd] in Hs. apply andb_true_iff in Hs. destruct Hs as [_ B].
    rewrite forallb_forall in B. specialize (B _ Hin). cbn [snd] in B. apply andb_true_iff in B. destruct B as [A B].
    split; [apply N.eqb_neq, negb_true_iff; exact A|apply is_some_ex; exact B].
Qed.

(* the hypotheses are satisfiable by a cyclic graph: an object whose declaration is a scope that
   contains the object and whose outer scope is itself *)
Example wf_cyclic :
  wf_src (mkGraph [(1%N, mkObj 2 "x" (RScope 1) (RInt 3))] [(1%N, mkScope (Some 1%N) [("x"%string, 1%N)])]).
Proof.
  constructor.
  - intros a oa H. cbn in H. destruct (N.eqb a 1); inversion H; subst. cbn. split; [split; [discriminate|eexists; reflexivity]|exact I].
  - intros s sc u H Hu. cbn in H. destruct (N.eqb s 1); inversion H; subst. cbn in Hu. inversion Hu; subst. split; [discriminate|eexists; reflexivity].
  - intros s sc n o H Hin. cbn in H. destruct (N.eqb s 1); inversion H; subst. cbn in Hin. destruct Hin as [E|[]]. inversion E; subst. split; [discriminate|eexists; reflexivity].
Qed.

Print Assumptions memoised_copy_accepted.
