(* C11: converse pair lists with distinct keys on both sides are mutually inverse maps. *)
From Coq Require Import List String ZArith NArith Bool Lia.
Import ListNotations.
From DV Require Import Model.Tree Model.Tables Model.Maps.
Local Open Scope list_scope.

Lemma lookupNN_notin l k : ~ In k (map fst l) -> lookupNN l k = None.
Proof.
  induction l as [|[a b] l IH]; cbn; intros H; [reflexivity|].
  destruct (N.eqb_spec k a) as [->|Hne]; [exfalso; apply H; left; reflexivity|].
  apply IH. intros Hin. apply H. right. exact Hin.
Qed.

Lemma lookupNN_in l : NoDup (map fst l) -> forall a d, In (a, d) l -> lookupNN l a = Some d.
Proof.
  induction l as [|[a0 d0] l IH]; cbn; intros Hnd a d Hin; [destruct Hin|].
  inversion Hnd as [|? ? Hn Hnd']; subst.
  destruct Hin as [Heq|Hin].
  - inversion Heq; subst. rewrite N.eqb_refl. reflexivity.
  - destruct (N.eqb_spec a a0) as [->|Hne]; [|apply IH; assumption].
    exfalso. apply Hn. apply (in_map fst _ _ Hin).
Qed.

Lemma swap_fst l : map fst (swap_pairs l) = map snd l.
Proof. unfold swap_pairs. rewrite map_map. reflexivity. Qed.

Lemma swap_in l a d : In (a, d) l -> In (d, a) (swap_pairs l).
Proof. intros H. unfold swap_pairs. apply in_map_iff. exists (a, d). auto. Qed.

(* Dst.Nodes = l (ast node -> dst node), Ast.Nodes = swap l: total on what was recorded and
   mutually inverse *)
Theorem converse_maps_inverse (l : list (N * N)) :
  NoDup (map fst l) -> NoDup (map snd l) ->
  forall a d, In (a, d) l ->
  lookupNN l a = Some d /\ lookupNN (swap_pairs l) d = Some a.
Proof.
  intros H1 H2 a d Hin. split; [apply lookupNN_in; assumption|].
  apply lookupNN_in; [rewrite swap_fst; exact H2|apply swap_in; exact Hin].
Qed.

(* the collapsed qualified identifier: three ast nodes onto one dst identifier *)
Theorem collapsed_selector_maps (l : list (N * N)) (sel x s out : N) :
  NoDup (sel :: x :: s :: map fst l) -> ~ In out (map snd l) ->
  let dstn := (sel, out) :: (x, out) :: (s, out) :: l in
  let astn := (out, sel) :: swap_pairs l in
  lookupNN dstn sel = Some out /\ lookupNN dstn x = Some out /\ lookupNN dstn s = Some out /\
  lookupNN astn out = Some sel /\
  (forall a d, In (a, d) l -> NoDup (map snd l) -> lookupNN dstn a = Some d /\ lookupNN astn d = Some a).
Proof.
  intros Hnd Hout. cbn zeta.
  inversion Hnd as [|? ? Hs1 Hnd1]; subst. inversion Hnd1 as [|? ? Hs2 Hnd2]; subst. inversion Hnd2 as [|? ? Hs3 Hnd3]; subst.
  assert (Hx : x <> sel) by (intros ->; apply Hs1; left; reflexivity).
  assert (Hss : s <> sel) by (intros ->; apply Hs1; right; left; reflexivity).
  assert (Hsx : s <> x) by (intros ->; apply Hs2; left; reflexivity).
  cbn [lookupNN]. rewrite !N.eqb_refl.
  repeat split.
  - destruct (N.eqb_spec x sel); [contradiction|reflexivity].
  - destruct (N.eqb_spec s sel); [contradiction|]. destruct (N.eqb_spec s x); [contradiction|reflexivity].
  - intros. destruct (N.eqb_spec a sel) as [->|_].
    + exfalso. apply Hs1. right. right. apply (in_map fst _ _ H).
    + destruct (N.eqb_spec a x) as [->|_]; [exfalso; apply Hs2; right; apply (in_map fst _ _ H)|].
      destruct (N.eqb_spec a s) as [->|_]; [exfalso; apply Hs3; apply (in_map fst _ _ H)|].
      apply lookupNN_in; assumption.
  - intros. destruct (N.eqb_spec d out) as [->|_].
    + exfalso. apply Hout. apply (in_map snd _ _ H).
    + apply lookupNN_in; [rewrite swap_fst; assumption|apply swap_in; assumption].
Qed.
