(* C07: exactness of the import declarations after updateImports -- every referenced path is
   imported exactly once, by a spec that binds the very name the restored code uses; alias
   precedence (Alias map > alias in the source > resolved package name). *)
From Coq Require Import List String ZArith NArith Bool Ascii Lia Permutation.
Import ListNotations.
From DV Require Import Model.Tree Model.Imports Proofs.ImportsProofs.
Local Open Scope string_scope.
Local Open Scope list_scope.

(* ---- sorting is a permutation -------------------------------------------------------------- *)
Lemma insert_sorted_perm {A} (key : A -> string) x l : Permutation (insert_sorted key x l) (x :: l).
Proof.
  induction l as [|y r IH]; cbn [insert_sorted]; [apply Permutation_refl|].
  destruct (path_less (key x) (key y)); [apply Permutation_refl|].
  eapply Permutation_trans; [apply perm_skip; exact IH|apply perm_swap].
Qed.

Lemma sort_by_perm {A} (key : A -> string) l : Permutation (sort_by key l) l.
Proof.
  unfold sort_by. induction l as [|x r IH]; cbn [fold_right]; [apply Permutation_refl|].
  eapply Permutation_trans; [apply insert_sorted_perm|apply perm_skip; exact IH].
Qed.

Lemma NoDup_dedup l : NoDup (dedup l).
Proof.
  induction l as [|x r IH]; cbn [dedup]; [constructor|].
  destruct (mem x r) eqn:E; [exact IH|]. constructor; [|exact IH].
  intros Hin. assert (Hr : In x r).
  { clear - Hin. induction r as [|y r IH]; [exact Hin|]. cbn [dedup] in Hin.
    destruct (mem y r) eqn:E; [right; apply IH; exact Hin|]. destruct Hin as [->|Hin]; [left; reflexivity|right; apply IH; exact Hin]. }
  apply mem_In in Hr. congruence.
Qed.

Lemma In_dedup x l : In x (dedup l) <-> In x l.
Proof.
  induction l as [|y r IH]; cbn [dedup]; [tauto|].
  destruct (mem y r) eqn:E.
  - rewrite IH. cbn [In]. split; [auto|]. intros [<-|H]; [apply mem_In; exact E|exact H].
  - cbn [In]. rewrite IH. tauto.
Qed.

(* ---- the paths of the specs of a block list ---------------------------------------------------- *)
Definition spec_paths (bs : list block) : list string := map s_path (all_specs bs).

Lemma spec_paths_cons b r : spec_paths (b :: r) = map s_path (b_specs b) ++ spec_paths r.
Proof. unfold spec_paths, all_specs. cbn [flat_map]. apply map_app. Qed.

Lemma NoDup_map_filter_sub {A} (f : A -> string) (p : A -> bool) l : NoDup (map f l) -> NoDup (map f (filter p l)).
Proof.
  induction l as [|x r IH]; cbn [filter map]; intros H; [constructor|].
  inversion H as [|? ? Hn Hr]; subst. destruct (p x); cbn [map]; [|apply IH; exact Hr].
  constructor; [|apply IH; exact Hr]. intros Hin. apply Hn.
  apply in_map_iff in Hin. destruct Hin as [y [Hy Hin]]. apply filter_In in Hin. apply in_map_iff. exists y. tauto.
Qed.

Lemma In_map_filter {A} (f : A -> string) (p : A -> bool) l x : In x (map f (filter p l)) -> In x (map f l).
Proof. intros H. apply in_map_iff in H. destruct H as [y [Hy Hin]]. apply filter_In in Hin. apply in_map_iff. exists y. tauto. Qed.

(* ---- sub-lists ------------------------------------------------------------------------------ *)
Inductive sublist {A} : list A -> list A -> Prop :=
| sl_nil l : sublist [] l
| sl_keep x l' l : sublist l' l -> sublist (x :: l') (x :: l)
| sl_drop x l' l : sublist l' l -> sublist l' (x :: l).

Lemma sublist_refl {A} (l : list A) : sublist l l.
Proof. induction l; constructor; assumption. Qed.

Lemma sublist_In {A} (l' l : list A) : sublist l' l -> forall x, In x l' -> In x l.
Proof. induction 1 as [l|x l' l H IH|x l' l H IH]; intros y Hy; [destruct Hy| |right; apply IH; exact Hy].
  destruct Hy as [<-|Hy]; [left; reflexivity|right; apply IH; exact Hy]. Qed.

Lemma sublist_NoDup {A} (l' l : list A) : sublist l' l -> NoDup l -> NoDup l'.
Proof.
  induction 1 as [l|x l' l H IH|x l' l H IH]; intros Hnd; [constructor| |].
  - inversion Hnd as [|? ? Hn Hr]; subst. constructor; [|apply IH; exact Hr].
    intros Hin. apply Hn. eapply sublist_In; eassumption.
  - inversion Hnd; subst. apply IH. assumption.
Qed.

Lemma sublist_trans {A} (a b c : list A) : sublist a b -> sublist b c -> sublist a c.
Proof.
  intros H1 H2. revert a H1. induction H2 as [l|x l' l H IH|x l' l H IH]; intros a H1.
  - inversion H1; subst. constructor.
  - inversion H1 as [|y a' ? Ha|y a' ? Ha]; subst; [constructor|apply sl_keep; apply IH; exact Ha|apply sl_drop; apply IH; exact Ha].
  - apply sl_drop. apply IH. exact H1.
Qed.

Lemma sublist_app {A} (a a' b b' : list A) : sublist a a' -> sublist b b' -> sublist (a ++ b) (a' ++ b').
Proof.
  induction 1 as [l|x l' l H IH|x l' l H IH]; intros Hb; cbn [app].
  - induction l as [|y l IHl]; cbn [app]; [exact Hb|apply sl_drop; exact IHl].
  - apply sl_keep. apply IH. exact Hb.
  - apply sl_drop. apply IH. exact Hb.
Qed.

Lemma sublist_map_filter {A B} (f : A -> B) (p : A -> bool) l : sublist (map f (filter p l)) (map f l).
Proof.
  induction l as [|x r IH]; cbn [filter map]; [constructor|].
  destruct (p x); cbn [map]; [apply sl_keep|apply sl_drop]; exact IH.
Qed.

Lemma update_block_paths_sub required aliases b :
  sublist (map s_path (b_specs (fst (update_block required aliases b)))) (map s_path (b_specs b)).
Proof.
  unfold update_block.
  assert (E : sublist (map s_path (map (fix_spec aliases) (filter (fun s => mem (s_path s) required) (b_specs b)))) (map s_path (b_specs b))).
  { rewrite map_map. replace (map (fun x => s_path (fix_spec aliases x)) (filter (fun s => mem (s_path s) required) (b_specs b)))
      with (map s_path (filter (fun s => mem (s_path s) required) (b_specs b))) by (apply map_ext; intros; reflexivity).
    apply sublist_map_filter. }
  destruct (Nat.eqb _ _); [exact E|]. destruct (Nat.eqb _ 0); exact E.
Qed.

Lemma updated_blocks_sub required aliases bs :
  sublist (spec_paths (map fst (map (update_block required aliases) bs))) (spec_paths bs).
Proof.
  induction bs as [|b r IH]; [constructor|]. cbn [map]. rewrite !spec_paths_cons.
  apply sublist_app; [apply update_block_paths_sub|exact IH].
Qed.

Lemma respace_head_paths bs : spec_paths (respace_head bs) = spec_paths bs.
Proof. destruct bs as [|b r]; [reflexivity|]. cbn [respace_head]. rewrite !spec_paths_cons. cbn [b_specs]. rewrite respace_paths. reflexivity. Qed.

Lemma filter_blocks_sub (p : block -> bool) bs : sublist (spec_paths (filter p bs)) (spec_paths bs).
Proof.
  induction bs as [|b r IH]; [constructor|]. cbn [filter]. destruct (p b); rewrite ?spec_paths_cons.
  - apply sublist_app; [apply sublist_refl|exact IH].
  - replace (spec_paths (filter p r)) with ([] ++ spec_paths (filter p r)) by reflexivity.
    apply sublist_app; [constructor|exact IH].
Qed.

Lemma finish_blocks_sub required aliases added blocks2 :
  sublist (spec_paths (fst (finish_blocks required aliases added blocks2))) (spec_paths blocks2).
Proof.
  unfold finish_blocks. cbn zeta. cbn [fst].
  eapply sublist_trans; [apply filter_blocks_sub|].
  destruct added; [rewrite respace_head_paths|]; apply updated_blocks_sub.
Qed.

Lemma NoDup_app_intro {A} (l1 l2 : list A) : NoDup l1 -> NoDup l2 -> (forall x, In x l1 -> ~ In x l2) -> NoDup (l1 ++ l2).
Proof.
  induction l1 as [|x r IH]; cbn [app]; intros H1 H2 H; [exact H2|].
  inversion H1 as [|? ? Hn Hr]; subst. constructor.
  - intros Hin. apply in_app_or in Hin. destruct Hin as [Hin|Hin]; [contradiction|]. apply (H x); [left; reflexivity|exact Hin].
  - apply IH; [exact Hr|exact H2|]. intros y Hy. apply H. right. exact Hy.
Qed.

(* ---- additions keep the paths distinct -------------------------------------------------------- *)
Lemma add_missing_paths_perm aliases missing added b0 rest :
  Permutation (spec_paths (add_missing aliases missing added (b0 :: rest))) (missing ++ spec_paths (b0 :: rest)).
Proof.
  cbn [add_missing]. rewrite !spec_paths_cons. cbn [b_specs].
  set (specs := b_specs b0 ++ map (fun p => mkSpec p (alias_of aliases p) 0 SNone SNone) missing).
  assert (P : Permutation (map s_path (if added then sort_by s_path specs else specs)) (map s_path specs)).
  { destruct added; [apply Permutation_map; apply sort_by_perm|apply Permutation_refl]. }
  eapply Permutation_trans; [apply Permutation_app_tail; exact P|].
  subst specs. rewrite map_app, map_map. cbn [s_path]. rewrite map_id.
  rewrite <- app_assoc. eapply Permutation_trans; [apply Permutation_app_swap_app|]. apply Permutation_refl.
Qed.

Theorem rebuild_keeps_paths_distinct required aliases found ordered blocks :
  NoDup ordered -> NoDup (spec_paths blocks) ->
  (forall p, In p (spec_paths blocks) -> ahas found p = true) ->
  NoDup (spec_paths (fst (fst (fst (rebuild_blocks required aliases found ordered blocks))))).
Proof.
  intros Hord Hnd Hfound. unfold rebuild_blocks. cbn zeta.
  set (missing := filter (fun p => negb (ahas found p)) ordered).
  set (added := negb (match missing with [] => true | _ => false end)).
  set (new_block := added && (match blocks with [] => true | _ => false end)).
  set (blocks1 := if new_block then [mkBlock [] false 0] else blocks).
  assert (Hmnd : NoDup missing) by (subst missing; clear - Hord; induction ordered as [|x r IH]; cbn [filter]; [constructor|];
    inversion Hord as [|? ? Hn Hr]; subst; destruct (negb (ahas found x)); [constructor; [intros Hin; apply Hn; apply filter_In in Hin; tauto|]|]; apply IH; exact Hr).
  assert (Hdisj : forall p, In p missing -> ~ In p (spec_paths blocks1)).
  { intros p Hp Hin. subst missing. apply filter_In in Hp. destruct Hp as [_ Hp].
    subst blocks1. destruct new_block; [destruct Hin|]. rewrite (Hfound p Hin) in Hp. discriminate. }
  assert (Hnd1 : NoDup (spec_paths blocks1)) by (subst blocks1; destruct new_block; [constructor|exact Hnd]).
  assert (Hnd2 : NoDup (spec_paths (add_missing aliases missing added blocks1))).
  { destruct blocks1 as [|b0 rest]; [constructor|].
    eapply Permutation_NoDup; [apply Permutation_sym; apply add_missing_paths_perm|].
    apply NoDup_app_intro; assumption. }
  pose proof (finish_blocks_sub required aliases added (add_missing aliases missing added blocks1)) as Hsub.
  destruct (finish_blocks required aliases added (add_missing aliases missing added blocks1)) as [bs del]. cbn [fst] in *.
  eapply sublist_NoDup; eassumption.
Qed.

(* ---- the theorem on updateImports ---------------------------------------------------------------- *)
Lemma ahas_aset m k v k' : ahas (aset m k v) k' = (String.eqb k' k || ahas m k').
Proof.
  unfold ahas. destruct (String.eqb_spec k' k) as [->|Hne]; [rewrite aget_aset_same; reflexivity|].
  rewrite aget_aset_other by exact Hne. reflexivity.
Qed.

Lemma ahas_fold_found (l : list spec) : forall m p,
  ahas (fold_left (fun m s => aset m (s_path s) (s_name s)) l m) p = (ahas m p || mem p (map s_path l)).
Proof.
  induction l as [|s r IH]; intros m p; cbn [fold_left map mem]; [rewrite orb_false_r; reflexivity|].
  rewrite IH, ahas_aset. destruct (p =? s_path s), (ahas m p); reflexivity.
Qed.

Lemma ahas_imports_found bs p : ahas (imports_found bs) p = mem p (spec_paths bs).
Proof. unfold imports_found. rewrite ahas_fold_found. reflexivity. Qed.

Lemma required_ordered_NoDup local alias all_blocks used :
  NoDup (sort_by (fun p => p) (required_paths local alias all_blocks used)).
Proof.
  eapply Permutation_NoDup; [apply Permutation_sym; apply sort_by_perm|]. unfold required_paths. apply NoDup_dedup.
Qed.

(* "the import declarations contain each referenced path exactly once": at most once -- a file
   whose import declarations name no path twice is restored with import declarations that name no
   path twice, whatever had to be added, renamed, sorted or removed.  (At least once:
   required_path_is_imported; a source that imports one path twice is the recorded finding
   duplicate-path-import.) *)
Theorem each_path_at_most_once resolve local alias all_blocks used bs del names nb added :
  update_imports resolve local alias all_blocks used = Done bs del names nb added ->
  NoDup (spec_paths all_blocks) -> NoDup (spec_paths bs).
Proof.
  unfold update_imports. cbn zeta.
  destruct (resolve_all _ _ _ _) as [q|resolved]; [discriminate|].
  destruct (assign_names _ _ _) as [names0 aliases].
  intros H Hnd.
  pose proof (rebuild_keeps_paths_distinct (required_paths local alias all_blocks used) aliases (imports_found all_blocks)
                (sort_by (fun p0 => p0) (required_paths local alias all_blocks used))
                (filter (fun b => negb (is_cgo_only b)) all_blocks)) as K.
  destruct (rebuild_blocks _ _ _ _ _) as [[[bs0 del0] nb0] added0]. cbn [fst] in K.
  inversion H; subst. apply K.
  - apply required_ordered_NoDup.
  - eapply sublist_NoDup; [apply filter_blocks_sub|exact Hnd].
  - intros p Hp. rewrite ahas_imports_found. apply mem_In. eapply sublist_In; [apply filter_blocks_sub|exact Hp].
Qed.

(* ---- alias precedence --------------------------------------------------------------------------- *)
(* an alias is usable for path p: it is not empty, and it is not "_" while p is referenced *)
Definition usable (inuse : list string) (p a : string) : bool :=
  negb (String.eqb a "") && negb (String.eqb a "_" && mem p inuse).

Lemma cond_fold_aget (c : string -> string -> bool) (l : amap) : forall m0 q,
  NoDup (map fst l) ->
  aget (fold_left (fun m (pa : string * string) => let '(p, a) := pa in if c p a then aset m p a else m) l m0) q =
  match aget l q with
  | Some a => if c q a then Some a else aget m0 q
  | None => aget m0 q
  end.
Proof.
  induction l as [|[p a] r IH]; intros m0 q Hnd; cbn [fold_left aget]; [reflexivity|].
  cbn [map fst] in Hnd. inversion Hnd as [|? ? Hn Hr]; subst.
  rewrite IH by exact Hr.
  destruct (String.eqb_spec q p) as [->|Hne].
  - assert (E : aget r p = None).
    { clear - Hn. induction r as [|[k v] r IH]; [reflexivity|]. cbn [aget]. cbn [map fst] in Hn.
      destruct (String.eqb_spec p k) as [->|Hk]; [exfalso; apply Hn; left; reflexivity|]. apply IH. intros H. apply Hn. right. exact H. }
    rewrite E. destruct (c p a); [apply aget_aset_same|reflexivity].
  - destruct (aget r q) as [a'|]; [destruct (c q a'); [reflexivity|]|];
      (destruct (c p a); [apply aget_aset_other; exact Hne|reflexivity]).
Qed.

Definition from_source (found : amap) (inuse : list string) (p : string) : option string :=
  match aget found p with Some f => if usable inuse p f then Some f else None | None => None end.

(* Alias precedence, part 1: an alias given to the file restorer (FileRestorer.Alias) beats the
   alias in the source; an empty entry in that map removes the source's alias; without an entry the
   source's alias stands; "_" never stands for a path that is referenced. *)
Theorem effective_alias_precedence found alias inuse p :
  NoDup (map fst found) -> NoDup (map fst alias) ->
  aget (effective_alias found alias inuse) p =
  match aget alias p with
  | Some a => if usable inuse p a then Some a
              else if String.eqb a "" then None else from_source found inuse p
  | None => from_source found inuse p
  end.
Proof.
  intros Hf Ha. unfold effective_alias.
  set (c2 := fun p a : string => negb (String.eqb a "") && negb (String.eqb a "_" && mem p inuse)).
  set (c1 := fun p a : string => negb (String.eqb a "") && negb (match aget alias p with Some "" => true | _ => false end)
                                 && negb (String.eqb a "_" && mem p inuse)).
  assert (E2 : forall m, fold_left (fun m (pa : string * string) => let '(p, a) := pa in
                 if String.eqb a "" then m else if String.eqb a "_" && mem p inuse then m else aset m p a) alias m
               = fold_left (fun m (pa : string * string) => let '(p, a) := pa in if c2 p a then aset m p a else m) alias m).
  { intros m. revert m. induction alias as [|[k v] r IH]; intros m; [reflexivity|]. cbn [fold_left].
    inversion Ha; subst. rewrite IH by assumption. f_equal. unfold c2.
    destruct (String.eqb v ""); [reflexivity|]. destruct (String.eqb v "_" && mem k inuse); reflexivity. }
  assert (E1 : fold_left (fun m (pa : string * string) => let '(p, a) := pa in
                 if String.eqb a "" then m
                 else if (match aget alias p with Some "" => true | _ => false end) then m
                 else if String.eqb a "_" && mem p inuse then m else aset m p a) found []
               = fold_left (fun m (pa : string * string) => let '(p, a) := pa in if c1 p a then aset m p a else m) found []).
  { generalize (@nil (string * string)) as m. clear Hf. induction found as [|[k v] r IH]; intros m; [reflexivity|]. cbn [fold_left].
    rewrite IH. f_equal. unfold c1.
    destruct (String.eqb v ""); [reflexivity|]. cbn [negb andb].
    destruct (match aget alias k with Some "" => true | _ => false end); [reflexivity|].
    destruct (String.eqb v "_" && mem k inuse); reflexivity. }
  rewrite E1, E2. rewrite (cond_fold_aget c2 alias _ p Ha). rewrite (cond_fold_aget c1 found [] p Hf).
  unfold from_source, usable, c1, c2. cbn [aget].
  destruct (aget alias p) as [a|] eqn:EA.
  - destruct (String.eqb_spec a "") as [->|Hne]; cbn [negb andb].
    + destruct (aget found p) as [f|]; [|reflexivity].
      destruct (String.eqb f ""); cbn [negb andb]; reflexivity.
    + assert (Hm : match a with "" => true | _ => false end = false) by (destruct a; [contradiction|reflexivity]).
      destruct (String.eqb a "_" && mem p inuse); cbn [negb]; [|reflexivity].
      destruct (aget found p) as [f|]; [|reflexivity]. rewrite Hm. cbn [negb]. rewrite andb_true_r. reflexivity.
  - destruct (aget found p) as [f|]; [|reflexivity]. rewrite andb_true_r. reflexivity.
Qed.

Lemma aset_keys_NoDup m k v : NoDup (map fst m) -> NoDup (map fst (aset m k v)).
Proof.
  induction m as [|[k' v'] r IH]; cbn [aset map fst]; intros H; [constructor; [intros []|constructor]|].
  inversion H as [|? ? Hn Hr]; subst.
  destruct (String.eqb_spec k k') as [->|Hne]; cbn [map fst]; [constructor; assumption|].
  constructor; [|apply IH; exact Hr]. intros Hin. apply Hn.
  clear - Hin Hne. induction r as [|[a b] r IH]; cbn [aset map fst] in *.
  - destruct Hin as [<-|[]]. contradiction.
  - destruct (String.eqb_spec k a) as [->|Hk]; cbn [map fst] in *; [exact Hin|]. destruct Hin as [<-|Hin]; [left; reflexivity|right; apply IH; exact Hin].
Qed.

Lemma imports_found_keys_NoDup bs : NoDup (map fst (imports_found bs)).
Proof.
  unfold imports_found. generalize (all_specs bs) as l.
  assert (G : forall (l : list spec) m, NoDup (map fst m) -> NoDup (map fst (fold_left (fun m s => aset m (s_path s) (s_name s)) l m))).
  { induction l as [|s r IH]; intros m Hm; [exact Hm|]. cbn [fold_left]. apply IH. apply aset_keys_NoDup. exact Hm. }
  intros l. apply G. constructor.
Qed.

(* Alias precedence, part 2: the name that binds an ordinary import is its effective alias when it
   has one and the resolved package name otherwise, followed by a decimal counter only when that
   name is already taken by an import that sorts before it; and an import spec gets no alias
   exactly when the resolved name itself was free. *)
Theorem chosen_name_prefers_alias resolved names path preferred :
  let pref := if negb (String.eqb preferred "") then preferred else res_name resolved path in
  exists k, fst (find_alias resolved names path preferred) = cand pref k /\
            (forall j, j < k -> mem (cand pref j) (values names) = true /\ cand pref j <> "") /\
            (k = 0 \/ cand pref 0 <> "").
Proof.
  cbv zeta. unfold find_alias, res_name.
  set (pref := if negb (preferred =? "") then preferred else match aget resolved path with Some n => n | None => "" end).
  assert (G : forall fuel k, (forall j, j < k -> mem (cand pref j) (values names) = true /\ cand pref j <> "") ->
              List.length (values names) < fuel + k ->
              exists m, find_free fuel (values names) pref (cand pref k) (S k) = cand pref m /\
                        (forall j, j < m -> mem (cand pref j) (values names) = true /\ cand pref j <> "")).
  { induction fuel as [|f IH]; intros k Hall Hlen.
    - exfalso. cbn in Hlen.
      assert (Hnd : NoDup (map (cand pref) (seq 0 k))).
      { apply FinFun.Injective_map_NoDup; [intros a b; apply cand_inj|apply seq_NoDup]. }
      assert (Hincl : incl (map (cand pref) (seq 0 k)) (values names)).
      { intros s Hs. apply in_map_iff in Hs. destruct Hs as [j [<- Hj]]. apply in_seq in Hj. apply mem_In. apply Hall. lia. }
      pose proof (NoDup_incl_length Hnd Hincl) as L. rewrite map_length, seq_length in L. lia.
    - cbn [find_free]. destruct (negb (cand pref k =? "") && mem (cand pref k) (values names)) eqn:E.
      + change (pref ++ nat_str (S k))%string with (cand pref (S k)).
        apply (IH (S k)); [|lia]. apply andb_true_iff in E. destruct E as [E0 E].
        intros j Hj. destruct (Nat.eq_dec j k) as [->|Hne]; [|apply Hall; lia].
        split; [exact E|]. apply negb_true_iff in E0. intros H0. rewrite H0 in E0. discriminate.
      + exists k. split; [reflexivity|exact Hall]. }
  destruct (G (S (List.length names)) 0) as [m [Hm Hall]]; [intros j Hj; lia|unfold values; rewrite map_length; lia|].
  change (cand pref 0) with pref in Hm.
  exists m. split.
  - destruct (negb (negb (preferred =? "")) && _); cbn [fst]; exact Hm.
  - split; [exact Hall|]. destruct m as [|m]; [left; reflexivity|right]. destruct (Hall 0) as [_ H0]; [lia|exact H0].
Qed.

(* ---- what the resolved names are ------------------------------------------------------------------ *)
Lemma resolve_all_names resolve eff : forall ps acc resolved,
  resolve_all resolve eff ps acc = inr resolved ->
  (forall p n, aget acc p = Some n -> resolve p = Some n) ->
  (forall p, In p ps -> ahas eff p = false -> aget resolved p = resolve p /\ resolve p <> None) /\
  (forall p n, aget acc p = Some n -> aget resolved p = Some n).
Proof.
  induction ps as [|q r IH]; cbn [resolve_all]; intros acc resolved H Hacc.
  - inversion H; subst. split; [intros p []|auto].
  - destruct (ahas eff q) eqn:E.
    + destruct (IH _ _ H Hacc) as [B C]. split; [|exact C].
      intros p [<-|Hp] He; [congruence|apply B; assumption].
    + destruct (resolve q) as [n|] eqn:R; [|discriminate].
      assert (Hacc' : forall p n0, aget (aset acc q n) p = Some n0 -> resolve p = Some n0).
      { intros p n0. destruct (String.eqb_spec p q) as [->|Hne]; [rewrite aget_aset_same; intros K; inversion K; subst; exact R|].
        rewrite aget_aset_other by exact Hne. apply Hacc. }
      destruct (IH _ _ H Hacc') as [B C]. split.
      * intros p [<-|Hp] He; [|apply B; assumption]. rewrite R. split; [|discriminate]. apply C. apply aget_aset_same.
      * intros p n0 Hp. apply C. destruct (String.eqb_spec p q) as [->|Hne]; [|rewrite aget_aset_other by exact Hne; exact Hp].
        rewrite aget_aset_same. f_equal. rewrite (Hacc _ _ Hp) in R. inversion R. reflexivity.
Qed.

(* ---- the effective alias map holds usable aliases only ----------------------------------------------- *)
Lemma effective_alias_usable found alias inuse p a :
  aget (effective_alias found alias inuse) p = Some a -> usable inuse p a = true.
Proof.
  unfold effective_alias.
  assert (G : forall (c : string -> string -> bool) (l : amap) (m : amap),
             (forall q b, c q b = true -> usable inuse q b = true) ->
             (forall q b, aget m q = Some b -> usable inuse q b = true) ->
             forall q b, aget (fold_left (fun m (pa : string * string) => let '(p, a) := pa in if c p a then aset m p a else m) l m) q = Some b ->
                         usable inuse q b = true).
  { intros c l. induction l as [|[k v] r IH]; intros m Hc Hm q b; cbn [fold_left]; [apply Hm|].
    apply IH; [exact Hc|]. intros q0 b0. destruct (c k v) eqn:E; [|apply Hm].
    destruct (String.eqb_spec q0 k) as [->|Hne]; [rewrite aget_aset_same; intros K; inversion K; subst; apply Hc; exact E|].
    rewrite aget_aset_other by exact Hne. apply Hm. }
  set (c2 := fun p a : string => negb (String.eqb a "") && negb (String.eqb a "_" && mem p inuse)).
  set (c1 := fun p a : string => negb (String.eqb a "") && negb (match aget alias p with Some "" => true | _ => false end)
                                 && negb (String.eqb a "_" && mem p inuse)).
  assert (E2 : forall m, fold_left (fun m (pa : string * string) => let '(p, a) := pa in
                 if String.eqb a "" then m else if String.eqb a "_" && mem p inuse then m else aset m p a) alias m
               = fold_left (fun m (pa : string * string) => let '(p, a) := pa in if c2 p a then aset m p a else m) alias m).
  { intros m. revert m. induction alias as [|[k v] r IH]; intros m; [reflexivity|]. cbn [fold_left].
    rewrite IH. f_equal. unfold c2.
    destruct (String.eqb v ""); [reflexivity|]. destruct (String.eqb v "_" && mem k inuse); reflexivity. }
  assert (E1 : fold_left (fun m (pa : string * string) => let '(p, a) := pa in
                 if String.eqb a "" then m
                 else if (match aget alias p with Some "" => true | _ => false end) then m
                 else if String.eqb a "_" && mem p inuse then m else aset m p a) found []
               = fold_left (fun m (pa : string * string) => let '(p, a) := pa in if c1 p a then aset m p a else m) found []).
  { generalize (@nil (string * string)) as m. induction found as [|[k v] r IH]; intros m; [reflexivity|]. cbn [fold_left].
    rewrite IH. f_equal. unfold c1.
    destruct (String.eqb v ""); [reflexivity|]. cbn [negb andb].
    destruct (match aget alias k with Some "" => true | _ => false end); [reflexivity|].
    destruct (String.eqb v "_" && mem k inuse); reflexivity. }
  rewrite E1, E2. apply G.
  - intros q b H. exact H.
  - apply G; [|intros q b K; discriminate K].
    intros q b H. unfold c1 in H. unfold usable. apply andb_true_iff in H. destruct H as [H H3]. apply andb_true_iff in H. destruct H as [H1 _].
    rewrite H1, H3. reflexivity.
Qed.

(* ---- the alias written into the spec and the name used in the code, once more, keeping apart the
        two ways a spec can come to carry no alias ------------------------------------------------------- *)
Lemma cand_nonempty pref k : cand pref k = "" -> pref = "" /\ k = 0.
Proof.
  destruct k as [|k]; cbn [cand]; [auto|]. intros H. exfalso. apply (nat_str_nonempty (S k)).
  assert (L : String.length pref + String.length (nat_str (S k)) = 0) by (rewrite <- append_length, H; reflexivity).
  destruct (nat_str (S k)); [reflexivity|cbn in L; lia].
Qed.

Lemma find_alias_shape2 resolved names path preferred n a :
  find_alias resolved names path preferred = (n, a) ->
  (a = "" /\ preferred = "" /\ n = res_name resolved path) \/ (a = n /\ n <> "").
Proof.
  intros H. pose proof (chosen_name_prefers_alias resolved names path preferred) as HC. cbv zeta in HC.
  destruct HC as [k [Hk _]]. rewrite H in Hk. cbn [fst] in Hk. revert H. unfold find_alias. fold (res_name resolved path).
  set (cur := find_free _ _ _ _ _).
  destruct (negb (negb (preferred =? "")) && (cur =? res_name resolved path)) eqn:E; intros H; inversion H as [[Hn Ha]]; clear H.
  - apply andb_true_iff in E. destruct E as [E1 E2]. apply String.eqb_eq in E2. left.
    rewrite negb_involutive in E1. apply String.eqb_eq in E1. auto.
  - right. rewrite <- Hn in Hk. split; [reflexivity|]. intros H0. rewrite H0 in Hk. symmetry in Hk. apply cand_nonempty in Hk. destruct Hk as [Hp _].
    destruct (String.eqb_spec preferred "") as [->|Hne]; cbn [negb] in Hp.
    + (* not aliased, resolved name empty: the first branch would have been taken *)
      rewrite Hp, H0 in E. cbn in E. discriminate.
    + contradiction.
Qed.

Definition entry_ok2 (resolved eff names aliases : amap) (q : string) : Prop :=
  if String.eqb (eff_alias eff q) "." || String.eqb (eff_alias eff q) "_"
  then aget names q = Some "" /\ aget aliases q = Some (eff_alias eff q)
  else exists n a, aget names q = Some n /\ aget aliases q = Some a /\
                   ((a = "" /\ eff_alias eff q = "" /\ n = res_name resolved q) \/ (a = n /\ n <> "")).

Theorem assigned_names_bind2 resolved eff : forall ordered names aliases,
  NoDup ordered ->
  (forall q, In q ordered -> aget names q = None /\ aget aliases q = None) ->
  forall q0, (entry_ok2 resolved eff names aliases q0 \/ In q0 ordered) ->
  let '(names', aliases') := fold_left (fun (st : amap * amap) path =>
               let '(names, aliases) := st in
               let alias := match aget eff path with Some a => a | None => "" end in
               if String.eqb alias "." || String.eqb alias "_" then (aset names path "", aset aliases path alias)
               else let '(n, a) := find_alias resolved names path alias in (aset names path n, aset aliases path a))
            ordered (names, aliases) in
  entry_ok2 resolved eff names' aliases' q0.
Proof.
  induction ordered as [|p r IH]; intros names aliases Hnd Hfresh q0 Hq0; cbn [fold_left].
  - destruct Hq0 as [H|[]]. exact H.
  - inversion Hnd as [|? ? Hnotin Hnd']; subst.
    set (alias := match aget eff p with Some a => a | None => "" end).
    destruct ((alias =? ".") || (alias =? "_")) eqn:Hdot.
    + apply IH; [exact Hnd'| |].
      * intros q Hq. destruct (Hfresh q (or_intror Hq)) as [A B].
        assert (q <> p) by (intros ->; contradiction). rewrite !aget_aset_other by assumption. auto.
      * destruct (String.eqb_spec q0 p) as [->|Hne].
        -- left. unfold entry_ok2, eff_alias. fold alias. rewrite Hdot. rewrite !aget_aset_same. auto.
        -- destruct Hq0 as [H|[H|H]]; [|congruence|right; exact H].
           left. unfold entry_ok2 in *. destruct ((eff_alias eff q0 =? ".") || (eff_alias eff q0 =? "_")).
           ++ rewrite !aget_aset_other by assumption. exact H.
           ++ destruct H as [n [a H]]. exists n, a. rewrite !aget_aset_other by assumption. exact H.
    + destruct (find_alias resolved names p alias) as [n a] eqn:Hfa.
      apply IH; [exact Hnd'| |].
      * intros q Hq. destruct (Hfresh q (or_intror Hq)) as [A B].
        assert (q <> p) by (intros ->; contradiction). rewrite !aget_aset_other by assumption. auto.
      * destruct (String.eqb_spec q0 p) as [->|Hne].
        -- left. unfold entry_ok2, eff_alias. fold alias. rewrite Hdot. exists n, a. rewrite !aget_aset_same.
           split; [reflexivity|split; [reflexivity|]]. apply (find_alias_shape2 _ _ _ _ _ _ Hfa).
        -- destruct Hq0 as [H|[H|H]]; [|congruence|right; exact H].
           left. unfold entry_ok2 in *. destruct ((eff_alias eff q0 =? ".") || (eff_alias eff q0 =? "_")).
           ++ rewrite !aget_aset_other by assumption. exact H.
           ++ destruct H as [n0 [a0 H]]. exists n0, a0. rewrite !aget_aset_other by assumption. exact H.
Qed.

Corollary assign_names_bind2 resolved eff ordered q :
  NoDup ordered -> In q ordered ->
  let '(names, aliases) := assign_names resolved eff ordered in entry_ok2 resolved eff names aliases q.
Proof.
  intros Hnd Hin. unfold assign_names.
  apply (assigned_names_bind2 resolved eff ordered [] [] Hnd); [intros; split; reflexivity|right; exact Hin].
Qed.

(* ---- the composite statement of C07 ---------------------------------------------------------------- *)
(* how the import spec s names its package in the file: its alias, or without one the name the
   package-name resolver gives for its path *)
Definition bound_name (resolve : string -> option string) (s : spec) : option string :=
  if String.eqb (s_name s) "" then resolve (s_path s) else Some (s_name s).

Lemma in_use_spec local used p : In p (in_use local used) -> p <> "" /\ p <> local.
Proof.
  unfold in_use. intros H. apply (proj1 (In_dedup _ _)) in H. apply filter_In in H. destruct H as [_ H].
  apply andb_true_iff in H. destruct H as [H1 H2]. apply negb_true_iff in H1, H2.
  split; intros ->; rewrite String.eqb_refl in *; discriminate.
Qed.

(* Every referenced (non-local, non-empty) path is, after a successful update, imported by a spec of
   the managed blocks, and that spec binds exactly the qualifier the restored code writes for the
   path: where a dot-import is in effect (in the source or through the Alias map) the spec is a
   dot-import and the identifier is bare; otherwise the identifier is a selector on the non-empty
   name the spec binds (its alias, or the resolved package name when the spec has none).
   Hypotheses on the input: the managed blocks are distinct objects with non-zero ids (freshly
   created blocks get id 0 in the model), a path found in the file is found in a managed block
   (the cgo-only blocks hold nothing but "C"), and the package-name resolver returns no empty name. *)
Theorem reference_is_bound resolve local alias all_blocks used bs del names nb added :
  update_imports resolve local alias all_blocks used = Done bs del names nb added ->
  let blocks := filter (fun b => negb (is_cgo_only b)) all_blocks in
  NoDup (map b_id blocks) -> (forall b, In b blocks -> b_id b <> 0%N) ->
  (forall p, p <> "C" -> In p (spec_paths all_blocks) -> In p (spec_paths blocks)) ->
  (forall p n, resolve p = Some n -> n <> "") ->
  forall p, In p (in_use local used) -> p <> "C" ->
  exists b s, In b bs /\ In s (b_specs b) /\ s_path s = p /\
    ((eff_alias (eff_of local alias all_blocks used) p = "." /\ s_name s = "." /\ rendered_qualifier local names p = None) \/
     (eff_alias (eff_of local alias all_blocks used) p <> "." /\
      exists n, n <> "" /\ rendered_qualifier local names p = Some n /\ bound_name resolve s = Some n)).
Proof.
  unfold update_imports. cbn zeta.
  destruct (resolve_all _ _ _ _) as [q|resolved] eqn:ER; [discriminate|].
  pose proof (assign_names_bind2 resolved (eff_of local alias all_blocks used)
                (sort_by (fun p0 => p0) (required_paths local alias all_blocks used))) as HB.
  destruct (assign_names _ _ _) as [names0 aliases].
  set (required := required_paths local alias all_blocks used) in *.
  pose proof (required_path_is_imported required aliases (imports_found all_blocks) (sort_by (fun p0 => p0) required)
                (filter (fun b => negb (is_cgo_only b)) all_blocks)) as HI.
  destruct (rebuild_blocks _ _ _ _ _) as [[[bs0 del0] nb0] added0]. cbn [fst] in HI.
  intros H Hnd Hnz Hmanaged Hres p Hp HpC. inversion H; subst. clear H.
  assert (Hreq : In p required).
  { subst required. unfold required_paths. apply In_dedup. apply in_or_app. left. exact Hp. }
  assert (Hord : In p (sort_by (fun p0 => p0) required)) by (apply In_sort_by; exact Hreq).
  destruct (HI p Hnd Hnz) as [b [s [Hb [Hs [Hsp Hsn]]]]]; [apply mem_In; exact Hreq|exact Hord| |].
  { rewrite ahas_imports_found. intros Hm. apply mem_In in Hm. apply Hmanaged in Hm; [|exact HpC].
    unfold spec_paths, all_specs in Hm. apply in_map_iff in Hm. destruct Hm as [s0 [E0 Hm]].
    apply in_flat_map in Hm. destruct Hm as [b0 [Hb0 Hs0]]. exists b0, s0. auto. }
  exists b, s. split; [exact Hb|]. split; [exact Hs|]. split; [exact Hsp|].
  specialize (HB p (required_ordered_NoDup local alias all_blocks used) Hord).
  unfold entry_ok2 in HB. unfold alias_of in Hsn.
  destruct (in_use_spec _ _ _ Hp) as [Hne Hnl].
  assert (Hrq : forall n, aget names p = Some n -> rendered_qualifier local names p = match n with "" => None | _ => Some n end).
  { intros n Hn. unfold rendered_qualifier. destruct (String.eqb_spec p "") as [->|_]; [contradiction|].
    destruct (String.eqb_spec p local) as [->|_]; [contradiction|]. cbn [orb]. rewrite Hn. destruct n; reflexivity. }
  (* "_" is never the effective alias of a referenced path, nor is "" *)
  assert (Husable : forall a, aget (eff_of local alias all_blocks used) p = Some a -> a <> "" /\ a <> "_").
  { intros a Ha. apply effective_alias_usable in Ha. unfold usable in Ha. apply andb_true_iff in Ha. destruct Ha as [A B].
    apply negb_true_iff in A, B. split; intros ->; [rewrite String.eqb_refl in A; discriminate|].
    rewrite String.eqb_refl in B. cbn [andb] in B. apply mem_In in Hp. congruence. }
  unfold eff_alias in *.
  destruct (aget (eff_of local alias all_blocks used) p) as [ea|] eqn:Eeff.
  - destruct (Husable ea eq_refl) as [Hea1 Hea2].
    destruct (String.eqb_spec ea ".") as [->|Hdot]; cbn [orb] in HB.
    + destruct HB as [Hn Ha]. rewrite Ha in Hsn. left. split; [reflexivity|]. split; [exact Hsn|]. rewrite (Hrq _ Hn). reflexivity.
    + destruct (String.eqb_spec ea "_") as [->|_]; [contradiction|].
      destruct HB as [n [a [Hn [Ha HS]]]]. rewrite Ha in Hsn. right. split; [exact Hdot|].
      destruct HS as [[_ [He _]]|[Hean Hnn]]; [contradiction|]. subst a.
      exists n. split; [exact Hnn|]. split; [rewrite (Hrq _ Hn); destruct n; [contradiction|reflexivity]|].
      unfold bound_name. rewrite Hsn. destruct (String.eqb_spec n ""); [contradiction|reflexivity].
  - cbn in HB. destruct HB as [n [a [Hn [Ha HS]]]]. rewrite Ha in Hsn. right. split; [discriminate|].
    destruct HS as [[Ha0 [_ Hnres]]|[Hean Hnn]].
    + subst a.
      assert (Hnot : ahas (eff_of local alias all_blocks used) p = false) by (unfold ahas; rewrite Eeff; reflexivity).
      destruct (resolve_all_names _ _ _ _ _ ER) as [Hr _]; [intros ? ? K; discriminate K|].
      destruct (Hr p Hp Hnot) as [Hr1 Hr2].
      destruct (resolve p) as [rn|] eqn:Rp; [|contradiction].
      unfold res_name in Hnres. rewrite Hr1 in Hnres. subst n.
      pose proof (Hres p rn Rp) as Hrn.
      exists rn. split; [exact Hrn|]. split; [rewrite (Hrq _ Hn); destruct rn; [contradiction|reflexivity]|].
      unfold bound_name. rewrite Hsn. cbn. rewrite Hsp. exact Rp.
    + subst a. exists n. split; [exact Hnn|]. split; [rewrite (Hrq _ Hn); destruct n; [contradiction|reflexivity]|].
      unfold bound_name. rewrite Hsn. destruct (String.eqb_spec n ""); [contradiction|reflexivity].
Qed.
