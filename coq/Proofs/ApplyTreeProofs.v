(* C14: the traversal part of Apply -- theorems about Model/ApplyTree.v for every child table,
   every tree and every pair of callbacks. *)
From Coq Require Import List String ZArith NArith Bool Lia.
Import ListNotations.
From DV Require Import Model.Tree Model.Tables Model.ApplyTree Proofs.TreeInd.
Local Open Scope string_scope.
Local Open Scope list_scope.

(* ---- pre returns false: children and post are skipped ------------------------------------------- *)
Theorem pre_false_skips tbl cb t parent name index :
  cb_pre cb (KNode (tid t)) = false ->
  apply_tree tbl cb t parent name index = ([APre (KNode (tid t)) parent name index], false).
Proof. destruct t as [id k vals kids decs b a]. cbn [tid apply_tree]. intros ->. reflexivity. Qed.

(* ---- post returns false: the traversal stops there ------------------------------------------------ *)
(* a log in which every post call returned true and nothing got stuck *)
Definition quiet (cb : acb) (e : aev) : Prop :=
  match e with APost k => cb_post cb k = true | AStuck => False | APre _ _ _ _ => True end.

(* a result is good: not aborted and quiet, or aborted with a quiet log up to a last event that is
   the post call that returned false (or the model got stuck on an unknown table entry) *)
Definition good (cb : acb) (r : ares) : Prop :=
  (snd r = false /\ Forall (quiet cb) (fst r)) \/
  (snd r = true /\ (In AStuck (fst r) \/ exists evs k, fst r = evs ++ [APost k] /\ cb_post cb k = false /\ Forall (quiet cb) evs)).

Lemma good_stuck cb : good cb stuck.
Proof. right. split; [reflexivity|left; left; reflexivity]. Qed.

Lemma good_nil_frame cb parent name : good cb (nil_frame cb parent name).
Proof.
  unfold nil_frame. destruct (cb_pre cb (KNil parent name)); cbn [negb].
  - destruct (cb_post cb (KNil parent name)) eqn:E.
    + left. split; [reflexivity|]. repeat constructor. exact E.
    + right. split; [reflexivity|]. right. exists [APre (KNil parent name) parent name (-1)%Z], (KNil parent name).
      split; [reflexivity|]. split; [exact E|]. repeat constructor.
  - left. split; [reflexivity|]. repeat constructor.
Qed.

Lemma good_seq_until cb : forall steps, Forall (good cb) steps -> good cb (seq_until steps).
Proof.
  induction steps as [|[e ab] r IH]; intros H; cbn [seq_until].
  - left. split; [reflexivity|constructor].
  - inversion H as [|? ? H1 Hr]; subst. specialize (IH Hr).
    destruct ab.
    + destruct H1 as [[A _]|[_ B]]; [discriminate A|]. right. split; [reflexivity|exact B].
    + destruct H1 as [[_ Q]|[A _]]; [|discriminate A]. cbn [fst] in Q.
      destruct (seq_until r) as [e2 ab2]. destruct IH as [[A Q2]|[A B]]; cbn [fst snd] in *.
      * left. split; [exact A|]. apply Forall_app. split; assumption.
      * right. split; [exact A|]. destruct B as [B|[evs [k [E [F Q2]]]]].
        -- left. apply in_or_app. right. exact B.
        -- right. exists (e ++ evs), k. split; [rewrite E, app_assoc; reflexivity|]. split; [exact F|].
           apply Forall_app. split; assumption.
Qed.

Lemma good_frame cb key parent name index body : good cb body -> good cb (frame cb key parent name index body).
Proof.
  destruct body as [evs ab]. intros [[A Q]|[A B]]; cbn [fst snd] in *; subst ab; cbn [frame].
  - destruct (cb_post cb key) eqn:E.
    + left. split; [reflexivity|]. cbn [fst]. constructor; [exact I|]. apply Forall_app. split; [exact Q|repeat constructor; exact E].
    + right. split; [reflexivity|]. right. exists (APre key parent name index :: evs), key.
      split; [reflexivity|]. split; [exact E|]. constructor; [exact I|exact Q].
  - right. split; [reflexivity|]. destruct B as [B|[evs0 [k [E [F Q]]]]].
    + left. right. exact B.
    + right. exists (APre key parent name index :: evs0), k. cbn [fst]. split; [rewrite E; reflexivity|]. split; [exact F|].
      constructor; [exact I|exact Q].
Qed.

Lemma lookup_map_kids {A B} (f : A -> B) (l : list (string * A)) k :
  lookup (map (fun p => (fst p, f (snd p))) l) k = match lookup l k with Some v => Some (f v) | None => None end.
Proof.
  induction l as [|[k' v] r IH]; cbn [map lookup fst snd]; [reflexivity|].
  destruct (String.eqb k k'); [reflexivity|exact IH].
Qed.

Lemma lookup_In {A} (l : list (string * A)) k v : lookup l k = Some v -> In (k, v) l.
Proof.
  induction l as [|[k' v'] r IH]; cbn [lookup]; [discriminate|].
  destruct (String.eqb_spec k k') as [->|Hne]; [intros H; inversion H; left; reflexivity|intros H; right; apply IH; exact H].
Qed.

Lemma Forall_number {A} (P : A -> Prop) : forall (l : list (Z -> A)) i, Forall (fun f => forall j, P (f j)) l -> Forall P (number i l).
Proof. induction l as [|f r IH]; intros i H; cbn [number]; [constructor|]. inversion H; subst. constructor; [auto|apply IH; assumption]. Qed.

Theorem apply_tree_good tbl cb : forall t parent name index, good cb (apply_tree tbl cb t parent name index).
Proof.
  induction t as [id k vals kids decs b a IH] using tree_ind'. intros parent name index.
  cbn [apply_tree]. destruct (cb_pre cb (KNode id)); cbn [negb]; [|left; split; [reflexivity|repeat constructor]].
  apply good_frame. apply good_seq_until. apply Forall_forall. intros r Hr.
  apply in_flat_map in Hr. destruct Hr as [part [_ Hr]].
  set (conv := fun kk : kid tree => match kk with
                                   | One (Some c) => One (Some (apply_tree tbl cb c id))
                                   | One None => One None
                                   | Many l => Many (map (fun c => apply_tree tbl cb c id) l)
                                   end) in *.
  assert (Hget : forall f, lookup (map (fun p : string * kid tree => (fst p, conv (snd p))) kids) f =
                           match lookup kids f with Some v => Some (conv v) | None => None end)
    by (intros f; apply lookup_map_kids).
  assert (Hkid : forall f v, lookup kids f = Some v -> kid_all (fun c => forall p n i, good cb (apply_tree tbl cb c p n i)) v).
  { intros f v Hl. apply lookup_In in Hl. rewrite Forall_forall in IH. apply (IH (f, v) Hl). }
  destruct part as [lit field|lit field|lit| |src]; cbn [part_steps] in Hr.
  - rewrite Hget in Hr. destruct (lookup kids field) as [v|] eqn:El; [|destruct Hr as [<-|[]]; apply good_stuck].
    pose proof (Hkid _ _ El) as Hk. destruct v as [[c|]|l]; cbn [conv] in Hr.
    + destruct Hr as [<-|[]]. apply Hk.
    + destruct Hr as [<-|[]]. apply good_nil_frame.
    + destruct Hr as [<-|[]]. apply good_stuck.
  - rewrite Hget in Hr. destruct (lookup kids field) as [v|] eqn:El; [|destruct Hr as [<-|[]]; apply good_stuck].
    pose proof (Hkid _ _ El) as Hk. destruct v as [[c|]|l]; cbn [conv] in Hr.
    + destruct Hr as [<-|[]]. apply Hk.
    + destruct Hr.
    + destruct Hr as [<-|[]]. apply good_stuck.
  - rewrite Hget in Hr. destruct (lookup kids lit) as [v|] eqn:El; [|destruct Hr as [<-|[]]; apply good_stuck].
    pose proof (Hkid _ _ El) as Hk. destruct v as [[c|]|l]; cbn [conv] in Hr; try (destruct Hr as [<-|[]]; apply good_stuck).
    cbn [kid_all] in Hk.
    assert (HF : Forall (good cb) (number 0%Z (map (fun r0 : string -> Z -> ares => r0 lit) (map (fun c => apply_tree tbl cb c id) l)))).
    { apply Forall_number. rewrite map_map. apply Forall_forall. intros f Hf. apply in_map_iff in Hf. destruct Hf as [c [<- Hc]].
      intros j. rewrite Forall_forall in Hk. apply Hk. exact Hc. }
    rewrite Forall_forall in HF. apply HF. exact Hr.
  - rewrite Hget in Hr. destruct (lookup kids "Files") as [v|] eqn:El; [|destruct Hr as [<-|[]]; apply good_stuck].
    pose proof (Hkid _ _ El) as Hk. destruct v as [[c|]|l]; cbn [conv] in Hr; try (destruct Hr as [<-|[]]; apply good_stuck).
    cbn [kid_all] in Hk. rewrite map_map in Hr. apply in_map_iff in Hr. destruct Hr as [c [<- Hc]].
    rewrite Forall_forall in Hk. apply Hk. exact Hc.
  - destruct Hr as [<-|[]]. apply good_stuck.
Qed.

(* the statement of the property: when Apply stops early (and the table had a case for everything
   met), the last callback made is a post that returned false; every post before it returned true *)
Corollary post_false_stops tbl cb t evs :
  apply_root tbl cb t = (evs, true) -> ~ In AStuck evs ->
  exists pre k, evs = pre ++ [APost k] /\ cb_post cb k = false /\ Forall (quiet cb) pre.
Proof.
  intros H Hs. pose proof (apply_tree_good tbl cb t 0%N "Node" (-1)%Z) as G. unfold apply_root in H. rewrite H in G.
  destruct G as [[A _]|[_ [B|B]]]; [discriminate A|contradiction|exact B].
Qed.

(* and when it runs to the end no post returned false *)
Corollary complete_run_all_posts_true tbl cb t evs :
  apply_root tbl cb t = (evs, false) -> Forall (quiet cb) evs.
Proof.
  intros H. pose proof (apply_tree_good tbl cb t 0%N "Node" (-1)%Z) as G. unfold apply_root in H. rewrite H in G.
  destruct G as [[_ Q]|[A _]]; [exact Q|discriminate A].
Qed.

(* ---- Parent, Name and Index locate the current node inside its parent ------------------------------ *)
Inductive within : tree -> tree -> Prop :=
| w_here t : within t t
| w_child c p t : In p (children t) -> within c p -> within c t.

(* c is the child of pt that a cursor showing (name, index) points at *)
Definition child_at (pt : tree) (name : string) (index : Z) (c : tree) : Prop :=
  (index = (-1)%Z /\ lookup (tkids pt) name = Some (One (Some c))) \/
  (exists l, lookup (tkids pt) name = Some (Many l) /\ (0 <= index)%Z /\ nth_error l (Z.to_nat index) = Some c) \/
  (index = (-1)%Z /\ name = "Files" /\ exists l, lookup (tkids pt) name = Some (Many l) /\ In c l).

Definition located (t : tree) (parent : N) (name : string) (index : Z) (e : aev) : Prop :=
  match e with
  | APre (KNode c) p nm i =>
    (c = tid t /\ p = parent /\ nm = name /\ i = index) \/
    exists pt ct, within pt t /\ tid pt = p /\ tid ct = c /\ child_at pt nm i ct
  | APre (KNil p' f) p nm i =>
    p' = p /\ f = nm /\ i = (-1)%Z /\ exists pt, within pt t /\ tid pt = p /\ lookup (tkids pt) nm = Some (One None)
  | _ => True
  end.

(* the literal field name handed to the cursor is the field the child is read from *)
Definition apart_named (a : apart) : bool :=
  match a with AOne lit field | AOneG lit field => String.eqb lit field | AUnknown _ => false | _ => true end.
Definition tbl_named (tbl : list (string * list apart)) : bool := forallb (fun e => forallb apart_named (snd e)) tbl.

Lemma tbl_parts_named tbl k : tbl_named tbl = true -> forall a, In a (tbl_parts tbl (AUnknown "no case") k) -> apart_named a = true \/ a = AUnknown "no case".
Proof.
  intros H a Ha. unfold tbl_parts in Ha. destruct (lookup tbl k) as [ps|] eqn:E.
  - left. apply lookup_In in E. unfold tbl_named in H. rewrite forallb_forall in H. specialize (H _ E). cbn [snd] in H.
    rewrite forallb_forall in H. apply H. exact Ha.
  - destruct Ha as [<-|[]]. right. reflexivity.
Qed.

Lemma In_seq_until e : forall steps, In e (fst (seq_until steps)) -> exists s, In s steps /\ In e (fst s).
Proof.
  induction steps as [|[ev ab] r IH]; cbn [seq_until]; [intros []|].
  destruct ab; cbn [fst].
  - intros H. exists (ev, true). split; [left; reflexivity|exact H].
  - destruct (seq_until r) as [e2 ab2]. cbn [fst] in *. intros H. apply in_app_or in H. destruct H as [H|H].
    + exists (ev, false). split; [left; reflexivity|exact H].
    + destruct (IH H) as [s [A B]]. exists s. split; [right; exact A|exact B].
Qed.

Lemma In_number {A} (r : A) : forall (l : list (Z -> A)) i, In r (number i l) -> exists j f, nth_error l j = Some f /\ r = f (i + Z.of_nat j)%Z.
Proof.
  induction l as [|f l IH]; intros i H; cbn [number] in H; [destruct H|].
  destruct H as [<-|H].
  - exists 0%nat, f. split; [reflexivity|]. f_equal. lia.
  - destruct (IH _ H) as [j [g [Hg Hb]]]. exists (S j), g. split; [exact Hg|]. rewrite Hb. f_equal. lia.
Qed.

Lemma In_frame e cb key parent name index body :
  In e (fst (frame cb key parent name index body)) -> e = APre key parent name index \/ e = APost key \/ In e (fst body).
Proof.
  destruct body as [evs ab]. cbn [frame fst]. destruct ab; [|destruct (cb_post cb key)]; cbn [fst]; intros [H|H]; auto.
  - apply in_app_or in H. destruct H as [H|[H|[]]]; auto.
  - apply in_app_or in H. destruct H as [H|[H|[]]]; auto.
Qed.

Lemma located_lift t c e lit idx :
  In c (children t) -> child_at t lit idx c ->
  located c (tid t) lit idx e -> forall parent name index, located t parent name index e.
Proof.
  intros Hc Hat Hl parent name index. destruct e as [[cid|p' f] p nm i| |]; cbn [located] in *; try exact I.
  - right. destruct Hl as [[-> [-> [-> ->]]]|[pt [ct [W R]]]].
    + exists t, c. split; [apply w_here|]. split; [reflexivity|]. split; [reflexivity|exact Hat].
    + exists pt, ct. split; [eapply w_child; eassumption|exact R].
  - destruct Hl as [A [B [C [pt [W R]]]]]. split; [exact A|]. split; [exact B|]. split; [exact C|].
    exists pt. split; [eapply w_child; eassumption|exact R].
Qed.

Lemma kid_in_children t f v c : lookup (tkids t) f = Some v -> In c (kid_list v) -> In c (children t).
Proof.
  intros Hl Hc. unfold children. apply in_flat_map. exists (f, v). split; [apply lookup_In; exact Hl|exact Hc].
Qed.

Theorem cursor_locates_node tbl cb : tbl_named tbl = true ->
  forall t parent name index, Forall (located t parent name index) (fst (apply_tree tbl cb t parent name index)).
Proof.
  intros Hnamed. induction t as [id k vals kids decs b a IH] using tree_ind'. intros parent name index.
  cbn [apply_tree]. set (t := Node id k vals kids decs b a). destruct (cb_pre cb (KNode id)); cbn [negb].
  2:{ cbn [fst]. constructor; [left; repeat split; reflexivity|constructor]. }
  apply Forall_forall. intros e He. apply In_frame in He.
  destruct He as [->|[->|He]]; [left; repeat split; reflexivity|exact I|].
  apply In_seq_until in He. destruct He as [s [Hs He]].
  apply in_flat_map in Hs. destruct Hs as [part [Hpart Hs]].
  set (conv := fun kk : kid tree => match kk with
                                   | One (Some c) => One (Some (apply_tree tbl cb c id))
                                   | One None => One None
                                   | Many l => Many (map (fun c => apply_tree tbl cb c id) l)
                                   end) in *.
  assert (Hget : forall f, lookup (map (fun p : string * kid tree => (fst p, conv (snd p))) kids) f =
                           match lookup kids f with Some v => Some (conv v) | None => None end)
    by (intros f; apply lookup_map_kids).
  assert (Hkid : forall f v, lookup kids f = Some v -> kid_all (fun c => forall p n i, Forall (located c p n i) (fst (apply_tree tbl cb c p n i))) v).
  { intros f v Hl. apply lookup_In in Hl. rewrite Forall_forall in IH. apply (IH (f, v) Hl). }
  assert (Hst : In e (fst stuck) -> located t parent name index e) by (intros [<-|[]]; exact I).
  assert (Hnilf : forall lit, lookup kids lit = Some (One None) -> In e (fst (nil_frame cb id lit)) -> located t parent name index e).
  { intros lit Hl Hin. unfold nil_frame in Hin.
    assert (Hpre : located t parent name index (APre (KNil id lit) id lit (-1)%Z)).
    { cbn [located]. repeat split. exists t. split; [apply w_here|]. split; [reflexivity|exact Hl]. }
    destruct (cb_pre cb (KNil id lit)); cbn [negb] in Hin; [destruct (cb_post cb (KNil id lit))|]; cbn [fst] in Hin;
      repeat (destruct Hin as [<-|Hin]; [first [exact Hpre|exact I]|]); destruct Hin. }
  destruct (tbl_parts_named tbl k Hnamed part Hpart) as [Hn | ->]; [|destruct Hs as [<-|[]]; apply Hst; exact He].
  destruct part as [lit field|lit field|lit| |src]; cbn [part_steps apart_named] in Hs, Hn; try discriminate Hn.
  - apply String.eqb_eq in Hn. subst field. rewrite Hget in Hs.
    destruct (lookup kids lit) as [v|] eqn:El; [|destruct Hs as [<-|[]]; apply Hst; exact He].
    pose proof (Hkid _ _ El) as Hk. destruct v as [[c|]|l]; cbn [conv] in Hs; destruct Hs as [<-|[]].
    + cbn [kid_all] in Hk. specialize (Hk id lit (-1)%Z). rewrite Forall_forall in Hk.
      apply (located_lift t c e lit (-1)%Z); [eapply kid_in_children; [exact El|left; reflexivity]|left; split; [reflexivity|exact El]|apply Hk; exact He].
    + apply (Hnilf lit El He).
    + apply Hst. exact He.
  - apply String.eqb_eq in Hn. subst field. rewrite Hget in Hs.
    destruct (lookup kids lit) as [v|] eqn:El; [|destruct Hs as [<-|[]]; apply Hst; exact He].
    pose proof (Hkid _ _ El) as Hk. destruct v as [[c|]|l]; cbn [conv] in Hs; [destruct Hs as [<-|[]]|destruct Hs|destruct Hs as [<-|[]]; apply Hst; exact He].
    cbn [kid_all] in Hk. specialize (Hk id lit (-1)%Z). rewrite Forall_forall in Hk.
    apply (located_lift t c e lit (-1)%Z); [eapply kid_in_children; [exact El|left; reflexivity]|left; split; [reflexivity|exact El]|apply Hk; exact He].
  - rewrite Hget in Hs. destruct (lookup kids lit) as [v|] eqn:El; [|destruct Hs as [<-|[]]; apply Hst; exact He].
    pose proof (Hkid _ _ El) as Hk. destruct v as [[c|]|l]; cbn [conv] in Hs; try (destruct Hs as [<-|[]]; apply Hst; exact He).
    cbn [kid_all] in Hk. apply In_number in Hs. destruct Hs as [j [f [Hj ->]]].
    rewrite map_map in Hj. rewrite nth_error_map in Hj. destruct (nth_error l j) as [c|] eqn:Ec; [|discriminate]. inversion Hj; subst f.
    assert (Hc : In c l) by (eapply nth_error_In; exact Ec).
    rewrite Forall_forall in Hk. specialize (Hk c Hc id lit (0 + Z.of_nat j)%Z). rewrite Forall_forall in Hk.
    apply (located_lift t c e lit (0 + Z.of_nat j)%Z); [eapply kid_in_children; [exact El|exact Hc]| |apply Hk; exact He].
    right. left. exists l. split; [exact El|]. split; [lia|]. replace (Z.to_nat (0 + Z.of_nat j)) with j by lia. exact Ec.
  - rewrite Hget in Hs. destruct (lookup kids "Files") as [v|] eqn:El; [|destruct Hs as [<-|[]]; apply Hst; exact He].
    pose proof (Hkid _ _ El) as Hk. destruct v as [[c|]|l]; cbn [conv] in Hs; try (destruct Hs as [<-|[]]; apply Hst; exact He).
    cbn [kid_all] in Hk. rewrite map_map in Hs. apply in_map_iff in Hs. destruct Hs as [c [<- Hc]].
    rewrite Forall_forall in Hk. specialize (Hk c Hc id "Files" (-1)%Z). rewrite Forall_forall in Hk.
    apply (located_lift t c e "Files" (-1)%Z); [eapply kid_in_children; [exact El|exact Hc]| |apply Hk; exact He].
    right. right. split; [reflexivity|]. split; [reflexivity|]. exists l. split; [exact El|exact Hc].
Qed.

(* Apply(root, ...): every pre callback sees a cursor whose Parent, Name and Index locate the node
   it is called for -- the root under the synthetic parent in field "Node", every other node as
   the child of its parent in the named field (at that index when the field is a list) *)
Corollary apply_cursor_locates_node tbl cb t : tbl_named tbl = true ->
  Forall (located t 0%N "Node" (-1)%Z) (fst (apply_root tbl cb t)).
Proof. intros H. apply cursor_locates_node. exact H. Qed.
