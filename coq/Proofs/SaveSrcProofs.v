(* C20: the translated source of Package.save (Gen/SaveSrc.v: a loop program) computes the hand
   model Model/Save.v -- for every list of files, every print outcome and every write-failure
   pattern. *)
From Coq Require Import List String ZArith NArith Bool Arith Lia.
Import ListNotations.
From DV Require Import Model.Save Model.Decision Gen.SaveSrc.
Local Open Scope string_scope.
Local Open Scope list_scope.

Section SaveSrc.
  Variables (file bytes name err : Type).
  Variable print : file -> bytes + err.
  Variable filename : file -> name.
  Variable write : nat -> name -> bytes -> option err.
  Variable nobytes : bytes.

  Definition FPRINT := "NewRestorerWithImports(p.PkgPath,resolver).Fprint(&bytes.Buffer{},file)".
  Definition WRITE := "writeFile(p.Decorator.Filenames[file],&bytes.Buffer{}.Bytes(),0666)".

  Definition printed (f : file) : bytes := match print f with inl b => b | inr _ => nobytes end.

  (* what the two calls of the source mean on the model's oracles; every completed iteration makes
     two calls, so the k-th write is call number 2k+1 *)
  Definition save_fails (call : string) (x : option file) (n : nat) : bool :=
    match x with
    | Some f =>
      if String.eqb call FPRINT then match print f with inr _ => true | inl _ => false end
      else if String.eqb call WRITE then match write (Nat.div2 n) (filename f) (printed f) with Some _ => true | None => false end
      else true
    | None => true
    end.

  (* the files written by a run: the successful WRITE calls *)
  Definition writes_of (acc : list (string * option file)) : list (name * bytes) :=
    flat_map (fun e => match e with
                       | (c, Some f) => if String.eqb c WRITE then [(filename f, printed f)] else []
                       | _ => []
                       end) acc.

  Lemma writes_of_app a b : writes_of (a ++ b) = writes_of a ++ writes_of b.
  Proof. unfold writes_of. apply flat_map_app. Qed.

  Definition body := [LBind "buf := &bytes.Buffer{}"; LCall FPRINT; LCall WRITE].

  Lemma loop_is_model : forall files k acc,
    let '(acc', _, e) := lrun_for file save_fails body files (2 * k) acc in
    let '(log, res) := save print filename write k files (writes_of acc) in
    writes_of acc' = log /\ (e = LFell <-> res = None) /\ (e <> LDone) /\ (e <> LStuck).
  Proof.
    induction files as [|f r IH]; intros k acc.
    - cbn. split; [reflexivity|]. split; [tauto|]. split; discriminate.
    - cbn [lrun_for lrun_body body save]. unfold save_fails at 1. cbn [String.eqb Ascii.eqb Bool.eqb FPRINT WRITE].
      destruct (print f) as [b|e] eqn:Ep.
      + (* printed: the write *)
        unfold save_fails at 1. rewrite Ep.
        replace (String.eqb WRITE FPRINT) with false by reflexivity. rewrite String.eqb_refl.
        replace (Nat.div2 (S (2 * k))) with k by (rewrite Nat.div2_succ_double; reflexivity).
        unfold printed at 1. rewrite Ep.
        destruct (write k (filename f) b) as [e|] eqn:Ew.
        * cbn. rewrite writes_of_app. cbn. rewrite app_nil_r. split; [reflexivity|]. split; [split; discriminate|]. split; discriminate.
        * specialize (IH (S k) ((acc ++ [(FPRINT, Some f)]) ++ [(WRITE, Some f)])).
          replace (S (S (2 * k))) with (2 * S k) by lia.
          rewrite !writes_of_app in IH. cbn [writes_of flat_map] in IH. cbn in IH. rewrite app_nil_r in IH.
          unfold printed in IH. rewrite Ep in IH. exact IH.
      + cbn. split; [reflexivity|]. split; [split; discriminate|]. split; discriminate.
  Qed.
End SaveSrc.

(* the whole function: a binding, the loop, return nil *)
Theorem save_source_is_model (file bytes name err : Type) (print : file -> bytes + err) (filename : file -> name)
        (write : nat -> name -> bytes -> option err) (nobytes : bytes) (files : list file) :
  let '(acc, _, e) := lrun file (save_fails file bytes name err print filename write nobytes) save_src files 0 [] in
  let '(log, res) := save print filename write 0 files [] in
  writes_of file bytes name err print filename nobytes acc = log /\ (e = LDone <-> res = None) /\ e <> LStuck /\ e <> LFell.
Proof.
  pose proof (loop_is_model file bytes name err print filename write nobytes files 0 []) as H.
  change save_src with [LBind "r := NewRestorerWithImports(p.PkgPath, resolver)"; LFor "p.Syntax" (body); LRetNil].
  cbn [lrun]. change (2 * 0) with 0 in H.
  destruct (lrun_for file (save_fails file bytes name err print filename write nobytes) body files 0 []) as [[acc n] e].
  cbn [writes_of flat_map] in H.
  destruct (save print filename write 0 files []) as [log res].
  destruct H as [A [B [C D]]].
  destruct e; cbn [lrun].
  - contradiction.
  - split; [exact A|]. split; [split; [discriminate|]|split; discriminate].
    intros Hr. apply B in Hr. discriminate.
  - contradiction.
  - split; [exact A|]. split; [|split; discriminate]. split; [intros _; apply B; reflexivity|reflexivity].
Qed.
