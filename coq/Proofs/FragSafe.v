(* No nil dereference in addNodeFragments: if every node of a tree offers what its kind's case of
   the fragment table needs without checking -- the children it descends into without a nil check,
   values of the right shape for tokens, strings and conditions -- the interpreter's error flag stays
   clear.  The envelope is a boolean evaluated on every tree go/parser produced in the run,
   including the partial trees of broken sources. *)
From Coq Require Import List String ZArith NArith Bool Lia.
Import ListNotations.
From DV Require Import Model.Tree Model.Tables Model.FragSkel Model.Link Model.Fragment Proofs.TreeInd Proofs.FragReach.
Local Open Scope string_scope.
Local Open Scope list_scope.

Section Safe.
Variable tbl : list (string * list gstmt).

(* what one statement needs from the node (children are looked at separately) *)
Fixpoint stmt_needs (t : tree) (fk : list (string * kid ftree)) (s : gstmt) : bool :=
  match s with
  | GDec owner _ => match owner with [] => true | _ => false end
  | GTok x _ => match ftok_len t fk x with Some _ => true | None => false end
  | GStr v _ => match fval t fk v with Some (VStr _ _ _) => true | _ => false end
  | GBad from => match fval t fk from, fval t fk ["To"] with Some (VPos _), Some (VPos _) => true | _, _ => false end
  | GNode p checked =>
    match fsub fk p with
    | Some (One (Some _)) => true
    | Some (Many _) => false
    | _ => checked
    end
  | GList p => match fsub fk p with Some (One (Some _)) => false | _ => true end
  | GIf c body =>
    match feval_cond t fk c with
    | Some true => (fix go (l : list gstmt) : bool := match l with [] => true | x :: r => stmt_needs t fk x && go r end) body
    | Some false => true
    | None => false
    end
  | GUnknown _ => false
  end.

Definition node_needs (t : tree) : bool :=
  match lookup tbl (tkind t) with
  | Some stmts => forallb (stmt_needs t (ft_kids (fbuild tbl t))) stmts
  | None => false
  end.

(* every node of the tree *)
Fixpoint all_nodes (t : tree) : list tree :=
  match t with
  | Node id k vals kids decs b a =>
    t :: flat_map (fun p => match snd p with
                            | One (Some c) => all_nodes c
                            | One None => []
                            | Many l => flat_map all_nodes l
                            end) kids
  end.

Definition frag_envelope (t : tree) : bool := forallb node_needs (all_nodes t).

Lemma lookup_In_kids {A} (l : list (string * A)) k v : lookup l k = Some v -> In (k, v) l.
Proof.
  induction l as [|[k' v'] r IH]; cbn; [discriminate|]. destruct (String.eqb_spec k k') as [->|Hne].
  - intros H. inversion H. left. reflexivity.
  - intros H. right. apply IH. exact H.
Qed.

Lemma all_nodes_self t : In t (all_nodes t).
Proof. destruct t. left. reflexivity. Qed.

Lemma all_nodes_desc t c : desc t c -> forall x, In x (all_nodes c) -> In x (all_nodes t).
Proof.
  induction 1 as [t|t f c t' Hl Hd IH|t f l c t' Hl Hin Hd IH]; intros x Hx; [exact Hx| |].
  - specialize (IH x Hx). destruct t as [id k vals kids decs b a]. cbn [tkids] in Hl. right. apply in_flat_map.
    exists (f, One (Some c)). split; [apply lookup_In_kids; exact Hl|exact IH].
  - specialize (IH x Hx). destruct t as [id k vals kids decs b a]. cbn [tkids] in Hl. right. apply in_flat_map.
    exists (f, Many l). split; [apply lookup_In_kids; exact Hl|]. cbn [snd]. apply in_flat_map. exists c. split; assumption.
Qed.

Lemma ferr_femit r pos f cur : f_err (femit r pos f cur) = f_err r.
Proof. reflexivity. Qed.

Lemma fold_fthen_err l : forall r,
  f_err r = false -> (forall c cur, In c l -> f_err (ft_fn c cur) = false) ->
  f_err (fold_left (fun r c => fthen r (ft_fn c)) l r) = false.
Proof.
  induction l as [|c l IH]; intros r Hr Hc; cbn [fold_left]; [exact Hr|].
  apply IH; [cbn; rewrite Hr, (Hc c (f_cur r) (or_introl eq_refl)); reflexivity|intros c' cur Hin; apply Hc; right; exact Hin].
Qed.

Lemma fstmt_safe t :
  (forall c0, desc t c0 -> c0 <> t -> forall cur, f_err (ft_fn (fbuild tbl c0) cur) = false) ->
  forall s r, stmt_needs t (ft_kids (fbuild tbl t)) s = true -> f_err r = false ->
  f_err (fstmt t (ft_kids (fbuild tbl t)) r s) = false.
Proof.
  intros Hsub. set (fk := ft_kids (fbuild tbl t)).
  assert (Hchild : forall b p c0, child_at b t p c0 -> forall cur, f_err (ft_fn (fbuild tbl c0) cur) = false).
  { intros b p c0 Hc cur. apply Hsub; [eapply child_at_desc; exact Hc|]. intros ->. pose proof (child_at_size _ _ _ _ Hc). lia. }
  fix IH 1. intros s r Hn Hr. destruct s as [owner name|tok p|v p|from|p chk|p|cnd body|u]; cbn [fstmt stmt_needs] in *.
  - destruct owner; [exact Hr|discriminate].
  - destruct (ftok_len t fk tok); [exact Hr|discriminate].
  - destruct (fval t fk v) as [[]|]; try discriminate. exact Hr.
  - destruct (fval t fk from) as [[]|]; try discriminate. destruct (fval t fk ["To"]) as [[]|]; try discriminate. exact Hr.
  - destruct (fsub fk p) as [[[c|]|l]|] eqn:E; try discriminate.
    + destruct (fsub_child tbl p t c E) as [c0 [A ->]]. cbn. rewrite Hr, (Hchild _ _ _ A). reflexivity.
    + rewrite Hn. exact Hr.
    + rewrite Hn. exact Hr.
  - destruct (fsub fk p) as [[[c|]|l]|] eqn:E; try discriminate; try exact Hr.
    apply fold_fthen_err; [exact Hr|]. intros c cur Hin. destruct (fsub_children tbl p t l E c Hin) as [c0 [A ->]]. apply (Hchild _ _ _ A).
  - destruct (feval_cond t fk cnd) as [[|]|]; try discriminate; [|exact Hr].
    revert r Hr. induction body as [|y l IHl]; intros r Hr; [exact Hr|].
    apply andb_true_iff in Hn. destruct Hn as [Hy Hl]. apply (IHl Hl). apply IH; assumption.
  - discriminate.
Qed.

Lemma fnode_safe t :
  node_needs t = true ->
  (forall c0, desc t c0 -> c0 <> t -> forall cur, f_err (ft_fn (fbuild tbl c0) cur) = false) ->
  forall cur, f_err (ft_fn (fbuild tbl t) cur) = false.
Proof.
  intros Hn Hsub cur. unfold node_needs in Hn. rewrite fbuild_unfold. cbn [ft_fn]. unfold fnode.
  destruct (lookup tbl (tkind t)) as [stmts|]; [|discriminate].
  rewrite <- ft_kids_fbuild. rewrite forallb_forall in Hn.
  assert (Hfold : forall l r, (forall s, In s l -> In s stmts) -> f_err r = false ->
                    f_err (fold_left (fstmt t (ft_kids (fbuild tbl t))) l r) = false).
  { induction l as [|y l IHl]; intros r Hin Hr; cbn [fold_left]; [exact Hr|].
    apply IHl; [intros s Hs; apply Hin; right; exact Hs|]. apply (fstmt_safe t Hsub); [apply Hn; apply Hin; left; reflexivity|exact Hr]. }
  apply Hfold; [auto|reflexivity].
Qed.

(* For every tree inside the envelope, addNodeFragments dereferences no nil child. *)
Theorem fragment_no_nil_dereference : forall t, frag_envelope t = true -> f_err (node_frags tbl t) = false.
Proof.
  assert (H : forall n t, (size t <= n)%nat -> (forall x, In x (all_nodes t) -> node_needs x = true) ->
                forall cur, f_err (ft_fn (fbuild tbl t) cur) = false).
  { induction n as [|n IH]; intros t Hs Hall cur.
    - destruct t; cbn in Hs; lia.
    - apply fnode_safe; [apply Hall; apply all_nodes_self|].
      intros c0 Hd Hne cur0. apply IH.
      + destruct (desc_size _ _ Hd) as [->|Hlt]; [contradiction|lia].
      + intros x Hx. apply Hall. apply (all_nodes_desc t c0 Hd x Hx). }
  intros t He. unfold node_frags. apply (H (size t) t (le_n _)).
  unfold frag_envelope in He. rewrite forallb_forall in He. exact He.
Qed.

End Safe.
