(* C07 / C16: the translated source of packagePathOrderLess (Gen/DecisionSrc.v, regenerated from
   decorator/restorer.go on every run) computes Model/Imports.path_less -- the order in which the
   import manager names and lists packages -- for every pair of paths. *)
From Coq Require Import List String Bool.
Import ListNotations.
From DV Require Import Model.Imports Model.Decision Gen.DecisionSrc.
Local Open Scope string_scope.
Local Open Scope list_scope.

Definition P_SAME_DOT := "eq(strings.Contains(pi,"".""),strings.Contains(pj,"".""))".
Definition S_JDOT := "strings.Contains(pj,""."")".
Definition S_LESS := "pi<pj".

(* what the predicate and the returned expressions mean for two paths *)
Definition order_val (a b : string) (p : string) : bool :=
  if String.eqb p P_SAME_DOT then Bool.eqb (has_dot a) (has_dot b) else false.
Definition order_sym (a b : string) (s : string) : option bool :=
  if String.eqb s S_JDOT then Some (has_dot b)
  else if String.eqb s S_LESS then Some (String.ltb a b)
  else None.

Definition order_vocabulary_ok : bool := vocabulary_ok [P_SAME_DOT] [S_JDOT; S_LESS] packagepathorderless_src.

Theorem path_order_source_is_model :
  forall a b,
    match run (order_val a b) packagepathorderless_src with
    | OReturn (DVal s) => order_sym a b s = Some (path_less a b)
    | _ => False
    end.
Proof.
  intros a b. unfold path_less.
  assert (Hv : order_val a b P_SAME_DOT = Bool.eqb (has_dot a) (has_dot b)) by reflexivity.
  unfold packagepathorderless_src. cbn [run run_stmt].
  change (order_val a b "eq(strings.Contains(pi,"".""),strings.Contains(pj,"".""))") with (order_val a b P_SAME_DOT).
  rewrite Hv. destruct (Bool.eqb (has_dot a) (has_dot b)); cbn [xorb]; reflexivity.
Qed.
