package main

import (
	"fmt"
	"os"

	"github.com/dave/dst/decorator"
)

func main() {
	b, _ := os.ReadFile(os.Args[1])
	f, err := decorator.Parse(string(b))
	if err != nil {
		fmt.Println(err)
		return
	}
	decorator.Print(f)
}
