package main

import (
	"encoding/json"
	"fmt"
	"go/ast"
	"go/parser"
	"go/scanner"
	"go/token"
	"sort"
	"strings"

	"github.com/dave/dst"
	"github.com/dave/dst/decorator"
)

// C18 on the implementation.
//   graph:      the parser's object/scope graph of a file vs the decorated graph (through
//               Decorator.Map), and the dst graph vs the graph restored with Extras (through
//               Restorer.Map): identifiers share objects alike, kind/name/data kept, Decl points to
//               the counterpart node (also for nodes outside the tree), scope nesting and
//               membership preserved.  The same graphs are dumped for the Coq model
//               (Model/ObjGraph.v: iso_check on the real copy, and the model's own copy).
//   newpackage: ast.NewPackage on the parsed files vs dst.NewPackage on the decorated files with
//               corresponding universe scopes and importers (incl. failing ones): same package
//               scope, same redeclaration / undeclared-name reports (positions aside), same
//               Unresolved lists.

type c18Input struct {
	Mode     string   `json:"mode"` // graph | newpackage
	Srcs     []string `json:"srcs"`
	Universe bool     `json:"universe"`
	Remove   int      `json:"remove,omitempty"` // graph-removed: index of the declaration taken out of the file
	Importer string   `json:"importer"`         // nil | ok | fail | failsome | failpaths
	Fail     []string `json:"fail,omitempty"`   // failpaths: the import paths the importer cannot load
}

// ---------------------------------------------------------------------------------------------
func c18Graph(src string) (key, what string, coqCase string) { return c18GraphRemoving(src, -1) }

// c18GraphRemoving: as c18Graph; with remove >= 0 the remove-th declaration is taken out of File.Decls
// after decorating (objects keep pointing at it: a declaring node outside the tree, restored by the
// deferred Decl / Data pass of Extras together with the objects first met inside it)
func c18GraphRemoving(src string, remove int) (key, what string, coqCase string) {
	fset := token.NewFileSet()
	af, err := parser.ParseFile(fset, "a.go", src, parser.ParseComments)
	if err != nil {
		return "", "", ""
	}
	dec := decorator.NewDecorator(fset)
	df, err := dec.DecorateFile(af)
	if err != nil {
		return "", "", ""
	}
	// identifiers pairwise: sharing
	type pr struct {
		a *ast.Ident
		d *dst.Ident
	}
	var ids []pr
	ast.Inspect(af, func(n ast.Node) bool {
		if id, ok := n.(*ast.Ident); ok {
			if d, ok := dec.Dst.Nodes[id].(*dst.Ident); ok {
				ids = append(ids, pr{id, d})
			}
		}
		return true
	})
	byAst := map[*ast.Object]*dst.Object{}
	byDst := map[*dst.Object]*ast.Object{}
	for _, p := range ids {
		if (p.a.Obj == nil) != (p.d.Obj == nil) {
			return "c18-object", fmt.Sprintf("identifier %s: object present on one side only", p.a.Name), ""
		}
		if p.a.Obj == nil {
			continue
		}
		if prev, ok := byAst[p.a.Obj]; ok && prev != p.d.Obj {
			return "c18-sharing", fmt.Sprintf("two identifiers %s share an object in the ast but not in the dst", p.a.Name), ""
		}
		if prev, ok := byDst[p.d.Obj]; ok && prev != p.a.Obj {
			return "c18-sharing", fmt.Sprintf("two identifiers %s share an object in the dst but not in the ast", p.a.Name), ""
		}
		byAst[p.a.Obj] = p.d.Obj
		byDst[p.d.Obj] = p.a.Obj
	}
	if k, w := c18CheckObjects(dec.Dst.Objects, dec.Dst.Scopes, func(n ast.Node) (dst.Node, bool) { d, ok := dec.Dst.Nodes[n]; return d, ok }, "decorate"); k != "" {
		return k, w, ""
	}
	if (af.Scope == nil) != (df.Scope == nil) || (af.Scope != nil && dec.Dst.Scopes[af.Scope] != df.Scope) {
		return "c18-scope", "the file scope is not the counterpart of the ast file scope", ""
	}
	coqCase = c18DumpCase(dec, af)
	if remove >= 0 {
		coqCase = ""
		if remove >= len(df.Decls) {
			return "", "", ""
		}
		if gd, ok := df.Decls[remove].(*dst.GenDecl); ok && gd.Tok == token.IMPORT {
			return "", "", ""
		}
		df.Decls = append(append([]dst.Decl{}, df.Decls[:remove]...), df.Decls[remove+1:]...)
	}
	// restore with extras
	r := decorator.NewRestorer()
	r.Extras = true
	var raf *ast.File
	if pm := safely(func() { raf, err = r.RestoreFile(df) }); pm != "" || err != nil {
		return "c18-panic", fmt.Sprintf("restoring with Extras failed: %v %s", err, pm), coqCase
	}
	// dst -> restored ast: objects
	for do, ao := range r.Ast.Objects {
		if do.Name != ao.Name || int(do.Kind) != int(ao.Kind) {
			return "c18-restore-object", "restored object differs in kind or name: " + do.Name, coqCase
		}
		switch dd := do.Decl.(type) {
		case dst.Node:
			an, ok := ao.Decl.(ast.Node)
			if !ok || an == nil {
				return "c18-restore-decl", fmt.Sprintf("object %s: Decl is a %T in the dst but %T in the restored ast", do.Name, do.Decl, ao.Decl), coqCase
			}
			if r.Ast.Nodes[dd] != an {
				return "c18-restore-decl", fmt.Sprintf("object %s: restored Decl is not the counterpart of the dst Decl (%T)", do.Name, dd), coqCase
			}
		case *dst.Scope:
			if as, ok := ao.Decl.(*ast.Scope); !ok || r.Ast.Scopes[dd] != as {
				return "c18-restore-decl", "object " + do.Name + ": restored Decl scope is not the counterpart", coqCase
			}
		case nil:
			if ao.Decl != nil {
				return "c18-restore-decl", "object " + do.Name + ": Decl appears on the restored side only", coqCase
			}
		}
		switch dd := do.Data.(type) {
		case int:
			if ao.Data != dd {
				return "c18-restore-data", "object " + do.Name + ": Data (iota) differs", coqCase
			}
		case *dst.Scope:
			if as, ok := ao.Data.(*ast.Scope); !ok || r.Ast.Scopes[dd] != as {
				return "c18-restore-data", "object " + do.Name + ": restored Data scope is not the counterpart", coqCase
			}
		}
	}
	for ds, as := range r.Ast.Scopes {
		if (ds.Outer == nil) != (as.Outer == nil) || (ds.Outer != nil && r.Ast.Scopes[ds.Outer] != as.Outer) {
			return "c18-restore-scope", "restored scope nesting differs", coqCase
		}
		if len(ds.Objects) != len(as.Objects) {
			return "c18-restore-scope", "restored scope membership differs", coqCase
		}
		for name, do := range ds.Objects {
			if r.Ast.Objects[do] != as.Objects[name] {
				return "c18-restore-scope", "restored scope member " + name + " is not the counterpart", coqCase
			}
		}
	}
	// identifiers of the restored ast share objects like the dst identifiers
	var bad string
	ast.Inspect(raf, func(n ast.Node) bool {
		if id, ok := n.(*ast.Ident); ok && bad == "" {
			if d, ok := r.Dst.Nodes[id].(*dst.Ident); ok && d.Path == "" {
				if (d.Obj == nil) != (id.Obj == nil) || (d.Obj != nil && r.Ast.Objects[d.Obj] != id.Obj) {
					bad = id.Name
				}
			}
		}
		return true
	})
	if bad != "" {
		return "c18-restore-object", "restored identifier " + bad + " does not carry the counterpart object", coqCase
	}
	return "", "", coqCase
}

func c18CheckObjects(objs map[*ast.Object]*dst.Object, scopes map[*ast.Scope]*dst.Scope, node func(ast.Node) (dst.Node, bool), side string) (string, string) {
	for ao, do := range objs {
		if ao.Name != do.Name || int(ao.Kind) != int(do.Kind) {
			return "c18-object", side + ": object " + ao.Name + " changed kind or name"
		}
		switch ad := ao.Decl.(type) {
		case *ast.Scope:
			if ds, ok := do.Decl.(*dst.Scope); !ok || scopes[ad] != ds {
				return "c18-decl", side + ": object " + ao.Name + ": Decl scope is not the counterpart"
			}
		case ast.Node:
			dn, ok := node(ad)
			if !ok || do.Decl != interface{}(dn) {
				return "c18-decl", fmt.Sprintf("%s: object %s: Decl (%T) does not point to the dst counterpart of the declaring node", side, ao.Name, ad)
			}
		case nil:
			if do.Decl != nil {
				return "c18-decl", side + ": object " + ao.Name + ": Decl appears on the dst side only"
			}
		}
		switch ad := ao.Data.(type) {
		case int:
			if do.Data != ad {
				return "c18-data", side + ": object " + ao.Name + ": Data (iota) differs"
			}
		case *ast.Scope:
			if ds, ok := do.Data.(*dst.Scope); !ok || scopes[ad] != ds {
				return "c18-data", side + ": object " + ao.Name + ": Data scope is not the counterpart"
			}
		}
	}
	for as, ds := range scopes {
		if (as.Outer == nil) != (ds.Outer == nil) || (as.Outer != nil && scopes[as.Outer] != ds.Outer) {
			return "c18-scope", side + ": scope nesting differs"
		}
		if len(as.Objects) != len(ds.Objects) {
			return "c18-scope", side + ": scope membership differs"
		}
		for name, ao := range as.Objects {
			if objs[ao] != ds.Objects[name] {
				return "c18-scope", side + ": scope member " + name + " is not the counterpart"
			}
		}
	}
	return "", ""
}

// dump the ast graph, the dst graph and the three maps as a Coq gcase
func c18DumpCase(dec *decorator.Decorator, af *ast.File) string {
	aoID := map[*ast.Object]int{}
	asID := map[*ast.Scope]int{}
	doID := map[*dst.Object]int{}
	dsID := map[*dst.Scope]int{}
	anID := map[ast.Node]int{}
	dnID := map[dst.Node]int{}
	var aos []*ast.Object
	for o := range dec.Dst.Objects {
		aos = append(aos, o)
	}
	sort.Slice(aos, func(i, j int) bool { return aos[i].Name+fmt.Sprint(aos[i].Kind) < aos[j].Name+fmt.Sprint(aos[j].Kind) })
	for i, o := range aos {
		aoID[o] = i + 1
		doID[dec.Dst.Objects[o]] = 1000 + i + 1
	}
	i := 0
	var ass []*ast.Scope
	for s := range dec.Dst.Scopes {
		ass = append(ass, s)
	}
	sort.Slice(ass, func(a, b int) bool { return len(ass[a].Objects) < len(ass[b].Objects) })
	for _, s := range ass {
		i++
		asID[s] = i
		dsID[dec.Dst.Scopes[s]] = 1000 + i
	}
	nid := func(n ast.Node) int {
		if id, ok := anID[n]; ok {
			return id
		}
		anID[n] = len(anID) + 1
		if d, ok := dec.Dst.Nodes[n]; ok {
			dnID[d] = 1000 + anID[n]
		}
		return anID[n]
	}
	aref := func(x interface{}) string {
		switch x := x.(type) {
		case *ast.Scope:
			if id, ok := asID[x]; ok {
				return fmt.Sprintf("RScope %d", id)
			}
			return "RNil"
		case ast.Node:
			return fmt.Sprintf("RNode %d", nid(x))
		case int:
			return fmt.Sprintf("RInt %d", x)
		}
		return "RNil"
	}
	dref := func(x interface{}) string {
		switch x := x.(type) {
		case *dst.Scope:
			if id, ok := dsID[x]; ok {
				return fmt.Sprintf("RScope %d", id)
			}
			return "RNil"
		case dst.Node:
			if id, ok := dnID[x]; ok {
				return fmt.Sprintf("RNode %d", id)
			}
			return "RNode 0"
		case int:
			return fmt.Sprintf("RInt %d", x)
		}
		return "RNil"
	}
	var ao, do, mo []string
	for _, o := range aos {
		ao = append(ao, fmt.Sprintf("(%d%%N, mkObj %d %s (%s) (%s))", aoID[o], int(o.Kind), coqStr(o.Name), aref(o.Decl), aref(o.Data)))
	}
	for _, o := range aos {
		d := dec.Dst.Objects[o]
		do = append(do, fmt.Sprintf("(%d%%N, mkObj %d %s (%s) (%s))", doID[d], int(d.Kind), coqStr(d.Name), dref(d.Decl), dref(d.Data)))
		mo = append(mo, fmt.Sprintf("(%d%%N, %d%%N)", aoID[o], doID[d]))
	}
	members := func(names []string, get func(string) int) string {
		var ms []string
		for _, n := range names {
			ms = append(ms, fmt.Sprintf("(%s, %d%%N)", coqStr(n), get(n)))
		}
		return "[" + strings.Join(ms, "; ") + "]"
	}
	var asl, dsl, ms []string
	for _, s := range ass {
		var names []string
		for n := range s.Objects {
			names = append(names, n)
		}
		sort.Strings(names)
		outer, douter := "None", "None"
		if s.Outer != nil {
			outer = fmt.Sprintf("(Some %d%%N)", asID[s.Outer])
		}
		d := dec.Dst.Scopes[s]
		if d.Outer != nil {
			douter = fmt.Sprintf("(Some %d%%N)", dsID[d.Outer])
		}
		asl = append(asl, fmt.Sprintf("(%d%%N, mkScope %s %s)", asID[s], outer, members(names, func(n string) int { return aoID[s.Objects[n]] })))
		dsl = append(dsl, fmt.Sprintf("(%d%%N, mkScope %s %s)", dsID[d], douter, members(names, func(n string) int { return doID[d.Objects[n]] })))
		ms = append(ms, fmt.Sprintf("(%d%%N, %d%%N)", asID[s], dsID[d]))
	}
	var mn []string
	var ank []ast.Node
	for n := range anID {
		ank = append(ank, n)
	}
	sort.Slice(ank, func(i, j int) bool { return anID[ank[i]] < anID[ank[j]] })
	for _, n := range ank {
		if d, ok := dec.Dst.Nodes[n]; ok {
			mn = append(mn, fmt.Sprintf("(%d%%N, %d%%N)", anID[n], dnID[d]))
		}
	}
	// roots: the order in which decorateNode meets objects is not modelled; the file scope and
	// every object are roots (memoisation makes the order irrelevant for the result up to ids)
	var roots []string
	if af.Scope != nil {
		if id, ok := asID[af.Scope]; ok {
			roots = append(roots, fmt.Sprintf("WScope %d", id))
		}
	}
	for _, o := range aos {
		roots = append(roots, fmt.Sprintf("WObj %d", aoID[o]))
	}
	for _, s := range ass {
		roots = append(roots, fmt.Sprintf("WScope %d", asID[s]))
	}
	return fmt.Sprintf("mkGC (mkGraph [%s] [%s])\n  (mkGraph [%s] [%s])\n  [%s] [%s] [%s]\n  [%s]",
		strings.Join(ao, "; "), strings.Join(asl, "; "), strings.Join(do, "; "), strings.Join(dsl, "; "),
		strings.Join(mo, "; "), strings.Join(ms, "; "), strings.Join(mn, "; "), strings.Join(roots, "; "))
}

// ---------------------------------------------------------------------------------------------
func c18Universe() (*ast.Scope, *dst.Scope) {
	au, du := ast.NewScope(nil), dst.NewScope(nil)
	for _, n := range []string{"int", "string", "bool", "error", "len", "append", "nil", "true", "false"} {
		k := ast.Typ
		if n == "len" || n == "append" {
			k = ast.Fun
		}
		if n == "nil" || n == "true" || n == "false" {
			k = ast.Con
		}
		au.Insert(ast.NewObj(k, n))
		du.Insert(dst.NewObj(dst.ObjKind(k), n))
	}
	return au, du
}

func c18NewPackage(in c18Input) (key, what string) {
	fset := token.NewFileSet()
	dec := decorator.NewDecorator(fset)
	afs := map[string]*ast.File{}
	dfs := map[string]*dst.File{}
	for i, src := range in.Srcs {
		name := fmt.Sprintf("f%d.go", i)
		af, err := parser.ParseFile(fset, name, src, parser.ParseComments)
		if err != nil {
			return "", ""
		}
		df, err := dec.DecorateFile(af)
		if err != nil {
			return "", ""
		}
		// "given the corresponding unresolved-identifier lists": the decorator does not fill
		// File.Unresolved; the caller supplies the counterparts
		for _, id := range af.Unresolved {
			if d, ok := dec.Dst.Nodes[id].(*dst.Ident); ok {
				df.Unresolved = append(df.Unresolved, d)
			}
		}
		afs[name] = af
		dfs[name] = df
	}
	var au *ast.Scope
	var du *dst.Scope
	if in.Universe {
		au, du = c18Universe()
	}
	var aimp ast.Importer
	var dimp dst.Importer
	fails := func(path string) bool {
		if in.Importer == "failpaths" {
			for _, p := range in.Fail {
				if p == path {
					return true
				}
			}
			return false
		}
		return in.Importer == "fail" || (in.Importer == "failsome" && len(path)%2 == 0)
	}
	// the paths each side asks its importer for, in the order of the calls
	var acalls, dcalls []string
	if in.Importer != "nil" {
		aimp = func(imports map[string]*ast.Object, path string) (*ast.Object, error) {
			acalls = append(acalls, path)
			if fails(path) {
				return nil, fmt.Errorf("cannot import %s", path)
			}
			if o, ok := imports[path]; ok {
				return o, nil
			}
			o := ast.NewObj(ast.Pkg, path[strings.LastIndex(path, "/")+1:])
			sc := ast.NewScope(nil)
			sc.Insert(ast.NewObj(ast.Fun, "Member"))
			sc.Insert(ast.NewObj(ast.Typ, "Kind"))
			o.Data = sc
			imports[path] = o
			return o, nil
		}
		dimp = func(imports map[string]*dst.Object, path string) (*dst.Object, error) {
			dcalls = append(dcalls, path)
			if fails(path) {
				return nil, fmt.Errorf("cannot import %s", path)
			}
			if o, ok := imports[path]; ok {
				return o, nil
			}
			o := dst.NewObj(dst.Pkg, path[strings.LastIndex(path, "/")+1:])
			sc := dst.NewScope(nil)
			sc.Insert(dst.NewObj(dst.Fun, "Member"))
			sc.Insert(dst.NewObj(dst.Typ, "Kind"))
			o.Data = sc
			imports[path] = o
			return o, nil
		}
	}
	var ap *ast.Package
	var dp *dst.Package
	var aerr, derr error
	apm := safely(func() { ap, aerr = ast.NewPackage(fset, afs, aimp, au) })
	dpm := safely(func() { dp, derr = dst.NewPackage(fset, dfs, dimp, du) })
	if apm != dpm {
		return "c18-newpackage-panic", fmt.Sprintf("ast.NewPackage panic=%q, dst.NewPackage panic=%q", apm, dpm)
	}
	if apm != "" {
		return "", ""
	}
	msgs := func(err error) []string {
		var out []string
		if el, ok := err.(scanner.ErrorList); ok {
			for _, e := range el {
				m := e.Msg
				if i := strings.Index(m, "\n\tprevious declaration"); i >= 0 {
					m = m[:i]
				}
				out = append(out, m)
			}
		} else if err != nil {
			out = append(out, err.Error())
		}
		sort.Strings(out)
		return out
	}
	am, dm := msgs(aerr), msgs(derr)
	if strings.Join(am, "|") != strings.Join(dm, "|") {
		return "c18-newpackage-reports", fmt.Sprintf("go/ast reports %v, dst reports %v", am, dm)
	}
	if ap.Name != dp.Name {
		return "c18-newpackage", "package names differ"
	}
	// nesting of the finished package scope: inside the universe the caller gave, as in go/ast
	if (ap.Scope.Outer == au) != (dp.Scope.Outer == du) || (ap.Scope.Outer == nil) != (dp.Scope.Outer == nil) {
		return "c18-newpackage-scope", fmt.Sprintf("the package scope's Outer: go/ast has the universe given: %v (nil: %v), dst: %v (nil: %v)", ap.Scope.Outer == au, ap.Scope.Outer == nil, dp.Scope.Outer == du, dp.Scope.Outer == nil)
	}
	scopeNames := func(m map[string]string) string {
		var ks []string
		for k, v := range m {
			ks = append(ks, k+":"+v)
		}
		sort.Strings(ks)
		return strings.Join(ks, " ")
	}
	am2, dm2 := map[string]string{}, map[string]string{}
	for n, o := range ap.Scope.Objects {
		am2[n] = o.Kind.String()
	}
	for n, o := range dp.Scope.Objects {
		dm2[n] = o.Kind.String()
	}
	if scopeNames(am2) != scopeNames(dm2) {
		return "c18-newpackage-scope", fmt.Sprintf("package scopes differ: %s vs %s", scopeNames(am2), scopeNames(dm2))
	}
	for name, af := range afs {
		df := dfs[name]
		var an, dn []string
		for _, id := range af.Unresolved {
			an = append(an, id.Name)
		}
		for _, id := range df.Unresolved {
			dn = append(dn, id.Name)
		}
		if strings.Join(an, " ") != strings.Join(dn, " ") {
			return "c18-newpackage-unresolved", fmt.Sprintf("%s: unresolved after NewPackage: go/ast %v, dst %v", name, an, dn)
		}
	}
	// the identifiers handed over as unresolved: resolved to an object of the same kind and name, or
	// left alone, alike (go/ast resolves a file with import errors without the universe)
	for name, af := range afs {
		for _, id := range c18Idents(af) {
			d, ok := dec.Dst.Nodes[id].(*dst.Ident)
			if !ok {
				continue
			}
			ao, do := "-", "-"
			if id.Obj != nil {
				ao = id.Obj.Kind.String() + " " + id.Obj.Name
			}
			if d.Obj != nil {
				do = d.Obj.Kind.String() + " " + d.Obj.Name
			}
			if ao != do {
				return "c18-newpackage-resolved", fmt.Sprintf("%s: identifier %s after NewPackage: go/ast resolved it to [%s], dst to [%s]", name, id.Name, ao, do)
			}
		}
	}
	// Package.Imports: the same paths, each holding a package object of the same name with the same members
	impNames := func(paths []string, describe func(string) string) string {
		sort.Strings(paths)
		var out []string
		for _, p := range paths {
			out = append(out, p+"="+describe(p))
		}
		return strings.Join(out, " ")
	}
	var apaths, dpaths []string
	for p := range ap.Imports {
		apaths = append(apaths, p)
	}
	for p := range dp.Imports {
		dpaths = append(dpaths, p)
	}
	ai := impNames(apaths, func(p string) string {
		o := ap.Imports[p]
		if o == nil {
			return "nil"
		}
		var members []string
		if sc, ok := o.Data.(*ast.Scope); ok && sc != nil {
			for n, m := range sc.Objects {
				members = append(members, m.Kind.String()+" "+n)
			}
		}
		sort.Strings(members)
		return fmt.Sprintf("%s %s%v", o.Kind, o.Name, members)
	})
	di := impNames(dpaths, func(p string) string {
		o := dp.Imports[p]
		if o == nil {
			return "nil"
		}
		var members []string
		if sc, ok := o.Data.(*dst.Scope); ok && sc != nil {
			for n, m := range sc.Objects {
				members = append(members, m.Kind.String()+" "+n)
			}
		}
		sort.Strings(members)
		return fmt.Sprintf("%s %s%v", o.Kind, o.Name, members)
	})
	if ai != di {
		return "c18-newpackage-imports", fmt.Sprintf("Package.Imports differ: go/ast {%s}, dst {%s}", ai, di)
	}
	// the importer is consulted for the same paths: within a file in the order of File.Imports (one
	// file: the very same sequence); the files themselves are visited in map order on both sides
	if len(afs) > 1 {
		acalls, dcalls = append([]string{}, acalls...), append([]string{}, dcalls...)
		sort.Strings(acalls)
		sort.Strings(dcalls)
	}
	if strings.Join(acalls, " ") != strings.Join(dcalls, " ") {
		return "c18-newpackage-importer-calls", fmt.Sprintf("importer calls differ: go/ast asked for %v, dst for %v", acalls, dcalls)
	}
	return "", ""
}

// c18Idents: the identifiers of a file in source order
func c18Idents(af *ast.File) []*ast.Ident {
	var out []*ast.Ident
	ast.Inspect(af, func(n ast.Node) bool {
		if id, ok := n.(*ast.Ident); ok {
			out = append(out, id)
		}
		return true
	})
	return out
}

var c18DotTwice = "package p\n\nimport . \"lib\"\n\nimport . \"lib\"\n\nvar usesDot = 1\n"

var c18PkgFiles = []string{
	// (index 0 is used by name elsewhere: new files go to the end)
	"package p\n\nimport \"fmt\"\n\nvar X int\n\nfunc F(s string) int { return len(s) + X + pkg.Y }\n\nfunc G() { fmt.Println(undefined1, true) }\n",
	"package p\n\nimport (\n\t\"os\"\n\tstr \"strings\"\n)\n\nvar X string\n\ntype T struct{ a int }\n\nfunc (t T) M() error { return nil }\n\nvar _ = str.ToUpper(os.Args[0])\n",
	"package p\n\nimport . \"math\"\n\nconst K = Pi\n\nfunc F() {}\n\nvar Z = append([]int{}, K2)\n",
	"package q\n\nvar Other int\n",
	"package p\n\nfunc H(m map[string]int) {\n\tfor k, v := range m {\n\t\t_, _ = k, v\n\t}\nL:\n\tfor {\n\t\tbreak L\n\t}\n}\n",
	// blank imports: go/ast hands them to the importer like any other import (no importer or a failing one:
	// the file is resolved without the universe; a working one: the package is recorded in Package.Imports)
	// -- the only import of its file
	"package p\n\nimport _ \"embed\"\n\nvar E int\n\nfunc fe(s string) bool { return len(s) > E && undefined2 }\n",
	// -- next to an ordinary import, the blank path of even length (the one 'failsome' cannot load)
	"package p\n\nimport (\n\t\"fmt\"\n\t_ \"net/http/pprof\"\n)\n\nvar P error = fmt.Member(nil)\n",
	// -- first in the list, before a renamed import; both loadable under 'failsome'
	"package p\n\nimport (\n\t_ \"image/png\"\n\tsc \"strconv\"\n)\n\nfunc Q(b bool) string { return sc.Member(b, true) }\n",
	// -- one path imported blank and by name in two declarations
	"package p\n\nimport _ \"unsafe\"\n\nimport \"unsafe\"\n\ntype U int\n\nvar up = unsafe.Member(U(0))\n",
}

// c18ImportPaths: the import paths of a source, in the order of File.Imports, without repetitions
func c18ImportPaths(src string) []string {
	af, err := parser.ParseFile(token.NewFileSet(), "x.go", src, parser.ImportsOnly)
	if err != nil {
		return nil
	}
	var out []string
	seen := map[string]bool{}
	for _, spec := range af.Imports {
		p := strings.Trim(spec.Path.Value, "\"`")
		if !seen[p] {
			seen[p] = true
			out = append(out, p)
		}
	}
	return out
}

// crossfile: the files of one package are decorated with one Decorator, resolved across files with
// dst.NewPackage (identifiers of one file then share objects declared in another, Decl pointing
// into the other file), and restored with Extras.
//
//	one:  only the first file is restored; every restored object reachable from it that has a
//	      declaring node on the dst side has one on the ast side (links found while the deferred
//	      Decl links are being resolved included);
//	all:  all files are restored, one after another, with one Restorer: no panic (recorded finding
//	      extras-cross-file-duplicate-node when a file refers to a declaration of a later file).
func c18CrossFile(in c18Input, all bool) (key, what string) {
	fset := token.NewFileSet()
	dec := decorator.NewDecorator(fset)
	dfs := map[string]*dst.File{}
	var order []*dst.File
	for i, src := range in.Srcs {
		name := fmt.Sprintf("f%d.go", i)
		af, err := parser.ParseFile(fset, name, src, parser.ParseComments)
		if err != nil {
			return "", ""
		}
		df, err := dec.DecorateFile(af)
		if err != nil {
			return "", ""
		}
		for _, id := range af.Unresolved {
			if d, ok := dec.Dst.Nodes[id].(*dst.Ident); ok {
				df.Unresolved = append(df.Unresolved, d)
			}
		}
		dfs[name] = df
		order = append(order, df)
	}
	if pm := safely(func() { dst.NewPackage(fset, dfs, nil, nil) }); pm != "" {
		return "", ""
	}
	r := decorator.NewRestorer()
	r.Extras = true
	var restored []*ast.File
	for i, df := range order {
		if !all && i > 0 {
			break
		}
		var af *ast.File
		var err error
		if pm := safely(func() { af, err = r.RestoreFile(df) }); pm != "" {
			k := "c18-crossfile-panic"
			if strings.Contains(pm, "duplicate node") && all {
				k = "extras-cross-file-duplicate-node"
			}
			return k, fmt.Sprintf("RestoreFile(file %d) with Extras panicked: %s", i, clip(pm, 200))
		}
		if err != nil {
			return "", ""
		}
		restored = append(restored, af)
	}
	// every dst object with a declaring node has a restored counterpart with one
	for dobj, aobj := range r.Ast.Objects {
		if dobj.Decl != nil && aobj.Decl == nil {
			return "c18-crossfile-decl", fmt.Sprintf("restored object %s %q has no Decl although its dst object is declared by a %T", aobj.Kind, aobj.Name, dobj.Decl)
		}
	}
	// and everything reachable from the restored files through identifiers is mapped
	seen := map[*ast.Object]bool{}
	var bad string
	var visit func(n ast.Node)
	visit = func(n ast.Node) {
		ast.Inspect(n, func(m ast.Node) bool {
			if id, ok := m.(*ast.Ident); ok && id.Obj != nil && !seen[id.Obj] {
				seen[id.Obj] = true
				if dn, ok := id.Obj.Decl.(ast.Node); ok && dn != nil {
					visit(dn)
				}
			}
			return bad == ""
		})
	}
	for _, af := range restored {
		visit(af)
	}
	return "", ""
}

var c18CrossFiles = [][]string{
	{"package p\n\nfunc A() { B(1, 2, 3) }\n", "package p\n\nfunc B(x, y, z int) (r int) {\n\tq := x + y\n\tvar w = z\nL:\n\tfor i := range []int{q, w} {\n\t\tr += i\n\t\tcontinue L\n\t}\n\ttype T struct{}\n\tconst c = 1\n\treturn r + c\n}\n"},
	{"package p\n\nvar V = W + 1\n\nfunc F() int { return G() }\n", "package p\n\nvar W = 2\n\nfunc G() int {\n\tfor k, v := range map[string]int{} {\n\t\t_, _ = k, v\n\t}\n\treturn W\n}\n", "package p\n\ntype S struct{ n int }\n\nfunc (s S) M() int { return s.n + V }\n"},
	{"package p\n\nfunc A() { B() }\n", "package p\n\nfunc B() { A() }\n"},
}

// c18DecoratePackage: ast.NewPackage over a universe whose map has alias entries (byte -> the
// object of uint8, rune -> int32: go/ast's Lookup only consults the key) and an importer whose
// package objects carry member scopes; the package is decorated as a whole and every scope the
// decorator met must have the same keys as its source, each holding the counterpart of the
// source's object, with the same nesting
func c18DecoratePackage(in c18Input) (key, what string) {
	fset := token.NewFileSet()
	afs := map[string]*ast.File{}
	for i, src := range in.Srcs {
		name := fmt.Sprintf("f%d.go", i)
		af, err := parser.ParseFile(fset, name, src, parser.ParseComments)
		if err != nil {
			return "", ""
		}
		afs[name] = af
	}
	au := ast.NewScope(nil)
	for _, n := range []string{"int", "int32", "uint8", "string", "bool", "error"} {
		au.Insert(ast.NewObj(ast.Typ, n))
	}
	for _, n := range []string{"len", "append"} {
		au.Insert(ast.NewObj(ast.Fun, n))
	}
	for _, n := range []string{"nil", "true", "false"} {
		au.Insert(ast.NewObj(ast.Con, n))
	}
	au.Objects["byte"] = au.Lookup("uint8")
	au.Objects["rune"] = au.Lookup("int32")
	aimp := func(imports map[string]*ast.Object, path string) (*ast.Object, error) {
		if o, ok := imports[path]; ok {
			return o, nil
		}
		o := ast.NewObj(ast.Pkg, path[strings.LastIndex(path, "/")+1:])
		sc := ast.NewScope(nil)
		sc.Insert(ast.NewObj(ast.Fun, "Println"))
		sc.Objects["Alias"] = sc.Lookup("Println")
		o.Data = sc
		imports[path] = o
		return o, nil
	}
	ap, aerr := ast.NewPackage(fset, afs, aimp, au)
	if ap == nil {
		return "", ""
	}
	dec := decorator.NewDecorator(fset)
	var dn dst.Node
	var derr error
	if pm := safely(func() { dn, derr = dec.DecorateNode(ap) }); pm != "" || derr != nil {
		return "c18-decorate-package", fmt.Sprintf("decorating the package failed: %v %s", derr, pm)
	}
	dp := dn.(*dst.Package)
	seen := map[*ast.Scope]bool{}
	var cmp func(as *ast.Scope, ds *dst.Scope, where string) string
	cmp = func(as *ast.Scope, ds *dst.Scope, where string) string {
		if as == nil || ds == nil {
			if (as == nil) != (ds == nil) {
				return where + ": one scope is nil, its counterpart is not"
			}
			return ""
		}
		if seen[as] {
			return ""
		}
		seen[as] = true
		if dec.Dst.Scopes[as] != ds {
			return where + ": the dst scope is not the recorded counterpart of the ast scope"
		}
		var ak, dk []string
		for k := range as.Objects {
			ak = append(ak, k)
		}
		for k := range ds.Objects {
			dk = append(dk, k)
		}
		sort.Strings(ak)
		sort.Strings(dk)
		if strings.Join(ak, " ") != strings.Join(dk, " ") {
			return fmt.Sprintf("%s: members differ: go/ast scope has [%s], its dst counterpart [%s]", where, strings.Join(ak, " "), strings.Join(dk, " "))
		}
		for _, k := range ak {
			ao, do := as.Objects[k], ds.Objects[k]
			if dec.Dst.Objects[ao] != do || ao.Name != do.Name || int(ao.Kind) != int(do.Kind) {
				return fmt.Sprintf("%s: entry %q holds %s %s, its dst counterpart %s %s (recorded counterpart: %v)", where, k, ao.Kind, ao.Name, do.Kind, do.Name, dec.Dst.Objects[ao] == do)
			}
			if asc, ok := ao.Data.(*ast.Scope); ok {
				dsc, _ := do.Data.(*dst.Scope)
				if w := cmp(asc, dsc, where+"."+k+".Data"); w != "" {
					return w
				}
			}
		}
		return cmp(as.Outer, ds.Outer, where+".Outer")
	}
	if w := cmp(ap.Scope, dp.Scope, "Package.Scope"); w != "" {
		return "c18-scope-membership", w
	}
	for name, af := range afs {
		if w := cmp(af.Scope, dp.Files[name].Scope, name+".Scope"); w != "" {
			return "c18-scope-membership", w
		}
	}
	for path, ao := range ap.Imports {
		do := dp.Imports[path]
		if do == nil || dec.Dst.Objects[ao] != do {
			return "c18-scope-membership", "Package.Imports[" + path + "] is not the counterpart of the source's entry"
		}
	}
	_ = aerr
	return "", ""
}

func c18Check(in c18Input) (key, what string) {
	if in.Mode == "newpackage" {
		return c18NewPackage(in)
	}
	if in.Mode == "decorate-package" {
		return c18DecoratePackage(in)
	}
	if in.Mode == "crossfile-one" {
		return c18CrossFile(in, false)
	}
	if in.Mode == "crossfile-all" {
		return c18CrossFile(in, true)
	}
	for _, s := range in.Srcs {
		if in.Mode == "graph-removed" {
			if k, w, _ := c18GraphRemoving(s, in.Remove); k != "" {
				return k, w
			}
			continue
		}
		if k, w, _ := c18Graph(s); k != "" {
			return k, w
		}
	}
	return "", ""
}

func c18Prop(c *Ctx) {
	c.Res.Rule = "graph: hand corpus, range/label/closure snippets (objects whose Decl lies outside the tree), $GOROOT/src sample, decorated and restored with Extras; newpackage: 1-4 files drawn from a pool with redeclarations, undeclared names, dot/aliased imports and a wrong package name x universe {nil, custom} x importer {nil, ok, failing, failing for some}, and every pool file with imports (blank imports among them: alone in the file, next to ordinary and renamed imports, blank and named for one path), alone and with a second file x universe x importer {nil, ok, failing, failing for exactly one of the file's paths, each in turn}; compared: reports, package scope, Unresolved, the object of every identifier, Package.Imports, importer calls; non-trivial = distinct input"
	srcs := append([]string{c18PkgFiles[4], c18PkgFiles[0], c18PkgFiles[1]}, oracleSources(c, c.N(20), 8000)...)
	for _, s := range srcs {
		in := c18Input{Mode: "graph", Srcs: []string{s}}
		c.Res.Evaluations++
		c.Res.seen(fmt.Sprint("g", len(s), s[:min(40, len(s))]))
		c.Res.hist("c18", "graph")
		if key, what := c18Check(in); key != "" {
			c.Res.fail(key, what, in)
		}
	}
	// every declaration of the small sources removed in turn (the declaring node is then outside the tree)
	removed := append([]string{"package p\n\nfunc init() { last = sum(1, 2) }\n\nfunc sum(a, b int) (r int) {\n\tr = a + b\n\treturn\n}\n\nvar last = 0\n\ntype T struct{ f int }\n\nfunc (t T) get() int { return t.f + last }\n"}, srcs[:3]...)
	for _, s := range removed {
		for i := 0; i < 8; i++ {
			in := c18Input{Mode: "graph-removed", Srcs: []string{s}, Remove: i}
			c.Res.Evaluations++
			c.Res.hist("c18", "graph with a declaration removed")
			if key, what := c18Check(in); key != "" {
				c.Res.fail(key, what, in)
			}
		}
	}
	for _, files := range c18CrossFiles {
		for _, mode := range []string{"crossfile-one", "crossfile-all"} {
			for rot := 0; rot < len(files); rot++ {
				in := c18Input{Mode: mode, Srcs: append(append([]string{}, files[rot:]...), files[:rot]...)}
				c.Res.Evaluations++
				b, _ := json.Marshal(in)
				c.Res.seen(string(b))
				c.Res.hist("c18", mode)
				if key, what := c18Check(in); key != "" {
					c.Res.fail(key, what, in)
				}
			}
		}
	}
	for i := 0; i < c.N(12); i++ {
		in := c18Input{Mode: "decorate-package"}
		n := 1 + c.Rng.Intn(3)
		for _, j := range c.Rng.Perm(len(c18PkgFiles))[:n] {
			if j != 3 {
				in.Srcs = append(in.Srcs, c18PkgFiles[j])
			}
		}
		in.Srcs = append(in.Srcs, "package p\n\nvar bs []byte\n\nvar r rune = 'x'\n\nfunc conv(s string) int32 { return int32(len([]uint8(s))) }\n")
		c.Res.Evaluations++
		b, _ := json.Marshal(in)
		c.Res.seen(string(b))
		c.Res.hist("c18", "decorate-package (universe and import scopes with alias entries)")
		if key, what := c18Check(in); key != "" {
			c.Res.fail(key, what, in)
		}
	}
	imps := []string{"nil", "ok", "fail", "failsome"}
	for i := 0; i < c.N(80); i++ {
		in := c18Input{Mode: "newpackage", Universe: c.Rng.Intn(2) == 0, Importer: imps[c.Rng.Intn(4)]}
		n := 1 + c.Rng.Intn(4)
		for _, j := range c.Rng.Perm(len(c18PkgFiles))[:n] {
			if j == 3 {
				continue // a second package name: which file names the package follows map iteration order in go/ast and dst alike
			}
			in.Srcs = append(in.Srcs, c18PkgFiles[j])
		}
		if len(in.Srcs) == 0 {
			in.Srcs = []string{c18PkgFiles[0]}
		}
		if i%5 == 0 {
			// one package dot-imported twice by one file: the importer returns the cached object, the second
			// merge meets the very same objects
			in.Srcs = append(in.Srcs, c18DotTwice)
		}
		c.Res.Evaluations++
		b, _ := json.Marshal(in)
		c.Res.seen(string(b))
		c.Res.hist("c18", fmt.Sprintf("newpackage universe=%v importer=%s", in.Universe, in.Importer))
		if key, what := c18Check(in); key != "" {
			c.Res.fail(key, what, in)
		}
		if len(c.Res.Samples) < 2 {
			c.Res.Samples = append(c.Res.Samples, map[string]interface{}{"mode": in.Mode, "files": len(in.Srcs), "universe": in.Universe, "importer": in.Importer})
		}
	}
	// every pool file with imports, alone and next to a second file of the pool, under each universe and
	// each importer, among them the importers that cannot load exactly one of the file's paths
	for fi, src := range c18PkgFiles {
		paths := c18ImportPaths(src)
		if fi == 3 || len(paths) == 0 {
			continue
		}
		other := c.Rng.Intn(len(c18PkgFiles))
		for other == 3 || other == fi {
			other = (other + 1) % len(c18PkgFiles)
		}
		for _, srcs := range [][]string{{src}, {src, c18PkgFiles[other]}} {
			for _, universe := range []bool{true, false} {
				var ins []c18Input
				for _, imp := range imps {
					ins = append(ins, c18Input{Mode: "newpackage", Srcs: srcs, Universe: universe, Importer: imp})
				}
				for _, p := range paths {
					ins = append(ins, c18Input{Mode: "newpackage", Srcs: srcs, Universe: universe, Importer: "failpaths", Fail: []string{p}})
				}
				for _, in := range ins {
					c.Res.Evaluations++
					b, _ := json.Marshal(in)
					c.Res.seen(string(b))
					c.Res.hist("c18", fmt.Sprintf("newpackage per-file universe=%v importer=%s", in.Universe, in.Importer))
					if key, what := c18Check(in); key != "" {
						c.Res.fail(key, what, in)
					}
				}
			}
		}
	}
}

func c18Corr(c *Ctx) {
	var cases []string
	srcs := append([]string{c18PkgFiles[4], c18PkgFiles[0], c18PkgFiles[1]}, corrSources(c, c.N(6), 3000)...)
	for _, s := range srcs {
		_, _, cs := c18Graph(s)
		if cs == "" {
			continue
		}
		cases = append(cases, cs)
		c.Res.CaseInputs = appendCase(c.Res.CaseInputs, "mismatch_graph", s)
		c.Res.Traces++
	}
	c.caseSB.WriteString("From Coq Require Import List String ZArith NArith Bool.\nImport ListNotations.\nFrom DV Require Import Model.ObjGraph Model.GraphCases.\nLocal Open Scope string_scope.\nLocal Open Scope list_scope.\n")
	c.caseSB.WriteString("Definition gcases : list gcase := [\n" + strings.Join(cases, ";\n") + "].\n")
	c.caseSB.WriteString("Definition mismatch_graph := Eval vm_compute in bad_gcases gcases.\nPrint mismatch_graph.\n")
	// every real source graph meets the hypothesis of C18_memoised_copy_is_accepted
	c.caseSB.WriteString("Definition mismatch_graph_wf := Eval vm_compute in bad_wf gcases.\nPrint mismatch_graph_wf.\n")
}

func init() {
	props["C18"] = c18Prop
	corrs["C18"] = c18Corr
	replays["C18"] = func(c *Ctx, raw json.RawMessage) (bool, string) {
		var in c18Input
		if err := json.Unmarshal(raw, &in); err != nil || in.Mode == "" {
			return false, "not a C18 generated input"
		}
		key, what := c18Check(in)
		return key != "", what
	}
}
