package main

import (
	"encoding/json"
	"fmt"
	"go/ast"
	"go/token"
	"math/rand"
	"reflect"
	"sort"
	"strings"

	"github.com/dave/dst"
	"github.com/dave/dst/decorator"
	"github.com/dave/dst/dstutil"
)

// C04 oracle on the implementation.  A parsed file gets uniquely numbered comments on a
// random subset of (node, point) pairs (block, line and "\n" decorations).  Then:
//  (a) the printed text contains each comment exactly once;
//  (b) its token sequence equals that of the undecorated print;
//  (c) in the restored ast each comment sits where its point's name says: after the
//      child / token field the point is named for, Start before the node's first token, End
//      after its last, and the points of one node in struct order;
//  (d) dstutil.Decorations lists Before, After and exactly the reflection-derived points,
//      in order, sharing storage with the node; Decorations() returns the embedded NodeDecs.

type c04Input struct {
	Src   string `json:"src"`
	Seed  int64  `json:"seed"`
	Dens  int    `json:"density"`
	Kinds string `json:"kinds"`                // which decoration kinds are used: b(lock) l(ine) n(ewline)
	Shape string `json:"shape_edit,omitempty"` // an edit applied to the parsed tree before anything else: it leaves a tree that no parse produces (c04ShapeEdit)
}

// c04ShapeEdit: trees that the decorator never produces but edits do.  The property speaks of any
// tree (parsed or hand-built): the oracle below treats the edited tree like a parsed one.  Returns
// how many nodes were changed.
//
//	indexlist-truncate      every IndexListExpr keeps only its first index (the parser gives
//	                        IndexExpr for one index, so IndexListExpr with one index only arises so)
//	indexlist-apply-delete  the same through dstutil.Apply + Cursor.Delete
//	indexlist-keep-last     every IndexListExpr keeps only its last index
//	indexlist-from-index    every IndexExpr becomes an IndexListExpr with that one index, keeping
//	                        its decorations point by point (Index -> Indices)
//	call-drop-args / composite-drop-elts / fieldlist-drop-to-one: lists reduced by an edit while
//	                        the decorations of the list node stay
func c04ShapeEdit(f *dst.File, shape string) int {
	n := 0
	switch shape {
	case "indexlist-truncate", "indexlist-keep-last", "call-drop-args", "composite-drop-elts", "fieldlist-drop-to-one":
		var all []dst.Node
		reflectPreorder(f, nil, &all)
		for _, nd := range all {
			switch nd := nd.(type) {
			case *dst.IndexListExpr:
				if len(nd.Indices) > 1 && shape == "indexlist-truncate" {
					nd.Indices = nd.Indices[:1]
					n++
				}
				if len(nd.Indices) > 1 && shape == "indexlist-keep-last" {
					nd.Indices = nd.Indices[len(nd.Indices)-1:]
					n++
				}
			case *dst.CallExpr:
				if len(nd.Args) > 1 && shape == "call-drop-args" && !nd.Ellipsis {
					nd.Args = nd.Args[:1]
					n++
				}
			case *dst.CompositeLit:
				if len(nd.Elts) > 1 && shape == "composite-drop-elts" {
					nd.Elts = nd.Elts[:1]
					n++
				}
			case *dst.FieldList:
				if len(nd.List) > 1 && shape == "fieldlist-drop-to-one" {
					nd.List = nd.List[:1]
					n++
				}
			}
		}
	case "indexlist-apply-delete":
		dstutil.Apply(f, func(c *dstutil.Cursor) bool {
			if _, ok := c.Parent().(*dst.IndexListExpr); ok && c.Name() == "Indices" && c.Index() >= 1 {
				c.Delete()
				n++
			}
			return true
		}, nil)
	case "indexlist-from-index":
		dstutil.Apply(f, nil, func(c *dstutil.Cursor) bool {
			if ie, ok := c.Node().(*dst.IndexExpr); ok {
				il := &dst.IndexListExpr{X: ie.X, Indices: []dst.Expr{ie.Index}}
				il.Decs.NodeDecs = ie.Decs.NodeDecs
				il.Decs.X, il.Decs.Lbrack, il.Decs.Indices = ie.Decs.X, ie.Decs.Lbrack, ie.Decs.Index
				c.Replace(il)
				n++
			}
			return true
		})
	}
	return n
}

var c04Shapes = []string{"indexlist-truncate", "indexlist-apply-delete", "indexlist-keep-last", "indexlist-from-index", "call-drop-args", "composite-drop-elts", "fieldlist-drop-to-one"}

// sources with instantiations of two and more type arguments in every position, some with
// comments of their own at the points of the IndexListExpr
var c04ShapeSources = []string{
	"package a\n\ntype Pair[K comparable, V any] struct {\n\tKey K\n\tVal V\n}\n\nvar p = Pair[int, string]{Key: 1, Val: \"a\"}\n\nvar q Pair[string, Pair[int, bool]]\n\nfunc (p *Pair[K, V]) Swap(o Pair[K, V]) (r Pair[K, V], ok bool) {\n\treturn o, true\n}\n",
	"package a\n\nfunc Map[T, U any](xs []T, f func(T) U) []U { return nil }\n\nfunc g() {\n\tys := Map[int, string]([]int{1, 2}, nil)\n\t_ = ys\n\th := Map[ /*first*/ int, string /*keep*/]\n\t_ = h\n\tvar m map[string]Triple[int, []byte, func(int) error]\n\t_ = m[\"k\"]\n}\n\ntype Triple[A, B, C any] struct{}\n",
	"package a\n\nimport \"sync\"\n\ntype Cache[K comparable, V any] struct {\n\tmu sync.Mutex\n\tm  map[K]Entry[K, V] // entries\n}\n\ntype Entry[K comparable, V any] struct {\n\tk K\n\tv V\n}\n\nfunc New[K comparable, V any]() *Cache[K, V] {\n\treturn &Cache[K, V]{m: make(map[K]Entry[K, V])}\n}\n\nfunc use() {\n\tc := New[\n\t\tstring,\n\t\tint, // the value type\n\t]()\n\t_ = c.m[\"x\"].v\n\tvar arr [4]int\n\t_ = arr[1]\n}\n",
}

type c04Mark struct {
	node  dst.Node
	point string
	text  string
}

func c04Decorate(r *rand.Rand, f *dst.File, dens int, kinds string) []c04Mark {
	var marks []c04Mark
	next := 0
	var all []dst.Node
	reflectPreorder(f, nil, &all)
	for _, n := range all {
		for _, p := range reflectPoints(n) {
			if r.Intn(dens) != 0 {
				continue
			}
			k := 1 + r.Intn(2)
			for i := 0; i < k; i++ {
				next++
				var text string
				switch kinds[r.Intn(len(kinds))] {
				case 'b':
					text = fmt.Sprintf("/*u%d*/", next)
				case 'l':
					text = fmt.Sprintf("// u%d", next)
				default:
					p.Decs.Append("\n")
					continue
				}
				p.Decs.Append(text)
				marks = append(marks, c04Mark{n, p.Name, text})
			}
		}
	}
	return marks
}

var c04TokFieldAlias = map[string][]string{
	// point name -> candidate position fields of the ast node
	"Tok": {"TokPos"}, "Op": {"OpPos"}, "Lbrack": {"Lbrack"}, "Rbrack": {"Rbrack"}, "Lbrace": {"Lbrace"},
	"Lparen": {"Lparen"}, "Rparen": {"Rparen"}, "Opening": {"Opening"}, "Closing": {"Closing"},
	"Ellipsis": {"Ellipsis"}, "Star": {"Star"}, "Arrow": {"Arrow"}, "Colon": {"Colon"}, "Func": {"Func"},
	"Go": {"Go"}, "Defer": {"Defer"}, "If": {"If"}, "For": {"For"}, "Switch": {"Switch"}, "Select": {"Select"},
	"Case": {"Case"}, "Return": {"Return"}, "Interface": {"Interface"}, "Struct": {"Struct"}, "Map": {"Map"},
	"Begin": {"Begin"}, "Package": {"Package"}, "Range": {"Range"}, "Assign": {"Assign"},
}

func c04Check(in c04Input) (key, what string) {
	f, err := decorator.Parse(in.Src)
	if err != nil {
		return "", ""
	}
	if in.Shape != "" && c04ShapeEdit(f, in.Shape) == 0 {
		return "", "" // the source has nothing of that shape
	}
	plain, perr, pm := printDst(f)
	if pm != "" || perr != nil {
		return "", ""
	}
	// the comments the tree carries already (from the source), by text
	carried := map[string]int{}
	{
		var all []dst.Node
		reflectPreorder(f, nil, &all)
		for _, n := range all {
			for _, p := range reflectPoints(n) {
				for _, d := range *p.Decs {
					if strings.HasPrefix(d, "//") || strings.HasPrefix(d, "/*") {
						carried[strings.Join(strings.Fields(d), " ")]++
					}
				}
			}
		}
	}
	r := rand.New(rand.NewSource(in.Seed))
	marks := c04Decorate(r, f, in.Dens, in.Kinds)
	// ("\n" as the first thing emitted in the file used to make SetLines fail: fixed by 3dd4b07, no
	// longer excluded)
	// (d) listing helpers
	var all []dst.Node
	reflectPreorder(f, nil, &all)
	for _, n := range all {
		before, after, pts := dstutil.Decorations(n)
		want := reflectPoints(n)
		nd := n.Decorations()
		if _, isPkg := n.(*dst.Package); isPkg {
			continue
		}
		if nd == nil {
			return "c04-accessor", fmt.Sprintf("%T.Decorations() returned nil", n)
		}
		if before != nd.Before || after != nd.After {
			return "c04-listing", fmt.Sprintf("dstutil.Decorations(%T) reports spacing %v/%v, node has %v/%v", n, before, after, nd.Before, nd.After)
		}
		if len(want) > 0 && (&nd.Start != want[0].Decs || &nd.End != want[len(want)-1].Decs) {
			return "c04-accessor", fmt.Sprintf("%T.Decorations() is not the node's own NodeDecs", n)
		}
		if len(pts) != len(want) {
			return "c04-listing", fmt.Sprintf("dstutil.Decorations(%T) lists %d points, the Decorations struct has %d", n, len(pts), len(want))
		}
		for i := range pts {
			if pts[i].Name != want[i].Name {
				return "c04-listing", fmt.Sprintf("dstutil.Decorations(%T) point %d is %s, struct order has %s", n, i, pts[i].Name, want[i].Name)
			}
			a, b := pts[i].Decs, []string(*want[i].Decs)
			if len(a) != len(b) || (len(a) > 0 && &a[0] != &b[0]) {
				return "c04-listing", fmt.Sprintf("dstutil.Decorations(%T).%s is not backed by the node's own storage", n, pts[i].Name)
			}
		}
	}
	out, err, pm := printDst(f)
	if pm != "" {
		return "c04-panic", "printing the decorated tree panicked: " + pm
	}
	if err != nil {
		// a line comment can make the printed text unparseable for go/format; not this property
		return "", ""
	}
	if strings.Contains(out, "///") {
		return "", "" // go/printer glues a division operator to a following line comment; printer behaviour (assumption P)
	}
	toks, comments, _ := scanAll(out)
	ptoks, _, _ := scanAll(plain)
	// (a)
	cnt := map[string]int{}
	for _, cm := range comments {
		cnt[strings.TrimRight(cm.Lit, "\r\n")]++
	}
	for _, m := range marks {
		if cnt[m.text] != 1 {
			return "c04-once", fmt.Sprintf("comment %s on %T.%s occurs %d times in the output", m.text, m.node, m.point, cnt[m.text])
		}
	}
	// (a) for the comments the tree carried before: as many times as the tree holds them (white
	// space inside a comment is the printer's; build constraints are rewritten by go/format)
	{
		got := map[string]int{}
		for _, cm := range comments {
			got[strings.Join(strings.Fields(cm.Lit), " ")]++
		}
		var texts []string
		for t := range carried {
			texts = append(texts, t)
		}
		sort.Strings(texts)
		for _, t := range texts {
			if strings.HasPrefix(t, "//go:build") || strings.HasPrefix(t, "// +build") || strings.HasPrefix(t, "//+build") {
				continue
			}
			if t == "//" {
				// empty comment lines are go/printer's: its doc-comment formatter inserts one before the
				// directives of a doc comment (a numbered line comment added to a doc comment makes it do so)
				continue
			}
			if got[t] != carried[t] {
				return "c04-once", fmt.Sprintf("comment %s, held %d times by the tree before the numbered comments were added, occurs %d times in the output", clip(t, 80), carried[t], got[t])
			}
		}
	}
	// (a') the comments of one point come out in the order of the point's list
	{
		at := map[string]int{}
		for i, cm := range comments {
			at[strings.TrimRight(cm.Lit, "\r\n")] = i
		}
		type np struct {
			n dst.Node
			p string
		}
		lastAt := map[np]int{}
		lastText := map[np]string{}
		for _, m := range marks {
			k := np{m.node, m.point}
			if prev, ok := lastAt[k]; ok && at[m.text] < prev {
				return "c04-order-in-point", fmt.Sprintf("point %s of %T holds %s before %s, the print has them the other way round", m.point, m.node, lastText[k], m.text)
			}
			lastAt[k] = at[m.text]
			lastText[k] = m.text
		}
	}
	// (b)
	// (go/format sorts the specs of an import group; a "\n" decoration can split a group, so the
	// decorated print may order import specs differently -- printer behaviour, assumption P)
	if tokString(toks) != tokString(ptoks) && !importOrderOnly(ptoks, toks) {
		return "c04-tokens", "token stream of the decorated print differs from the undecorated print: " + tokDiff(ptoks, toks)
	}
	// (c) positions in the restored ast
	rs, af, err, pm := restoreDst(f)
	if pm != "" || err != nil {
		return "c04-panic", "restoring the decorated tree failed: " + pm
	}
	cpos := map[string]token.Pos{}
	for _, cg := range af.Comments {
		for _, cm := range cg.List {
			cpos[cm.Text] = cm.Slash
		}
	}
	type key2 struct {
		n dst.Node
		p string
	}
	first := map[key2]token.Pos{}
	last := map[key2]token.Pos{}
	for _, m := range marks {
		p := cpos[m.text]
		k := key2{m.node, m.point}
		if first[k] == 0 || p < first[k] {
			first[k] = p
		}
		if p > last[k] {
			last[k] = p
		}
	}
	for _, m := range marks {
		an := rs.Ast.Nodes[m.node]
		if an == nil {
			continue
		}
		p := cpos[m.text]
		if _, isSel := an.(*ast.SelectorExpr); isSel {
			if _, isIdent := m.node.(*dst.Ident); isIdent {
				continue
			}
		}
		switch m.point {
		case "Start":
			if fd, ok := an.(*ast.FuncDecl); ok && fd.Type != nil {
				if p >= fd.Type.Func && fd.Recv == nil && fd.Type.Func.IsValid() {
					return "c04-place", fmt.Sprintf("%s (Start of %T) is not before the node's first token", m.text, m.node)
				}
				continue
			}
			if p >= an.Pos() && an.Pos().IsValid() {
				return "c04-place", fmt.Sprintf("%s (Start of %T) at %d is not before the node's first token at %d", m.text, m.node, p, an.Pos())
			}
		case "End":
			if _, isFile := an.(*ast.File); isFile {
				continue
			}
			lastTok := lastTokenPos(an)
			if lastTok.IsValid() && p <= lastTok {
				return "c04-place", fmt.Sprintf("%s (End of %T) at %d is not after the node's last token at %d", m.text, m.node, p, lastTok)
			}
		default:
			av := reflect.ValueOf(an).Elem()
			// named for a child field
			_, isIf := an.(*ast.IfStmt) // IfStmt.Decs.Else is named for the else keyword: it precedes the Else child
			if fv := av.FieldByName(m.point); fv.IsValid() && fv.Type() != posType && !(isIf && m.point == "Else") {
				if cn, ok := fv.Interface().(ast.Node); ok && !reflect.ValueOf(cn).IsNil() {
					if lt := lastTokenPos(cn); lt.IsValid() && p <= lt {
						return "c04-place", fmt.Sprintf("%s (point %s of %T) at %d is not after child %s ending at %d", m.text, m.point, m.node, p, m.point, lt)
					}
				}
			}
			// named for a list field (IndexListExpr.Indices): after the last element of the list
			if fv := av.FieldByName(m.point); fv.IsValid() && fv.Kind() == reflect.Slice && fv.Len() > 0 {
				if cn, ok := fv.Index(fv.Len() - 1).Interface().(ast.Node); ok && !reflect.ValueOf(cn).IsNil() {
					if lt := lastTokenPos(cn); lt.IsValid() && p <= lt {
						return "c04-place", fmt.Sprintf("%s (point %s of %T) at %d is not after the last element of %s ending at %d", m.text, m.point, m.node, p, m.point, lt)
					}
				}
			}
			for _, fn := range append([]string{m.point}, c04TokFieldAlias[m.point]...) {
				if fv := av.FieldByName(fn); fv.IsValid() && fv.Type() == posType {
					tp := token.Pos(fv.Int())
					if tp.IsValid() && p <= tp {
						return "c04-place", fmt.Sprintf("%s (point %s of %T) at %d is not after the token at %d", m.text, m.point, m.node, p, tp)
					}
				}
			}
		}
	}
	// points of one node in struct order
	for _, n := range all {
		pts := reflectPoints(n)
		var prev token.Pos
		var prevName string
		for _, pt := range pts {
			k := key2{n, pt.Name}
			if first[k] == 0 {
				continue
			}
			if first[k] < prev {
				return "c04-order", fmt.Sprintf("%T: comments of point %s are rendered before those of point %s", n, pt.Name, prevName)
			}
			prev, prevName = last[k], pt.Name
		}
	}
	return "", ""
}

// lastTokenPos: the largest valid position field in the subtree (start of its last token).
func lastTokenPos(n ast.Node) token.Pos {
	var mx token.Pos
	ast.Inspect(n, func(c ast.Node) bool {
		if c == nil {
			return false
		}
		switch c.(type) {
		case *ast.Comment, *ast.CommentGroup:
			return false
		}
		v := reflect.ValueOf(c).Elem()
		for i := 0; i < v.NumField(); i++ {
			if v.Field(i).Type() == posType {
				if p := token.Pos(v.Field(i).Int()); p > mx {
					mx = p
				}
			}
		}
		return true
	})
	return mx
}

// c04CommentFieldMultiline: a block comment that contains a line break as the End decoration of
// the last Field of a receiver / type-parameter / parameter / result / func-type list (the
// Comment-field path of applyDecorations: Field, ValueSpec, TypeSpec, ImportSpec): it must come
// out exactly once, after the field and before the list's closing delimiter
func c04CommentFieldMultiline(c *Ctx) {
	type shape struct {
		name, src string
		list      func(f *dst.File) *dst.FieldList
	}
	fd := func(f *dst.File) *dst.FuncDecl { return f.Decls[len(f.Decls)-1].(*dst.FuncDecl) }
	shapes := []shape{
		{"receiver", "package a\n\nfunc (r T) f(a int) {}\n", func(f *dst.File) *dst.FieldList { return fd(f).Recv }},
		{"params", "package a\n\nfunc f(a int, b string) {}\n", func(f *dst.File) *dst.FieldList { return fd(f).Type.Params }},
		{"results", "package a\n\nfunc f() (x int, err error) { return }\n", func(f *dst.File) *dst.FieldList { return fd(f).Type.Results }},
		{"type-params", "package a\n\nfunc f[K comparable, V any](k K) {}\n", func(f *dst.File) *dst.FieldList { return fd(f).Type.TypeParams }},
		{"func-type", "package a\n\nvar g func(a int, b string)\n", func(f *dst.File) *dst.FieldList {
			return f.Decls[0].(*dst.GenDecl).Specs[0].(*dst.ValueSpec).Type.(*dst.FuncType).Params
		}},
	}
	for _, sh := range shapes {
		for _, text := range []string{"/*one*/", "/*x\ny*/", "/*x\n\ny\nz*/"} {
			f, err := decorator.Parse(sh.src)
			if err != nil {
				continue
			}
			fl := sh.list(f)
			last := fl.List[len(fl.List)-1]
			last.Decs.End.Replace(text)
			c.Res.Evaluations++
			c.Res.hist("c04-kinds", "multi-line block comment at a Comment-field End point")
			in := map[string]string{"src": sh.src, "edit": "End decoration of the last field of the " + sh.name + " list = " + text}
			out, perr, pm := printDst(f)
			if pm != "" || perr != nil {
				c.Res.fail("c04-comment-field", fmt.Sprintf("printing failed: %v %s", perr, pm), in)
				continue
			}
			seq := scanSeq(out)
			want := "C:" + strings.Join(strings.Fields(text), " ")
			at, n := -1, 0
			for i, t := range seq {
				if t == want {
					at = i
					n++
				}
			}
			closer := ")"
			if sh.name == "type-params" {
				closer = "]"
			}
			// the tokens of the list, comments and commas removed: the comment sits before the closer of the list
			ref := scanSeq(sh.src)
			if n != 1 {
				c.Res.fail("c04-comment-field", fmt.Sprintf("the comment is printed %d times:\n%s", n, out), in)
				continue
			}
			var rest []string
			for _, t := range seq {
				if !strings.HasPrefix(t, "C:") {
					rest = append(rest, t)
				}
			}
			if strings.Join(rest, " ") != strings.Join(ref, " ") {
				c.Res.fail("c04-comment-field", "the token stream changed:\n"+out, in)
				continue
			}
			if at+1 >= len(seq) || seq[at+1] != closer {
				c.Res.fail("c04-comment-field", fmt.Sprintf("the comment is not directly before the %q that closes the %s list (it is followed by %v):\n%s", closer, sh.name, seq[at+1:min(at+3, len(seq))], out), in)
			}
		}
	}
}

func c04Prop(c *Ctx) {
	c.Res.Rule = "hand corpus + $GOROOT/src sample; per source one saturating assignment (a block comment on every point of every node) and 3 random assignments of uniquely numbered block/line comments and newline decorations to (node, point) pairs at densities 1/2, 1/5, 1/12; non-trivial = distinct (source, seed, density, kinds) with at least one comment placed"
	srcs := oracleSources(c, c.N(14), 6000)
	kinds := []string{"b", "bl", "bln", "bn"}
	pointsHit := map[string]bool{}
	for _, src := range srcs {
		for _, dens := range []int{1, 2, 5, 12} {
			in := c04Input{Src: src, Seed: c.Rng.Int63(), Dens: dens, Kinds: kinds[c.Rng.Intn(len(kinds))]}
			if dens == 1 {
				in.Kinds = "b" // saturation: a block comment on every point of every node
			}
			c.Res.Evaluations++
			c.Res.seen(fmt.Sprint(in.Seed))
			c.Res.hist("c04-kinds", in.Kinds)
			if key, what := c04Check(in); key != "" {
				c.Res.fail(key, what, in)
			}
			if len(c.Res.Samples) < 2 {
				c.Res.Samples = append(c.Res.Samples, map[string]interface{}{"src": clip(src, 160), "seed": in.Seed, "density": dens, "kinds": in.Kinds})
			}
		}
		if f, err := decorator.Parse(src); err == nil {
			var all []dst.Node
			reflectPreorder(f, nil, &all)
			for _, n := range all {
				for _, p := range reflectPoints(n) {
					pointsHit[kindName(n)+"."+p.Name] = true
				}
			}
		}
	}
	// trees that only edits produce (c04ShapeEdit): saturated and randomly decorated like parsed ones
	shapeSrcs := append(append([]string{}, c04ShapeSources...), srcs[:min(len(srcs), 12)]...)
	for si, src := range shapeSrcs {
		for _, shape := range c04Shapes {
			for _, dens := range []int{1, 3} {
				in := c04Input{Src: src, Seed: c.Rng.Int63(), Dens: dens, Kinds: kinds[c.Rng.Intn(len(kinds))], Shape: shape}
				if dens == 1 {
					in.Kinds = "b"
				}
				if f, err := decorator.Parse(src); err != nil || c04ShapeEdit(f, shape) == 0 {
					continue
				}
				_ = si
				c.Res.Evaluations++
				c.Res.seen(fmt.Sprint(in.Seed))
				c.Res.hist("c04-shape-edit", shape)
				if key, what := c04Check(in); key != "" {
					c.Res.fail(key, what, in)
				}
			}
		}
	}
	var ph []string
	for k := range pointsHit {
		ph = append(ph, k)
	}
	sort.Strings(ph)
	c.Res.Notes = append(c.Res.Notes, fmt.Sprintf("%d distinct (kind, point) pairs occur in the sources of this run", len(ph)))
	// regression input of the fixed finding first-emission-newline: "\n" first in File.Decs.Start
	c04KnownStartNewline(c)
	c04CommentFieldMultiline(c)
}

func c04KnownStartNewline(c *Ctx) {
	f, err := decorator.Parse("package a\n\nvar x int\n")
	if err != nil {
		return
	}
	f.Decs.Start.Prepend("\n")
	c.Res.Evaluations++
	out, err2, pm := printDst(f)
	// (go/format drops a blank line at the very beginning of a file: only the absence of a failure is checked)
	if pm != "" || err2 != nil || out != "package a\n\nvar x int\n" {
		c.Res.fail("c04-first-emission-newline", fmt.Sprintf("File.Decs.Start beginning with \"\\n\": Fprint gives %q, error %v, panic %q", out, err2, pm), map[string]string{"src": "package a\n\nvar x int\n", "edit": "File.Decs.Start.Prepend(\"\\n\")"})
	}
}

func init() {
	props["C04"] = c04Prop
	replays["C04"] = func(c *Ctx, raw json.RawMessage) (bool, string) {
		if handled, fails, msg := replayFixed(c, raw, c04CommentFieldMultiline); handled {
			return fails, msg
		}
		var in c04Input
		if err := json.Unmarshal(raw, &in); err != nil || in.Src == "" {
			return false, "not a C04 generated input"
		}
		key, what := c04Check(in)
		return key != "", what
	}
}
