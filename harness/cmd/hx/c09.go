package main

import (
	"encoding/json"
	"fmt"
	"go/ast"
	"go/parser"
	"go/token"
	"go/types"
	"strings"

	"github.com/dave/dst"
	"github.com/dave/dst/decorator"
	"github.com/dave/dst/decorator/resolver/goast"
	"github.com/dave/dst/decorator/resolver/gotypes"
	"github.com/dave/dst/decorator/resolver/simple"
)

// Type-correct multi-package programs (G4), type-checked in memory with go/types (no go tool).
// C09: the path the gotypes resolver gives every identifier vs an expectation computed
// independently from types.Info (package-level object of another package, reached through a
// package qualifier or a dot-import; vendor prefix removed); goast agrees where it applies and
// refuses dot-imports and two imports under one name.

type program struct {
	Pkgs []progPkg `json:"pkgs"` // in dependency order; the last one is the package under test
}

type progPkg struct {
	Path     string   `json:"path"`
	ImportAs string   `json:"import_as,omitempty"` // what source files write to import it (a vendored package: its path without the vendor prefix)
	Files    []string `json:"files"`
}

type checked struct {
	fset  *token.FileSet
	pkgs  map[string]*types.Package
	files map[string][]*ast.File
	info  map[string]*types.Info
	err   error
}

type mapImporter map[string]*types.Package

func (m mapImporter) Import(path string) (*types.Package, error) {
	if p, ok := m[path]; ok {
		return p, nil
	}
	return nil, fmt.Errorf("package %s not found", path)
}

func typeCheck(p program) *checked {
	c := &checked{fset: token.NewFileSet(), pkgs: map[string]*types.Package{}, files: map[string][]*ast.File{}, info: map[string]*types.Info{}}
	for _, pk := range p.Pkgs {
		var fs []*ast.File
		for i, src := range pk.Files {
			f, err := parser.ParseFile(c.fset, fmt.Sprintf("%s/f%d.go", pk.Path, i), src, parser.ParseComments)
			if err != nil {
				c.err = err
				return c
			}
			fs = append(fs, f)
		}
		info := &types.Info{Uses: map[*ast.Ident]types.Object{}, Defs: map[*ast.Ident]types.Object{}, Selections: map[*ast.SelectorExpr]*types.Selection{}}
		// FakeImportC: cgo files (import "C") are checked without the cgo tool; go/types records no object
		// for the C.xxx selectors and reports no error for them
		conf := types.Config{Importer: mapImporter(c.pkgs), FakeImportC: true}
		tp, err := conf.Check(pk.Path, c.fset, fs, info)
		if err != nil {
			c.err = fmt.Errorf("%s: %v", pk.Path, err)
			return c
		}
		c.pkgs[pk.Path] = tp
		if pk.ImportAs != "" {
			c.pkgs[pk.ImportAs] = tp
		}
		c.files[pk.Path] = fs
		c.info[pk.Path] = info
	}
	return c
}

func stripVendorRef(path string) string {
	if i := strings.LastIndex(path, "/vendor/"); i >= 0 {
		return path[i+len("/vendor/"):]
	}
	return strings.TrimPrefix(path, "vendor/")
}

// expectedPath: independent of the resolver's own case analysis
func expectedPath(info *types.Info, self *types.Package, id *ast.Ident) string {
	obj := info.Uses[id]
	if obj == nil || obj.Pkg() == nil || obj.Pkg() == self {
		return ""
	}
	if _, isPkgName := obj.(*types.PkgName); isPkgName {
		return ""
	}
	if obj.Parent() != obj.Pkg().Scope() {
		return "" // fields, methods, locals of other packages are not package-level
	}
	p := stripVendorRef(obj.Pkg().Path())
	if p == stripVendorRef(self.Path()) {
		return ""
	}
	return p
}

var c09Programs = []program{
	{Pkgs: []progPkg{
		{Path: "root/a", Files: []string{"package a\n\ntype Inner struct{ V int }\n\ntype Ptr struct{ P int }\n\ntype Outer struct {\n\tInner\n\t*Ptr\n\tF int\n}\n\nconst K = 1\n\nvar X = 2\n\nfunc Fn() int { return 1 }\n\ntype Num interface{ ~int }\n\nfunc Gen[T Num](t T) T { return t }\n\ntype T struct{ A int }\n\nfunc (T) M() int { return 0 }\n\ntype Pair[K comparable, V any] struct {\n\tKey K\n\tVal V\n}\n"}},
		{Path: "root/vendor/ext/v", ImportAs: "ext/v", Files: []string{"package v\n\nvar VV = 1\n\nfunc VF() int { return VV }\n\ntype VT struct{ N int }\n"}},
		{Path: "root/main", Files: []string{
			"package main\n\nimport (\n\t\"root/a\"\n\t\"ext/v\"\n)\n\nvar local = a.X + a.Fn() + a.K + v.VV + v.VF()\n\ntype mine struct {\n\ta.Inner\n\tt a.T\n}\n\nfunc use(t a.T, o *a.Outer) int {\n\tq := a.Outer{Inner: a.Inner{V: 1}, Ptr: &a.Ptr{P: 2}, F: 3}\n\t_ = q\n\tp := a.Pair[string, a.T]{Key: \"k\", Val: a.T{A: 1}}\n\t_ = p.Val.A\n\tw := v.VT{N: local}\n\tw.N++\nL:\n\tfor i := 0; i < 2; i++ {\n\t\tcontinue L\n\t}\n\treturn t.M() + t.A + o.F + o.Inner.V + o.P + a.Gen[int](3) + a.Gen(4)\n}\n\nfunc sh() int {\n\ta := a.T{A: 1}\n\treturn a.A + a.M()\n}\n\nfunc main() { _ = use(a.T{}, &a.Outer{}) + sh() + len(\"x\") }\n",
			"package main\n\nimport . \"root/a\"\n\nvar dotted = X + Fn() + K\n\nfunc dot(t T) int {\n\to := Outer{Inner: Inner{V: 1}, Ptr: &Ptr{}, F: 2}\n\tm := map[Inner]int{Inner{V: 1}: X}\n\t_ = m\n\treturn t.M() + o.V + Gen[int](1)\n}\n",
			"package main\n\nimport (\n\tpk \"root/a\"\n\tvv \"ext/v\"\n)\n\nvar aliased = pk.X + vv.VV\n\nfunc al(x pk.T) pk.Inner { return pk.Inner{V: x.A} }\n",
		}},
	}},
	// the package under test imports its own sub-package, a sibling whose path extends its own
	// path, and a package whose path is a prefix of its own: all three are remote
	{Pkgs: []progPkg{
		{Path: "example.com/app/util", Files: []string{"package util\n\nvar Opts = 1\n\nfunc Help() int { return Opts }\n\ntype Conf struct{ N int }\n"}},
		{Path: "example.com/apputil", Files: []string{"package apputil\n\nvar Extra = 2\n\ntype Kind int\n"}},
		{Path: "example.com", Files: []string{"package root\n\nvar Top = 3\n\nfunc TopF() int { return Top }\n"}},
		{Path: "example.com/app", Files: []string{
			"package app\n\nimport (\n\t\"example.com\"\n\t\"example.com/app/util\"\n\t\"example.com/apputil\"\n)\n\nvar local = util.Opts + util.Help() + apputil.Extra + root.Top + root.TopF()\n\nfunc use(c util.Conf, k apputil.Kind) int {\n\tq := util.Conf{N: int(k)}\n\treturn q.N + c.N + local\n}\n",
			"package app\n\nimport . \"example.com/app/util\"\n\nvar dotted = Opts + Help()\n\nfunc dot(c Conf) int { return c.N + Conf{N: 1}.N }\n",
			"package app\n\nimport (\n\tu \"example.com/app/util\"\n\tx \"example.com/apputil\"\n)\n\nvar aliased = u.Opts + x.Extra\n\nfunc al(c u.Conf) x.Kind { return x.Kind(c.N) }\n",
		}},
	}},
	// cgo files: the pseudo-import "C" in a declaration of its own, as the last, the first and a middle
	// spec of a parenthesised group, after the group, and alone; the specs around it are ordinary imports
	{Pkgs: []progPkg{
		{Path: "root/a", Files: []string{"package a\n\nvar A = 1\n\ntype T struct{ F int }\n\nfunc Fn() int { return A }\n"}},
		{Path: "root/b", Files: []string{"package b\n\nconst B = 2\n\ntype U struct{ G int }\n"}},
		{Path: "root/sub/c", Files: []string{"package c\n\nvar V = 3\n\nfunc W() int { return V }\n"}},
		{Path: "root/cgo", Files: []string{
			"package cgo\n\n// #include <stdlib.h>\nimport \"C\"\n\nimport (\n\t\"root/a\"\n\tbb \"root/b\"\n\t\"root/sub/c\"\n)\n\nvar own C.int\n\nvar v0 = a.A + bb.B + c.V + a.Fn()\n\nfunc f0(t a.T, u bb.U) int { return t.F + u.G + c.W() }\n",
			"package cgo\n\nimport (\n\t\"root/a\"\n\tbb \"root/b\"\n\t\"root/sub/c\"\n\n\t// #include <stdlib.h>\n\t\"C\"\n)\n\nvar last C.long\n\nvar v1 = a.A + bb.B + c.V\n\nfunc f1(t a.T, u bb.U) int { return t.F + u.G + c.W() }\n",
			"package cgo\n\nimport (\n\t// #include <stdlib.h>\n\t\"C\"\n\t\"root/a\"\n\tbb \"root/b\"\n\t\"root/sub/c\"\n)\n\nvar first C.size_t\n\nvar v2 = a.A + bb.B + c.V\n\nfunc f2(t a.T, u bb.U) int { return t.F + u.G + c.W() + int(C.abs(-1)) }\n",
			"package cgo\n\nimport (\n\t\"root/a\"\n\t// #include <math.h>\n\t\"C\"\n\tbb \"root/b\"\n\t_ \"root/sub/c\"\n)\n\nvar middle C.double\n\nvar v3 = a.A + bb.B\n\nfunc f3(a a.T) int { return a.F + bb.B }\n",
			"package cgo\n\nimport \"root/a\"\n\n// #include <stdlib.h>\nimport \"C\"\n\nimport bb \"root/b\"\n\nvar between C.char\n\nvar v4 = a.A + bb.B\n",
			"package cgo\n\n// #include <stdlib.h>\nimport \"C\"\n\nvar alone C.int\n\nvar v5 = len(\"x\")\n",
		}},
	}},
}

type c09Input struct {
	Prog    int      `json:"program"`
	Program *program `json:"generated_program,omitempty"` // a generated program is its own replay
	File    int      `json:"file"`
	Mode    string   `json:"mode"` // gotypes | goast | goast-refuse
	Src     string   `json:"src,omitempty"`
}

func c09Check(in c09Input) (key, what string) {
	if in.Mode == "goast-refuse" {
		fset := token.NewFileSet()
		af, err := parser.ParseFile(fset, "r.go", in.Src, parser.ParseComments)
		if err != nil {
			return "", ""
		}
		dec := decorator.NewDecoratorWithImports(fset, "root/main", goast.WithResolver(simple.New(map[string]string{"root/a": "a", "root/b/a": "a", "root/c": "c"})))
		var derr error
		pm := safely(func() { _, derr = dec.DecorateFile(af) })
		if pm != "" {
			return "c09-panic", "goast panicked instead of refusing: " + pm
		}
		if derr == nil {
			return "c09-goast-guessed", "goast decorated a file it cannot decide (dot-import or two imports under one name) instead of returning an error"
		}
		// asking again must refuse again
		pm = safely(func() { _, derr = decorator.NewDecoratorWithImports(fset, "root/main", dec.Resolver).DecorateFile(af) })
		if pm != "" || derr == nil {
			return "c09-goast-guessed", "asked a second time about the same undecidable file, goast answers instead of refusing"
		}
		return "", ""
	}
	var prog program
	if in.Program != nil {
		prog = *in.Program
	} else {
		prog = c09Programs[in.Prog]
	}
	if in.Mode == "goast-package" {
		return c09PackageMode(prog, in.File == 1)
	}
	c := typeCheck(prog)
	if c.err != nil {
		return "c09-program", "the generated program does not type-check: " + c.err.Error()
	}
	last := prog.Pkgs[len(prog.Pkgs)-1]
	info := c.info[last.Path]
	self := c.pkgs[last.Path]
	af := c.files[last.Path][in.File]
	var dec *decorator.Decorator
	if in.Mode == "gotypes" {
		dec = decorator.NewDecoratorWithImports(c.fset, last.Path, gotypes.New(info.Uses))
	} else {
		names := map[string]string{}
		for p, tp := range c.pkgs {
			names[p] = tp.Name()
		}
		dec = decorator.NewDecoratorWithImports(c.fset, last.Path, goast.WithResolver(simple.New(names)))
	}
	var derr error
	if pm := safely(func() { _, derr = dec.DecorateFile(af) }); pm != "" {
		return "c09-panic", "decoration panicked: " + pm
	}
	if derr != nil {
		if in.Mode == "goast" {
			// goast may refuse only what it cannot decide: a dot-import (the generator never writes
			// two imports under one name: go/types would reject the file)
			if !strings.Contains(derr.Error(), "dot-import") || !fileHasDotImport(af) {
				return "c09-goast-refused", "goast refused a file without dot-imports whose imports have distinct names: " + derr.Error()
			}
			return "", ""
		}
		return "c09-error", "decoration failed: " + derr.Error()
	}
	var bad string
	ast.Inspect(af, func(n ast.Node) bool {
		if bad != "" {
			return false
		}
		switch n := n.(type) {
		case *ast.ImportSpec:
			return false
		case *ast.SelectorExpr:
			x, isIdent := n.X.(*ast.Ident)
			pn, isPkg := info.Uses[x].(*types.PkgName)
			if isIdent && isPkg && pn.Imported().Path() == "C" {
				// a selector through the cgo pseudo-package: go/types has no object for it (no
				// expectation can be computed); the identifiers around it are judged as usual
				return false
			}
			dn := dec.Dst.Nodes[n]
			if isIdent && isPkg {
				want := expectedPath(info, self, n.Sel)
				id, ok := dn.(*dst.Ident)
				if !ok {
					bad = fmt.Sprintf("qualified identifier %s.%s was not collapsed to an identifier with a path", x.Name, n.Sel.Name)
				} else if id.Path != want || id.Name != n.Sel.Name {
					bad = fmt.Sprintf("%s.%s: path %q, expected %q", x.Name, n.Sel.Name, id.Path, want)
				}
				return false
			}
			if _, ok := dn.(*dst.SelectorExpr); !ok {
				bad = fmt.Sprintf("selector %s (X is not a package) was turned into %T", n.Sel.Name, dn)
			}
			// the Sel of a field / method selector must carry no path
			if id, ok := dec.Dst.Nodes[n.Sel].(*dst.Ident); ok && id.Path != "" {
				bad = fmt.Sprintf("field or method selector .%s got path %q", n.Sel.Name, id.Path)
			}
			ast.Inspect(n.X, func(m ast.Node) bool { return true })
			return true
		case *ast.Ident:
			id, ok := dec.Dst.Nodes[n].(*dst.Ident)
			if !ok {
				return true
			}
			if se, ok := dec.Ast.Nodes[id].(*ast.SelectorExpr); ok && se.Sel != n && se.X != ast.Expr(n) {
				return true
			}
			if _, collapsed := dec.Ast.Nodes[id].(*ast.SelectorExpr); collapsed {
				return true // checked at the selector
			}
			want := expectedPath(info, self, n)
			if in.Mode == "goast" {
				want = "" // the syntax-only resolver resolves qualified identifiers only (no dot-imports in these files)
			}
			if id.Path != want {
				bad = fmt.Sprintf("identifier %s: path %q, expected %q", n.Name, id.Path, want)
			}
		}
		return true
	})
	if bad != "" {
		return "c09-path", fmt.Sprintf("%s resolver, file %d: %s", in.Mode, in.File, bad)
	}
	return "", ""
}

// c09PackageMode: the files of a package decorated as ONE node (DecorateNode on *ast.Package, what
// ParseDir does) with the syntax-only resolver: every identifier must get the path it gets when its
// file is decorated alone -- each file has its own import table (the same name can stand for
// different packages in different files), also when a //line directive in one file names another
func c09PackageMode(prog program, lineDirective bool) (key, what string) {
	last := prog.Pkgs[len(prog.Pkgs)-1]
	names := map[string]string{}
	chk := typeCheck(prog)
	if chk.err != nil {
		return "", ""
	}
	for p, tp := range chk.pkgs {
		names[p] = tp.Name()
	}
	var srcs []string
	for _, src := range last.Files {
		if !strings.Contains(src, "\t. \"") && !strings.Contains(src, "import . ") {
			srcs = append(srcs, src)
		}
	}
	if len(srcs) < 2 {
		return "", ""
	}
	fname := func(i int) string { return fmt.Sprintf("/pkgdir/f%d.go", i) }
	if lineDirective {
		// after the import declaration of the first file: the rest of it claims to be the second file
		if i := strings.Index(srcs[0], ")\n"); i >= 0 {
			srcs[0] = srcs[0][:i+2] + "\n//line " + fname(1) + ":100\n" + srcs[0][i+2:]
		} else {
			return "", ""
		}
	}
	solo := func(src string) ([]string, error) {
		fset := token.NewFileSet()
		af, err := parser.ParseFile(fset, "solo.go", src, parser.ParseComments)
		if err != nil {
			return nil, err
		}
		dec := decorator.NewDecoratorWithImports(fset, last.Path, goast.WithResolver(simple.New(names)))
		df, err := dec.DecorateFile(af)
		if err != nil {
			return nil, err
		}
		return identPaths(df), nil
	}
	fset := token.NewFileSet()
	pkg := &ast.Package{Name: "main", Files: map[string]*ast.File{}}
	for i, src := range srcs {
		af, err := parser.ParseFile(fset, fname(i), src, parser.ParseComments)
		if err != nil {
			return "", ""
		}
		pkg.Files[fname(i)] = af
	}
	dec := decorator.NewDecoratorWithImports(fset, last.Path, goast.WithResolver(simple.New(names)))
	var dn dst.Node
	var derr error
	if pm := safely(func() { dn, derr = dec.DecorateNode(pkg) }); pm != "" {
		return "c09-panic", "decorating the package panicked: " + pm
	}
	if derr != nil {
		return "c09-error", "decorating the package failed: " + derr.Error()
	}
	dp := dn.(*dst.Package)
	for i, src := range srcs {
		want, err := solo(src)
		if err != nil {
			return "", ""
		}
		got := identPaths(dp.Files[fname(i)])
		if strings.Join(got, " ") != strings.Join(want, " ") {
			for k := range got {
				if k < len(want) && got[k] != want[k] {
					return "c09-package-mode", fmt.Sprintf("file %d of the package: identifier %s when the package is decorated as a whole, %s when the file is decorated alone", i, got[k], want[k])
				}
			}
			return "c09-package-mode", fmt.Sprintf("file %d: %d identifiers in package mode, %d alone", i, len(got), len(want))
		}
	}
	return "", ""
}

func fileHasDotImport(f *ast.File) bool {
	for _, is := range f.Imports {
		if is.Name != nil && is.Name.Name == "." {
			return true
		}
	}
	return false
}

func c09Prop(c *Ctx) {
	c.Res.Rule = "a type-correct three-package program (remote package with embedded fields, generics, methods; a vendored package; the package under test with a qualified-import file using shadowing, composite-literal keys incl. embedded fields, labels, generic instantiation; a dot-import file; an aliased-import file), type-checked in memory: every identifier's path vs the types.Info-derived expectation (gotypes), goast on the files it can decide, goast's refusals (asked twice); non-trivial = distinct (file, mode)"
	for pi, p := range c09Programs {
		last := p.Pkgs[len(p.Pkgs)-1]
		for fi, src := range last.Files {
			modes := []string{"gotypes"}
			if !strings.Contains(src, "import . ") {
				modes = append(modes, "goast")
			}
			for _, m := range modes {
				in := c09Input{Prog: pi, File: fi, Mode: m}
				c.Res.Evaluations++
				c.Res.seen(fmt.Sprint(pi, fi, m))
				c.Res.hist("c09", m)
				if key, what := c09Check(in); key != "" {
					c.Res.fail(key, what, in)
				}
			}
		}
	}
	// generated programs: every file under gotypes; under goast the files without dot-imports must be
	// decided (and agree), the others refused
	shapeSeen := map[string]int{}
	for gi := 0; gi < c.N(40); gi++ {
		g := genProgram(c.Rng)
		last := g.Prog.Pkgs[len(g.Prog.Pkgs)-1]
		for fi := range last.Files {
			for _, sh := range g.Shapes[fi] {
				shapeSeen[sh]++
			}
			for _, gi := range g.Imports[fi] {
				c.Res.hist("c09-import-style", gi.Style)
			}
			for _, m := range []string{"gotypes", "goast"} {
				pp := g.Prog
				in := c09Input{Program: &pp, File: fi, Mode: m}
				c.Res.Evaluations++
				c.Res.seen(last.Files[fi] + m)
				c.Res.hist("c09", m+"-generated")
				if key, what := c09Check(in); key != "" {
					c.Res.fail(key, what, in)
				}
			}
		}
	}
	// the files of generated packages decorated as one node; with and without a //line directive that names a sibling
	for gi := 0; gi < c.N(16); gi++ {
		g := genProgram(c.Rng)
		for _, ld := range []bool{false, true} {
			pp := g.Prog
			in := c09Input{Program: &pp, Mode: "goast-package", File: map[bool]int{false: 0, true: 1}[ld]}
			c.Res.Evaluations++
			c.Res.hist("c09", fmt.Sprintf("goast-package line-directive=%v", ld))
			if key, what := c09Check(in); key != "" {
				c.Res.fail(key, what, in)
			}
		}
	}
	for k, v := range shapeSeen {
		for i := 0; i < v; i++ {
			c.Res.hist("c09-use-shapes", k)
		}
	}
	// cgo variants of generated files: "C" in a declaration of its own, first / in the middle / last in the
	// parenthesised group, alone; every identifier is judged as in the file without it
	for gi := 0; gi < c.N(24); gi++ {
		g := genProgram(c.Rng)
		li := len(g.Prog.Pkgs) - 1
		last := g.Prog.Pkgs[li]
		fi := c.Rng.Intn(len(last.Files))
		src, layout := cgoVariant(last.Files[fi], cgoLayouts[gi%len(cgoLayouts)], gi)
		if layout == "" {
			continue
		}
		pp := program{Pkgs: append([]progPkg{}, g.Prog.Pkgs...)}
		npk := progPkg{Path: last.Path, ImportAs: last.ImportAs, Files: append([]string{}, last.Files...)}
		npk.Files[fi] = src
		pp.Pkgs[li] = npk
		c.Res.hist("c09-cgo-layout", layout)
		for _, m := range []string{"gotypes", "goast"} {
			in := c09Input{Program: &pp, File: fi, Mode: m}
			c.Res.Evaluations++
			c.Res.seen(src + m)
			c.Res.hist("c09", m+"-generated-cgo")
			if key, what := c09Check(in); key != "" {
				c.Res.fail(key, what, in)
			}
		}
	}
	refuse := []string{
		"package main\n\nimport . \"root/a\"\n\nvar x = X\n",
		"package main\n\nimport (\n\t\"root/a\"\n\t\"root/b/a\"\n)\n\nvar x = a.X\n",
		"package main\n\nimport (\n\t\"root/c\"\n\tc \"root/a\"\n)\n\nvar x = c.X\n",
		"package main\n\nimport (\n\t\"root/a\"\n\t. \"root/c\"\n)\n\nvar x = a.X\n",
		// the undecidable spec follows the cgo pseudo-import in the same group
		"package main\n\nimport (\n\t// #include <stdlib.h>\n\t\"C\"\n\t. \"root/a\"\n)\n\nvar x = X\n",
		"package main\n\nimport (\n\t\"root/a\"\n\t\"C\"\n\t\"root/b/a\"\n)\n\nvar x = a.X\n",
		"package main\n\nimport \"C\"\n\nimport (\n\t\"root/c\"\n\tc \"root/a\"\n)\n\nvar x = c.X\n",
	}
	for _, src := range refuse {
		in := c09Input{Mode: "goast-refuse", Src: src}
		c.Res.Evaluations++
		c.Res.seen(src)
		c.Res.hist("c09", "goast-refuse")
		if key, what := c09Check(in); key != "" {
			c.Res.fail(key, what, in)
		}
	}
	c.Res.Samples = append(c.Res.Samples, map[string]interface{}{"program": 0, "file": 0, "mode": "gotypes", "src": clip(c09Programs[0].Pkgs[2].Files[0], 300)})
}

func init() {
	props["C09"] = c09Prop
	replays["C09"] = func(c *Ctx, raw json.RawMessage) (bool, string) {
		var in c09Input
		if err := json.Unmarshal(raw, &in); err != nil || in.Mode == "" {
			return false, "not a C09 generated input"
		}
		key, what := c09Check(in)
		return key != "", what
	}
}
