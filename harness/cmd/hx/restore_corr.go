package main

import (
	"fmt"
	"go/ast"
	"go/token"
	"math/rand"
	"reflect"
	"sort"
	"strings"

	"github.com/dave/dst"
	"github.com/dave/dst/decorator"
	"github.com/dave/dst/decorator/resolver/guess"
)

// Correspondence for the restorer model (Model/Restore.v + Gen/RestTbl.v) against the real
// restorer: lines, file size, comment groups (incl. Comment-field routing), every
// position field of every restored node, and the SetLines / duplicate-node panics.

var posType = reflect.TypeOf(token.Pos(0))

// randomDecorate scatters decorations and spacing over the tree (G2).
func randomDecorate(r *rand.Rand, f *dst.File, density int) {
	randomDecorateWith(r, f, density, []string{"// c", "/* b */", "\n", "/* multi\nline */", "// longer line comment", "/*x*/", "\n", "//", "other"})
}

func randomDecorateWith(r *rand.Rand, f *dst.File, density int, decs []string) {
	dst.Inspect(f, func(n dst.Node) bool {
		if n == nil {
			return true
		}
		if _, ok := n.(*dst.Package); ok {
			return true
		}
		if r.Intn(density) == 0 {
			n.Decorations().Before = dst.SpaceType(r.Intn(3))
		}
		if r.Intn(density) == 0 {
			n.Decorations().After = dst.SpaceType(r.Intn(3))
		}
		dv := reflect.ValueOf(n).Elem().FieldByName("Decs")
		var pts []reflect.Value
		var collect func(v reflect.Value)
		collect = func(v reflect.Value) {
			for i := 0; i < v.NumField(); i++ {
				fv := v.Field(i)
				if fv.Type() == decsType {
					pts = append(pts, fv)
				} else if fv.Kind() == reflect.Struct {
					collect(fv)
				}
			}
		}
		collect(dv)
		for _, p := range pts {
			if r.Intn(density) == 0 {
				k := 1 + r.Intn(3)
				var ds dst.Decorations
				for i := 0; i < k; i++ {
					ds = append(ds, decs[r.Intn(len(decs))])
				}
				if r.Intn(2) == 0 {
					ds = append(p.Interface().(dst.Decorations), ds...)
				}
				p.Set(reflect.ValueOf(ds))
			}
		}
		return true
	})
}

type restoreObs struct {
	panicked bool
	panicMsg string
	base     int
	lines    []int
	size     int
	comments string
	pos      string
	nvalid   int
}

func zl(xs []int) string {
	if len(xs) == 0 {
		return "[]"
	}
	var p []string
	for _, x := range xs {
		p = append(p, fmt.Sprint(x))
	}
	return "[" + strings.Join(p, "; ") + "]%Z"
}

// observeRestore runs the real restorer on f and dumps what the model predicts.
func observeRestore(d *treeDumper, f *dst.File, r *decorator.Restorer) (o restoreObs) {
	var af *ast.File
	func() {
		defer func() {
			if rec := recover(); rec != nil {
				o.panicked = true
				o.panicMsg = fmt.Sprint(rec)
			}
		}()
		var err error
		af, err = r.RestoreFile(f)
		if err != nil {
			o.panicked = true
			o.panicMsg = "error: " + err.Error()
		}
	}()
	if o.panicked {
		return
	}
	tf := r.Fset.File(af.Package)
	o.base = tf.Base()
	o.size = tf.Size()
	o.lines = tf.Lines()
	// comment groups: owner = node whose Comment field holds the group
	owner := map[*ast.CommentGroup]int{}
	for dn, an := range r.Ast.Nodes {
		id, ok := d.ids[dn]
		if !ok {
			continue
		}
		switch an := an.(type) {
		case *ast.Field:
			if an.Comment != nil {
				owner[an.Comment] = id
			}
		case *ast.ValueSpec:
			if an.Comment != nil {
				owner[an.Comment] = id
			}
		case *ast.TypeSpec:
			if an.Comment != nil {
				owner[an.Comment] = id
			}
		case *ast.ImportSpec:
			if an.Comment != nil {
				owner[an.Comment] = id
			}
		}
	}
	var gs []string
	for _, cg := range af.Comments {
		var cs []string
		for _, c := range cg.List {
			cs = append(cs, fmt.Sprintf("(%d, %d, %d%%N)", int(c.Slash), len(c.Text), d.strID(c.Text)))
		}
		gs = append(gs, fmt.Sprintf("(%d%%N, [%s]%%Z)", owner[cg], strings.Join(cs, "; ")))
	}
	o.comments = "[" + strings.Join(gs, "; ") + "]"
	// positions by node id
	skip := map[dst.Node]bool{}
	for _, n := range d.nodes {
		if fd, ok := n.(*dst.FuncDecl); ok && fd.Type != nil {
			skip[fd.Type] = true
		}
	}
	var per []string
	for _, n := range d.nodes {
		var es []string
		an := r.Ast.Nodes[n]
		add := func(path []string, p token.Pos) {
			var qs []string
			for _, s := range path {
				qs = append(qs, fmt.Sprintf("%q", s))
			}
			es = append(es, fmt.Sprintf("([%s], %d%%Z)", strings.Join(qs, "; "), int(p)))
			if p != 0 {
				o.nvalid++
			}
		}
		if an != nil && !skip[n] {
			av := reflect.ValueOf(an).Elem()
			at := av.Type()
			for i := 0; i < at.NumField(); i++ {
				if at.Field(i).Type == posType {
					add([]string{at.Field(i).Name}, token.Pos(av.Field(i).Int()))
				}
			}
			switch an := an.(type) {
			case *ast.FuncDecl:
				if an.Type != nil {
					add([]string{"Type", "Func"}, an.Type.Func)
				}
			case *ast.SelectorExpr:
				if _, isIdent := n.(*dst.Ident); isIdent {
					if x, ok := an.X.(*ast.Ident); ok {
						add([]string{"X", "NamePos"}, x.NamePos)
					}
					if an.Sel != nil {
						add([]string{"Sel", "NamePos"}, an.Sel.NamePos)
					}
				}
			}
		}
		per = append(per, "["+strings.Join(es, "; ")+"]")
	}
	o.pos = "[" + strings.Join(per, ";\n   ") + "]"
	return
}

func rcaseTerm(term string, base int, managed bool, pkg string, o restoreObs) string {
	if o.panicked {
		return fmt.Sprintf("mkRC (%s) %d %v %s true [] 0 [] []", term, base, managed, pkg)
	}
	return fmt.Sprintf("mkRC (%s)\n  %d %v %s false %s %d\n  %s\n  %s", term, o.base, managed, pkg, zl(o.lines), o.size, o.comments, o.pos)
}

func restoreCorr(c *Ctx) {
	var cases []string
	nPanics := 0
	add := func(src string, decorate int, variant string) {
		f, err := decorator.Parse(src)
		if err != nil {
			return
		}
		if decorate > 0 {
			randomDecorate(c.Rng, f, decorate)
		}
		switch variant {
		case "dup":
			// share one node at two places: the restorer must panic
			if len(f.Decls) >= 2 {
				f.Decls = append(f.Decls, f.Decls[len(f.Decls)-1])
			}
		case "startnl":
			f.Decs.Start.Prepend("\n")
		}
		d := newTreeDumper()
		term := d.Dump(f)
		r := decorator.NewRestorer()
		// sometimes restore into a FileSet that already holds another file (base > 1)
		if c.Rng.Intn(3) == 0 {
			r.Fset.AddFile("other.go", -1, 10+c.Rng.Intn(500))
		}
		base := r.Fset.Base()
		o := observeRestore(d, f, r)
		if o.panicked {
			nPanics++
		}
		cases = append(cases, rcaseTerm(term, base, false, "[]", o))
		c.Res.CaseInputs = appendCase(c.Res.CaseInputs, "mismatch_restore", map[string]interface{}{"src": src, "decorate": decorate, "variant": variant})
		c.Res.Traces++
	}
	srcs := corrSources(c, c.N(3), 1500)
	for i, s := range srcs {
		add(s, 0, "")
		add(s, 6, "")
		add(s, 2, "")
		if i%4 == 0 {
			add(s, 0, "dup")
		}
		if i%5 == 0 {
			add(s, 0, "startnl")
		}
	}
	// import-managed restoration: identifiers with a path expand to selectors
	mcases := managedCases(c)
	cases = append(cases, mcases...)
	c.Res.hist("restore-correspondence", "cases")
	c.Res.Notes = append(c.Res.Notes, fmt.Sprintf("restore correspondence: %d cases (%d with a panic on the real code, %d import-managed)", len(cases), nPanics, len(mcases)))
	c.caseSB.WriteString(coqCaseHeader + "From DV Require Import Model.Restore Model.RestoreCases Gen.RestTbl.\n")
	c.caseSB.WriteString("Definition rcases : list rcase := [\n" + strings.Join(cases, ";\n") + "].\n")
	c.caseSB.WriteString("Definition mismatch_restore := Eval vm_compute in bad_rcases rest_tbl rcases.\nPrint mismatch_restore.\n")
}

// managedCases: files whose qualified identifiers were collapsed by the goast resolver are
// restored with import management; the model gets the chosen package names as an oracle
// (path uid -> name length), read off the restored ast.
func managedCases(c *Ctx) []string {
	srcs := []string{
		"package main\n\nimport (\n\t\"fmt\"\n\tx \"os\"\n)\n\nfunc f() {\n\tfmt.Println(x.Args) // t\n\tfmt. /*a*/ Print /*b*/ (1)\n}\n",
		"package main\n\nimport \"strings\"\n\nvar a = strings.Repeat(\"a\", 2)\n\n// doc\nvar b strings.Builder // trailing\n",
		"package main\n\nimport (\n\t\"io\"\n\t\"os\"\n)\n\nvar errs = []error{io.EOF, io.ErrClosedPipe, os.ErrExist}\n\nfunc g(a io.Reader, b io.Writer, c os.Signal) {\n\th(io.EOF, os.Args, io.Discard)\n}\n",
	}
	srcs = append(srcs, srcs...) // each twice: different random spacing
	var out []string
	for _, src := range srcs {
		dec := decorator.NewDecoratorWithImports(token.NewFileSet(), "main", nil)
		dec.Resolver = goastNew()
		f, err := dec.Parse(src)
		if err != nil {
			continue
		}
		randomDecorateIdents(c.Rng, f)
		d := newTreeDumper()
		term := d.Dump(f)
		r := decorator.NewRestorerWithImports("main", guess.New())
		base := r.Fset.Base()
		o := observeRestore(d, f, r)
		// oracle: path uid -> len(name) from the restored selectors
		pk := map[int]int{}
		for dn, an := range r.Ast.Nodes {
			if id, ok := dn.(*dst.Ident); ok && id.Path != "" {
				if se, ok := an.(*ast.SelectorExpr); ok {
					if x, ok := se.X.(*ast.Ident); ok {
						pk[d.strID(id.Path)] = len(x.Name)
					}
				}
			}
		}
		var keys []int
		for k := range pk {
			keys = append(keys, k)
		}
		sort.Ints(keys)
		var ps []string
		for _, k := range keys {
			ps = append(ps, fmt.Sprintf("(%d%%N, %d%%Z)", k, pk[k]))
		}
		// updateImports may have edited the import block (it does not here: imports are exact),
		// so the dumped tree is what restoreNode saw.
		out = append(out, rcaseTerm(term, base, true, "["+strings.Join(ps, "; ")+"]", o))
		c.Res.CaseInputs = appendCase(c.Res.CaseInputs, "mismatch_restore", map[string]interface{}{"src": src, "managed": true})
		c.Res.Traces++
	}
	return out
}

func randomDecorateIdents(r *rand.Rand, f *dst.File) {
	dst.Inspect(f, func(n dst.Node) bool {
		if id, ok := n.(*dst.Ident); ok && id.Path != "" && r.Intn(2) == 0 {
			id.Decs.Before = dst.SpaceType(r.Intn(3))
			id.Decs.After = dst.SpaceType(r.Intn(3))
			id.Decs.X.Append("/*x*/")
			if r.Intn(2) == 0 {
				id.Decs.Start.Append("/*s*/")
			}
		}
		return true
	})
}

func init() {
	corrs["C04"] = restoreCorr
	corrs["C05"] = restoreCorr
	corrs["C12"] = restoreCorr
}
