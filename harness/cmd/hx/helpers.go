package main

import (
	"github.com/dave/dst/decorator/resolver"
	"github.com/dave/dst/decorator/resolver/goast"
	"github.com/dave/dst/decorator/resolver/guess"
)

func goastNew() resolver.DecoratorResolver { return goast.New() }

func guessNew() resolver.RestorerResolver { return guess.New() }
