package main

import (
	"github.com/dave/dst/decorator/resolver"
	"github.com/dave/dst/decorator/resolver/goast"
)

func goastNew() resolver.DecoratorResolver { return goast.New() }
