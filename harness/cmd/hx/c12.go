package main

import (
	"bytes"
	"encoding/json"
	"fmt"
	"go/ast"
	"go/parser"
	"go/printer"
	"go/token"
	"math/rand"
	"reflect"
	"sort"
	"strings"

	"github.com/dave/dst"
	"github.com/dave/dst/decorator"
)

// C12 oracle on the implementation: trees from parsing + random decoration (+ light edits)
// restored one after another into ONE FileSet.  Every position of every restored node and
// comment lies inside the file registered for it, files do not overlap, line tables are
// strictly increasing, comment lists are sorted, and the order of identifiers, literals and
// comments by position equals that of a fresh parse of the printed text.

type c12Input struct {
	Srcs []string `json:"srcs"`
	Seed int64    `json:"seed"`
	Dens int      `json:"density"`
	// Lines: line comments are among the random decorations.  go/printer moves a line comment
	// that sits in the middle of a line to the end of that line, so the comparison with a
	// fresh parse of the printed text is made for block comments and newlines only.
	Lines bool `json:"line_comments"`
	// Reuse: all files of the group go through one Restorer and one FileRestorer
	Reuse bool `json:"reuse_file_restorer"`
	// NonASCII: the random decorations are comments with multi-byte UTF-8 text (positions are byte
	// offsets: a comment of n runes and m > n bytes occupies m positions)
	NonASCII bool `json:"non_ascii_decorations,omitempty"`
	// Edit: function declarations that only a tree edit produces are appended to every file after decorating:
	// "stubs" = for every method of every interface type of the file a method declaration whose Type is a
	// clone (dst.Clone) of the interface method's FuncType (as parsed: Type.Func == false), with a receiver, an
	// empty body and a doc comment in Decs.Start; "hand" = declarations built by hand, FuncType literals without
	// Func (with / without receiver, parameters, results) and one with Func: true, each with a doc comment.
	Edit string `json:"edit,omitempty"`
}

// c12ApplyEdit: see c12Input.Edit
func c12ApplyEdit(f *dst.File, mode string) {
	doc := func(fd *dst.FuncDecl, text string) *dst.FuncDecl {
		fd.Decs.Before = dst.EmptyLine
		fd.Decs.After = dst.NewLine
		fd.Decs.Start.Append(text)
		return fd
	}
	switch mode {
	case "stubs":
		var add []dst.Decl
		dst.Inspect(f, func(n dst.Node) bool {
			ts, ok := n.(*dst.TypeSpec)
			if !ok {
				return true
			}
			it, ok := ts.Type.(*dst.InterfaceType)
			if !ok || it.Methods == nil {
				return true
			}
			for _, m := range it.Methods.List {
				ft, ok := m.Type.(*dst.FuncType)
				if !ok || len(m.Names) != 1 {
					continue
				}
				fd := &dst.FuncDecl{
					Recv: &dst.FieldList{Opening: true, Closing: true, List: []*dst.Field{{Names: []*dst.Ident{dst.NewIdent("stub")}, Type: &dst.StarExpr{X: dst.NewIdent("Stub" + ts.Name.Name)}}}},
					Name: dst.NewIdent(m.Names[0].Name),
					Type: dst.Clone(ft).(*dst.FuncType),
					Body: &dst.BlockStmt{},
				}
				add = append(add, doc(fd, "// "+m.Names[0].Name+" implements "+ts.Name.Name+"."))
			}
			return true
		})
		f.Decls = append(f.Decls, add...)
	case "hand":
		intT := func() dst.Expr { return dst.NewIdent("int") }
		f.Decls = append(f.Decls,
			doc(&dst.FuncDecl{Name: dst.NewIdent("HandA"), Type: &dst.FuncType{Params: &dst.FieldList{Opening: true, Closing: true}}, Body: &dst.BlockStmt{}}, "// HandA: no Func flag, no parameters."),
			doc(&dst.FuncDecl{Name: dst.NewIdent("HandB"), Type: &dst.FuncType{
				Params:  &dst.FieldList{Opening: true, Closing: true, List: []*dst.Field{{Names: []*dst.Ident{dst.NewIdent("x"), dst.NewIdent("y")}, Type: intT()}}},
				Results: &dst.FieldList{List: []*dst.Field{{Type: intT()}}},
			}, Body: &dst.BlockStmt{List: []dst.Stmt{&dst.ReturnStmt{Results: []dst.Expr{dst.NewIdent("x")}}}}}, "/* HandB: no Func flag */"),
			doc(&dst.FuncDecl{
				Recv: &dst.FieldList{Opening: true, Closing: true, List: []*dst.Field{{Names: []*dst.Ident{dst.NewIdent("r")}, Type: dst.NewIdent("HandR")}}},
				Name: dst.NewIdent("HandC"), Type: &dst.FuncType{Params: &dst.FieldList{Opening: true, Closing: true}, Results: &dst.FieldList{Opening: true, Closing: true, List: []*dst.Field{{Names: []*dst.Ident{dst.NewIdent("err")}, Type: dst.NewIdent("error")}}}},
				Body: &dst.BlockStmt{List: []dst.Stmt{&dst.ReturnStmt{}}}}, "// HandC: a method, no Func flag."),
			doc(&dst.FuncDecl{Name: dst.NewIdent("HandD"), Type: &dst.FuncType{Func: true, Params: &dst.FieldList{Opening: true, Closing: true}}, Body: &dst.BlockStmt{}}, "// HandD: with the Func flag."),
			doc(&dst.FuncDecl{Name: dst.NewIdent("handE"), Type: &dst.FuncType{Params: &dst.FieldList{Opening: true, Closing: true}}}, "// handE: a declaration without a body."),
		)
	}
}

// nodeStarts: the start (Pos()) of every node, comment nodes aside, in traversal order
func nodeStarts(f *ast.File) []posItem {
	var out []posItem
	ast.Inspect(f, func(n ast.Node) bool {
		switch n.(type) {
		case nil:
			return false
		case *ast.CommentGroup, *ast.Comment:
			return false
		}
		out = append(out, posItem{fmt.Sprintf("%T.Pos()", n), n.Pos()})
		return true
	})
	return out
}

// unsetToken: a position field that a fresh parse of the printed text has (the token is in the text)
// is set in the restored ast too (File.FileStart / FileEnd are not tokens; fields of comment nodes are
// not in the lists).  Two fields are never set by the restorer, on any tree: RangeStmt.Range (the field is
// newer than the library) and ChanType.Arrow of a receive-only channel (the generated case sets it for
// chan<- only; go/parser sets Arrow == Begin for <-chan).  They are the recorded finding
// token-position-never-assigned: reported under that key, and only when nothing else is wrong with the file
// (neverSet = true selects them, false everything else).
var c12NeverSet = map[string]bool{"*ast.RangeStmt.Range": true, "*ast.ChanType.Arrow": true}

func unsetToken(restored, fresh []posItem, neverSet bool) string {
	if len(restored) != len(fresh) {
		return ""
	}
	for i := range restored {
		if restored[i].key != fresh[i].key {
			return ""
		}
	}
	for i := range restored {
		if strings.HasPrefix(restored[i].key, "*ast.File.File") || c12NeverSet[restored[i].key] != neverSet {
			continue
		}
		if fresh[i].p.IsValid() && !restored[i].p.IsValid() {
			return fmt.Sprintf("%s (field #%d) is token.NoPos in the restored ast; the printed text has the token (a fresh parse has position %d there)", restored[i].key, i, fresh[i].p)
		}
	}
	return ""
}

// startBeforeParts: go/ast's own notion of where a node starts: Pos() of a node is not after Pos() of
// any of its (non-comment) children
func startBeforeParts(f *ast.File) string {
	var stack []ast.Node
	var bad string
	ast.Inspect(f, func(n ast.Node) bool {
		if n == nil {
			stack = stack[:len(stack)-1]
			return false
		}
		switch n.(type) {
		case *ast.CommentGroup, *ast.Comment:
			stack = append(stack, n)
			return true
		}
		if len(stack) > 0 && bad == "" {
			p := stack[len(stack)-1]
			if p.Pos().IsValid() && n.Pos().IsValid() && n.Pos() < p.Pos() {
				bad = fmt.Sprintf("%T.Pos() = %d lies after the start %d of its part %T", p, p.Pos(), n.Pos(), n)
			}
		}
		stack = append(stack, n)
		return true
	})
	return bad
}

// the decoration pools of c12Check
var (
	c12PoolBlocks         = []string{"/* b */", "\n", "/*x*/", "\n", "/**/", "/* c */"}
	c12PoolBlocksNonASCII = []string{"/* б */", "\n", "/*é*/", "\n", "/**/", "/* 注释 */", "/* ééé */"}
	c12PoolLinesNonASCII  = []string{"// ç", "/* б */", "\n", "/* много\nстрочный */", "// дольше комментарий", "/*é*/", "\n", "//", "/* 多行\n注释\n*/", "// 日本語のコメント"}
)

func orderedItems(f *ast.File) []string {
	type it struct {
		p token.Pos
		s string
	}
	var items []it
	ast.Inspect(f, func(n ast.Node) bool {
		switch n := n.(type) {
		case *ast.Ident:
			items = append(items, it{n.NamePos, "id:" + n.Name})
		case *ast.BasicLit:
			items = append(items, it{n.ValuePos, "lit:" + n.Value})
		case *ast.CommentGroup:
			return false
		}
		return true
	})
	for _, cg := range f.Comments {
		for _, c := range cg.List {
			if strings.Contains(c.Text, "\n") {
				// go/printer defers a comment that contains a line break past the next token when
				// printing it first would introduce an implicit semicolon (commentBefore): its
				// place in the printed text is not the restorer's doing
				continue
			}
			items = append(items, it{c.Slash, "c:" + strings.Join(strings.Fields(c.Text), "")})
		}
	}
	sort.SliceStable(items, func(a, b int) bool { return items[a].p < items[b].p })
	var out []string
	for _, i := range items {
		out = append(out, i.s)
	}
	return out
}

// every token.Pos field of every node (comment nodes aside), in traversal order
type posItem struct {
	key string
	p   token.Pos
}

func posItems(f *ast.File) []posItem {
	var out []posItem
	ast.Inspect(f, func(n ast.Node) bool {
		switch n.(type) {
		case nil:
			return false
		case *ast.CommentGroup, *ast.Comment:
			return false
		}
		v := reflect.ValueOf(n).Elem()
		for i := 0; i < v.NumField(); i++ {
			if v.Field(i).Type() == posType {
				out = append(out, posItem{fmt.Sprintf("%T.%s", n, v.Type().Field(i).Name), token.Pos(v.Field(i).Int())})
			}
		}
		return true
	})
	return out
}

// withComments: the one-line comments whose text is unique in the file join the position fields
// (sorted by text, so that the two lists stay aligned): a token position field must not change
// sides with a comment either
func withComments(items []posItem, f *ast.File) []posItem {
	cnt := map[string]int{}
	pos := map[string]token.Pos{}
	end := map[string]token.Pos{}
	for _, cg := range f.Comments {
		for _, c := range cg.List {
			if strings.Contains(c.Text, "\n") {
				continue
			}
			t := strings.Join(strings.Fields(c.Text), "")
			cnt[t]++
			pos[t] = c.Slash
			end[t] = c.End()
		}
	}
	var ts []string
	for t, n := range cnt {
		if n == 1 {
			ts = append(ts, t)
		}
	}
	sort.Strings(ts)
	for _, t := range ts {
		items = append(items, posItem{"comment:" + t, pos[t]})
	}
	// ... and so do the ends of these comments: what follows a comment in the printed text starts
	// at or after the comment's End() (Slash + len(Text), in bytes)
	for _, t := range ts {
		items = append(items, posItem{"comment-end:" + t, end[t]})
	}
	return items
}

// commentCoherence: two facts of every parsed file, demanded of a restored one. (1) No position
// field of a node lies strictly inside a comment (Slash < p < End()): tokens and comments do not
// overlap. (2) The line table has exactly one entry strictly inside a comment for every line break
// in its text (none inside a one-line comment: a line does not start in the middle of it).
func commentCoherence(f *ast.File, tf *token.File) string {
	var cs []*ast.Comment
	for _, cg := range f.Comments {
		cs = append(cs, cg.List...)
	}
	if len(cs) == 0 {
		return ""
	}
	sort.SliceStable(cs, func(a, b int) bool { return cs[a].Slash < cs[b].Slash })
	// the comment with the largest Slash < p
	inside := func(p token.Pos) *ast.Comment {
		i := sort.Search(len(cs), func(i int) bool { return cs[i].Slash >= p })
		if i > 0 && p < cs[i-1].End() {
			return cs[i-1]
		}
		return nil
	}
	for _, it := range posItems(f) {
		if !it.p.IsValid() {
			continue
		}
		if cm := inside(it.p); cm != nil {
			return fmt.Sprintf("%s = %d lies inside the comment %q at %d..%d", it.key, it.p, clip(cm.Text, 40), cm.Slash, cm.End())
		}
	}
	within := map[*ast.Comment]int{}
	for _, off := range tf.Lines() {
		if cm := inside(token.Pos(tf.Base() + off)); cm != nil {
			within[cm]++
		}
	}
	for _, cm := range cs {
		if want := strings.Count(cm.Text, "\n"); within[cm] != want {
			return fmt.Sprintf("the line table has %d entries inside the comment %q at %d..%d, whose text has %d line breaks", within[cm], clip(cm.Text, 40), cm.Slash, cm.End(), want)
		}
	}
	return ""
}

// the positions the restorer assigned are in the same relative order as the positions of the same
// fields in a fresh parse of the printed text (fields either side leaves unset are not compared)
func posOrderMismatch(restored, fresh []posItem) string {
	if len(restored) != len(fresh) {
		return ""
	}
	var idx []int
	for i := range restored {
		if restored[i].key != fresh[i].key {
			return ""
		}
		if restored[i].p.IsValid() && fresh[i].p.IsValid() {
			idx = append(idx, i)
		}
	}
	sort.SliceStable(idx, func(a, b int) bool {
		if fresh[idx[a]].p != fresh[idx[b]].p {
			return fresh[idx[a]].p < fresh[idx[b]].p
		}
		return restored[idx[a]].p < restored[idx[b]].p
	})
	for k := 1; k < len(idx); k++ {
		if restored[idx[k]].p < restored[idx[k-1]].p {
			return fmt.Sprintf("%s (field #%d) lies before %s (field #%d) in the restored ast (%d < %d) but after it in a fresh parse of the printed text", restored[idx[k]].key, idx[k], restored[idx[k-1]].key, idx[k-1], restored[idx[k]].p, restored[idx[k-1]].p)
		}
	}
	return ""
}

func c12Check(in c12Input) (key, what string) {
	neverAssigned := ""
	rnd := rand.New(rand.NewSource(in.Seed))
	fset := token.NewFileSet()
	type span struct{ base, size int }
	var spans []span
	var shared *decorator.Restorer
	var sharedFR *decorator.FileRestorer
	type kept struct {
		fi    int
		af    *ast.File
		lines []int
		text  string
	}
	var keep []kept
	for fi, src := range in.Srcs {
		f, err := decorator.Parse(src)
		if err != nil {
			continue
		}
		if in.Dens > 0 {
			if in.Lines && in.NonASCII {
				randomDecorateWith(rnd, f, in.Dens, c12PoolLinesNonASCII)
			} else if in.Lines {
				randomDecorate(rnd, f, in.Dens)
			} else if in.NonASCII {
				randomDecorateWith(rnd, f, in.Dens, c12PoolBlocksNonASCII)
			} else {
				// (multi-line block comments are in the other mode: go/printer defers a comment that
				// contains a line break -- and every comment after it in the same group -- past the
				// next token when printing it first would introduce an implicit semicolon)
				randomDecorateWith(rnd, f, in.Dens, c12PoolBlocks)
			}
		}
		// light edit: reverse the declarations after the imports
		if rnd.Intn(3) == 0 && len(f.Decls) > 2 {
			d := f.Decls
			for i, j := 1, len(d)-1; i < j; i, j = i+1, j-1 {
				if gd, ok := d[i].(*dst.GenDecl); ok && gd.Tok == token.IMPORT {
					break
				}
				d[i], d[j] = d[j], d[i]
			}
		}
		if in.Edit != "" {
			c12ApplyEdit(f, in.Edit)
		}
		var af *ast.File
		restoreOne := func() {
			if in.Reuse {
				// one Restorer / one FileRestorer for every file of the group
				if shared == nil {
					shared = decorator.NewRestorer()
					shared.Fset = fset
					sharedFR = shared.FileRestorer()
				}
				af, err = sharedFR.RestoreFile(f)
				return
			}
			r := decorator.NewRestorer()
			r.Fset = fset
			af, err = r.RestoreFile(f)
		}
		if pm := safely(restoreOne); pm != "" || err != nil {
			return "c12-panic", fmt.Sprintf("file %d: RestoreFile failed: %v %s", fi, err, pm)
		}
		tf := fset.File(af.Package)
		if tf == nil {
			return "c12-file", fmt.Sprintf("file %d: package position not in the FileSet", fi)
		}
		lo, hi := token.Pos(tf.Base()), token.Pos(tf.Base()+tf.Size())
		for _, s := range spans {
			if tf.Base() <= s.base+s.size && s.base <= tf.Base()+tf.Size() {
				return "c12-overlap", fmt.Sprintf("file %d [%d,%d] overlaps an earlier file [%d,%d]", fi, tf.Base(), tf.Base()+tf.Size(), s.base, s.base+s.size)
			}
		}
		spans = append(spans, span{tf.Base(), tf.Size()})
		var bad string
		ast.Inspect(af, func(n ast.Node) bool {
			if n == nil || bad != "" {
				return false
			}
			v := reflect.ValueOf(n).Elem()
			for i := 0; i < v.NumField(); i++ {
				if v.Field(i).Type() == posType {
					p := token.Pos(v.Field(i).Int())
					if p.IsValid() && (p < lo || p > hi) {
						bad = fmt.Sprintf("%T.%s = %d outside [%d,%d]", n, v.Type().Field(i).Name, p, lo, hi)
					}
					if p.IsValid() && fset.File(p) != tf {
						bad = fmt.Sprintf("%T.%s = %d belongs to another file of the FileSet", n, v.Type().Field(i).Name, p)
					}
				}
			}
			return true
		})
		if bad != "" {
			return "c12-range", fmt.Sprintf("file %d: %s", fi, bad)
		}
		var prev token.Pos
		for _, cg := range af.Comments {
			for _, cm := range cg.List {
				if cm.Slash < lo || cm.End() > hi+1 {
					return "c12-range", fmt.Sprintf("file %d: comment %q at %d..%d outside [%d,%d]", fi, cm.Text, cm.Slash, cm.End(), lo, hi)
				}
				if cm.Slash < prev {
					return "c12-comments", fmt.Sprintf("file %d: comment %q at %d before the end of the previous comment %d", fi, cm.Text, cm.Slash, prev)
				}
				prev = cm.End()
			}
		}
		ls := tf.Lines()
		for i := 1; i < len(ls); i++ {
			if ls[i] <= ls[i-1] {
				return "c12-lines", fmt.Sprintf("file %d: line table not strictly increasing at %d", fi, i)
			}
		}
		if len(ls) > 0 && ls[len(ls)-1] >= tf.Size() && tf.Size() > 0 {
			return "c12-lines", fmt.Sprintf("file %d: last line offset %d >= size %d", fi, ls[len(ls)-1], tf.Size())
		}
		if m := commentCoherence(af, tf); m != "" {
			return "c12-comment-overlap", fmt.Sprintf("file %d: %s", fi, m)
		}
		// print twice (repeatable) and compare order with a fresh parse
		var b1, b2 bytes.Buffer
		pc := printer.Config{Mode: printer.UseSpaces | printer.TabIndent, Tabwidth: 8} // go/format's configuration, without its import sorting
		e1 := pc.Fprint(&b1, fset, af)
		e2 := pc.Fprint(&b2, fset, af)
		if e1 != nil || e2 != nil {
			continue // a line comment in an awkward place can break go/format's re-parse; not this property
		}
		if b1.String() != b2.String() {
			return "c12-repeat", fmt.Sprintf("file %d: printing the restored ast twice gives different text", fi)
		}
		keep = append(keep, kept{fi, af, append([]int(nil), tf.Lines()...), b1.String()})
		if in.Lines {
			continue
		}
		pf, err := parser.ParseFile(token.NewFileSet(), "", b1.Bytes(), parser.ParseComments)
		if err != nil {
			continue
		}
		if m := posOrderMismatch(withComments(posItems(af), af), withComments(posItems(pf), pf)); m != "" {
			k := "c12-order"
			if src == c12GenericAlias && strings.Contains(m, "TypeSpec.Assign") {
				k = "generic-alias-assign-before-type-params"
			}
			return k, fmt.Sprintf("file %d: %s", fi, m)
		}
		if m := unsetToken(posItems(af), posItems(pf), false); m != "" {
			return "c12-token-unset", fmt.Sprintf("file %d: %s", fi, m)
		}
		if m := startBeforeParts(af); m != "" && startBeforeParts(pf) == "" {
			return "c12-node-start", fmt.Sprintf("file %d: %s", fi, m)
		}
		// ... and so are the starts of the nodes (ast.Node.Pos()) together with the position fields
		if m := posOrderMismatch(append(nodeStarts(af), posItems(af)...), append(nodeStarts(pf), posItems(pf)...)); m != "" {
			return "c12-order", fmt.Sprintf("file %d: %s", fi, m)
		}
		a, b := orderedItems(af), orderedItems(pf)
		if len(a) != len(b) {
			return "c12-order", fmt.Sprintf("file %d: restored ast has %d identifiers/literals/comments, fresh parse of its print %d", fi, len(a), len(b))
		}
		for i := range a {
			if a[i] != b[i] {
				return "c12-order", fmt.Sprintf("file %d: item %d by position is %q in the restored ast, %q in a fresh parse of the printed text", fi, i, a[i], b[i])
			}
		}
		if m := unsetToken(posItems(af), posItems(pf), true); m != "" && neverAssigned == "" {
			neverAssigned = fmt.Sprintf("file %d: %s", fi, m)
		}
	}
	// files restored earlier keep their position space while later files are restored
	for _, k := range keep {
		tf := fset.File(k.af.Package)
		ls := tf.Lines()
		same := len(ls) == len(k.lines)
		for i := 0; same && i < len(ls); i++ {
			same = ls[i] == k.lines[i]
		}
		if !same {
			return "c12-later-restore", fmt.Sprintf("file %d: its line table changed when later files were restored into the same FileSet", k.fi)
		}
		var b bytes.Buffer
		pc := printer.Config{Mode: printer.UseSpaces | printer.TabIndent, Tabwidth: 8}
		if err := pc.Fprint(&b, fset, k.af); err != nil || b.String() != k.text {
			return "c12-later-restore", fmt.Sprintf("file %d: prints differently after later files were restored into the same FileSet", k.fi)
		}
	}
	if neverAssigned != "" {
		return "token-position-never-assigned", neverAssigned
	}
	return "", ""
}

func c12Prop(c *Ctx) {
	c.Res.Rule = "groups of 1-4 sources (hand corpus + $GOROOT/src sample) randomly decorated (density 1/3, 1/8 or none) and restored into one shared FileSet, + sources whose comments / strings / identifiers contain multi-byte UTF-8 text, alone and in groups, with multi-byte comment decorations, + edited trees (method declarations made from clones of interface methods, hand-built FuncDecls without the Func flag, each with a doc comment): no printed token without a position, Pos() of a node not after its parts, rank order of node starts and position fields as in a fresh parse; non-trivial = distinct (sources, seed, density)"
	srcs := oracleSources(c, c.N(24), 8000)
	for i := 0; i < c.N(120); i++ {
		n := 1 + c.Rng.Intn(4)
		in := c12Input{Seed: c.Rng.Int63(), Dens: []int{0, 3, 8}[c.Rng.Intn(3)], Lines: c.Rng.Intn(3) == 0, Reuse: c.Rng.Intn(2) == 0}
		for j := 0; j < n; j++ {
			in.Srcs = append(in.Srcs, srcs[c.Rng.Intn(len(srcs))])
		}
		c.Res.Evaluations++
		c.Res.seen(fmt.Sprint(in.Seed))
		c.Res.hist("c12-files-per-fileset", fmt.Sprint(n))
		c.Res.hist("c12-density", fmt.Sprintf("%d lines=%v reuse=%v", in.Dens, in.Lines, in.Reuse))
		if key, what := c12Check(in); key != "" {
			c.Res.fail(key, what, in)
		}
		if len(c.Res.Samples) < 2 {
			var cl []string
			for _, s := range in.Srcs {
				cl = append(cl, clip(s, 80))
			}
			c.Res.Samples = append(c.Res.Samples, map[string]interface{}{"srcs": cl, "seed": in.Seed, "density": in.Dens})
		}
	}
	c12Edited(c, srcs)
	c12NonASCII(c, srcs)
	c04KnownStartNewline(c)
	c12ExtrasKnown(c)
	// the recorded finding: a generic type alias (the generated TypeSpec case assigns the position
	// of '=' before it restores the type parameters)
	{
		in := c12Input{Srcs: []string{c12GenericAlias}, Seed: 1}
		c.Res.Evaluations++
		if key, what := c12Check(in); key != "" {
			c.Res.fail(key, what, in)
		}
	}
}

// c12InterfaceSources: interface types whose methods are turned into method declarations (Edit "stubs")
var c12InterfaceSources = []string{
	"package a\n\nimport \"io\"\n\n// I is an interface.\ntype I interface {\n\t// M does.\n\tM(a int, b ...string) (r int, err error)\n\tN()\n\tio.Reader\n\tP(func(int) bool) <-chan int // trailing\n}\n\ntype StubI struct{}\n",
	"package a\n\ntype (\n\tA interface{ Close() error }\n\tB interface {\n\t\tA\n\t\tRead(p []byte) (n int, err error) /* r */\n\t\tWrite(p []byte) (int, error)\n\t}\n)\n\nfunc f() {\n\ttype L interface{ Len() int }\n\tvar _ L\n}\n\nvar last = 1 // the last declaration\n",
	"package a\n\ntype G[T any] interface {\n\tGet(k string) (T, bool)\n\tSet(k string, v T)\n\t~int | ~string\n}\n",
}

// c12Edited: trees that only edits produce (c12Input.Edit), alone (as parsed, and with block-comment
// decorations) and in groups in one FileSet; the comparison with a fresh parse of the printed text is made
// (Lines is false)
func c12Edited(c *Ctx, srcs []string) {
	erng := rand.New(rand.NewSource(c.Seed*7919 + 12)) // own stream: the samples of the other families stay as they were
	run := func(in c12Input) {
		c.Res.Evaluations++
		c.Res.seen(fmt.Sprint("edit ", in.Edit, in.Seed, in.Dens, in.Reuse, len(in.Srcs)))
		c.Res.hist("c12-edit", fmt.Sprintf("%s files=%d density=%d reuse=%v", in.Edit, len(in.Srcs), in.Dens, in.Reuse))
		if key, what := c12Check(in); key != "" {
			c.Res.fail(key, what, in)
		}
	}
	for _, src := range c12InterfaceSources {
		run(c12Input{Srcs: []string{src}, Seed: 1 + erng.Int63n(1<<40)*3, Edit: "stubs"})
		run(c12Input{Srcs: []string{src}, Seed: erng.Int63(), Dens: 8, Edit: "stubs", Reuse: true})
		run(c12Input{Srcs: []string{src}, Seed: 1 + erng.Int63n(1<<40)*3, Edit: "hand"})
	}
	for i := 0; i < c.N(12); i++ {
		in := c12Input{Seed: erng.Int63(), Dens: []int{0, 3, 8}[erng.Intn(3)], Reuse: erng.Intn(2) == 0, Edit: []string{"stubs", "hand"}[i%2]}
		for j, n := 0, 1+erng.Intn(3); j < n; j++ {
			if erng.Intn(2) == 0 {
				in.Srcs = append(in.Srcs, c12InterfaceSources[erng.Intn(len(c12InterfaceSources))])
			} else {
				in.Srcs = append(in.Srcs, srcs[erng.Intn(len(srcs))])
			}
		}
		run(in)
	}
}

// the recorded finding: with Extras the declaring node synthesised for a range clause gets positions
// after the end of the registered file
func c12ExtrasKnown(c *Ctx) {
	src := "package a\n\nfunc F(xs []int) {\n\tfor a := range xs {\n\t\t_ = a\n\t}\n}\n"
	fset := token.NewFileSet()
	f, err := decorator.NewDecorator(fset).Parse(src)
	if err != nil {
		return
	}
	r := decorator.NewRestorer()
	r.Extras = true
	rfset := token.NewFileSet()
	r.Fset = rfset
	af, err := r.RestoreFile(f)
	if err != nil {
		return
	}
	tf := rfset.File(af.Package)
	c.Res.Evaluations++
	reported := false
	ast.Inspect(af, func(n ast.Node) bool {
		if id, ok := n.(*ast.Ident); ok && id.Obj != nil {
			if as, ok := id.Obj.Decl.(*ast.AssignStmt); ok {
				out := token.NoPos
				ast.Inspect(as, func(m ast.Node) bool {
					if u, ok := m.(*ast.UnaryExpr); ok && int(u.OpPos) > tf.Base()+tf.Size() {
						out = u.OpPos
					}
					return true
				})
				if int(as.TokPos) > tf.Base()+tf.Size() {
					out = as.TokPos
				}
				if out.IsValid() {
					if !reported {
						reported = true
						c.Res.fail("extras-synthesised-decl-outside-file", fmt.Sprintf("Obj.Decl of %s (the synthesised range assignment): position %d lies outside the restored file [%d,%d]", id.Name, out, tf.Base(), tf.Base()+tf.Size()), map[string]string{"src": src, "calls": "Restorer{Extras: true}.RestoreFile"})
					}
					return false
				}
			}
		}
		return true
	})
}

// c12NonASCIISources: positions are byte offsets, and a comment's End() is Slash + len(Text) in
// bytes.  Sources whose comments (and strings, identifiers) contain multi-byte UTF-8 text: multi-line
// general comments in CJK / Cyrillic followed by a declaration, line comments and one-line general
// comments with multi-byte runes directly followed by code.
var c12NonASCIISources = []string{
	"package a\n\n/*\n   这个函数计算两个整数的和,\n   并返回结果。\n*/\nfunc Add(a, b int) int { return a + b }\n\n/* Функция возвращает\n   разность двух чисел */\nvar Sub = func(a, b int) int { return a - b }\n",
	"package a\n\nfunc f() {\n\tx := 1 // héllo wörld\n\ty := 2 /* ééé */ + x\n\t{ /* ééé */ g() }\n\t_ = y // 日本語のコメント\n\tg( /* α */ x /* β */, y) // γγγγγγ\n}\n",
	"// Пакет a: документация пакета.\npackage a // пакет\n\nimport (\n\t\"fmt\" // форматирование\n\t/* ввод-вывод */ \"io\"\n)\n\n// T — структура с полями.\ntype T struct {\n\tA int    // поле «А»\n\tB string /* поле Б */ `json:\"б\"`\n\t/* многострочный\n\t   комментарий к полю */\n\tC io.Reader\n}\n\nconst (\n\tπ = 3.14159 // число π\n\tε = 1e-9    /* точность */\n)\n\nvar приветствие = \"привет, мир\" // строка\n\nfunc (t *T) Строка() string {\n\t// комментарий перед оператором\n\tif t == nil { /* пусто */\n\t\treturn \"〈nil〉\"\n\t}\n\tswitch t.A {\n\tcase 1: // один\n\t\treturn \"一\"\n\t/* два\n\t   или три */\n\tcase 2, 3:\n\t\treturn \"二三\"\n\t}\n\treturn fmt.Sprint(t.A, /* затем */ t.B) // конец\n}\n",
	"package a\n\nvar s = []string{\n\t\"ä\", // a-umlaut\n\t/* ö */ \"ö\",\n\t`мульти\nстрока`, /* после\n\tстроки */\n\t\"ü\", /* ü */\n}\n\nfunc g(a /* первый */, b int /* второй */) (r int /* результат */) {\n\tfor i := 0; /* условие */ i < a; i++ /* шаг */ {\n\t\tr += b /* прибавить\n\t\tещё */\n\t}\n\treturn /* 返回 */ r\n}\n\n/* 文件末尾的\n   多行注释 */\n",
}

// c12NonASCII: every non-ASCII source alone (as parsed), with non-ASCII comment decorations added, and
// in groups with other sources in one FileSet
func c12NonASCII(c *Ctx, srcs []string) {
	run := func(in c12Input) {
		c.Res.Evaluations++
		c.Res.seen(fmt.Sprint("non-ascii ", in.Seed, in.Dens, in.Lines, in.Reuse, len(in.Srcs)))
		c.Res.hist("c12-non-ascii", fmt.Sprintf("files=%d density=%d lines=%v", len(in.Srcs), in.Dens, in.Lines))
		if key, what := c12Check(in); key != "" {
			c.Res.fail(key, what, in)
		}
	}
	for _, src := range c12NonASCIISources {
		// (seed 1 and 2 of the input: without / possibly with the reversal of the declarations; the
		// comparison with a fresh parse is made when Lines is false)
		run(c12Input{Srcs: []string{src}, Seed: 1 + c.Rng.Int63n(1<<40)*3, Dens: 0})
		run(c12Input{Srcs: []string{src}, Seed: c.Rng.Int63(), Dens: 0, Lines: true, Reuse: true})
	}
	for i := 0; i < c.N(24); i++ {
		in := c12Input{Seed: c.Rng.Int63(), Dens: []int{3, 8}[c.Rng.Intn(2)], Lines: c.Rng.Intn(2) == 0, Reuse: c.Rng.Intn(2) == 0, NonASCII: true}
		n := 1 + c.Rng.Intn(3)
		for j := 0; j < n; j++ {
			if c.Rng.Intn(2) == 0 {
				in.Srcs = append(in.Srcs, c12NonASCIISources[c.Rng.Intn(len(c12NonASCIISources))])
			} else {
				in.Srcs = append(in.Srcs, srcs[c.Rng.Intn(len(srcs))])
			}
		}
		run(in)
	}
}

const c12GenericAlias = "package a\n\ntype A[P any] = B[P]\n\ntype B[P any] struct{ x P }\n"

func init() {
	props["C12"] = c12Prop
	replays["C12"] = func(c *Ctx, raw json.RawMessage) (bool, string) {
		var in c12Input
		if err := json.Unmarshal(raw, &in); err != nil || len(in.Srcs) == 0 {
			return false, "not a C12 generated input"
		}
		key, what := c12Check(in)
		return key != "", what
	}
}
