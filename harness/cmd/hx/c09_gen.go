package main

import (
	"fmt"
	"math/rand"
	"strings"
)

// Generator of type-correct multi-package programs (C09, C10): a few remote packages with a fixed
// menu of exported objects (the names carry the package's index so that several of them can be
// dot-imported into one file), and a package under test whose files import them in random styles
// (plain, aliased, dot, blank, not at all) and use them through a random selection of use shapes.
// Every choice comes from the one PRNG; the program is its own replay.

type gRemote struct {
	Idx      int
	Path     string // real path (may contain a vendor directory)
	ImportAs string // what files write
	Name     string // package name
	Dep      int    // index of a remote it embeds a type of, or -1
}

var c09PathPool = [][3]string{ // real path, import-as, package name
	{"root/a", "root/a", "a"},
	{"root/b/a", "root/b/a", "a"}, // same package name as root/a
	{"root/vendor/ext/v", "ext/v", "v"},
	{"root/vendor/ext/vendor/deep/w", "deep/w", "w"},
	{"vendor/golang.org/x/q", "golang.org/x/q", "q"},
	{"example.com/app/util", "example.com/app/util", "util"},
	{"example.com/apputil", "example.com/apputil", "apputil"},
	{"example.com", "example.com", "root"},
	{"example.com/go-lib", "example.com/go-lib", "lib"}, // name differs from the last path element
	{"example.com/lib/v2", "example.com/lib/v2", "lib2"},
	{"root/vendorx/n", "root/vendorx/n", "n"}, // "vendor" as part of a longer element: nothing to strip
	{"x/myvendor/m", "x/myvendor/m", "m"},
}

var c09LocalPool = []string{"root/main", "example.com/app", "root/vendor/ext/local", "example.com/app/util/sub", "root"}

func remoteSource(r gRemote, all []gRemote) string {
	i := r.Idx
	var b strings.Builder
	fmt.Fprintf(&b, "package %s\n\n", r.Name)
	if r.Dep >= 0 {
		fmt.Fprintf(&b, "import dep \"%s\"\n\n", all[r.Dep].ImportAs)
	}
	fmt.Fprintf(&b, "type Inner%d struct{ V int }\n\ntype Ptr%d struct{ P int }\n\n", i, i)
	fmt.Fprintf(&b, "type T%d struct {\n\tA int\n\tInner%d\n\t*Ptr%d\n}\n\n", i, i, i)
	fmt.Fprintf(&b, "func (T%d) M() int { return 0 }\n\nfunc (*T%d) PM() int { return 0 }\n\n", i, i)
	fmt.Fprintf(&b, "const K%d = 3\n\nvar X%d = 2\n\nvar Y%d T%d\n\nfunc Fn%d() int { return 1 }\n\nfunc Mk%d() T%d { return T%d{} }\n\n", i, i, i, i, i, i, i, i)
	fmt.Fprintf(&b, "type Num%d interface{ ~int }\n\nfunc Gen%d[E Num%d](e E) E { return e }\n\n", i, i, i)
	fmt.Fprintf(&b, "type Pair%d[K comparable, V any] struct {\n\tKey K\n\tVal V\n}\n\n", i)
	fmt.Fprintf(&b, "type I%d interface{ M() int }\n\ntype Fnt%d func(int) int\n\nvar Err%d error\n", i, i, i)
	if r.Dep >= 0 {
		d := all[r.Dep].Idx
		fmt.Fprintf(&b, "\ntype W%d struct {\n\tdep.T%d\n\tQ dep.Inner%d\n}\n", i, d, d)
	}
	return b.String()
}

type gImport struct {
	Remote int
	Style  string // plain | alias | dot | blank
	Alias  string
}

// qualifier text for an object of remote r in a file ("" for a dot-import)
func (g gImport) q(rs []gRemote) string {
	switch g.Style {
	case "plain":
		return rs[g.Remote].Name + "."
	case "alias":
		return g.Alias + "."
	case "dot":
		return ""
	}
	return "?"
}

func (g gImport) usable() bool { return g.Style == "plain" || g.Style == "alias" || g.Style == "dot" }

type useShape struct {
	name string
	gen  func(n int, q string, i int, pkgIdent string) string // pkgIdent: the qualifier identifier ("" under a dot-import)
}

var c09Shapes = []useShape{
	{"values", func(n int, q string, i int, _ string) string {
		return fmt.Sprintf("var v%d = %sX%d + %sFn%d() + %sK%d\n", n, q, i, q, i, q, i)
	}},
	{"struct-embed", func(n int, q string, i int, _ string) string {
		return fmt.Sprintf("type s%d struct {\n\t%sInner%d\n\tt %sT%d\n\tp *%sPtr%d\n}\n", n, q, i, q, i, q, i)
	}},
	{"composite-keys", func(n int, q string, i int, _ string) string {
		return fmt.Sprintf("func f%d(t %sT%d, o *%sT%d) int {\n\tq := %sT%d{A: 1, Inner%d: %sInner%d{V: 2}, Ptr%d: &%sPtr%d{P: 3}}\n\t_ = q\n\treturn t.M() + t.A + o.V + o.P + o.PM() + q.Inner%d.V\n}\n",
			n, q, i, q, i, q, i, i, q, i, i, q, i, i)
	}},
	{"generics", func(n int, q string, i int, _ string) string {
		return fmt.Sprintf("var g%d = %sGen%d[int](3) + %sGen%d(4)\n\nvar p%d = %sPair%d[string, %sT%d]{Key: \"k\", Val: %sT%d{A: 1}}\n\nvar pv%d = p%d.Val.A\n",
			n, q, i, q, i, n, q, i, q, i, q, i, n, n)
	}},
	{"labels", func(n int, q string, i int, _ string) string {
		return fmt.Sprintf("func lb%d() int {\n\ts := 0\nL:\n\tfor i := 0; i < %sK%d; i++ {\n\t\tif i == 1 {\n\t\t\tcontinue L\n\t\t}\n\t\tif i == 2 {\n\t\t\tbreak L\n\t\t}\n\t\ts += %sX%d\n\t}\n\tgoto E\nE:\n\treturn s\n}\n", n, q, i, q, i)
	}},
	{"shadow", func(n int, q string, i int, pkgIdent string) string {
		if pkgIdent == "" {
			return ""
		}
		return fmt.Sprintf("func sh%d() int {\n\t%s := %sT%d{A: 1}\n\treturn %s.A + %s.M()\n}\n", n, pkgIdent, q, i, pkgIdent, pkgIdent)
	}},
	{"type-switch", func(n int, q string, i int, _ string) string {
		return fmt.Sprintf("func ts%d(x interface{}) int {\n\tswitch y := x.(type) {\n\tcase %sT%d:\n\t\treturn y.A\n\tcase *%sPtr%d:\n\t\treturn y.P\n\tcase %sI%d:\n\t\treturn y.M()\n\t}\n\tif z, ok := x.(%sInner%d); ok {\n\t\treturn z.V\n\t}\n\treturn 0\n}\n", n, q, i, q, i, q, i, q, i)
	}},
	{"method-expr", func(n int, q string, i int, _ string) string {
		return fmt.Sprintf("var me%d = %sT%d.M\n\nvar mp%d = (*%sT%d).PM\n\nvar mv%d = %sY%d.M\n\nvar fv%d = %sY%d.Inner%d.V\n", n, q, i, n, q, i, n, q, i, n, q, i, i)
	}},
	{"type-exprs", func(n int, q string, i int, _ string) string {
		return fmt.Sprintf("var ar%d [%sK%d]%sT%d\n\nvar mm%d map[%sInner%d]%sFnt%d\n\nvar ch%d chan<- %sT%d\n\nvar fn%d func(%sT%d, ...%sInner%d) (r %sPtr%d, err error)\n", n, q, i, q, i, n, q, i, q, i, n, q, i, n, q, i, q, i, q, i)
	}},
	{"iface-embed", func(n int, q string, i int, _ string) string {
		return fmt.Sprintf("type it%d interface {\n\t%sI%d\n\tExtra%d() %sT%d\n}\n", n, q, i, n, q, i)
	}},
	{"universe", func(n int, q string, i int, _ string) string {
		return fmt.Sprintf("var u%d = len(\"x\") + int(byte(1)) + cap([]int(nil))\n\nvar e%d error = nil\n\nvar ue%d = %sErr%d == nil && true\n", n, n, n, q, i)
	}},
	{"local-objects", func(n int, q string, i int, _ string) string {
		return fmt.Sprintf("type lt%d struct {\n\tf int\n\t%sT%d\n}\n\nfunc (r lt%d) Do() int { return r.f + r.A + r.M() + r.T%d.A + lv%d }\n\nvar lv%d = 1\n\nvar lu%d = lt%d{f: lv%d}.Do()\n", n, q, i, n, i, n, n, n, n, n)
	}},
	{"func-lit", func(n int, q string, i int, _ string) string {
		return fmt.Sprintf("var fl%d = func(t %sT%d) %sInner%d {\n\tdefer %sFn%d()\n\tgo %sFn%d()\n\treturn t.Inner%d\n}\n", n, q, i, q, i, q, i, q, i, i)
	}},
	{"anon-struct", func(n int, q string, i int, _ string) string {
		return fmt.Sprintf("var an%d = struct {\n\tF %sT%d\n\tG []%sInner%d\n}{F: %sT%d{}, G: []%sInner%d{{V: 1}, {V: %sK%d}}}\n", n, q, i, q, i, q, i, q, i, q, i)
	}},
	{"type-param", func(n int, q string, i int, _ string) string {
		return fmt.Sprintf("func gp%d[E %sNum%d](e E) E { return %sGen%d(e) }\n\ntype gs%d[E %sNum%d] struct{ v E }\n\nfunc (g gs%d[E]) Get() E { return g.v }\n", n, q, i, q, i, n, q, i, n)
	}},
	{"conversion", func(n int, q string, i int, _ string) string {
		return fmt.Sprintf("type my%d struct {\n\tA int\n\t%sInner%d\n\t*%sPtr%d\n}\n\nvar cv%d = %sT%d(my%d{})\n\nvar mk%d = %sMk%d().A + (&%sT%d{}).PM()\n", n, q, i, q, i, n, q, i, n, n, q, i, q, i)
	}},
	{"literal-keys", func(n int, q string, i int, _ string) string {
		// a package-level constant / variable as the key of a map literal and as the index of an array literal
		// (under a dot-import the key is a bare identifier in KeyValueExpr.Key position: not a field name)
		return fmt.Sprintf("var mk%d = map[int]string{%sK%d: \"k\", %sX%d: \"x\"}\n\nvar ak%d = [...]string{%sK%d: \"three\"}\n\nvar sk%d = []%sT%d{%sK%d: {A: %sK%d}}\n", n, q, i, q, i, n, q, i, n, q, i, q, i, q, i)
	}},
	{"select-range", func(n int, q string, i int, _ string) string {
		return fmt.Sprintf("func sr%d(c chan %sT%d, xs []%sInner%d) (n int) {\n\tfor _, x := range xs {\n\t\tn += x.V\n\t}\n\tselect {\n\tcase t := <-c:\n\t\tn += t.A\n\tdefault:\n\t}\n\treturn\n}\n", n, q, i, q, i)
	}},
}

type gProgram struct {
	Prog    program
	Remotes []gRemote
	Local   string
	Imports [][]gImport // per file of the package under test
	Shapes  [][]string  // per file: the shapes used (evidence)
	HasDot  []bool
}

func genProgram(r *rand.Rand) gProgram {
	var g gProgram
	perm := r.Perm(len(c09PathPool))
	nr := 2 + r.Intn(3)
	for k := 0; k < nr; k++ {
		p := c09PathPool[perm[k]]
		rm := gRemote{Idx: k, Path: p[0], ImportAs: p[1], Name: p[2], Dep: -1}
		if k > 0 && r.Intn(2) == 0 {
			rm.Dep = r.Intn(k)
		}
		g.Remotes = append(g.Remotes, rm)
	}
	g.Local = c09LocalPool[r.Intn(len(c09LocalPool))]
	for _, rm := range g.Remotes {
		if rm.Path == g.Local || rm.ImportAs == g.Local {
			g.Local = "root/main"
		}
	}
	for _, rm := range g.Remotes {
		g.Prog.Pkgs = append(g.Prog.Pkgs, progPkg{Path: rm.Path, ImportAs: func() string {
			if rm.ImportAs != rm.Path {
				return rm.ImportAs
			}
			return ""
		}(), Files: []string{remoteSource(rm, g.Remotes)}})
	}
	localName := "main"
	nf := 2 + r.Intn(2)
	var files []string
	counter := 0
	for fi := 0; fi < nf; fi++ {
		var imps []gImport
		usedNames := map[string]bool{}
		hasDot := false
		// styles are drawn first so that an alias can avoid the names later imports will bind
		styles := make([]string, len(g.Remotes))
		laterPlain := map[string]bool{}
		for k, rm := range g.Remotes {
			styles[k] = []string{"plain", "plain", "alias", "dot", "blank", "none"}[r.Intn(6)]
			if styles[k] == "plain" {
				laterPlain[rm.Name] = true
			}
		}
		for k, rm := range g.Remotes {
			st := styles[k]
			if fi == 0 && st == "dot" {
				st = "plain" // the first file is always one goast can decide
			}
			gi := gImport{Remote: k, Style: st}
			switch st {
			case "none":
				continue
			case "plain":
				if usedNames[rm.Name] {
					gi.Style = "alias"
				}
			}
			if gi.Style == "alias" {
				gi.Alias = []string{"pk", "al", "x", "imp"}[r.Intn(4)] + fmt.Sprint(k)
				// sometimes the alias is the package name of another remote package that this file
				// does not import under that name (moving code between files then meets the clash)
				if o := g.Remotes[r.Intn(len(g.Remotes))]; r.Intn(3) == 0 && o.Idx != k && o.Name != rm.Name && !usedNames[o.Name] && !laterPlain[o.Name] {
					gi.Alias = o.Name
				}
				usedNames[gi.Alias] = true
			} else if gi.Style == "plain" {
				usedNames[rm.Name] = true
			} else if gi.Style == "dot" {
				hasDot = true
			}
			imps = append(imps, gi)
		}
		var b strings.Builder
		fmt.Fprintf(&b, "package %s\n\n", localName)
		anyUsable := false
		if len(imps) > 0 {
			b.WriteString("import (\n")
			for _, gi := range imps {
				rm := g.Remotes[gi.Remote]
				switch gi.Style {
				case "plain":
					fmt.Fprintf(&b, "\t\"%s\"\n", rm.ImportAs)
				case "alias":
					fmt.Fprintf(&b, "\t%s \"%s\"\n", gi.Alias, rm.ImportAs)
				case "dot":
					fmt.Fprintf(&b, "\t. \"%s\"\n", rm.ImportAs)
				case "blank":
					fmt.Fprintf(&b, "\t_ \"%s\"\n", rm.ImportAs)
				}
				if gi.usable() {
					anyUsable = true
				}
			}
			b.WriteString(")\n\n")
		}
		var shapes []string
		for _, gi := range imps {
			if !gi.usable() {
				continue
			}
			rm := g.Remotes[gi.Remote]
			q := gi.q(g.Remotes)
			pkgIdent := strings.TrimSuffix(q, ".")
			ns := 2 + r.Intn(5)
			sp := r.Perm(len(c09Shapes))
			for _, si := range sp[:ns] {
				counter++
				txt := c09Shapes[si].gen(counter, q, rm.Idx, pkgIdent)
				if txt == "" {
					continue
				}
				shapes = append(shapes, c09Shapes[si].name)
				b.WriteString(txt + "\n")
			}
			// the nested remote field: W_i{T_d: ..., Q: ...} needs the dependency importable in this file too
			if rm.Dep >= 0 {
				for _, gj := range imps {
					if gj.Remote == rm.Dep && gj.usable() {
						counter++
						d := g.Remotes[rm.Dep].Idx
						qd := gj.q(g.Remotes)
						fmt.Fprintf(&b, "var w%d = %sW%d{T%d: %sT%d{A: 1}, Q: %sInner%d{V: 1}}\n\nvar wq%d = w%d.Q.V + w%d.T%d.A + w%d.A + w%d.M()\n\n", counter, q, rm.Idx, d, qd, d, qd, d, counter, counter, counter, d, counter, counter)
						shapes = append(shapes, "nested-remote-field")
					}
				}
			}
		}
		if !anyUsable {
			counter++
			fmt.Fprintf(&b, "var only%d = len(\"local\")\n", counter)
		}
		if fi == 0 {
			b.WriteString("func main() {}\n")
		}
		files = append(files, b.String())
		g.Imports = append(g.Imports, imps)
		g.Shapes = append(g.Shapes, shapes)
		g.HasDot = append(g.HasDot, hasDot)
	}
	g.Prog.Pkgs = append(g.Prog.Pkgs, progPkg{Path: g.Local, Files: files})
	return g
}

// cgo variants of a generated file: the pseudo-import "C" (with its preamble comment) is added to the
// file's imports in one of the layouts gofmt keeps, and one declaration uses it. Nothing else changes,
// so every other identifier denotes what it denoted before.
var cgoLayouts = []string{"own-declaration-first", "group-first", "group-middle", "group-last", "own-declaration-last"}

func cgoVariant(src string, layout string, n int) (out string, applied string) {
	const preamble = "// #include <stdlib.h>\n"
	use := fmt.Sprintf("\nvar cgo%d C.int\n\nfunc cgof%d() C.long { return C.long(cgo%d) + C.labs(-1) }\n", n, n, n)
	open := strings.Index(src, "import (\n")
	if open < 0 {
		// a file without imports: "C" alone
		i := strings.Index(src, "\n\n")
		if i < 0 {
			return src, ""
		}
		return src[:i+2] + preamble + "import \"C\"\n\n" + src[i+2:] + use, "alone"
	}
	closeAt := open + strings.Index(src[open:], ")\n")
	specs := strings.SplitAfter(src[open+len("import (\n"):closeAt], "\n")
	if len(specs) > 0 && specs[len(specs)-1] == "" {
		specs = specs[:len(specs)-1]
	}
	cspec := "\t" + preamble + "\t\"C\"\n"
	at := -1
	switch layout {
	case "own-declaration-first":
		return src[:open] + preamble + "import \"C\"\n\n" + src[open:] + use, layout
	case "own-declaration-last":
		return src[:closeAt+2] + "\n" + preamble + "import \"C\"\n" + src[closeAt+2:] + use, layout
	case "group-first":
		at = 0
	case "group-middle":
		at = (len(specs) + 1) / 2
		if at >= len(specs) {
			at = 0 // a group of one spec has no middle: "C" goes before it
			layout = "group-first"
		}
	case "group-last":
		at = len(specs)
	}
	var b strings.Builder
	b.WriteString(src[:open] + "import (\n")
	for i, sp := range specs {
		if i == at {
			b.WriteString(cspec)
		}
		b.WriteString(sp)
	}
	if at == len(specs) {
		b.WriteString(cspec)
	}
	b.WriteString(src[closeAt:] + use)
	return b.String(), layout
}
