package main

import (
	"fmt"
	"go/ast"
	"go/parser"
	"go/token"
	"math/rand"
	"sort"
	"strings"

	"github.com/dave/dst"
	"github.com/dave/dst/decorator"
)

// Correspondence of Model/Link.v: the sorted fragment list the real fragment() produced (handed
// over by the verif hook) is the model's input; the decorations and Before/After spacing the
// real link() computed are compared with the model's.

func spaceTermOf(s dst.SpaceType) string { return spaceTerm(s) }

func linkCaseTerm(src string) (string, bool) {
	fset := token.NewFileSet()
	af, err := parser.ParseFile(fset, "a.go", src, parser.ParseComments)
	if af == nil || (err != nil && !af.Pos().IsValid()) {
		return "", false
	}
	var v decorator.VerifLink
	if pm := safely(func() { v = decorator.VerifFragmentAndLink(fset, af) }); pm != "" {
		return "", false
	}
	ids := map[ast.Node]int{}
	nid := func(n ast.Node) int {
		if id, ok := ids[n]; ok {
			return id
		}
		ids[n] = len(ids) + 1
		return ids[n]
	}
	d := newTreeDumper()
	var frs []string
	for _, fr := range v.Fragments {
		switch fr.Kind {
		case "dec":
			_, stmt := fr.Node.(ast.Stmt)
			_, decl := fr.Node.(ast.Decl)
			_, lab := fr.Node.(*ast.LabeledStmt)
			_, cc := fr.Node.(*ast.CaseClause)
			_, cm := fr.Node.(*ast.CommClause)
			frs = append(frs, fmt.Sprintf("FDec %d (mkNC %v %v %v %v) %s %d %d", nid(fr.Node), stmt, decl, lab, cc || cm, coqStr(fr.Name), fr.StartIndent, fr.EndIndent))
		case "tok", "str":
			frs = append(frs, "FTok")
		case "bad":
			frs = append(frs, "FBad")
		case "com":
			frs = append(frs, fmt.Sprintf("FCom (%s) %d None", d.decTerm(fr.Text), fr.Indent))
		case "nl":
			frs = append(frs, fmt.Sprintf("FNl %v None", fr.Empty))
		}
	}
	var decs []string
	var keys []ast.Node
	for n := range v.Decorations {
		keys = append(keys, n)
	}
	sort.Slice(keys, func(i, j int) bool { return nid(keys[i]) < nid(keys[j]) })
	for _, n := range keys {
		var names []string
		for name := range v.Decorations[n] {
			names = append(names, name)
		}
		sort.Strings(names)
		for _, name := range names {
			decs = append(decs, fmt.Sprintf("((%d%%N, %s), [%s])", nid(n), coqStr(name), d.decList(v.Decorations[n][name])))
		}
	}
	sp := func(m map[ast.Node]dst.SpaceType) string {
		var ks []ast.Node
		for n := range m {
			ks = append(ks, n)
		}
		sort.Slice(ks, func(i, j int) bool { return nid(ks[i]) < nid(ks[j]) })
		var out []string
		for _, n := range ks {
			out = append(out, fmt.Sprintf("(%d%%N, %s)", nid(n), spaceTerm(m[n])))
		}
		return "[" + strings.Join(out, "; ") + "]"
	}
	return fmt.Sprintf("mkLC [%s]\n  false [%s]\n  %s %s", strings.Join(frs, "; "), strings.Join(decs, "; "), sp(v.Before), sp(v.After)), true
}

// layout variants of a source: comments and blank lines sprinkled between tokens
func mangle(r *rand.Rand, src string) string {
	lines := strings.Split(src, "\n")
	var out []string
	for _, l := range lines {
		switch r.Intn(9) {
		case 0:
			out = append(out, "", l)
		case 1:
			out = append(out, strings.Repeat("\t", r.Intn(3))+"// inserted", l)
		case 2:
			if strings.TrimSpace(l) != "" && !strings.Contains(l, "//") && !strings.Contains(l, "`") {
				out = append(out, l+" // tail")
			} else {
				out = append(out, l)
			}
		case 3:
			out = append(out, "", "", l)
		case 4:
			out = append(out, strings.Repeat("\t", r.Intn(3))+"/* block */", l)
		default:
			out = append(out, l)
		}
	}
	return strings.Join(out, "\n")
}

var linkExtra = []string{
	// statements and declarations that end one, two and three indent levels deeper than they start,
	// each followed by a comment line at the start indent, an empty line and a sibling (the hanging-indent
	// special case of link() is for "one deeper" only)
	"package a\n\nfunc f() {\n\tfoo(a,\n\t\tb)\n\t// one\n\n\tn1()\n\tfoo(a,\n\t\tbar(b,\n\t\t\tc))\n\t// two\n\n\tn2()\n\tfoo(a,\n\t\tbar(b,\n\t\t\tbaz(c,\n\t\t\t\td)))\n\t// three\n\n\tn3()\n}\n\nvar v = foo(a,\n\tbar(b,\n\t\tc))\n// below v\n\nvar w = 1\n",
	// a //line directive after a multi-line raw string: adjusted line numbers repeat (fix 8907ee9)
	"package a\n\nvar s = `x\ny\nz`\n\n//line l3.go:3\nvar a = 1\n\nvar b = []int{\n\t1,\n\t2,\n}\n\nfunc f() {\n\tg()\n\n\th()\n}\n",
	"package a\n\nvar x = append(\n\ta,\n\tb...,\n)\n\nfunc f() {\n\tg(\n\t\ta,\n\t\tb..., // spread\n\t)\n\th(a, b... /* inline */)\n\tk(\n\t\ta, // first\n\t\tb, /* second */\n\t)\n}\n",
	"package a\n\nfunc f() {\n\tswitch x {\n\tcase 1:\n\t\ta()\n\t\t// hanging\n\n\t// next case\n\tcase 2:\n\t// empty hanging\n\tdefault:\n\t}\n\tselect {\n\tcase <-c:\n\t\t// in comm\n\tcase c <- 1:\n\t}\n\tif a {\n\t\tb()\n\t\t// after b\n\t}\n\t// after if\n\n\t// before c\n\tc()\n}\n",
	"package a\n\nvar (\n\tx = 1 // one\n\n\t// two doc\n\ty = 2\n\t// dangling\n)\n\ntype T struct {\n\tA int // a\n\t// dangling in struct\n}\n\nvar z = f(\n\ta, // first\n\t// own line\n\tb,\n)\n",
	"// Copyright\n\n// Package doc\npackage a // pkg\n\n// after package\n\nimport \"fmt\" // imp\n\n// floating\n\n// F doc\nfunc F() { fmt.Println() } // after F\n// directly after\n",
}

func linkCorr(c *Ctx) {
	var cases []string
	srcs := append([]string{}, linkExtra...)
	srcs = append(srcs, corrSources(c, c.N(5), 2000)...)
	// Coq elaborates a cases file at roughly 20-25 s per MB: the total size is budgeted
	budget, used := c.Budget(900000), 0
	add := func(src string) {
		if t, ok := linkCaseTerm(src); ok && used+len(t) <= budget {
			used += len(t)
			cases = append(cases, t)
			c.Res.CaseInputs = appendCase(c.Res.CaseInputs, "mismatch_link", src)
			c.Res.CaseInputs = appendCase(c.Res.CaseInputs, "mismatch_seg", src)
			c.Res.CaseInputs = appendCase(c.Res.CaseInputs, "mismatch_order", src)
			c.Res.Traces++
		}
	}
	for _, s := range srcs {
		add(s)
		for k := 0; k < 2; k++ {
			add(mangle(c.Rng, s))
		}
	}
	c.caseSB.WriteString(coqCaseHeader + "From DV Require Import Model.Link Model.LinkCases.\n")
	c.caseSB.WriteString("Definition lcases : list lcase := [\n" + strings.Join(cases, ";\n") + "].\n")
	c.caseSB.WriteString("Definition mismatch_link := Eval vm_compute in bad_lcases lcases.\nPrint mismatch_link.\n")
	c.caseSB.WriteString("Definition mismatch_seg := Eval vm_compute in bad_seg lcases.\nPrint mismatch_seg.\n")
	c.caseSB.WriteString("Definition mismatch_order := Eval vm_compute in bad_order lcases.\nPrint mismatch_order.\n")
}

func init() { corrs["LINK"] = linkCorr }
