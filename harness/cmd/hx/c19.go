package main

import (
	"bytes"
	"encoding/json"
	"fmt"
	"go/format"
	"reflect"
	"sort"
	"strings"

	"github.com/dave/dst"
	"github.com/dave/dst/decorator"
)

// C19: histories of Decorations calls with caller-owned argument slices (any offset,
// length, spare capacity) and later caller mutation, against a []string reference; the
// same traces are replayed on the Coq slice-heap model (Cases/C19_cases.v).

type c19Op struct {
	Kind string `json:"kind"` // Append Prepend Replace Clear All Write
	Arr  int    `json:"arr"`  // caller array (-1: nil argument)
	Off  int    `json:"off"`
	Len  int    `json:"len"`
	Cap  int    `json:"cap"`
	Idx  int    `json:"idx"` // Write: index
	Val  int    `json:"val"` // Write: new cell id
}

type c19Hist struct {
	Arrays [][]int `json:"arrays"`
	Ops    []c19Op `json:"ops"`
}

func c19str(id int) string {
	if id == 0 {
		return ""
	}
	return fmt.Sprintf("// c%d", id)
}

func c19id(s string) int {
	if s == "" {
		return 0
	}
	var id int
	fmt.Sscanf(s, "// c%d", &id)
	return id
}

type c19Held struct {
	v    dst.Decorations
	want []string
	step int
}

type c19Obs struct {
	Contents []int
	Cap      int
	Moved    bool
}

// c19Run executes a history on the real code.  Returns per-step observations, the final
// caller arrays, and a failure description ("" if the oracle holds).
func c19Run(h c19Hist) (obs []c19Obs, final [][]int, failKey, failWhat string) {
	arrays := make([][]string, len(h.Arrays))
	shadow := make([][]string, len(h.Arrays))
	for i, a := range h.Arrays {
		arrays[i] = make([]string, len(a))
		shadow[i] = make([]string, len(a))
		for j, id := range a {
			arrays[i][j] = c19str(id)
			shadow[i][j] = c19str(id)
		}
	}
	var d dst.Decorations
	var ref []string
	var helds []c19Held
	setFail := func(k, w string) {
		if failKey == "" {
			failKey, failWhat = k, w
		}
	}
	for step, op := range h.Ops {
		prevPtr := reflect.ValueOf([]string(d)).Pointer()
		prevCap := cap(d)
		var arg []string
		if op.Kind != "Write" && op.Arr >= 0 {
			arg = arrays[op.Arr][op.Off : op.Off+op.Len : op.Off+op.Cap]
		}
		argCopy := append([]string(nil), arg...)
		// a value copy of the list taken before the call (b.Decs.Start = a.Decs.Start) must read the
		// same afterwards: no method rewrites elements another list value can see
		// (value copies taken at earlier steps are kept too: Clear that keeps its storage shows only at the
		// next Append)
		helds = append(helds, c19Held{d, append([]string(nil), d...), step})
		if len(helds) > 6 {
			helds = helds[1:]
		}
		switch op.Kind {
		case "Append":
			d.Append(arg...)
			ref = append(append([]string(nil), ref...), argCopy...)
		case "Prepend":
			d.Prepend(arg...)
			ref = append(append([]string(nil), argCopy...), ref...)
		case "Replace":
			d.Replace(arg...)
			ref = append([]string(nil), argCopy...)
		case "Clear":
			d.Clear()
			ref = nil
		case "All":
			got := d.All()
			if !eqStrings(got, ref) {
				setFail("c19-all", fmt.Sprintf("step %d: All() = %q, want %q", step, got, ref))
			}
		case "Write":
			arrays[op.Arr][op.Idx] = c19str(op.Val)
			shadow[op.Arr][op.Idx] = c19str(op.Val)
		}
		if op.Kind != "Write" {
			for _, h := range helds {
				if !eqStrings([]string(h.v), h.want) {
					setFail("c19-copy-aliasing", fmt.Sprintf("step %d (%s): a value copy of the list taken before step %d now reads %q, it read %q", step, op.Kind, h.step, []string(h.v), h.want))
				}
			}
		}
		if !eqStrings([]string(d), ref) {
			setFail("c19-contents", fmt.Sprintf("step %d (%s): list = %q, want %q", step, op.Kind, []string(d), ref))
		}
		for i := range arrays {
			if !eqStrings(arrays[i], shadow[i]) {
				setFail("c19-frame", fmt.Sprintf("step %d (%s): caller array %d changed to %q, want %q", step, op.Kind, i, arrays[i], shadow[i]))
				copy(arrays[i], shadow[i])
			}
		}
		o := c19Obs{Cap: cap(d)}
		for _, s := range d {
			o.Contents = append(o.Contents, c19id(s))
		}
		o.Moved = prevCap > 0 && cap(d) > 0 && reflect.ValueOf([]string(d)).Pointer() != prevPtr
		obs = append(obs, o)
	}
	for i := range arrays {
		var f []int
		for _, s := range arrays[i] {
			f = append(f, c19id(s))
		}
		final = append(final, f)
	}
	// what All returns is what is rendered
	if failKey == "" {
		var want []string
		for _, s := range d.All() {
			if s != "" {
				want = append(want, s)
			}
		}
		f, err := decorator.Parse("package a\n\nvar x int\n")
		if err == nil {
			gd := f.Decls[0].(*dst.GenDecl)
			gd.Decs.Start = nil
			for _, s := range d.All() {
				if s != "" {
					gd.Decs.Start.Append(s)
				}
			}
			var buf bytes.Buffer
			if err := decorator.Fprint(&buf, f); err != nil {
				setFail("c19-render", "print failed: "+err.Error())
			} else {
				var got []string
				for _, l := range strings.Split(buf.String(), "\n") {
					if strings.HasPrefix(strings.TrimSpace(l), "//") {
						got = append(got, strings.TrimSpace(l))
					}
				}
				if !eqStrings(got, want) {
					setFail("c19-render", fmt.Sprintf("rendered comments %q, All() gives %q", got, want))
				}
			}
		}
	}
	return
}

func eqStrings(a, b []string) bool {
	if len(a) != len(b) {
		return false
	}
	for i := range a {
		if a[i] != b[i] {
			return false
		}
	}
	return true
}

func c19Gen(c *Ctx, nextID *int) c19Hist {
	r := c.Rng
	var h c19Hist
	na := 1 + r.Intn(3)
	for i := 0; i < na; i++ {
		n := 1 + r.Intn(7)
		var a []int
		for j := 0; j < n; j++ {
			*nextID++
			a = append(a, *nextID)
		}
		h.Arrays = append(h.Arrays, a)
	}
	nops := 2 + r.Intn(10)
	kinds := []string{"Append", "Append", "Prepend", "Prepend", "Replace", "Clear", "All", "Write", "Write"}
	for i := 0; i < nops; i++ {
		k := kinds[r.Intn(len(kinds))]
		op := c19Op{Kind: k, Arr: -1}
		switch k {
		case "Write":
			op.Arr = r.Intn(na)
			op.Idx = r.Intn(len(h.Arrays[op.Arr]))
			*nextID++
			op.Val = *nextID
		case "Append", "Prepend", "Replace":
			if r.Intn(8) != 0 {
				op.Arr = r.Intn(na)
				n := len(h.Arrays[op.Arr])
				op.Off = r.Intn(n + 1)
				op.Len = r.Intn(n - op.Off + 1)
				op.Cap = op.Len + r.Intn(n-op.Off-op.Len+1)
			}
		}
		h.Ops = append(h.Ops, op)
	}
	return h
}

func c19Coq(h c19Hist, obs []c19Obs, final [][]int) string {
	var b strings.Builder
	nl := func(xs []int) string {
		var p []string
		for _, x := range xs {
			p = append(p, fmt.Sprint(x))
		}
		return "[" + strings.Join(p, "; ") + "]"
	}
	hp := func(as [][]int) string {
		var p []string
		for _, a := range as {
			p = append(p, nl(a))
		}
		return "[" + strings.Join(p, "; ") + "]"
	}
	b.WriteString("(" + hp(h.Arrays) + ", [")
	for i, op := range h.Ops {
		if i > 0 {
			b.WriteString("; ")
		}
		var o string
		arg := "None"
		if op.Arr >= 0 && op.Kind != "Write" {
			arg = fmt.Sprintf("(Some (mkSlice %d %d %d %d))", op.Arr, op.Off, op.Len, op.Cap)
		}
		switch op.Kind {
		case "Write":
			o = fmt.Sprintf("CallerWrite %d %d %d", op.Arr, op.Idx, op.Val)
		default:
			o = fmt.Sprintf("Call M%s %s", op.Kind, arg)
		}
		mv := "false"
		if obs[i].Moved {
			mv = "true"
		}
		fmt.Fprintf(&b, "mkT (%s) %d %s %s", o, obs[i].Cap, nl(obs[i].Contents), mv)
	}
	b.WriteString("], " + hp(final) + ")")
	return b.String()
}

func c19(c *Ctx) {
	res := c.Res
	res.Rule = "random histories of Append/Prepend/Replace/Clear/All on a dst.Decorations with argument slices cut from caller arrays at random offset/length/capacity (three-index slices, so spare capacity holds live caller data) interleaved with caller writes; a history is non-trivial if it has a call whose argument has spare capacity or a caller write after a call; distinct by op-kind/arg-shape signature"
	n := c.N(400)
	nextID := 0
	var cases []string
	for i := 0; i < n; i++ {
		nextID = 0
		h := c19Gen(c, &nextID)
		obs, final, fk, fw := c19Run(h)
		res.Evaluations++
		sig := ""
		nontrivial := false
		called := false
		for _, op := range h.Ops {
			res.hist("ops", op.Kind)
			s := op.Kind[:2]
			if op.Kind != "Write" && op.Arr >= 0 {
				if op.Cap > op.Len {
					s += "+"
					nontrivial = true
					res.hist("arg", "spare-capacity")
				} else if op.Len == 0 {
					s += "0"
					res.hist("arg", "empty")
				} else {
					res.hist("arg", "exact")
				}
				called = true
			} else if op.Kind == "Write" && called {
				nontrivial = true
			} else if op.Kind != "Write" {
				res.hist("arg", "nil-or-none")
			}
			sig += s
		}
		if nontrivial {
			res.seen(sig)
		}
		if fk != "" {
			res.fail(fk, fw, h)
		}
		if len(res.Samples) < 3 {
			res.Samples = append(res.Samples, h)
		}
		if len(cases) < c.N(300) {
			cases = append(cases, c19Coq(h, obs, final))
			res.CaseInputs = appendCase(res.CaseInputs, "mismatch_C19_slices", h)
		}
	}
	c19Render(c)
	res.Traces = len(cases)
	c.caseSB.WriteString("From Coq Require Import List Arith.\nImport ListNotations.\nFrom DV Require Import Model.SliceHeap Model.SliceCases Gen.DecsIR.\n")
	c.caseSB.WriteString("Definition cases : list trace_case := [\n" + strings.Join(cases, ";\n") + "].\n")
	c.caseSB.WriteString("Definition mismatch_C19_slices := Eval vm_compute in bad_cases decs_ir cases.\nPrint mismatch_C19_slices.\n")
}

// "what All returns is what is rendered": a list built through the operations is rendered element
// by element, in order, on the line(s) before the statement that carries it.
func c19Render(c *Ctx) {
	for i := 0; i < c.N(40); i++ {
		f, err := decorator.Parse("package a\n\nfunc f() {\n\tx()\n}\n")
		if err != nil {
			return
		}
		st := f.Decls[0].(*dst.FuncDecl).Body.List[0]
		d := &st.Decorations().Start
		var want []string
		n := 1 + c.Rng.Intn(5)
		for k := 0; k < n; k++ {
			e := fmt.Sprintf("// c%d-%d", i, k)
			if c.Rng.Intn(3) == 0 {
				e = fmt.Sprintf("/* b%d-%d */", i, k)
			}
			switch c.Rng.Intn(3) {
			case 0:
				d.Append(e)
				want = append(want, e)
			case 1:
				d.Prepend(e)
				want = append([]string{e}, want...)
			case 2:
				d.Replace(e)
				want = []string{e}
			}
		}
		c.Res.Evaluations++
		c.Res.hist("ops", "render")
		if !eqStrings(d.All(), want) {
			c.Res.fail("c19-render", fmt.Sprintf("All() = %q, the plain list has %q", d.All(), want), map[string]interface{}{"want": want})
			continue
		}
		out, perr, pm := printDst(f)
		if pm != "" || perr != nil {
			c.Res.fail("c19-render", fmt.Sprintf("printing failed: %v %s", perr, pm), map[string]interface{}{"list": want})
			continue
		}
		pos := 0
		for _, e := range want {
			j := strings.Index(out[pos:], e)
			if j < 0 || strings.Count(out, e) != 1 {
				c.Res.fail("c19-render", fmt.Sprintf("element %q of All() is rendered %d times (in order: %v) in\n%s", e, strings.Count(out, e), j >= 0, out), map[string]interface{}{"list": want})
				break
			}
			pos += j + len(e)
		}
	}
	c19RenderLayout(c)
	// the recorded finding: an element that is neither "\n" nor a comment
	f, err := decorator.Parse("package a\n\nfunc f() {\n\tx()\n}\n")
	if err != nil {
		return
	}
	st := f.Decls[0].(*dst.FuncDecl).Body.List[0]
	st.Decorations().Start.Append("// before", "TODO", "\n\n", "// after")
	c.Res.Evaluations++
	out, _, _ := printDst(f)
	if !strings.Contains(out, "TODO") {
		c.Res.fail("non-comment-element-not-rendered", "All() returns [\"// before\" \"TODO\" \"\\n\\n\" \"// after\"], the printed file has neither \"TODO\" nor the \"\\n\\n\" element:\n"+out, map[string]interface{}{"src": "package a\n\nfunc f() {\n\tx()\n}\n", "edit": "Body.List[0].Decs.Start.Append(\"// before\", \"TODO\", \"\\n\\n\", \"// after\")"})
	}
}

// "what All returns is what is rendered", layout included: a list of comments of every shape (line
// comments, one-line general comments, general comments that span lines, with empty lines inside
// their text) and "\n" elements is built through the operations on a decoration point, and the
// printed file is compared with gofmt (go/format.Source) of the source in which the list is
// written out element by element at that point: a "\n" element is a line break, a line comment
// ends its line, a general comment is followed by what comes next on the same line.

type c19LayoutOp struct {
	Kind  string   `json:"kind"` // Append Prepend Replace Clear
	Elems []string `json:"elems"`
}

type c19Layout struct {
	Host string        `json:"render_host"`
	Ops  []c19LayoutOp `json:"ops"`
}

// hosts: source, the text before / after the written-out list, the indentation of a line at that
// point (the list is written out the way it is typed: go/printer treats a general comment that spans
// lines and starts in the first column of a line that is going to be indented differently); end: the
// point is the End of a node whose After space is NewLine (what follows starts on a new line); top: a
// general comment that spans lines is, directly before a declaration, rewritten by gofmt as a doc
// comment (go/printer formatDocComment), so only texts that rewriting leaves alone are used there
var c19LayoutHosts = map[string]struct {
	src, pre, post, indent string
	end, top               bool
}{
	// Start of a statement that follows another one
	"stmt-start": {src: "package a\n\nfunc f() {\n\tw()\n\tx()\n}\n", pre: "package a\n\nfunc f() {\n\tw()\n", post: "x()\n}\n", indent: "\t"},
	// Start of the first statement of a block
	"first-stmt-start": {src: "package a\n\nfunc f() {\n\tx()\n}\n", pre: "package a\n\nfunc f() {\n", post: "x()\n}\n", indent: "\t"},
	// Start of a declaration (a cgo preamble is such a list)
	"decl-start":   {src: "package a\n\nimport \"C\"\n\nfunc g() {}\n", pre: "package a\n\nimport \"C\"\n\n", post: "func g() {}\n", top: true},
	"import-start": {src: "package a\n\nimport \"C\"\n", pre: "package a\n\n", post: "import \"C\"\n", top: true},
	// End of a statement that is followed by another one
	"stmt-end": {src: "package a\n\nfunc f() {\n\tw()\n\tx()\n}\n", pre: "package a\n\nfunc f() {\n\tw() ", post: "x()\n}\n", indent: "\t", end: true},
	// End of a field (the first comment goes to the Comment field)
	"field-end": {src: "package a\n\ntype T struct {\n\tA int\n\tB int\n}\n", pre: "package a\n\ntype T struct {\n\tA int ", post: "B int\n}\n", indent: "\t", end: true},
}

func c19LayoutPoint(f *dst.File, host string) *dst.Decorations {
	switch host {
	case "stmt-start":
		return &f.Decls[0].(*dst.FuncDecl).Body.List[1].Decorations().Start
	case "first-stmt-start":
		return &f.Decls[0].(*dst.FuncDecl).Body.List[0].Decorations().Start
	case "decl-start":
		return &f.Decls[1].Decorations().Start
	case "import-start":
		return &f.Decls[0].Decorations().Start
	case "stmt-end":
		return &f.Decls[0].(*dst.FuncDecl).Body.List[0].Decorations().End
	case "field-end":
		return &f.Decls[0].(*dst.GenDecl).Specs[0].(*dst.TypeSpec).Type.(*dst.StructType).Fields.List[0].Decs.End
	}
	return nil
}

// the list written out as source text at a point where lines are indented by indent; lineStart:
// whether the point is at the start of a line. ensureLine: what follows starts on a new line.
func c19WriteOut(list []string, indent string, lineStart, ensureLine bool) string {
	var sb strings.Builder
	for _, e := range list {
		if e == "\n" {
			sb.WriteString("\n")
			lineStart = true
			continue
		}
		if lineStart {
			sb.WriteString(indent)
		}
		if strings.HasPrefix(e, "//") {
			sb.WriteString(e + "\n")
			lineStart = true
		} else {
			sb.WriteString(e + " ")
			lineStart = false
		}
	}
	if ensureLine && !lineStart {
		sb.WriteString("\n")
		lineStart = true
	}
	if lineStart {
		sb.WriteString(indent)
	}
	return sb.String()
}

func c19LayoutRun(in c19Layout) (key, what string) {
	h, ok := c19LayoutHosts[in.Host]
	if !ok {
		return "", ""
	}
	f, err := decorator.Parse(h.src)
	if err != nil {
		return "", ""
	}
	d := c19LayoutPoint(f, in.Host)
	var want []string
	for _, op := range in.Ops {
		arg := append([]string(nil), op.Elems...)
		switch op.Kind {
		case "Append":
			d.Append(arg...)
			want = append(want, op.Elems...)
		case "Prepend":
			d.Prepend(arg...)
			want = append(append([]string(nil), op.Elems...), want...)
		case "Replace":
			d.Replace(arg...)
			want = append([]string(nil), op.Elems...)
		case "Clear":
			d.Clear()
			want = nil
		}
	}
	if !eqStrings(d.All(), want) {
		return "c19-render", fmt.Sprintf("All() = %q, the plain list has %q", d.All(), want)
	}
	out, perr, pm := printDst(f)
	if pm != "" || perr != nil {
		return "c19-render", fmt.Sprintf("printing the list %q at %s failed: %v %s", want, in.Host, perr, pm)
	}
	if h.top {
		for _, e := range want {
			if !strings.Contains(e, "\n") {
				continue
			}
			if b, err := format.Source([]byte("package a\n\n" + e + "\nfunc g() {}\n")); err != nil || !strings.Contains(string(b), e) {
				return "", "" // gofmt rewrites this text as a doc comment: not the rendering of the list
			}
		}
	}
	text := h.pre + c19WriteOut(want, h.indent, !h.end, h.end) + h.post
	ref, err := format.Source([]byte(text))
	if err != nil {
		return "", "" // the written-out list is not a Go source (cannot happen with these hosts)
	}
	if out != string(ref) {
		return "c19-render-layout", fmt.Sprintf("All() = %q at %s is rendered as\n%s\ngofmt of the list written out at that point:\n%s", want, in.Host, out, ref)
	}
	return "", ""
}

func c19RenderLayout(c *Ctx) {
	hosts := make([]string, 0, len(c19LayoutHosts))
	for h := range c19LayoutHosts {
		hosts = append(hosts, h)
	}
	sort.Strings(hosts)
	elem := func(top bool, i, k int) string {
		n := c.Rng.Intn(9)
		if top && n >= 5 && n <= 7 {
			// a doc comment with two paragraphs, as gofmt writes it
			return fmt.Sprintf("/*\nText d%d-%d.\n\nSecond paragraph.\n*/", i, k)
		}
		switch n {
		case 0, 1:
			return "\n"
		case 2, 3:
			return fmt.Sprintf("// c%d-%d", i, k)
		case 4:
			return fmt.Sprintf("/* b%d-%d */", i, k)
		case 5:
			return fmt.Sprintf("/* m%d-%d\n   second line */", i, k)
		case 6:
			// an empty line inside the text
			return fmt.Sprintf("/* p%d-%d\n\n   q */", i, k)
		case 7:
			// commented-out code with empty lines, the closing on a line of its own
			return fmt.Sprintf("/*\n\tcode%d_%d()\n\n\n\tmore()\n*/", i, k)
		default:
			// a cgo-preamble style text
			return fmt.Sprintf("/*\n#include <h%d_%d.h>\n\nint f(void);\n*/", i, k)
		}
	}
	for i := 0; i < c.N(120); i++ {
		in := c19Layout{Host: hosts[c.Rng.Intn(len(hosts))]}
		for n := 1 + c.Rng.Intn(3); n > 0; n-- {
			op := c19LayoutOp{Kind: []string{"Append", "Append", "Prepend", "Replace"}[c.Rng.Intn(4)]}
			if c.Rng.Intn(12) == 0 {
				op.Kind = "Clear"
			} else {
				for k := 1 + c.Rng.Intn(3); k > 0; k-- {
					op.Elems = append(op.Elems, elem(c19LayoutHosts[in.Host].top, i, len(in.Ops)*4+k))
				}
			}
			in.Ops = append(in.Ops, op)
		}
		c.Res.Evaluations++
		c.Res.hist("ops", "render-layout")
		c.Res.hist("render-layout-host", in.Host)
		if key, what := c19LayoutRun(in); key != "" {
			c.Res.fail(key, what, in)
		}
	}
}

func appendCase(m map[string][]string, name string, v interface{}) map[string][]string {
	if m == nil {
		m = map[string][]string{}
	}
	b, _ := json.Marshal(v)
	m[name] = append(m[name], string(b))
	return m
}

func init() {
	// "what All returns is what is rendered" also for a comment that spans lines on the nodes whose End
	// comments go into a Comment field (the C04 scenarios: the list is filled through Replace)
	props["C19"] = func(c *Ctx) { c19(c); c04CommentFieldMultiline(c) }
	replays["C19"] = func(c *Ctx, input json.RawMessage) (bool, string) {
		if handled, fails, msg := replayFixed(c, input, c04CommentFieldMultiline); handled {
			return fails, msg
		}
		var lay c19Layout
		if err := json.Unmarshal(input, &lay); err == nil && lay.Host != "" {
			key, what := c19LayoutRun(lay)
			return key != "", what
		}
		var h c19Hist
		if err := json.Unmarshal(input, &h); err != nil {
			return false, "bad input: " + err.Error()
		}
		_, _, fk, fw := c19Run(h)
		if fk != "" {
			return true, fk + ": " + fw
		}
		return false, "history behaves like the reference list"
	}
}
