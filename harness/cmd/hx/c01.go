package main

import (
	"bytes"
	"encoding/json"
	"fmt"
	"go/format"
	"go/parser"
	"go/token"
	"math/rand"
	"os"
	"path/filepath"
	"strings"

	"github.com/dave/dst"
	"github.com/dave/dst/decorator"
)

// C01 on the implementation: gofmt-canonical files through every entry point.

type c01Input struct {
	Src   string `json:"src"`
	Entry string `json:"entry"` // parse-print | decorator-restorer | parsedir
}

func c01RoundTrip(c *Ctx, in c01Input) (out string, err error, pm string) {
	switch in.Entry {
	case "parse-print":
		pm = safely(func() {
			var f *dst.File
			f, err = decorator.Parse(in.Src)
			if err != nil {
				return
			}
			var buf bytes.Buffer
			err = decorator.Fprint(&buf, f)
			out = buf.String()
		})
	case "decorator-restorer":
		pm = safely(func() {
			// caller-supplied file sets that already hold other files
			fset := token.NewFileSet()
			fset.AddFile("earlier.go", -1, 777)
			dec := decorator.NewDecorator(fset)
			var f *dst.File
			f, err = dec.ParseFile("x.go", in.Src, parser.ParseComments)
			if err != nil {
				return
			}
			rfset := token.NewFileSet()
			rfset.AddFile("other.go", -1, 4242)
			r := decorator.NewRestorer()
			r.Fset = rfset
			af, e := r.RestoreFile(f)
			if e != nil {
				err = e
				return
			}
			var buf bytes.Buffer
			err = format.Node(&buf, rfset, af)
			out = buf.String()
		})
	case "filerestorer-reuse":
		// one explicit FileRestorer restores this file, then a second file, into the caller's
		// FileSet; only then are both printed ("restore all, then print all")
		pm = safely(func() {
			dec := decorator.NewDecorator(token.NewFileSet())
			f1, e := dec.ParseFile("a.go", in.Src, parser.ParseComments)
			if e != nil {
				err = e
				return
			}
			f2, e := dec.ParseFile("b.go", c01Partner, parser.ParseComments)
			if e != nil {
				err = e
				return
			}
			res := decorator.NewRestorer()
			res.Fset = token.NewFileSet()
			fr := res.FileRestorer()
			fr.Name = "a.go"
			a1, e := fr.RestoreFile(f1)
			if e != nil {
				err = e
				return
			}
			fr.Name = "b.go"
			a2, e := fr.RestoreFile(f2)
			if e != nil {
				err = e
				return
			}
			var b1, b2 bytes.Buffer
			if err = format.Node(&b1, res.Fset, a1); err != nil {
				return
			}
			if err = format.Node(&b2, res.Fset, a2); err != nil {
				return
			}
			out = b1.String()
			if b2.String() != c01Partner {
				out = "<<partner file changed>>\n" + b2.String()
			}
		})
	case "parsedir-package":
		// the file in a directory with a second file of the same package: both come back unchanged
		// (one fileDecorator fragments the whole package; one file's layout must not leak into another's)
		name := c01PackageName(in.Src)
		if name == "" {
			return in.Src, nil, ""
		}
		partner := strings.Replace(c01DirPartner, "package a\n", "package "+name+"\n", 1)
		dir, e := os.MkdirTemp(filepath.Join(c.Verif, ".build"), "c01p-")
		if e != nil {
			return "", e, ""
		}
		defer os.RemoveAll(dir)
		os.WriteFile(filepath.Join(dir, "x.go"), []byte(in.Src), 0644)
		os.WriteFile(filepath.Join(dir, "y.go"), []byte(partner), 0644)
		pm = safely(func() {
			dec := decorator.NewDecorator(token.NewFileSet())
			pkgs, e := dec.ParseDir(dir, nil, parser.ParseComments)
			if e != nil {
				err = e
				return
			}
			out = in.Src
			for _, p := range pkgs {
				for fn, f := range p.Files {
					var buf bytes.Buffer
					if err = decorator.NewRestorer().Fprint(&buf, f); err != nil {
						return
					}
					switch filepath.Base(fn) {
					case "x.go":
						if buf.String() != in.Src {
							out = buf.String()
						}
					case "y.go":
						if buf.String() != partner && out == in.Src {
							out = "<<partner file changed>>\n" + buf.String()
						}
					}
				}
			}
		})
	case "parsedir":
		dir, e := os.MkdirTemp(filepath.Join(c.Verif, ".build"), "c01-")
		if e != nil {
			return "", e, ""
		}
		defer os.RemoveAll(dir)
		os.WriteFile(filepath.Join(dir, "x.go"), []byte(in.Src), 0644)
		pm = safely(func() {
			dec := decorator.NewDecorator(token.NewFileSet())
			pkgs, e := dec.ParseDir(dir, nil, parser.ParseComments)
			if e != nil {
				err = e
				return
			}
			for _, p := range pkgs {
				for _, f := range p.Files {
					var buf bytes.Buffer
					err = decorator.NewRestorer().Fprint(&buf, f)
					out = buf.String()
				}
			}
		})
	}
	return
}

func c01Check(c *Ctx, in c01Input) (key, what string) {
	if !isCanonical(in.Src) {
		return "", ""
	}
	out, err, pm := c01RoundTrip(c, in)
	if pm != "" {
		return "c01-panic", in.Entry + " panicked: " + pm
	}
	if err != nil {
		return "c01-error", in.Entry + " failed: " + err.Error()
	}
	if out != in.Src {
		k := "c01-bytes"
		// the two recorded finding classes (both in go/printer's column tests, see DESIGN 4.1)
		if c01HasColumn1LineDirective(in.Src) {
			k = "line-directive-in-indented-code"
		} else if c01HasCommentAlignedWithCloser(in.Src, out) {
			k = "own-line-comment-aligned-with-closer"
		} else if kk, ok := c01KnownInputs[in.Src]; ok {
			k = kk
		}
		return k, in.Entry + ": decorate + print changed a gofmt-canonical file:\n" + firstDiff(in.Src, out)
	}
	return "", ""
}

// a //line directive at column 1 on a line of its own inside an indented region
func c01HasColumn1LineDirective(src string) bool {
	lines := strings.Split(src, "\n")
	for i, l := range lines {
		if strings.HasPrefix(l, "//line ") && i+1 < len(lines) && strings.HasPrefix(lines[i+1], "\t") {
			return true
		}
	}
	return false
}

// the only difference is the indentation of own-line comments directly before a closing ) or }
func c01HasCommentAlignedWithCloser(src, out string) bool {
	a, b := strings.Split(src, "\n"), strings.Split(out, "\n")
	if len(a) != len(b) {
		return false
	}
	diff := false
	for i := range a {
		if a[i] == b[i] {
			continue
		}
		if strings.TrimSpace(a[i]) != strings.TrimSpace(b[i]) || !strings.HasPrefix(strings.TrimSpace(a[i]), "//") {
			return false
		}
		// followed (after further comment lines) by a closer at the comment's own column
		j := i + 1
		for j < len(a) && strings.HasPrefix(strings.TrimSpace(a[j]), "//") {
			j++
		}
		if j >= len(a) {
			return false
		}
		t := strings.TrimSpace(a[j])
		if !(strings.HasPrefix(t, ")") || strings.HasPrefix(t, "}")) {
			return false
		}
		diff = true
	}
	return diff
}

const c01Partner = "package a\n\nvar (\n\ta = 1\n\tb = 2\n\n\t// c\n\tc = 3\n\td = 4 // d\n)\n\nfunc g() {\n\tif a > b {\n\t\treturn\n\t}\n}\n"

// a second file for the directory entry: a multi-line raw string, a multi-line comment and a long
// run of statements separated by blank lines (so that blank lines sit at many line numbers)
var c01DirPartner = func() string {
	var sb strings.Builder
	sb.WriteString("package a\n\nvar partnerRaw = `l1\nl2\nl3\nl4\nl5\nl6\nl7\nl8\nl9`\n\n/*\n   block\n   comment\n*/\n\nfunc partnerF() {\n\ta := 0\n")
	for i := 1; i <= 40; i++ {
		sb.WriteString("\n\ta += " + fmt.Sprint(i) + "\n")
	}
	sb.WriteString("\n\t_ = a\n}\n\nvar partnerTail = `t1\nt2\nt3`\n")
	return sb.String()
}()

func c01PackageName(src string) string {
	f, err := parser.ParseFile(token.NewFileSet(), "x.go", src, parser.PackageClauseOnly)
	if err != nil || f.Name == nil {
		return ""
	}
	return f.Name.Name
}

// inputs of fixed defects: they must stay fixed (two files of one package: a raw string in the
// partner spans the line numbers of this file's blank lines)
var c01Regress = []c01Input{
	// fix 3dd4b07: a "\n" decoration began its line at the end of the preceding node
	{Src: "package a\n\nfunc f(\n\ta int,\n\tb string,\n\t/* c */) {\n}\n", Entry: "parse-print"},
	{Src: "package a\n\nimport (\n\t\"fmt\"\n\t\"os\"\n)\n\nfunc f(\n\ta int,\n\tb string,\n\t/* c */) {\n\tfmt.Println(os.Args)\n}\n", Entry: "parse-print"},
	{Src: "package a\n\nfunc f() (*T, error) {\n\treturn &T{\n\t\tA: 1,\n\t}, nil\n\t// not reached\n}\n", Entry: "decorator-restorer"},
	{Src: "package a\n\nfunc (s byName) Len() int      { return len(s) }\nfunc (s byName) Swap(i, j int) { s[i], s[j] = s[j], s[i] }\n\n// TODO: more\n", Entry: "parse-print"},
	{Src: "package a\n\nfunc F() {\n\tx := 1\n\n\ty := 2\n\n\t_, _ = x, y\n}\n", Entry: "parsedir-package"},
	{Src: "package a\n\nfunc F() {}\n\n// trailing a\n", Entry: "parsedir-package"},
	{Src: "package a\n\n//go:generate x\n//go:generate y\n", Entry: "parsedir-package"},
	{Src: "package a\n\nvar s = `a\nb\nc\nd\ne\nf\ng\nh\ni\nj\nk\nl\nm\nn\no\np\nq\nr\ns\nt\nu\nv`\n", Entry: "parsedir-package"},
}

// exact inputs of recorded findings (found by a fuzzer of comment placements in canonical files; each
// stands for a class described in known_findings.json)
var c01KnownInputs = map[string]string{
	"package a\n\nfunc f() {\n\tswitch x {\n\tcase 1:\n\t\tfoo(a,\n\t\t\tb)\n\t\t// falls out\n\tcase 2:\n\t}\n}\n": "case-body-comment-after-continuation-line",
	"package a\n\nconst (\n\tx = \"aaa\" +\n\t\t\"bbb\"\n\t// TODO: more\n\n\ty = 1\n)\n":                           "comment-after-multi-line-spec-gains-indent",
	"package a\n\nvar (\n\ta = 1 +\n\t\t2\n\t\t// c\n\tb = 2\n)\n":                                                  "continuation-column-comment-dedented",
	"package a\n\nconst (\n\tusage = `x\ny` // c\n\tother = 1 // d\n)\n":                                            "comment-after-multi-line-raw-string-in-group",
	"/* c\nd */package a\n": "block-comment-abutting-package-clause",
	"package a\n\nfunc f() {\n\tswitch x {\n\tcase 2:\n\t\tb()\n\t\t/* c\n\t\td */case 3:\n\t\t// only comment\n\tdefault:\n\t}\n}\n": "multi-line-block-comment-before-case",
	"package a\n\nfunc f() {\n\tfor k,/* c */ // c\n\tv := range m {\n\t\t_, _ = k, v\n\t}\n}\n":                                      "comments-after-range-key-comma",
	"package a\n\nvar a, b = 1,\n\t2\n\n\t\t// c\nfunc a1() int { return 1 }\n":                                                       "indented-comment-after-multi-line-top-level-decl",
	"package a\n\ntype A /*1*/ [P any] = /*3*/ B[P]\n":                                                                                "generic-alias-assign-before-type-params",
}

var c01Known = []string{
	"package a\n\nvar (\n\ta = 1\n\n// c\n)\n",
	"package a\n\nfunc f() {\n\tfoo(\n\t\ta,\n\t// c\n\t)\n}\n",
	"package a\n\nfunc f() {\n\ta()\n//line x.go:10\n\tb()\n}\n",
}

// Layouts of comments that hang at the indent of a continuation line / of a clause body (the
// hanging-indent handling of link(): findIndentedComments and the start / end indents of every line),
// generated as a product so that every combination occurs that gofmt accepts as canonical:
//
//   - package level: a declaration that ends on a continuation line; comments at the continuation
//     indent; comments in column one; an empty line or none; the next declaration (const, func,
//     type, parenthesised var -- the next node is a Decl, not a Stmt)
//   - case / comm clauses (expression switch, type switch, select; empty body, one / two statements,
//     a nested block): comments at the body indent; comments at the 'case' indent, directly or after an
//     empty line; the next clause
//   - statements in a function body that end on a continuation line (call, assignment, DeclStmt,
//     return), with the same followers
//
// each of them plain and after a line directive at package level (//line and /*line*/ form, with and
// without column, without file name, attached to the declaration or detached): a directive changes
// what FileSet.Position reports for everything behind it (without a column: column 0), and must not
// change how the file is printed. Non-canonical combinations are skipped by the caller.
func c01HangingLayouts() []string {
	var out []string
	directives := []string{"", "//line gen.y:10\n", "//line gen.y:10\n\n", "//line gen.y:10:1\n", "/*line gen.y:10*/\n", "/*line gen.y:10*/\n\n", "//line :7\n\n"}
	seps := []string{"", "\n"}

	heads := []string{"const a = 1 +\n\t1\n", "var x = p ||\n\tq\n", "var x = f(1,\n\t2)\n", "type T = map[string]func(a,\n\tb int)\n"}
	hang := []string{"", "\t// remark\n", "\t// remark\n\t// second\n", "\t/* remark */\n"}
	col1 := []string{"", "// next\n", "// next\n// more\n"}
	nexts := []string{"const b = 2\n", "func g() {}\n", "type U int\n", "var (\n\ty = 1\n)\n"}
	for _, d := range directives {
		for _, h := range heads {
			for _, hg := range hang {
				for _, c1 := range col1 {
					for _, s := range seps {
						for _, n := range nexts {
							out = append(out, "package a\n\n"+d+h+hg+c1+s+n)
						}
					}
				}
			}
		}
	}

	clauses := [][3]string{
		{"\tswitch x {\n", "\tcase 1:\n", "\tcase 2:\n"},
		{"\tswitch x {\n", "\tcase 1:\n", "\tdefault:\n"},
		{"\tswitch y := x.(type) {\n", "\tcase int:\n", "\tcase nil:\n"},
		{"\tselect {\n", "\tcase <-c:\n", "\tcase c <- 1:\n"},
	}
	bodies := []string{"", "\t\tg()\n", "\t\tg()\n\t\th()\n", "\t\tif x {\n\t\t\tg()\n\t\t}\n"}
	bhang := []string{"", "\t\t// remark\n", "\t\t// remark\n\t\t// second\n", "\t\t/* remark */\n"}
	lead := []string{"", "\t// lead of next\n", "\n\t// lead of next\n"}
	for _, d := range directives {
		for _, cl := range clauses {
			for _, b := range bodies {
				for _, hg := range bhang {
					for _, l := range lead {
						out = append(out, "package a\n\n"+d+"func f() {\n"+cl[0]+cl[1]+b+hg+l+cl[2]+"\t\tg()\n\t}\n}\n")
					}
				}
			}
		}
	}

	stmts := []string{"\tfoo(a,\n\t\tb)\n", "\tx := a ||\n\t\tb\n", "\tconst k = 1 +\n\t\t2\n", "\treturn a,\n\t\tb\n"}
	shang := []string{"", "\t\t// remark\n", "\t\t// remark\n\t\t// second\n"}
	snext := []string{"", "\t// next\n"}
	sfollow := []string{"\tbar()\n", "\tvar z int\n", ""}
	for _, d := range directives {
		for _, st := range stmts {
			for _, hg := range shang {
				for _, n := range snext {
					for _, s := range seps {
						for _, fo := range sfollow {
							out = append(out, "package a\n\n"+d+"func f() {\n"+st+hg+n+s+fo+"}\n")
						}
					}
				}
			}
		}
	}
	return out
}

func c01Prop(c *Ctx) {
	c.Res.Rule = "gofmt-canonical files: hand corpus, /repo's own sources, files sampled from $GOROOT/src (any size up to 60 kB), each through the entry points (string helpers; explicit Decorator/Restorer on caller file sets that already hold files; one FileRestorer reused for two files, printed afterwards; ParseDir); a generated family of comments hanging at a continuation / clause-body indent at package level and in function bodies, plain and behind line directives; plus the recorded finding inputs; non-trivial = distinct (file, entry)"
	var srcs []string
	srcs = append(srcs, sinkSources...)
	srcs = append(srcs, linkExtra...)
	srcs = append(srcs, c08Sources...)
	filepath.Walk(c.Repo, func(p string, info os.FileInfo, err error) error {
		if err == nil && !info.IsDir() && strings.HasSuffix(p, ".go") && !strings.Contains(p, "/.git/") && info.Size() < 150000 {
			if b, err := os.ReadFile(p); err == nil {
				srcs = append(srcs, string(b))
			}
		}
		return nil
	})
	files := gorootFiles(60000)
	for i := 0; i < c.N(70) && len(files) > 0; i++ {
		if b, err := os.ReadFile(files[c.Rng.Intn(len(files))]); err == nil {
			srcs = append(srcs, string(b))
		}
	}
	entries := []string{"parse-print", "decorator-restorer", "filerestorer-reuse", "parsedir", "parsedir-package"}
	canonical := 0
	for i, src := range srcs {
		if !isCanonical(src) {
			continue
		}
		canonical++
		for ei, e := range entries {
			if (e == "parsedir" && i%4 != 0) || (e == "parsedir-package" && i%3 != 0) {
				continue
			}
			_ = ei
			in := c01Input{Src: src, Entry: e}
			c.Res.Evaluations++
			c.Res.seen(fmt.Sprint(len(src), e, src[:min(50, len(src))]))
			c.Res.hist("c01-entry", e)
			if key, what := c01Check(c, in); key != "" {
				in.Src = clipKeep(in.Src)
				c.Res.fail(key, what, in)
			}
		}
	}
	c.Res.Notes = append(c.Res.Notes, fmt.Sprintf("%d of %d candidate files are gofmt-canonical", canonical, len(srcs)))
	// the hanging-comment layouts: every canonical one through the string helpers and through one
	// further entry point (which one rotates with the run's seed)
	layouts, layoutsCanonical := c01HangingLayouts(), 0
	lrng := rand.New(rand.NewSource(c.Seed))
	off := lrng.Intn(len(entries) - 1)
	for i, src := range layouts {
		if !isCanonical(src) {
			continue
		}
		layoutsCanonical++
		for _, e := range []string{"parse-print", entries[1+(i+off)%(len(entries)-1)]} {
			in := c01Input{Src: src, Entry: e}
			c.Res.Evaluations++
			c.Res.seen(fmt.Sprint("layout", e, src))
			c.Res.hist("c01-entry", e)
			if key, what := c01Check(c, in); key != "" {
				c.Res.fail(key, what, in)
			}
		}
	}
	c.Res.Notes = append(c.Res.Notes, fmt.Sprintf("%d of %d hanging-comment layouts are gofmt-canonical", layoutsCanonical, len(layouts)))
	for _, in := range c01Regress {
		c.Res.Evaluations++
		c.Res.hist("c01-entry", in.Entry)
		if key, what := c01Check(c, in); key != "" {
			c.Res.fail(key, what, in)
		}
	}
	for src := range c01KnownInputs {
		in := c01Input{Src: src, Entry: "parse-print"}
		c.Res.Evaluations++
		if key, what := c01Check(c, in); key != "" {
			c.Res.fail(key, what, in)
		}
	}
	for _, src := range c01Known {
		in := c01Input{Src: src, Entry: "parse-print"}
		c.Res.Evaluations++
		if key, what := c01Check(c, in); key != "" {
			c.Res.fail(key, what, in)
		}
	}
	c.Res.Samples = append(c.Res.Samples, map[string]string{"entry": "decorator-restorer", "src": clip(srcs[0], 200)})
}

// keep failing inputs replayable but bounded
func clipKeep(s string) string {
	if len(s) > 400000 {
		return s[:400000]
	}
	return s
}

func init() {
	props["C01"] = c01Prop
	corrs["C01"] = func(c *Ctx) { linkCorr(c); pipeCorr(c) }
	replays["C01"] = func(c *Ctx, raw json.RawMessage) (bool, string) {
		var in c01Input
		if err := json.Unmarshal(raw, &in); err != nil || in.Src == "" {
			return false, "not a C01 generated input"
		}
		key, what := c01Check(c, in)
		return key != "", what
	}
}
