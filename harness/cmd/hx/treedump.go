package main

import (
	"fmt"
	"go/token"
	"reflect"
	"sort"
	"strings"

	"github.com/dave/dst"
)

// treeDumper turns a real dst tree into a Coq term of type Model.Tree.tree.  Kids are
// emitted in struct-field order (what conformsb expects); node ids are assigned in
// preorder; strings are interned to small uids.
type treeDumper struct {
	ids     map[dst.Node]int
	nodes   []dst.Node
	strs    map[string]int
	refs    map[interface{}]int
	shared  bool // a node was reached twice
	maxNode int
}

func newTreeDumper() *treeDumper {
	return &treeDumper{ids: map[dst.Node]int{}, strs: map[string]int{}, refs: map[interface{}]int{}}
}

var dstNodeType = reflect.TypeOf((*dst.Node)(nil)).Elem()
var decsType = reflect.TypeOf(dst.Decorations(nil))

func (d *treeDumper) strID(s string) int {
	if s == "" {
		return 0 // the zero string is uid 0 in the model (zero_val)
	}
	if id, ok := d.strs[s]; ok {
		return id
	}
	id := len(d.strs) + 1
	d.strs[s] = id
	return id
}

func nlOffsets(s string) string {
	var p []string
	for i := 0; i < len(s); i++ {
		if s[i] == '\n' {
			p = append(p, fmt.Sprint(i))
		}
	}
	if len(p) == 0 {
		return "[]"
	}
	return "[" + strings.Join(p, "; ") + "]%Z"
}

func (d *treeDumper) decTerm(s string) string {
	switch {
	case s == "\n":
		return "DNl"
	case strings.HasPrefix(s, "//"):
		return fmt.Sprintf("DLine %d %d", len(s), d.strID(s))
	case strings.HasPrefix(s, "/*"):
		return fmt.Sprintf("DBlock %d %s %d", len(s), nlOffsets(s), d.strID(s))
	}
	return fmt.Sprintf("DOther %d %d", len(s), d.strID(s))
}

func spaceTerm(s dst.SpaceType) string {
	switch s {
	case dst.NewLine:
		return "SNewLine"
	case dst.EmptyLine:
		return "SEmptyLine"
	}
	return "SNone"
}

func isNilNode(v reflect.Value) bool {
	switch v.Kind() {
	case reflect.Interface, reflect.Ptr:
		if v.IsNil() {
			return true
		}
		if v.Kind() == reflect.Interface {
			return isNilNode(v.Elem())
		}
	}
	return false
}

func kindName(n dst.Node) string {
	return strings.TrimPrefix(reflect.TypeOf(n).String(), "*dst.")
}

func (d *treeDumper) id(n dst.Node) int {
	if id, ok := d.ids[n]; ok {
		d.shared = true
		return id
	}
	id := len(d.ids) + 1
	d.ids[n] = id
	d.nodes = append(d.nodes, n)
	return id
}

// Dump returns the Coq term for n.
func (d *treeDumper) Dump(n dst.Node) string {
	id := d.id(n)
	rv := reflect.ValueOf(n).Elem()
	rt := rv.Type()
	var vals, kids, decs []string
	before, after := "SNone", "SNone"
	for i := 0; i < rt.NumField(); i++ {
		f := rt.Field(i)
		fv := rv.Field(i)
		switch {
		case f.Name == "Decs":
			d.dumpDecs(fv, &decs, &before, &after)
		case f.Type.Implements(dstNodeType) && (f.Type.Kind() == reflect.Interface || f.Type.Kind() == reflect.Ptr):
			if isNilNode(fv) {
				kids = append(kids, fmt.Sprintf("(%q, One None)", f.Name))
			} else {
				kids = append(kids, fmt.Sprintf("(%q, One (Some (%s)))", f.Name, d.Dump(fv.Interface().(dst.Node))))
			}
		case f.Type.Kind() == reflect.Slice && f.Type.Elem().Implements(dstNodeType):
			if rt.Name() == "File" && (f.Name == "Imports" || f.Name == "Unresolved") {
				continue // aliases / resolution data, not syntactic children
			}
			var es []string
			for j := 0; j < fv.Len(); j++ {
				ev := fv.Index(j)
				if isNilNode(ev) {
					continue
				}
				es = append(es, d.Dump(ev.Interface().(dst.Node)))
			}
			kids = append(kids, fmt.Sprintf("(%q, Many [%s])", f.Name, strings.Join(es, "; ")))
		case f.Type.Kind() == reflect.Map && f.Type.Elem().Implements(dstNodeType):
			keys := fv.MapKeys()
			sort.Slice(keys, func(a, b int) bool { return keys[a].String() < keys[b].String() })
			var es []string
			for _, k := range keys {
				es = append(es, d.Dump(fv.MapIndex(k).Interface().(dst.Node)))
			}
			kids = append(kids, fmt.Sprintf("(%q, Many [%s])", f.Name, strings.Join(es, "; ")))
		case f.Type.Kind() == reflect.Bool:
			vals = append(vals, fmt.Sprintf("(%q, VBool %v)", f.Name, fv.Bool()))
		case f.Type.Kind() == reflect.String:
			s := fv.String()
			nls := "[]"
			if strings.HasPrefix(s, "`") {
				nls = nlOffsets(s)
			}
			vals = append(vals, fmt.Sprintf("(%q, VStr %d %s %d)", f.Name, len(s), nls, d.strID(s)))
		case f.Type == reflect.TypeOf(token.Token(0)):
			vals = append(vals, fmt.Sprintf("(%q, VTok %q)", f.Name, token.Token(fv.Int()).String()))
		case f.Type.Kind() == reflect.Int:
			v := fv.Int()
			if v < 0 {
				vals = append(vals, fmt.Sprintf("(%q, VInt (%d))", f.Name, v))
			} else {
				vals = append(vals, fmt.Sprintf("(%q, VInt %d)", f.Name, v))
			}
		case f.Type.Kind() == reflect.Ptr || f.Type.Kind() == reflect.Map:
			r := 0
			if !fv.IsNil() {
				key := fv.Pointer()
				if id, ok := d.refs[key]; ok {
					r = id
				} else {
					r = len(d.refs) + 1
					d.refs[key] = r
				}
			}
			vals = append(vals, fmt.Sprintf("(%q, VRef %d)", f.Name, r))
		}
	}
	return fmt.Sprintf("Node %d %q [%s] [%s] [%s] %s %s", id, kindName(n),
		strings.Join(vals, "; "), strings.Join(kids, "; "), strings.Join(decs, "; "), before, after)
}

func (d *treeDumper) dumpDecs(dv reflect.Value, decs *[]string, before, after *string) {
	dt := dv.Type()
	var start, end string
	var named []string
	for i := 0; i < dt.NumField(); i++ {
		f := dt.Field(i)
		fv := dv.Field(i)
		if f.Anonymous && f.Type == reflect.TypeOf(dst.NodeDecs{}) {
			nd := fv.Interface().(dst.NodeDecs)
			*before = spaceTerm(nd.Before)
			*after = spaceTerm(nd.After)
			start = fmt.Sprintf("(\"Start\", [%s])", d.decList(nd.Start))
			end = fmt.Sprintf("(\"End\", [%s])", d.decList(nd.End))
			continue
		}
		if f.Type == decsType {
			named = append(named, fmt.Sprintf("(%q, [%s])", f.Name, d.decList(fv.Interface().(dst.Decorations))))
		}
	}
	if start != "" {
		*decs = append(*decs, start)
	}
	*decs = append(*decs, named...)
	if end != "" {
		*decs = append(*decs, end)
	}
}

func (d *treeDumper) decList(ds dst.Decorations) string {
	var p []string
	for _, s := range ds {
		p = append(p, d.decTerm(s))
	}
	return strings.Join(p, "; ")
}

const coqCaseHeader = "From Coq Require Import List String ZArith NArith Bool.\nImport ListNotations.\nFrom DV Require Import Model.Tree Model.Tables.\nLocal Open Scope string_scope.\nLocal Open Scope list_scope.\n"
