package main

import (
	"bytes"
	"encoding/json"
	"fmt"
	"go/parser"
	"go/token"
	"os"
	"path/filepath"
	"strings"

	"github.com/dave/dst"
	"github.com/dave/dst/decorator"
)

// C15 on the implementation: byte strings of every kind -- valid sources in many layouts,
// truncated, corrupted, token-deleted, garbage, empty -- through the parse entry points; every
// tree that comes back (also one that comes back together with an error) through Fprint.
// Neither may panic.

type c15Input struct {
	Src  string `json:"src"`
	Kind string `json:"kind"`
	// Dir: the bytes are also put into a directory (with a second, well-formed file) and parsed through
	// Decorator.ParseDir, without and with the syntax-only identifier resolver; the packages are printed
	Dir bool `json:"dir,omitempty"`
	// Reuse: the tree is also printed by a Restorer that has printed another file before, and by a
	// Restorer whose Fset is the (populated) FileSet of the decorator
	Reuse bool `json:"reuse,omitempty"`
}

var c15Scratch string // set by c15Prop: a directory under /verif/.build

func c15Check(in c15Input) (key, what string) {
	var f *dst.File
	var err error
	if pm := safely(func() { f, err = decorator.Parse(in.Src) }); pm != "" {
		return "c15-parse-panic", "Parse panicked: " + pm
	}
	if f == nil {
		if err == nil {
			return "c15-no-result", "Parse returned neither a tree nor an error"
		}
		return "", ""
	}
	var perr error
	if pm := safely(func() { _, perr, _ = printDst(f) }); pm != "" {
		return "c15-print-panic", "Fprint panicked on a tree Parse returned: " + pm
	}
	_, perr2, pm := printDst(f)
	_ = perr
	_ = perr2
	if pm != "" {
		return "c15-print-panic", "Fprint panicked on a tree Parse returned: " + pm
	}
	// the explicit decorator / restorer entry points on the same bytes
	if pm := safely(func() {
		d := decorator.NewDecorator(nil)
		g, e := d.ParseFile("x.go", []byte(in.Src), 0)
		if g != nil && e == nil {
			decorator.NewRestorer().RestoreFile(g)
		}
	}); pm != "" {
		return "c15-entry-panic", "Decorator.ParseFile / Restorer.RestoreFile panicked: " + pm
	}
	// the import-managing configuration of the same entry points: a decorator with the syntax-only
	// identifier resolver on the bytes, and the import-managing restorer on the tree Parse returned
	if pm := safely(func() {
		g, _ := decorator.NewDecoratorWithImports(nil, "example.com/a", goastNew()).Parse(in.Src)
		if g != nil {
			var buf bytes.Buffer
			decorator.NewRestorerWithImports("example.com/a", guessNew()).Fprint(&buf, g)
		}
	}); pm != "" {
		return "c15-managed-panic", "NewDecoratorWithImports(goast).Parse / NewRestorerWithImports(guess).Fprint panicked: " + pm
	}
	if pm := safely(func() {
		var buf bytes.Buffer
		decorator.NewRestorerWithImports("example.com/a", guessNew()).Fprint(&buf, f)
	}); pm != "" {
		return "c15-managed-panic", "NewRestorerWithImports(guess).Fprint panicked on a tree Parse returned: " + pm
	}
	// printing through a restorer whose FileSet is not empty (the synthetic file does not start at
	// base 1): one Restorer that prints several files one after another (as Package.Save does for the
	// files of a package), here a well-formed partner file and then the tree Parse returned ...
	if in.Reuse {
		if pm := safely(func() {
			r := decorator.NewRestorer()
			var buf bytes.Buffer
			if p, e := decorator.Parse(c15Partner); e == nil {
				r.Fprint(&buf, p)
			}
			r.Fprint(&buf, f)
		}); pm != "" {
			return "c15-reuse-panic", "a Restorer that had printed a file before panicked in Fprint on a tree Parse returned: " + pm
		}
		// ... and a Restorer whose Fset is set to a pre-existing FileSet (Restorer.Fset: "Set this to use a
		// pre-existing FileSet"): the decorator's own, which holds the parsed file
		if pm := safely(func() {
			fset := token.NewFileSet()
			g, _ := decorator.NewDecorator(fset).Parse(in.Src)
			if g != nil {
				r := decorator.NewRestorer()
				r.Fset = fset
				var buf bytes.Buffer
				r.Fprint(&buf, g)
			}
		}); pm != "" {
			return "c15-fileset-panic", "a Restorer with Fset set to the decorator's (populated) FileSet panicked in Fprint on a tree that decorator returned: " + pm
		}
	}
	if in.Dir && c15Scratch != "" {
		dir, e := os.MkdirTemp(c15Scratch, "c15-")
		if e != nil {
			return "", ""
		}
		defer os.RemoveAll(dir)
		os.WriteFile(filepath.Join(dir, "x.go"), []byte(in.Src), 0644)
		os.WriteFile(filepath.Join(dir, "y.go"), []byte("package a\n\nimport \"fmt\"\n\nfunc partner() { fmt.Println() }\n"), 0644)
		for _, withResolver := range []bool{false, true} {
			if pm := safely(func() {
				d := decorator.NewDecorator(token.NewFileSet())
				if withResolver {
					d = decorator.NewDecoratorWithImports(token.NewFileSet(), "example.com/a", goastNew())
				}
				pkgs, e := d.ParseDir(dir, nil, parser.ParseComments)
				if e != nil {
					return
				}
				for _, p := range pkgs {
					for _, f := range p.Files {
						var buf bytes.Buffer
						if withResolver {
							decorator.NewRestorerWithImports("example.com/a", guessNew()).Fprint(&buf, f)
						} else {
							decorator.NewRestorer().Fprint(&buf, f)
						}
					}
				}
			}); pm != "" {
				return "c15-dir-panic", fmt.Sprintf("Decorator.ParseDir (identifier resolver: %v) + Fprint panicked: %s", withResolver, pm)
			}
		}
	}
	return "", ""
}

// a well-formed file with general comments that span lines, raw strings and line comments
const c15Partner = "/*\nPackage a: partner file.\n\nSecond paragraph.\n*/\npackage a\n\nimport \"fmt\" // fmt\n\n/* partner\n   prints */\nfunc partner() {\n\tfmt.Println(`raw\nstring`) /* after\n\tthe call */\n}\n"

func c15Corrupt(c *Ctx, src string, kind string) string {
	b := []byte(src)
	if len(b) == 0 {
		return src
	}
	switch kind {
	case "truncate":
		return string(b[:c.Rng.Intn(len(b))])
	case "delete":
		i := c.Rng.Intn(len(b))
		n := 1 + c.Rng.Intn(8)
		if i+n > len(b) {
			n = len(b) - i
		}
		return string(append(append([]byte{}, b[:i]...), b[i+n:]...))
	case "flip":
		for k := 0; k < 1+c.Rng.Intn(4); k++ {
			b[c.Rng.Intn(len(b))] = c15Punct[c.Rng.Intn(len(c15Punct))]
		}
		return string(b)
	case "insert":
		i := c.Rng.Intn(len(b))
		ins := []string{"/*", "*/", "//", "\n\n\n", "`", "\"", "{", "}", "case x:", "func", "package", ";", "\x00", "\xff", "import"}[c.Rng.Intn(15)]
		return string(b[:i]) + ins + string(b[i:])
	case "swap":
		lines := strings.Split(src, "\n")
		if len(lines) > 2 {
			i, j := c.Rng.Intn(len(lines)), c.Rng.Intn(len(lines))
			lines[i], lines[j] = lines[j], lines[i]
		}
		return strings.Join(lines, "\n")
	}
	return src
}

const c15Punct = "{}()[];,.:\"'`/*\n\t =+-<>!&|^%~"

var c15Fixed = []string{
	"", " ", "\n", "package", "package ", "package a", "package a\n", "x", "func f() {}", "package a\n/* unterminated", "package a\n\"unterminated",
	"package a\nfunc", "package a\nfunc f(", "package a\nvar x = `raw\nstring", "//", "/**/", "package a; import \"", "package a\nimport (\n\"fmt\" // c\n",
	"package a\n\nfunc f() {\n\tswitch x {\n\tcase true:\n\t\ta()\n\t// case false:\n\t\t// b()\n\t}\n}\n",
	"package a\n\nfunc f() {\n\tselect {\n\tcase <-c:\n\t\ta()\n\t// commented\n\t\t\t// deeper\n",
	"package a\n\nimport _ \"unsafe\" // for go:linkname\n",
	"package p\nimport", "package p\nimport \"fmt\nfunc f() { fmt.P() }\n", "package p\nimport 'a'\nfunc f() { a.P() }\n", "package p\nimport a\nfunc f() { a.P() }\n", "package p\nimport \"\\z\"\nfunc f() { z.P() }\n",
	// an import declaration after another declaration is kept by the parser (with an error): a broken path literal there
	"package p\n\nvar x = 1\n\nimport fmt\n\nfunc f() { fmt.P() }\n", "package p\n\nfunc g() {}\n\nimport 5\n", "package p\n\ntype T int\n\nimport \"a\\qb\"\n\nvar y = 2\n",
	"package p\n\nimport \"os\"\n\nvar x = os.Args\n\nimport (\n\t\"fmt\n)\n",
	// general comments that span lines (also with an empty line inside, also unterminated at the end of a broken file)
	"package a\n\n/* a\n b */\nfunc f() {}\n", "/*\nDoc.\n\nMore.\n*/\npackage a\n\n/*\n#include <x.h>\n\nint f(void);\n*/\nimport \"C\"\n\nfunc f() { /* in\n\n\tside */ g( /* arg\n*/ 1) } /* tail\n */\n",
	"package a\n\nfunc f() {\n\tx() /* trailing\n\tand more */\n}\n\n/* unterminated\n\nat the end", "package a\n\nvar x = []int{ /* one\ntwo */ 1, /* three\n\nfour */\n}\n",
	"\xef\xbb\xbfpackage a\n", "package a\r\n\r\nfunc f() {}\r\n", "package a\n\nfunc f() { goto }\n", "package a\n\nvar = \n", "package a\n\ntype T struct { x }}}}\n",
}

func c15Prop(c *Ctx) {
	c.Res.Rule = "fixed list of degenerate inputs (empty, no package clause, unterminated comment/string, hanging-indent comment shapes) + hand corpus and $GOROOT/src sample in valid layouts (as is, CRLF, mangled with comments at random indents, dense comments) + their corruptions (truncate, delete bytes, flip bytes to punctuation, insert fragments, swap lines); every tree printed by fresh restorers, and (fixed, valid and every fourth other input) by a Restorer that has printed another file before and by a Restorer whose Fset is the decorator's populated FileSet; non-trivial = distinct input"
	c15Scratch = filepath.Join(c.Verif, ".build")
	nrun := 0
	run := func(src, kind string) {
		nrun++
		in := c15Input{Src: src, Kind: kind, Dir: kind == "fixed" || nrun%6 == 0, Reuse: kind == "fixed" || strings.HasPrefix(kind, "valid-") || nrun%4 == 1}
		c.Res.Evaluations++
		c.Res.seen(fmt.Sprint(len(src), kind, src[:min(60, len(src))]))
		c.Res.hist("c15-kind", kind)
		if key, what := c15Check(in); key != "" {
			in.Src = clipKeep(in.Src)
			c.Res.fail(key, what, in)
		}
	}
	for _, s := range c15Fixed {
		run(s, "fixed")
	}
	var srcs []string
	srcs = append(srcs, sinkSources...)
	srcs = append(srcs, linkExtra...)
	srcs = append(srcs, c08Sources...)
	files := gorootFiles(8000)
	for i := 0; i < c.N(25) && len(files) > 0; i++ {
		if b, err := os.ReadFile(files[c.Rng.Intn(len(files))]); err == nil {
			srcs = append(srcs, string(b))
		}
	}
	for _, src := range srcs {
		for _, v := range []string{"asis", "crlf", "mangled", "dense", "mangled"} {
			vs := c03Variant(c, src, v)
			run(vs, "valid-"+v)
			for _, k := range []string{"truncate", "delete", "flip", "insert", "swap"} {
				for rep := 0; rep < 2; rep++ {
					run(c15Corrupt(c, vs, k), k)
				}
			}
		}
	}
	// a comment, a line comment, a line break, a blank line in EVERY gap between two tokens of the
	// hand corpus (link() needs a decoration point it can reach from every gap without crossing a token)
	for si, src := range append(append([]string{}, sinkSources...), c08Sources...) {
		every := 1
		if c.Tier != "thorough" && len(src) > 1500 {
			every = 3
		}
		for _, v := range gapSweep(src, every, si) {
			run(v, "gap-sweep")
		}
	}
	c.Res.Samples = append(c.Res.Samples, c15Input{Src: c15Fixed[9], Kind: "fixed"}, c15Input{Src: clip(c15Corrupt(c, srcs[1], "flip"), 200), Kind: "flip"})
}

func init() {
	props["C15"] = c15Prop
	corrs["C15"] = func(c *Ctx) { linkCorr(c); restoreCorr(c); fragCorr(c); fragCorrMalformed(c) }
	replays["C15"] = func(c *Ctx, raw json.RawMessage) (bool, string) {
		var in c15Input
		if err := json.Unmarshal(raw, &in); err != nil {
			return false, "not a C15 generated input"
		}
		key, what := c15Check(in)
		return key != "", what
	}
}
