package main

import (
	"go/format"
	"os"
	"path/filepath"
	"sort"
	"strings"
)

// A small hand-written corpus covering every node kind (used by the model
// correspondences), plus sampling from $GOROOT/src.

var sinkSources = []string{
	`// Package doc
package a // pkg

import (
	"fmt" // fmt
	. "os"
	_ "strings"
	x "io"
)

import "C"

// T doc
type T struct {
	A, B int ` + "`json:\"a\"`" + ` // tag
	*E
	F func(a, b int, c ...string) (r int, err error)
}

type I interface {
	M(x int) (y int) // m
	fmt.Stringer
	~int | ~string
}

type G[K comparable, V any] map[K][]V

type (
	A1 [5]int
	A2 [...]int
	C1 chan int
	C2 <-chan int
	C3 chan<- int
)

const (
	c1 = iota // one
	c2
	// c3 doc
	c3, c4 = 1, "s"
)

var v1, v2 int = 1, 2
`,
	`package a

func (t *T) M(a int, b ...string) (r int, err error) {
	// leading
	x := a + 1*2 - (3 / 4) // trailing
	var y = []int{1, 2, 3}
	z := map[string]T{"a": {A: 1}, "b": T{B: 2}}
	_ = y[1:2:3]
	_ = y[:]
	_ = z["a"].A
	_, ok := interface{}(x).(int)
	fn := func(q int) int { return q }
	go fn(1)
	defer fn(2)
	if x > 1 {
		x++
	} else if ok {
		x--
	} else {
		x = -x
	}

	for i := 0; i < 10; i++ {
		continue
	}
	for k, v := range z {
		_, _ = k, v
	}
	for range y {
	}
	for {
		break
	}
L:
	for x < 3 {
		goto L
	}
	switch x {
	case 1, 2:
		fallthrough
	case 3:
		// in case
	default:
	}
	switch t := interface{}(x).(type) {
	case int:
		_ = t
	case nil:
	}
	ch := make(chan int)
	select {
	case v := <-ch:
		_ = v
	case ch <- 1:
	default:
	}
	ch <- 2
	var p *int = &x
	*p = 3
	_ = G[string, int]{}
	_ = Pair[int]{}
	fmt.Println(x, y...)
	return x, nil
}
`,
	`package a

import "fmt"

func Generic[T any, U interface{ ~int }](a T, b U) (T, U) {
	var s struct {
		x int
	}
	_ = s
	type local = int
	const k = 1
	{
		;
	}
	fmt.Println(
		a, // first
		b,
	)
	return a, b
}

var _ = func() {}

var F = Generic[int, int]

var arr = [...]string{
	0: "a",

	1: "b", // bee
}
`,
	"package a\n\nvar s = `multi\nline\nstring`\n\n/* block\ncomment */\nvar t = 1 /* inline */ + 2\n\nfunc f() (/*a*/ int /*b*/, /*c*/ string) {\n\treturn 1, \"\" /*d*/\n}\n",
	`package a

func g() {
	if a := f(); a > 1 {
		// only comment
	}

	// hanging

	switch {
	// before case
	case true:
		// inside
	}
	// end of func
}

// trailing file comment
`,
}

func init() {
	// trailing general comments on specs that omit type and value (iota-style repetition), made canonical
	if b, err := format.Source([]byte("package a\n\nconst (\n\tA = iota // first\n\tB /* second */\n\tC /* third */\n\tLongerName = 7 /* fourth */\n)\n\nvar (\n\tx, y int /* xy */\n\tz = 1 // z\n)\n")); err == nil {
		sinkSources = append(sinkSources, string(b))
	}
	// channel types with a comment after the chan keyword (the position of the arrow relative to it)
	if b, err := format.Source([]byte("package a\n\nvar rc <-chan /* elem */ int\n\nvar sc chan<- /* s */ int\n\nvar bc chan /* b */ int\n\nfunc fc(in <-chan /* in */ T, out chan<- T) {}\n")); err == nil {
		sinkSources = append(sinkSources, string(b))
	}
	// raw strings: with an empty line inside, starting and ending with a line break, as the last
	// thing before a blank line
	sinkSources = append(sinkSources, "package a\n\nvar r = `a\n\nb\nc`\n\nvar s = []string{\n\t// lead\n\t`\nx\n\n\ny\n`,\n\n\t/* block */ `z\nw`,\n}\n\nfunc u() {\n\tuse(`p\n\nq`)\n\n\tuse(s)\n}\n")
	// embedded fields with tags, an else-if chain, a forward goto
	sinkSources = append(sinkSources, "package a\n\ntype S struct {\n\tio.Reader `json:\"-\"`\n\t*Base     `yaml:\",inline\"` // b\n\tT[int]    `x:\"y\"`\n}\n\nfunc h(x int) int {\n\tif x > 0 {\n\t\treturn 1\n\t} else if x < 0 {\n\t\treturn -1\n\t} else if y := x; y == 7 {\n\t\tgoto L\n\t} else {\n\t\tx++\n\t}\nL:\n\tfor i := range []int{1} {\n\t\t_ = i\n\t}\n\treturn 0\n}\n")
}

var gorootFilesCache []string

// gorootFiles lists .go files of $GOROOT/src below maxBytes, sorted (deterministic).
func gorootFiles(maxBytes int64) []string {
	if gorootFilesCache != nil {
		return gorootFilesCache
	}
	root := "/usr/share/go-1.23/src"
	if rp, err := filepath.EvalSymlinks(root); err == nil {
		root = rp
	}
	var files []string
	filepath.Walk(root, func(p string, info os.FileInfo, err error) error {
		if err != nil {
			return nil
		}
		if info.IsDir() {
			if info.Name() == "testdata" || info.Name() == "vendor" {
				return filepath.SkipDir
			}
			return nil
		}
		if strings.HasSuffix(p, ".go") && info.Size() <= maxBytes && info.Size() > 200 {
			files = append(files, p)
		}
		return nil
	})
	sort.Strings(files)
	gorootFilesCache = files
	return files
}
