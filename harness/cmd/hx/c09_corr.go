package main

import (
	"fmt"
	"go/ast"
	"go/parser"
	"go/token"
	"go/types"
	"math/rand"
	"reflect"
	"sort"
	"strings"

	"github.com/dave/dst"
	"github.com/dave/dst/decorator"
	"github.com/dave/dst/decorator/resolver"
	"github.com/dave/dst/decorator/resolver/goast"
	"github.com/dave/dst/decorator/resolver/gotypes"
	"github.com/dave/dst/decorator/resolver/simple"
)

// Correspondence of Model/Resolvers.v (C09): the real Decorator is run with the real gotypes /
// goast resolver behind a recording wrapper; for every identifier of the file the harness
// abstracts what types.Info says (occurrence) and where the identifier sits (Parent.Field), and
// Coq evaluates gotypes_resolve / resolve_path / goast_scan / goast_resolve / strip_vendor on
// that and compares with what the code answered and with the Path of the dst identifier.

type recCall struct {
	raw string
	err error
}

type recResolver struct {
	inner resolver.DecoratorResolver
	calls map[*ast.Ident][]recCall
	order []*ast.Ident
}

func (r *recResolver) ResolveIdent(file *ast.File, parent ast.Node, parentField string, id *ast.Ident) (string, error) {
	p, err := r.inner.ResolveIdent(file, parent, parentField, id)
	if r.calls == nil {
		r.calls = map[*ast.Ident][]recCall{}
	}
	if _, ok := r.calls[id]; !ok {
		r.order = append(r.order, id)
	}
	r.calls[id] = append(r.calls[id], recCall{p, err})
	return p, err
}

type identSite struct {
	id     *ast.Ident
	parent ast.Node
	pf     string // ParentKind.Field
}

// identSites: every *ast.Ident reachable through Node-typed fields, with its parent and field
// name (reflection; independent of dst's generated decorator). File.Imports / Unresolved /
// Comments and Doc / Comment groups are not syntactic children.
func identSites(root ast.Node) []identSite {
	var out []identSite
	var visit func(n ast.Node)
	visit = func(n ast.Node) {
		v := reflect.ValueOf(n)
		if v.Kind() != reflect.Ptr || v.IsNil() {
			return
		}
		e := v.Elem()
		if e.Kind() != reflect.Struct {
			return
		}
		kind := e.Type().Name()
		for i := 0; i < e.NumField(); i++ {
			sf := e.Type().Field(i)
			if kind == "File" && (sf.Name == "Imports" || sf.Name == "Unresolved" || sf.Name == "Comments") {
				continue
			}
			if sf.Name == "Doc" || sf.Name == "Comment" {
				continue
			}
			fv := e.Field(i)
			handle := func(c reflect.Value) {
				if !c.IsValid() || (c.Kind() == reflect.Ptr || c.Kind() == reflect.Interface) && c.IsNil() {
					return
				}
				cn, ok := c.Interface().(ast.Node)
				if !ok {
					return
				}
				if id, ok := cn.(*ast.Ident); ok {
					out = append(out, identSite{id, n, kind + "." + sf.Name})
					return
				}
				visit(cn)
			}
			switch {
			case fv.Kind() == reflect.Slice && fv.Type().Elem().Implements(astNodeType):
				for j := 0; j < fv.Len(); j++ {
					handle(fv.Index(j))
				}
			case fv.Type().Implements(astNodeType):
				handle(fv)
			}
		}
	}
	visit(root)
	return out
}

func tobjTerm(obj types.Object) string {
	if obj == nil {
		return "None"
	}
	pkg := "None"
	if obj.Pkg() != nil {
		pkg = "(Some " + coqStr(obj.Pkg().Path()) + ")"
	}
	switch o := obj.(type) {
	case *types.PkgName:
		return "(Some (TPkgName " + coqStr(o.Imported().Path()) + " " + pkg + "))"
	case *types.Var:
		return fmt.Sprintf("(Some (TVar %v %s))", o.IsField(), pkg)
	}
	return "(Some (TOther " + pkg + "))"
}

func occTerm(info *types.Info, s identSite) string {
	selOf := "None"
	if se, ok := s.parent.(*ast.SelectorExpr); ok && s.pf == "SelectorExpr.Sel" {
		if x, ok := se.X.(*ast.Ident); ok {
			o, found := info.Uses[x]
			if !found {
				selOf = "(Some (XIdent None))"
			} else {
				selOf = "(Some (XIdent " + tobjTerm(o) + "))"
			}
		} else {
			selOf = "(Some XNotIdent)"
		}
	}
	uses := "None"
	if o, found := info.Uses[s.id]; found {
		uses = tobjTerm(o)
	}
	return fmt.Sprintf("(mkOcc %s %s)", selOf, uses)
}

// one rcase term per identifier of the file (gotypes mode); also the C09 role histogram
func gotypesCases(c *Ctx, chk *checked, local string, af *ast.File, descr string) (terms []string, descrs []string, fail string) {
	info := chk.info[local]
	rec := &recResolver{inner: gotypes.New(info.Uses)}
	dec := decorator.NewDecoratorWithImports(chk.fset, local, rec)
	var derr error
	if pm := safely(func() { _, derr = dec.DecorateFile(af) }); pm != "" {
		return nil, nil, "decoration panicked: " + pm
	}
	if derr != nil {
		return nil, nil, "decoration failed: " + derr.Error()
	}
	for _, s := range identSites(af) {
		if strings.HasPrefix(s.pf, "ImportSpec.") {
			continue
		}
		dn := dec.Dst.Nodes[s.id]
		did, isIdent := dn.(*dst.Ident)
		collapsed := false
		if isIdent {
			if se, ok := dec.Ast.Nodes[did].(*ast.SelectorExpr); ok {
				if se.Sel == s.id {
					collapsed = true
				} else {
					continue // the X of a collapsed selector has no dst identifier of its own
				}
			}
		}
		if !isIdent {
			return nil, nil, fmt.Sprintf("identifier %s has no dst identifier (%T)", s.id.Name, dn)
		}
		called := "None"
		if cs := rec.calls[s.id]; len(cs) > 0 {
			// the Sel of a selector that did not collapse is offered to the resolver once (forced);
			// the unforced route is stopped by the avoid table
			called = "(Some " + coqStr(cs[0].raw) + ")"
			for _, x := range cs[1:] {
				if x.raw != cs[0].raw {
					return nil, nil, fmt.Sprintf("identifier %s: the resolver answered %q and then %q", s.id.Name, cs[0].raw, x.raw)
				}
			}
		}
		terms = append(terms, fmt.Sprintf("mkRC %s %s %s %s %s %v", coqStr(local), coqStr(s.pf), occTerm(info, s), called, coqStr(did.Path), collapsed))
		descrs = append(descrs, fmt.Sprintf("%s: identifier %s at %s (%s)", descr, s.id.Name, chk.fset.Position(s.id.Pos()), s.pf))
		c.Res.hist("c09-sites", s.pf)
	}
	return terms, descrs, ""
}

func classifyGoastErr(err error) string {
	m := err.Error()
	switch {
	case strings.Contains(m, "dot-import"):
		return "dot-import"
	case strings.Contains(m, "multiple packages using name"):
		return "multiple packages using one name"
	}
	return "cannot resolve package name"
}

type failingNames struct {
	m map[string]string
}

func (f failingNames) ResolvePackage(path string) (string, error) {
	if n, ok := f.m[path]; ok {
		return n, nil
	}
	return "", fmt.Errorf("could not resolve package %s", path)
}

// one gcase term per file decorated with goast (names: the package-name resolver's table)
func goastCase(c *Ctx, fset *token.FileSet, local string, af *ast.File, names map[string]string) (term string, fail string) {
	rec := &recResolver{inner: goast.WithResolver(failingNames{names})}
	dec := decorator.NewDecoratorWithImports(fset, local, rec)
	var derr error
	if pm := safely(func() { _, derr = dec.DecorateFile(af) }); pm != "" {
		return "", "decoration panicked: " + pm
	}
	var specs []string
	for _, is := range af.Imports {
		name := ""
		if is.Name != nil {
			name = is.Name.Name
		}
		specs = append(specs, fmt.Sprintf("mkISpec %s %s", coqStr(strings.Trim(is.Path.Value, "\"`")), coqStr(name)))
	}
	var ns []string
	var keys []string
	for k := range names {
		keys = append(keys, k)
	}
	sort.Strings(keys)
	for _, k := range keys {
		ns = append(ns, fmt.Sprintf("(%s, %s)", coqStr(k), coqStr(names[k])))
	}
	out := ""
	if derr != nil {
		out = "GORefused " + coqStr(classifyGoastErr(derr))
		c.Res.hist("c09-goast", "refused: "+classifyGoastErr(derr))
	} else {
		c.Res.hist("c09-goast", "answered")
		sites := map[*ast.Ident]identSite{}
		for _, s := range identSites(af) {
			sites[s.id] = s
		}
		var ids []string
		for _, id := range rec.order {
			s := sites[id]
			isSel := s.pf == "SelectorExpr.Sel"
			x := "None"
			xobj := false
			if se, ok := s.parent.(*ast.SelectorExpr); ok && isSel {
				if xi, ok := se.X.(*ast.Ident); ok {
					x = "(Some " + coqStr(xi.Name) + ")"
					xobj = xi.Obj != nil
				}
			}
			for _, call := range rec.calls[id] {
				ids = append(ids, fmt.Sprintf("mkGI %v %s %v %s", isSel, x, xobj, coqStr(call.raw)))
			}
		}
		out = "GOAnswered [" + strings.Join(ids, "; ") + "]"
	}
	return fmt.Sprintf("mkGC [%s] [%s] (%s)", strings.Join(specs, "; "), strings.Join(ns, "; "), out), ""
}

// syntactic files for goast that no type checker would accept (two imports under one name, a
// package the name resolver does not know) next to ones it decides
func genGoastFile(r *rand.Rand) (src string, names map[string]string) {
	paths := []string{"root/a", "root/b/a", "root/c", "ext/v", "C", "example.com/go-lib"}
	names = map[string]string{"root/a": "a", "root/b/a": "a", "root/c": "c", "ext/v": "v", "example.com/go-lib": "lib"}
	if r.Intn(4) == 0 {
		delete(names, "root/c")
	}
	var b strings.Builder
	b.WriteString("package p\n\nimport (\n")
	var quals []string
	for _, pi := range r.Perm(len(paths))[:1+r.Intn(4)] {
		p := paths[pi]
		switch r.Intn(7) {
		case 0:
			fmt.Fprintf(&b, "\t. \"%s\"\n", p)
		case 1:
			fmt.Fprintf(&b, "\t_ \"%s\"\n", p)
		case 2:
			al := []string{"a", "c", "zz"}[r.Intn(3)]
			fmt.Fprintf(&b, "\t%s \"%s\"\n", al, p)
			quals = append(quals, al)
		default:
			fmt.Fprintf(&b, "\t\"%s\"\n", p)
			if n, ok := names[p]; ok {
				quals = append(quals, n)
			}
			if p == "C" {
				quals = append(quals, "C")
			}
		}
	}
	b.WriteString(")\n\n")
	quals = append(quals, "unknown")
	for i := 0; i < 3; i++ {
		q := quals[r.Intn(len(quals))]
		fmt.Fprintf(&b, "var g%d = %s.Name%d + local.f%d\n\n", i, q, i, i)
	}
	q := quals[r.Intn(len(quals))]
	fmt.Fprintf(&b, "func f(%s int) int {\n\treturn %s.Field + other().x.y\n}\n\nvar local struct{ f0, f1, f2 int }\n", q, q)
	return b.String(), names
}

func genVendorPath(r *rand.Rand) string {
	parts := []string{"vendor", "vendor", "a", "b", "vendorx", "xvendor", "ext", "v", "", "vendor."}
	n := 1 + r.Intn(6)
	var ps []string
	for i := 0; i < n; i++ {
		ps = append(ps, parts[r.Intn(len(parts))])
	}
	return strings.Join(ps, "/")
}

func c09Corr(c *Ctx) {
	var rterms, rdescr, gterms, gdescr, vterms, vdescr []string
	budget := c.Budget(700_000)
	size := 0
	nprog := c.N(14)
	for pi := 0; pi < nprog && size < budget; pi++ {
		var prog program
		label := ""
		if pi < len(c09Programs) {
			prog = c09Programs[pi]
			label = fmt.Sprintf("fixed program %d", pi)
		} else {
			g := genProgram(c.Rng)
			prog = g.Prog
			label = fmt.Sprintf("generated program %d", pi)
		}
		chk := typeCheck(prog)
		if chk.err != nil {
			c.Res.fail("c09-program", "the generated program does not type-check: "+chk.err.Error(), map[string]interface{}{"prog": prog})
			continue
		}
		last := prog.Pkgs[len(prog.Pkgs)-1]
		for fi, af := range chk.files[last.Path] {
			ts, ds, fail := gotypesCases(c, chk, last.Path, af, fmt.Sprintf("%s file %d", label, fi))
			if fail != "" {
				c.Res.fail("c09-corr-run", fail, c09Input{Program: &prog, File: fi, Mode: "gotypes"})
				continue
			}
			for i := range ts {
				size += len(ts[i])
			}
			rterms = append(rterms, ts...)
			rdescr = append(rdescr, ds...)
			c.Res.Traces++
		}
		// goast on freshly parsed copies of the same files (its cache is keyed by *ast.File)
		names := map[string]string{}
		for p, tp := range chk.pkgs {
			names[p] = tp.Name()
		}
		for fi, src := range last.Files {
			fset := token.NewFileSet()
			af, err := parser.ParseFile(fset, "g.go", src, parser.ParseComments)
			if err != nil {
				continue
			}
			t, fail := goastCase(c, fset, last.Path, af, names)
			if fail != "" {
				c.Res.fail("c09-corr-run", fail, c09Input{Program: &prog, File: fi, Mode: "goast"})
				continue
			}
			size += len(t)
			gterms = append(gterms, t)
			gdescr = append(gdescr, fmt.Sprintf("%s file %d (goast)", label, fi))
			c.Res.Traces++
		}
	}
	for i := 0; i < c.N(40); i++ {
		src, names := genGoastFile(c.Rng)
		fset := token.NewFileSet()
		af, err := parser.ParseFile(fset, "g.go", src, parser.ParseComments)
		if err != nil {
			c.Res.fail("c09-program", "generated goast file does not parse: "+err.Error(), map[string]interface{}{"src": src})
			continue
		}
		t, fail := goastCase(c, fset, "root/main", af, names)
		if fail != "" {
			c.Res.fail("c09-corr-run", fail, c09Input{Mode: "goast-syntactic", Src: src})
			continue
		}
		gterms = append(gterms, t)
		gdescr = append(gdescr, "syntactic file: "+clip(src, 400))
		c.Res.Traces++
	}
	fixedV := []string{"", "vendor", "vendor/", "/vendor/", "a/vendor", "a/vendor/", "vendor/a", "a/vendor/b/vendor/c", "vendor/vendor/a", "avendor/b", "a/vendor/b", "/vendor/vendor/"}
	for i := 0; i < c.N(60)+len(fixedV); i++ {
		var p string
		if i < len(fixedV) {
			p = fixedV[i]
		} else {
			p = genVendorPath(c.Rng)
		}
		vterms = append(vterms, fmt.Sprintf("(%s, %s)", coqStr(p), coqStr(decorator.VerifStripVendor(p))))
		vdescr = append(vdescr, "stripVendor("+p+")")
	}
	c.Res.CaseInputs = map[string][]string{"mismatch_gotypes_paths": rdescr, "mismatch_goast": gdescr, "mismatch_strip_vendor": vdescr}
	c.Res.Notes = append(c.Res.Notes, fmt.Sprintf("correspondence: %d identifiers (gotypes: occurrence abstraction from types.Info, Parent.Field by reflection), %d goast files, %d stripVendor paths", len(rterms), len(gterms), len(vterms)))
	c.caseSB.WriteString("From Coq Require Import List String ZArith NArith Bool.\nImport ListNotations.\nFrom DV Require Import Model.Resolvers Model.ResolverCases.\nLocal Open Scope string_scope.\nLocal Open Scope list_scope.\n")
	c.caseSB.WriteString("Definition rcases : list rcase := [\n" + strings.Join(rterms, ";\n") + "].\n")
	c.caseSB.WriteString("Definition gcases : list gcase := [\n" + strings.Join(gterms, ";\n") + "].\n")
	c.caseSB.WriteString("Definition vcases : list (string * string) := [\n" + strings.Join(vterms, ";\n") + "].\n")
	c.caseSB.WriteString("Definition mismatch_gotypes_paths := Eval vm_compute in bad_rcases rcases.\nPrint mismatch_gotypes_paths.\n")
	c.caseSB.WriteString("Definition mismatch_goast := Eval vm_compute in bad_gcases gcases.\nPrint mismatch_goast.\n")
	c.caseSB.WriteString("Definition mismatch_strip_vendor := Eval vm_compute in bad_vendor vcases.\nPrint mismatch_strip_vendor.\n")
}

var _ = simple.New

func init() { corrs["C09"] = c09Corr }
