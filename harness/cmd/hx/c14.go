package main

import (
	"encoding/json"
	"fmt"
	"go/ast"
	"go/parser"
	"go/token"
	"reflect"
	"strings"

	"github.com/dave/dst"
	"github.com/dave/dst/decorator"
	"github.com/dave/dst/dstutil"
	"golang.org/x/tools/go/ast/astutil"
)

// C14 on the implementation: one scripted run of dstutil.Apply on the decorated tree and of
// astutil.Apply on the go/ast tree it was decorated from.  The script is a function of the
// callback counter (comments, which only go/ast has as nodes, are not counted), so both runs
// receive the same decisions.  Compared: the callback logs (phase, node kind, Name, Index,
// parent kind), the result, and the printed token streams.  On the dst side the cursor
// invariant p.f[Index] == Node is checked at every callback, and for scripts whose visits
// never insert after a delete, that every surviving original list element was visited once
// and no inserted / replacement node was visited.

type c14Step struct {
	Ops    []string `json:"ops,omitempty"` // replace delete before after (through the cursor); truncate grow append-body (see c14DirectOp)
	Return bool     `json:"ret"`           // what the callback returns
}

type c14Input struct {
	Src    string             `json:"src"`
	Pre    map[string]c14Step `json:"pre"`  // callback counter -> step (absent: no-op, return true)
	Post   map[string]c14Step `json:"post"` //
	NoPre  bool               `json:"no_pre"`
	NoPost bool               `json:"no_post"`
	Root   string             `json:"root,omitempty"` // "" = the file, "body" = the body of the first function (a *File root cannot be replaced outside a Package)
}

type c14Log struct {
	entries      []string
	visited      map[interface{}]int
	created      map[interface{}]bool
	edited       map[interface{}]bool
	bad          string
	rootRepl     dst.Node
	resultIsRepl bool
	// an insert / replace executed through the cursor of a node that Delete was already called on,
	// in the same callback or in the post callback of the same visit (the recorded finding)
	opAfterDelete bool
	afterDelete   map[string]bool // which operations followed a Delete on the same element
	deleted       map[interface{}]bool
}

func kindOf(n interface{}) string {
	if n == nil || (reflect.ValueOf(n).Kind() == reflect.Ptr && reflect.ValueOf(n).IsNil()) {
		return "nil"
	}
	s := reflect.TypeOf(n).String()
	return s[strings.LastIndex(s, ".")+1:]
}

func isCommentName(name string) bool { return name == "Doc" || name == "Comment" || name == "Comments" }

// fresh nodes of the right static type for the slot
func newDst(like dst.Node, k int) dst.Node {
	name := fmt.Sprintf("ins%d", k)
	switch like.(type) {
	case *dst.Ident:
		return dst.NewIdent(name)
	case dst.Expr:
		return dst.NewIdent(name)
	case dst.Stmt:
		return &dst.ExprStmt{X: dst.NewIdent(name)}
	case *dst.Field:
		return &dst.Field{Names: []*dst.Ident{dst.NewIdent(name)}, Type: dst.NewIdent("int")}
	case dst.Spec:
		return nil
	case dst.Decl:
		return &dst.GenDecl{Tok: token.VAR, Specs: []dst.Spec{&dst.ValueSpec{Names: []*dst.Ident{dst.NewIdent(name)}, Type: dst.NewIdent("int")}}}
	}
	return nil
}

func newAst(like ast.Node, k int) ast.Node {
	name := fmt.Sprintf("ins%d", k)
	switch like.(type) {
	case *ast.Ident:
		return ast.NewIdent(name)
	case ast.Expr:
		return ast.NewIdent(name)
	case ast.Stmt:
		return &ast.ExprStmt{X: ast.NewIdent(name)}
	case *ast.Field:
		return &ast.Field{Names: []*ast.Ident{ast.NewIdent(name)}, Type: ast.NewIdent("int")}
	case ast.Spec:
		return nil
	case ast.Decl:
		return &ast.GenDecl{Tok: token.VAR, Specs: []ast.Spec{&ast.ValueSpec{Names: []*ast.Ident{ast.NewIdent(name)}, Type: ast.NewIdent("int")}}}
	}
	return nil
}

// Edits that change the length of a list NOT through the Cursor methods but by assigning to the
// parent's slice field, as client code does (astutil.Apply reloads the list and its length on every
// step, so the traversal follows the list as it currently is):
//
//	truncate     parent.Name = parent.Name[:Index()+1]           (drop what follows the current element)
//	grow         parent.Name = append(parent.Name, fresh)          (the list being iterated grows at its end)
//	append-body  fn.Body.List = append(fn.Body.List, fresh stmt)   (from any node below a function declaration:
//	             the cursor of a nested node cannot insert into an outer list)
func c14DirectOp(op string) bool { return op == "truncate" || op == "grow" || op == "append-body" }

func c14Truncate(parent interface{}, name string, idx int) {
	fv := reflect.Indirect(reflect.ValueOf(parent)).FieldByName(name)
	if fv.IsValid() && fv.Kind() == reflect.Slice && idx >= 0 && idx < fv.Len() {
		fv.Set(fv.Slice(0, idx+1))
	}
}

func c14Grow(parent interface{}, name string, fresh interface{}) {
	fv := reflect.Indirect(reflect.ValueOf(parent)).FieldByName(name)
	if fv.IsValid() && fv.Kind() == reflect.Slice && reflect.TypeOf(fresh).AssignableTo(fv.Type().Elem()) {
		fv.Set(reflect.Append(fv, reflect.ValueOf(fresh)))
	}
}

// the function declaration every node of the file lies in (computed before the run)
func enclosingFuncsDst(f *dst.File) map[interface{}]*dst.FuncDecl {
	m := map[interface{}]*dst.FuncDecl{}
	for _, d := range f.Decls {
		if fd, ok := d.(*dst.FuncDecl); ok && fd.Body != nil {
			dst.Inspect(fd, func(n dst.Node) bool {
				if n != nil {
					m[n] = fd
				}
				return true
			})
		}
	}
	return m
}

func enclosingFuncsAst(f *ast.File) map[interface{}]*ast.FuncDecl {
	m := map[interface{}]*ast.FuncDecl{}
	for _, d := range f.Decls {
		if fd, ok := d.(*ast.FuncDecl); ok && fd.Body != nil {
			ast.Inspect(fd, func(n ast.Node) bool {
				if n != nil {
					m[n] = fd
				}
				return true
			})
		}
	}
	return m
}

func firstBodyDst(f *dst.File) dst.Node {
	for _, d := range f.Decls {
		if fd, ok := d.(*dst.FuncDecl); ok && fd.Body != nil {
			return fd.Body
		}
	}
	return f
}

func firstBodyAst(f *ast.File) ast.Node {
	for _, d := range f.Decls {
		if fd, ok := d.(*ast.FuncDecl); ok && fd.Body != nil {
			return fd.Body
		}
	}
	return f
}

func c14RunDst(in c14Input, f *dst.File) (res dst.Node, lg *c14Log, pm string) {
	lg = &c14Log{visited: map[interface{}]int{}, created: map[interface{}]bool{}, edited: map[interface{}]bool{}, deleted: map[interface{}]bool{}}
	counter := 0
	encl := enclosingFuncsDst(f)
	mk := func(phase string, steps map[string]c14Step) dstutil.ApplyFunc {
		return func(c *dstutil.Cursor) bool {
			n := c.Node()
			j := counter
			counter++
			lg.entries = append(lg.entries, fmt.Sprintf("%s %s %s %d %s", phase, kindOf(n), c.Name(), c.Index(), kindOf(c.Parent())))
			if n != nil && phase == "pre" {
				lg.visited[n]++
			}
			// cursor invariant
			// (a node that a callback replaced or deleted stays the cursor's Node() in astutil and
			// dstutil alike; the invariant speaks of nodes still in the tree)
			if c.Parent() != nil && kindOf(c.Parent()) != "Package" && c.Name() != "Node" && !(n != nil && lg.edited[n]) {
				fv := reflect.Indirect(reflect.ValueOf(c.Parent())).FieldByName(c.Name())
				if !fv.IsValid() {
					lg.bad = fmt.Sprintf("callback %d: parent %s has no field %s", j, kindOf(c.Parent()), c.Name())
				} else {
					if c.Index() >= 0 {
						if fv.Kind() != reflect.Slice || c.Index() >= fv.Len() {
							lg.bad = fmt.Sprintf("callback %d: %s.%s[%d] out of range", j, kindOf(c.Parent()), c.Name(), c.Index())
						} else {
							fv = fv.Index(c.Index())
						}
					}
					if lg.bad == "" {
						var got interface{}
						if !(fv.Kind() == reflect.Ptr || fv.Kind() == reflect.Interface) || !fv.IsNil() {
							got = fv.Interface()
						}
						if kindOf(got) != kindOf(n) || (n != nil && got != interface{}(n)) {
							lg.bad = fmt.Sprintf("callback %d (%s): Parent().%s[%d] is %s, Node() is %s", j, phase, c.Name(), c.Index(), kindOf(got), kindOf(n))
						}
					}
				}
			}
			st, ok := steps[fmt.Sprint(j)]
			if !ok {
				return true
			}
			if c.Name() == "Node" && len(st.Ops) == 1 && st.Ops[0] == "replace-root" {
				lg.rootRepl = &dst.BlockStmt{}
				if in.Root == "" {
					lg.rootRepl = &dst.File{Name: dst.NewIdent("replaced")}
				}
				c.Replace(lg.rootRepl)
			}
			// edits by assignment to the parent's field (nodes added this way are ordinary elements of
			// the list: they are neither lg.created nor original)
			for oi, op := range st.Ops {
				switch op {
				case "truncate":
					if c.Index() >= 0 {
						c14Truncate(c.Parent(), c.Name(), c.Index())
					}
				case "grow":
					if c.Index() >= 0 && n != nil {
						if nn := newDst(n, j*10+oi); nn != nil {
							c14Grow(c.Parent(), c.Name(), nn)
						}
					}
				case "append-body":
					if fd := encl[n]; n != nil && fd != nil {
						fd.Body.List = append(fd.Body.List, &dst.ExprStmt{X: dst.NewIdent(fmt.Sprintf("ins%d", j*10+oi))})
					}
				}
			}
			if c.Index() >= 0 && n != nil {
				for oi, op := range st.Ops {
					nn := newDst(n, j*10+oi)
					if nn == nil || c14DirectOp(op) {
						continue
					}
					if lg.deleted[n] {
						lg.opAfterDelete = true
						if lg.afterDelete == nil {
							lg.afterDelete = map[string]bool{}
						}
						lg.afterDelete[op] = true
					}
					switch op {
					case "replace":
						lg.created[nn] = true
						lg.edited[n] = true
						c.Replace(nn)
					case "delete":
						lg.edited[n] = true
						lg.deleted[n] = true
						c.Delete()
					case "before":
						lg.created[nn] = true
						c.InsertBefore(nn)
					case "after":
						lg.created[nn] = true
						c.InsertAfter(nn)
					}
				}
			}
			return st.Return
		}
	}
	var pre, post dstutil.ApplyFunc
	if !in.NoPre {
		pre = mk("pre", in.Pre)
	}
	if !in.NoPost {
		post = mk("post", in.Post)
	}
	var root dst.Node = f
	if in.Root == "body" {
		root = firstBodyDst(f)
	}
	pm = safely(func() { res = dstutil.Apply(root, pre, post) })
	lg.resultIsRepl = lg.rootRepl != nil && res == lg.rootRepl
	return
}

func c14RunAst(in c14Input, f *ast.File) (res ast.Node, entries []string, pm string, resultIsRepl bool) {
	counter := 0
	var rootRepl ast.Node
	encl := enclosingFuncsAst(f)
	mk := func(phase string, steps map[string]c14Step) astutil.ApplyFunc {
		return func(c *astutil.Cursor) bool {
			n := c.Node()
			if isCommentName(c.Name()) {
				return true
			}
			switch n.(type) {
			case *ast.Comment, *ast.CommentGroup:
				return true
			}
			j := counter
			counter++
			entries = append(entries, fmt.Sprintf("%s %s %s %d %s", phase, kindOf(n), c.Name(), c.Index(), kindOf(c.Parent())))
			st, ok := steps[fmt.Sprint(j)]
			if !ok {
				return true
			}
			if c.Name() == "Node" && len(st.Ops) == 1 && st.Ops[0] == "replace-root" {
				rootRepl = &ast.BlockStmt{}
				if in.Root == "" {
					rootRepl = &ast.File{Name: ast.NewIdent("replaced")}
				}
				c.Replace(rootRepl)
			}
			for oi, op := range st.Ops {
				switch op {
				case "truncate":
					if c.Index() >= 0 {
						c14Truncate(c.Parent(), c.Name(), c.Index())
					}
				case "grow":
					if c.Index() >= 0 && n != nil {
						if nn := newAst(n, j*10+oi); nn != nil {
							c14Grow(c.Parent(), c.Name(), nn)
						}
					}
				case "append-body":
					if fd := encl[n]; n != nil && fd != nil {
						fd.Body.List = append(fd.Body.List, &ast.ExprStmt{X: ast.NewIdent(fmt.Sprintf("ins%d", j*10+oi))})
					}
				}
			}
			if c.Index() >= 0 && n != nil {
				for oi, op := range st.Ops {
					nn := newAst(n, j*10+oi)
					if nn == nil || c14DirectOp(op) {
						continue
					}
					switch op {
					case "replace":
						c.Replace(nn)
					case "delete":
						c.Delete()
					case "before":
						c.InsertBefore(nn)
					case "after":
						c.InsertAfter(nn)
					}
				}
			}
			return st.Return
		}
	}
	var pre, post astutil.ApplyFunc
	if !in.NoPre {
		pre = mk("pre", in.Pre)
	}
	if !in.NoPost {
		post = mk("post", in.Post)
	}
	var root ast.Node = f
	if in.Root == "body" {
		root = firstBodyAst(f)
	}
	pm = safely(func() { res = astutil.Apply(root, pre, post) })
	resultIsRepl = rootRepl != nil && res == rootRepl
	return
}

// the recorded findings about cursor edits on an element that Delete was already called on in the
// same visit, by the kind of the later edit
func afterDeleteKey(in c14Input, lg *c14Log) string {
	if lg.afterDelete["delete"] {
		return "delete-twice-same-visit"
	}
	if lg.afterDelete["replace"] {
		return "delete-then-replace-same-visit"
	}
	if hasInsertAfterDelete(in) || lg.opAfterDelete {
		return "delete-then-insert-same-visit"
	}
	return ""
}

func hasInsertAfterDelete(in c14Input) bool {
	for _, m := range []map[string]c14Step{in.Pre, in.Post} {
		for _, st := range m {
			del := false
			for _, op := range st.Ops {
				if op == "delete" {
					del = true
				} else if del {
					return true
				}
			}
		}
	}
	return false
}

func c14Check(in c14Input) (key, what string) {
	fset := token.NewFileSet()
	af, err := parser.ParseFile(fset, "a.go", in.Src, parser.ParseComments)
	if err != nil {
		return "", ""
	}
	df, err := decorator.NewDecorator(fset).DecorateFile(af)
	if err != nil {
		return "", ""
	}
	// original list elements
	orig := map[interface{}]bool{}
	var all []dst.Node
	reflectPreorder(df, nil, &all)
	for _, n := range all {
		orig[n] = true
	}
	dres, lg, dpm := c14RunDst(in, df)
	af.Comments = nil // the edits below leave free-floating comments without anchors
	ares, alog, apm, aIsRepl := c14RunAst(in, af)
	if (dpm != "") != (apm != "") {
		return "c14-panic", fmt.Sprintf("dstutil.Apply panic=%q, astutil.Apply panic=%q", dpm, apm)
	}
	if dpm != "" {
		return "", "" // both reject the script the same way (e.g. Delete outside a slice)
	}
	if lg.bad != "" {
		return "c14-cursor", lg.bad
	}
	if len(lg.entries) != len(alog) {
		return "c14-log", fmt.Sprintf("dstutil.Apply made %d callbacks, astutil.Apply %d (comments excluded)", len(lg.entries), len(alog))
	}
	for i := range alog {
		if lg.entries[i] != alog[i] {
			return "c14-log", fmt.Sprintf("callback %d: dstutil %q, astutil %q", i, lg.entries[i], alog[i])
		}
	}
	if kindOf(dres) != kindOf(ares) {
		return "c14-result", fmt.Sprintf("dstutil.Apply returned %s, astutil.Apply %s", kindOf(dres), kindOf(ares))
	}
	if lg.resultIsRepl != aIsRepl {
		return "c14-result", fmt.Sprintf("after the root was replaced through the cursor: dstutil.Apply returns the replacement: %v, astutil.Apply: %v", lg.resultIsRepl, aIsRepl)
	}
	// same final tree: same root, then compare printed tokens
	if dfile, ok := dres.(*dst.File); ok {
		if afile, ok := ares.(*ast.File); ok && afile.Name != nil && dfile.Name != nil && afile.Name.Name != dfile.Name.Name {
			return "c14-result", fmt.Sprintf("dstutil.Apply returned file %q, astutil.Apply file %q", dfile.Name.Name, afile.Name.Name)
		}
		// the same tree: node kinds (with identifier names and literal values) in preorder.  (The
		// printed texts are not compared: a script can leave an ill-formed tree -- a ValueSpec
		// without values, a case without expressions -- which go/printer renders differently from
		// a nil and from an empty slice, and the restorer turns empty slices into nil.)
		var dk, ak []string
		dst.Inspect(dfile, func(n dst.Node) bool {
			if n != nil {
				k := kindOf(n)
				switch x := n.(type) {
				case *dst.Ident:
					k += ":" + x.Name
				case *dst.BasicLit:
					k += ":" + x.Value
				}
				dk = append(dk, k)
			}
			return true
		})
		ast.Inspect(ares, func(n ast.Node) bool {
			switch x := n.(type) {
			case nil:
			case *ast.Comment, *ast.CommentGroup:
				return false
			case *ast.Ident:
				ak = append(ak, "Ident:"+x.Name)
			case *ast.BasicLit:
				ak = append(ak, "BasicLit:"+x.Value)
			default:
				ak = append(ak, kindOf(n))
			}
			return true
		})
		if strings.Join(dk, " ") != strings.Join(ak, " ") {
			return "c14-tree", "the trees differ after the same edits: " + firstListDiff(dk, ak)
		}
	}
	// visit-once (list elements only; the whole-tree abort and pre=false cases skip subtrees)
	aborted := false
	for _, st := range in.Post {
		if !st.Return {
			aborted = true
		}
	}
	skipped := false
	for _, st := range in.Pre {
		if !st.Return {
			skipped = true
		}
	}
	if !in.NoPre && !aborted && !skipped {
		for n := range lg.created {
			if lg.visited[n] > 0 {
				k := "c14-visit-inserted"
				if ak := afterDeleteKey(in, lg); ak != "" {
					k = ak
				}
				return k, fmt.Sprintf("an inserted / replacement %s node was visited", kindOf(n))
			}
		}
		if dfile, ok := dres.(*dst.File); ok {
			var fin []dst.Node
			reflectPreorder(dfile, nil, &fin)
			for _, n := range fin {
				if orig[n] && lg.visited[n] != 1 && !underCreated(dfile, n, lg.created) {
					k := "c14-visit-once"
					if ak := afterDeleteKey(in, lg); ak != "" {
						k = ak
					}
					return k, fmt.Sprintf("a surviving original %s node was visited %d times", kindOf(n), lg.visited[n])
				}
			}
		}
	}
	return "", ""
}

// underCreated: n lies below a node that replaced / was inserted (not walked by design) --
// cannot happen for original nodes here since created nodes are fresh leaves.
func underCreated(root dst.Node, n dst.Node, created map[interface{}]bool) bool { return false }

const c14DirectSrc = `package a

import "fmt"

var table = []int{1, 2, 3}

func f(x, y int) (r int) {
	if x > y {
		fmt.Println(x)
		return x
		fmt.Println("dead")
	}
	for i := 0; i < y; i++ {
		r += g(i, table[i])
	}
	switch x {
	case 1, 2:
		r++
	default:
		r--
	}
	return r
}

func g(n, m int) int { return n*2 + m }
`

func c14Prop(c *Ctx) {
	c.Res.Rule = "sources: hand corpus + $GOROOT/src sample; per source scripts drawn from the PRNG: no-op, single edits, several edits at one callback (never an insert after a delete), pre=false at some callbacks, post=false at one callback, pre-only and post-only; each run on dstutil.Apply and astutil.Apply; plus the recorded delete-then-insert script; plus lists truncated / grown by assignment to the parent's slice field and statements appended to the enclosing function body from callbacks on nested nodes (PRNG scripts over the sources, and every callback of one source); non-trivial = distinct (source, script)"
	srcs := oracleSources(c, c.N(10), 6000)
	ops := []string{"replace", "delete", "before", "after"}
	gen := func(src string, mode int) c14Input {
		in := c14Input{Src: src, Pre: map[string]c14Step{}, Post: map[string]c14Step{}}
		ncb := len(src) / 4
		nsteps := 1 + c.Rng.Intn(6)
		for s := 0; s < nsteps; s++ {
			j := fmt.Sprint(c.Rng.Intn(ncb + 1))
			st := c14Step{Return: true}
			switch mode {
			case 1: // single edits
				st.Ops = []string{ops[c.Rng.Intn(4)]}
			case 2: // several edits, delete (if any) last
				k := 1 + c.Rng.Intn(3)
				for i := 0; i < k; i++ {
					st.Ops = append(st.Ops, []string{"replace", "before", "after"}[c.Rng.Intn(3)])
				}
				if c.Rng.Intn(2) == 0 {
					st.Ops = append(st.Ops, "delete")
				}
			case 3: // skip subtrees
				st.Return = false
			}
			if c.Rng.Intn(2) == 0 || mode == 3 {
				in.Pre[j] = st
			} else {
				in.Post[j] = st
			}
		}
		if mode == 4 { // abort
			in.Post[fmt.Sprint(c.Rng.Intn(ncb+1))] = c14Step{Return: false}
			if c.Rng.Intn(2) == 0 {
				in.Pre[fmt.Sprint(c.Rng.Intn(ncb/2+1))] = c14Step{Ops: []string{ops[c.Rng.Intn(4)]}, Return: true}
			}
		}
		if mode == 7 {
			in.Root = "body"
		}
		if mode == 7 { // replace the root itself (pre or post of callback 0 / the last post), optionally abort
			if c.Rng.Intn(2) == 0 {
				in.Pre["0"] = c14Step{Ops: []string{"replace-root"}, Return: true}
			} else {
				in.Pre["0"] = c14Step{Ops: []string{"replace-root"}, Return: c.Rng.Intn(2) == 0}
			}
			if c.Rng.Intn(2) == 0 {
				in.Post[fmt.Sprint(c.Rng.Intn(ncb/2+1))] = c14Step{Return: false}
			}
		}
		if mode == 5 {
			in.NoPost = true
		}
		if mode == 6 {
			in.NoPre = true
		}
		return in
	}
	// lists nested twelve deep (a stack of per-list iterators must keep the state of every enclosing list):
	// post-phase edits on the enclosing elements, many scripts
	{
		var sb strings.Builder
		sb.WriteString("package a\n\nfunc f() {\n")
		depth := 12
		for d := 0; d < depth; d++ {
			ind := strings.Repeat("\t", d+1)
			fmt.Fprintf(&sb, "%sa%d()\n%s{\n", ind, d, ind)
		}
		fmt.Fprintf(&sb, "%sx()\n", strings.Repeat("\t", depth+1))
		for d := depth - 1; d >= 0; d-- {
			ind := strings.Repeat("\t", d+1)
			fmt.Fprintf(&sb, "%s}\n%sb%d()\n", ind, ind, d)
		}
		sb.WriteString("}\n")
		deep := sb.String()
		for rep := 0; rep < c.N(30); rep++ {
			in := c14Input{Src: deep, Pre: map[string]c14Step{}, Post: map[string]c14Step{}}
			ncb := 230 // callbacks are counted across pre and post: the posts of the enclosing blocks come late
			for s := 0; s < 4; s++ {
				st := c14Step{Return: true, Ops: []string{[]string{"after", "delete", "before", "replace"}[c.Rng.Intn(4)]}}
				in.Post[fmt.Sprint(c.Rng.Intn(ncb+1))] = st
			}
			c.Res.Evaluations++
			c.Res.hist("c14-mode", "deep nesting, post edits")
			if key, what := c14Check(in); key != "" {
				c.Res.fail(key, what, in)
			}
		}
	}
	for _, src := range srcs {
		for rep := 0; rep < c.N(3); rep++ {
			for mode := 0; mode <= 7; mode++ {
				in := gen(src, mode)
				c.Res.Evaluations++
				b, _ := json.Marshal(in)
				c.Res.seen(string(b[len(b)/2:]) + fmt.Sprint(len(src), mode, rep))
				c.Res.hist("c14-mode", fmt.Sprint(mode))
				if key, what := c14Check(in); key != "" {
					c.Res.fail(key, what, in)
				}
				if len(c.Res.Samples) < 2 && mode == 2 {
					s2 := in
					s2.Src = clip(in.Src, 120)
					c.Res.Samples = append(c.Res.Samples, s2)
				}
			}
		}
	}
	// lists whose length a callback changes by assigning to the parent's field (c14DirectOp), alone and
	// together with cursor edits at other callbacks: scripts drawn from the PRNG over the sources ...
	direct := []string{"truncate", "grow", "append-body"}
	for _, src := range srcs {
		for rep := 0; rep < c.N(3); rep++ {
			in := c14Input{Src: src, Pre: map[string]c14Step{}, Post: map[string]c14Step{}}
			ncb := len(src) / 4
			nsteps := 1 + c.Rng.Intn(6)
			for s := 0; s < nsteps; s++ {
				st := c14Step{Return: true, Ops: []string{direct[c.Rng.Intn(3)]}}
				if c.Rng.Intn(4) == 0 {
					st.Ops = []string{ops[c.Rng.Intn(4)]}
				}
				j := fmt.Sprint(c.Rng.Intn(ncb + 1))
				if c.Rng.Intn(2) == 0 {
					in.Pre[j] = st
				} else {
					in.Post[j] = st
				}
			}
			switch c.Rng.Intn(6) {
			case 0:
				in.NoPost = true
			case 1:
				in.NoPre = true
			case 2:
				in.Root = "body"
			}
			c.Res.Evaluations++
			b, _ := json.Marshal(in)
			c.Res.seen(string(b[len(b)/2:]) + fmt.Sprint(len(src), "direct", rep))
			c.Res.hist("c14-mode", "direct assignment to the list field")
			if key, what := c14Check(in); key != "" {
				c.Res.fail(key, what, in)
			}
		}
	}
	// ... and exhaustively on one source: at every callback on a list element the list is truncated /
	// grown, at every callback below a function declaration a statement is appended to its body
	{
		din := c14Input{Src: c14DirectSrc, Pre: map[string]c14Step{}, Post: map[string]c14Step{}}
		fset := token.NewFileSet()
		af, _ := parser.ParseFile(fset, "a.go", din.Src, parser.ParseComments)
		df, _ := decorator.NewDecorator(fset).DecorateFile(af)
		_, lg, _ := c14RunDst(din, df)
		for i, e := range lg.entries {
			var phase, kind, name, pkind string
			var idx int
			fmt.Sscanf(e, "%s %s %s %d %s", &phase, &kind, &name, &idx, &pkind)
			var todo []string
			if idx >= 0 {
				todo = append(todo, "truncate", "grow")
			}
			if pkind != "File" && pkind != "GenDecl" && pkind != "nil" {
				todo = append(todo, "append-body")
			}
			for _, op := range todo {
				in := c14Input{Src: din.Src, Pre: map[string]c14Step{}, Post: map[string]c14Step{}}
				st := c14Step{Return: true, Ops: []string{op}}
				if phase == "pre" {
					in.Pre[fmt.Sprint(i)] = st
				} else {
					in.Post[fmt.Sprint(i)] = st
				}
				c.Res.Evaluations++
				c.Res.seen(fmt.Sprint("direct-exhaustive", i, op))
				c.Res.hist("c14-mode", "direct assignment, every callback: "+op)
				if key, what := c14Check(in); key != "" {
					c.Res.fail(key, what, in)
				}
			}
		}
	}
	// the recorded finding: Delete then InsertAfter in one visit
	kin := c14Input{Src: "package a\n\nfunc f() {\n\ta()\n\tb()\n\tc()\n\td()\n}\n", Pre: map[string]c14Step{}, Post: map[string]c14Step{}}
	// find the callback counter of statement b(): run once to number the callbacks
	{
		fset := token.NewFileSet()
		af, _ := parser.ParseFile(fset, "a.go", kin.Src, parser.ParseComments)
		df, _ := decorator.NewDecorator(fset).DecorateFile(af)
		_, lg, _ := c14RunDst(kin, df)
		for i, e := range lg.entries {
			if strings.HasPrefix(e, "pre ExprStmt List 1 ") {
				kin.Pre[fmt.Sprint(i)] = c14Step{Ops: []string{"delete", "after"}, Return: true}
			}
		}
	}
	c.Res.Evaluations++
	if key, what := c14Check(kin); key != "" {
		c.Res.fail(key, what, kin)
	}
	// the other recorded edits after Delete on the same element: Replace, and Delete again
	for _, ops := range [][]string{{"delete", "replace"}, {"delete", "delete"}} {
		k2 := c14Input{Src: kin.Src, Pre: map[string]c14Step{}, Post: map[string]c14Step{}}
		for i, st := range kin.Pre {
			_ = st
			k2.Pre[i] = c14Step{Ops: ops, Return: true}
		}
		c.Res.Evaluations++
		if key, what := c14Check(k2); key != "" {
			c.Res.fail(key, what, k2)
		}
	}
}

func init() {
	props["C14"] = c14Prop
	replays["C14"] = func(c *Ctx, raw json.RawMessage) (bool, string) {
		var in c14Input
		if err := json.Unmarshal(raw, &in); err != nil || in.Src == "" {
			return false, "not a C14 generated input"
		}
		key, what := c14Check(in)
		return key != "", what
	}
}
