package main

import (
	"bytes"
	"encoding/json"
	"fmt"
	"go/ast"
	"go/format"
	"go/scanner"
	"go/token"
	"math/rand"
	"reflect"
	"strings"

	"github.com/dave/dst"
	"github.com/dave/dst/decorator"
)

// Shared helpers of the implementation-side property oracles.

type tokItem struct {
	Tok  token.Token
	Lit  string
	Line int
}

// scanAll returns the token sequence (semicolons and commas dropped) and the
// comments of src; ok=false if the scanner reports an error.
func scanAll(src string) (toks []tokItem, comments []tokItem, ok bool) {
	return scanAllOpt(src, false)
}

// scanAllOpt with keepSep keeps commas and explicit semicolons (an unmodified round trip keeps
// the line layout, so go/printer's trailing commas must come out the same)
func scanAllOpt(src string, keepSep bool) (toks []tokItem, comments []tokItem, ok bool) {
	fset := token.NewFileSet()
	file := fset.AddFile("", fset.Base(), len(src))
	var s scanner.Scanner
	ok = true
	s.Init(file, []byte(src), func(pos token.Position, msg string) { ok = false }, scanner.ScanComments)
	for {
		pos, tok, lit := s.Scan()
		if tok == token.EOF {
			break
		}
		it := tokItem{tok, lit, fset.Position(pos).Line}
		switch {
		case tok == token.COMMENT:
			comments = append(comments, it)
		case tok == token.SEMICOLON && (!keepSep || lit == "\n"), tok == token.COMMA && !keepSep:
			// go/printer adds and removes separators with the line layout (trailing commas)
		default:
			if !tok.IsLiteral() && tok != token.IDENT {
				it.Lit = ""
			}
			toks = append(toks, it)
		}
	}
	return
}

// scanSeq: tokens (separators dropped) and comments in one sequence
func scanSeq(src string) []string {
	fset := token.NewFileSet()
	file := fset.AddFile("", fset.Base(), len(src))
	var s scanner.Scanner
	s.Init(file, []byte(src), func(pos token.Position, msg string) {}, scanner.ScanComments)
	var out []string
	for {
		_, tok, lit := s.Scan()
		if tok == token.EOF {
			break
		}
		switch {
		case tok == token.COMMENT:
			out = append(out, "C:"+strings.Join(strings.Fields(strings.ReplaceAll(lit, "\r", "")), " "))
		case tok == token.SEMICOLON, tok == token.COMMA:
		case tok.IsLiteral() || tok == token.IDENT:
			out = append(out, tok.String()+":"+lit)
		default:
			out = append(out, tok.String())
		}
	}
	return out
}

func tokString(ts []tokItem) string {
	var sb strings.Builder
	for _, t := range ts {
		sb.WriteString(t.Tok.String())
		if t.Lit != "" {
			sb.WriteString(":" + t.Lit)
		}
		sb.WriteByte(' ')
	}
	return sb.String()
}

// safely runs fn and converts a panic into a message.
func safely(fn func()) (panicMsg string) {
	defer func() {
		if r := recover(); r != nil {
			panicMsg = fmt.Sprint(r)
			if panicMsg == "" {
				panicMsg = "panic"
			}
		}
	}()
	fn()
	return ""
}

// printDst prints with a fresh plain restorer.
func printDst(f *dst.File) (out string, err error, panicMsg string) {
	panicMsg = safely(func() {
		var buf bytes.Buffer
		err = decorator.Fprint(&buf, f)
		out = buf.String()
	})
	return
}

// restoreDst restores with a fresh restorer and returns it with the ast.
func restoreDst(f *dst.File) (r *decorator.Restorer, af *ast.File, err error, panicMsg string) {
	r = decorator.NewRestorer()
	panicMsg = safely(func() { af, err = r.RestoreFile(f) })
	return
}

func isCanonical(src string) bool {
	b, err := format.Source([]byte(src))
	return err == nil && string(b) == src
}

// allNodes lists the nodes of a dst tree by reflection (independent of walk.go): preorder,
// struct-field order; File.Imports / File.Unresolved are not syntactic children.
func reflectChildren(n dst.Node) []dst.Node {
	var out []dst.Node
	rv := reflect.ValueOf(n).Elem()
	rt := rv.Type()
	for i := 0; i < rt.NumField(); i++ {
		f := rt.Field(i)
		fv := rv.Field(i)
		if rt.Name() == "File" && (f.Name == "Imports" || f.Name == "Unresolved") {
			continue
		}
		switch {
		case f.Name == "Decs":
		case f.Type.Implements(dstNodeType) && (f.Type.Kind() == reflect.Interface || f.Type.Kind() == reflect.Ptr):
			if !isNilNode(fv) {
				out = append(out, fv.Interface().(dst.Node))
			}
		case f.Type.Kind() == reflect.Slice && f.Type.Elem().Implements(dstNodeType):
			for j := 0; j < fv.Len(); j++ {
				if !isNilNode(fv.Index(j)) {
					out = append(out, fv.Index(j).Interface().(dst.Node))
				}
			}
		}
	}
	return out
}

func reflectPreorder(n dst.Node, prune func(dst.Node) bool, out *[]dst.Node) {
	*out = append(*out, n)
	if prune != nil && prune(n) {
		return
	}
	for _, c := range reflectChildren(n) {
		reflectPreorder(c, prune, out)
	}
}

// decPoints returns the decoration points of a node by reflection, in struct order with
// Start first and End last: name -> pointer to the slice.
type decPoint struct {
	Name string
	Decs *dst.Decorations
}

func reflectPoints(n dst.Node) []decPoint {
	dv := reflect.ValueOf(n).Elem().FieldByName("Decs")
	if !dv.IsValid() {
		return nil
	}
	var start, end *dst.Decorations
	var named []decPoint
	dt := dv.Type()
	for i := 0; i < dt.NumField(); i++ {
		f := dt.Field(i)
		fv := dv.Field(i)
		if f.Anonymous {
			nd := fv.Addr().Interface().(*dst.NodeDecs)
			start, end = &nd.Start, &nd.End
			continue
		}
		if f.Type == decsType {
			named = append(named, decPoint{f.Name, fv.Addr().Interface().(*dst.Decorations)})
		}
	}
	var out []decPoint
	if start != nil {
		out = append(out, decPoint{"Start", start})
	}
	out = append(out, named...)
	if end != nil {
		out = append(out, decPoint{"End", end})
	}
	return out
}

// oracleSources: the hand corpus plus n files sampled from $GOROOT/src.
func oracleSources(c *Ctx, n int, maxBytes int64) []string {
	// the hand corpus of the correspondences, the attachment corpus (comments dangling before closing
	// delimiters, after trailing comments, around case clauses ...) and a $GOROOT/src sample
	srcs := corrSources(c, n, maxBytes)
	return append(append([]string{}, linkExtra...), srcs...)
}

func clip(s string, n int) string {
	if len(s) > n {
		return s[:n] + "..."
	}
	return s
}

// firstEmissionIsNewline: the recorded finding first-emission-newline -- the first decoration of
// File.Decs.Start that the restorer renders (strings that are neither comments nor "\n" are not
// rendered) is "\n", so a line break is emitted before anything else in the file.
func firstEmissionIsNewline(f *dst.File) bool {
	for _, d := range f.Decs.Start {
		if d == "\n" {
			return true
		}
		if strings.HasPrefix(d, "//") || strings.HasPrefix(d, "/*") {
			return false
		}
	}
	return false
}

// gapSweep: for every gap between two adjacent tokens of src (go/scanner; the gap before an
// automatically inserted semicolon is the line end and is skipped), the source with a filler
// placed in that gap: a block comment, a line comment with its line break, a bare line break, a
// blank line. Variants that no longer parse are dropped by the callers. every > 1 keeps one gap
// in `every` (offset by phase).
func gapSweep(src string, every, phase int) []string {
	fset := token.NewFileSet()
	file := fset.AddFile("", fset.Base(), len(src))
	var s scanner.Scanner
	s.Init(file, []byte(src), nil, scanner.ScanComments)
	var offs []int
	for {
		pos, tok, lit := s.Scan()
		if tok == token.EOF {
			break
		}
		if tok == token.SEMICOLON && lit == "\n" {
			continue
		}
		offs = append(offs, file.Offset(pos))
	}
	var out []string
	for gi, o := range offs {
		if gi == 0 || (every > 1 && gi%every != phase%every) {
			continue
		}
		for fi, filler := range []string{" /*g*/ ", " // g\n", "\n", "\n\n"} {
			_ = fi
			out = append(out, src[:o]+filler+src[o:])
		}
	}
	return out
}

// replayFixed re-runs a sub-oracle whose inputs are fixed scenarios (maps with "src" and "edit")
// and reports whether it still records a failure for the scenario of the replay file.
func replayFixed(c *Ctx, raw json.RawMessage, run func(c *Ctx)) (handled bool, fails bool, msg string) {
	var m map[string]interface{}
	if err := json.Unmarshal(raw, &m); err != nil {
		return false, false, ""
	}
	if _, ok := m["edit"]; !ok {
		return false, false, ""
	}
	want, _ := json.Marshal(m)
	c2 := &Ctx{Tier: c.Tier, Seed: c.Seed, Repo: c.Repo, Verif: c.Verif, Rng: rand.New(rand.NewSource(c.Seed)), Res: &Result{Failures: []Failure{}}}
	run(c2)
	for _, f := range c2.Res.Failures {
		got, _ := json.Marshal(f.Input)
		var gm map[string]interface{}
		json.Unmarshal(got, &gm)
		g2, _ := json.Marshal(gm)
		if string(g2) == string(want) {
			return true, true, f.What
		}
	}
	return true, false, "the fixed scenario passes"
}
