package main

import (
	"bytes"
	"fmt"
	"go/ast"
	"go/format"
	"go/parser"
	"go/token"
	"math/rand"
	"sort"
	"strconv"
	"strings"

	"github.com/dave/dst"
	"github.com/dave/dst/decorator"
)

// C07, the clause "import blocks that need no addition keep their order and decorations", on
// files with an import block that has a layout of its own: groups separated by empty lines
// (more than the two the import manager would make itself, a group inside the standard-library
// part, dotted paths first), comments above and behind specs, aliases, a second declaration.
// Every import in turn becomes unused (its references are taken out of the tree); nothing has to
// be added. Judged twice:
//   on the tree:  the specs that stay are the specs that were there, in order, each with the
//                 decorations (Before / After / Start / End) it had before restoring;
//   on the bytes: go/parser on source and output -- the specs that stay have the name, the comment
//                 above and the comment behind they had, and for two specs that stay and were
//                 neighbours in the source the text from the first to the last byte of the pair
//                 is identical (no deletion touches it);
// and the imports are exactly the source's minus the unused one.

type c07SrcInput struct {
	Src    string `json:"src"`
	Edit   string `json:"edit"`
	Remove string `json:"remove"` // the import path whose references are taken out
}

// c07LayoutClass: what kind of spec disappears from a configuration (histogram bucket)
func c07LayoutClass(c icConfig) string {
	used := map[string]bool{}
	for _, p := range c.Used {
		used[p] = true
	}
	imported := map[string]bool{}
	for _, b := range c.Blocks {
		for _, s := range b {
			imported[s.Path] = true
		}
	}
	for p := range used {
		if p != "" && p != c.Local && !imported[p] {
			return "an import has to be added"
		}
	}
	cls := "nothing deleted"
	for _, b := range c.Blocks {
		kept := 0
		for _, s := range b {
			if used[s.Path] || s.Alias == "_" || s.Path == "C" {
				kept++
				continue
			}
			if cls == "nothing deleted" {
				cls = "deletion"
			}
			if s.Before == "empty" && kept > 0 {
				cls = "deletion of a group's first spec below a spec that stays"
			}
		}
	}
	return cls + ", nothing added"
}

var c07LayoutSources = []string{
	// four groups, a comment above a spec of the last one
	"package main\n\nimport (\n\t\"fmt\"\n\t\"os\"\n\n\t\"strings\"\n\t\"unicode\"\n\n\t\"a.b/c\"\n\n\t// z is special\n\t\"x.y/z\"\n)\n\nfunc main() {\n\t_ = fmt.Sprint\n\t_ = os.Args\n\t_ = strings.ToUpper\n\t_ = unicode.IsUpper\n\t_ = c.C\n\t_ = z.Z\n}\n",
	// dotted paths first, the standard library below in two groups, trailing comments, an alias
	"package main\n\nimport (\n\t\"example.com/m\" // m first\n\t\"github.com/q/r\"\n\n\t\"bytes\"\n\t\"io\"\n\n\t/* the rest */\n\tstr \"strings\"\n\t\"time\" // the clock\n)\n\nfunc main() {\n\t_ = m.M\n\t_ = r.R\n\t_ = bytes.NewReader\n\t_ = io.EOF\n\t_ = str.ToUpper\n\t_ = time.Now\n}\n",
	// a declaration of its own above the block; no empty line above the dotted paths, one inside them
	"package main\n\nimport \"errors\"\n\nimport (\n\t\"fmt\"\n\t\"a.b/c\"\n\t\"example.com/m\"\n\n\t\"github.com/q/r\"\n\t\"sort\"\n)\n\nfunc main() {\n\t_ = errors.New\n\t_ = fmt.Sprint\n\t_ = c.C\n\t_ = m.M\n\t_ = r.R\n\t_ = sort.Ints\n}\n",
	// cgo first, every spec of the block a group of its own
	"package main\n\n// #include <stdio.h>\nimport \"C\"\n\nimport (\n\t\"fmt\"\n\n\t\"os\"\n\n\t\"x.y/z\"\n\n\t\"io\"\n)\n\nfunc main() {\n\t_ = fmt.Sprint\n\t_ = os.Args\n\t_ = z.Z\n\t_ = io.EOF\n}\n",
}

var c07LayoutPool = []string{"fmt", "os", "io", "strings", "bytes", "time", "sort", "unicode", "errors", "a.b/c", "x.y/z", "example.com/m", "github.com/q/r", "gopkg.in/k"}

// c07GenLayoutSource: a file whose import block is laid out at random (see above), canonical
func c07GenLayoutSource(r *rand.Rand) string {
	pool := append([]string{}, c07LayoutPool...)
	r.Shuffle(len(pool), func(i, j int) { pool[i], pool[j] = pool[j], pool[i] })
	n := 3 + r.Intn(5)
	var sb, body strings.Builder
	sb.WriteString("package main\n\n")
	first := 0
	if r.Intn(4) == 0 {
		p := pool[0]
		fmt.Fprintf(&sb, "import %q\n\n", p)
		fmt.Fprintf(&body, "\t_ = %s.X\n", p[strings.LastIndex(p, "/")+1:])
		first = 1
	}
	sb.WriteString("import (\n")
	for i := first; i < n; i++ {
		p := pool[i]
		name := p[strings.LastIndex(p, "/")+1:]
		if i > first && r.Intn(3) == 0 {
			sb.WriteString("\n")
		}
		if r.Intn(5) == 0 {
			fmt.Fprintf(&sb, "\t// about %s\n", name)
		}
		sb.WriteString("\t")
		if r.Intn(6) == 0 {
			name = fmt.Sprintf("al%d", i)
			sb.WriteString(name + " ")
		}
		fmt.Fprintf(&sb, "%q", p)
		if r.Intn(5) == 0 {
			fmt.Fprintf(&sb, " // %s", name)
		}
		sb.WriteString("\n")
		fmt.Fprintf(&body, "\t_ = %s.X\n", name)
	}
	sb.WriteString(")\n\nfunc main() {\n" + body.String() + "}\n")
	b, err := format.Source([]byte(sb.String()))
	if err != nil {
		return ""
	}
	return string(b)
}

// c07ParsedSpec: an import spec as go/parser sees it
type c07ParsedSpec struct {
	Decl       int // index of the import declaration
	Path, Name string
	Doc, Trail string
	Paren      bool // the declaration is parenthesised
	Lo, Hi     int  // offsets: first byte of the comment above (or of the spec), last byte of the comment behind (or of the spec)
}

func c07ParsedSpecs(src string) ([]c07ParsedSpec, error) {
	fset := token.NewFileSet()
	af, err := parser.ParseFile(fset, "", src, parser.ParseComments)
	if err != nil {
		return nil, err
	}
	var out []c07ParsedSpec
	di := 0
	for _, d := range af.Decls {
		gd, ok := d.(*ast.GenDecl)
		if !ok || gd.Tok != token.IMPORT {
			continue
		}
		for _, s := range gd.Specs {
			is := s.(*ast.ImportSpec)
			p, _ := strconv.Unquote(is.Path.Value)
			ps := c07ParsedSpec{Decl: di, Path: p, Paren: gd.Lparen.IsValid(), Lo: fset.Position(is.Pos()).Offset, Hi: fset.Position(is.End()).Offset}
			if is.Name != nil {
				ps.Name = is.Name.Name
			}
			if is.Doc != nil && gd.Lparen.IsValid() {
				ps.Doc = src[fset.Position(is.Doc.Pos()).Offset:fset.Position(is.Doc.End()).Offset]
				ps.Lo = fset.Position(is.Doc.Pos()).Offset
			}
			if is.Comment != nil {
				ps.Trail = src[fset.Position(is.Comment.Pos()).Offset:fset.Position(is.Comment.End()).Offset]
				ps.Hi = fset.Position(is.Comment.End()).Offset
			}
			out = append(out, ps)
		}
		di++
	}
	return out, nil
}

func c07TreeSpecs(f *dst.File, skip string) []string {
	var out []string
	for _, d := range f.Decls {
		gd, ok := d.(*dst.GenDecl)
		if !ok || gd.Tok != token.IMPORT {
			continue
		}
		for _, s := range gd.Specs {
			is := s.(*dst.ImportSpec)
			p, _ := strconv.Unquote(is.Path.Value)
			if p == skip {
				continue
			}
			name := ""
			if is.Name != nil {
				name = is.Name.Name
			}
			out = append(out, fmt.Sprintf("%s %q before=%v after=%v start=%q end=%q", name, p, is.Decs.Before, is.Decs.After, []string(is.Decs.Start), []string(is.Decs.End)))
		}
	}
	return out
}

func c07SrcCheck(in c07SrcInput) (key, what string) {
	dec := decorator.NewDecoratorWithImports(token.NewFileSet(), "example.com/self", goastNew())
	f, err := dec.Parse(in.Src)
	if err != nil {
		return "", ""
	}
	// the edit: every statement that refers to the package goes
	removed := 0
	dst.Inspect(f, func(n dst.Node) bool {
		bs, ok := n.(*dst.BlockStmt)
		if !ok {
			return true
		}
		var list []dst.Stmt
		for _, st := range bs.List {
			refers := false
			dst.Inspect(st, func(m dst.Node) bool {
				if id, ok := m.(*dst.Ident); ok && id.Path == in.Remove {
					refers = true
				}
				return true
			})
			if refers {
				removed++
				continue
			}
			list = append(list, st)
		}
		bs.List = list
		return true
	})
	if removed == 0 {
		return "", ""
	}
	want := c07TreeSpecs(f, in.Remove)
	var out string
	pm := safely(func() {
		var buf bytes.Buffer
		err = decorator.NewRestorerWithImports("example.com/self", guessNew()).Fprint(&buf, f)
		out = buf.String()
	})
	if pm != "" {
		return "c07-panic", "restoring panicked: " + pm
	}
	if err != nil {
		return "c07-error", "restoring failed: " + err.Error()
	}
	// on the tree
	got := c07TreeSpecs(f, "")
	if strings.Join(got, "\n") != strings.Join(want, "\n") {
		return "c07-preserve", fmt.Sprintf("the references to %q were removed, no import had to be added, yet the import specs that stay are not the ones that were there with the decorations they had:\n  %s\ninstead of\n  %s\noutput:\n%s",
			in.Remove, strings.Join(got, "\n  "), strings.Join(want, "\n  "), out)
	}
	// on the bytes
	ss, err1 := c07ParsedSpecs(in.Src)
	outs, err2 := c07ParsedSpecs(out)
	if err1 != nil {
		return "", ""
	}
	if err2 != nil {
		return "c07-print", "the output does not parse: " + err2.Error() + "\n" + out
	}
	// the imports are the source's without the unused one. (Their printed order is gofmt's: Fprint
	// sorts runs of adjacent import lines, and a deletion can join two runs; the order the restorer
	// answers for is the order in the tree, judged above.)
	srcOf := map[string]c07ParsedSpec{}
	count := map[string]int{}
	var gone c07ParsedSpec
	for _, s := range ss {
		if s.Path == in.Remove {
			gone = s
			continue
		}
		srcOf[s.Path] = s
		count[s.Path]++
	}
	for _, o := range outs {
		count[o.Path]--
	}
	for p, n := range count {
		if n != 0 {
			return "c07-exact", fmt.Sprintf("the references to %q were removed: the output imports %q %d times %s than the source without the unused import\n%s", in.Remove, p, abs(n), map[bool]string{true: "less", false: "more"}[n > 0], out)
		}
	}
	if len(outs) != len(srcOf) {
		return "c07-exact", fmt.Sprintf("the references to %q were removed: %d imports expected, the output has %d\n%s", in.Remove, len(srcOf), len(outs), out)
	}
	for _, o := range outs {
		k := srcOf[o.Path]
		// (the comments above specs are compared with all the others below: gofmt's import sorting
		// leaves a comment above the first spec of a run where it is)
		if k.Name != o.Name || k.Trail != o.Trail {
			return "c07-preserve", fmt.Sprintf("the references to %q were removed: the import %q that stays is printed as name=%q comment above=%q comment behind=%q, the source has name=%q above=%q behind=%q\n%s",
				in.Remove, k.Path, o.Name, o.Doc, o.Trail, k.Name, k.Doc, k.Trail, out)
		}
	}
	// every comment of the file is still there, those of the unused spec aside
	_, sc, _ := scanAll(in.Src)
	_, oc, _ := scanAll(out)
	var wantC, gotC []string
	skipped := map[string]bool{}
	for _, cm := range sc {
		if (cm.Lit == gone.Doc || cm.Lit == gone.Trail) && !skipped[cm.Lit] {
			skipped[cm.Lit] = true
			continue
		}
		wantC = append(wantC, cm.Lit)
	}
	for _, cm := range oc {
		gotC = append(gotC, cm.Lit)
	}
	// (in the order of the source -- or, where the text model has an answer, in the order gofmt gives
	// them on the edited text: a deletion can join two runs of import lines, which go/format then sorts
	// together, trailing comments travelling with their specs)
	if exp, ok := c07ExpectedText(in.Src, in.Remove); ok {
		_, ec, _ := scanAll(exp)
		wantC = wantC[:0]
		for _, cm := range ec {
			wantC = append(wantC, cm.Lit)
		}
	} else {
		sort.Strings(wantC)
		g := append([]string{}, gotC...)
		sort.Strings(g)
		gotC = g
	}
	if strings.Join(wantC, "\n") != strings.Join(gotC, "\n") {
		return "c07-preserve", fmt.Sprintf("the references to %q were removed: the comments of the output are %q, expected %q\n%s", in.Remove, gotC, wantC, out)
	}
	// the whole file: the source with the lines of the unused spec and of the statements referring
	// to it struck out, formatted by gofmt (which also sorts runs of adjacent import lines and aligns
	// trailing comments -- Fprint does the same on the restored file)
	if exp, ok := c07ExpectedText(in.Src, in.Remove); ok && exp != out {
		return "c07-preserve", fmt.Sprintf("the references to %q were removed: the output is not the source without the lines of that import and of the statements using it (gofmt):\n%s\noutput:\n%s", in.Remove, firstDiff(exp, out), out)
	}
	return "", ""
}

// c07ExpectedText: the plain model of "an import becomes unused and nothing else changes" on the
// text. ok=false where the model has no answer (a declaration left with a single spec loses its
// parentheses: written out only for a spec without a comment above it).
func c07ExpectedText(src, remove string) (string, bool) {
	fset := token.NewFileSet()
	af, err := parser.ParseFile(fset, "", src, parser.ParseComments)
	if err != nil {
		return "", false
	}
	lines := strings.Split(src, "\n")
	line := func(p token.Pos) int { return fset.Position(p).Line - 1 }
	drop := map[int]bool{}
	replace := map[int]string{}
	binding := ""
	found := false
	for _, d := range af.Decls {
		gd, ok := d.(*ast.GenDecl)
		if !ok || gd.Tok != token.IMPORT {
			continue
		}
		for si, s := range gd.Specs {
			is := s.(*ast.ImportSpec)
			if p, _ := strconv.Unquote(is.Path.Value); p != remove {
				continue
			}
			if found || gd.Doc != nil {
				return "", false
			}
			found = true
			binding = remove[strings.LastIndex(remove, "/")+1:]
			if is.Name != nil {
				binding = is.Name.Name
			}
			lo, hi := is.Pos(), is.End()
			if is.Doc != nil {
				lo = is.Doc.Pos()
			}
			if is.Comment != nil {
				hi = is.Comment.End()
			}
			switch {
			case len(gd.Specs) == 1:
				lo, hi = gd.Pos(), gd.End()
			case len(gd.Specs) == 2:
				other := gd.Specs[1-si].(*ast.ImportSpec)
				if other.Doc != nil {
					return "", false
				}
				lo, hi = gd.Pos(), gd.End()
				replace[line(lo)] = "import " + strings.TrimSpace(lines[line(other.Pos())])
			}
			for l := line(lo); l <= line(hi); l++ {
				drop[l] = true
			}
		}
	}
	if !found || binding == "." || binding == "_" {
		return "", false
	}
	ast.Inspect(af, func(n ast.Node) bool {
		bs, ok := n.(*ast.BlockStmt)
		if !ok {
			return true
		}
		for _, st := range bs.List {
			refers := false
			ast.Inspect(st, func(m ast.Node) bool {
				if se, ok := m.(*ast.SelectorExpr); ok {
					if x, ok := se.X.(*ast.Ident); ok && x.Name == binding {
						refers = true
					}
				}
				return true
			})
			if refers {
				for l := line(st.Pos()); l <= line(st.End()); l++ {
					drop[l] = true
				}
			}
		}
		return true
	})
	var out []string
	for i, l := range lines {
		if r, ok := replace[i]; ok {
			out = append(out, r)
		}
		if !drop[i] {
			out = append(out, l)
		}
	}
	b, err := format.Source([]byte(strings.Join(out, "\n")))
	if err != nil {
		return "", false
	}
	return string(b), true
}

func abs(n int) int {
	if n < 0 {
		return -n
	}
	return n
}

func c07SourceDeletions(c *Ctx) {
	rng := rand.New(rand.NewSource(c.Seed*7919 + 77))
	srcs := append([]string{}, c07LayoutSources...)
	for i := 0; i < c.N(16); i++ {
		if s := c07GenLayoutSource(rng); s != "" {
			srcs = append(srcs, s)
		}
	}
	for _, src := range srcs {
		if !isCanonical(src) {
			c.Res.Notes = append(c.Res.Notes, "c07 layout source is not canonical: "+clip(src, 80))
			continue
		}
		specs, err := c07ParsedSpecs(src)
		if err != nil {
			continue
		}
		for _, s := range specs {
			if s.Path == "C" {
				continue
			}
			in := c07SrcInput{Src: src, Edit: "remove every statement that refers to the package", Remove: s.Path}
			c.Res.Evaluations++
			c.Res.seen(fmt.Sprint("layout", len(src), src[:min(len(src), 80)], s.Path))
			c.Res.hist("c07-layout", "source file, one import becomes unused")
			if _, ok := c07ExpectedText(src, s.Path); ok {
				c.Res.hist("c07-layout", "source file, one import becomes unused: whole output compared with the text model")
			}
			if key, what := c07SrcCheck(in); key != "" {
				c.Res.fail(key, what, in)
			}
		}
	}
}
