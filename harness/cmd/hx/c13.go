package main

import (
	"encoding/json"
	"fmt"
	"go/ast"
	"go/parser"
	"go/token"
	"math/rand"
	"reflect"
	"strings"

	"github.com/dave/dst"
	"github.com/dave/dst/decorator"
)

// C13 oracle on the implementation: dst.Walk / dst.Inspect against (1) a reflection-derived
// preorder (independent of walk.go), (2) the nil-call bracket structure, (3) pruning,
// (4) go/ast's traversal of the source ast mapped through Decorator.Map.

type c13Input struct {
	Src      string `json:"src"`
	Resolver bool   `json:"resolver"`
	Prune    []int  `json:"prune"` // indices in the reflection preorder
	// NilOptional > 0: after decorating, every child that dst.go documents as optional ("or nil") is
	// set to nil with probability 1/NilOptional (seeded): trees with absent optional children
	NilOptional int   `json:"nil_optional,omitempty"`
	Seed        int64 `json:"seed,omitempty"`
	// EmptyOptional > 0: after decorating, every optional child that is nil is set, with probability
	// 1/EmptyOptional (seeded), to a freshly built node without content (&dst.FieldList{}, &dst.BlockStmt{},
	// &dst.Ident{}, &dst.EmptyStmt{} ...): hand-built trees in which a child is present but empty. A
	// non-nil child is a reachable node whatever it contains.
	EmptyOptional int `json:"empty_optional,omitempty"`
}

// Sources that go/parser accepts and gofmt would rewrite: syntax that is present in the tree as a
// node of its own although it has no content (an empty result list, empty declaration groups, empty
// statements, empty blocks / field lists) or no effect (redundant parentheses around expressions,
// types and single results). Formatted code never contains most of them.
var c13Uncanonical = []string{
	"package a\n\ntype T interface {\n\tM() ()\n\tN(int) ()\n}\n\nfunc f() () {\n\tg := func(int) () {}\n\tg(1)\n}\n\nfunc (t *T) m() () {}\n\nfunc h(a, b int) (c int, err error) { return }\n\nvar v func() ()\n\ntype S struct {\n\tF func(x int) ()\n\tG func(cb func() ()) (func() ())\n}\n\nfunc gen[P any]() () {}\n",
	"package a\n\nfunc f() (int) { return (1) }\n\nfunc g() ((int)) { return ((1)) }\n\nvar x (int)\n\nvar y *(T)\n\nvar z [](map[(string)](chan (int)))\n\nfunc h(a (int), b ...(string)) (func()) { return (func() {}) }\n\ntype P (struct{})\n\nvar _ = (*T)(nil).m\n",
	"package a\n\nimport ()\n\nconst ()\n\nvar ()\n\ntype ()\n\nvar (x int)\n\ntype (U int)\n\nfunc f() {\n\tvar ()\n\tconst ()\n\ttype ()\n}\n",
	"package a\n\nfunc f() {\n\t;\n\t;;\n\t{\n\t}\n\t{;}\n\tfor ;; {\n\t}\n\tfor ; x; {\n\t}\n\tif ; x {\n\t} else {\n\t}\n\tswitch ; {\n\t}\n\tswitch ; x {\n\t}\n\tswitch {\n\tcase x:\n\tdefault:\n\t}\n\tselect {}\n\tselect {\n\tdefault:\n\t}\nL:\n\t;\nM:\n}\n\nfunc g();\n\ntype E struct{};\n\ntype I interface{};\n\nvar _ = T{}\n\nvar _ = []int{}\n\nvar _ = f()\n",
}

// single children that dst.go documents as "or nil" / "nil means ..."
var c13Optional = map[string][]string{
	"Field": {"Type", "Tag"}, "Ellipsis": {"Elt"}, "CompositeLit": {"Type"}, "SliceExpr": {"Low", "High", "Max"},
	"TypeAssertExpr": {"Type"}, "FuncType": {"TypeParams", "Results"}, "BranchStmt": {"Label"}, "IfStmt": {"Init", "Else"},
	"SwitchStmt": {"Init", "Tag"}, "TypeSwitchStmt": {"Init"}, "CommClause": {"Comm"}, "ForStmt": {"Init", "Cond", "Post"},
	"RangeStmt": {"Key", "Value"}, "ImportSpec": {"Name"}, "ValueSpec": {"Type"}, "TypeSpec": {"TypeParams"},
	"FuncDecl": {"Recv", "Body"},
}

type c13LogVisitor struct {
	log   *[]dst.Node
	prune map[dst.Node]bool
}

func (v c13LogVisitor) Visit(n dst.Node) dst.Visitor {
	*v.log = append(*v.log, n)
	if n == nil || v.prune[n] {
		return nil
	}
	return v
}

type c13LevelVisitor struct {
	level int
	log   *[]string
}

func (v c13LevelVisitor) Visit(n dst.Node) dst.Visitor {
	if n == nil {
		*v.log = append(*v.log, fmt.Sprintf("%d:nil", v.level))
		return nil
	}
	*v.log = append(*v.log, fmt.Sprintf("%d:%s", v.level, strings.TrimPrefix(fmt.Sprintf("%T", n), "*dst.")))
	return c13LevelVisitor{v.level + 1, v.log}
}

type c13AstLevelVisitor struct {
	level int
	log   *[]string
}

func (v c13AstLevelVisitor) Visit(n ast.Node) ast.Visitor {
	switch n.(type) {
	case nil:
		*v.log = append(*v.log, fmt.Sprintf("%d:nil", v.level))
		return nil
	case *ast.Comment, *ast.CommentGroup:
		return nil
	}
	*v.log = append(*v.log, fmt.Sprintf("%d:%s", v.level, strings.TrimPrefix(fmt.Sprintf("%T", n), "*ast.")))
	return c13AstLevelVisitor{v.level + 1, v.log}
}

func c13Check(in c13Input) (key, what string) {
	fset := token.NewFileSet()
	af, err := parser.ParseFile(fset, "a.go", in.Src, parser.ParseComments)
	if err != nil {
		return "", ""
	}
	var dec *decorator.Decorator
	if in.Resolver {
		dec = decorator.NewDecoratorWithImports(fset, "example.com/self", goastNew())
	} else {
		dec = decorator.NewDecorator(fset)
	}
	var f *dst.File
	if pm := safely(func() { f, err = dec.DecorateFile(af) }); pm != "" || err != nil {
		return "", "" // C15/C17 territory
	}
	if in.NilOptional > 0 {
		rnd := rand.New(rand.NewSource(in.Seed))
		var nodes []dst.Node
		reflectPreorder(f, nil, &nodes)
		for _, n := range nodes {
			for _, fld := range c13Optional[kindOf(n)] {
				if rnd.Intn(in.NilOptional) == 0 {
					fv := reflect.ValueOf(n).Elem().FieldByName(fld)
					if fv.IsValid() && fv.CanSet() {
						fv.Set(reflect.Zero(fv.Type()))
					}
				}
			}
		}
	}
	if in.EmptyOptional > 0 {
		rnd := rand.New(rand.NewSource(in.Seed))
		var nodes []dst.Node
		reflectPreorder(f, nil, &nodes)
		for _, n := range nodes {
			for _, fld := range c13Optional[kindOf(n)] {
				fv := reflect.ValueOf(n).Elem().FieldByName(fld)
				if !fv.IsValid() || !fv.CanSet() || !fv.IsNil() || rnd.Intn(in.EmptyOptional) != 0 {
					continue
				}
				switch {
				case fv.Kind() == reflect.Ptr:
					fv.Set(reflect.New(fv.Type().Elem()))
				case reflect.TypeOf(&dst.Ident{}).Implements(fv.Type()):
					fv.Set(reflect.ValueOf(&dst.Ident{}))
				case reflect.TypeOf(&dst.EmptyStmt{}).Implements(fv.Type()):
					fv.Set(reflect.ValueOf(&dst.EmptyStmt{}))
				}
			}
		}
	}
	var all []dst.Node
	reflectPreorder(f, nil, &all)
	prune := map[dst.Node]bool{}
	for _, i := range in.Prune {
		if i >= 0 && i < len(all) {
			prune[all[i]] = true
		}
	}
	var want []dst.Node
	reflectPreorder(f, func(n dst.Node) bool { return prune[n] }, &want)

	var log []dst.Node
	if pm := safely(func() { dst.Walk(c13LogVisitor{&log, prune}, f) }); pm != "" {
		return "c13-panic", "dst.Walk panicked: " + pm
	}
	// (1)+(3) visited non-nil nodes = expected preorder; (2) nil calls bracket the children
	var got []dst.Node
	depth := 0
	var stack []dst.Node
	for _, n := range log {
		if n == nil {
			if len(stack) == 0 {
				return "c13-nil", "Visit(nil) without an entered node"
			}
			stack = stack[:len(stack)-1]
			continue
		}
		got = append(got, n)
		if !prune[n] {
			stack = append(stack, n)
			if len(stack) > depth {
				depth = len(stack)
			}
		}
	}
	if len(stack) != 0 {
		return "c13-nil", fmt.Sprintf("%d entered nodes never received Visit(nil)", len(stack))
	}
	if len(got) != len(want) {
		return "c13-order", fmt.Sprintf("Walk visited %d nodes, reflection preorder has %d", len(got), len(want))
	}
	for i := range got {
		if got[i] != want[i] {
			return "c13-order", fmt.Sprintf("visit %d is %T, reflection preorder has %T", i, got[i], want[i])
		}
	}
	// parents before children, nil after children: re-derive the bracket structure
	idx := 0
	var verify func(n dst.Node) bool
	verify = func(n dst.Node) bool {
		if idx >= len(log) || log[idx] != n {
			return false
		}
		idx++
		if prune[n] {
			return true
		}
		for _, c := range reflectChildren(n) {
			if !verify(c) {
				return false
			}
		}
		if idx >= len(log) || log[idx] != nil {
			return false
		}
		idx++
		return true
	}
	if !verify(f) || idx != len(log) {
		return "c13-structure", fmt.Sprintf("visit log does not have the shape node, children, nil (at log index %d)", idx)
	}
	// Inspect = Walk with the visitor that continues iff f returns true
	var ilog []dst.Node
	dst.Inspect(f, func(n dst.Node) bool {
		ilog = append(ilog, n)
		return n != nil && !prune[n]
	})
	if len(ilog) != len(log) {
		return "c13-inspect", fmt.Sprintf("Inspect made %d calls, Walk %d", len(ilog), len(log))
	}
	for i := range ilog {
		if ilog[i] != log[i] {
			return "c13-inspect", fmt.Sprintf("Inspect call %d differs from Walk", i)
		}
	}
	// a visitor that hands out a NEW visitor per level (depth tracking): every Visit(nil) must go to
	// the visitor that was returned for the node being closed -- compared with go/ast's Walk
	if len(in.Prune) == 0 && in.NilOptional == 0 && in.EmptyOptional == 0 && !in.Resolver {
		var dl, al []string
		dst.Walk(c13LevelVisitor{0, &dl}, f)
		ast.Walk(c13AstLevelVisitor{0, &al}, af)
		if len(dl) != len(al) {
			return "c13-levels", fmt.Sprintf("a depth-tracking visitor logs %d calls under dst.Walk, %d under ast.Walk", len(dl), len(al))
		}
		for i := range dl {
			if dl[i] != al[i] {
				return "c13-levels", fmt.Sprintf("call %d of a depth-tracking visitor: dst.Walk %q, ast.Walk %q", i, dl[i], al[i])
			}
		}
	}
	// (4) go/ast traversal of the source, comments removed, mapped to dst; a collapsed
	// qualified identifier contributes one visit instead of three
	if len(in.Prune) == 0 && in.NilOptional == 0 && in.EmptyOptional == 0 {
		var aseq []dst.Node
		ast.Inspect(af, func(n ast.Node) bool {
			switch n.(type) {
			case nil:
				return false
			case *ast.Comment, *ast.CommentGroup:
				return false
			}
			dn, ok := dec.Dst.Nodes[n]
			if !ok {
				aseq = append(aseq, nil)
				return true
			}
			if len(aseq) > 0 && aseq[len(aseq)-1] == dn {
				return true
			}
			aseq = append(aseq, dn)
			return true
		})
		if len(aseq) != len(got) {
			return "c13-goast", fmt.Sprintf("go/ast visits %d nodes (comments removed, qualified identifiers collapsed), dst.Walk %d", len(aseq), len(got))
		}
		for i := range aseq {
			if aseq[i] != got[i] {
				return "c13-goast", fmt.Sprintf("visit %d: go/ast's node maps to %T, dst.Walk visited %T", i, aseq[i], got[i])
			}
		}
	}
	return "", ""
}

func c13Prop(c *Ctx) {
	c.Res.Rule = "sources: hand corpus covering every node kind + parseable sources gofmt would rewrite (empty result lists, empty groups, empty statements, redundant parentheses) + files sampled from $GOROOT/src; also with optional children removed / replaced by empty hand-built nodes; each decorated without and with the goast resolver; 1 unpruned + 2 random pruning sets each; non-trivial = distinct (source, resolver, pruning set) with more than 10 nodes"
	srcs := append(append([]string{}, c13Uncanonical...), oracleSources(c, c.N(25), 20000)...)
	for _, src := range srcs {
		for _, res := range []bool{false, true} {
			for r := 0; r < 3; r++ {
				in := c13Input{Src: src, Resolver: res}
				if r > 0 {
					for k := 0; k < 1+c.Rng.Intn(6); k++ {
						in.Prune = append(in.Prune, c.Rng.Intn(len(src)/6+1))
					}
				}
				c.Res.Evaluations++
				if len(src) > 60 {
					c.Res.seen(fmt.Sprintf("%d/%v/%v", len(src), res, in.Prune) + src[:40])
				}
				c.Res.hist("c13", fmt.Sprintf("resolver=%v pruned=%v", res, r > 0))
				if key, what := c13Check(in); key != "" {
					c.Res.fail(key, what, in)
				}
				if r == 1 && !res {
					// the same tree with optional children removed
					in2 := c13Input{Src: src, Prune: in.Prune, NilOptional: 1 + c.Rng.Intn(3), Seed: c.Rng.Int63()}
					c.Res.Evaluations++
					c.Res.hist("c13", "optional children set to nil")
					if key, what := c13Check(in2); key != "" {
						c.Res.fail(key, what, in2)
					}
					// the same tree with absent optional children replaced by present, empty ones
					in3 := c13Input{Src: src, Prune: in.Prune, EmptyOptional: 1 + c.Rng.Intn(3), Seed: c.Rng.Int63()}
					c.Res.Evaluations++
					c.Res.hist("c13", "absent optional children set to empty nodes")
					if key, what := c13Check(in3); key != "" {
						c.Res.fail(key, what, in3)
					}
				}
				if len(c.Res.Samples) < 2 && r == 1 {
					c.Res.Samples = append(c.Res.Samples, map[string]interface{}{"src": clip(src, 200), "resolver": res, "prune": in.Prune})
				}
			}
		}
	}
}

func init() {
	props["C13"] = c13Prop
	replays["C13"] = func(c *Ctx, raw json.RawMessage) (bool, string) {
		var in c13Input
		if err := json.Unmarshal(raw, &in); err != nil {
			return false, err.Error()
		}
		key, what := c13Check(in)
		return key != "", what
	}
}
