package main

import (
	"bytes"
	"encoding/json"
	"errors"
	"fmt"
	"go/ast"
	"go/format"
	"go/parser"
	"go/token"
	"math/rand"
	"sort"
	"strconv"
	"strings"

	"github.com/dave/dst"
	"github.com/dave/dst/decorator"
	"github.com/dave/dst/decorator/resolver"
)

// Import configurations (G3): dst files built programmatically -- import blocks of any shape,
// identifiers carrying package paths, an Alias map, a resolver map -- restored with import
// management.  Used by C07 (oracle + correspondence of Model/Imports.v), C17, C08, C16, C20.

type icSpec struct {
	Path  string `json:"path"`
	Alias string `json:"alias"`
	Quote string `json:"quote,omitempty"` // how the path literal is written: "" = "path", "raw" = `path`, "esc" = first byte as \xNN
	// layout of the spec in its block ("" / absent: a plain new line before and after, no comments)
	Before string   `json:"before,omitempty"` // "empty": an empty line above (the spec leads a group)
	After  string   `json:"after,omitempty"`  // "empty": an empty line below
	Start  []string `json:"start,omitempty"`  // comments (and line breaks) above the spec
	End    []string `json:"end,omitempty"`    // comments after the spec
}

func icSpace(s string) dst.SpaceType {
	if s == "empty" {
		return dst.EmptyLine
	}
	return dst.NewLine
}

// genImportLayout gives the specs of a configuration a layout of their own: groups separated by
// empty lines anywhere (also inside the standard-library part, also more than two groups, also no
// empty line above the first dotted path), comments above and behind specs. The decorator records
// an empty line on both neighbours (After of the spec above, Before of the spec below); hand-built
// trees need not, so both forms occur.
func genImportLayout(r *rand.Rand, c *icConfig) {
	for bi := range c.Blocks {
		b := c.Blocks[bi]
		for si := range b {
			if si > 0 && r.Intn(3) == 0 {
				b[si].Before = "empty"
				if r.Intn(4) != 0 {
					b[si-1].After = "empty"
				}
			}
			if r.Intn(6) == 0 {
				b[si].Start = []string{fmt.Sprintf("// about %s", b[si].Path), "\n"}
			}
			if r.Intn(6) == 0 {
				b[si].End = []string{fmt.Sprintf("// %s", b[si].Path)}
			}
		}
	}
}

// the path literal of an import spec in one of the three spellings the language allows
func (s icSpec) literal() string {
	switch s.Quote {
	case "raw":
		return "`" + s.Path + "`"
	case "esc":
		if len(s.Path) > 0 {
			return fmt.Sprintf("\"\\x%02x%s\"", s.Path[0], s.Path[1:])
		}
	}
	return strconv.Quote(s.Path)
}

type icConfig struct {
	Local    string            `json:"local"`
	Blocks   [][]icSpec        `json:"blocks"`
	Paren    []bool            `json:"paren"`
	Used     []string          `json:"used"`
	Alias    map[string]string `json:"alias"`
	Resolver map[string]string `json:"resolver"`
}

var icPool = []string{"fmt", "os", "io", "strings", "math/rand", "crypto/rand", "text/template", "html/template",
	"example.com/a", "example.com/b/rand", "github.com/x/fmt", "github.com/x/y", "gopkg.in/yaml.v2",
	"example.com/a/v2", "fmt/v2", // a package and its sub-package (one path is an element-wise prefix of the other), same package name
	"example.com/rand1", "z.org/fmt1", // their names are what the conflict loop generates for a second "rand" / "fmt"
	"B/x"} // sorts before "C": a blank or dot import of it is processed before the cgo import

func icDefaultName(p string) string {
	if p == "gopkg.in/yaml.v2" {
		return "yaml"
	}
	if strings.HasSuffix(p, "/v2") {
		p = strings.TrimSuffix(p, "/v2")
	}
	return p[strings.LastIndex(p, "/")+1:]
}

// mapResolver fails (with the sentinel) for paths not in the map and counts calls
type mapResolver struct {
	m     map[string]string
	calls []string
	fail  map[string]error
}

func (r *mapResolver) ResolvePackage(p string) (string, error) {
	r.calls = append(r.calls, p)
	if e, ok := r.fail[p]; ok {
		return "", e
	}
	if n, ok := r.m[p]; ok {
		return n, nil
	}
	return "", resolver.ErrPackageNotFound
}

func genImportConfig(r *rand.Rand, allowFail bool, allowDupPaths bool) icConfig {
	c := icConfig{Local: "example.com/local", Alias: map[string]string{}, Resolver: map[string]string{}}
	pool := append([]string{}, icPool...)
	r.Shuffle(len(pool), func(i, j int) { pool[i], pool[j] = pool[j], pool[i] })
	for _, p := range icPool {
		c.Resolver[p] = icDefaultName(p)
	}
	aliases := []string{"", "", "", "", "_", ".", "x", "rand", "fmt", "a", "y1", "rand1", "fmt1", "rand2"}
	nb := r.Intn(4)
	k := 0
	seenPath := map[string]bool{}
	for b := 0; b < nb; b++ {
		var specs []icSpec
		ns := r.Intn(5)
		for s := 0; s < ns && k < len(pool); s++ {
			p := pool[k]
			k++
			if allowDupPaths && len(seenPath) > 0 && r.Intn(6) == 0 {
				for q := range seenPath {
					p = q
					break
				}
			}
			seenPath[p] = true
			specs = append(specs, icSpec{Path: p, Alias: aliases[r.Intn(len(aliases))], Quote: []string{"", "", "", "", "raw", "esc"}[r.Intn(6)]})
		}
		if r.Intn(8) == 0 {
			// "C" anywhere in a block, also first
			at := r.Intn(len(specs) + 1)
			specs = append(specs[:at], append([]icSpec{{Path: "C"}}, specs[at:]...)...)
		}
		if len(specs) == 0 {
			continue
		}
		c.Blocks = append(c.Blocks, specs)
		c.Paren = append(c.Paren, len(specs) != 1 || r.Intn(3) == 0)
	}
	if r.Intn(10) == 0 {
		// a leading cgo-only block
		c.Blocks = append([][]icSpec{{{Path: "C", Quote: []string{"", "raw"}[r.Intn(2)]}}}, c.Blocks...)
		c.Paren = append([]bool{false}, c.Paren...)
	}
	nu := r.Intn(6)
	for i := 0; i < nu; i++ {
		c.Used = append(c.Used, icPool[r.Intn(len(icPool))])
	}
	if r.Intn(4) == 0 {
		c.Used = append(c.Used, c.Local)
	}
	if r.Intn(4) == 0 {
		c.Used = append(c.Used, "")
	}
	na := r.Intn(3)
	for i := 0; i < na; i++ {
		c.Alias[icPool[r.Intn(len(icPool))]] = []string{"", "z", "rand", "_", ".", "fmt", "rand1", "fmt1"}[r.Intn(8)]
	}
	if allowFail && r.Intn(3) == 0 && len(c.Used) > 0 {
		delete(c.Resolver, c.Used[r.Intn(len(c.Used))])
	}
	return c
}

func icBuild(c icConfig) (*dst.File, []*dst.GenDecl) {
	f := &dst.File{Name: dst.NewIdent("main")}
	var blocks []*dst.GenDecl
	for bi, b := range c.Blocks {
		gd := &dst.GenDecl{Tok: token.IMPORT, Lparen: c.Paren[bi], Rparen: c.Paren[bi]}
		gd.Decs.Before = dst.EmptyLine
		gd.Decs.After = dst.EmptyLine
		for _, s := range b {
			is := &dst.ImportSpec{Path: &dst.BasicLit{Kind: token.STRING, Value: s.literal()}}
			if s.Alias != "" {
				is.Name = dst.NewIdent(s.Alias)
			}
			is.Decs.Before = icSpace(s.Before)
			is.Decs.After = icSpace(s.After)
			is.Decs.Start.Append(s.Start...)
			is.Decs.End.Append(s.End...)
			gd.Specs = append(gd.Specs, is)
		}
		f.Decls = append(f.Decls, gd)
		blocks = append(blocks, gd)
	}
	body := &dst.BlockStmt{}
	for i, p := range c.Used {
		id := &dst.Ident{Name: fmt.Sprintf("V%d", i), Path: p}
		st := &dst.AssignStmt{Lhs: []dst.Expr{dst.NewIdent("_")}, Tok: token.ASSIGN, Rhs: []dst.Expr{id}}
		st.Decs.Before = dst.NewLine
		st.Decs.After = dst.NewLine
		body.List = append(body.List, st)
	}
	fd := &dst.FuncDecl{Name: dst.NewIdent("f"), Type: &dst.FuncType{Params: &dst.FieldList{}}, Body: body}
	fd.Decs.Before = dst.EmptyLine
	f.Decls = append(f.Decls, fd)
	return f, blocks
}

type icObs struct {
	Failed    string // unresolvable path reported ("" = success)
	Err       error
	Panic     string
	Blocks    [][]icObsSpec // managed import blocks after the run
	Snapshot  [][]icObsSpec // the same blocks of the tree as handed to the restorer (taken before the run)
	Paren     []bool
	Names     map[string]string // used path -> qualifier in the restored ast ("" = bare)
	Output    string
	CallOrder []string
}

type icObsSpec struct {
	Path, Alias   string
	Before, After dst.SpaceType
	Start, End    string // the decorations above / behind the spec, %q of the list
}

func (s icObsSpec) decs() string {
	return fmt.Sprintf("before=%v after=%v start=%s end=%s", s.Before, s.After, s.Start, s.End)
}

// icObserveBlocks: the import declarations of the tree (the cgo-only ones aside), every spec with
// its name and all its decorations
func icObserveBlocks(f *dst.File, cgoOnly map[*dst.GenDecl]bool) (blocks [][]icObsSpec, paren []bool) {
	for _, d := range f.Decls {
		gd, ok := d.(*dst.GenDecl)
		if !ok || gd.Tok != token.IMPORT || cgoOnly[gd] {
			continue
		}
		var specs []icObsSpec
		for _, s := range gd.Specs {
			is := s.(*dst.ImportSpec)
			p, _ := strconv.Unquote(is.Path.Value)
			a := ""
			if is.Name != nil {
				a = is.Name.Name
			}
			specs = append(specs, icObsSpec{p, a, is.Decs.Before, is.Decs.After, fmt.Sprintf("%q", []string(is.Decs.Start)), fmt.Sprintf("%q", []string(is.Decs.End))})
		}
		blocks = append(blocks, specs)
		paren = append(paren, gd.Lparen)
	}
	return
}

func icRun(c icConfig) (o icObs, f *dst.File) {
	f, orig := icBuild(c)
	cgoOnly := map[*dst.GenDecl]bool{}
	for _, gd := range orig {
		if p, _ := strconv.Unquote(gd.Specs[0].(*dst.ImportSpec).Path.Value); len(gd.Specs) == 1 && p == "C" {
			cgoOnly[gd] = true
		}
	}
	res := &mapResolver{m: c.Resolver}
	r := decorator.NewRestorerWithImports(c.Local, res)
	fr := r.FileRestorer()
	for k, v := range c.Alias {
		fr.Alias[k] = v
	}
	var af *ast.File
	o.Snapshot, _ = icObserveBlocks(f, cgoOnly)
	o.Panic = safely(func() { af, o.Err = fr.RestoreFile(f) })
	o.CallOrder = res.calls
	if o.Panic != "" {
		return
	}
	if o.Err != nil {
		msg := o.Err.Error()
		if strings.HasPrefix(msg, "could not resolve package ") {
			o.Failed = strings.TrimSuffix(strings.TrimPrefix(msg, "could not resolve package "), ": "+resolver.ErrPackageNotFound.Error())
		} else {
			o.Failed = "?" + msg
		}
		return
	}
	o.Blocks, o.Paren = icObserveBlocks(f, cgoOnly)
	o.Names = map[string]string{}
	for dn, an := range r.Ast.Nodes {
		id, ok := dn.(*dst.Ident)
		if !ok || !strings.HasPrefix(id.Name, "V") {
			continue
		}
		switch an := an.(type) {
		case *ast.SelectorExpr:
			o.Names[id.Path] = an.X.(*ast.Ident).Name
		case *ast.Ident:
			o.Names[id.Path] = ""
		}
	}
	var buf bytes.Buffer
	if err := format.Node(&buf, r.Fset, af); err == nil {
		o.Output = buf.String()
	}
	return
}

// ---- the C07 oracle on the real output ---------------------------------------------------
func c07Check(c icConfig) (key, what string) {
	o, _ := icRun(c)
	if o.Panic != "" {
		return "c07-panic", "RestoreFile panicked: " + o.Panic
	}
	inuse := map[string]bool{}
	for _, p := range c.Used {
		if p != "" && p != c.Local {
			inuse[p] = true
		}
	}
	if o.Err != nil {
		if _, ok := c.Resolver[o.Failed]; ok || !inuse[o.Failed] {
			return "c07-error", "unexpected error: " + o.Err.Error()
		}
		return "", ""
	}
	if o.Output == "" {
		return "c07-print", "the restored file does not print"
	}
	// re-parse the output: what does each identifier refer to, what is imported
	pf, err := parser.ParseFile(token.NewFileSet(), "", o.Output, 0)
	if err != nil {
		return "c07-print", "the output does not parse: " + err.Error() + "\n" + o.Output
	}
	type imp struct{ path, name string }
	var imps []imp
	count := map[string]int{}
	for _, is := range pf.Imports {
		p, _ := strconv.Unquote(is.Path.Value)
		n := ""
		if is.Name != nil {
			n = is.Name.Name
		}
		imps = append(imps, imp{p, n})
		count[p]++
	}
	srcHasDup := false
	seen := map[string]bool{}
	for _, b := range c.Blocks {
		for _, s := range b {
			if seen[s.Path] {
				srcHasDup = true
			}
			seen[s.Path] = true
		}
	}
	binding := map[string]string{} // name bound in the file -> path
	dots := map[string]bool{}
	for _, im := range imps {
		name := im.name
		switch name {
		case "_":
			continue
		case ".":
			dots[im.path] = true
			continue
		case "":
			name = c.Resolver[im.path]
			if name == "" {
				name = icDefaultName(im.path)
			}
		}
		if im.path == "C" {
			continue
		}
		if prev, ok := binding[name]; ok && prev != im.path {
			return "c07-distinct", fmt.Sprintf("imports %q and %q are both bound to the name %s\n%s", prev, im.path, name, o.Output)
		}
		binding[name] = im.path
	}
	// every identifier
	for p := range inuse {
		q, ok := o.Names[p]
		if !ok {
			return "c07-bound", "identifier with path " + p + " was not restored"
		}
		if q == "" {
			if !dots[p] {
				return "c07-bound", fmt.Sprintf("identifier with path %q is printed bare but %q is not dot-imported\n%s", p, p, o.Output)
			}
			continue
		}
		if binding[q] != p {
			return "c07-bound", fmt.Sprintf("identifier with path %q is printed as %s.X, but %s is bound to %q\n%s", p, q, q, binding[q], o.Output)
		}
	}
	if q, ok := o.Names[c.Local]; ok && q != "" {
		return "c07-local", "an identifier with the local path is qualified with " + q
	}
	if q, ok := o.Names[""]; ok && q != "" {
		return "c07-local", "an identifier without path is qualified with " + q
	}
	// exactness of the import declarations
	for _, im := range imps {
		if !inuse[im.path] && im.name != "_" && im.path != "C" {
			return "c07-exact", fmt.Sprintf("import %q is not referenced, not blank and not cgo\n%s", im.path, o.Output)
		}
	}
	for p := range inuse {
		if count[p] == 0 {
			return "c07-exact", fmt.Sprintf("referenced path %q is not imported\n%s", p, o.Output)
		}
		if count[p] > 1 && !srcHasDup {
			return "c07-exact", fmt.Sprintf("referenced path %q is imported %d times\n%s", p, count[p], o.Output)
		}
	}
	// precedence: Alias map > source alias > resolved name, when conflict-free
	srcAlias := map[string]string{}
	for _, b := range c.Blocks {
		for _, s := range b {
			srcAlias[s.Path] = s.Alias
		}
	}
	if !srcHasDup {
		for p := range inuse {
			want := ""
			if a, ok := c.Alias[p]; ok && a != "_" {
				want = a
				if a == "" {
					want = c.Resolver[p]
				}
			} else if a := srcAlias[p]; a != "" && a != "_" {
				want = a
			} else {
				want = c.Resolver[p]
			}
			got := o.Names[p]
			if want == "." {
				want = ""
			}
			if got != want && !strings.HasPrefix(got, want) {
				return "c07-precedence", fmt.Sprintf("path %q: expected name %q (Alias map > source alias > resolved name), got %q\n%s", p, want, got, o.Output)
			}
			if got != want {
				// renamed: only legal on a conflict, and then want+<k>
				if _, err := strconv.Atoi(strings.TrimPrefix(got, want)); err != nil || want == "" {
					return "c07-precedence", fmt.Sprintf("path %q: name %q is not %q or %q<k>\n%s", p, got, want, want, o.Output)
				}
				conflict := false
				for q, n := range o.Names {
					if q != p && n == want {
						conflict = true
					}
				}
				if !conflict {
					return "c07-precedence", fmt.Sprintf("path %q was renamed to %q although %q is free\n%s", p, got, want, o.Output)
				}
			}
		}
	}
	// blocks that need no addition keep order and decorations
	needAdd := false
	for p := range inuse {
		if !seen[p] {
			needAdd = true
		}
	}
	for p, a := range c.Alias {
		if a == "_" && !seen[p] && !inuse[p] {
			needAdd = true
		}
	}
	if !needAdd && !srcHasDup {
		var before, after []string
		for _, b := range c.Blocks {
			if len(b) == 1 && b[0].Path == "C" {
				continue
			}
			for _, s := range b {
				before = append(before, s.Path)
			}
		}
		// the decorations every spec had in the tree handed to the restorer (paths are unique here)
		had := map[string]icObsSpec{}
		for _, b := range o.Snapshot {
			for _, s := range b {
				had[s.Path] = s
			}
		}
		for _, b := range o.Blocks {
			for _, s := range b {
				after = append(after, s.Path)
				if h, ok := had[s.Path]; ok && h.decs() != s.decs() {
					return "c07-preserve", fmt.Sprintf("no import was added, yet the decorations of the spec %q that stays changed: %s -> %s\n%s", s.Path, h.decs(), s.decs(), o.Output)
				}
			}
		}
		// after must be a subsequence of before
		j := 0
		for _, p := range before {
			if j < len(after) && after[j] == p {
				j++
			}
		}
		if j != len(after) {
			return "c07-preserve", fmt.Sprintf("no import was added, yet the specs were reordered: %v -> %v", before, after)
		}
	}
	return "", ""
}

func c07Prop(c *Ctx) {
	c.Res.Rule = "import configurations drawn from one PRNG: 0-3 blocks of 0-4 specs over 13 collision-heavy paths (equal package names, dotted/undotted, cgo) with aliases in {none,_,.,names}, 0-5 referenced paths (plus local / empty), 0-2 Alias overrides, complete resolver map; the same with a layout per spec (groups separated by empty lines anywhere, comments above / behind specs) and mostly only imported paths referenced: specs that stay keep the decorations of the tree handed to the restorer; source files with laid-out import blocks (hand-written + generated) from which every import in turn becomes unused: tree decorations, go/parser view of the specs that stay and the bytes between neighbours that stay are unchanged; non-trivial = distinct configuration with at least one referenced path"
	n := c.N(700)
	for i := 0; i < n; i++ {
		cfg := genImportConfig(c.Rng, false, false)
		c.Res.Evaluations++
		b, _ := json.Marshal(cfg)
		if len(cfg.Used) > 0 {
			c.Res.seen(string(b))
		}
		c.Res.hist("c07-blocks", fmt.Sprint(len(cfg.Blocks)))
		c.Res.hist("c07-used", fmt.Sprint(len(cfg.Used)))
		if key, what := c07Check(cfg); key != "" {
			c.Res.fail(key, what, cfg)
		}
		if len(c.Res.Samples) < 2 && len(cfg.Blocks) > 1 && len(cfg.Used) > 2 {
			c.Res.Samples = append(c.Res.Samples, cfg)
		}
	}
	// blocks with a layout of their own (groups, comments) from which imports disappear and to
	// which, mostly, nothing is added: the specs that stay keep their decorations. Own random
	// stream: the configurations above stay as they were.
	lrng := rand.New(rand.NewSource(c.Seed*7919 + 7))
	for i := 0; i < c.N(400); i++ {
		cfg := genImportConfig(lrng, false, false)
		genImportLayout(lrng, &cfg)
		if lrng.Intn(4) != 0 {
			// only imported paths are referenced, each with probability 2/3: nothing to add
			cfg.Used = nil
			for _, b := range cfg.Blocks {
				for _, s := range b {
					if s.Path != "C" && lrng.Intn(3) != 0 {
						cfg.Used = append(cfg.Used, s.Path)
					}
				}
			}
		}
		c.Res.Evaluations++
		b, _ := json.Marshal(cfg)
		c.Res.seen(string(b))
		c.Res.hist("c07-layout", c07LayoutClass(cfg))
		if key, what := c07Check(cfg); key != "" {
			c.Res.fail(key, what, cfg)
		}
	}
	c07SourceDeletions(c)
	// the recorded finding: one path imported twice under two names
	dup := icConfig{Local: "example.com/local", Blocks: [][]icSpec{{{Path: "fmt"}, {Path: "fmt", Alias: "f2"}}}, Paren: []bool{true}, Used: []string{"fmt"},
		Alias: map[string]string{}, Resolver: map[string]string{"fmt": "fmt"}}
	o, _ := icRun(dup)
	if o.Err == nil && o.Panic == "" {
		cnt := 0
		names := map[string]bool{}
		for _, b := range o.Blocks {
			for _, s := range b {
				if s.Path == "fmt" {
					cnt++
					names[s.Alias] = true
				}
			}
		}
		if cnt > 1 && len(names) == 1 {
			c.Res.fail("duplicate-path-import", "a file importing \"fmt\" twice under two names is restored with both specs renamed to one name (imports no longer exact)", dup)
		}
	}
}

func coqStr(s string) string { return "\"" + strings.ReplaceAll(s, "\"", "\"\"") + "\"" }

func coqAmap(m map[string]string) string {
	var ks []string
	for k := range m {
		ks = append(ks, k)
	}
	sort.Strings(ks)
	var ps []string
	for _, k := range ks {
		ps = append(ps, fmt.Sprintf("(%s, %s)", coqStr(k), coqStr(m[k])))
	}
	return "[" + strings.Join(ps, "; ") + "]"
}

func coqStrList(l []string) string {
	var ps []string
	for _, s := range l {
		ps = append(ps, coqStr(s))
	}
	return "[" + strings.Join(ps, "; ") + "]"
}

func icCaseTerm(c icConfig, o icObs) string {
	var bs []string
	id := 1
	for bi, b := range c.Blocks {
		var ss []string
		for _, s := range b {
			ss = append(ss, fmt.Sprintf("mkSpec %s %s %d SNewLine SNewLine", coqStr(s.Path), coqStr(s.Alias), id))
			id++
		}
		bs = append(bs, fmt.Sprintf("mkBlock [%s] %v %d", strings.Join(ss, "; "), c.Paren[bi], 100+bi))
	}
	failed := "None"
	if o.Failed != "" {
		failed = "(Some " + coqStr(o.Failed) + ")"
	}
	var obs []string
	for bi, b := range o.Blocks {
		var ss []string
		for _, s := range b {
			ss = append(ss, fmt.Sprintf("(%s, %s, %s, %s)", coqStr(s.Path), coqStr(s.Alias), spaceTerm(s.Before), spaceTerm(s.After)))
		}
		obs = append(obs, fmt.Sprintf("([%s], %v)", strings.Join(ss, "; "), o.Paren[bi]))
	}
	return fmt.Sprintf("mkIC %s %s %s\n  [%s]\n  %s %s\n  [%s]\n  %s", coqStr(c.Local), coqAmap(c.Alias), coqAmap(c.Resolver),
		strings.Join(bs, "; "), coqStrList(c.Used), failed, strings.Join(obs, "; "), coqAmap(o.Names))
}

// correspondence of Model/Imports.v
func importsCorr(c *Ctx) {
	var cases []string
	n := c.N(250)
	for i := 0; i < n; i++ {
		cfg := genImportConfig(c.Rng, true, false)
		// keep the failing path unique (the order of resolver calls follows Go map iteration)
		missing := 0
		seenU := map[string]bool{}
		for _, p := range cfg.Used {
			if _, ok := cfg.Resolver[p]; !ok && p != "" && p != cfg.Local && !seenU[p] {
				missing++
			}
			seenU[p] = true
		}
		if missing > 1 {
			continue
		}
		o, _ := icRun(cfg)
		if o.Panic != "" {
			continue
		}
		cases = append(cases, icCaseTerm(cfg, o))
		c.Res.CaseInputs = appendCase(c.Res.CaseInputs, "mismatch_imports", cfg)
		c.Res.Traces++
	}
	c.caseSB.WriteString("From Coq Require Import List String ZArith NArith Bool.\nImport ListNotations.\nFrom DV Require Import Model.Tree Model.Imports Model.ImportCases.\nLocal Open Scope string_scope.\nLocal Open Scope list_scope.\n")
	c.caseSB.WriteString("Definition icases : list icase := [\n" + strings.Join(cases, ";\n") + "].\n")
	c.caseSB.WriteString("Definition mismatch_imports := Eval vm_compute in bad_icases icases.\nPrint mismatch_imports.\n")
}

var errInjected = errors.New("injected resolver failure")

func init() {
	props["C07"] = c07Prop
	corrs["C07"] = importsCorr
	replays["C07"] = func(c *Ctx, raw json.RawMessage) (bool, string) {
		var si c07SrcInput
		if err := json.Unmarshal(raw, &si); err == nil && si.Src != "" && si.Remove != "" {
			key, what := c07SrcCheck(si)
			return key != "", what
		}
		var cfg icConfig
		if err := json.Unmarshal(raw, &cfg); err != nil || cfg.Local == "" {
			return false, "not an import configuration"
		}
		key, what := c07Check(cfg)
		return key != "", what
	}
}
