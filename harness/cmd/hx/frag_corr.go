package main

import (
	"bytes"
	"fmt"
	"go/ast"
	"go/format"
	"go/parser"
	"go/token"
	"reflect"
	"sort"
	"strings"

	"github.com/dave/dst"
	"github.com/dave/dst/decorator"
	"github.com/dave/dst/decorator/resolver/goast"
	"github.com/dave/dst/decorator/resolver/guess"
)

// Correspondence of Model/Fragment.v: the positioned go/ast tree, the comments and the FileSet's
// line table go to the model; the sorted fragment list of the real fragment() (verif hook) is
// the expectation.

var astNodeType = reflect.TypeOf((*ast.Node)(nil)).Elem()

type astDumper struct {
	ids map[ast.Node]int
	td  *treeDumper
}

func newAstDumper() *astDumper { return &astDumper{ids: map[ast.Node]int{}, td: newTreeDumper()} }

func (d *astDumper) id(n ast.Node) int {
	if id, ok := d.ids[n]; ok {
		return id
	}
	d.ids[n] = len(d.ids) + 1
	return d.ids[n]
}

func isNilAstValue(v reflect.Value) bool {
	switch v.Kind() {
	case reflect.Interface, reflect.Ptr, reflect.Slice, reflect.Map:
		return v.IsNil()
	}
	return false
}

func skipAstField(t reflect.Type) bool {
	switch t {
	case reflect.TypeOf((*ast.CommentGroup)(nil)), reflect.TypeOf([]*ast.CommentGroup(nil)),
		reflect.TypeOf((*ast.Object)(nil)), reflect.TypeOf((*ast.Scope)(nil)):
		return true
	}
	return false
}

func (d *astDumper) Dump(n ast.Node) string {
	id := d.id(n)
	rv := reflect.ValueOf(n).Elem()
	rt := rv.Type()
	vals := []string{fmt.Sprintf("(\"$Pos\", VPos %d)", int(n.Pos()))}
	var kids []string
	for i := 0; i < rt.NumField(); i++ {
		f := rt.Field(i)
		fv := rv.Field(i)
		switch {
		case skipAstField(f.Type):
		case f.Type == reflect.TypeOf(token.Pos(0)):
			vals = append(vals, fmt.Sprintf("(%q, VPos %d)", f.Name, fv.Int()))
		case f.Type == reflect.TypeOf(token.Token(0)):
			vals = append(vals, fmt.Sprintf("(%q, VTok %q)", f.Name, token.Token(fv.Int()).String()))
		case f.Type.Implements(astNodeType) && (f.Type.Kind() == reflect.Interface || f.Type.Kind() == reflect.Ptr):
			if isNilAstValue(fv) || (fv.Kind() == reflect.Interface && isNilAstValue(fv.Elem())) {
				kids = append(kids, fmt.Sprintf("(%q, One None)", f.Name))
			} else {
				kids = append(kids, fmt.Sprintf("(%q, One (Some (%s)))", f.Name, d.Dump(fv.Interface().(ast.Node))))
			}
		case f.Type.Kind() == reflect.Slice && f.Type.Elem().Implements(astNodeType):
			if rt.Name() == "File" && f.Name == "Unresolved" {
				continue
			}
			var es []string
			for j := 0; j < fv.Len(); j++ {
				ev := fv.Index(j)
				if isNilAstValue(ev) {
					continue
				}
				es = append(es, d.Dump(ev.Interface().(ast.Node)))
			}
			kids = append(kids, fmt.Sprintf("(%q, Many [%s])", f.Name, strings.Join(es, "; ")))
		case f.Type.Kind() == reflect.Bool:
			vals = append(vals, fmt.Sprintf("(%q, VBool %v)", f.Name, fv.Bool()))
		case f.Type.Kind() == reflect.String:
			s := fv.String()
			nls := "[]"
			if strings.HasPrefix(s, "`") {
				nls = nlOffsets(s)
			}
			vals = append(vals, fmt.Sprintf("(%q, VStr %d %s %d)", f.Name, len(s), nls, d.td.strID(s)))
		case f.Type.Kind() == reflect.Int:
			vals = append(vals, fmt.Sprintf("(%q, VInt (%d))", f.Name, fv.Int()))
		}
	}
	return fmt.Sprintf("Node %d %q [%s] [%s] [] SNone SNone", id, strings.TrimPrefix(rt.Name(), "*"),
		strings.Join(vals, "; "), strings.Join(kids, "; "))
}

func fragCaseTerm(src string) (string, bool) {
	t, _, ok := fragDecCaseTerm(src, false)
	return t, ok
}

// fragDecCaseTerm: the fragment case and, with withDec, the dump of the dst tree the real Decorator
// builds from the same source (string ids shared with the go/ast dump)
var lastAstDumper *astDumper

func fragDecCaseTerm(src string, withDec bool) (string, string, bool) {
	fset := token.NewFileSet()
	af, err := parser.ParseFile(fset, "a.go", src, parser.ParseComments)
	if af == nil || (err != nil && !af.Pos().IsValid()) {
		return "", "", false
	}
	return fragDecCaseTermOn(fset, af, withDec)
}

func fragDecCaseTermOn(fset *token.FileSet, af *ast.File, withDec bool) (string, string, bool) {
	var v decorator.VerifLink
	if pm := safely(func() { v = decorator.VerifFragmentAndLink(fset, af) }); pm != "" {
		return "", "", false
	}
	d := newAstDumper()
	lastAstDumper = d
	tree := d.Dump(af)
	var coms []string
	for _, cg := range af.Comments {
		for _, c := range cg.List {
			coms = append(coms, fmt.Sprintf("(%d, %s)", int(c.Slash), d.td.decTerm(c.Text)))
		}
	}
	tf := fset.File(af.Pos())
	var lines []string
	for _, l := range tf.Lines() {
		lines = append(lines, fmt.Sprint(l))
	}
	var exp []string
	for _, fr := range v.Fragments {
		switch fr.Kind {
		case "dec":
			_, stmt := fr.Node.(ast.Stmt)
			_, decl := fr.Node.(ast.Decl)
			_, lab := fr.Node.(*ast.LabeledStmt)
			_, cc := fr.Node.(*ast.CaseClause)
			_, cm := fr.Node.(*ast.CommClause)
			id, known := d.ids[fr.Node]
			if !known {
				id = 0 // a node the dump does not reach: the model cannot have emitted it
			}
			exp = append(exp, fmt.Sprintf("(%d, FDec %d (mkNC %v %v %v %v) %s %d %d)", int(fr.Pos), id, stmt, decl, lab, cc || cm, coqStr(fr.Name), fr.StartIndent, fr.EndIndent))
		case "tok", "str":
			exp = append(exp, fmt.Sprintf("(%d, FTok)", int(fr.Pos)))
		case "bad":
			exp = append(exp, fmt.Sprintf("(%d, FBad)", int(fr.Pos)))
		case "com":
			exp = append(exp, fmt.Sprintf("(%d, FCom (%s) %d None)", int(fr.Pos), d.td.decTerm(fr.Text), fr.Indent))
		case "nl":
			exp = append(exp, fmt.Sprintf("(%d, FNl %v None)", int(fr.Pos), fr.Empty))
		}
	}
	fc := fmt.Sprintf("mkFC (%s)\n  [%s] %d %d [%s]\n  [%s]", tree, strings.Join(coms, "; "), tf.Base(), tf.Size(),
		strings.Join(lines, "; "), strings.Join(exp, "; "))
	dterm := ""
	if withDec {
		var df *dst.File
		var derr error
		if pm := safely(func() { df, derr = decorator.NewDecorator(fset).DecorateFile(af) }); pm != "" || derr != nil || df == nil {
			return "", "", false
		}
		dterm = d.td.Dump(df)
	}
	return fc, dterm, true
}

var fragExtra = []string{
	"package a\n\nvar s = `multi\nline\n\nstring`\n\n/* block\n\ncomment */\nvar t = 1\n\n\n\nvar u = 2\n\n\n\n\nvar w = 3\n",
	"package a\r\n\r\nimport (\r\n\t\"b\"\r\n\r\n\t\"a\"\r\n)\r\n\r\nfunc f() {\r\n\ta()\r\n\r\n\tb()\r\n}\r\n",
	"package a\n\nfunc f() {\n\tfor i := range x {\n\t}\n\tfor range x {\n\t}\n\tvar c chan<- int\n\tvar d <-chan int\n\tm := map[string]int{\"a\": 1}\n\t_ = x[1:2:3]\n\t_ = x.(type)\n\tgoto L\nL:\n\tx++\n}\n",
	"package a\n\nfunc f() {\n\tx := 1 +\n}\n\nfunc g( {\n",
}

// the same correspondence on what go/parser returns for broken sources (partial trees with Bad
// nodes and missing children): the malformed stream of C15
func fragCorrMalformed(c *Ctx) {
	var cases []string
	var srcs []string
	srcs = append(srcs, linkExtra...)
	srcs = append(srcs, sinkSources...)
	budget, used := c.Budget(400000), 0
	for _, src := range srcs {
		for _, k := range []string{"truncate", "delete", "flip", "insert", "swap"} {
			bad := c15Corrupt(c, src, k)
			t, ok := fragCaseTerm(bad)
			if !ok || used+len(t) > budget {
				continue
			}
			used += len(t)
			cases = append(cases, t)
			c.Res.CaseInputs = appendCase(c.Res.CaseInputs, "mismatch_fragment_malformed", bad)
			c.Res.CaseInputs = appendCase(c.Res.CaseInputs, "mismatch_envelope_malformed", bad)
			c.Res.Traces++
		}
	}
	c.caseSB.WriteString(coqCaseHeader + "From DV Require Import Model.FragSkel Model.Link Model.Fragment Model.FragCases Gen.FragTbl.\nLocal Open Scope Z_scope.\n")
	c.caseSB.WriteString("Definition fcases_bad : list fcase := [\n" + strings.Join(cases, ";\n") + "].\n")
	c.caseSB.WriteString("Definition mismatch_fragment_malformed := Eval vm_compute in bad_fcases frag_tbl ast_stmt_kinds ast_decl_kinds fcases_bad.\nPrint mismatch_fragment_malformed.\n")
	// the envelope of fragment_no_nil_dereference, on the partial trees of broken sources
	c.caseSB.WriteString("From DV Require Import Proofs.FragSafe Model.WalkCases.\nDefinition mismatch_envelope_malformed := Eval vm_compute in bad_idx (fun c => frag_envelope frag_tbl (fc_tree c)) 0 fcases_bad.\nPrint mismatch_envelope_malformed.\nLocal Close Scope Z_scope.\n")
}

func fragCorr(c *Ctx) {
	var cases []string
	srcs := append([]string{}, fragExtra...)
	srcs = append(srcs, linkExtra...)
	srcs = append(srcs, corrSources(c, c.N(3), 1200)...)
	budget, used := c.Budget(500000), 0
	add := func(src string) {
		if t, ok := fragCaseTerm(src); ok && used+len(t) <= budget {
			used += len(t)
			cases = append(cases, t)
			c.Res.CaseInputs = appendCase(c.Res.CaseInputs, "mismatch_fragment", src)
			c.Res.CaseInputs = appendCase(c.Res.CaseInputs, "mismatch_envelope", src)
			c.Res.Traces++
		}
	}
	for i, s := range srcs {
		if i%2 == 0 {
			add(s)
		} else {
			add(mangle(c.Rng, s))
		}
	}
	c.caseSB.WriteString(coqCaseHeader + "From DV Require Import Model.FragSkel Model.Link Model.Fragment Model.FragCases Gen.FragTbl.\nLocal Open Scope Z_scope.\n")
	c.caseSB.WriteString("Definition fcases : list fcase := [\n" + strings.Join(cases, ";\n") + "].\n")
	c.caseSB.WriteString("Definition mismatch_fragment := Eval vm_compute in bad_fcases frag_tbl ast_stmt_kinds ast_decl_kinds fcases.\nPrint mismatch_fragment.\n")
	c.caseSB.WriteString("From DV Require Import Proofs.FragSafe Model.WalkCases.\nDefinition mismatch_envelope := Eval vm_compute in bad_idx (fun c => frag_envelope frag_tbl (fc_tree c)) 0 fcases.\nPrint mismatch_envelope.\nLocal Close Scope Z_scope.\n")
}

// Correspondence of the composed model fragment ; link ; decorate (Model/Decorate.v) against the
// dst tree of the real Decorator.
func decCorr(c *Ctx) {
	var cases []string
	srcs := append([]string{}, fragExtra...)
	srcs = append(srcs, linkExtra...)
	srcs = append(srcs, sinkSources...)
	srcs = append(srcs, corrSources(c, c.N(3), 1200)...)
	budget, used := c.Budget(600000), 0
	for i, s := range srcs {
		if i%2 == 1 {
			s = mangle(c.Rng, s)
		}
		fc, dt, ok := fragDecCaseTerm(s, true)
		if !ok || used+len(fc)+len(dt) > budget {
			continue
		}
		used += len(fc) + len(dt)
		cases = append(cases, fmt.Sprintf("mkDC (%s)\n  (%s)", fc, dt))
		c.Res.CaseInputs = appendCase(c.Res.CaseInputs, "mismatch_decorate", s)
		c.Res.CaseInputs = appendCase(c.Res.CaseInputs, "mismatch_tokens", s)
		c.Res.CaseInputs = appendCase(c.Res.CaseInputs, "mismatch_alias", s)
		c.Res.Traces++
	}
	c.caseSB.WriteString(coqCaseHeader + "From DV Require Import Model.FragSkel Model.Link Model.Fragment Model.FragCases Model.Decorate Model.DecCases Gen.Universe Gen.FragTbl Gen.DecTbl Gen.RestTbl.\nLocal Open Scope Z_scope.\n")
	c.caseSB.WriteString("Definition dcases : list dcase := [\n" + strings.Join(cases, ";\n") + "].\n")
	c.caseSB.WriteString("Definition mismatch_decorate := Eval vm_compute in bad_dcases frag_tbl ast_stmt_kinds ast_decl_kinds dec_universe dec_tbl dcases.\nPrint mismatch_decorate.\n")
	c.caseSB.WriteString("Definition mismatch_tokens := Eval vm_compute in bad_tokens frag_tbl ast_stmt_kinds ast_decl_kinds dec_universe dec_tbl rest_tbl dcases.\nPrint mismatch_tokens.\n")
	// the hypothesis of the end-to-end theorem: File.Imports holds specs of the file's declarations
	c.caseSB.WriteString("Definition mismatch_alias := Eval vm_compute in bad_alias dcases.\nPrint mismatch_alias.\nLocal Close Scope Z_scope.\n")
}

// Correspondence of the whole pipeline  fragment ; link ; decorate ; restore  against the real
// Decorator followed by the real Restorer: positioned go/ast tree in, restored file (line table,
// size, comment groups, every position field) out.  Node ids are the go/ast dump's on both sides
// (the real side through Decorator.Map).
func pipeCaseTerm(src string) (string, bool) {
	fset := token.NewFileSet()
	af, err := parser.ParseFile(fset, "a.go", src, parser.ParseComments)
	if af == nil || err != nil {
		return "", false
	}
	fc, _, ok := fragDecCaseTermOn(fset, af, false)
	if !ok {
		return "", false
	}
	d := lastAstDumper
	dec := decorator.NewDecorator(fset)
	var df *dst.File
	var derr error
	if pm := safely(func() { df, derr = dec.DecorateFile(af) }); pm != "" || derr != nil || df == nil {
		return "", false
	}
	// a dumper view of the dst tree under the go/ast ids
	d2 := &treeDumper{ids: map[dst.Node]int{}, strs: d.td.strs, refs: map[interface{}]int{}}
	d2.nodes = make([]dst.Node, len(d.ids))
	for dn, an := range dec.Map.Ast.Nodes {
		if id, ok := d.ids[an]; ok && id >= 1 && id <= len(d2.nodes) {
			d2.ids[dn] = id
			d2.nodes[id-1] = dn
		}
	}
	r := decorator.NewRestorer()
	o := observeRestore(d2, df, r)
	if o.panicked {
		return "", false
	}
	return fmt.Sprintf("mkPC (%s)\n  %d %s %d\n  %s\n  %s", fc, o.base, zl(o.lines), o.size, o.comments, o.pos), true
}

func pipeCorr(c *Ctx) {
	var cases []string
	srcs := append([]string{}, linkExtra...)
	srcs = append(srcs, sinkSources...)
	srcs = append(srcs, c08Sources...)
	srcs = append(srcs, corrSources(c, c.N(3), 1200)...)
	budget, used := c.Budget(700000), 0
	for i, s := range srcs {
		if i%2 == 1 {
			s = mangle(c.Rng, s)
		}
		t, ok := pipeCaseTerm(s)
		if !ok || used+len(t) > budget {
			continue
		}
		used += len(t)
		cases = append(cases, t)
		c.Res.CaseInputs = appendCase(c.Res.CaseInputs, "mismatch_pipeline", s)
		c.Res.Traces++
	}
	c.caseSB.WriteString(coqCaseHeader + "From DV Require Import Model.FragSkel Model.Link Model.Fragment Model.FragCases Model.Decorate Model.DecCases Gen.Universe Gen.FragTbl Gen.DecTbl Gen.RestTbl.\nLocal Open Scope Z_scope.\n")
	c.caseSB.WriteString("Definition pcases : list pcase := [\n" + strings.Join(cases, ";\n") + "].\n")
	c.caseSB.WriteString("Definition mismatch_pipeline := Eval vm_compute in bad_pcases frag_tbl ast_stmt_kinds ast_decl_kinds dec_universe dec_tbl rest_tbl pcases.\nPrint mismatch_pipeline.\nLocal Close Scope Z_scope.\n")
}

// The import-managed pipeline: decorate with an (accurate) identifier resolver, restore with a
// package-name resolver; the model gets the decorator's final paths and the restorer's chosen package
// names as data.  Files whose imports the restorer would edit are skipped (the tree the restorer
// walks is then not the decorated one).
func managedPipeCaseTerm(src string) (string, bool) {
	if !isCanonical(src) {
		return "", false
	}
	names := accurateNames(src)
	fset := token.NewFileSet()
	af, err := parser.ParseFile(fset, "a.go", src, parser.ParseComments)
	if af == nil || err != nil {
		return "", false
	}
	fc, _, ok := fragDecCaseTermOn(fset, af, false)
	if !ok {
		return "", false
	}
	d := lastAstDumper
	dec := decorator.NewDecoratorWithImports(fset, "example.com/self", goast.WithResolver(guess.WithMap(names)))
	var df *dst.File
	var derr error
	if pm := safely(func() { df, derr = dec.DecorateFile(af) }); pm != "" || derr != nil || df == nil {
		return "", false
	}
	// unedited import-managed print must reproduce the file (C08): otherwise updateImports edits the tree
	var buf bytes.Buffer
	if e := decorator.NewRestorerWithImports("example.com/self", guess.WithMap(names)).Fprint(&buf, dst.Clone(df).(*dst.File)); e != nil || buf.String() != src {
		return "", false
	}
	// the paths the decorator assigned, by go/ast node id
	var paths []string
	npaths := 0
	d2 := &treeDumper{ids: map[dst.Node]int{}, strs: d.td.strs, refs: map[interface{}]int{}}
	d2.nodes = make([]dst.Node, len(d.ids))
	for dn, an := range dec.Map.Ast.Nodes {
		id, ok := d.ids[an]
		if !ok || id < 1 || id > len(d2.nodes) {
			continue
		}
		d2.ids[dn] = id
		d2.nodes[id-1] = dn
	}
	var ids []int
	byID := map[int]string{}
	for dn, id := range d2.ids {
		if x, ok := dn.(*dst.Ident); ok && x.Path != "" {
			ids = append(ids, id)
			byID[id] = x.Path
		}
	}
	sort.Ints(ids)
	for _, id := range ids {
		paths = append(paths, fmt.Sprintf("(%d%%N, (%d, %d%%N))", id, len(byID[id]), d.td.strID(byID[id])))
		npaths++
	}
	if npaths == 0 {
		return "", false
	}
	expect := d.td.Dump(df)
	r := decorator.NewRestorerWithImports("example.com/self", guess.WithMap(names))
	o := observeRestore(d2, df, r)
	if o.panicked {
		return "", false
	}
	pk := map[int]int{}
	for dn, an := range r.Ast.Nodes {
		if id, ok := dn.(*dst.Ident); ok && id.Path != "" {
			if se, ok := an.(*ast.SelectorExpr); ok {
				if x, ok := se.X.(*ast.Ident); ok {
					pk[d.td.strID(id.Path)] = len(x.Name)
				}
			}
		}
	}
	var keys []int
	for k := range pk {
		keys = append(keys, k)
	}
	sort.Ints(keys)
	var ps []string
	for _, k := range keys {
		ps = append(ps, fmt.Sprintf("(%d%%N, %d)", k, pk[k]))
	}
	return fmt.Sprintf("mkMC (%s)\n  [%s] [%s]\n  (%s)\n  %d %s %d\n  %s\n  %s", fc, strings.Join(paths, "; "), strings.Join(ps, "; "),
		expect, o.base, zl(o.lines), o.size, o.comments, o.pos), true
}

func managedPipeCorr(c *Ctx) {
	var cases []string
	srcs := append([]string{}, c08Sources...)
	if b, err := format.Source([]byte(c08Positions)); err == nil {
		srcs = append(srcs, string(b))
	}
	srcs = append(srcs, sinkSources...)
	srcs = append(srcs, corrSources(c, c.N(4), 1500)...)
	budget, used := c.Budget(800000), 0
	for _, s := range srcs {
		t, ok := managedPipeCaseTerm(s)
		if !ok || used+len(t) > budget {
			continue
		}
		used += len(t)
		cases = append(cases, t)
		c.Res.CaseInputs = appendCase(c.Res.CaseInputs, "mismatch_managed_pipeline", s)
		c.Res.Traces++
	}
	c.caseSB.WriteString(coqCaseHeader + "From DV Require Import Model.FragSkel Model.Link Model.Fragment Model.FragCases Model.Decorate Model.DecCases Gen.Universe Gen.FragTbl Gen.DecTbl Gen.RestTbl.\nLocal Open Scope Z_scope.\n")
	c.caseSB.WriteString("Definition mpcases : list mcase := [\n" + strings.Join(cases, ";\n") + "].\n")
	c.caseSB.WriteString("Definition mismatch_managed_pipeline := Eval vm_compute in bad_mcases frag_tbl ast_stmt_kinds ast_decl_kinds dec_universe dec_tbl rest_tbl mpcases.\nPrint mismatch_managed_pipeline.\nLocal Close Scope Z_scope.\n")
}

func init() {
	corrs["PIPEM"] = managedPipeCorr
	corrs["FRAG"] = fragCorr
	corrs["DEC"] = decCorr
	corrs["C11"] = decCorr
	corrs["PIPE"] = pipeCorr
	corrs["FRAGBAD"] = fragCorrMalformed
}
