package main

import (
	"bytes"
	"encoding/json"
	"fmt"
	"go/ast"
	"go/format"
	"go/importer"
	"go/parser"
	"go/token"
	"go/types"
	"math/rand"
	"os"
	"path/filepath"
	"sort"
	"strconv"
	"strings"

	"github.com/dave/dst"
	"github.com/dave/dst/decorator"
	"github.com/dave/dst/decorator/resolver"
	"github.com/dave/dst/decorator/resolver/goast"
	"github.com/dave/dst/decorator/resolver/gotypes"
	"github.com/dave/dst/decorator/resolver/guess"
	"github.com/dave/dst/decorator/resolver/simple"
)

// C08 on the implementation: canonical files with imports are decorated with an accurate
// identifier resolver and restored with an accurate package-name resolver, unedited: the bytes
// must be identical, and re-decorating the output must give every identifier the same path.
// Correspondence of Model/Merge.v: the same source decorated without a resolver (SelectorExpr
// with X and Sel) and with one (a single Ident) -- collapse(slots) must be the Ident's decs.

type c08Input struct {
	Src       string `json:"src"`
	Decorator string `json:"decorator,omitempty"` // "" = goast (syntax only) | gotypes (Uses of a go/types check of the file, cgo aware)
	Restorer  string `json:"restorer"`            // guess | simple
	Reuse     bool   `json:"reuse,omitempty"`     // one FileRestorer restores a partner file (the same imports, each under an alias) first
}

// c08PartnerOf: a canonical file that imports every path the source imports by name, each under an
// alias of its own, and uses it; restored FIRST through the same FileRestorer
func c08PartnerOf(src string) string {
	pf, err := parser.ParseFile(token.NewFileSet(), "", src, parser.ImportsOnly)
	if err != nil {
		return ""
	}
	var specs, uses []string
	seen := map[string]bool{}
	for i, is := range pf.Imports {
		p, _ := strconv.Unquote(is.Path.Value)
		if p == "C" || seen[p] || (is.Name != nil && (is.Name.Name == "_" || is.Name.Name == ".")) {
			continue
		}
		seen[p] = true
		specs = append(specs, fmt.Sprintf("\tzq%d %q\n", i, p))
		uses = append(uses, fmt.Sprintf("var _ = zq%d.X\n", i))
	}
	if len(specs) == 0 {
		return ""
	}
	sort.Slice(specs, func(i, j int) bool {
		return specs[i][strings.Index(specs[i], "\""):] < specs[j][strings.Index(specs[j], "\""):]
	})
	txt := "package partner\n\nimport (\n" + strings.Join(specs, "") + ")\n\n" + strings.Join(uses, "\n")
	if b, err := format.Source([]byte(txt)); err == nil {
		return string(b)
	}
	return ""
}

var c08Sources = []string{
	"package main\n\nimport (\n\t\"fmt\"\n\t\"os\"\n)\n\nfunc main() {\n\tfmt.Println(os.Args) // t\n\tfmt. /*a*/ Print /*b*/ (1)\n\tfmt.\n\t\tPrintln(\n\t\t\t// lead\n\t\t\tos.Args, // x\n\t\t\tos.\n\t\t\t\tStdout,\n\t\t)\n}\n",
	"package main\n\nimport (\n\t\"fmt\"\n\n\tstr \"strings\"\n\n\t_ \"embed\"\n)\n\nimport \"C\"\n\n// doc\nvar b str.Builder // trailing\n\nvar errs = []error{\n\t// first\n\tfmt.Errorf(\"a\"),\n\n\t/* second */ fmt.Errorf(\"b\"), /* after */\n}\n",
	"package main\n\nimport \"io\"\n\nimport (\n\t\"os\" // the os\n\t// sys\n\t\"syscall\"\n)\n\ntype T struct {\n\tio.Reader // embedded\n\tw         io.Writer\n}\n\nfunc f(a io.Reader, b ...io.Writer) (*os.File, syscall.Errno) {\n\tswitch a.(type) {\n\tcase io.Closer, *os.File:\n\t}\n\treturn nil, 0\n}\n",
	"package main\n\nimport (\n\t\"cmp\"\n\t\"slices\"\n)\n\ntype Set[T cmp.Ordered] struct{ m map[T]struct{} }\n\nfunc Sorted[T cmp.Ordered](s []T) []T {\n\tslices.Sort(s)\n\treturn s\n}\n",
}

// c08EmptyImportDecls: gofmt-canonical files with an EMPTY import declaration `import ()` (legal Go,
// kept verbatim by gofmt, typical of generated code): alone, first, between and after other import
// declarations (single, grouped, cgo), with a doc comment and a trailing comment on it.  The import
// manager has nothing to do in such a declaration: the unedited round trip reproduces it.
var c08EmptyImportDecls = []string{
	"package a\n\nimport ()\n",
	"package a\n\nimport ()\n\nvar x = 1\n",
	"package a\n\nimport ()\n\nimport \"fmt\"\n\nvar _ = fmt.Sprint()\n",
	"package a\n\nimport \"fmt\"\n\nimport ()\n\nvar _ = fmt.Sprint()\n",
	"package a\n\nimport \"fmt\"\n\nimport ()\n\nimport (\n\t\"io\"\n\t\"os\"\n)\n\nvar _ = fmt.Sprint(io.EOF, os.Args)\n",
	"package a\n\n// no imports yet\nimport () // none\n\nfunc f() {}\n",
	"package a\n\nimport (\n\t\"fmt\"\n\tstr \"strings\"\n)\n\n// generated: reserved for later imports\nimport () // keep\n\nvar b str.Builder\n\nfunc f() { fmt.Println(b.Len()) }\n",
	"package a\n\n// first\nimport ()\n\nimport _ \"embed\"\n\n/* second */\nimport () /* t */\n\nimport \"os\"\n\nimport ()\n\nvar _ = os.Args\n",
	"package main\n\n// #include <stdlib.h>\nimport \"C\"\n\nimport ()\n\nimport \"unsafe\"\n\nfunc main() {\n\tC.free(unsafe.Pointer(nil))\n}\n",
	"package a\n\nimport (\n// nothing\n)\n\nimport \"fmt\"\n\nvar _ = fmt.Sprint()\n",
}

// every syntactic position a qualified identifier can occupy, each with a package used nowhere
// else in the file (a position the import scan misses loses its import)
const c08Positions = `package main

import (
	"bufio"
	"bytes"
	"cmp"
	"container/list"
	"context"
	"errors"
	"flag"
	"fmt"
	"image"
	"io"
	"io/fs"
	"math"
	"net"
	"os"
	"regexp"
	"runtime"
	"sort"
	"strconv"
	"strings"
	"sync"
	"sync/atomic"
	"text/tabwriter"
	"time"
	"unicode"
)

type Set[T cmp.Ordered] struct{ m map[T]struct{} }

type S struct {
	sync.Mutex
	r io.Reader
}

type I interface {
	fmt.Stringer
	M(regexp.Regexp) tabwriter.Writer
}

var arr [math.MaxInt8]int

const c = strconv.IntSize

var p atomic.Pointer[int]

func f(args ...flag.Value) (*list.List, error) {
	var e error
	switch e.(type) {
	case *fs.PathError:
	}
	switch 0 {
	case os.O_RDONLY:
	}
	for range unicode.Categories {
	}
	go runtime.Gosched()
	select {
	case <-context.Background().Done():
	}
	_ = image.Point{X: 1}
	_ = time.Duration(1)
	_ = func(sort.Interface) {}
	_ = &bytes.Buffer{}
	_ = strings.Fields("")[0:1]
	var ch chan net.Conn
	_ = ch
	var m map[bufio.ReadWriter]int
	_ = m
	return nil, errors.New("x")
}
`

// accurate package names for the imports of a file (stdlib: read from $GOROOT/src)
func accurateNames(src string) map[string]string {
	m := map[string]string{}
	f, err := parser.ParseFile(token.NewFileSet(), "", src, parser.ImportsOnly)
	if err != nil {
		return m
	}
	root := "/usr/share/go-1.23/src"
	if rp, err := filepath.EvalSymlinks(root); err == nil {
		root = rp
	}
	for _, is := range f.Imports {
		p, _ := strconv.Unquote(is.Path.Value)
		if n, ok := accurateNameCache[p]; ok {
			m[p] = n
			continue
		}
		name := p[strings.LastIndex(p, "/")+1:]
		if ents, err := os.ReadDir(filepath.Join(root, p)); err == nil {
			for _, e := range ents {
				if strings.HasSuffix(e.Name(), ".go") && !strings.HasSuffix(e.Name(), "_test.go") {
					if pf, err := parser.ParseFile(token.NewFileSet(), filepath.Join(root, p, e.Name()), nil, parser.PackageClauseOnly); err == nil {
						if pf.Name.Name != "main" {
							name = pf.Name.Name
							break
						}
					}
				}
			}
		}
		m[p] = name
		accurateNameCache[p] = name
	}
	return m
}

// the name found for an import path (a function of the path alone; the harness is single-threaded)
var accurateNameCache = map[string]string{}

func identPaths(f *dst.File) []string {
	var out []string
	dst.Inspect(f, func(n dst.Node) bool {
		if id, ok := n.(*dst.Ident); ok {
			out = append(out, id.Name+"@"+id.Path)
		}
		return true
	})
	return out
}

// cgo files: import "C" in a declaration of its own and sharing a block with other imports,
// references into the pseudo-package in every kind of position (calls, conversions, types of
// variables, fields, parameters and results, comments and line breaks around the dot). With the
// gotypes resolver (go/types run with FakeImportC records the qualifier C as a package name whose
// package has the path "C") they are qualified identifiers like any other.
var c08CgoSources = []string{
	"package main\n\n// #include <stdio.h>\n// #include <stdlib.h>\nimport \"C\"\n\nimport \"unsafe\"\n\nfunc main() {\n\tcs := C.CString(\"hello\")\n\tdefer C.free(unsafe.Pointer(cs))\n\tC.puts(cs)\n\tvar n C.size_t = C.strlen(cs)\n\t_ = n\n}\n",
	"package main\n\n/*\n#include <math.h>\n*/\nimport (\n\t\"C\"\n\t\"unsafe\"\n)\n\nfunc root(x float64) float64 {\n\tr := C.sqrt(C.double(x)) // interior comment\n\t_ = unsafe.Sizeof(r)\n\treturn float64(r)\n}\n",
	"package main\n\n// #include <stdint.h>\n// typedef struct { int32_t a; } pair;\nimport \"C\"\n\ntype T struct {\n\tn C.int32_t // field\n\tp *C.pair\n}\n\nvar zero C.pair\n\nfunc conv(x C.int, ys ...C.long) (C.long, []C.char) {\n\tvar m map[C.int]C.long\n\t_ = m\n\tswitch interface{}(x).(type) {\n\tcase C.int, *C.pair:\n\t}\n\treturn C.long(x), nil\n}\n",
	"package main\n\n// #include <stdio.h>\n// #include <stdlib.h>\nimport \"C\"\n\nimport (\n\t\"fmt\"\n\t\"os\"\n\n\tstr \"strings\"\n\t\"unsafe\"\n)\n\nfunc main() {\n\tcs := C.CString(str.ToUpper(os.Args[0]))\n\tdefer C. /*a*/ free /*b*/ (unsafe.Pointer(cs))\n\tfmt.Println(C.GoString(cs), // x\n\t\tC.\n\t\t\tputs(cs))\n\tfmt.Fprintln(os.Stderr, C.EOF)\n}\n",
	"package main\n\nimport (\n\t\"fmt\"\n\t\"unsafe\"\n)\n\n/*\n#include <string.h>\n*/\nimport \"C\"\n\nfunc length(b []byte) int {\n\tn := C.strlen((*C.char)(unsafe.Pointer(&b[0])))\n\tfmt.Println(n)\n\treturn int(n)\n}\n",
}

// c08SourceImporter: the standard library type-checked from $GOROOT/src (no go tool, no export data)
var c08SourceImporter types.Importer

// c08TypesDecorate: the file type-checked on its own with go/types (imports from source; cgo
// aware: FakeImportC) and decorated with the gotypes resolver fed from the Uses of that check.
// skip: the file does not type-check on its own, so there is no accurate Uses map for it.
func c08TypesDecorate(src string) (f *dst.File, err error, skip bool, pm string) {
	fset := token.NewFileSet()
	af, perr := parser.ParseFile(fset, "a.go", src, parser.ParseComments)
	if perr != nil {
		return nil, nil, true, ""
	}
	if c08SourceImporter == nil {
		c08SourceImporter = importer.ForCompiler(token.NewFileSet(), "source", nil)
	}
	info := &types.Info{Uses: map[*ast.Ident]types.Object{}, Defs: map[*ast.Ident]types.Object{}}
	conf := types.Config{Importer: c08SourceImporter, FakeImportC: true}
	var terr error
	if p := safely(func() { _, terr = conf.Check("example.com/self", fset, []*ast.File{af}, info) }); p != "" || terr != nil {
		return nil, nil, true, ""
	}
	pm = safely(func() {
		f, err = decorator.NewDecoratorWithImports(fset, "example.com/self", gotypes.New(info.Uses)).DecorateFile(af)
	})
	return
}

// c08CgoRefs: the references into the cgo pseudo-package as the parser sees them (C.name where
// the file imports "C" and nothing in the file declares an object named C)
func c08CgoRefs(src string) int {
	af, err := parser.ParseFile(token.NewFileSet(), "", src, parser.SkipObjectResolution)
	if err != nil {
		return 0
	}
	cgo := false
	for _, is := range af.Imports {
		if is.Path.Value == "\"C\"" {
			cgo = true
		}
	}
	n := 0
	if cgo {
		ast.Inspect(af, func(nd ast.Node) bool {
			if se, ok := nd.(*ast.SelectorExpr); ok {
				if x, ok := se.X.(*ast.Ident); ok && x.Name == "C" {
					n++
				}
			}
			return true
		})
	}
	return n
}

func c08Check(in c08Input) (key, what string) {
	if !isCanonical(in.Src) {
		return "", ""
	}
	names := accurateNames(in.Src)
	if in.Decorator == "gotypes" {
		return c08CheckTypes(in, names)
	}
	var rr resolver.RestorerResolver
	if in.Restorer == "simple" {
		rr = simple.New(names)
	} else {
		rr = guess.WithMap(names)
	}
	// an accurate identifier resolver: goast with the real package names (its default guesses the
	// name from the path, which is wrong for e.g. math/rand/v2)
	dec := decorator.NewDecoratorWithImports(token.NewFileSet(), "example.com/self", goast.WithResolver(guess.WithMap(names)))
	var f *dst.File
	var err error
	if pm := safely(func() { f, err = dec.Parse(in.Src) }); pm != "" {
		return "c08-panic", "decorating panicked: " + pm
	}
	if err != nil {
		return "", "" // dot-imports etc.: the syntax-only resolver refuses (C09)
	}
	before := identPaths(f)
	treeBefore := newTreeDumper().Dump(f)
	var out string
	pm := safely(func() {
		var buf bytes.Buffer
		if in.Reuse {
			partner := c08PartnerOf(in.Src)
			if partner == "" {
				out = in.Src
				return
			}
			pnames := accurateNames(partner)
			pf, perr := decorator.NewDecoratorWithImports(token.NewFileSet(), "example.com/self", goast.WithResolver(guess.WithMap(pnames))).Parse(partner)
			if perr != nil {
				out = in.Src
				return
			}
			fr := decorator.NewRestorerWithImports("example.com/self", rr).FileRestorer()
			var pbuf bytes.Buffer
			if err = fr.Fprint(&pbuf, pf); err != nil {
				return
			}
			if pbuf.String() != partner {
				err = fmt.Errorf("the partner file itself changed:\n%s", firstDiff(partner, pbuf.String()))
				return
			}
			err = fr.Fprint(&buf, f)
		} else {
			err = decorator.NewRestorerWithImports("example.com/self", rr).Fprint(&buf, f)
		}
		out = buf.String()
	})
	if pm != "" {
		return "c08-panic", "restoring panicked: " + pm
	}
	if err != nil {
		return "c08-error", "restoring failed: " + err.Error()
	}
	if out != in.Src {
		k := "c08-bytes"
		// the recorded finding duplicate-path-import (C07): one path imported twice
		paths := map[string]int{}
		if pf, perr := parser.ParseFile(token.NewFileSet(), "", in.Src, parser.ImportsOnly); perr == nil {
			for _, is := range pf.Imports {
				paths[is.Path.Value]++
			}
		}
		for _, n := range paths {
			if n > 1 {
				k = "duplicate-path-import"
			}
		}
		if lk := c08LayoutFinding(in.Src, out); k == "c08-bytes" && lk != "" {
			k = lk
		}
		return k, "unedited decorate + import-managed restore changed the file:\n" + firstDiff(in.Src, out)
	}
	// nothing had to be added, removed or renamed: the import manager leaves the tree it was given as it was
	if treeAfter := newTreeDumper().Dump(f); treeAfter != treeBefore {
		return "c08-input-mutated", "the unedited import-managed restore reproduced the bytes but changed the dst tree it was given:\n" + firstDiff(treeBefore, treeAfter)
	}
	dec2 := decorator.NewDecoratorWithImports(token.NewFileSet(), "example.com/self", goast.WithResolver(guess.WithMap(names)))
	f2, err := dec2.Parse(out)
	if err != nil {
		return "c08-redecorate", "the output does not decorate: " + err.Error()
	}
	after := identPaths(f2)
	if strings.Join(before, " ") != strings.Join(after, " ") {
		return "c08-paths", "re-decorating the output gives different path annotations"
	}
	return "", ""
}

// c08LayoutFinding: the file is one the PLAIN round trip (no import management) already fails to
// reproduce, and the import-managed round trip changes it in exactly the same way: the layout defects
// recorded under C01 (go/printer's column tests on own-line comments; DESIGN 0.5).  Import management is
// transparent there -- the byte difference is C01's finding, and C01's check is the one that reports a
// layout defect that is not yet recorded.
func c08LayoutFinding(src, out string) string {
	var plain bytes.Buffer
	pm := safely(func() {
		f, err := decorator.Parse(src)
		if err != nil {
			return
		}
		_ = decorator.Fprint(&plain, f)
	})
	if pm != "" || plain.String() != out {
		return ""
	}
	return "plain-round-trip-differs-identically"
}

// c08CheckTypes: the same demands with the type-based identifier resolver
func c08CheckTypes(in c08Input, names map[string]string) (key, what string) {
	var rr resolver.RestorerResolver
	if in.Restorer == "simple" {
		rr = simple.New(names)
	} else {
		rr = guess.WithMap(names)
	}
	f, err, skip, pm := c08TypesDecorate(in.Src)
	if skip {
		return "", ""
	}
	if pm != "" {
		return "c08-panic", "decorating (gotypes) panicked: " + pm
	}
	if err != nil {
		return "c08-decorate-error", "decorating a type-correct file with the gotypes resolver failed: " + err.Error()
	}
	before := identPaths(f)
	// the accurate resolver reports every reference into the cgo pseudo-package under the path "C"
	// (go/types: the qualifier is a PkgName whose package has that path)
	if want := c08CgoRefs(in.Src); want > 0 {
		got := 0
		for _, p := range before {
			if strings.HasSuffix(p, "@C") {
				got++
			}
		}
		if got != want {
			return "c08-cgo-paths", fmt.Sprintf("the file has %d references into the cgo pseudo-package, %d identifiers carry the path \"C\" after decoration", want, got)
		}
	}
	treeBefore := newTreeDumper().Dump(f)
	var out string
	pm = safely(func() {
		var buf bytes.Buffer
		err = decorator.NewRestorerWithImports("example.com/self", rr).Fprint(&buf, f)
		out = buf.String()
	})
	if pm != "" {
		return "c08-panic", "restoring panicked: " + pm
	}
	if err != nil {
		return "c08-error", "restoring failed: " + err.Error()
	}
	if out != in.Src {
		k := "c08-bytes"
		paths := map[string]int{}
		if pf, perr := parser.ParseFile(token.NewFileSet(), "", in.Src, parser.ImportsOnly); perr == nil {
			for _, is := range pf.Imports {
				paths[is.Path.Value]++
			}
		}
		for _, n := range paths {
			if n > 1 {
				k = "duplicate-path-import"
			}
		}
		if lk := c08LayoutFinding(in.Src, out); k == "c08-bytes" && lk != "" {
			k = lk
		}
		return k, "unedited decorate (gotypes resolver) + import-managed restore changed the file:\n" + firstDiff(in.Src, out)
	}
	if treeAfter := newTreeDumper().Dump(f); treeAfter != treeBefore {
		return "c08-input-mutated", "the unedited import-managed restore reproduced the bytes but changed the dst tree it was given:\n" + firstDiff(treeBefore, treeAfter)
	}
	f2, err, skip, pm := c08TypesDecorate(out)
	if skip || pm != "" || err != nil {
		return "c08-redecorate", fmt.Sprintf("the output does not type-check / decorate again: %v %s", err, pm)
	}
	if strings.Join(before, " ") != strings.Join(identPaths(f2), " ") {
		return "c08-paths", "re-decorating the output gives different path annotations"
	}
	return "", ""
}

func c08Prop(c *Ctx) {
	c.Res.Rule = "hand-written canonical files (aliased, blank, cgo, multi-block, commented specs; qualified identifiers with comments and line breaks around the dot; generic constraints) + canonical $GOROOT/src files with imports, decorated with the goast resolver and restored with guess (seeded with accurate names) and simple resolvers; the hand-written files and a family of cgo files (import of C alone / sharing a block, C.f calls, C.t types in every position, comments around the dot) and a family of files with an EMPTY import declaration (alone, first, between, after other import declarations, with doc / trailing comments) also type-checked with go/types (FakeImportC, imports from source) and decorated with the gotypes resolver; the dst tree handed to the restorer is the same before and after; non-trivial = distinct (file, restorer) that decorates without error"
	srcs := append([]string{}, c08Sources...)
	// the recorded finding duplicate-path-import
	srcs = append(srcs, "package a\n\nimport (\n\t\"unsafe\"\n\t_ \"unsafe\"\n)\n\nvar _ = unsafe.Sizeof(0)\n")
	// two of the layout findings recorded under C01, on files with imports: the plain round trip changes
	// them in the same way (see c08LayoutFinding)
	srcs = append(srcs, "package a\n\nimport \"fmt\"\n\nvar (\n\ta = fmt.Sprint(1)\n\n// c\n)\n",
		"package a\n\nimport \"fmt\"\n\nfunc f() {\n\tfmt.Println()\n//line x.go:10\n\tfmt.Println()\n}\n")
	if b, err := format.Source([]byte(c08Positions)); err == nil {
		srcs = append(srcs, string(b))
	} else {
		c.Res.Notes = append(c.Res.Notes, "c08Positions does not format: "+err.Error())
	}
	files := gorootFiles(20000)
	for i := 0; i < c.N(40) && len(files) > 0; i++ {
		b, err := os.ReadFile(files[c.Rng.Intn(len(files))])
		if err == nil && strings.Contains(string(b), "import") {
			srcs = append(srcs, string(b))
		}
	}
	// qualified identifiers with comments and line breaks in every gap (before, after the period --
	// same line, end of line, own line, after an empty line --, after the name), made canonical
	base := len(srcs)
	for i := 0; i < base; i++ {
		for k := 0; k < 2; k++ {
			if b, err := format.Source([]byte(selGaps(c.Rng, srcs[i]))); err == nil && string(b) != srcs[i] {
				srcs = append(srcs, string(b))
			}
		}
	}
	// cgo files, and the same with comments and line breaks around the dots (own random stream:
	// the sample above stays as it was)
	crng := rand.New(rand.NewSource(c.Seed*7919 + 8))
	whole := map[string]bool{} // files that are a whole package: they can be type-checked on their own
	for _, src := range c08CgoSources {
		srcs = append(srcs, src)
		for k := 0; k < 2; k++ {
			if b, err := format.Source([]byte(selGaps(crng, src))); err == nil && string(b) != src {
				srcs = append(srcs, string(b))
			}
		}
	}
	// empty import declarations (after the derived families: the random sample above stays as it was)
	emptyDecl := map[string]bool{}
	for _, src := range c08EmptyImportDecls {
		if !isCanonical(src) {
			c.Res.Notes = append(c.Res.Notes, "c08EmptyImportDecls: not gofmt-canonical: "+clip(src, 60))
			continue
		}
		srcs = append(srcs, src)
		emptyDecl[src] = true
	}
	for _, src := range srcs {
		if strings.HasPrefix(src, "package main\n") || strings.HasPrefix(src, "package a\n") {
			whole[src] = true
		}
	}
	for si, src := range srcs {
		if emptyDecl[src] {
			c.Res.hist("c08-empty-import-decl", "file with an empty import declaration")
		}
		if whole[src] {
			// the type-based identifier resolver
			for _, rk := range []string{"guess", "simple"} {
				in := c08Input{Src: src, Decorator: "gotypes", Restorer: rk}
				if _, _, skip, _ := c08TypesDecorate(src); skip || !isCanonical(src) {
					c.Res.hist("c08-restorer", "gotypes: file does not type-check on its own (skipped)")
					continue
				}
				c.Res.Evaluations++
				c.Res.seen(fmt.Sprint(len(src), "gotypes", rk, src[:min(len(src), 60)]))
				c.Res.hist("c08-restorer", "gotypes decorator, "+rk)
				if n := c08CgoRefs(src); n > 0 {
					c.Res.hist("c08-cgo", "gotypes decorator, file with references into C")
				}
				if key, what := c08Check(in); key != "" {
					c.Res.fail(key, what, in)
				}
			}
		}
		if si%2 == 0 || emptyDecl[src] {
			in := c08Input{Src: src, Restorer: "guess", Reuse: true}
			c.Res.Evaluations++
			c.Res.seen(fmt.Sprint(len(src), "reuse", src[:min(len(src), 60)]))
			c.Res.hist("c08-restorer", "guess, FileRestorer reused after a partner file")
			if key, what := c08Check(in); key != "" {
				c.Res.fail(key, what, in)
			}
		}
		for _, rk := range []string{"guess", "simple"} {
			in := c08Input{Src: src, Restorer: rk}
			c.Res.Evaluations++
			c.Res.seen(fmt.Sprint(len(src), rk, src[:min(len(src), 60)]))
			c.Res.hist("c08-restorer", rk)
			if key, what := c08Check(in); key != "" {
				c.Res.fail(key, what, in)
			}
		}
		if len(c.Res.Samples) < 2 {
			c.Res.Samples = append(c.Res.Samples, clip(src, 200))
		}
	}
}

func min(a, b int) int {
	if a < b {
		return a
	}
	return b
}

// ---- correspondence of Model/Merge.v ------------------------------------------------------
func decsTerm(d *treeDumper, ds dst.Decorations) string { return "[" + d.decList(ds) + "]" }

func c08Corr(c *Ctx) {
	fills := [][]string{
		{"", "/*a*/ ", "/*a*/ /*a2*/ "}, // before X
		{"", " /*b*/"},                  // X . (no line break allowed before the dot)
		{"", " /*c*/ ", "\n\t\t", " // c\n\t\t", " /*c*/\n\t\t"}, // . Sel
		{"", " /*d*/", " /*d*/ /*d2*/"},                          // after Sel
	}
	var cases []string
	for a := range fills[0] {
		for b := range fills[1] {
			for cc := range fills[2] {
				for dd := range fills[3] {
					for _, lead := range []string{"", "\n\t// lead\n\t", "\n\t"} {
						src := "package main\n\nimport \"fmt\"\n\nvar _ = f(" + lead + fills[0][a] + "fmt" + fills[1][b] + "." + fills[2][cc] + "Println" + fills[3][dd]
						if lead != "" {
							src += ",\n)\n"
						} else {
							src += ")\n"
						}
						// (a) plain: SelectorExpr
						f1, err := decorator.Parse(src)
						if err != nil {
							continue
						}
						var se *dst.SelectorExpr
						dst.Inspect(f1, func(n dst.Node) bool {
							if s, ok := n.(*dst.SelectorExpr); ok && se == nil {
								se = s
							}
							return true
						})
						dec := decorator.NewDecoratorWithImports(token.NewFileSet(), "example.com/self", goastNew())
						f2, err := dec.Parse(src)
						if err != nil || se == nil {
							continue
						}
						var id *dst.Ident
						dst.Inspect(f2, func(n dst.Node) bool {
							if i, ok := n.(*dst.Ident); ok && i.Path == "fmt" && id == nil {
								id = i
							}
							return true
						})
						x, ok1 := se.X.(*dst.Ident)
						if id == nil || !ok1 {
							continue
						}
						d := newTreeDumper()
						sl := fmt.Sprintf("mkSlots %s %s %s %s %s %s %s %s %s %s %s %s %s",
							spaceTerm(se.Decs.Before), decsTerm(d, se.Decs.Start), spaceTerm(x.Decs.Before), decsTerm(d, x.Decs.Start),
							decsTerm(d, x.Decs.End), spaceTerm(x.Decs.After), decsTerm(d, se.Decs.X), spaceTerm(se.Sel.Decs.Before), decsTerm(d, se.Sel.Decs.Start),
							decsTerm(d, se.Sel.Decs.End), spaceTerm(se.Sel.Decs.After), decsTerm(d, se.Decs.End), spaceTerm(se.Decs.After))
						idt := fmt.Sprintf("mkID %s %s %s %s %s", spaceTerm(id.Decs.Before), decsTerm(d, id.Decs.Start), decsTerm(d, id.Decs.X), decsTerm(d, id.Decs.End), spaceTerm(id.Decs.After))
						cases = append(cases, fmt.Sprintf("(%s,\n  %s)", sl, idt))
						c.Res.CaseInputs = appendCase(c.Res.CaseInputs, "mismatch_merge", src)
						c.Res.Traces++
					}
				}
			}
		}
	}
	c.caseSB.WriteString(coqCaseHeader + "From DV Require Import Model.Merge Model.MergeCases.\n")
	c.caseSB.WriteString("Definition mcases : list (slots * ident_decs) := [\n" + strings.Join(cases, ";\n") + "].\n")
	c.caseSB.WriteString("Definition mismatch_merge := Eval vm_compute in bad_merge_cases mcases.\nPrint mismatch_merge.\n")
}

var _ = ast.Inspect

func init() {
	props["C08"] = c08Prop
	corrs["C08"] = func(c *Ctx) { c08Corr(c); restoreCorr(c); managedPipeCorr(c) }
	replays["C08"] = func(c *Ctx, raw json.RawMessage) (bool, string) {
		var in c08Input
		if err := json.Unmarshal(raw, &in); err != nil || in.Src == "" {
			return false, "not a C08 generated input"
		}
		key, what := c08Check(in)
		return key != "", what
	}
}
