// Command hx is the implementation-side harness: for a property it generates inputs from
// one PRNG state, runs the real dave/dst code (built from /repo's working tree, -tags
// verif), evaluates the property oracle, and writes (a) a JSON result and (b) a Coq cases
// file on which the model is evaluated by vm_compute and compared with what the code did.
package main

import (
	"encoding/json"
	"flag"
	"fmt"
	"math/rand"
	"os"
	"sort"
	"strings"
)

type Failure struct {
	Key   string      `json:"key"`   // identifies the *input class* (matched against known_findings.json)
	What  string      `json:"what"`  // what failed
	Input interface{} `json:"input"` // replayable input
}

type Result struct {
	Property    string                 `json:"property"`
	Evaluations int                    `json:"evaluations"`
	Distinct    int                    `json:"distinct_nontrivial"`
	Rule        string                 `json:"rule"`
	Samples     []interface{}          `json:"samples"`
	Histograms  map[string]interface{} `json:"histograms,omitempty"`
	Failures    []Failure              `json:"failures"`
	CaseInputs  map[string][]string    `json:"case_inputs,omitempty"` // mismatch list name -> case index -> description
	Traces      int                    `json:"traces_validated_against_impl"`
	Notes       []string               `json:"notes,omitempty"`
	distinct    map[string]bool
	perKey      map[string]int
}

func (r *Result) seen(key string) {
	if r.distinct == nil {
		r.distinct = map[string]bool{}
	}
	r.distinct[key] = true
}

// fail records a failure: at most 8 per key (so that a recorded finding that many inputs hit cannot
// crowd out a different failure) and 200 in all
func (r *Result) fail(key, what string, input interface{}) {
	if r.perKey == nil {
		r.perKey = map[string]int{}
	}
	r.perKey[key]++
	if r.perKey[key] <= 8 && len(r.Failures) < 200 {
		r.Failures = append(r.Failures, Failure{key, what, input})
	}
}

func (r *Result) hist(name, bucket string) {
	if r.Histograms == nil {
		r.Histograms = map[string]interface{}{}
	}
	m, _ := r.Histograms[name].(map[string]int)
	if m == nil {
		m = map[string]int{}
		r.Histograms[name] = m
	}
	m[bucket]++
}

type Ctx struct {
	Tier   string
	Seed   int64
	Boost  int
	Repo   string
	Verif  string
	Cases  string
	Rng    *rand.Rand
	Res    *Result
	caseSB strings.Builder
	inCorr bool // inside a correspondence: counts grow less in the thorough tier
}

// N scales a quick-tier count by tier and boost.
func (c *Ctx) N(quick int) int {
	n := quick
	if c.Tier == "thorough" {
		if c.inCorr {
			n *= 3 // cases files are elaborated by Coq at 20-25 s per MB and several GB of memory
		} else {
			n *= 10
		}
	}
	if c.Boost > 1 {
		n *= c.Boost
	}
	return n
}

// Budget: byte budget of a cases file (Coq elaborates roughly 20-25 s per MB); four times larger
// in the thorough tier, never boosted
func (c *Ctx) Budget(quick int) int {
	if c.Tier == "thorough" {
		return 4 * quick
	}
	return quick
}

type propFn func(c *Ctx)

var props = map[string]propFn{}

// corrs: model correspondences (write the Coq cases file); run after the property oracle
var corrs = map[string]propFn{}
var replays = map[string]func(c *Ctx, input json.RawMessage) (bool, string){}

func main() {
	if len(os.Args) < 2 {
		fmt.Println("usage: hx <property>|replay [flags]")
		os.Exit(2)
	}
	name := os.Args[1]
	fs := flag.NewFlagSet("hx", flag.ExitOnError)
	tier := fs.String("tier", "quick", "")
	seed := fs.Int64("seed", 1, "")
	out := fs.String("out", "", "")
	cases := fs.String("cases", "", "")
	repo := fs.String("repo", "/repo", "")
	verif := fs.String("verif", "/verif", "")
	boost := fs.Int("boost", 0, "")
	file := fs.String("file", "", "")
	fs.Parse(os.Args[2:])
	c := &Ctx{Tier: *tier, Seed: *seed, Boost: *boost, Repo: *repo, Verif: *verif, Cases: *cases}
	c.Rng = rand.New(rand.NewSource(*seed))
	if name == "replay" {
		os.Exit(doReplay(c, *file))
	}
	fn, ok := props[name]
	cfn, cok := corrs[name]
	if !ok && !cok {
		fmt.Println("unknown property", name)
		os.Exit(2)
	}
	c.Res = &Result{Property: name, Failures: []Failure{}}
	if ok {
		fn(c)
	}
	if cok {
		// the correspondence draws from its own PRNG stream so that adding oracle cases does not shift it
		c.Rng = rand.New(rand.NewSource(*seed*7919 + 13))
		c.Boost = 0 // the directed search enlarges the oracle's budget, not the correspondence
		c.inCorr = true
		cfn(c)
	}
	c.Res.Distinct = len(c.Res.distinct)
	if c.Cases != "" && c.caseSB.Len() > 0 {
		if err := os.WriteFile(c.Cases, []byte(c.caseSB.String()), 0644); err != nil {
			fmt.Println(err)
			os.Exit(2)
		}
	}
	b, _ := json.MarshalIndent(c.Res, "", " ")
	if *out != "" {
		os.WriteFile(*out, b, 0644)
	} else {
		os.Stdout.Write(b)
	}
	fmt.Printf("hx %s: evaluations=%d distinct=%d failures=%d\n", name, c.Res.Evaluations, c.Res.Distinct, len(c.Res.Failures))
}

func doReplay(c *Ctx, file string) int {
	b, err := os.ReadFile(file)
	if err != nil {
		fmt.Println(err)
		return 2
	}
	var rp struct {
		Property string `json:"property"`
		Kind     string `json:"kind"`
		Failure  struct {
			Key   string          `json:"key"`
			What  string          `json:"what"`
			Input json.RawMessage `json:"input"`
		} `json:"failure"`
		NoLonger []map[string]string `json:"no_longer_checks"`
	}
	if err := json.Unmarshal(b, &rp); err != nil {
		fmt.Println(err)
		return 2
	}
	if rp.Kind != "failing-input" {
		fmt.Printf("replay %s: no failing input was found; what no longer checks:\n", rp.Property)
		for _, m := range rp.NoLonger {
			fmt.Printf("  %s: %s\n", m["name"], m["detail"])
		}
		fmt.Println("re-run bin/check", rp.Property, "to re-check these obligations")
		return 1
	}
	fn, ok := replays[rp.Property]
	if !ok {
		fmt.Println("no replayer for", rp.Property)
		return 2
	}
	fails, msg := fn(c, rp.Failure.Input)
	fmt.Printf("replay %s (%s): %s\n", rp.Property, rp.Failure.Key, msg)
	if fails {
		fmt.Println("STILL FAILS")
		return 1
	}
	fmt.Println("passes now")
	return 0
}

func sortedKeys(m map[string]int) []string {
	var ks []string
	for k := range m {
		ks = append(ks, k)
	}
	sort.Strings(ks)
	return ks
}
