package main

import (
	"bytes"
	"encoding/json"
	"fmt"
	"go/ast"
	"go/parser"
	"go/token"
	"go/types"
	"strings"

	"github.com/dave/dst"
	"github.com/dave/dst/decorator"
	"github.com/dave/dst/decorator/resolver/goast"
	"github.com/dave/dst/decorator/resolver/gotypes"
	"github.com/dave/dst/decorator/resolver/guess"
	"github.com/dave/dst/decorator/resolver/simple"
)

// C10 on the implementation: in a type-checked multi-package program a declaration is taken
// from one import-decorated file and placed into another file of the same package, or into a
// file of another package; both files are restored with import management; the new program
// must type-check and every identifier of the moved declaration must denote the same
// package-level object as before.

type c10Move struct {
	Program  *program `json:"generated_program,omitempty"` // a generated program is its own replay
	SrcPkg   string   `json:"src_pkg,omitempty"`
	Prog     int      `json:"program"`
	FromFile int      `json:"from_file"` // file of the last package
	Decl     string   `json:"decl"`      // name of the declaration to move
	ToPkg    string   `json:"to_pkg"`    // "" = same package
	ToFile   int      `json:"to_file"`
	Twice    bool     `json:"twice"` // move it on to a third place afterwards
	// how the file the declaration is taken from was decorated: "" = from the type-checked ast with the
	// types-based resolver; otherwise with the syntax-only resolver, the *ast.File NOT coming straight
	// from the parser:
	//   goast-restored  parsed, decorated plainly, restored to an ast (Restorer.RestoreFile), that ast decorated
	//   goast-built     the parsed file with the parser's derived File.Imports list dropped (as in a generated ast)
	//   goast-parsed    the parsed file as it is (the reference point of the other two)
	Resolver string `json:"resolver,omitempty"`
	// LocalPath: the packages involved are decorated with Decorator.ResolveLocalPath = true (types-based
	// resolver, the files parsed with the parser's default object resolution): references to the
	// package's own package-level objects carry the package's path, so a declaration that uses them can
	// be placed into another package; every use -- also of objects of the package it came from -- must
	// denote the object go/types reported on the original
	LocalPath bool `json:"local_path,omitempty"`
}

var c10SyntacticResolvers = []string{"goast-restored", "goast-built", "goast-parsed"}

// c10SyntacticSource decorates one source file with the syntax-only resolver (see c10Move.Resolver).
// refused: the resolver returned an error for a file with a dot-import (which it cannot decide).
func c10SyntacticSource(src, pkgPath, how string, names map[string]string) (df *dst.File, refused bool, key, what string) {
	fset := token.NewFileSet()
	af, err := parser.ParseFile(fset, "moved_from.go", src, parser.ParseComments)
	if err != nil {
		return nil, false, "c10-program", "the source file does not parse: " + err.Error()
	}
	hasDot := fileHasDotImport(af)
	switch how {
	case "goast-restored":
		var f0 *dst.File
		var rf *ast.File
		rs := decorator.NewRestorer()
		rs.Extras = true // objects travel: the syntax-only resolver sees shadowed package names through Ident.Obj
		pm := safely(func() {
			if f0, err = decorator.NewDecorator(fset).DecorateFile(af); err == nil {
				rf, err = rs.RestoreFile(f0)
			}
		})
		if pm != "" || err != nil {
			return nil, false, "c10-decorate", fmt.Sprintf("plain decoration and restoring to an ast failed: %v %s", err, pm)
		}
		af, fset = rf, rs.Fset
	case "goast-built":
		af.Imports = nil
	}
	// the names the resolver is given are accurate; where guessing (last path element) is accurate for
	// every package, the resolver's own default is used
	guessable := true
	for p, n := range names {
		if g, _ := guess.New().ResolvePackage(p); g != n {
			guessable = false
		}
	}
	var res *goast.DecoratorResolver
	if guessable {
		res = goast.New()
	} else {
		res = goast.WithResolver(simple.New(names))
	}
	pm := safely(func() { df, err = decorator.NewDecoratorWithImports(fset, pkgPath, res).DecorateFile(af) })
	if pm != "" {
		return nil, false, "c10-decorate", "decorating with the syntax-only resolver panicked: " + pm
	}
	if err != nil {
		if hasDot && strings.Contains(err.Error(), "dot-import") {
			return nil, true, "", ""
		}
		return nil, false, "c10-decorate", "the syntax-only resolver failed on a file without dot-imports: " + err.Error()
	}
	return df, false, "", ""
}

var c10Programs = []program{
	c09Programs[0],
	{Pkgs: []progPkg{
		{Path: "root/enc/json", Files: []string{"package json\n\nfunc Marshal(v interface{}) string { return \"\" }\n\ntype Encoder struct{ N int }\n\nconst Indent = 2\n\nvar Default = Encoder{N: 1}\n"}},
		{Path: "root/x/jsoniter", Files: []string{"package jsoniter\n\nfunc Fast(v interface{}) string { return \"\" }\n"}},
		{Path: "root/app", Files: []string{
			"package app\n\nimport \"root/enc/json\"\n\nfunc Encode(v interface{}) string {\n\tvar e json.Encoder\n\t_ = e.N\n\treturn json.Marshal(v)\n}\n",
			"package app\n\nimport json \"root/x/jsoniter\"\n\nfunc Quick(v interface{}) string { return json.Fast(v) }\n",
			"package app\n\nimport . \"root/enc/json\"\n\nvar table = map[string]func(interface{}) string{\"m\": Marshal}\n\nvar widths = map[int]string{Indent: \"two\"}\n\nvar known = [...]Encoder{Indent: Default}\n\nfunc Dot(v interface{}) string { return Marshal(Encoder{N: 1}) }\n",
		}},
		{Path: "root/other", Files: []string{"package other\n\nvar Unrelated = 1\n"}},
	}},
	// two packages with the same name, each imported without an alias by one file: moving code
	// between those files forces a new name for one of them, in the selectors and in the import
	{Pkgs: []progPkg{
		{Path: "lib/a/rand", Files: []string{"package rand\n\nfunc Read() int { return 4 }\n\ntype Source struct{ Seed int }\n"}},
		{Path: "lib/b/rand", Files: []string{"package rand\n\nfunc Int() int { return 7 }\n\nvar Reader = 1\n"}},
		{Path: "lib/use", Files: []string{
			"package use\n\nimport \"lib/a/rand\"\n\nfunc Crypto() int {\n\tvar s rand.Source\n\treturn rand.Read() + s.Seed\n}\n",
			"package use\n\nimport \"lib/b/rand\"\n\nfunc Math() int { return rand.Int() + rand.Reader }\n",
			"package use\n\nvar plain = 1\n",
		}},
		{Path: "lib/empty", Files: []string{"package empty\n\nvar Nothing = 0\n"}},
	}},
	// ResolveLocalPath (c10Move.LocalPath): declarations of mv/a refer to package-level objects of mv/a
	// declared in the same file and in the other file of the package (constants, variables, types,
	// functions, a generic type, a method value), next to a remote package; the packages after mv/a
	// declare same-named objects of their own, import mv/a under its name, under an alias, through a
	// dot-import, or not at all, and bind the name "a" to something else
	{Pkgs: []progPkg{
		{Path: "mv/dep", Files: []string{"package dep\n\nfunc Repeat(s string, n int) string { return s }\n\nconst Sep = \"|\"\n"}},
		{Path: "mv/a", Files: []string{
			"package a\n\nimport \"mv/dep\"\n\n// Sep separates the columns.\nconst Sep = \",\"\n\n// Width is the number of columns.\nvar Width = 3\n\ntype Row struct{ Cells int }\n\nfunc (r Row) Len() int { return r.Cells }\n\ntype Pair[K comparable, V any] struct {\n\tKey K\n\tVal V\n}\n\nfunc NewRow() Row { return Row{Cells: Width} }\n\n" +
				"// Banner uses objects of this file, of the other file and of a remote package.\nfunc Banner() string {\n\treturn dep.Repeat(Sep, Width) + Footer\n}\n\nvar Line = Sep + Sep\n\nvar Rows = []Row{{Cells: Width}, NewRow()}\n\nvar Index = map[Level]Pair[string, Row]{Low: {Key: Sep, Val: Row{}}}\n\nvar Measure = Row.Len\n\ntype Grid struct {\n\tRows  []Row\n\tLevel Level\n}\n\nconst Twice = Sep + dep.Sep + Footer\n\nfunc Mixed() (Row, Level) { return NewRow(), High }\n\nvar Far = Footer + Tail()\n",
			"package a\n\nconst Footer = \".\"\n\ntype Level int\n\nconst (\n\tLow Level = iota\n\tHigh\n)\n\nfunc Tail() string { return Footer }\n\nvar Back = Sep + Footer\n\nfunc Both() (string, int) { return Sep + Footer, Width + int(High) }\n",
		}},
		{Path: "mv/b", Files: []string{
			"package b\n\n// Sep of package b is a different object from a.Sep.\nconst Sep = \";\"\n\nconst Footer = 4\n\ntype Row []string\n\nfunc Other() string { return Sep }\n",
			"package b\n\nimport a \"mv/dep\"\n\nvar Tail = a.Repeat(Sep, 2)\n\nfunc NewRow() Row { return nil }\n",
			"package b\n\nimport \"mv/a\"\n\nvar Level = a.High\n\nvar Width = a.Width\n",
		}},
		{Path: "mv/c", Files: []string{
			"package c\n\nimport first \"mv/a\"\n\nvar Mark = first.Sep + \"c\"\n\nvar A1 = 1\n",
			"package c\n\nimport . \"mv/a\"\n\nvar Wide = Width + A1\n",
			"package c\n\nimport dep \"mv/a\"\n\nvar Lowest = dep.Low\n",
		}},
	}},
}

func declName(d dst.Decl) string {
	switch d := d.(type) {
	case *dst.FuncDecl:
		return d.Name.Name
	case *dst.GenDecl:
		for _, s := range d.Specs {
			switch s := s.(type) {
			case *dst.ValueSpec:
				return s.Names[0].Name
			case *dst.TypeSpec:
				return s.Name.Name
			}
		}
	}
	return ""
}

func astDeclByName(f *ast.File, name string) ast.Decl {
	for _, d := range f.Decls {
		switch d := d.(type) {
		case *ast.FuncDecl:
			if d.Name.Name == name {
				return d
			}
		case *ast.GenDecl:
			for _, s := range d.Specs {
				switch s := s.(type) {
				case *ast.ValueSpec:
					if s.Names[0].Name == name {
						return d
					}
				case *ast.TypeSpec:
					if s.Name.Name == name {
						return d
					}
				}
			}
		}
	}
	return nil
}

// denotations of the identifiers of a declaration that refer to package-level objects
func denotations(info *types.Info, d ast.Decl, self *types.Package, crossPackage bool) []string {
	var out []string
	ast.Inspect(d, func(n ast.Node) bool {
		id, ok := n.(*ast.Ident)
		if !ok {
			return true
		}
		obj := info.Uses[id]
		if obj == nil || obj.Pkg() == nil {
			return true
		}
		if _, isPkgName := obj.(*types.PkgName); isPkgName {
			return true
		}
		if obj.Parent() != obj.Pkg().Scope() {
			return true
		}
		if obj.Pkg() == self && crossPackage {
			return true
		}
		out = append(out, obj.Pkg().Path()+"."+obj.Name())
		return true
	})
	return out
}

// c10SrcPkg: the package the declaration is taken from
func c10SrcPkg(prog program, mv c10Move) progPkg {
	srcPkg := prog.Pkgs[len(prog.Pkgs)-1]
	if mv.Program == nil && (mv.Prog == 1 || mv.Prog == 2) {
		srcPkg = prog.Pkgs[2]
	}
	for _, pk := range prog.Pkgs {
		if mv.SrcPkg != "" && pk.Path == mv.SrcPkg {
			srcPkg = pk
		}
	}
	return srcPkg
}

func c10Check(mv c10Move) (key, what string) {
	var prog program
	if mv.Program != nil {
		prog = *mv.Program
	} else {
		prog = c10Programs[mv.Prog]
	}
	c := typeCheck(prog)
	if c.err != nil {
		return "c10-program", "the program does not type-check: " + c.err.Error()
	}
	names := map[string]string{}
	for p, tp := range c.pkgs {
		names[p] = tp.Name()
		names[stripVendorRef(p)] = tp.Name()
	}
	srcPkg := c10SrcPkg(prog, mv)
	tgtPkgPath := srcPkg.Path
	if mv.ToPkg != "" {
		tgtPkgPath = mv.ToPkg
	}
	// decorate the packages involved (one decorator per package, types-based resolver)
	decs := map[string]*decorator.Decorator{}
	dfiles := map[string][]*dst.File{}
	for _, pp := range []string{srcPkg.Path, tgtPkgPath} {
		if decs[pp] != nil {
			continue
		}
		dec := decorator.NewDecoratorWithImports(c.fset, pp, gotypes.New(c.info[pp].Uses))
		dec.ResolveLocalPath = mv.LocalPath
		decs[pp] = dec
		for _, af := range c.files[pp] {
			df, err := dec.DecorateFile(af)
			if err != nil {
				return "c10-decorate", err.Error()
			}
			dfiles[pp] = append(dfiles[pp], df)
		}
	}
	if mv.Resolver != "" {
		df, refused, key, what := c10SyntacticSource(srcPkg.Files[mv.FromFile], srcPkg.Path, mv.Resolver, names)
		if key != "" {
			return key, what
		}
		if refused {
			return "", ""
		}
		dfiles[srcPkg.Path][mv.FromFile] = df
	}
	from := dfiles[srcPkg.Path][mv.FromFile]
	var moved dst.Decl
	var rest []dst.Decl
	for _, d := range from.Decls {
		if declName(d) == mv.Decl && moved == nil {
			moved = d
		} else {
			rest = append(rest, d)
		}
	}
	if moved == nil {
		return "", ""
	}
	before := denotations(c.info[srcPkg.Path], astDeclByName(c.files[srcPkg.Path][mv.FromFile], mv.Decl), c.pkgs[srcPkg.Path], mv.ToPkg != "" && !mv.LocalPath)
	from.Decls = rest
	to := dfiles[tgtPkgPath][mv.ToFile]
	moved.Decorations().Before = dst.EmptyLine
	to.Decls = append(to.Decls, moved)
	places := []struct {
		pkg  string
		file int
	}{{tgtPkgPath, mv.ToFile}}
	if mv.Twice {
		// on to the next file of the target package (print first: restoring is allowed repeatedly)
		nxt := (mv.ToFile + 1) % len(dfiles[tgtPkgPath])
		if nxt != mv.ToFile && !(tgtPkgPath == srcPkg.Path && nxt == mv.FromFile) {
			var buf bytes.Buffer
			var err error
			pm := safely(func() { err = decorator.NewRestorerWithImports(tgtPkgPath, simple.New(names)).Fprint(&buf, to) })
			if pm != "" || err != nil {
				return "c10-restore", fmt.Sprintf("restoring %s file %d at the intermediate place of a repeated move failed: %v %s", tgtPkgPath, mv.ToFile, err, pm)
			}
			to.Decls = to.Decls[:len(to.Decls)-1]
			to2 := dfiles[tgtPkgPath][nxt]
			to2.Decls = append(to2.Decls, moved)
			places = []struct {
				pkg  string
				file int
			}{{tgtPkgPath, nxt}}
		}
	}
	// restore every file of the packages involved and rebuild the program
	np := program{}
	for _, pk := range prog.Pkgs {
		npk := progPkg{Path: pk.Path, ImportAs: pk.ImportAs}
		for i, src := range pk.Files {
			if dfs, ok := dfiles[pk.Path]; ok {
				var buf bytes.Buffer
				var err error
				pm := safely(func() { err = decorator.NewRestorerWithImports(pk.Path, simple.New(names)).Fprint(&buf, dfs[i]) })
				if pm != "" || err != nil {
					return "c10-restore", fmt.Sprintf("restoring %s file %d failed: %v %s", pk.Path, i, err, pm)
				}
				src = buf.String()
			}
			npk.Files = append(npk.Files, src)
		}
		np.Pkgs = append(np.Pkgs, npk)
	}
	// dependency order: the target package may now import the packages the moved code needs;
	// they all precede it in these programs except when moving into an earlier package
	nc := typeCheck(np)
	if nc.err != nil {
		var shown string
		for _, pk := range np.Pkgs {
			if pk.Path == places[0].pkg {
				shown = pk.Files[places[0].file]
			}
		}
		return "c10-typecheck", "after the move the program no longer type-checks: " + nc.err.Error() + "\n" + shown
	}
	nd := astDeclByName(nc.files[places[0].pkg][places[0].file], mv.Decl)
	if nd == nil {
		return "c10-lost", "the moved declaration is not in the target file"
	}
	after := denotations(nc.info[places[0].pkg], nd, nc.pkgs[places[0].pkg], mv.ToPkg != "" && !mv.LocalPath)
	// objects are compared by (package path, name): the re-checked program has new object identities
	if strings.Join(before, " ") != strings.Join(after, " ") {
		return "c10-denotation", fmt.Sprintf("identifiers of the moved declaration denote\n  %v\nbefore and\n  %v\nafter the move", before, after)
	}
	return "", ""
}

func c10Prop(c *Ctx) {
	c.Res.Rule = "every (declaration, target) pair of two type-checked programs: declarations using remote packages through qualifiers, aliases and dot-imports (incl. dot-imported identifiers as map keys and in function values), moved into files of the same package that import the packages under other names, through a dot-import, under a conflicting alias, or not at all, and into a package that imports nothing; single and repeated moves; every move from a file without dot-imports repeated with that file decorated by the syntax-only resolver from an ast that is not the parser's (restored from a plainly decorated tree; File.Imports dropped) and from the parser's; non-trivial = distinct move"
	type cand struct {
		prog, file int
		decl       string
	}
	cands := []cand{
		{0, 0, "use"}, {0, 0, "local"}, {0, 0, "sh"}, {0, 1, "dot"}, {0, 1, "dotted"}, {0, 2, "al"}, {0, 2, "aliased"},
		{1, 0, "Encode"}, {1, 1, "Quick"}, {1, 2, "Dot"}, {1, 2, "table"}, {1, 2, "widths"}, {1, 2, "known"},
		{2, 0, "Crypto"}, {2, 1, "Math"},
	}
	for _, cd := range cands {
		nfiles := 3
		for tf := 0; tf < nfiles; tf++ {
			if tf == cd.file {
				continue
			}
			for _, twice := range []bool{false, true} {
				mv := c10Move{Prog: cd.prog, FromFile: cd.file, Decl: cd.decl, ToFile: tf, Twice: twice}
				// declarations that use unexported local objects stay in their package
				c.Res.Evaluations++
				c.Res.seen(fmt.Sprint(mv))
				c.Res.hist("c10", fmt.Sprintf("same-package twice=%v", twice))
				if key, what := c10Check(mv); key != "" {
					c.Res.fail(key, what, mv)
				}
				// the same move with the source file decorated by the syntax-only resolver from an ast that
				// is not the parser's (files with dot-imports are refused by that resolver: nothing to move)
				if twice {
					c10SyntacticMoves(c, mv, "same-package ", "goast-restored")
				} else {
					c10SyntacticMoves(c, mv, "same-package ")
				}
			}
		}
		// into another package (only declarations without references to local objects)
		if cd.prog == 1 && (cd.decl == "Encode" || cd.decl == "Quick" || cd.decl == "Dot" || cd.decl == "table" || cd.decl == "widths" || cd.decl == "known") {
			mv := c10Move{Prog: 1, FromFile: cd.file, Decl: cd.decl, ToPkg: "root/other", ToFile: 0}
			c.Res.Evaluations++
			c.Res.seen(fmt.Sprint(mv))
			c.Res.hist("c10", "cross-package")
			if key, what := c10Check(mv); key != "" {
				c.Res.fail(key, what, mv)
			}
			c10SyntacticMoves(c, mv, "cross-package ")
			if len(c.Res.Samples) < 2 {
				c.Res.Samples = append(c.Res.Samples, mv)
			}
		}
		if cd.prog == 2 {
			mv := c10Move{Prog: 2, FromFile: cd.file, Decl: cd.decl, ToPkg: "lib/empty", ToFile: 0}
			c.Res.Evaluations++
			c.Res.seen(fmt.Sprint(mv))
			c.Res.hist("c10", "cross-package")
			if key, what := c10Check(mv); key != "" {
				c.Res.fail(key, what, mv)
			}
			c10SyntacticMoves(c, mv, "cross-package ")
		}
	}
}

// c10LocalPathMoves: with Decorator.ResolveLocalPath the references to the package's own objects travel
// too: every declaration of mv/a (program 3) that no other declaration refers to and that has no
// function-local names is placed into every file of the packages after mv/a (which declare same-named
// objects, import mv/a under several names or not at all) and into the other file of mv/a, once and
// onwards to a second file.  The candidates are computed from go/types, not listed.
func c10LocalPathMoves(c *Ctx) {
	const pi = 3
	c.Res.Rule += "; with Decorator.ResolveLocalPath (types-based resolver, parser's object resolution): every declaration of a two-file package that uses package-level objects of its own file and of the other file, is used nowhere else and has no function-local names, moved into every file of two later packages (same-named objects of their own; the source package imported by name, alias, dot-import, not at all; its name bound to another package) and into the other file of its package, once and onwards"
	prog := c10Programs[pi]
	chk := typeCheck(prog)
	if chk.err != nil {
		c.Res.fail("c10-program", "the program does not type-check: "+chk.err.Error(), c10Move{Prog: pi, Decl: "-", LocalPath: true})
		return
	}
	src := "mv/a"
	self := chk.pkgs[src]
	for fi, af := range chk.files[src] {
		for _, d := range af.Decls {
			var nm string
			switch d := d.(type) {
			case *ast.FuncDecl:
				if d.Recv == nil {
					nm = d.Name.Name
				}
			case *ast.GenDecl:
				if d.Tok == token.IMPORT || len(d.Specs) != 1 {
					continue
				}
				switch s := d.Specs[0].(type) {
				case *ast.ValueSpec:
					nm = s.Names[0].Name
				case *ast.TypeSpec:
					nm = s.Name.Name
				}
			}
			if nm == "" || !usesLocalObjects(chk.info[src], d, self) || referencedElsewhere(chk.info[src], chk.files[src], d, self) || hasScopedNames(chk.info[src], d, self) {
				continue
			}
			for _, pk := range prog.Pkgs {
				if pk.Path == "mv/dep" {
					continue
				}
				for tf := range pk.Files {
					if pk.Path == src && tf == fi {
						continue
					}
					for _, twice := range []bool{false, true} {
						mv := c10Move{Prog: pi, SrcPkg: src, FromFile: fi, Decl: nm, ToFile: tf, Twice: twice, LocalPath: true}
						label := "local-path same-package"
						if pk.Path != src {
							mv.ToPkg = pk.Path
							label = "local-path cross-package"
						}
						c.Res.Evaluations++
						c.Res.seen(fmt.Sprint(mv))
						c.Res.hist("c10", fmt.Sprintf("%s twice=%v", label, twice))
						if key, what := c10Check(mv); key != "" {
							c.Res.fail(key, what, mv)
						}
					}
				}
			}
		}
	}
}

// hasScopedNames: the declaration uses or declares names of an inner scope (parameters, results, local
// variables, type parameters, labels) -- anything go/types records that is neither a package-level
// object, nor a field or method, nor predeclared
func hasScopedNames(info *types.Info, d ast.Decl, self *types.Package) bool {
	found := false
	ast.Inspect(d, func(n ast.Node) bool {
		id, ok := n.(*ast.Ident)
		if !ok {
			return true
		}
		for _, obj := range []types.Object{info.Uses[id], info.Defs[id]} {
			if obj == nil || obj.Pkg() == nil {
				continue
			}
			if _, isPkgName := obj.(*types.PkgName); isPkgName {
				continue
			}
			if v, ok := obj.(*types.Var); ok && v.IsField() {
				continue
			}
			if _, isFunc := obj.(*types.Func); isFunc {
				continue // functions and methods are never function-local
			}
			if obj.Parent() != obj.Pkg().Scope() {
				found = true
			}
		}
		return true
	})
	return found
}

// c10SyntacticMoves: the move repeated with the source file decorated by the syntax-only resolver from
// an ast that is not the parser's own (c10Move.Resolver)
func c10SyntacticMoves(c *Ctx, mv c10Move, label string, hows ...string) {
	if len(hows) == 0 {
		hows = c10SyntacticResolvers
	}
	prog := c10Programs[mv.Prog]
	if mv.Program != nil {
		prog = *mv.Program
	}
	from := c10SrcPkg(prog, mv).Files[mv.FromFile]
	if strings.Contains(from, "import . ") || strings.Contains(from, "\t. \"") {
		return // the syntax-only resolver refuses files with dot-imports (C09): nothing to move
	}
	for _, how := range hows {
		mv2 := mv
		mv2.Resolver = how
		c.Res.Evaluations++
		c.Res.seen(fmt.Sprint(mv2.Prog, mv2.FromFile, mv2.Decl, mv2.ToPkg, mv2.ToFile, mv2.Twice, how, from))
		c.Res.hist("c10", label+how)
		if key, what := c10Check(mv2); key != "" {
			c.Res.fail(key, what, mv2)
		}
	}
}

// usesLocalObjects: the declaration refers to package-level objects of its own package (such a
// declaration stays in its package: the decorator leaves local paths empty by default)
func usesLocalObjects(info *types.Info, d ast.Decl, self *types.Package) bool {
	found := false
	ast.Inspect(d, func(n ast.Node) bool {
		if id, ok := n.(*ast.Ident); ok {
			if obj := info.Uses[id]; obj != nil && obj.Pkg() == self && obj.Parent() == self.Scope() {
				found = true
			}
		}
		return true
	})
	return found
}

// referencedElsewhere: a package-level object the declaration defines is used outside of it
func referencedElsewhere(info *types.Info, files []*ast.File, d ast.Decl, self *types.Package) bool {
	defs := map[types.Object]bool{}
	ast.Inspect(d, func(n ast.Node) bool {
		if id, ok := n.(*ast.Ident); ok {
			if obj := info.Defs[id]; obj != nil && obj.Parent() == self.Scope() {
				defs[obj] = true
			}
		}
		return true
	})
	found := false
	for _, f := range files {
		ast.Inspect(f, func(n ast.Node) bool {
			if n == ast.Node(d) {
				return false
			}
			if id, ok := n.(*ast.Ident); ok && defs[info.Uses[id]] {
				found = true
			}
			return true
		})
	}
	return found
}

// generated programs (c09_gen.go) with an extra package that imports nothing: every declaration of
// the package under test is moved into every other file of its package (which may import the
// packages it needs under another name, an alias that is the name of another package, through a
// dot-import, blank, or not at all), and, when it refers to no local object, into the empty package
func c10Generated(c *Ctx) {
	synth := 0 // alternates the two not-from-the-parser variants over the generated moves
	for gi := 0; gi < c.N(10); gi++ {
		g := genProgram(c.Rng)
		// what travels with the code is assigned per file also when the package is decorated as one node
		// (each file has its own import names)
		for _, ld := range []bool{false, true} {
			c.Res.Evaluations++
			c.Res.hist("c10", fmt.Sprintf("package decorated as one node, line-directive=%v", ld))
			if key, what := c09PackageMode(g.Prog, ld); key != "" {
				pp := g.Prog
				c.Res.fail(strings.Replace(key, "c09-", "c10-", 1), what, c10Move{Program: &pp, Decl: "package-mode", Twice: ld})
			}
		}
		local := g.Prog.Pkgs[len(g.Prog.Pkgs)-1]
		empty := progPkg{Path: "zz/empty", Files: []string{"package empty\n\nvar Nothing = 0\n"}}
		prog := program{Pkgs: append(append([]progPkg{}, g.Prog.Pkgs...), empty)}
		chk := typeCheck(prog)
		if chk.err != nil {
			c.Res.fail("c10-program", "the generated program does not type-check: "+chk.err.Error(), map[string]interface{}{"prog": prog})
			continue
		}
		for fi, af := range chk.files[local.Path] {
			var names []string
			for _, d := range af.Decls {
				if gd, ok := d.(*ast.GenDecl); ok && gd.Tok.String() == "import" {
					continue
				}
				var nm string
				switch d := d.(type) {
				case *ast.FuncDecl:
					if d.Recv != nil || d.Name.Name == "main" {
						continue
					}
					nm = d.Name.Name
				case *ast.GenDecl:
					switch s := d.Specs[0].(type) {
					case *ast.ValueSpec:
						nm = s.Names[0].Name
					case *ast.TypeSpec:
						nm = s.Name.Name
					}
				}
				if nm != "" {
					names = append(names, nm)
				}
			}
			// a sample of the declarations of the file
			c.Rng.Shuffle(len(names), func(i, j int) { names[i], names[j] = names[j], names[i] })
			if len(names) > 4 {
				names = names[:4]
			}
			for _, nm := range names {
				ad := astDeclByName(af, nm)
				for tf := range local.Files {
					if tf == fi {
						continue
					}
					pp := prog
					mv := c10Move{Program: &pp, SrcPkg: local.Path, FromFile: fi, Decl: nm, ToFile: tf, Twice: c.Rng.Intn(4) == 0}
					c.Res.Evaluations++
					c.Res.seen(fmt.Sprint(gi, fi, nm, tf))
					c.Res.hist("c10", fmt.Sprintf("generated same-package twice=%v", mv.Twice))
					if key, what := c10Check(mv); key != "" {
						c.Res.fail(key, what, mv)
					}
					synth++
					c10SyntacticMoves(c, mv, "generated same-package ", c10SyntacticResolvers[synth%2])
				}
				if !usesLocalObjects(chk.info[local.Path], ad, chk.pkgs[local.Path]) && !referencedElsewhere(chk.info[local.Path], chk.files[local.Path], ad, chk.pkgs[local.Path]) {
					pp := prog
					mv := c10Move{Program: &pp, SrcPkg: local.Path, FromFile: fi, Decl: nm, ToPkg: "zz/empty", ToFile: 0}
					c.Res.Evaluations++
					c.Res.seen(fmt.Sprint(gi, fi, nm, "x"))
					c.Res.hist("c10", "generated cross-package")
					if key, what := c10Check(mv); key != "" {
						c.Res.fail(key, what, mv)
					}
					synth++
					c10SyntacticMoves(c, mv, "generated cross-package ", c10SyntacticResolvers[synth%2])
				}
			}
		}
	}
}

func init() {
	props["C10"] = func(c *Ctx) { c10Prop(c); c10LocalPathMoves(c); c10Generated(c) }
	corrs["C10"] = importsCorr
	replays["C10"] = func(c *Ctx, raw json.RawMessage) (bool, string) {
		var mv c10Move
		if err := json.Unmarshal(raw, &mv); err != nil || mv.Decl == "" {
			return false, "not a C10 generated input"
		}
		if mv.Decl == "package-mode" && mv.Program != nil {
			key, what := c09PackageMode(*mv.Program, mv.Twice)
			return key != "", what
		}
		key, what := c10Check(mv)
		return key != "", what
	}
}
