package main

import (
	"bytes"
	"encoding/json"
	"fmt"
	"go/ast"
	"go/format"
	"go/token"
	"math/rand"
	"os"
	"sort"
	"strings"
	"sync"

	"github.com/dave/dst"
	"github.com/dave/dst/decorator"
	"github.com/dave/dst/decorator/resolver"
	"github.com/dave/dst/decorator/resolver/goast"
	"github.com/dave/dst/decorator/resolver/gobuild"
	"github.com/dave/dst/decorator/resolver/guess"
	"go/build"
)

// C16 on the implementation (this binary is built with -race by bin/check; GORACE log_path
// collects the detector's reports):
//   concurrent: G goroutines decorate and restore different files at the same time, each with
//               its own decorator and restorer, sharing ONE goast identifier resolver and one
//               guess package-name resolver; every result must equal the result of the same
//               call made alone;
//   repeat:     decorate/restore of conflict-heavy import configurations repeated many times
//               must give identical bytes (map iteration order must not matter).

type c16Input struct {
	Mode   string   `json:"mode"` // concurrent | repeat
	Srcs   []string `json:"srcs,omitempty"`
	Config icConfig `json:"config,omitempty"`
	Rounds int      `json:"rounds"`
	// own-resolvers: the explicit names the other callers store in resolvers of their own (caller -> path -> name)
	// and the sources of those callers (Srcs are the sources of the callers that store nothing)
	Names     []map[string]string `json:"names,omitempty"`
	NamedSrcs []string            `json:"named_srcs,omitempty"`
	// nil-fileset: restorers whose Fset is nil when RestoreFile runs, one per source (Ctors: how it got
	// that way); the first Parked of them are stopped inside their package-name resolver, in the middle of
	// RestoreFile, while the others restore their files completely; then they go on, the last one first
	// or (ResumeInOrder) the first one first
	Ctors         []string `json:"ctors,omitempty"`
	Parked        int      `json:"parked,omitempty"`
	ResumeInOrder bool     `json:"resume_in_order,omitempty"`
}

func c16Once(src string, ident resolver.DecoratorResolver, pkg resolver.RestorerResolver) (string, error) {
	dec := decorator.NewDecoratorWithImports(token.NewFileSet(), "example.com/self", ident)
	f, err := dec.Parse(src)
	if err != nil {
		return "", err
	}
	var buf bytes.Buffer
	if err := decorator.NewRestorerWithImports("example.com/self", pkg).Fprint(&buf, f); err != nil {
		return "", err
	}
	return buf.String(), nil
}

func c16Check(in c16Input) (key, what string) {
	switch in.Mode {
	case "concurrent":
		// sequential reference, fresh resolvers
		want := make([]string, len(in.Srcs))
		for i, s := range in.Srcs {
			out, err := c16Once(s, goastNew(), guess.New())
			if err != nil {
				out = "error: " + err.Error()
			}
			want[i] = out
		}
		for round := 0; round < in.Rounds; round++ {
			ident := goastNew() // shared, zero value: the lazy default is exercised
			pkg := guess.New()
			got := make([]string, len(in.Srcs))
			var wg sync.WaitGroup
			start := make(chan struct{})
			for i := range in.Srcs {
				wg.Add(1)
				go func(i int) {
					defer wg.Done()
					<-start
					out, err := c16Once(in.Srcs[i], ident, pkg)
					if err != nil {
						out = "error: " + err.Error()
					}
					got[i] = out
				}(i)
			}
			close(start)
			wg.Wait()
			for i := range got {
				if got[i] != want[i] {
					return "c16-result", fmt.Sprintf("round %d, file %d: the concurrent result differs from the result of the same call made alone:\n%s", round, i, firstDiff(want[i], got[i]))
				}
			}
		}
	case "own-resolvers":
		return c16OwnResolvers(in)
	case "nil-fileset":
		return c16NilFileSet(in)
	case "gobuild-default-context":
		before := build.Default
		for _, dir := range []string{"/work/one", "/work/two"} {
			res := gobuild.New(dir)
			res.FindPackage = func(ctxt *build.Context, importPath, fromDir string, mode build.ImportMode) (*build.Package, error) {
				return &build.Package{Name: importPath[strings.LastIndex(importPath, "/")+1:]}, nil
			}
			f, err := decorator.NewDecoratorWithImports(token.NewFileSet(), "example.com/self", goastNew()).Parse(in.Srcs[0])
			if err != nil {
				return "", ""
			}
			f.Decls = append(f.Decls, &dst.GenDecl{Tok: token.VAR, Specs: []dst.Spec{&dst.ValueSpec{Names: []*dst.Ident{dst.NewIdent("w")}, Values: []dst.Expr{&dst.Ident{Name: "G", Path: "root/other"}}}}})
			var buf bytes.Buffer
			if err := decorator.NewRestorerWithImports("example.com/self", res).Fprint(&buf, f); err != nil {
				return "c16-result", "restoring with a gobuild resolver failed: " + err.Error()
			}
			if build.Default.Dir != before.Dir || build.Default.GOPATH != before.GOPATH || build.Default.GOROOT != before.GOROOT {
				d := build.Default.Dir
				build.Default = before
				return "c16-global-state", fmt.Sprintf("a restore with gobuild.New(%q) left build.Default.Dir = %q (it was %q): separate resolvers communicate through a process-wide value", dir, d, before.Dir)
			}
		}
	case "shared-views":
		// files that import the same paths under different names (an alias here, the plain import
		// there, another alias elsewhere) through ONE shared goast resolver and one shared
		// package-name resolver: in the given order, in the reverse order, and concurrently; each
		// result must equal that of the same call made alone with fresh resolvers
		want := make([]string, len(in.Srcs))
		for i, s := range in.Srcs {
			out, err := c16Once(s, goastNew(), guess.New())
			if err != nil {
				out = "error: " + err.Error()
			}
			want[i] = out
		}
		for _, rev := range []bool{false, true} {
			ident := goastNew()
			pkg := guess.New()
			for k := range in.Srcs {
				i := k
				if rev {
					i = len(in.Srcs) - 1 - k
				}
				out, err := c16Once(in.Srcs[i], ident, pkg)
				if err != nil {
					out = "error: " + err.Error()
				}
				if out != want[i] {
					return "c16-shared-view", fmt.Sprintf("file %d decorated through a resolver that has already seen the other files (reverse order: %v) differs from the same call made alone:\n%s", i, rev, firstDiff(want[i], out))
				}
			}
		}
		in2 := in
		in2.Mode = "concurrent"
		return c16Check(in2)
	case "repeat-extras":
		// Restorer.Extras: the out-of-tree declaring nodes (the assignment the parser synthesises for a
		// range clause) get the same positions on every run
		var first string
		for round := 0; round < in.Rounds; round++ {
			fset := token.NewFileSet()
			f, err := decorator.NewDecorator(fset).Parse(in.Srcs[0])
			if err != nil {
				return "", ""
			}
			r := decorator.NewRestorer()
			r.Extras = true
			af, err := r.RestoreFile(f)
			if err != nil {
				return "", ""
			}
			var sb strings.Builder
			ast.Inspect(af, func(n ast.Node) bool {
				if id, ok := n.(*ast.Ident); ok && id.Obj != nil {
					if as, ok := id.Obj.Decl.(*ast.AssignStmt); ok {
						fmt.Fprintf(&sb, "%s:%d ", id.Name, as.TokPos)
						if len(as.Rhs) == 1 {
							if u, ok := as.Rhs[0].(*ast.UnaryExpr); ok {
								fmt.Fprintf(&sb, "op=%d ", u.OpPos)
							}
						}
					}
				}
				return true
			})
			if round == 0 {
				first = sb.String()
			} else if sb.String() != first {
				return "c16-nondeterministic", fmt.Sprintf("restoring with Extras gives different positions for the synthesised range assignments (round %d): %s vs %s", round, first, sb.String())
			}
		}
	case "repeat":
		var first string
		for round := 0; round < in.Rounds; round++ {
			o, _ := icRun(in.Config)
			cur := o.Output
			if o.Err != nil {
				cur = "error: " + o.Failed
			}
			if o.Panic != "" {
				cur = "panic: " + o.Panic
			}
			if round == 0 {
				first = cur
			} else if cur != first {
				return "c16-nondeterministic", fmt.Sprintf("repeating the restore of one import configuration gives different bytes (round %d):\n%s", round, firstDiff(first, cur))
			}
		}
	}
	return "", ""
}

// c16Stats: what the nil-fileset scenarios exercised (for the histogram)
var c16Stats = map[string]int{}

// c16Restored: what one RestoreFile call gave
type c16Restored struct {
	Out   string // the restored file, printed with the restorer's FileSet
	Pos   string // Pos and End of every node and comment, relative to the base of the file in the FileSet
	Base  int    // that base
	File  string // name, size and number of lines of the file in the FileSet
	Files int    // files in the restorer's FileSet when RestoreFile returns
	Err   string
	Panic string
}

func (o c16Restored) String() string {
	switch {
	case o.Panic != "":
		return "panic: " + o.Panic
	case o.Err != "":
		return "error: " + o.Err
	}
	return fmt.Sprintf("files in the restorer's FileSet: %d\nbase of the restored file: %d\nfile: %s\npositions: %s\n%s", o.Files, o.Base, o.File, o.Pos, o.Out)
}

func c16RestoreFile(r *decorator.Restorer, f *dst.File) (o c16Restored) {
	o.Panic = safely(func() {
		af, err := r.RestoreFile(f)
		if err != nil {
			o.Err = err.Error()
			return
		}
		if r.Fset == nil {
			o.Err = "RestoreFile left Restorer.Fset nil"
			return
		}
		r.Fset.Iterate(func(*token.File) bool { o.Files++; return true })
		tf := r.Fset.File(af.Package)
		if tf == nil {
			o.Err = "the position of the package clause is in no file of the restorer's FileSet"
			return
		}
		o.Base = tf.Base()
		o.File = fmt.Sprintf("%q size=%d lines=%d", tf.Name(), tf.Size(), tf.LineCount())
		var sb strings.Builder
		rel := func(p token.Pos) int {
			if !p.IsValid() {
				return -1
			}
			return int(p) - o.Base
		}
		ast.Inspect(af, func(n ast.Node) bool {
			if n != nil {
				fmt.Fprintf(&sb, "%d-%d ", rel(n.Pos()), rel(n.End()))
			}
			return true
		})
		for _, cg := range af.Comments {
			for _, cm := range cg.List {
				fmt.Fprintf(&sb, "c%d ", rel(cm.Slash))
			}
		}
		o.Pos = sb.String()
		var buf bytes.Buffer
		if err := format.Node(&buf, r.Fset, af); err != nil {
			o.Err = "format.Node: " + err.Error()
			return
		}
		o.Out = buf.String()
	})
	return o
}

// c16Gate is a read-only package-name resolver that stops its caller the first time it is asked, until
// it is told to go on: RestoreFile asks it from the import management, i.e. in the middle of a restore
type c16Gate struct {
	inner   resolver.RestorerResolver
	once    sync.Once
	entered chan struct{}
	resume  chan struct{}
}

func (g *c16Gate) ResolvePackage(path string) (string, error) {
	g.once.Do(func() {
		close(g.entered)
		<-g.resume
	})
	return g.inner.ResolvePackage(path)
}

func c16EmptyMap() decorator.Map {
	return decorator.Map{
		Ast: decorator.AstMap{Nodes: map[dst.Node]ast.Node{}, Scopes: map[*dst.Scope]*ast.Scope{}, Objects: map[*dst.Object]*ast.Object{}},
		Dst: decorator.DstMap{Nodes: map[ast.Node]dst.Node{}, Scopes: map[*ast.Scope]*dst.Scope{}, Objects: map[*ast.Object]*dst.Object{}},
	}
}

// c16NilFileSet: restorers without a FileSet (the Restorer's fields are exported: a literal has none, and
// "Set this to use a pre-existing FileSet" says the field may be left alone). Each restorer is its
// caller's own; what it gives -- the printed bytes, the position of every node, the base and the line
// table of the file, and the number of files in the restorer's own FileSet -- equals what the same file
// gives when it is restored alone by a restorer with a new FileSet of its own (token.NewFileSet() given
// explicitly), whatever other restorers did before or do in the meantime. No call panics.
func c16NilFileSet(in c16Input) (key, what string) {
	const path = "example.com/self"
	decorate := func(src string) *dst.File {
		f, err := decorator.NewDecoratorWithImports(token.NewFileSet(), path, goastNew()).Parse(src)
		if err != nil {
			return nil
		}
		return f
	}
	n := len(in.Srcs)
	want := make([]c16Restored, n)
	for i, s := range in.Srcs {
		f := decorate(s)
		if f == nil {
			return "", ""
		}
		r := &decorator.Restorer{Map: c16EmptyMap(), Fset: token.NewFileSet(), Path: path, Resolver: guess.New()}
		want[i] = c16RestoreFile(r, f)
	}
	// the restorers, each without a FileSet; "reuse": the restorer of the source before, its Fset set back to nil
	// just before the call (only where both run on the same goroutine one after the other)
	restorers := make([]*decorator.Restorer, n)
	gates := make([]*c16Gate, n)
	for i := range in.Srcs {
		var pkg resolver.RestorerResolver = guess.New()
		if i < in.Parked {
			gates[i] = &c16Gate{inner: guess.New(), entered: make(chan struct{}), resume: make(chan struct{})}
			pkg = gates[i]
		}
		ctor := ""
		if i < len(in.Ctors) {
			ctor = in.Ctors[i]
		}
		switch {
		case ctor == "reuse" && i > in.Parked:
			restorers[i] = restorers[i-1]
		case ctor == "reset":
			restorers[i] = decorator.NewRestorerWithImports(path, pkg)
		default:
			restorers[i] = &decorator.Restorer{Map: c16EmptyMap(), Path: path, Resolver: pkg}
		}
	}
	files := make([]*dst.File, n)
	for i, s := range in.Srcs {
		files[i] = decorate(s)
	}
	got := make([]c16Restored, n)
	done := make([]chan struct{}, n)
	stopped := make([]bool, n)
	// the first Parked restorers start one by one; each runs until its resolver is asked (or to the end)
	for i := 0; i < in.Parked && i < n; i++ {
		done[i] = make(chan struct{})
		go func(i int) {
			defer close(done[i])
			restorers[i].Fset = nil
			got[i] = c16RestoreFile(restorers[i], files[i])
		}(i)
		select {
		case <-gates[i].entered:
			stopped[i] = true
		case <-done[i]:
		}
	}
	// the others run to the end, one after the other
	for i := in.Parked; i < n; i++ {
		restorers[i].Fset = nil
		got[i] = c16RestoreFile(restorers[i], files[i])
	}
	// the stopped ones go on, one at a time
	for k := 0; k < in.Parked && k < n; k++ {
		i := in.Parked - 1 - k
		if in.ResumeInOrder {
			i = k
		}
		if i >= n {
			continue
		}
		if stopped[i] {
			close(gates[i].resume)
		}
		<-done[i]
	}
	for i := range got {
		switch {
		case i < in.Parked && stopped[i]:
			c16Stats["nil-fileset: restorer stopped inside its resolver while others ran"]++
		case i < in.Parked:
			c16Stats["nil-fileset: restorer to be stopped never asked its resolver"]++
		default:
			c16Stats["nil-fileset: restorer ran to the end"]++
		}
	}
	for i := range got {
		how := "restored after the restorers of the files before it were used"
		if i < in.Parked {
			how = "restored while the other restorers ran: it never asked its package-name resolver, so it ran to the end first"
			if stopped[i] {
				how = "stopped inside its package-name resolver while the restorers after it restored their files completely"
			}
		}
		if got[i].Panic != "" && want[i].Panic == "" {
			return "c16-panic", fmt.Sprintf("file %d, its own restorer without a FileSet, %s: RestoreFile panicked: %s (alone, with a new FileSet of its own, the same call gives %d bytes)", i, how, got[i].Panic, len(want[i].Out))
		}
		if got[i] != want[i] {
			return "c16-result", fmt.Sprintf("file %d, its own restorer without a FileSet, %s: the result differs from that of the same call made alone with a new FileSet of its own:\n%s", i, how, firstDiff(want[i].String(), got[i].String()))
		}
	}
	return "", ""
}

// c16OwnResolvers: every caller has a package-name resolver of its own, obtained from guess.New(); some
// callers store explicit names in theirs (r[path] = name, the type is a map) before using it. What one
// caller stores must not reach another caller's guess.New(), nor the default of a goast.New(): every
// result equals the result of the same call made alone -- first one caller after the other, then all
// of them at the same time (each goroutine builds and fills its resolver itself).
func c16OwnResolvers(in c16Input) (key, what string) {
	lastElem := func(p string) string { return p[strings.LastIndex(p, "/")+1:] }
	var paths []string
	seenPath := map[string]bool{}
	for _, m := range in.Names {
		for p := range m {
			if !seenPath[p] {
				seenPath[p] = true
				paths = append(paths, p)
			}
		}
	}
	sort.Strings(paths)
	// a resolver nobody stored anything in guesses the last element of the path
	fresh := func(when string) (string, string) {
		r := guess.New()
		for _, p := range paths {
			if n, err := r.ResolvePackage(p); err != nil || n != lastElem(p) {
				return "c16-own-resolver", fmt.Sprintf("%s: a resolver fresh from guess.New() resolves %q to %q (%v); nothing was stored in it, the name is the last element of the path: %q", when, p, n, err, lastElem(p))
			}
		}
		return "", ""
	}
	once := func(src string, ident resolver.DecoratorResolver, pkg resolver.RestorerResolver) string {
		out, err := c16Once(src, ident, pkg)
		if err != nil {
			return "error: " + err.Error()
		}
		return out
	}
	if k, w := fresh("before any caller stored a name"); k != "" {
		return k, w
	}
	// the calls made alone: the callers that store nothing, through the default of goast.New() and through
	// an explicit fresh resolver ...
	wantDefault := make([]string, len(in.Srcs))
	wantFresh := make([]string, len(in.Srcs))
	for i, s := range in.Srcs {
		wantDefault[i] = once(s, goast.New(), guess.New())
		wantFresh[i] = once(s, goast.WithResolver(guess.New()), guess.New())
	}
	// ... and the callers with explicit names: the reference gets the same names through WithMap (a map of its own)
	wantNamed := make([]string, len(in.NamedSrcs))
	for i, s := range in.NamedSrcs {
		m := map[string]string{}
		for p, n := range in.Names[i] {
			m[p] = n
		}
		wantNamed[i] = once(s, goast.WithResolver(guess.WithMap(m)), guess.WithMap(m))
	}
	// one after the other
	for i, s := range in.NamedSrcs {
		mine := guess.New()
		for p, n := range in.Names[i] {
			mine[p] = n
		}
		if out := once(s, goast.WithResolver(mine), mine); out != wantNamed[i] {
			return "c16-own-resolver", fmt.Sprintf("caller %d with explicit names %v in its own guess.New(): the result differs from the same call with the names given through guess.WithMap:\n%s", i, in.Names[i], firstDiff(wantNamed[i], out))
		}
		if k, w := fresh(fmt.Sprintf("after caller %d stored %v in a resolver of its own", i, in.Names[i])); k != "" {
			return k, w
		}
		for j, s := range in.Srcs {
			if out := once(s, goast.New(), guess.New()); out != wantDefault[j] {
				return "c16-own-resolver", fmt.Sprintf("file %d through goast.New() and a fresh guess.New(), after caller %d stored %v in a resolver of its own, differs from the same call made alone:\n%s", j, i, in.Names[i], firstDiff(wantDefault[j], out))
			}
			if out := once(s, goast.WithResolver(guess.New()), guess.New()); out != wantFresh[j] {
				return "c16-own-resolver", fmt.Sprintf("file %d through a fresh guess.New(), after caller %d stored %v in a resolver of its own, differs from the same call made alone:\n%s", j, i, in.Names[i], firstDiff(wantFresh[j], out))
			}
		}
	}
	// all at the same time
	for round := 0; round < in.Rounds; round++ {
		gotDefault := make([]string, len(in.Srcs))
		gotFresh := make([]string, len(in.Srcs))
		gotNamed := make([]string, len(in.NamedSrcs))
		var wg sync.WaitGroup
		start := make(chan struct{})
		for i := range in.NamedSrcs {
			wg.Add(1)
			go func(i int) {
				defer wg.Done()
				<-start
				mine := guess.New()
				for p, n := range in.Names[i] {
					mine[p] = n
				}
				gotNamed[i] = once(in.NamedSrcs[i], goast.WithResolver(mine), mine)
			}(i)
		}
		for j := range in.Srcs {
			wg.Add(2)
			go func(j int) {
				defer wg.Done()
				<-start
				gotDefault[j] = once(in.Srcs[j], goast.New(), guess.New())
			}(j)
			go func(j int) {
				defer wg.Done()
				<-start
				gotFresh[j] = once(in.Srcs[j], goast.WithResolver(guess.New()), guess.New())
			}(j)
		}
		close(start)
		wg.Wait()
		for i := range gotNamed {
			if gotNamed[i] != wantNamed[i] {
				return "c16-own-resolver", fmt.Sprintf("round %d, caller %d with explicit names in its own resolver, all callers at the same time: the result differs from the same call made alone:\n%s", round, i, firstDiff(wantNamed[i], gotNamed[i]))
			}
		}
		for j := range in.Srcs {
			if gotDefault[j] != wantDefault[j] {
				return "c16-own-resolver", fmt.Sprintf("round %d, file %d through goast.New(), all callers at the same time: the result differs from the same call made alone:\n%s", round, j, firstDiff(wantDefault[j], gotDefault[j]))
			}
			if gotFresh[j] != wantFresh[j] {
				return "c16-own-resolver", fmt.Sprintf("round %d, file %d through a fresh guess.New(), all callers at the same time: the result differs from the same call made alone:\n%s", round, j, firstDiff(wantFresh[j], gotFresh[j]))
			}
		}
	}
	return "", ""
}

// genOwnResolvers: sources over a few import paths for callers that rely on guessed names (the last
// element of the path), and callers that know better: each of those has explicit names for some of the
// paths (the package clause there reads differently) and a source that uses those names
func genOwnResolvers(r *rand.Rand) c16Input {
	paths := []string{"root/lib", "root/other/util", "example.com/x/conf", "example.com/x/yaml", "gopkg.in/check.v1"}
	alt := [][]string{{"lb", "golib"}, {"ut", "xutil"}, {"cfg", "config"}, {"yml", "yaml2"}, {"check", "chk"}}
	last := func(p string) string { return p[strings.LastIndex(p, "/")+1:] }
	file := func(pkg string, name func(k int) string, use []int) string {
		var b strings.Builder
		fmt.Fprintf(&b, "package %s\n\nimport (\n", pkg)
		for _, k := range use {
			fmt.Fprintf(&b, "\t%q\n", paths[k])
		}
		b.WriteString(")\n\n")
		for j, k := range use {
			fmt.Fprintf(&b, "var v%d = %s.F%d(%s.K)\n\n", j, name(k), j, name(k))
		}
		b.WriteString("func local() {}\n")
		return b.String()
	}
	pick := func() []int {
		var use []int
		for _, k := range r.Perm(4)[:1+r.Intn(3)] { // the first four paths: their last element is an identifier
			use = append(use, k)
		}
		sort.Ints(use)
		return use
	}
	in := c16Input{Mode: "own-resolvers", Rounds: 3}
	for i := 0; i < 2+r.Intn(3); i++ {
		in.Srcs = append(in.Srcs, file(fmt.Sprintf("p%d", i), func(k int) string { return last(paths[k]) }, pick()))
	}
	for i := 0; i < 2+r.Intn(3); i++ {
		names := map[string]string{}
		use := pick()
		if r.Intn(2) == 0 {
			use = append(use, 4) // the last element of this path is no identifier: only a caller with an explicit name can use it
		}
		for _, k := range use {
			if k == 4 || r.Intn(3) > 0 {
				names[paths[k]] = alt[k][r.Intn(2)]
			}
		}
		if len(names) == 0 {
			names[paths[use[0]]] = alt[use[0]][0]
		}
		in.Names = append(in.Names, names)
		in.NamedSrcs = append(in.NamedSrcs, file(fmt.Sprintf("q%d", i), func(k int) string {
			if n, ok := names[paths[k]]; ok {
				return n
			}
			return last(paths[k])
		}, use))
	}
	return in
}

// genSharedViews: 3-5 small gofmt-canonical files over three import paths; every file picks, per
// path, the plain import, one of two aliases, a blank import or nothing, and uses what it imports
func genSharedViews(r *rand.Rand) []string {
	paths := []string{"root/lib", "root/other/util", "example.com/x/conf"}
	names := []string{"lib", "util", "conf"}
	var srcs []string
	n := 3 + r.Intn(3)
	for i := 0; i < n; i++ {
		type imp struct{ spec, qual string }
		var imps []imp
		for k, p := range paths {
			switch r.Intn(6) {
			case 0, 1:
				imps = append(imps, imp{fmt.Sprintf("\t%q\n", p), names[k]})
			case 2:
				imps = append(imps, imp{fmt.Sprintf("\tx%d %q\n", k, p), fmt.Sprintf("x%d", k)})
			case 3:
				// the alias is the default name of ANOTHER path
				o := names[(k+1)%len(names)]
				imps = append(imps, imp{fmt.Sprintf("\t%s %q\n", o, p), o})
			case 4:
				imps = append(imps, imp{fmt.Sprintf("\t_ %q\n", p), ""})
			}
		}
		// distinct qualifiers within one file
		seen := map[string]bool{}
		var keep []imp
		for _, im := range imps {
			if im.qual != "" && seen[im.qual] {
				continue
			}
			seen[im.qual] = true
			keep = append(keep, im)
		}
		var b strings.Builder
		fmt.Fprintf(&b, "package p%d\n\n", i)
		if len(keep) > 0 {
			b.WriteString("import (\n")
			for _, im := range keep {
				b.WriteString(im.spec)
			}
			b.WriteString(")\n\n")
		}
		for j, im := range keep {
			if im.qual != "" {
				fmt.Fprintf(&b, "var v%d = %s.F%d(%s.K)\n\n", j, im.qual, j, im.qual)
			}
		}
		b.WriteString("func local() {}\n")
		srcs = append(srcs, b.String())
	}
	return srcs
}

func c16Prop(c *Ctx) {
	c.Res.Rule = "nil-fileset: 3-6 restorers whose Fset is nil when RestoreFile runs (Restorer literal, Fset set back to nil, one restorer used again), used one after the other and with some of them stopped inside their package-name resolver while the others restore a file completely: bytes, positions, base and line table of the file, and the number of files in the restorer's own FileSet equal those of the same call made alone with a new FileSet; own-resolvers: callers that store explicit names in their own guess.New() next to callers that rely on fresh guess.New() / the default of goast.New(), one after the other and all at once, each result compared with the same call made alone; concurrent: groups of 8 distinct sources with imports (hand corpus + $GOROOT/src sample) decorated and restored by 8 goroutines sharing one zero-value goast resolver and one guess resolver, several rounds, compared with sequential results, under the race detector; repeat: collision-heavy import configurations restored 25 times each; non-trivial = distinct input"
	var pool []string
	pool = append(pool, c08Sources...)
	files := gorootFiles(12000)
	for i := 0; i < c.N(40) && len(files) > 0; i++ {
		b, err := os.ReadFile(files[c.Rng.Intn(len(files))])
		if err == nil && strings.Contains(string(b), "import") {
			pool = append(pool, string(b))
		}
	}
	for g := 0; g < c.N(6); g++ {
		in := c16Input{Mode: "concurrent", Rounds: 4}
		for j := 0; j < 8; j++ {
			in.Srcs = append(in.Srcs, pool[c.Rng.Intn(len(pool))])
		}
		c.Res.Evaluations++
		c.Res.seen(fmt.Sprint("conc", g, len(in.Srcs[0]), len(in.Srcs[1])))
		c.Res.hist("c16", "concurrent")
		if key, what := c16Check(in); key != "" {
			c.Res.fail(key, what, in)
		}
	}
	// the build-context resolver (gobuild) with the default context works on the process-wide
	// build.Default: a restore must leave it as it found it
	{
		in := c16Input{Mode: "gobuild-default-context", Srcs: []string{"package a\n\nimport \"root/lib\"\n\nvar v = lib.F()\n"}}
		c.Res.Evaluations++
		c.Res.hist("c16", "gobuild-default-context")
		if key, what := c16Check(in); key != "" {
			c.Res.fail(key, what, in)
		}
	}
	for g := 0; g < c.N(12); g++ {
		in := c16Input{Mode: "shared-views", Rounds: 2, Srcs: genSharedViews(c.Rng)}
		c.Res.Evaluations++
		c.Res.seen(strings.Join(in.Srcs, "|"))
		c.Res.hist("c16", "shared-views")
		if key, what := c16Check(in); key != "" {
			c.Res.fail(key, what, in)
		}
	}
	// restorers without a FileSet: several used one after the other (the first source once more at the end),
	// and some of them stopped in the middle of RestoreFile while the others run
	{
		nfPool := append(append([]string{}, c08Sources...), c20Pool...)
		nfPool = append(nfPool, genSharedViews(c.Rng)...)
		ctors := []string{"literal", "reset", "reuse"}
		for g := 0; g < c.N(16); g++ {
			in := c16Input{Mode: "nil-fileset"}
			n := 2 + c.Rng.Intn(4)
			for j := 0; j < n; j++ {
				in.Srcs = append(in.Srcs, nfPool[c.Rng.Intn(len(nfPool))])
				in.Ctors = append(in.Ctors, ctors[c.Rng.Intn(len(ctors))])
			}
			bucket := "nil-fileset, one after the other"
			if g%2 == 1 {
				in.Parked = 1 + c.Rng.Intn(n-1)
				in.ResumeInOrder = c.Rng.Intn(2) == 0
				bucket = "nil-fileset, some stopped inside RestoreFile"
			}
			in.Srcs = append(in.Srcs, in.Srcs[0])
			in.Ctors = append(in.Ctors, "literal")
			c.Res.Evaluations++
			c.Res.seen(fmt.Sprint("nil-fileset", in.Parked, in.ResumeInOrder, in.Ctors) + strings.Join(in.Srcs, "|"))
			c.Res.hist("c16", bucket)
			if key, what := c16Check(in); key != "" {
				c.Res.fail(key, what, in)
			}
		}
	}
	for k, n := range c16Stats {
		for ; n > 0; n-- {
			c.Res.hist("c16-nil-fileset", k)
		}
	}
	{
		in := c16Input{Mode: "repeat-extras", Rounds: 40, Srcs: []string{"package a\n\nfunc F(xs []int) {\n\tfor a := range xs {\n\t\t_ = a\n\t}\n\tfor b := range xs {\n\t\t_ = b\n\t}\n\tfor c := range xs {\n\t\t_ = c\n\t}\n\tfor d, e := range xs {\n\t\t_, _ = d, e\n\t}\n}\n"}}
		c.Res.Evaluations++
		c.Res.hist("c16", "repeat-extras")
		if key, what := c16Check(in); key != "" {
			c.Res.fail(key, what, in)
		}
	}
	// two required imports that ask for one name (an alias in the source, the same alias through the
	// Alias map; two Alias-map entries; an alias equal to another package's resolved name): who keeps
	// the name must not follow map iteration order
	for _, cfg := range []icConfig{
		{Local: "example.com/local", Blocks: [][]icSpec{{{Path: "root/a", Alias: "x"}}}, Paren: []bool{false}, Used: []string{"root/a", "root/b"},
			Alias: map[string]string{"root/b": "x"}, Resolver: map[string]string{"root/a": "a", "root/b": "b"}},
		{Local: "example.com/local", Used: []string{"root/a", "root/b", "root/c"},
			Alias: map[string]string{"root/a": "x", "root/b": "x", "root/c": "x"}, Resolver: map[string]string{"root/a": "a", "root/b": "b", "root/c": "c"}},
		// a package and its sub-package under one name: the order of required paths must be total
		{Local: "example.com/local", Used: []string{"ex.com/foo/v2", "ex.com/foo", "ex.com/foo/v2/sub"},
			Alias: map[string]string{}, Resolver: map[string]string{"ex.com/foo": "foo", "ex.com/foo/v2": "foo", "ex.com/foo/v2/sub": "foo"}},
		{Local: "example.com/local", Blocks: [][]icSpec{{{Path: "root/q", Alias: "b"}, {Path: "root/r", Alias: "b1"}}}, Paren: []bool{true}, Used: []string{"root/q", "root/b", "root/r"},
			Alias: map[string]string{}, Resolver: map[string]string{"root/q": "q", "root/b": "b", "root/r": "r"}},
	} {
		in := c16Input{Mode: "repeat", Config: cfg, Rounds: 80}
		c.Res.Evaluations++
		b, _ := json.Marshal(cfg)
		c.Res.seen(string(b))
		c.Res.hist("c16", "repeat (colliding aliases)")
		if key, what := c16Check(in); key != "" {
			c.Res.fail(key, what, in)
		}
	}
	// resolvers of one's own: names stored in one caller's guess.New() stay there (last: a library that
	// fails this keeps what was stored for the rest of the process)
	defer func() {
		for g := 0; g < c.N(10); g++ {
			in := genOwnResolvers(c.Rng)
			c.Res.Evaluations++
			c.Res.seen(strings.Join(in.Srcs, "|") + strings.Join(in.NamedSrcs, "|"))
			c.Res.hist("c16", "own-resolvers")
			if key, what := c16Check(in); key != "" {
				c.Res.fail(key, what, in)
			}
		}
	}()
	for i := 0; i < c.N(120); i++ {
		cfg := genImportConfig(c.Rng, i%3 == 0, false)
		if i%3 == 0 {
			// several unresolvable packages: the error must name the same one every time
			for k, p := range cfg.Used {
				if k%2 == 0 {
					delete(cfg.Resolver, p)
				}
			}
		}
		in := c16Input{Mode: "repeat", Config: cfg, Rounds: 25}
		c.Res.Evaluations++
		b, _ := json.Marshal(cfg)
		c.Res.seen(string(b))
		c.Res.hist("c16", "repeat")
		if key, what := c16Check(in); key != "" {
			c.Res.fail(key, what, in)
		}
		if len(c.Res.Samples) < 2 && len(cfg.Used) > 3 {
			c.Res.Samples = append(c.Res.Samples, in)
		}
	}
}

func init() {
	props["C16"] = c16Prop
	replays["C16"] = func(c *Ctx, raw json.RawMessage) (bool, string) {
		var in c16Input
		if err := json.Unmarshal(raw, &in); err != nil || in.Mode == "" {
			return false, "not a C16 generated input"
		}
		key, what := c16Check(in)
		return key != "", what
	}
}
