package main

import (
	"fmt"
	"os"
	"strings"

	"github.com/dave/dst"
	"github.com/dave/dst/decorator"
)

// Correspondence for C13: the generic walk interpreter on the translated walk table
// (Gen/WalkTbl.v) against the real dst.Walk, on dumped trees, with pruning.

type c13Visitor struct {
	d     *treeDumper
	prune map[int]bool
	log   *[]string
}

func (v c13Visitor) Visit(n dst.Node) dst.Visitor {
	if n == nil {
		*v.log = append(*v.log, "ENil")
		return nil
	}
	id := v.d.ids[n]
	*v.log = append(*v.log, fmt.Sprintf("EVisit %d", id))
	if v.prune[id] {
		return nil
	}
	return v
}

func corrSources(c *Ctx, nGoroot int, maxBytes int64) []string {
	srcs := append([]string{}, sinkSources...)
	files := gorootFiles(maxBytes)
	for i := 0; i < nGoroot && len(files) > 0; i++ {
		p := files[c.Rng.Intn(len(files))]
		b, err := os.ReadFile(p)
		if err == nil {
			srcs = append(srcs, string(b))
		}
	}
	return srcs
}

func c13Corr(c *Ctx) {
	var cases []string
	for _, src := range corrSources(c, c.N(12), 3000) {
		f, err := decorator.Parse(src)
		if err != nil {
			continue
		}
		d := newTreeDumper()
		term := d.Dump(f)
		n := len(d.nodes)
		var runs []string
		for r := 0; r < 3; r++ {
			prune := map[int]bool{}
			var pl []string
			if r > 0 {
				for k := 0; k < 1+n/8; k++ {
					id := 1 + c.Rng.Intn(n)
					if !prune[id] {
						prune[id] = true
						pl = append(pl, fmt.Sprint(id))
					}
				}
			}
			var log []string
			dst.Walk(c13Visitor{d, prune, &log}, f)
			runs = append(runs, fmt.Sprintf("([%s]%%N, [%s])", strings.Join(pl, "; "), strings.Join(log, "; ")))
		}
		cases = append(cases, fmt.Sprintf("(%s,\n [%s])", term, strings.Join(runs, ";\n  ")))
		c.Res.CaseInputs = appendCase(c.Res.CaseInputs, "mismatch_C13_walk", src)
		c.Res.Traces += 3
	}
	c.caseSB.WriteString(coqCaseHeader + "From DV Require Import Model.WalkCases Gen.Universe Gen.WalkTbl.\n")
	c.caseSB.WriteString("Definition cases : list walk_case := [\n" + strings.Join(cases, ";\n") + "].\n")
	c.caseSB.WriteString("Definition mismatch_C13_walk := Eval vm_compute in bad_walk_cases universe walk_tbl cases.\nPrint mismatch_C13_walk.\n")
}

func init() { corrs["C13"] = c13Corr }
