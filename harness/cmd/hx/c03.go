package main

import (
	"bytes"
	"encoding/json"
	"fmt"
	"go/ast"
	"go/format"
	"go/parser"
	"go/scanner"
	"go/token"
	"math/rand"
	"os"
	"path/filepath"
	"regexp"
	"sort"
	"strings"

	"github.com/dave/dst"
	"github.com/dave/dst/decorator"
	"github.com/dave/dst/decorator/resolver/guess"
)

// C03 on the implementation: any parseable source, whatever its formatting: decorate + print
// parses, has gofmt(input)'s token sequence, and exactly the input's comment texts in order.

type c03Input struct {
	Src     string `json:"src"`
	Variant string `json:"variant"`
	Managed bool   `json:"managed,omitempty"` // decorate with the goast identifier resolver, print with import management (accurate package names)
	Dir     bool   `json:"dir,omitempty"`     // the file is parsed as one of two files of a directory (ParseDir); the partner holds raw strings and a block comment over many lines
	// Entry: the print entry point ("" = decorator.Fprint, or Restorer.Fprint when Managed / Dir); see c03Entries.
	// With Managed the restorer is NewRestorerWithImports and the decorator resolves identifiers.
	Entry string `json:"entry,omitempty"`
	// Before, After (Entry FileRestorer-reused): the sources restored with the same FileRestorer before / after
	// Src; all files are printed only after the last one has been restored
	Before []string `json:"before,omitempty"`
	After  []string `json:"after,omitempty"`
}

// the library's ways of printing a decorated file besides decorator.Fprint: every one of them is
// "restore the file, hand it to go/format", so the property holds for each of them alike
var c03Entries = []string{
	"Restorer.Fprint",     // an explicit Restorer
	"FileRestorer.Fprint", // Restorer.FileRestorer() (the way to set Name / Alias), printed by its own Fprint
	// ONE FileRestorer restores several files into its FileSet with RestoreFile; the caller prints the
	// ast.Files afterwards with format.Node (what Fprint does, file by file)
	"FileRestorer-reused",
}

var c03Scratch string

var selGapRe = regexp.MustCompile(`\b([a-z][A-Za-z0-9]*)\.([A-Z][A-Za-z0-9]*)`)

// selGaps: comments and line breaks in the gaps of qualified identifiers (before, after the
// period -- same line, end of line, own line --, after the name)
func selGaps(r *rand.Rand, src string) string {
	var out []string
	n := 0
	for _, l := range strings.Split(src, "\n") {
		if !strings.ContainsAny(l, "\"`'") && !strings.Contains(l, "//") && !strings.Contains(l, "/*") && !strings.HasPrefix(strings.TrimSpace(l), "import") && r.Intn(3) == 0 {
			l = selGapRe.ReplaceAllStringFunc(l, func(m string) string {
				sm := selGapRe.FindStringSubmatch(m)
				n++
				switch r.Intn(6) {
				case 0:
					return fmt.Sprintf("%s. /*g%d*/ %s", sm[1], n, sm[2])
				case 1:
					return fmt.Sprintf("%s. // g%d\n\t\t%s", sm[1], n, sm[2])
				case 2:
					return fmt.Sprintf("%s.\n\t\t// g%d\n\t\t%s", sm[1], n, sm[2])
				case 3:
					return fmt.Sprintf("/*g%d*/ %s.%s /*h%d*/", n, sm[1], sm[2], n)
				case 4:
					return fmt.Sprintf("%s /*g%d*/ .%s", sm[1], n, sm[2])
				}
				return fmt.Sprintf("%s. // g%d\n\n\t\t%s", sm[1], n, sm[2])
			})
		}
		out = append(out, l)
	}
	return strings.Join(out, "\n")
}

func c03Variant(c *Ctx, src, variant string) string {
	switch variant {
	case "crlf":
		return strings.ReplaceAll(src, "\n", "\r\n")
	case "bom":
		return "\xef\xbb\xbf" + src
	case "spaces":
		return strings.ReplaceAll(src, "\t", "    ")
	case "mangled":
		return mangle(c.Rng, src)
	case "selgaps":
		return selGaps(c.Rng, src)
	case "blank3":
		return strings.ReplaceAll(src, "\n\n", "\n\n\n")
	case "upnum":
		return upperNumbers(src)
	case "revimports":
		return reverseImportRuns(src)
	case "dense":
		// a block comment after every line that has no line comment, string or directive
		var out []string
		for i, l := range strings.Split(src, "\n") {
			if strings.TrimSpace(l) != "" && !strings.Contains(l, "//") && !strings.Contains(l, "`") && !strings.Contains(l, "/*") && !strings.Contains(l, "*/") && !strings.Contains(l, "\"") {
				l += fmt.Sprintf(" /*d%d*/", i)
			}
			out = append(out, l)
		}
		return strings.Join(out, "\n")
	}
	return src
}

// upperNumbers: every number literal with its prefix and exponent letters in upper case (0X1F,
// 0B1, 0O7, 1E3, 0X1P-2): accepted by the parser, put in lower case by gofmt
func upperNumbers(src string) string {
	fset := token.NewFileSet()
	file := fset.AddFile("", -1, len(src))
	var sc scanner.Scanner
	bad := false
	sc.Init(file, []byte(src), func(token.Position, string) { bad = true }, scanner.ScanComments)
	var sb strings.Builder
	last := 0
	for {
		pos, tok, lit := sc.Scan()
		if tok == token.EOF {
			break
		}
		if tok != token.INT && tok != token.FLOAT && tok != token.IMAG {
			continue
		}
		up := lit
		switch {
		case strings.HasPrefix(lit, "0x"):
			up = "0X" + strings.ReplaceAll(lit[2:], "p", "P")
		case strings.HasPrefix(lit, "0b"):
			up = "0B" + lit[2:]
		case strings.HasPrefix(lit, "0o"):
			up = "0O" + lit[2:]
		case !strings.HasPrefix(lit, "0X"):
			up = strings.ReplaceAll(lit, "e", "E")
		}
		off := file.Offset(pos)
		sb.WriteString(src[last:off])
		sb.WriteString(up)
		last = off + len(lit)
	}
	if bad {
		return src
	}
	sb.WriteString(src[last:])
	return sb.String()
}

var importSpecLine = regexp.MustCompile(`^\s*(?:[A-Za-z_.][A-Za-z0-9_]*\s+)?"[^"]*"\s*(?://.*)?$`)

// reverseImportRuns: inside parenthesised import declarations every run of consecutive one-line
// specs (each with its line comment) in reverse order: unsorted unless the run has one spec
func reverseImportRuns(src string) string {
	lines := strings.Split(src, "\n")
	in := false
	for i := 0; i < len(lines); i++ {
		t := strings.TrimSpace(strings.TrimSuffix(lines[i], "\r"))
		if !in {
			in = t == "import ("
			continue
		}
		if t == ")" {
			in = false
			continue
		}
		j := i
		for j < len(lines) && importSpecLine.MatchString(strings.TrimSuffix(lines[j], "\r")) {
			j++
		}
		for a, b := i, j-1; a < b; a, b = a+1, b-1 {
			lines[a], lines[b] = lines[b], lines[a]
		}
		if j > i {
			i = j - 1
		}
	}
	return strings.Join(lines, "\n")
}

func normComment(s string) string {
	s = strings.ReplaceAll(s, "\r", "")
	return strings.Join(strings.Fields(s), " ")
}

// c03Check: a failure on a CRLF input that disappears when the same text uses LF line endings is
// attributed to the recorded CRLF defect (blank lines \r\n\r\n are not recognised), whatever
// its downstream symptom (merged import groups re-sorted, comments joined to a doc comment and
// reformatted by go/printer, a trailing comma lost with the line break).
// a line that holds white space only (the decorator recognises an empty line by the line break
// directly after a line break, so such a line is two line breaks to it, not a blank line: the recorded
// finding whitespace-only-blank-line-lost; a repair is pinned out by the baseline's
// ExampleDecorationPoints, whose expected output documents exactly this reading)
var wsOnlyLine = regexp.MustCompile(`(?m)^[ \t]+(\r?)$`)

func c03Check(in c03Input) (key, what string) {
	key, what = c03CheckLineEndings(in)
	if key == "" || !wsOnlyLine.MatchString(in.Src) {
		return
	}
	// the same text with those lines emptied must pass (or fail only through a recorded CRLF finding)
	cleaned := in
	cleaned.Src = wsOnlyLine.ReplaceAllString(in.Src, "$1")
	if k2, _ := c03CheckLineEndings(cleaned); k2 == "" || strings.HasPrefix(k2, "crlf-") {
		return "whitespace-only-blank-line-lost", "only with white space on blank lines (the same text with those lines emptied passes): " + what
	}
	return
}

func c03CheckLineEndings(in c03Input) (key, what string) {
	key, what = c03CheckRaw(in)
	if key == "" || !strings.Contains(in.Src, "\r\n") || strings.HasPrefix(key, "crlf-") {
		return
	}
	lf := in
	lf.Src = strings.ReplaceAll(in.Src, "\r\n", "\n")
	if k2, _ := c03CheckRaw(lf); k2 == "" {
		// the recorded defect is about BLANK lines (the decorator peeks one byte ahead and does not see
		// "\r\n\r\n"): with the empty lines -- and only those -- ended by a bare "\n" it must pass
		mixed := in
		mixed.Src = crlfEmptyLine.ReplaceAllString(in.Src, "\n")
		if k3, w3 := c03CheckRaw(mixed); k3 != "" {
			return "c03-crlf", "CRLF only, and not through blank lines (fails with LF-terminated empty lines too): " + w3
		}
		return "crlf-blank-lines-lost", "CRLF only (the LF version of the same text passes): " + what
	}
	return
}

var crlfEmptyLine = regexp.MustCompile(`(?m)^\r\n`)

// sameImports: the two sources import the same (name, path) pairs (as multisets: go/format sorts
// the specs of a parenthesised import declaration, and the order of the output's import paths is
// judged with the other tokens against gofmt(input))
func sameImports(a, b string) bool {
	imps := func(src string) string {
		f, err := parser.ParseFile(token.NewFileSet(), "", src, parser.ImportsOnly)
		if err != nil {
			return "?"
		}
		var specs []string
		for _, is := range f.Imports {
			n := ""
			if is.Name != nil {
				n = is.Name.Name
			}
			specs = append(specs, n+" "+is.Path.Value)
		}
		sort.Strings(specs)
		return strings.Join(specs, ";")
	}
	return imps(a) == imps(b)
}

// c03Decorate: the decorator of the pair (plain, or resolving identifiers with the goast resolver)
func c03Decorate(src string, managed bool) (f *dst.File, err error, pm string) {
	pm = safely(func() {
		if managed {
			f, err = decorator.NewDecoratorWithImports(token.NewFileSet(), "example.com/self", goastNew()).Parse(src)
		} else {
			f, err = decorator.NewDecorator(token.NewFileSet()).Parse(src)
		}
	})
	return
}

// c03PrintEntry prints in.Src through the entry point in.Entry.  skip: the input is outside the
// entry's scope (the goast resolver refuses the file, the import manager changed the imports).
func c03PrintEntry(in c03Input) (out string, perr error, pm string, key, what string, skip bool) {
	f, derr, dpm := c03Decorate(in.Src, in.Managed)
	if dpm != "" {
		return "", nil, "", "c03-panic", "decorating panicked: " + dpm, false
	}
	if derr != nil {
		if in.Managed {
			return "", nil, "", "", "", true
		}
		return "", nil, "", "c03-error", "Parse failed on a parseable file: " + derr.Error(), false
	}
	var res *decorator.Restorer
	if in.Managed {
		names := accurateNames(in.Src)
		for _, o := range append(append([]string{}, in.Before...), in.After...) {
			for p, n := range accurateNames(o) {
				names[p] = n
			}
		}
		res = decorator.NewRestorerWithImports("example.com/self", guess.WithMap(names))
	} else {
		res = decorator.NewRestorer()
	}
	var buf bytes.Buffer
	switch in.Entry {
	case "Restorer.Fprint":
		pm = safely(func() { perr = res.Fprint(&buf, f) })
	case "FileRestorer.Fprint":
		pm = safely(func() {
			fr := res.FileRestorer()
			fr.Name = "subject.go"
			perr = fr.Fprint(&buf, f)
		})
	case "FileRestorer-reused":
		fr := res.FileRestorer()
		// the neighbours: restored with the same FileRestorer; one that the decorator or the restorer
		// refuses is left out (it is the subject of an evaluation of its own)
		neighbours := func(srcs []string, tag string) {
			for i, o := range srcs {
				nf, nerr, npm := c03Decorate(o, in.Managed)
				if nerr != nil || npm != "" {
					continue
				}
				fr.Name = fmt.Sprintf("%s%d.go", tag, i)
				safely(func() { fr.RestoreFile(nf) })
			}
		}
		neighbours(in.Before, "before")
		var af *ast.File
		pm = safely(func() {
			fr.Name = "subject.go"
			af, perr = fr.RestoreFile(f)
		})
		if pm != "" || perr != nil {
			break
		}
		neighbours(in.After, "after")
		// ... and only now printed, with the FileSet all the files were restored into
		pm = safely(func() { perr = format.Node(&buf, fr.Fset, af) })
	default:
		return "", nil, "", "", "", true
	}
	out = buf.String()
	if in.Managed && pm == "" && perr == nil && !sameImports(in.Src, out) {
		return "", nil, "", "", "", true // the import manager changed the import declarations: C07's business
	}
	return
}

// the reference side is a function of the text alone: remembered for the last few texts, since one
// text is printed through several entry points in a row
type c03RefT struct {
	parses bool
	want   []byte
	err    error
}

var c03Refs = map[string]*c03RefT{}

func c03Ref(src string) *c03RefT {
	if r, ok := c03Refs[src]; ok {
		return r
	}
	if len(c03Refs) >= 8 {
		c03Refs = map[string]*c03RefT{}
	}
	r := &c03RefT{}
	if _, err := parser.ParseFile(token.NewFileSet(), "", src, parser.ParseComments); err == nil {
		r.parses = true
		r.want, r.err = format.Source([]byte(src))
	}
	c03Refs[src] = r
	return r
}

func c03CheckRaw(in c03Input) (key, what string) {
	ref := c03Ref(in.Src)
	if !ref.parses || ref.err != nil {
		return "", ""
	}
	want, err := ref.want, ref.err
	var f *dst.File
	var out string
	var perr error
	var pm string
	if in.Entry != "" {
		var skip bool
		out, perr, pm, key, what, skip = c03PrintEntry(in)
		if skip || key != "" {
			return key, what
		}
	} else if in.Managed {
		// import management on: qualified identifiers collapse and expand again; only files whose imports
		// the restorer leaves alone (every import used, no path twice, nothing goast refuses)
		dec := decorator.NewDecoratorWithImports(token.NewFileSet(), "example.com/self", goastNew())
		var derr error
		if pmd := safely(func() { f, derr = dec.Parse(in.Src) }); pmd != "" {
			return "c03-panic", "decorating with the goast resolver panicked: " + pmd
		}
		if derr != nil {
			return "", ""
		}
		var buf bytes.Buffer
		pm = safely(func() {
			perr = decorator.NewRestorerWithImports("example.com/self", guess.WithMap(accurateNames(in.Src))).Fprint(&buf, f)
		})
		out = buf.String()
		if pm == "" && perr == nil && !sameImports(in.Src, out) {
			return "", "" // the import manager changed the import declarations (an unused or twice-imported path): C07's business
		}
	} else if in.Dir {
		name := c01PackageName(in.Src)
		if name == "" || c03Scratch == "" {
			return "", ""
		}
		// the partner: multi-line raw strings and a block comment over the first ninety lines, and line
		// structure of its own below (whichever file is decorated first, the other has something to lose)
		var pb strings.Builder
		pb.WriteString("package " + name + "\n\nvar partnerRaw = `")
		for i := 0; i < 60; i++ {
			pb.WriteString("r\n")
		}
		pb.WriteString("`\n\n/*\n")
		for i := 0; i < 30; i++ {
			pb.WriteString("   c\n")
		}
		pb.WriteString("*/\n")
		dir, e := os.MkdirTemp(c03Scratch, "c03d-")
		if e != nil {
			return "", ""
		}
		defer os.RemoveAll(dir)
		os.WriteFile(filepath.Join(dir, "x.go"), []byte(in.Src), 0644)
		os.WriteFile(filepath.Join(dir, "y.go"), []byte(pb.String()), 0644)
		found := false
		pm = safely(func() {
			dec := decorator.NewDecorator(token.NewFileSet())
			pkgs, e := dec.ParseDir(dir, nil, parser.ParseComments)
			if e != nil {
				perr = e
				return
			}
			for _, p := range pkgs {
				for fn, df := range p.Files {
					if filepath.Base(fn) == "x.go" {
						var buf bytes.Buffer
						perr = decorator.NewRestorer().Fprint(&buf, df)
						out = buf.String()
						found = true
					}
				}
			}
		})
		if pm == "" && perr == nil && !found {
			return "", ""
		}
	} else {
		f, err = decorator.Parse(in.Src)
		if err != nil {
			return "c03-error", "Parse failed on a parseable file: " + err.Error()
		}
		out, perr, pm = printDst(f)
	}
	if pm != "" {
		return "c03-panic", "printing panicked: " + pm
	}
	if perr != nil {
		return "c03-error", "printing failed: " + perr.Error()
	}
	if _, err := parser.ParseFile(token.NewFileSet(), "", out, parser.ParseComments); err != nil {
		return "c03-unparseable", "the output does not parse: " + err.Error()
	}
	wt, _, _ := scanAllOpt(string(want), true)
	ot, ocs, _ := scanAllOpt(out, true)
	_, ics, _ := scanAll(in.Src)
	if tokString(wt) != tokString(ot) && importOrderOnly(wt, ot) {
		// go/format has two paths: format.Source sorts the imports of the parsed file in place;
		// format.Node (what dst's Fprint calls, on an AST with synthetic positions) first prints and
		// re-parses when imports are unsorted, and that first print may move a comment inside an
		// import spec and add a blank line, which splits the sorting run.  The same pristine AST
		// through format.Node is the reference for the order of import specs.
		fs2 := token.NewFileSet()
		if af2, err := parser.ParseFile(fs2, "", in.Src, parser.ParseComments); err == nil {
			var nb bytes.Buffer
			if err := format.Node(&nb, fs2, af2); err == nil {
				if nt, _, _ := scanAllOpt(nb.String(), true); tokString(nt) == tokString(ot) {
					wt = nt
					want = nb.Bytes()
				}
			}
		}
	}
	if tokString(wt) != tokString(ot) {
		k := "c03-tokens"
		if importOrderOnly(wt, ot) && strings.Contains(in.Src, "\r\n") {
			k = "crlf-import-groups-merged"
		}
		return k, "token sequence differs from gofmt(input):\n" + tokDiff(wt, ot)
	}
	// texts: exactly the input's (as multisets); order: gofmt's, on the comments gofmt left intact
	var a, b, g []string
	for _, cm := range ics {
		a = append(a, normComment(cm.Lit))
	}
	for _, cm := range ocs {
		b = append(b, normComment(cm.Lit))
	}
	_, gcs, _ := scanAll(string(want))
	for _, cm := range gcs {
		g = append(g, normComment(cm.Lit))
	}
	// gofmt is not idempotent on comments: a comment that does not start in column 1 is left alone
	// by the first pass and reformatted as a doc comment by the second.  dst's print is such a second
	// pass (every comment is restored at its canonical column), so texts are judged against both.
	cntFmt2 := map[string]int{}
	if r2 := c03Ref(string(want)); r2.parses && r2.err == nil {
		_, gcs2, _ := scanAll(string(r2.want))
		for _, cm := range gcs2 {
			cntFmt2[normComment(cm.Lit)]++
		}
	}
	// nothing invented or rewritten: every output comment is an input comment (with multiplicity);
	// nothing dropped: every input comment that gofmt itself keeps verbatim is in the output
	// (gofmt rewrites doc comments that start in column 1 -- e.g. it deletes an empty "//" doc
	// line -- so those are not demanded)
	cntIn, cntOut, cntFmt := map[string]int{}, map[string]int{}, map[string]int{}
	for _, x := range a {
		cntIn[x]++
	}
	for _, x := range b {
		cntOut[x]++
	}
	for _, x := range g {
		cntFmt[x]++
	}
	// (go/printer reformats doc comments -- paragraph separators "//", a space after "//" -- in
	// gofmt(input) and in dst's print alike: a text that is not the input's must be gofmt's)
	for x, n := range cntOut {
		if n > cntIn[x] && n > cntFmt[x] && n > cntFmt2[x] {
			return "c03-comments", fmt.Sprintf("the output has comment %q %d times, the input %d times, gofmt(input) %d times, gofmt(gofmt(input)) %d times", x, n, cntIn[x], cntFmt[x], cntFmt2[x])
		}
	}
	for x, n := range cntIn {
		keep := n
		if cntFmt[x] < keep {
			keep = cntFmt[x]
		}
		if cntFmt2[x] < keep {
			keep = cntFmt2[x]
		}
		if cntOut[x] < keep {
			return "c03-comments", fmt.Sprintf("comment %q: input %d times, gofmt keeps %d, the output has %d", x, n, cntFmt[x], cntOut[x])
		}
	}
	// order: gofmt itself reorders comments (a //go:build line is moved to its place, a //go:
	// directive in the middle of a doc comment to its end) and go/printer does the first of these
	// to dst's print as well, so the property's two clauses -- "in the order gofmt emits them" and
	// "nothing reordered" -- can name different orders for different pairs of comments of one
	// file.  Checked per pair of comments whose text is unique: their order in the output must be
	// their order in gofmt(input) or their order in the input.
	idx := func(xs []string) map[string]int {
		m, dup := map[string]int{}, map[string]bool{}
		for i, x := range xs {
			if _, ok := m[x]; ok {
				dup[x] = true
			}
			m[x] = i
		}
		for x := range dup {
			delete(m, x)
		}
		return m
	}
	ia, ig, ib := idx(a), idx(g), idx(b)
	var uniq []string
	for _, x := range b {
		if _, ok := ib[x]; ok {
			if _, ok := ia[x]; ok {
				if _, ok := ig[x]; ok {
					uniq = append(uniq, x)
				}
			}
		}
	}
	for i := 0; i < len(uniq); i++ {
		for j := i + 1; j < len(uniq); j++ {
			x, y := uniq[i], uniq[j]
			if ia[x] > ia[y] && ig[x] > ig[y] {
				k := "c03-comment-order"
				if strings.Contains(in.Src, "\r\n") {
					k = "crlf-blank-lines-lost"
				}
				return k, fmt.Sprintf("comment %q comes out before %q, but after it in the input and in gofmt(input)", x, y)
			}
		}
	}
	// tokens and comments as one sequence: no comment moves across a token (only when gofmt keeps
	// every comment verbatim, so that the two sequences are comparable element by element)
	// (... and the output's comments are the input's too: go/printer may still reformat a doc comment
	// in dst's print that gofmt's first pass left alone, see above)
	if strings.Join(g, "\x00") == strings.Join(a, "\x00") && strings.Join(b, "\x00") == strings.Join(a, "\x00") {
		ws, os_ := scanSeq(string(want)), scanSeq(out)
		// (go/printer itself relocates comments that sit next to tokens it prints without a position --
		// "[ // c" + "]T" in a parameter moves into the result type --: the interleaving is demanded only
		// where gofmt kept the input's)
		if strings.Join(ws, "\x00") != strings.Join(scanSeq(in.Src), "\x00") {
			return "", ""
		}
		if strings.Join(ws, "\x00") != strings.Join(os_, "\x00") {
			return "c03-comment-moved", "a comment sits between different tokens than in gofmt(input): " + firstListDiff(ws, os_)
		}
	}
	return "", ""
}

func tokDiff(a, b []tokItem) string {
	for i := 0; i < len(a) && i < len(b); i++ {
		if a[i].Tok != b[i].Tok || a[i].Lit != b[i].Lit {
			return fmt.Sprintf("token %d: gofmt %v %q (line %d), dst %v %q (line %d)", i, a[i].Tok, a[i].Lit, a[i].Line, b[i].Tok, b[i].Lit, b[i].Line)
		}
	}
	return fmt.Sprintf("lengths %d / %d", len(a), len(b))
}

func firstListDiff(a, b []string) string {
	for i := 0; i < len(a) && i < len(b); i++ {
		if a[i] != b[i] {
			return fmt.Sprintf("#%d %q vs %q", i, a[i], b[i])
		}
	}
	return "one is a prefix of the other"
}

// the two streams have the same length and differ only inside import declarations, among import
// names and path literals (go/format's import sorting)
func importOrderOnly(a, b []tokItem) bool {
	if len(a) != len(b) {
		return false
	}
	lo, hi := -1, -1
	for i := 0; i < len(a); i++ {
		if a[i].Tok != token.IMPORT {
			continue
		}
		if lo < 0 {
			lo = i
		}
		j := i + 1
		if j < len(a) && a[j].Tok == token.LPAREN {
			for j < len(a) && a[j].Tok != token.RPAREN {
				j++
			}
		} else {
			for j < len(a) && a[j].Tok != token.STRING {
				j++
			}
		}
		if j > hi {
			hi = j
		}
	}
	for i := range a {
		if a[i].Tok == b[i].Tok && a[i].Lit == b[i].Lit {
			continue
		}
		if i < lo || i > hi {
			return false
		}
		if a[i].Tok != token.STRING && a[i].Tok != token.IDENT && a[i].Tok != token.PERIOD {
			return false
		}
	}
	return true
}

// inputs of fixed defects
var c03Regress = []string{
	// //line directives renumber the lines: upwards (the numbers of a raw string's lines no longer match the
	// physical lines recorded for it) and downwards onto the lines of an earlier block comment
	"package a\n\n//line x.go:100\nvar s = []string{`a\nb`}\n\nvar t = []int{\n\t1,\n\t2,\n}\n",
	"package a\n\n/* c1\nc2\nc3\nc4\nc5\nc6 */\n\n//line x.go:1\nvar v = []int{\n\t1,\n\t2,\n}\n\nimport (\n\t\"z\"\n\n\t\"a\"\n)\n",
	"package a\n\nvar r = `l1\nl2\nl3\nl4`\n\n//line y.go:2\nfunc f() {\n\tg(\n\t\t1,\n\t\t2,\n\t)\n}\n",
	"package a\r\n\r\nvar _ = f(`a\r\nb\r\nc\r\n`)\r\n", // 29b97b8: CRLF file with a multi-line raw string
	"package a\n\nfunc g(\n\tx int,\n\t/* c */) {\n}\n", // 3dd4b07
}

var c03Known = []string{
	"package a\r\n\r\nimport (\r\n\t\"b\"\r\n\r\n\t\"a\"\r\n)\r\n",
	"// Copyright\r\n\r\n//go:build linux\r\n\r\npackage a\r\n",
	"package a\n\nimport (\n\t\"b\"\n\n\n\t\"a\"\n)\n",
	// whitespace-only-blank-line-lost
	"package a\n\nimport (\n\t\"z\"\n\t\n\t\"a\"\n)\n",
}

// parseable but not in gofmt form in the ways go/format (not go/printer alone) puts right: unsorted
// specs in parenthesised import declarations (with line comments, names, several runs, several
// declarations) and number literals with upper-case prefixes and exponents; every import is used,
// so that the import manager has nothing to add or remove
var c03Ungofmt = []string{
	"package a\n\nimport (\n\t\"strings\" // s\n\t\"fmt\" // f\n\t\"bytes\"\n)\n\nfunc f() { fmt.Println(strings.ToUpper(\"x\"), bytes.MinRead) }\n",
	"package a\n\nimport (\n\tstr \"strconv\"\n\t\"os\"\n\n\t\"sort\" /* so */\n\t\"io\"\n)\n\nimport (\n\t\"unicode/utf8\"\n\t\"unicode\"\n)\n\n// F uses them all.\nfunc F() {\n\t_, _, _, _ = str.Itoa(1), os.Args, sort.Ints, io.EOF // all four\n\t_, _ = utf8.RuneError, unicode.MaxRune\n}\n",
	"package a\n\nconst (\n\tH = 0XABCDEF // hex\n\tE = 1E3\n\tB = 0B101\n\tO = 0O17\n\tP = 0X1P-2 /* hex float */\n\tI = 1E3i\n\tS = 0X_1F\n\tM = 0X1.8P+1i\n\tD = 1_0E+1_0\n)\n\nvar x = [0X2]float64{0: 1E-3, 0B1: .5E1}\n\nfunc f(n int) int { return n<<0O3 + 0XfF }\n",
	"package main\n\nimport (\n\t\"os\" // o\n\t\"math\" // m\n\t\"fmt\" // f\n)\n\n// main prints.\nfunc main() {\n\tfmt.Fprintln(os.Stderr, math.Pi*1E2, 0XFF) // numbers\n}\n",
}

// every form of type spec -- defined type, alias, generic defined type, generic alias (type parameters AND "=";
// accepted by go/parser) -- in each place a type spec can stand: alone at top level, in a parenthesised
// group, in a function body (alone and grouped), with one / several type parameters and the constraint forms;
// no comments between the tokens of a spec (the sprinkling variants add their own)
var c03TypeSpecs = []string{
	"package a\n\ntype B[P any] struct{ x P }\n\ntype A[P any] = B[P]\n\ntype D = B[int]\n\ntype E B[int]\n\nvar _ A[int]\n",
	"package a\n\ntype (\n\tB[P any]            struct{ x P }\n\tM[K comparable, V any] map[K]V\n\n\t// A is B.\n\tA[P any] = B[P]\n\tN[K comparable, V any] = M[K, V] // N is M\n\tO[V any] = M[string, V]\n\tD = B[int]\n\tE B[int]\n)\n\ntype S[T ~int | ~string, U interface{ ~[]T }] = M[T, U]\n",
	"package a\n\ntype B[P any] []P\n\nfunc f() {\n\ttype L[P any] = B[P]\n\ttype (\n\t\tL2[P, Q any] = map[*P]B[Q]\n\t\tL3 = L2[int, int]\n\t\tL4[P any] B[P]\n\t)\n\tvar x L[int] // x\n\t_ = x\n\tfor {\n\t\ttype In[T interface{ m() }] = func(T) B[T]\n\t}\n}\n",
	// not in gofmt form: everything on few lines, odd spacing
	"package a\ntype B[P any] struct{x P};type A [ P any ]=B [ P ]\ntype(C[P any]=A[P];D[P any,Q any]=struct{a A[P];c C[Q]})\nfunc g(){type L[P any]=D[P,P];var _ L[int]}\n",
}

func c03Prop(c *Ctx) {
	c03Scratch = filepath.Join(c.Verif, ".build")
	c.Res.Rule = "hand corpus (with every form of type spec, generic aliases included, at top level, grouped and in function bodies) + $GOROOT/src sample, each in the variants: as is, CRLF, BOM, space-indented, comments and blank lines sprinkled (mangled), every blank line doubled, a block comment after every line, number literals with upper-case prefixes and exponents, runs of import specs reversed; each printed through decorator.Fprint, Restorer.Fprint, FileRestorer.Fprint and RestoreFile + format.Node with one FileRestorer reused for several files that are printed afterwards, without and with import management; compared with gofmt(input) on tokens and with the input on comment texts; non-trivial = distinct (file, variant)"
	var srcs []string
	srcs = append(srcs, sinkSources...)
	srcs = append(srcs, linkExtra...)
	files := gorootFiles(30000)
	for i := 0; i < c.N(40) && len(files) > 0; i++ {
		if b, err := os.ReadFile(files[c.Rng.Intn(len(files))]); err == nil {
			srcs = append(srcs, string(b))
		}
	}
	variants := []string{"asis", "crlf", "bom", "spaces", "mangled", "blank3", "dense", "selgaps", "upnum", "revimports"}
	srcs = append(srcs, c08Sources...)
	srcs = append(srcs, c03Ungofmt...)
	srcs = append(srcs, c03TypeSpecs...)
	// the files a reused FileRestorer restores before and after the subject: hand corpus files with comments
	var pool []string
	for _, p := range append(append([]string{}, c03Ungofmt...), sinkSources...) {
		if strings.Contains(p, "//") || strings.Contains(p, "/*") {
			pool = append(pool, p)
		}
	}
	eval := func(in c03Input, label string) bool {
		c.Res.Evaluations++
		c.Res.hist("c03-variant", label)
		if key, what := c03Check(in); key != "" {
			in.Src = clipKeep(in.Src)
			c.Res.fail(key, what, in)
			return true
		}
		return false
	}
	for si, src := range srcs {
		for vi, v := range variants {
			in := c03Input{Src: c03Variant(c, src, v), Variant: v}
			if (v == "upnum" || v == "revimports") && in.Src == src {
				continue // no number literal / no run of import specs to change: the same text as "asis"
			}
			c.Res.seen(fmt.Sprint(len(src), v, src[:min(50, len(src))]))
			eval(in, v)
			// the same text as one of two files of a directory (ParseDir), twice: the order in which the files
			// of a package are decorated follows map iteration
			if v == "asis" || v == "blank3" {
				for rep := 0; rep < 2; rep++ {
					in2 := in
					in2.Dir = true
					if eval(in2, v+"+directory") {
						break
					}
				}
			}
			// the same text through the import-managing pair (files with imports; five variants)
			managed := (v == "asis" || v == "selgaps" || v == "mangled" || v == "upnum" || v == "revimports") && strings.Contains(src, "import")
			if managed {
				in3 := in
				in3.Managed = true
				c.Res.seen(fmt.Sprint(len(src), v, "managed", src[:min(50, len(src))]))
				eval(in3, v+"+import-management")
			}
			// the same text through the other print entry points, without and with import management: all of
			// them for the text as it is and for the two variants that only go/format (not go/printer alone)
			// normalises, one of them in turn for the other variants
			for ei, e := range c03Entries {
				if v != "asis" && v != "upnum" && v != "revimports" && ei != (si+vi)%len(c03Entries) {
					continue
				}
				in4 := in
				in4.Entry = e
				if e == "FileRestorer-reused" {
					in4.Before = []string{pool[si%len(pool)]}
					in4.After = []string{pool[(si+1)%len(pool)], pool[(si+3)%len(pool)]}
				}
				c.Res.seen(fmt.Sprint(len(src), v, e, src[:min(50, len(src))]))
				eval(in4, v+"+"+e)
				if managed && e != "Restorer.Fprint" { // (Restorer.Fprint with import management is the managed evaluation above)
					in4.Managed = true
					eval(in4, v+"+"+e+"+import-management")
				}
			}
		}
	}
	// a comment, a line comment, a line break, a blank line in every k-th gap between two tokens of
	// the hand corpus (all gaps in the thorough tier)
	for si, src := range append(append([]string{}, sinkSources...), c08Sources...) {
		every := 4
		if c.Tier == "thorough" {
			every = 1
		}
		for _, v := range gapSweep(src, every, si+int(c.Seed)) {
			in := c03Input{Src: v, Variant: "gap-sweep"}
			c.Res.Evaluations++
			c.Res.hist("c03-variant", "gap-sweep")
			if key, what := c03Check(in); key != "" {
				c.Res.fail(key, what, in)
			}
		}
	}
	for _, src := range c03Regress {
		in := c03Input{Src: src, Variant: "regress"}
		c.Res.Evaluations++
		if key, what := c03Check(in); key != "" {
			c.Res.fail(key, what, in)
		}
	}
	for _, src := range c03Known {
		in := c03Input{Src: src, Variant: "known"}
		c.Res.Evaluations++
		if key, what := c03Check(in); key != "" {
			c.Res.fail(key, what, in)
		}
	}
	c.Res.Samples = append(c.Res.Samples, map[string]string{"variant": "dense", "src": clip(c03Variant(c, srcs[1], "dense"), 300)})
}

func init() {
	props["C03"] = c03Prop
	corrs["C03"] = func(c *Ctx) { linkCorr(c); fragCorr(c); decCorr(c) }
	replays["C03"] = func(c *Ctx, raw json.RawMessage) (bool, string) {
		var in c03Input
		if err := json.Unmarshal(raw, &in); err != nil || in.Src == "" {
			return false, "not a C03 generated input"
		}
		c03Scratch = filepath.Join(c.Verif, ".build")
		key, what := c03Check(in)
		return key != "", what
	}
}
