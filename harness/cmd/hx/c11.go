package main

import (
	"encoding/json"
	"fmt"
	"go/ast"
	"go/parser"
	"go/token"
	"math/rand"
	"os"
	"path/filepath"
	"reflect"
	"sort"
	"strings"

	"github.com/dave/dst"
	"github.com/dave/dst/decorator"
	"github.com/dave/dst/decorator/resolver/guess"
)

// C11 on the implementation: every law on the complete maps of real runs.
//   Decorator.Map  (without and with the goast resolver) and
//   Restorer.Map   (plain and import-managed; several files through ONE restorer):
//     totality   every non-comment ast node reachable from the file (and every node reachable
//                through Obj.Decl links) has a dst counterpart of the corresponding type, every
//                dst node of the tree has an ast counterpart;
//     inverse    for EVERY entry of either map (not only those reachable from the root):
//                Dst[Ast[d]] == d, and Ast[Dst[a]] == a unless a is the X or Sel of a
//                qualified identifier collapsed onto / expanded from one dst identifier;
//     structure  for corresponding nodes, each Node-typed field F: Dst[a.F] == d.F, element-wise
//                for slices.

type c11Input struct {
	Srcs     []string `json:"srcs"`
	Resolver bool     `json:"resolver"`
	Side     string   `json:"side"`                        // decorator | restorer
	Extras   bool     `json:"extras,omitempty"`            // restorer side: Restorer.Extras (objects and scopes restored, deferred declaring nodes)
	Package  bool     `json:"package,omitempty"`           // the files are resolved as one package first (ast.NewPackage): identifiers of one file carry objects declared in another
	Remove   bool     `json:"remove_first_stmt,omitempty"` // restorer side: the first statement of the first function is taken out after decorating (its objects keep pointing at it)
	// Via: restorer side, how the files reach the ONE Restorer: "" = Restorer.RestoreFile for every file (a fresh
	// FileRestorer per call) | "filerestorer" = ONE FileRestorer (Restorer.FileRestorer()) whose RestoreFile is called
	// for every file in turn | "mixed" = files 0, 2, ... through one reused FileRestorer, files 1, 3, ... through
	// Restorer.RestoreFile | "two" = two FileRestorers of the Restorer used alternately.  After EVERY call the maps of
	// the Restorer are compared with the walks of every file restored so far.
	Via    string `json:"via,omitempty"`
	PkgAPI string `json:"package_api,omitempty"` // decorator side, the package as the root node: "ParseDir" (Decorator.ParseDir on a directory holding the sources as f<i>.go) | "DecorateNode" (an *ast.Package per package name handed to DecorateNode)
}

func astKind(n ast.Node) string { return kindOf(n) }

// check the laws between an ast->dst map and a dst->ast map
func c11Laws(dstNodes map[ast.Node]dst.Node, astNodes map[dst.Node]ast.Node, side string) (key, what string) {
	collapsed := func(a ast.Node, d dst.Node) bool {
		// a is X or Sel of a SelectorExpr that corresponds to the identifier d
		id, ok := d.(*dst.Ident)
		if !ok || id.Path == "" {
			return false
		}
		se, ok := astNodes[d].(*ast.SelectorExpr)
		return ok && (ast.Node(se.X) == a || ast.Node(se.Sel) == a)
	}
	for a, d := range dstNodes {
		if a == nil || reflect.ValueOf(a).IsNil() {
			return "c11-nil-key", side + ": Dst.Nodes has a nil key"
		}
		if d == nil {
			return "c11-nil-key", side + ": Dst.Nodes maps a node to nil"
		}
		back, ok := astNodes[d]
		if !ok {
			return "c11-inverse", fmt.Sprintf("%s: Dst.Nodes[%s] = %s but Ast.Nodes has no entry for that dst node", side, astKind(a), kindOf(d))
		}
		if back != a && !collapsed(a, d) {
			return "c11-inverse", fmt.Sprintf("%s: Ast.Nodes[Dst.Nodes[a]] != a for a %s (maps to %s, which maps back to another %s)", side, astKind(a), kindOf(d), astKind(back))
		}
		// kinds correspond
		ak, dk := astKind(a), kindOf(d)
		if ak != dk && !(dk == "Ident" && (ak == "SelectorExpr" || collapsed(a, d))) {
			return "c11-kind", fmt.Sprintf("%s: a %s is mapped to a %s", side, ak, dk)
		}
	}
	for d, a := range astNodes {
		if d == nil || reflect.ValueOf(d).IsNil() {
			return "c11-nil-key", side + ": Ast.Nodes has a nil key"
		}
		if a == nil || reflect.ValueOf(a).IsNil() {
			return "c11-nil-key", side + ": Ast.Nodes maps a node to nil"
		}
		back, ok := dstNodes[a]
		if !ok {
			return "c11-inverse", fmt.Sprintf("%s: Ast.Nodes[%s] = %s but Dst.Nodes has no entry for that ast node", side, kindOf(d), astKind(a))
		}
		if back != d {
			return "c11-inverse", fmt.Sprintf("%s: Dst.Nodes[Ast.Nodes[d]] != d for a %s", side, kindOf(d))
		}
	}
	// structure
	for a, d := range dstNodes {
		if astKind(a) != kindOf(d) {
			continue // collapsed identifier
		}
		av := reflect.ValueOf(a).Elem()
		dv := reflect.ValueOf(d).Elem()
		for i := 0; i < dv.NumField(); i++ {
			df := dv.Type().Field(i)
			if df.Name == "Decs" || (kindOf(d) == "File" && (df.Name == "Imports" || df.Name == "Unresolved")) {
				continue
			}
			afv := av.FieldByName(df.Name)
			dfv := dv.Field(i)
			if kindOf(d) == "FuncType" || !afv.IsValid() {
				// dst.FuncDecl keeps its signature in Type like go/ast; FuncType.Func is a bool in dst
				if !afv.IsValid() {
					continue
				}
			}
			switch {
			case df.Type.Implements(dstNodeType) && (df.Type.Kind() == reflect.Interface || df.Type.Kind() == reflect.Ptr):
				if isNilNode(dfv) != isNilAst(afv) {
					return "c11-structure", fmt.Sprintf("%s: %s.%s is nil on one side only", side, kindOf(d), df.Name)
				}
				if !isNilNode(dfv) {
					want := dstNodes[afv.Interface().(ast.Node)]
					if want != dfv.Interface().(dst.Node) {
						return "c11-structure", fmt.Sprintf("%s: Dst.Nodes[a.%s] is not d.%s for a %s", side, df.Name, df.Name, kindOf(d))
					}
				}
			case df.Type.Kind() == reflect.Map && df.Type.Elem().Implements(dstNodeType):
				// Package.Files: the same keys, corresponding values
				if afv.Kind() != reflect.Map || afv.Len() != dfv.Len() {
					return "c11-structure", fmt.Sprintf("%s: %s.%s has %d entries on the dst side, %d on the ast side", side, kindOf(d), df.Name, dfv.Len(), afv.Len())
				}
				for _, k := range dfv.MapKeys() {
					ae := afv.MapIndex(k)
					if !ae.IsValid() || isNilAst(ae) != isNilNode(dfv.MapIndex(k)) {
						return "c11-structure", fmt.Sprintf("%s: %s.%s[%v] is present on one side only", side, kindOf(d), df.Name, k)
					}
					if isNilAst(ae) {
						continue
					}
					if want := dstNodes[ae.Interface().(ast.Node)]; want != dfv.MapIndex(k).Interface().(dst.Node) {
						return "c11-structure", fmt.Sprintf("%s: Dst.Nodes[a.%s[%v]] is not d.%s[%v] for a %s", side, df.Name, k, df.Name, k, kindOf(d))
					}
				}
			case df.Type.Kind() == reflect.Slice && df.Type.Elem().Implements(dstNodeType):
				if afv.Kind() != reflect.Slice || afv.Len() != dfv.Len() {
					return "c11-structure", fmt.Sprintf("%s: %s.%s has %d elements on the dst side, %d on the ast side", side, kindOf(d), df.Name, dfv.Len(), afv.Len())
				}
				for j := 0; j < dfv.Len(); j++ {
					if isNilNode(dfv.Index(j)) {
						continue
					}
					want := dstNodes[afv.Index(j).Interface().(ast.Node)]
					if want != dfv.Index(j).Interface().(dst.Node) {
						return "c11-structure", fmt.Sprintf("%s: Dst.Nodes[a.%s[%d]] is not d.%s[%d] for a %s", side, df.Name, j, df.Name, j, kindOf(d))
					}
				}
			}
		}
	}
	return "", ""
}

func isNilAst(v reflect.Value) bool {
	switch v.Kind() {
	case reflect.Interface, reflect.Ptr:
		if v.IsNil() {
			return true
		}
		if v.Kind() == reflect.Interface {
			return isNilAst(v.Elem())
		}
	}
	return false
}

func c11Check(in c11Input) (key, what string) {
	fset := token.NewFileSet()
	var dec *decorator.Decorator
	if in.Resolver {
		dec = decorator.NewDecoratorWithImports(fset, "example.com/self", goastNew())
	} else {
		dec = decorator.NewDecorator(fset)
	}
	var afs []*ast.File
	var dfs []*dst.File
	parsed := map[int]*ast.File{}
	if in.Package {
		files := map[string]*ast.File{}
		for i, src := range in.Srcs {
			if af, err := parser.ParseFile(fset, fmt.Sprintf("f%d.go", i), src, parser.ParseComments); err == nil {
				parsed[i] = af
				files[fmt.Sprintf("f%d.go", i)] = af
			}
		}
		ast.NewPackage(fset, files, nil, nil) // resolves identifiers across the files (errors about unresolved names are expected)
	}
	for i, src := range in.Srcs {
		af, err := parsed[i], error(nil)
		if af == nil {
			af, err = parser.ParseFile(fset, fmt.Sprintf("f%d.go", i), src, parser.ParseComments)
		}
		if err != nil {
			continue
		}
		var df *dst.File
		if pm := safely(func() { df, err = dec.DecorateFile(af) }); pm != "" || err != nil {
			return "", ""
		}
		afs = append(afs, af)
		dfs = append(dfs, df)
	}
	if len(dfs) == 0 {
		return "", ""
	}
	if in.Remove {
		for _, d := range dfs[0].Decls {
			if fd, ok := d.(*dst.FuncDecl); ok && fd.Body != nil && len(fd.Body.List) > 1 {
				fd.Body.List = fd.Body.List[1:]
				break
			}
		}
	}
	if in.Side == "decorator" {
		// totality over the ast (comments excluded) and over Obj.Decl links
		for _, af := range afs {
			var miss ast.Node
			ast.Inspect(af, func(n ast.Node) bool {
				switch n.(type) {
				case nil:
					return false
				case *ast.Comment, *ast.CommentGroup:
					return false
				}
				if _, ok := dec.Dst.Nodes[n]; !ok && miss == nil {
					miss = n
				}
				if id, ok := n.(*ast.Ident); ok && id.Obj != nil {
					if dn, ok := id.Obj.Decl.(ast.Node); ok {
						if _, ok := dec.Dst.Nodes[dn]; !ok && miss == nil {
							miss = dn
						}
					}
				}
				return true
			})
			if miss != nil {
				return "c11-total", fmt.Sprintf("decorator: a %s of the ast has no entry in Dst.Nodes", astKind(miss))
			}
		}
		for _, df := range dfs {
			var all []dst.Node
			reflectPreorder(df, nil, &all)
			for _, n := range all {
				if _, ok := dec.Ast.Nodes[n]; !ok {
					return "c11-total", fmt.Sprintf("decorator: a %s of the dst tree has no entry in Ast.Nodes", kindOf(n))
				}
			}
		}
		return c11Laws(dec.Dst.Nodes, dec.Ast.Nodes, "decorator")
	}
	// restorer: all files through one Restorer
	var r *decorator.Restorer
	if in.Resolver {
		r = decorator.NewRestorerWithImports("example.com/self", guess.New())
	} else {
		r = decorator.NewRestorer()
	}
	r.Extras = in.Extras
	var rafs []*ast.File
	var frs [2]*decorator.FileRestorer
	for i, df := range dfs {
		var raf *ast.File
		var err error
		restore := func() { raf, err = r.RestoreFile(df) }
		how := "Restorer.RestoreFile"
		slot := -1
		switch in.Via {
		case "filerestorer":
			slot = 0
		case "mixed":
			if i%2 == 0 {
				slot = 0
			}
		case "two":
			slot = i % 2
		}
		if slot >= 0 {
			if frs[slot] == nil {
				frs[slot] = r.FileRestorer()
			}
			fr := frs[slot]
			restore = func() { raf, err = fr.RestoreFile(df) }
			how = fmt.Sprintf("RestoreFile of FileRestorer #%d of the Restorer", slot)
		}
		if pm := safely(restore); pm != "" || err != nil {
			if in.Via != "" {
				return "c11-restore-failed", fmt.Sprintf("restorer: file %d (%s): %v %s", i, how, err, pm)
			}
			return "", ""
		}
		rafs = append(rafs, raf)
		if in.Via != "" {
			// the maps belong to the Restorer: what they say about the files restored earlier is not touched
			// by restoring another file
			for j := range rafs {
				if m := c11WalkLaws(r, rafs[j], dfs[j]); m != "" {
					return "c11-walk", fmt.Sprintf("restorer: after file %d was restored (%s), file %d: %s", i, how, j, m)
				}
			}
		}
	}
	for _, raf := range rafs {
		var miss ast.Node
		ast.Inspect(raf, func(n ast.Node) bool {
			switch n.(type) {
			case nil:
				return false
			case *ast.Comment, *ast.CommentGroup:
				return false
			}
			if _, ok := r.Dst.Nodes[n]; !ok && miss == nil {
				miss = n
			}
			return true
		})
		if miss != nil {
			return "c11-total", fmt.Sprintf("restorer: a %s of the restored ast has no entry in Dst.Nodes", astKind(miss))
		}
	}
	for _, df := range dfs {
		var all []dst.Node
		reflectPreorder(df, nil, &all)
		for _, n := range all {
			if _, ok := r.Ast.Nodes[n]; !ok {
				return "c11-total", fmt.Sprintf("restorer: a %s of the dst tree has no entry in Ast.Nodes", kindOf(n))
			}
		}
	}
	// the restorer's maps: Ast.Nodes: dst -> ast, Dst.Nodes: ast -> dst.  X / Sel of an expanded
	// identifier map to the identifier; the identifier maps to the SelectorExpr.
	return c11Laws(r.Dst.Nodes, r.Ast.Nodes, "restorer")
}

// c11WalkLaws: the restored file and the dst file it was made from, walked side by side with the
// libraries' own traversals (ast.Inspect, comments excluded, not descending into a qualified
// identifier that stands for ONE dst identifier; dst.Inspect): the same number of nodes, and at
// every place of the walk Dst.Nodes[a] is the dst node met there and Ast.Nodes[d] is the ast node.
func c11WalkLaws(r *decorator.Restorer, af *ast.File, df *dst.File) string {
	var as []ast.Node
	ast.Inspect(af, func(n ast.Node) bool {
		switch n.(type) {
		case nil:
			return false
		case *ast.Comment, *ast.CommentGroup:
			return false
		}
		as = append(as, n)
		if _, ok := n.(*ast.SelectorExpr); ok {
			if id, ok := r.Dst.Nodes[n].(*dst.Ident); ok && id.Path != "" {
				return false
			}
		}
		return true
	})
	var ds []dst.Node
	dst.Inspect(df, func(n dst.Node) bool {
		if n == nil {
			return false
		}
		ds = append(ds, n)
		return true
	})
	for i := 0; i < len(as) && i < len(ds); i++ {
		d, ok := r.Dst.Nodes[as[i]]
		if !ok {
			return fmt.Sprintf("node #%d of ast.Inspect (a %s) has no entry in Dst.Nodes of the Restorer", i, astKind(as[i]))
		}
		if d != ds[i] {
			return fmt.Sprintf("node #%d of ast.Inspect (a %s): Dst.Nodes gives a %s that is not node #%d of dst.Inspect (a %s)", i, astKind(as[i]), kindOf(d), i, kindOf(ds[i]))
		}
		a, ok := r.Ast.Nodes[ds[i]]
		if !ok {
			return fmt.Sprintf("node #%d of dst.Inspect (a %s) has no entry in Ast.Nodes of the Restorer", i, kindOf(ds[i]))
		}
		if a != as[i] {
			return fmt.Sprintf("node #%d of dst.Inspect (a %s): Ast.Nodes gives a %s that is not node #%d of ast.Inspect", i, kindOf(ds[i]), astKind(a), i)
		}
	}
	if len(as) != len(ds) {
		return fmt.Sprintf("ast.Inspect meets %d nodes, dst.Inspect %d", len(as), len(ds))
	}
	return ""
}

// c11PackageCheck: the package is the root node.  Decorator.ParseDir (the method: the helper of the
// same name throws its Decorator away) on a directory holding the sources, or DecorateNode on an
// *ast.Package per package name.  The *dst.Package / *ast.Package pair is a pair of the maps like
// any other: the dst package maps back to the ast package it came from, dst.Inspect from the
// package reaches only mapped nodes, ast.Inspect from the ast package reaches only mapped nodes
// (comments excluded), Package.Files commutes, and all laws hold over the complete maps.  What
// the packages and their files are is taken from go/parser (ParseDir with a FileSet of its own).
func c11PackageCheck(in c11Input, scratch string) (key, what string) {
	fset := token.NewFileSet()
	var dec *decorator.Decorator
	if in.Resolver {
		dec = decorator.NewDecoratorWithImports(fset, "example.com/self", goastNew())
	} else {
		dec = decorator.NewDecorator(fset)
	}
	side := "decorator(" + in.PkgAPI + ")"
	// reference: package name -> file names, from go/parser alone
	ref := map[string]map[string]bool{}
	names := map[int]string{}
	{
		rf := token.NewFileSet()
		for i, src := range in.Srcs {
			af, err := parser.ParseFile(rf, fmt.Sprintf("f%d.go", i), src, parser.ParseComments|parser.PackageClauseOnly)
			if err != nil {
				continue
			}
			if _, err := parser.ParseFile(rf, fmt.Sprintf("f%d.go", i), src, parser.ParseComments); err != nil {
				continue // Decorator.ParseDir gives up on a directory with a file that does not parse
			}
			names[i] = fmt.Sprintf("f%d.go", i)
			if ref[af.Name.Name] == nil {
				ref[af.Name.Name] = map[string]bool{}
			}
			ref[af.Name.Name][names[i]] = true
		}
	}
	if len(names) == 0 {
		return "", ""
	}
	dpkgs := map[string]*dst.Package{}
	apkgs := map[string]*ast.Package{} // DecorateNode: the ast packages handed in
	prefix := ""
	switch in.PkgAPI {
	case "ParseDir":
		dir, err := os.MkdirTemp(scratch, "c11-")
		if err != nil {
			return "", ""
		}
		defer os.RemoveAll(dir)
		for i, src := range in.Srcs {
			if names[i] != "" {
				if err := os.WriteFile(filepath.Join(dir, names[i]), []byte(src), 0644); err != nil {
					return "", ""
				}
			}
		}
		prefix = dir + string(filepath.Separator)
		var out map[string]*dst.Package
		if pm := safely(func() { out, err = dec.ParseDir(dir, nil, parser.ParseComments) }); pm != "" || err != nil {
			return "", "" // e.g. the resolver cannot resolve an import
		}
		dpkgs = out
	case "DecorateNode":
		for i, src := range in.Srcs {
			if names[i] == "" {
				continue
			}
			af, err := parser.ParseFile(fset, names[i], src, parser.ParseComments)
			if err != nil {
				return "", ""
			}
			if apkgs[af.Name.Name] == nil {
				apkgs[af.Name.Name] = &ast.Package{Name: af.Name.Name, Files: map[string]*ast.File{}}
			}
			apkgs[af.Name.Name].Files[names[i]] = af
		}
		for name, ap := range apkgs {
			if in.Package {
				// identifiers resolved across the files (errors about unresolved names are expected)
				rp, _ := ast.NewPackage(fset, ap.Files, nil, nil)
				if rp != nil {
					ap, apkgs[name] = rp, rp
				}
			}
			var dn dst.Node
			var err error
			if pm := safely(func() { dn, err = dec.DecorateNode(ap) }); pm != "" || err != nil {
				return "", ""
			}
			dp, ok := dn.(*dst.Package)
			if !ok {
				return "c11-kind", fmt.Sprintf("%s: DecorateNode of an *ast.Package returns a %s", side, kindOf(dn))
			}
			if got := dec.Dst.Nodes[ap]; got != dst.Node(dp) {
				return "c11-total", fmt.Sprintf("%s: Dst.Nodes[the *ast.Package handed in] is not the *dst.Package returned (%s)", side, kindOf(got))
			}
			dpkgs[name] = dp
		}
	default:
		return "", ""
	}
	// the packages and files are those go/parser finds
	if len(dpkgs) != len(ref) {
		return "c11-package-files", fmt.Sprintf("%s: %d packages returned, go/parser finds %d", side, len(dpkgs), len(ref))
	}
	var pnames []string
	for name := range dpkgs {
		pnames = append(pnames, name)
	}
	sort.Strings(pnames)
	for _, name := range pnames {
		dp := dpkgs[name]
		if dp == nil || ref[name] == nil || dp.Name != name {
			return "c11-package-files", fmt.Sprintf("%s: package %q returned; go/parser finds no package of that name (or the node is nil / named otherwise)", side, name)
		}
		if len(dp.Files) != len(ref[name]) {
			return "c11-package-files", fmt.Sprintf("%s: package %s has %d files, go/parser finds %d", side, name, len(dp.Files), len(ref[name]))
		}
		for fn, df := range dp.Files {
			if !ref[name][strings.TrimPrefix(fn, prefix)] || df == nil {
				return "c11-package-files", fmt.Sprintf("%s: package %s has a file %q that go/parser does not put there (or a nil file)", side, name, strings.TrimPrefix(fn, prefix))
			}
		}
		// the root node maps back to the ast package it came from
		a, ok := dec.Ast.Nodes[dp]
		if !ok {
			return "c11-total", fmt.Sprintf("%s: the *dst.Package %s (the root that dst.Inspect visits) has no entry in Ast.Nodes", side, name)
		}
		ap, ok := a.(*ast.Package)
		if !ok || ap == nil {
			return "c11-kind", fmt.Sprintf("%s: the *dst.Package %s is mapped to a %s", side, name, astKind(a))
		}
		if want, ok := apkgs[name]; ok && want != ap {
			return "c11-inverse", fmt.Sprintf("%s: Ast.Nodes[the *dst.Package %s] is not the *ast.Package it came from", side, name)
		}
		if ap.Name != name {
			return "c11-structure", fmt.Sprintf("%s: the *dst.Package %s maps to an *ast.Package named %s", side, name, ap.Name)
		}
		// dst.Inspect from the package reaches only mapped nodes
		var dmiss dst.Node
		seenFiles := 0
		dst.Inspect(dp, func(n dst.Node) bool {
			if n == nil {
				return false
			}
			if _, ok := n.(*dst.File); ok {
				seenFiles++
			}
			if _, ok := dec.Ast.Nodes[n]; !ok && dmiss == nil {
				dmiss = n
			}
			return true
		})
		if dmiss != nil {
			return "c11-total", fmt.Sprintf("%s: dst.Inspect from the package %s reaches a %s that has no entry in Ast.Nodes", side, name, kindOf(dmiss))
		}
		if seenFiles != len(dp.Files) {
			return "c11-total", fmt.Sprintf("%s: dst.Inspect from the package %s reaches %d files of %d", side, name, seenFiles, len(dp.Files))
		}
		// ... and by reflection (independent of walk.go), file by file
		for _, df := range dp.Files {
			var all []dst.Node
			reflectPreorder(df, nil, &all)
			for _, n := range all {
				if _, ok := dec.Ast.Nodes[n]; !ok {
					return "c11-total", fmt.Sprintf("%s: a %s of the dst tree has no entry in Ast.Nodes", side, kindOf(n))
				}
			}
		}
		// ast.Inspect from the ast package reaches only mapped nodes, comments excluded
		var miss ast.Node
		ast.Inspect(ap, func(n ast.Node) bool {
			switch n.(type) {
			case nil:
				return false
			case *ast.Comment, *ast.CommentGroup:
				return false
			}
			if _, ok := dec.Dst.Nodes[n]; !ok && miss == nil {
				miss = n
			}
			if id, ok := n.(*ast.Ident); ok && id.Obj != nil {
				if dn, ok := id.Obj.Decl.(ast.Node); ok {
					if _, ok := dec.Dst.Nodes[dn]; !ok && miss == nil {
						miss = dn
					}
				}
			}
			return true
		})
		if miss != nil {
			return "c11-total", fmt.Sprintf("%s: a %s reachable from the *ast.Package %s has no entry in Dst.Nodes", side, astKind(miss), name)
		}
		if got := dec.Dst.Nodes[ap]; got != dst.Node(dp) {
			return "c11-inverse", fmt.Sprintf("%s: Dst.Nodes[Ast.Nodes[the *dst.Package %s]] is not that package (%s)", side, name, kindOf(got))
		}
	}
	// every law over the complete maps (Package.Files element-wise by key)
	return c11Laws(dec.Dst.Nodes, dec.Ast.Nodes, side)
}

// c11Scratch: where the directories for Decorator.ParseDir are made (removed after each run)
var c11Scratch string

// sources of more than one package in one directory (ParseDir returns one *dst.Package each)
var c11DirFiles = [][]string{
	{"// Package a is a.\npackage a\n\nimport \"fmt\"\n\n// F prints.\nfunc F() { fmt.Println(V) } // done\n", "package a\n\n// V is a value.\nvar V = 1 /* one */\n", "package a_test\n\nimport (\n\t\"io\"\n\t\"testing\"\n)\n\nfunc TestF(t *testing.T) {\n\tvar w io.Writer\n\t_ = w\n}\n"},
	{"package main\n\nfunc main() {}\n"},
	{"package p\n\ntype G[K comparable, V any] struct {\n\tm map[K]V // the map\n}\n", "package q\n\nimport \"os\"\n\nvar Args = os.Args[1:]\n", "package p\n\nfunc (g *G[K, V]) Get(k K) (v V) {\n\treturn g.m[k]\n}\n"},
}

func c11Prop(c *Ctx) {
	c11Scratch = filepath.Join(c.Verif, ".build")
	c.Res.Rule = "groups of 1-3 sources (hand corpus, range/closure/label snippets whose objects point outside the tree, $GOROOT/src sample) x {decorator, restorer} x {no resolver, goast+guess import management}; all laws checked over the COMPLETE maps; groups of 2-4 files through ONE Restorer by way of one reused FileRestorer / a reused FileRestorer mixed with Restorer.RestoreFile / two FileRestorers, the side-by-side walk (ast.Inspect vs dst.Inspect) of EVERY file restored so far checked after every call; non-trivial = distinct (sources, side, resolver)"
	extra := []string{
		"package a\n\nimport \"fmt\"\n\nfunc f(m map[string]int) {\n\tfor k, v := range m {\n\t\tfmt.Println(k, v)\n\t}\nL:\n\tfor i := range m {\n\t\t_ = i\n\t\tcontinue L\n\t}\n}\n",
		"package a\n\nimport (\n\t\"io\"\n\t\"os\"\n)\n\ntype Set[T io.Reader] struct{ x T }\n\nfunc g() error {\n\tvar w io.Writer = os.Stdout\n\t_ = w\n\treturn io.EOF\n}\n",
	}
	srcs := append(append([]string{}, extra...), oracleSources(c, c.N(14), 8000)...)
	// the files of one package resolved together and decorated one by one with ONE decorator, in every rotation
	for _, files := range c18CrossFiles {
		for rot := 0; rot < len(files); rot++ {
			for _, side := range []string{"decorator", "restorer"} {
				in := c11Input{Srcs: append(append([]string{}, files[rot:]...), files[:rot]...), Side: side, Package: true}
				c.Res.Evaluations++
				c.Res.hist("c11", side+" cross-file objects")
				if key, what := c11Check(in); key != "" {
					c.Res.fail(key, what, in)
				}
			}
		}
	}
	// several files through ONE Restorer by way of a reused FileRestorer / a mix of FileRestorers and
	// Restorer.RestoreFile: the maps are the Restorer's, every file restored so far keeps its entries
	{
		var groups [][]string
		for _, files := range c18CrossFiles {
			groups = append(groups, files)
		}
		groups = append(groups, c11DirFiles...)
		vrng := rand.New(rand.NewSource(c.Seed*7919 + 11)) // own stream: the samples below stay as they were
		for i := 0; i < c.N(6); i++ {
			var g []string
			for j, n := 0, 2+vrng.Intn(3); j < n; j++ {
				g = append(g, srcs[vrng.Intn(len(srcs))])
			}
			groups = append(groups, g)
		}
		for gi, g := range groups {
			if len(g) == 1 {
				g = append(append([]string{}, g...), extra[gi%len(extra)], g[0])
			}
			for _, via := range []string{"filerestorer", "mixed", "two"} {
				for _, res := range []bool{false, true} {
					in := c11Input{Srcs: g, Side: "restorer", Resolver: res, Via: via, Extras: (gi+len(via))%3 == 0}
					c.Res.Evaluations++
					c.Res.seen(fmt.Sprint("via", via, res, gi))
					c.Res.hist("c11", fmt.Sprintf("restorer via=%s resolver=%v files=%d", via, res, len(g)))
					if key, what := c11Check(in); key != "" {
						c.Res.fail(key, what, in)
					}
				}
			}
		}
	}
	// a statement that declares a variable is removed while uses of the variable stay: with Extras and
	// import management the declaring statement (with its qualified identifier) is restored outside the tree
	for _, res := range []bool{false, true} {
		in := c11Input{Srcs: []string{"package a\n\nimport \"fmt\"\n\nfunc f() {\n\tx := fmt.Sprint(1)\n\tfmt.Println(x)\n\ty, z := fmt.Sprint(2), x\n\t_, _ = y, z\n}\n"}, Side: "restorer", Resolver: res, Extras: true, Remove: true}
		c.Res.Evaluations++
		c.Res.hist("c11", fmt.Sprintf("restorer+extras, declaring statement removed, resolver=%v", res))
		if key, what := c11Check(in); key != "" {
			c.Res.fail(key, what, in)
		}
	}
	// the package as the root node: Decorator.ParseDir on a directory, DecorateNode on *ast.Package
	{
		var groups [][]string
		groups = append(groups, c18CrossFiles...)
		groups = append(groups, c11DirFiles...)
		for i := 0; i < c.N(8); i++ {
			var g []string
			for j, n := 0, 1+c.Rng.Intn(4); j < n; j++ {
				g = append(g, srcs[c.Rng.Intn(len(srcs))])
			}
			groups = append(groups, g)
		}
		for gi, g := range groups {
			for _, api := range []string{"ParseDir", "DecorateNode"} {
				for _, res := range []bool{false, true} {
					in := c11Input{Srcs: g, Side: "decorator", PkgAPI: api, Resolver: res, Package: api == "DecorateNode" && gi%2 == 0}
					c.Res.Evaluations++
					c.Res.seen(fmt.Sprint("pkg", api, res, gi))
					c.Res.hist("c11", fmt.Sprintf("decorator package root via %s resolver=%v", api, res))
					if key, what := c11PackageCheck(in, c11Scratch); key != "" {
						c.Res.fail(key, what, in)
					}
				}
			}
		}
	}
	for i := 0; i < c.N(96)+len(extra); i++ {
		in := c11Input{Resolver: c.Rng.Intn(2) == 0, Side: []string{"decorator", "restorer"}[c.Rng.Intn(2)]}
		n := 1 + c.Rng.Intn(3)
		if i < len(extra) {
			in.Srcs = []string{srcs[i]}
		}
		for j := len(in.Srcs); j < n; j++ {
			in.Srcs = append(in.Srcs, srcs[c.Rng.Intn(len(srcs))])
		}
		for _, side := range []string{"decorator", "restorer"} {
			if i >= len(extra) && side != in.Side {
				continue
			}
			in.Side = side
			c.Res.Evaluations++
			c.Res.seen(fmt.Sprint(in.Resolver, in.Side, len(in.Srcs), len(in.Srcs[0]), i))
			c.Res.hist("c11", fmt.Sprintf("%s resolver=%v files=%d", in.Side, in.Resolver, len(in.Srcs)))
			if key, what := c11Check(in); key != "" {
				c.Res.fail(key, what, in)
			}
			if side == "restorer" && len(in.Srcs) == 1 {
				// the same with Extras: the nodes of the file keep their entries whatever the deferred
				// restoration of declaring nodes does
				in2 := in
				in2.Extras = true
				c.Res.Evaluations++
				c.Res.hist("c11", fmt.Sprintf("restorer+extras resolver=%v", in.Resolver))
				if key, what := c11Check(in2); key != "" {
					c.Res.fail(key, what, in2)
				}
			}
		}
		if len(c.Res.Samples) < 2 {
			var cl []string
			for _, s := range in.Srcs {
				cl = append(cl, clip(s, 100))
			}
			c.Res.Samples = append(c.Res.Samples, map[string]interface{}{"srcs": cl, "resolver": in.Resolver, "side": in.Side})
		}
	}
}

func init() {
	props["C11"] = c11Prop
	replays["C11"] = func(c *Ctx, raw json.RawMessage) (bool, string) {
		var in c11Input
		if err := json.Unmarshal(raw, &in); err != nil || len(in.Srcs) == 0 {
			return false, "not a C11 generated input"
		}
		if in.PkgAPI != "" {
			key, what := c11PackageCheck(in, filepath.Join(c.Verif, ".build"))
			return key != "", what
		}
		key, what := c11Check(in)
		return key != "", what
	}
}
