package main

import (
	"bytes"
	"encoding/json"
	"fmt"
	"go/token"
	"strings"

	"github.com/dave/dst/decorator/resolver/guess"

	"github.com/dave/dst"
	"github.com/dave/dst/decorator"
)

// C05 oracle on the implementation: lists of own-line elements (statements, declarations,
// struct fields, var specs, case clauses) get every assignment of None/NewLine/EmptyLine to
// Before/After plus optional Start/End line comments and "\n" decorations; the blank-line
// skeleton of the printed text must follow the non-additive rule.  Expression lists (call
// arguments, composite literal elements) with NewLine spacing must print one per line.

type c05Input struct {
	Kind   string `json:"kind"` // stmt decl field spec case
	Before []int  `json:"before"`
	After  []int  `json:"after"`
	Start  []int  `json:"start"`           // 0 none, 1 line comment (a "\n" Start decoration after spacing is an extra line break by design: "// c", "\n" is how a blank line after a comment is stored)
	End    []int  `json:"end"`             // 0 none, 1 line comment, 2 "\n"
	Inner  []int  `json:"inner,omitempty"` // stmt lists: Before of the expression inside the statement (it starts at the same position): 0 None, 1 NewLine -- spacing is not additive
}

func c05Template(kind string, n int) (string, func(f *dst.File) []dst.Node) {
	var sb strings.Builder
	switch kind {
	case "rawstmt":
		// statements that end in a raw string with an empty line inside: the line table must count
		// every line of the literal, or the spacing after it is measured short
		sb.WriteString("package a\n\nfunc f() {\n")
		for i := 0; i < n; i++ {
			fmt.Fprintf(&sb, "\te%d = `x\n\ny\n\n\nz e%d`\n", i, i)
		}
		sb.WriteString("}\n")
		return sb.String(), func(f *dst.File) []dst.Node {
			var out []dst.Node
			for _, s := range f.Decls[0].(*dst.FuncDecl).Body.List {
				out = append(out, s)
			}
			return out
		}
	case "stmt":
		sb.WriteString("package a\n\nfunc f() {\n")
		for i := 0; i < n; i++ {
			fmt.Fprintf(&sb, "\te%d()\n", i)
		}
		sb.WriteString("}\n")
		return sb.String(), func(f *dst.File) []dst.Node {
			var out []dst.Node
			for _, s := range f.Decls[0].(*dst.FuncDecl).Body.List {
				out = append(out, s)
			}
			return out
		}
	case "decl":
		sb.WriteString("package a\n")
		for i := 0; i < n; i++ {
			fmt.Fprintf(&sb, "var e%d int\n", i)
		}
		return sb.String(), func(f *dst.File) []dst.Node {
			var out []dst.Node
			for _, s := range f.Decls {
				out = append(out, s)
			}
			return out
		}
	case "field":
		sb.WriteString("package a\n\ntype T struct {\n")
		for i := 0; i < n; i++ {
			fmt.Fprintf(&sb, "\te%d int\n", i)
		}
		sb.WriteString("}\n")
		return sb.String(), func(f *dst.File) []dst.Node {
			var out []dst.Node
			st := f.Decls[0].(*dst.GenDecl).Specs[0].(*dst.TypeSpec).Type.(*dst.StructType)
			for _, s := range st.Fields.List {
				out = append(out, s)
			}
			return out
		}
	case "spec":
		sb.WriteString("package a\n\nvar (\n")
		for i := 0; i < n; i++ {
			fmt.Fprintf(&sb, "\te%d int\n", i)
		}
		sb.WriteString(")\n")
		return sb.String(), func(f *dst.File) []dst.Node {
			var out []dst.Node
			for _, s := range f.Decls[0].(*dst.GenDecl).Specs {
				out = append(out, s)
			}
			return out
		}
	default: // case clauses
		sb.WriteString("package a\n\nfunc f() {\n\tswitch x {\n")
		for i := 0; i < n; i++ {
			fmt.Fprintf(&sb, "\tcase e%d:\n", i)
		}
		sb.WriteString("\t}\n}\n")
		return sb.String(), func(f *dst.File) []dst.Node {
			var out []dst.Node
			sw := f.Decls[0].(*dst.FuncDecl).Body.List[0].(*dst.SwitchStmt)
			for _, s := range sw.Body.List {
				out = append(out, s)
			}
			return out
		}
	}
}

func c05Check(in c05Input) (key, what string) {
	n := len(in.Before)
	src, elems := c05Template(in.Kind, n)
	f, err := decorator.Parse(src)
	if err != nil {
		return "c05-template", err.Error()
	}
	es := elems(f)
	if len(es) != n {
		return "c05-template", "element count"
	}
	for i, e := range es {
		d := e.Decorations()
		if i < len(in.Inner) && in.Inner[i] == 1 {
			if es, ok := e.(*dst.ExprStmt); ok {
				es.X.Decorations().Before = dst.NewLine
			}
		}
		d.Before = dst.SpaceType(in.Before[i])
		d.After = dst.SpaceType(in.After[i])
		switch in.Start[i] {
		case 1:
			d.Start.Replace(fmt.Sprintf("// s%d", i))
		}
		switch in.End[i] {
		case 1:
			d.End.Replace(fmt.Sprintf("// t%d", i))
		case 2:
			d.End.Replace("\n")
		case 3:
			// a general comment over two lines (its last line names the element, so that the chunk ends there)
			d.End.Replace(fmt.Sprintf("/* t%d\n\t   e%d */", i, i))
		}
	}
	out, err, pm := printDst(f)
	if pm != "" || err != nil {
		return "c05-panic", fmt.Sprintf("print failed: %v %s", err, pm)
	}
	lines := strings.Split(strings.TrimRight(out, "\n"), "\n")
	// chunk i = [first line mentioning s<i> or e<i>, last line mentioning e<i> or t<i>]
	first := make([]int, n)
	last := make([]int, n)
	for i := range first {
		first[i], last[i] = -1, -1
	}
	open, close := -1, -1
	hasWord := func(l, w string) bool {
		idx := strings.Index(l, w)
		for idx >= 0 {
			end := idx + len(w)
			if end == len(l) || !(l[end] >= '0' && l[end] <= '9') {
				return true
			}
			nx := strings.Index(l[end:], w)
			if nx < 0 {
				break
			}
			idx = end + nx
		}
		return false
	}
	for li, l := range lines {
		for i := 0; i < n; i++ {
			if hasWord(l, fmt.Sprintf("e%d", i)) || hasWord(l, fmt.Sprintf("// s%d", i)) || hasWord(l, fmt.Sprintf("// t%d", i)) {
				if first[i] < 0 {
					first[i] = li
				}
				last[i] = li
			}
		}
	}
	switch in.Kind {
	case "stmt", "rawstmt", "field", "spec":
		for li, l := range lines {
			t := strings.TrimSpace(l)
			if open < 0 && (strings.HasSuffix(t, "{") || strings.HasSuffix(t, "(")) {
				open = li
			}
			if t == "}" || t == ")" {
				close = li
			}
		}
	case "case":
		for li, l := range lines {
			t := strings.TrimSpace(l)
			if strings.HasPrefix(t, "switch") {
				open = li
			}
			if t == "}" && close < 0 {
				close = li
			}
		}
	}
	for i := 0; i < n; i++ {
		if first[i] < 0 {
			return "c05-lost", fmt.Sprintf("element %d not found in output:\n%s", i, out)
		}
	}
	blank := func(a, b int) int { // number of blank lines strictly between lines a and b
		k := 0
		for j := a + 1; j < b; j++ {
			if strings.TrimSpace(lines[j]) == "" {
				k++
			}
		}
		return k
	}
	// a "\n" Start decoration after an EmptyLine/NewLine Before is neutral; a "\n" End likewise
	for i := 0; i+1 < n; i++ {
		if in.After[i] == 0 && in.Before[i+1] == 0 && (in.End[i] == 0 || in.End[i] == 3) {
			continue // no line break requested: the elements do not occupy their own lines
		}
		want := 0
		if in.After[i] == 2 || in.Before[i+1] == 2 {
			want = 1
		}
		if got := blank(last[i], first[i+1]); got != want || last[i] >= first[i+1] {
			return "c05-sibling", fmt.Sprintf("%s list: elements %d/%d with After=%d Before=%d (End dec %d, Start dec %d): %d blank lines, want %d\n%s",
				in.Kind, i, i+1, in.After[i], in.Before[i+1], in.End[i], in.Start[i+1], got, want, out)
		}
	}
	if open >= 0 && in.Kind != "case" && gofmtKeepsBlankAfterOpen(in.Kind) {
		want := 0
		if in.Before[0] == 2 {
			want = 1
		}
		if got := blank(open, first[0]); got != want {
			return "c05-open", fmt.Sprintf("%s list: first element Before=%d (Start dec %d): %d blank lines after the opening delimiter, want %d\n%s", in.Kind, in.Before[0], in.Start[0], got, want, out)
		}
	}
	if close >= 0 && in.Kind != "case" && gofmtKeepsBlankBeforeClose(in.Kind) {
		want := 0
		if in.After[n-1] == 2 {
			want = 1
		}
		if got := blank(last[n-1], close); got != want {
			return "c05-close", fmt.Sprintf("%s list: last element After=%d (End dec %d): %d blank lines before the closing delimiter, want %d\n%s", in.Kind, in.After[n-1], in.End[n-1], got, want, out)
		}
	}
	return "", ""
}

// expression-level lists (call arguments, composite literal elements, parameters): element
// i+1 starts on a new line iff After of i or Before of i+1 asks for a line break, and the first
// element is on a new line iff its Before does; with NewLine everywhere the list is one per
// line.  "managed": the elements are qualified identifiers restored with import management
// (the hand-written restoreIdent path); they must lay out exactly like plain selectors.
type c05ExprInput struct {
	Exprlist string `json:"exprlist"` // call lit param index-lit index-call index-type (the type arguments of an instantiation with two or more of them: IndexListExpr.Indices)
	Before   []int  `json:"before"`   // 0 None, 1 NewLine, 2 EmptyLine
	After    []int  `json:"after"`
	Managed  bool   `json:"managed"`
}

func c05ExprElems(in c05ExprInput) (*dst.File, []dst.Node, error) {
	n := len(in.Before)
	var args []string
	for i := 0; i < n; i++ {
		switch {
		case in.Exprlist == "param":
			args = append(args, fmt.Sprintf("e%d int", i))
		case in.Managed:
			args = append(args, fmt.Sprintf("pk.E%d", i))
		default:
			args = append(args, fmt.Sprintf("e%d", i))
		}
	}
	var src string
	imp := ""
	if in.Managed {
		imp = "import \"example.com/pk\"\n\n"
	}
	switch in.Exprlist {
	case "call":
		src = "package a\n\n" + imp + "var x = f(" + strings.Join(args, ", ") + ")\n"
	case "lit":
		src = "package a\n\n" + imp + "var x = []int{" + strings.Join(args, ", ") + "}\n"
	case "index-lit":
		src = "package a\n\n" + imp + "var x = Pair[" + strings.Join(args, ", ") + "]{}\n"
	case "index-call":
		src = "package a\n\n" + imp + "var x = f[" + strings.Join(args, ", ") + "]()\n"
	case "index-type":
		src = "package a\n\n" + imp + "var x Pair[" + strings.Join(args, ", ") + "]\n"
	default:
		src = "package a\n\nfunc f(" + strings.Join(args, ", ") + ") {}\n"
	}
	var f *dst.File
	var err error
	if in.Managed {
		dec := decorator.NewDecoratorWithImports(token.NewFileSet(), "example.com/a", goastNew())
		f, err = dec.Parse(src)
	} else {
		f, err = decorator.Parse(src)
	}
	if err != nil {
		return nil, nil, err
	}
	var els []dst.Node
	last := f.Decls[len(f.Decls)-1]
	switch in.Exprlist {
	case "call":
		for _, e := range last.(*dst.GenDecl).Specs[0].(*dst.ValueSpec).Values[0].(*dst.CallExpr).Args {
			els = append(els, e)
		}
	case "lit":
		for _, e := range last.(*dst.GenDecl).Specs[0].(*dst.ValueSpec).Values[0].(*dst.CompositeLit).Elts {
			els = append(els, e)
		}
	case "index-lit", "index-call", "index-type":
		vs := last.(*dst.GenDecl).Specs[0].(*dst.ValueSpec)
		var x dst.Expr
		switch in.Exprlist {
		case "index-lit":
			x = vs.Values[0].(*dst.CompositeLit).Type
		case "index-call":
			x = vs.Values[0].(*dst.CallExpr).Fun
		default:
			x = vs.Type
		}
		il, ok := x.(*dst.IndexListExpr)
		if !ok {
			return nil, nil, fmt.Errorf("%T where an IndexListExpr is expected", x)
		}
		for _, e := range il.Indices {
			els = append(els, e)
		}
	default:
		for _, e := range last.(*dst.FuncDecl).Type.Params.List {
			els = append(els, e)
		}
	}
	for i, e := range els {
		e.Decorations().Before = dst.SpaceType(in.Before[i])
		e.Decorations().After = dst.SpaceType(in.After[i])
	}
	return f, els, nil
}

func c05ExprPrint(in c05ExprInput) (string, string) {
	f, els, err := c05ExprElems(in)
	if err != nil || len(els) != len(in.Before) {
		return "", "template: " + fmt.Sprint(err)
	}
	var out string
	var pm string
	if in.Managed {
		pm = safely(func() {
			var buf bytes.Buffer
			r := decorator.NewRestorerWithImports("example.com/a", guess.New())
			err = r.Fprint(&buf, f)
			out = buf.String()
		})
	} else {
		out, err, pm = printDst(f)
	}
	if pm != "" || err != nil {
		return "", fmt.Sprintf("print failed: %v %s", err, pm)
	}
	return out, ""
}

func c05ExprCheck(in c05ExprInput) (key, what string) {
	out, bad := c05ExprPrint(in)
	if bad != "" {
		return "c05-panic", bad
	}
	n := len(in.Before)
	lines := strings.Split(out, "\n")
	lineOf := func(i int) int {
		w := fmt.Sprintf("e%d", i)
		if in.Managed {
			w = fmt.Sprintf("pk.E%d", i)
		}
		for li, l := range lines {
			if idx := strings.Index(l, w); idx >= 0 {
				end := idx + len(w)
				if end == len(l) || !(l[end] >= '0' && l[end] <= '9') {
					return li
				}
			}
		}
		return -1
	}
	openLine := -1
	for li, l := range lines {
		if strings.Contains(l, "f(") || strings.Contains(l, "[]int{") || strings.Contains(l, "Pair[") || strings.Contains(l, "f[") {
			openLine = li
		}
	}
	blank := func(a, b int) int { // number of blank lines strictly between lines a and b
		k := 0
		for j := a + 1; j < b; j++ {
			if strings.TrimSpace(lines[j]) == "" {
				k++
			}
		}
		return k
	}
	for i := 0; i < n; i++ {
		if lineOf(i) < 0 {
			return "c05-lost", fmt.Sprintf("element %d not found:\n%s", i, out)
		}
	}
	if (lineOf(0) > openLine) != (in.Before[0] >= 1) {
		return "c05-exprlist", fmt.Sprintf("%s list %v: first element Before=%d but it is on line %d, the opening delimiter on line %d\n%s", in.Exprlist, in, in.Before[0], lineOf(0), openLine, out)
	}
	if in.Before[0] >= 1 && c05ExprGofmtKeepsBlank(in.Exprlist, "open") {
		want := 0
		if in.Before[0] == 2 {
			want = 1
		}
		if got := blank(openLine, lineOf(0)); got != want {
			return "c05-exprlist", fmt.Sprintf("%s list (managed=%v): first element Before=%d: %d blank lines after the opening delimiter, want %d\n%s", in.Exprlist, in.Managed, in.Before[0], got, want, out)
		}
	}
	for i := 0; i+1 < n; i++ {
		want := in.After[i] >= 1 || in.Before[i+1] >= 1
		if got := lineOf(i+1) > lineOf(i); got != want {
			return "c05-exprlist", fmt.Sprintf("%s list (managed=%v): elements %d/%d with After=%d Before=%d: line break %v, want %v\n%s", in.Exprlist, in.Managed, i, i+1, in.After[i], in.Before[i+1], got, want, out)
		}
		if want && c05ExprGofmtKeepsBlank(in.Exprlist, "between") {
			wb := 0
			if in.After[i] == 2 || in.Before[i+1] == 2 {
				wb = 1
			}
			if got := blank(lineOf(i), lineOf(i+1)); got != wb {
				return "c05-exprlist", fmt.Sprintf("%s list (managed=%v): elements %d/%d with After=%d Before=%d: %d blank lines, want %d\n%s", in.Exprlist, in.Managed, i, i+1, in.After[i], in.Before[i+1], got, wb, out)
			}
		}
	}
	// the closing delimiter of a type-argument list is on a line of its own iff After of the last asks for a line break
	if strings.HasPrefix(in.Exprlist, "index-") {
		closeLine := -1
		for li, l := range lines {
			if strings.Contains(l, "]") {
				closeLine = li
			}
		}
		// (gofmt itself joins "f[e0, e1,\n]": with every element on the line of the opening bracket
		// go/printer does not look at the closing one)
		if closeLine < 0 || ((closeLine > lineOf(n-1)) != (in.After[n-1] >= 1) && (lineOf(n-1) > openLine || c05ExprGofmtKeepsBlank(in.Exprlist, "close-one-line"))) {
			return "c05-exprlist", fmt.Sprintf("%s list (managed=%v): last element After=%d, it is on line %d, the closing bracket on line %d\n%s", in.Exprlist, in.Managed, in.After[n-1], lineOf(n-1), closeLine, out)
		}
	}
	if in.Managed {
		plain := in
		plain.Managed = false
		pout, bad := c05ExprPrint(plain)
		if bad == "" {
			a := strings.ReplaceAll(strings.ReplaceAll(out, "import \"example.com/pk\"\n\n", ""), "pk.E", "e")
			if a != pout {
				return "c05-managed", fmt.Sprintf("qualified identifiers restored with import management lay out differently from plain expressions with the same spacing:\n%s\nvs\n%s", out, pout)
			}
		}
	}
	return "", ""
}

// c05ExprGofmtKeepsBlank: does gofmt itself keep a blank line after the opening delimiter of this
// expression list / between two of its elements written one per line?
func c05ExprGofmtKeepsBlank(kind, where string) bool {
	k := "expr:" + kind + ":" + where
	if v, ok := keepsBlankCache[k]; ok {
		return v
	}
	el := []string{"e0", "e1"}
	if kind == "param" {
		el = []string{"e0 int", "e1 int"}
	}
	body := "\n\t" + el[0] + ",\n\t" + el[1] + ",\n"
	if where == "open" {
		body = "\n\n\t" + el[0] + ",\n\t" + el[1] + ",\n"
	} else if where == "close-one-line" {
		body = el[0] + ", " + el[1] + ",\n"
	} else {
		body = "\n\t" + el[0] + ",\n\n\t" + el[1] + ",\n"
	}
	var txt string
	switch kind {
	case "call":
		txt = "package a\n\nvar x = f(" + body + ")\n"
	case "lit":
		txt = "package a\n\nvar x = []int{" + body + "}\n"
	case "index-lit":
		txt = "package a\n\nvar x = Pair[" + body + "]{}\n"
	case "index-call":
		txt = "package a\n\nvar x = f[" + body + "]()\n"
	case "index-type":
		txt = "package a\n\nvar x Pair[" + body + "]\n"
	default:
		txt = "package a\n\nfunc f(" + body + ") {}\n"
	}
	res := isCanonical(txt)
	keepsBlankCache[k] = res
	return res
}

// c05ZeroWidth: an implicit empty statement (what a label before a closing brace parses to, what
// blanking a statement out leaves behind) prints nothing: NewLine spacing around it must not add
// up to a blank line -- "directly after a line break" has to survive a node that emits no byte
func c05ZeroWidth(c *Ctx) {
	src := "package a\n\nfunc f() {\n\te0()\n\te2()\n}\n"
	for b := 0; b < 2; b++ {
		for a := 0; a < 2; a++ {
			for _, labeled := range []bool{false, true} {
				f, err := decorator.Parse(src)
				if err != nil {
					return
				}
				body := f.Decls[0].(*dst.FuncDecl).Body
				es := &dst.EmptyStmt{Implicit: true}
				es.Decs.Before = dst.SpaceType(b)
				es.Decs.After = dst.SpaceType(a)
				want := src
				var mid dst.Stmt = es
				if labeled {
					// L: <implicit empty statement> at the end of the block
					ls := &dst.LabeledStmt{Label: dst.NewIdent("L"), Stmt: es}
					ls.Decs.Before = dst.NewLine
					ls.Decs.After = dst.NewLine
					body.List = append(body.List, ls)
					want = "package a\n\nfunc f() {\n\te0()\n\te2()\nL:\n}\n"
				} else {
					body.List = []dst.Stmt{body.List[0], mid, body.List[1]}
				}
				in := map[string]string{"src": src, "edit": fmt.Sprintf("implicit empty statement (labeled at the end of the block: %v) with Before=%d After=%d", labeled, b, a)}
				c.Res.Evaluations++
				c.Res.hist("c05-kind", "zero-width node")
				out, perr, pm := printDst(f)
				if pm != "" || perr != nil {
					c.Res.fail("c05-zero-width", fmt.Sprintf("print failed: %v %s", perr, pm), in)
					continue
				}
				if out != want {
					c.Res.fail("c05-zero-width", "NewLine spacing around a node that prints nothing adds up:\n"+firstDiff(want, out), in)
				}
			}
		}
	}
}

func c05Prop(c *Ctx) {
	c05ZeroWidth(c)
	defer c05ExprSpaced(c) // after the other generators: their draws from the run's PRNG stay as they were
	c.Res.Rule = "five own-line list kinds (stmt, decl, field, spec, case) x n in 1..4 elements: exhaustive over Before/After in {None,NewLine,EmptyLine}^2 for pairs (n=2, all 81 x 9 Start/End decoration choices on the boundary), random for n=3,4; plus call/composite-literal lists with NewLine; non-trivial = distinct assignment"
	kinds := []string{"stmt", "decl", "field", "spec", "case", "rawstmt"}
	run := func(in c05Input) {
		c.Res.Evaluations++
		c.Res.seen(fmt.Sprint(in))
		c.Res.hist("c05-kind", in.Kind)
		if key, what := c05Check(in); key != "" {
			c.Res.fail(key, what, in)
		}
		if len(c.Res.Samples) < 2 && in.End[0] == 1 {
			c.Res.Samples = append(c.Res.Samples, in)
		}
	}
	for _, k := range kinds {
		// exhaustive pairs
		for b0 := 0; b0 < 3; b0++ {
			for a0 := 0; a0 < 3; a0++ {
				for b1 := 0; b1 < 3; b1++ {
					for a1 := 0; a1 < 3; a1++ {
						for e0 := 0; e0 < 3; e0++ {
							for s1 := 0; s1 < 2; s1++ {
								if k == "decl" && (b0 != 2 || s1 != 0) {
									continue // the first declaration follows the package clause; go/printer itself puts a blank line before a declaration with a doc comment
								}
								run(c05Input{Kind: k, Before: []int{b0, b1}, After: []int{a0, a1}, Start: []int{0, s1}, End: []int{e0, 0}})
							}
						}
					}
				}
			}
		}
		for r := 0; r < c.N(40); r++ {
			n := 1 + c.Rng.Intn(4)
			in := c05Input{Kind: k}
			for i := 0; i < n; i++ {
				in.Before = append(in.Before, c.Rng.Intn(3))
				in.After = append(in.After, c.Rng.Intn(3))
				in.Start = append(in.Start, c.Rng.Intn(2))
				in.End = append(in.End, c.Rng.Intn(3))
			}
			if k == "decl" {
				in.Before[0] = 2
				for i := range in.Start {
					in.Start[i] = 0
				}
			}
			if (k == "field" || k == "spec") && r%2 == 1 {
				// End comments of fields and specs go into the node's Comment field: also when they span lines
				for i := range in.End {
					if c.Rng.Intn(2) == 0 {
						in.End[i] = 3
					}
				}
			}
			run(in)
			if k == "stmt" {
				// the same with NewLine on the expression inside some statements, where the statement's own
				// spacing already breaks the line
				in2 := in
				in2.Inner = make([]int, n)
				for i := range in2.Inner {
					if in2.Before[i] != 0 && in2.Start[i] == 0 {
						in2.Inner[i] = c.Rng.Intn(2)
					}
				}
				run(in2)
			}
		}
	}
	for _, k := range []string{"call", "lit", "param"} {
		for _, managed := range []bool{false, true} {
			if managed && k == "param" {
				continue
			}
			for n := 1; n <= 3; n++ {
				// exhaustive over None/NewLine on both sides of every element
				for m := 0; m < 1<<(2*uint(n)); m++ {
					in := c05ExprInput{Exprlist: k, Managed: managed}
					for i := 0; i < n; i++ {
						in.Before = append(in.Before, (m>>(2*uint(i)))&1)
						in.After = append(in.After, (m>>(2*uint(i)+1))&1)
					}
					if in.After[n-1] == 1 && k == "param" {
						continue // a line break before the closing parenthesis of a signature needs a trailing comma
					}
					c.Res.Evaluations++
					c.Res.seen(fmt.Sprint(in))
					c.Res.hist("c05-kind", fmt.Sprintf("%s managed=%v", k, managed))
					if key, what := c05ExprCheck(in); key != "" {
						c.Res.fail(key, what, in)
					}
				}
			}
		}
	}
}

// c05ExprSpaced: expression lists with EmptyLine as well as NewLine on the elements.  The type
// arguments of an instantiation (two and more: IndexListExpr) written one per line, exhaustively for
// two arguments over {None, NewLine, EmptyLine} on every side and for three over {None, NewLine};
// random assignments over all three values for every list kind.
func c05ExprSpaced(c *Ctx) {
	run := func(in c05ExprInput) {
		c.Res.Evaluations++
		c.Res.seen(fmt.Sprint(in))
		c.Res.hist("c05-kind", fmt.Sprintf("%s managed=%v", in.Exprlist, in.Managed))
		if key, what := c05ExprCheck(in); key != "" {
			c.Res.fail(key, what, in)
		}
	}
	for _, k := range []string{"index-lit", "index-call", "index-type"} {
		for _, managed := range []bool{false, true} {
			for _, nb := range [][2]int{{2, 3}, {3, 2}} {
				n, base := nb[0], nb[1]
				if managed && n == 3 {
					continue
				}
				total := 1
				for i := 0; i < 2*n; i++ {
					total *= base
				}
				for m := 0; m < total; m++ {
					in := c05ExprInput{Exprlist: k, Managed: managed}
					for i, r := 0, m; i < n; i++ {
						in.Before = append(in.Before, r%base)
						r /= base
						in.After = append(in.After, r%base)
						r /= base
					}
					run(in)
				}
			}
		}
	}
	kinds := []string{"call", "lit", "param", "index-lit", "index-call", "index-type"}
	for r := 0; r < c.N(120); r++ {
		in := c05ExprInput{Exprlist: kinds[c.Rng.Intn(len(kinds))], Managed: c.Rng.Intn(3) == 0}
		n := 2 + c.Rng.Intn(3)
		for i := 0; i < n; i++ {
			in.Before = append(in.Before, c.Rng.Intn(3))
			in.After = append(in.After, c.Rng.Intn(3))
		}
		if in.Exprlist == "param" {
			in.Managed = false
			in.After[n-1] = 0 // a line break before the closing parenthesis of a signature needs a trailing comma
		}
		run(in)
	}
}

func init() {
	props["C05"] = c05Prop
	replays["C05"] = func(c *Ctx, raw json.RawMessage) (bool, string) {
		if handled, fails, msg := replayFixed(c, raw, c05ZeroWidth); handled {
			return fails, msg
		}
		var in c05Input
		if err := json.Unmarshal(raw, &in); err == nil && in.Kind != "" {
			key, what := c05Check(in)
			return key != "", what
		}
		var e c05ExprInput
		if err := json.Unmarshal(raw, &e); err == nil && e.Exprlist != "" {
			key, what := c05ExprCheck(e)
			return key != "", what
		}
		return false, "unrecognised input"
	}
}

var keepsBlankCache = map[string]bool{}

// gofmtKeepsBlankBeforeClose: does gofmt itself preserve a blank line between the last element
// and the closing delimiter of this list kind?  (It strips it in struct field lists.)
func gofmtKeepsBlankBeforeClose(kind string) bool {
	if kind == "rawstmt" {
		kind = "stmt"
	}
	if v, ok := keepsBlankCache[kind]; ok {
		return v
	}
	src, _ := c05Template(kind, 1)
	lines := strings.Split(strings.TrimRight(src, "\n"), "\n")
	var out []string
	for i, l := range lines {
		if i == len(lines)-1 {
			out = append(out, "")
		}
		out = append(out, l)
	}
	txt := strings.Join(out, "\n") + "\n"
	res := isCanonical(txt)
	keepsBlankCache[kind] = res
	return res
}

// gofmtKeepsBlankAfterOpen: likewise for a blank line between the opening delimiter and the
// first element.
func gofmtKeepsBlankAfterOpen(kind string) bool {
	if kind == "rawstmt" {
		kind = "stmt"
	}
	if v, ok := keepsBlankCache["open:"+kind]; ok {
		return v
	}
	src, _ := c05Template(kind, 1)
	lines := strings.Split(strings.TrimRight(src, "\n"), "\n")
	var out []string
	for i, l := range lines {
		if i == len(lines)-2 {
			out = append(out, "")
		}
		out = append(out, l)
	}
	res := isCanonical(strings.Join(out, "\n") + "\n")
	keepsBlankCache["open:"+kind] = res
	return res
}
