package main

import (
	"bytes"
	"encoding/json"
	"errors"
	"fmt"
	"go/ast"
	"go/format"
	"go/parser"
	"go/printer"
	"go/scanner"
	"go/token"
	"math/rand"
	"reflect"
	"sort"

	"github.com/dave/dst"
	"github.com/dave/dst/decorator"
	"github.com/dave/dst/decorator/resolver"
)

// C17 on the implementation: a resolver that fails (once) at its k-th call, for every k of the
// failure-free call sequence.
//   decorate: DecorateFile returns an error wrapping the injected one, does not panic, leaves
//             the ast untouched; a fresh decorator with a working resolver then gives exactly
//             the failure-free tree.
//   restore:  RestoreFile returns an error wrapping the injected one, emits nothing, leaves the
//             dst file untouched; a fresh restorer with a working resolver then gives exactly
//             the failure-free output.

type failingIdentResolver struct {
	inner  resolver.DecoratorResolver
	failAt int
	calls  int
}

func (r *failingIdentResolver) ResolveIdent(file *ast.File, parent ast.Node, parentField string, id *ast.Ident) (string, error) {
	r.calls++
	if r.calls == r.failAt {
		return "", errInjected
	}
	return r.inner.ResolveIdent(file, parent, parentField, id)
}

type failingPkgResolver struct {
	m      map[string]string
	failAt int
	calls  int
}

func (r *failingPkgResolver) ResolvePackage(p string) (string, error) {
	r.calls++
	if r.calls == r.failAt {
		return "", errInjected
	}
	if n, ok := r.m[p]; ok {
		return n, nil
	}
	return "", resolver.ErrPackageNotFound
}

// astDump: every field of the go/ast tree incl. objects and scopes, deterministic (ast.Fprint
// prints map entries -- Scope.Objects -- in map iteration order, so two dumps of one untouched
// tree can differ); pointers are numbered in order of first visit, map keys are sorted
func astDump(fset *token.FileSet, f *ast.File) string {
	var b bytes.Buffer
	ids := map[uintptr]int{}
	var dump func(v reflect.Value, depth int)
	dump = func(v reflect.Value, depth int) {
		if depth > 200 {
			b.WriteString("<deep>")
			return
		}
		switch v.Kind() {
		case reflect.Interface:
			if v.IsNil() {
				b.WriteString("nil")
				return
			}
			dump(v.Elem(), depth+1)
		case reflect.Ptr:
			if v.IsNil() {
				b.WriteString("nil")
				return
			}
			if id, ok := ids[v.Pointer()]; ok {
				fmt.Fprintf(&b, "@%d", id)
				return
			}
			ids[v.Pointer()] = len(ids)
			fmt.Fprintf(&b, "&%d:", len(ids)-1)
			dump(v.Elem(), depth+1)
		case reflect.Struct:
			fmt.Fprintf(&b, "%s{", v.Type().Name())
			for i := 0; i < v.NumField(); i++ {
				fmt.Fprintf(&b, "%s=", v.Type().Field(i).Name)
				dump(v.Field(i), depth+1)
				b.WriteString(";")
			}
			b.WriteString("}\n")
		case reflect.Slice:
			b.WriteString("[")
			for i := 0; i < v.Len(); i++ {
				dump(v.Index(i), depth+1)
				b.WriteString(",")
			}
			b.WriteString("]")
		case reflect.Map:
			keys := v.MapKeys()
			sort.Slice(keys, func(i, j int) bool { return fmt.Sprint(keys[i]) < fmt.Sprint(keys[j]) })
			b.WriteString("map[")
			for _, k := range keys {
				fmt.Fprintf(&b, "%v:", k)
				dump(v.MapIndex(k), depth+1)
				b.WriteString(",")
			}
			b.WriteString("]")
		default:
			fmt.Fprintf(&b, "%v", v)
		}
	}
	dump(reflect.ValueOf(f), 0)
	return b.String()
}

func dstDump(f *dst.File) string {
	d := newTreeDumper()
	return d.Dump(f)
}

type c17Input struct {
	Side   string   `json:"side"`            // decorate | restore | parse
	Entry  string   `json:"entry,omitempty"` // parse: ParseFile | Parse
	Src    string   `json:"src,omitempty"`
	Config icConfig `json:"config,omitempty"`
	FailAt int      `json:"fail_at"`
}

func c17DecorateOnce(src string, failAt int) (dump string, out string, err error, pm string, astSame bool, calls int) {
	fset := token.NewFileSet()
	af, perr := parser.ParseFile(fset, "a.go", src, parser.ParseComments)
	if perr != nil {
		return "", "", perr, "", true, 0
	}
	before := astDump(fset, af)
	res := &failingIdentResolver{inner: goastNew(), failAt: failAt}
	dec := decorator.NewDecoratorWithImports(fset, "example.com/self", res)
	var df *dst.File
	pm = safely(func() { df, err = dec.DecorateFile(af) })
	astSame = astDump(fset, af) == before
	calls = res.calls
	if pm != "" || err != nil {
		if failAt > 0 && err != nil && pm == "" {
			// retry: fresh decorator, working resolver, same ast
			dec2 := decorator.NewDecoratorWithImports(fset, "example.com/self", goastNew())
			var df2 *dst.File
			var err2 error
			pm2 := safely(func() { df2, err2 = dec2.DecorateFile(af) })
			if pm2 == "" && err2 == nil {
				dump = dstDump(df2)
				out, _, _ = printManaged(df2)
			} else {
				dump = "retry failed: " + pm2 + fmt.Sprint(err2)
			}
		}
		return
	}
	dump = dstDump(df)
	out, _, _ = printManaged(df)
	return
}

func printManaged(f *dst.File) (string, error, string) {
	var out string
	var err error
	pm := safely(func() {
		var buf bytes.Buffer
		err = decorator.NewRestorerWithImports("example.com/self", guessNew()).Fprint(&buf, f)
		out = buf.String()
	})
	return out, err, pm
}

// c17ParseOnce: the source goes through Decorator.ParseFile / Decorator.Parse (the library parses
// and decorates in one call) with the goast resolver wrapped to fail at call failAt (0: never).
func c17ParseOnce(entry, src string, failAt int) (f *dst.File, dump string, err error, pm string, calls int) {
	res := &failingIdentResolver{inner: goastNew(), failAt: failAt}
	dec := decorator.NewDecoratorWithImports(token.NewFileSet(), "example.com/self", res)
	pm = safely(func() {
		if entry == "Parse" {
			f, err = dec.Parse(src)
		} else {
			f, err = dec.ParseFile("a.go", src, parser.ParseComments)
		}
	})
	calls = res.calls
	if pm == "" && f != nil {
		dump = dstDump(f)
	}
	return
}

// c17ParserVerdict: what go/parser says about the source on its own: does it return a positioned
// tree (the one the library goes on to decorate), and does it report syntax errors
func c17ParserVerdict(src string) (tree bool, syntaxErr bool) {
	af, perr := parser.ParseFile(token.NewFileSet(), "a.go", src, parser.ParseComments)
	return af != nil && af.Pos().IsValid(), perr != nil
}

// c17BrokenVariants: sources that go/parser rejects but still returns a tree for, made from src by
// one token-level damage (a token dropped, doubled, or replaced by a closing delimiter / an
// operator) at a position after the package clause chosen by rng
func c17BrokenVariants(rng *rand.Rand, src string, n int) []string {
	fset := token.NewFileSet()
	file := fset.AddFile("", fset.Base(), len(src))
	var s scanner.Scanner
	s.Init(file, []byte(src), nil, scanner.ScanComments)
	type span struct{ lo, hi int }
	var toks []span
	for {
		pos, tok, lit := s.Scan()
		if tok == token.EOF {
			break
		}
		if tok == token.SEMICOLON && lit == "\n" {
			continue
		}
		l := len(lit)
		if l == 0 {
			l = len(tok.String())
		}
		o := file.Offset(pos)
		toks = append(toks, span{o, o + l})
	}
	var out []string
	seen := map[string]bool{}
	for tries := 0; len(out) < n && tries < 40*n && len(toks) > 3; tries++ {
		t := toks[2+rng.Intn(len(toks)-2)] // not the package clause
		var v string
		switch rng.Intn(4) {
		case 0:
			v = src[:t.lo] + src[t.hi:]
		case 1:
			v = src[:t.hi] + " " + src[t.lo:t.hi] + src[t.hi:]
		case 2:
			v = src[:t.lo] + []string{")", "}", "]"}[rng.Intn(3)] + src[t.hi:]
		default:
			v = src[:t.lo] + []string{"+", "=", ":=", ".", ","}[rng.Intn(5)] + src[t.hi:]
		}
		if seen[v] {
			continue
		}
		seen[v] = true
		if tree, bad := c17ParserVerdict(v); tree && bad {
			out = append(out, v)
		}
	}
	return out
}

func c17Check(in c17Input) (key, what string) {
	switch in.Side {
	case "parse":
		// whatever the parser said about the source: a resolver failure during the decoration of the
		// tree it returned comes back as an error wrapping the resolver's, and no file
		f, _, err, pm, _ := c17ParseOnce(in.Entry, in.Src, in.FailAt)
		_, syntaxErr := c17ParserVerdict(in.Src)
		about := fmt.Sprintf("Decorator.%s on a source go/parser %s, resolver failing at call %d", in.Entry, map[bool]string{true: "reports syntax errors for (and returns a tree for)", false: "accepts"}[syntaxErr], in.FailAt)
		if pm != "" {
			return "c17-parse-panic", about + ": panicked: " + pm
		}
		if err == nil {
			return "c17-parse-swallowed", about + ": no error returned"
		}
		if !errors.Is(err, errInjected) {
			return "c17-parse-not-wrapped", about + fmt.Sprintf(": the returned error does not wrap the resolver's error: %v", err)
		}
		if f != nil {
			return "c17-parse-output", about + ": a file was returned together with the resolver's error"
		}
		_, dump1, _, pm1, _ := c17ParseOnce(in.Entry, in.Src, 0)
		_, dump2, _, pm2, _ := c17ParseOnce(in.Entry, in.Src, 0)
		if pm1 != pm2 || dump1 != dump2 {
			return "c17-parse-retry", about + ": two failure-free runs with fresh decorators give different trees"
		}
	case "decorate":
		dump, out, err, pm, same, _ := c17DecorateOnce(in.Src, in.FailAt)
		if pm != "" {
			return "c17-panic", fmt.Sprintf("decorating with a resolver failing at call %d panicked: %s", in.FailAt, pm)
		}
		if !same {
			return "c17-input-modified", fmt.Sprintf("the ast was modified by a decoration that failed at resolver call %d", in.FailAt)
		}
		if err == nil {
			return "c17-swallowed", fmt.Sprintf("the resolver failed at call %d but DecorateFile returned no error", in.FailAt)
		}
		if !errors.Is(err, errInjected) {
			return "c17-not-wrapped", fmt.Sprintf("the returned error does not wrap the resolver's error: %v", err)
		}
		cleanDump, cleanOut, cerr, cpm, _, _ := c17DecorateOnce(in.Src, 0)
		if cerr != nil || cpm != "" {
			return "", ""
		}
		if dump != cleanDump || out != cleanOut {
			return "c17-retry", fmt.Sprintf("after a failure at call %d, a fresh decorator with a working resolver gives a different tree than a failure-free run", in.FailAt)
		}
	case "restore":
		f, _ := icBuild(in.Config)
		before := dstDump(f)
		res := &failingPkgResolver{m: in.Config.Resolver, failAt: in.FailAt}
		r := decorator.NewRestorerWithImports(in.Config.Local, res)
		fr := r.FileRestorer()
		for k, v := range in.Config.Alias {
			fr.Alias[k] = v
		}
		var af *ast.File
		var err error
		pm := safely(func() { af, err = fr.RestoreFile(f) })
		if pm != "" {
			return "c17-panic", fmt.Sprintf("restoring with a resolver failing at call %d panicked: %s", in.FailAt, pm)
		}
		if err == nil {
			return "c17-swallowed", fmt.Sprintf("the resolver failed at call %d but RestoreFile returned no error", in.FailAt)
		}
		if af != nil {
			return "c17-output", "RestoreFile returned both an error and a file"
		}
		if !errors.Is(err, errInjected) {
			return "c17-not-wrapped", fmt.Sprintf("the returned error does not wrap the resolver's error: %v", err)
		}
		if dstDump(f) != before {
			return "c17-input-modified", fmt.Sprintf("the dst file was modified by a restore that failed at resolver call %d:\n%s", in.FailAt, dstDiff(before, dstDump(f)))
		}
		// retry on the same tree
		retry := func(f *dst.File) (string, string) {
			r := decorator.NewRestorerWithImports(in.Config.Local, &mapResolver{m: in.Config.Resolver})
			fr := r.FileRestorer()
			for k, v := range in.Config.Alias {
				fr.Alias[k] = v
			}
			var out string
			pm := safely(func() {
				var buf bytes.Buffer
				if af, err := fr.RestoreFile(f); err == nil {
					pc := printer.Config{Mode: printer.UseSpaces | printer.TabIndent, Tabwidth: 8}
					pc.Fprint(&buf, r.Fset, af)
					_ = format.Node
				} else {
					buf.WriteString("error: " + err.Error())
				}
				out = buf.String()
			})
			return out, pm
		}
		got, pm1 := retry(f)
		clean, _ := icBuild(in.Config)
		want, pm2 := retry(clean)
		if pm1 != pm2 || got != want {
			return "c17-retry", fmt.Sprintf("after a failure at call %d, retrying with a working resolver prints\n%s\ninstead of the failure-free\n%s", in.FailAt, clip(got, 400), clip(want, 400))
		}
	}
	return "", ""
}

func dstDiff(a, b string) string {
	i := 0
	for i < len(a) && i < len(b) && a[i] == b[i] {
		i++
	}
	lo := i - 60
	if lo < 0 {
		lo = 0
	}
	return "..." + clip(a[lo:], 160) + "\n  vs\n..." + clip(b[lo:], 160)
}

var c17Sources = []string{
	// objects whose declaration comes later in the file are decorated out of order (a forward goto
	// decorates the labelled statement from inside the branch statement; a use before the
	// declaration decorates the declaring spec from inside the identifier): the resolver fails there too
	"package main\n\nimport \"fmt\"\n\nfunc f(n int) int {\n\tif n > 1 {\n\t\tgoto done\n\t}\n\tfmt.Println(n)\ndone:\n\tfor i := 0; i < n; i++ {\n\t\tfmt.Print(i, later, helper(fmt.Sprint(i)))\n\t}\n\treturn n\n}\n\nvar later = fmt.Sprint(2)\n\nfunc helper(s string) string { return fmt.Sprint(s) }\n",
	"package main\n\nimport (\n\t\"fmt\"\n\t\"os\"\n)\n\nfunc main() {\n\tfmt.Println(os.Args, fmt.Sprint(1))\n\tvar w = os.Stdout\n\t_ = w\n}\n",
	"package main\n\nimport (\n\t\"io\"\n\tstr \"strings\"\n)\n\ntype T struct{ r io.Reader }\n\nfunc (t T) f(a io.Writer) (io.Reader, error) {\n\treturn str.NewReader(\"\"), io.EOF\n}\n",
}

// sources with a syntax error after a valid package clause: go/parser returns a positioned tree
// and an error list for each (checked at run time by c17ParserVerdict)
var c17SyntaxErrorSources = []string{
	// a missing operand
	"package main\n\nimport (\n\t\"fmt\"\n\t\"os\"\n)\n\nfunc main() {\n\tfmt.Println(os.Args)\n\tx := 1 +\n\t_ = x\n}\n",
	// a missing closing parenthesis in a call
	"package main\n\nimport \"fmt\"\n\nfunc main() {\n\tfmt.Println(fmt.Sprint(1)\n}\n\nfunc g() string { return fmt.Sprint(2) }\n",
	// a stray token between declarations, qualified types in a signature
	"package main\n\nimport (\n\t\"io\"\n\tstr \"strings\"\n)\n\n+\n\nfunc f(a io.Writer) (io.Reader, error) {\n\treturn str.NewReader(\"\"), io.EOF\n}\n",
	// a statement cut short inside a block, a dot import
	"package main\n\nimport (\n\t. \"fmt\"\n\t\"os\"\n)\n\nfunc main() {\n\tif os.Args {\n\t\tPrintln(os.Args[0]\n\t}\n\tvar = 1\n\tPrintln(os.Stdout)\n}\n",
}

func c17Prop(c *Ctx) {
	c.Res.Rule = "decorate: sources with qualified identifiers, the goast resolver wrapped to fail once at call k for EVERY k of the failure-free call sequence; restore: import configurations with at least one resolver call, the package resolver failing once at call k for every k; parse: Decorator.ParseFile / Parse on the decorate sources, on hand-written sources with a syntax error and on token-damaged variants that go/parser reports errors for but returns a tree for, the resolver failing at every call k (error wraps the injected one, no file); non-trivial = distinct (input, k)"
	for _, src := range c17Sources {
		_, _, _, _, _, calls := c17DecorateOnce(src, 0)
		for k := 1; k <= calls; k++ {
			in := c17Input{Side: "decorate", Src: src, FailAt: k}
			c.Res.Evaluations++
			c.Res.seen(fmt.Sprint("d", len(src), k))
			c.Res.hist("c17", "decorate")
			if key, what := c17Check(in); key != "" {
				c.Res.fail(key, what, in)
			}
		}
	}
	// the same through Decorator.ParseFile / Decorator.Parse: the sources above, and damaged
	// variants of them that go/parser reports syntax errors for while still returning a tree (the
	// library decorates that tree and returns it with the parser's error)
	psrcs := append([]string{}, c17Sources...)
	psrcs = append(psrcs, c17SyntaxErrorSources...)
	prng := rand.New(rand.NewSource(c.Seed*7919 + 17)) // own stream: the configurations below stay as they were
	for _, src := range c17Sources {
		psrcs = append(psrcs, c17BrokenVariants(prng, src, c.N(6))...)
	}
	for si, src := range psrcs {
		tree, syntaxErr := c17ParserVerdict(src)
		if !tree {
			continue
		}
		for _, entry := range []string{"ParseFile", "Parse"} {
			f, _, _, pm, calls := c17ParseOnce(entry, src, 0)
			if pm != "" || f == nil {
				// the failure-free run gives no tree (the working resolver itself rejects the damaged
				// source, or decoration of the damaged tree panics): not a resolver-failure scenario
				c.Res.hist("c17", "parse: failure-free run without a file")
				continue
			}
			for k := 1; k <= calls; k++ {
				in := c17Input{Side: "parse", Entry: entry, Src: src, FailAt: k}
				c.Res.Evaluations++
				c.Res.seen(fmt.Sprint("p", entry, si, len(src), k))
				c.Res.hist("c17", fmt.Sprintf("parse syntax-error=%v", syntaxErr))
				if key, what := c17Check(in); key != "" {
					c.Res.fail(key, what, in)
				}
			}
		}
	}
	n := 0
	for tries := 0; n < c.N(120) && tries < 100000; tries++ {
		cfg := genImportConfig(c.Rng, false, false)
		o, _ := icRun(cfg)
		if o.Err != nil || o.Panic != "" || len(o.CallOrder) == 0 {
			continue
		}
		n++
		for k := 1; k <= len(o.CallOrder); k++ {
			in := c17Input{Side: "restore", Config: cfg, FailAt: k}
			c.Res.Evaluations++
			b, _ := json.Marshal(cfg)
			c.Res.seen(string(b) + fmt.Sprint(k))
			c.Res.hist("c17", fmt.Sprintf("restore calls=%d", len(o.CallOrder)))
			if key, what := c17Check(in); key != "" {
				c.Res.fail(key, what, in)
			}
			if len(c.Res.Samples) < 2 && k == 2 {
				c.Res.Samples = append(c.Res.Samples, in)
			}
		}
	}
}

func init() {
	props["C17"] = c17Prop
	corrs["C17"] = importsCorr
	replays["C17"] = func(c *Ctx, raw json.RawMessage) (bool, string) {
		var in c17Input
		if err := json.Unmarshal(raw, &in); err != nil || in.Side == "" {
			return false, "not a C17 generated input"
		}
		key, what := c17Check(in)
		return key != "", what
	}
}
