package main

import (
	"bytes"
	"encoding/json"
	"fmt"
	"go/ast"
	"go/parser"
	"go/token"
	"math/rand"
	"reflect"
	"strings"

	"github.com/dave/dst"
	"github.com/dave/dst/decorator"
	"github.com/dave/dst/decorator/resolver/guess"
)

// C06 on the implementation.
//   correspondence: the clone interpreter on the translated table vs the real dst.Clone (dumped
//                   trees, with decorations on every point incl. the FuncDecl signature points);
//   oracle: (1) the clone of a randomly decorated file prints identically, (2) original and
//           clone share no node and no decoration storage (mutating every list of one in place
//           leaves the other's print unchanged, both directions), (3) Obj / Scope links are nil
//           in the clone, (4) a node used at two places makes Fprint panic (plain and
//           import-managed restorers) while clones print both occurrences.

type c06Input struct {
	Src  string `json:"src"`
	Seed int64  `json:"seed"`
	Dens int    `json:"density"`
	Mode string `json:"mode"` // clone | dup | dup-managed
	Pick int    `json:"pick"`
	Prep string `json:"prep,omitempty"` // mode clone: how the tree is made. "" decorator.Parse; "exports" ast.FileExports before DecorateFile; "filter" ast.FilterFile with a name filter drawn from the seed; "incomplete" Incomplete set by hand on struct / interface types and composite literals drawn from the seed
}

// c06Parse: the tree of a clone input.  The go/ast filters (what go/doc-style tools run) take
// declarations, fields and methods out and set StructType.Incomplete / InterfaceType.Incomplete, which
// no parse does; go/printer consults the flag.
func c06Parse(in c06Input, r *rand.Rand) (f *dst.File, incomplete int) {
	switch in.Prep {
	case "":
		f, _ = decorator.Parse(in.Src)
	case "exports", "filter":
		fset := token.NewFileSet()
		af, err := parser.ParseFile(fset, "a.go", in.Src, parser.ParseComments)
		if err != nil {
			return nil, 0
		}
		if in.Prep == "exports" {
			ast.FileExports(af)
		} else {
			salt := r.Intn(1 << 16)
			ast.FilterFile(af, func(name string) bool {
				h := salt
				for i := 0; i < len(name); i++ {
					h = h*31 + int(name[i])
				}
				return h%3 != 0
			})
		}
		if pm := safely(func() { f, err = decorator.NewDecorator(fset).DecorateFile(af) }); pm != "" || err != nil {
			return nil, 0
		}
	case "incomplete":
		f, _ = decorator.Parse(in.Src)
		if f == nil {
			return nil, 0
		}
		var all []dst.Node
		reflectPreorder(f, nil, &all)
		for _, n := range all {
			switch n := n.(type) {
			case *dst.StructType:
				n.Incomplete = r.Intn(3) != 0
			case *dst.InterfaceType:
				n.Incomplete = r.Intn(3) != 0
			case *dst.CompositeLit:
				n.Incomplete = r.Intn(3) != 0
			}
		}
	}
	if f == nil {
		return nil, 0
	}
	var all []dst.Node
	reflectPreorder(f, nil, &all)
	for _, n := range all {
		switch n := n.(type) {
		case *dst.StructType:
			if n.Incomplete {
				incomplete++
			}
		case *dst.InterfaceType:
			if n.Incomplete {
				incomplete++
			}
		case *dst.CompositeLit:
			if n.Incomplete {
				incomplete++
			}
		}
	}
	return f, incomplete
}

// c06ValueDiff: original and clone walked side by side (by reflection): the same kinds of node at
// the same places, and every plain value field (strings, booleans, tokens, directions ... -- all
// that is neither a node, a list of nodes, an object / scope link nor the decorations) equal; the
// decorations equal in content.
func c06ValueDiff(a, b dst.Node) string { return c06ValueDiffAt(a, b, false) }

// signature: a is the Type of a FuncDecl.  The decoration lists of that FuncType are rendered by the
// FuncDecl case of the restorer; its Before / After are consulted by nothing (the declaration's own
// spacing is) and are not demanded of the clone.
func c06ValueDiffAt(a, b dst.Node, signature bool) string {
	if reflect.TypeOf(a) != reflect.TypeOf(b) {
		return fmt.Sprintf("a %T is cloned as a %T", a, b)
	}
	av, bv := reflect.ValueOf(a).Elem(), reflect.ValueOf(b).Elem()
	at := av.Type()
	for i := 0; i < at.NumField(); i++ {
		fld := at.Field(i)
		fa, fb := av.Field(i), bv.Field(i)
		switch {
		case fld.Name == "Decs":
			da, db := fa.Interface(), fb.Interface()
			if signature {
				x, y := da.(dst.FuncTypeDecorations), db.(dst.FuncTypeDecorations)
				x.Before, x.After, y.Before, y.After = dst.None, dst.None, dst.None, dst.None
				da, db = x, y
			}
			if x, y := fmt.Sprintf("%q", da), fmt.Sprintf("%q", db); x != y {
				return fmt.Sprintf("%s.Decs is %s in the original, %s in the clone", kindName(a), clip(x, 200), clip(y, 200))
			}
		case fld.Name == "Obj" || fld.Name == "Scope" || fld.Name == "Unresolved":
			// links: dropped by Clone
		case fld.Type.Implements(dstNodeType) && (fld.Type.Kind() == reflect.Interface || fld.Type.Kind() == reflect.Ptr):
			if isNilNode(fa) != isNilNode(fb) {
				return fmt.Sprintf("%s.%s is nil on one side only", kindName(a), fld.Name)
			}
		case fld.Type.Kind() == reflect.Slice && fld.Type.Elem().Implements(dstNodeType):
			if fa.Len() != fb.Len() {
				return fmt.Sprintf("%s.%s has %d elements in the original, %d in the clone", kindName(a), fld.Name, fa.Len(), fb.Len())
			}
		case fld.Type.Kind() == reflect.Map:
		default:
			if !reflect.DeepEqual(fa.Interface(), fb.Interface()) {
				return fmt.Sprintf("%s.%s is %v in the original, %v in the clone", kindName(a), fld.Name, fa.Interface(), fb.Interface())
			}
		}
	}
	ca, cb := reflectChildren(a), reflectChildren(b)
	if len(ca) != len(cb) {
		return fmt.Sprintf("%s has %d children in the original, %d in the clone", kindName(a), len(ca), len(cb))
	}
	for i := range ca {
		fd, isDecl := a.(*dst.FuncDecl)
		if d := c06ValueDiffAt(ca[i], cb[i], isDecl && ca[i] == dst.Node(fd.Type)); d != "" {
			return d
		}
	}
	return ""
}

func c06Decorate(r *rand.Rand, f *dst.File, dens int) {
	if dens <= 0 {
		return
	}
	next := 0
	var all []dst.Node
	reflectPreorder(f, nil, &all)
	for _, n := range all {
		for _, p := range reflectPoints(n) {
			if r.Intn(dens) != 0 {
				continue
			}
			next++
			// spare capacity so that an append in place is possible
			ds := make(dst.Decorations, 0, 4)
			ds = append(ds, fmt.Sprintf("/*k%d*/", next))
			if r.Intn(3) == 0 {
				next++
				ds = append(ds, fmt.Sprintf("/*k%d*/", next))
			}
			*p.Decs = append(ds, (*p.Decs)...)
		}
		if _, isPkg := n.(*dst.Package); !isPkg && r.Intn(dens+2) == 0 {
			n.Decorations().Before = dst.SpaceType(r.Intn(3))
			n.Decorations().After = dst.SpaceType(r.Intn(3))
		}
	}
}

// mutateAll rewrites every decoration list of the tree in place (index assignment and an
// append within capacity) and every string field it can reach.
func mutateAll(root dst.Node) {
	var all []dst.Node
	reflectPreorder(root, nil, &all)
	for _, n := range all {
		for _, p := range reflectPoints(n) {
			ds := *p.Decs
			for i := range ds {
				ds[i] = "/*MUTATED*/"
			}
			if cap(ds) > len(ds) {
				_ = append(ds, "/*MUTATED-APPEND*/")
			}
		}
		rv := reflect.ValueOf(n).Elem()
		for i := 0; i < rv.NumField(); i++ {
			fv := rv.Field(i)
			if fv.Kind() == reflect.Slice && fv.Type().Elem().Implements(dstNodeType) && fv.Len() > 0 {
				// overwrite the slice's cells with its first element (shared backing arrays would show)
				first := fv.Index(0)
				for j := 1; j < fv.Len(); j++ {
					fv.Index(j).Set(first)
				}
			}
		}
		switch n := n.(type) {
		case *dst.Ident:
			n.Name = "MUT"
		case *dst.BasicLit:
			n.Value = "0"
		}
	}
}

func nodeSet(root dst.Node) map[dst.Node]bool {
	var all []dst.Node
	reflectPreorder(root, nil, &all)
	m := map[dst.Node]bool{}
	for _, n := range all {
		m[n] = true
	}
	return m
}

func c06Check(in c06Input) (key, what string) {
	r := rand.New(rand.NewSource(in.Seed))
	switch in.Mode {
	case "clone":
		f, _ := c06Parse(in, r)
		if f == nil {
			return "", ""
		}
		c06Decorate(r, f, in.Dens)
		if in.Pick%3 == 1 {
			// an edited file: the first spec of an import declaration is taken out of the declaration while
			// File.Imports (which the restorer does not consult) still lists it -- the clone must copy it too
			for _, d := range f.Decls {
				if gd, ok := d.(*dst.GenDecl); ok && gd.Tok == token.IMPORT && len(gd.Specs) > 1 {
					gd.Specs = gd.Specs[1:]
					break
				}
			}
		}
		want, err, pm := printDst(f)
		if pm != "" || err != nil {
			return "", ""
		}
		var cl *dst.File
		if pm := safely(func() { cl = dst.Clone(f).(*dst.File) }); pm != "" {
			return "c06-panic", "Clone panicked: " + pm
		}
		got, err, pm := printDst(cl)
		if pm != "" || err != nil {
			return "c06-print", fmt.Sprintf("printing the clone failed: %v %s", err, pm)
		}
		if got != want {
			return "c06-print", "the clone prints differently from the original:\n" + firstDiff(want, got)
		}
		// every plain value field, node by node
		if d := c06ValueDiff(f, cl); d != "" {
			return "c06-value-field", "the clone does not carry every field: " + d
		}
		// no shared nodes
		on := nodeSet(f)
		for n := range nodeSet(cl) {
			if on[n] {
				return "c06-shared-node", fmt.Sprintf("clone and original share a %T node", n)
			}
		}
		// File.Imports (not a child list of the traversal, but part of the node: "every syntactic field")
		if len(cl.Imports) != len(f.Imports) {
			return "c06-shared-node", fmt.Sprintf("the clone's File.Imports has %d entries, the original's %d", len(cl.Imports), len(f.Imports))
		}
		for i := range f.Imports {
			if cl.Imports[i] == f.Imports[i] || (cl.Imports[i].Path != nil && cl.Imports[i].Path == f.Imports[i].Path) {
				return "c06-shared-node", fmt.Sprintf("clone and original share the import spec File.Imports[%d] (%s)", i, f.Imports[i].Path.Value)
			}
		}
		// links dropped
		var bad string
		dst.Inspect(cl, func(n dst.Node) bool {
			switch n := n.(type) {
			case *dst.Ident:
				if n.Obj != nil {
					bad = "Ident.Obj"
				}
			case *dst.File:
				if n.Scope != nil {
					bad = "File.Scope"
				}
			}
			return true
		})
		if bad != "" {
			return "c06-links", "the clone keeps " + bad
		}
		// a clone of every single node prints like the node (same context): replace a random
		// subtree by its clone
		var all []dst.Node
		reflectPreorder(f, nil, &all)
		// separation, both directions
		if in.Pick%2 == 0 {
			mutateAll(cl)
			again, err, pm := printDst(f)
			if pm != "" || err != nil || again != want {
				return "c06-alias", "mutating the clone changed what the original prints:\n" + firstDiff(want, again)
			}
		} else {
			mutateAll(f)
			again, err, pm := printDst(cl)
			if pm != "" || err != nil || again != want {
				return "c06-alias", "mutating the original changed what the clone prints:\n" + firstDiff(want, again)
			}
		}
	case "dup", "dup-managed":
		var f *dst.File
		var err error
		if in.Mode == "dup-managed" {
			dec := decorator.NewDecoratorWithImports(token.NewFileSet(), "example.com/self", goastNew())
			f, err = dec.Parse(in.Src)
		} else {
			f, err = decorator.Parse(in.Src)
		}
		if err != nil {
			return "", ""
		}
		print := func(f *dst.File) (string, error, string) {
			if in.Mode == "dup-managed" {
				var out string
				var err error
				pm := safely(func() {
					var buf bytes.Buffer
					err = decorator.NewRestorerWithImports("example.com/self", guess.New()).Fprint(&buf, f)
					out = buf.String()
				})
				return out, err, pm
			}
			return printDst(f)
		}
		// candidate expressions: arguments of calls / elements of literals / operands
		type slot struct {
			list *[]dst.Expr
			i    int
		}
		var slots []slot
		dst.Inspect(f, func(n dst.Node) bool {
			switch n := n.(type) {
			case *dst.CallExpr:
				for i := range n.Args {
					slots = append(slots, slot{&n.Args, i})
				}
			case *dst.CompositeLit:
				for i := range n.Elts {
					if _, kv := n.Elts[i].(*dst.KeyValueExpr); !kv {
						slots = append(slots, slot{&n.Elts, i})
					}
				}
			case *dst.ReturnStmt:
				for i := range n.Results {
					slots = append(slots, slot{&n.Results, i})
				}
			}
			return true
		})
		if in.Mode == "dup-managed" {
			var q []slot
			for _, s := range slots {
				if id, ok := (*s.list)[s.i].(*dst.Ident); ok && id.Path != "" {
					q = append(q, s)
				}
			}
			slots = q
		}
		if len(slots) == 0 {
			return "", ""
		}
		s := slots[in.Pick%len(slots)]
		e := (*s.list)[s.i]
		// shared: the same node twice in the list
		shared := append(append([]dst.Expr{}, (*s.list)[:s.i+1]...), e)
		shared = append(shared, (*s.list)[s.i+1:]...)
		orig := *s.list
		*s.list = shared
		out, err, pm := print(f)
		if pm == "" {
			return "c06-dup-accepted", fmt.Sprintf("a %T used at two places was printed instead of rejected (err=%v):\n%s", e, err, clip(out, 300))
		}
		if !strings.Contains(pm, "duplicate node") {
			return "c06-dup-accepted", "sharing a node panicked, but not with the duplicate-node diagnosis: " + pm
		}
		// the same through a Restorer that has restored the (well-formed) file before: nodes it has
		// seen in an earlier run are still rejected when they occur twice
		if in.Mode == "dup" {
			*s.list = orig
			r := decorator.NewRestorer()
			if pm0 := safely(func() { r.RestoreFile(f) }); pm0 == "" {
				*s.list = shared
				var rerr error
				if pm1 := safely(func() { _, rerr = r.RestoreFile(f) }); pm1 == "" {
					return "c06-dup-accepted", fmt.Sprintf("a %T used at two places was restored (err=%v) by a Restorer that had restored the file once before", e, rerr)
				}
			}
		}
		// cloned: prints both
		cloned := append(append([]dst.Expr{}, orig[:s.i+1]...), dst.Clone(e).(dst.Expr))
		cloned = append(cloned, orig[s.i+1:]...)
		*s.list = cloned
		out, err, pm = print(f)
		if pm != "" {
			return "c06-clone-rejected", "the same tree built from a clone panics: " + pm
		}
		_ = out
	}
	return "", ""
}

func firstDiff(a, b string) string {
	al, bl := strings.Split(a, "\n"), strings.Split(b, "\n")
	for i := 0; i < len(al) && i < len(bl); i++ {
		if al[i] != bl[i] {
			return fmt.Sprintf("line %d:\n  %s\n  %s", i+1, al[i], bl[i])
		}
	}
	return fmt.Sprintf("lengths %d / %d lines", len(al), len(bl))
}

var c06ManagedSrcs = []string{
	"package main\n\nimport (\n\t\"io\"\n\t\"os\"\n)\n\nvar errs = []error{io.EOF, io.ErrClosedPipe, os.ErrExist}\n\nfunc g(a io.Reader) error {\n\th(io.EOF, os.Args, io.Discard)\n\treturn io.EOF\n}\n",
	"package main\n\nimport \"fmt\"\n\nfunc f() {\n\tfmt.Println(fmt.Sprint(1), fmt.Sprint)\n}\n",
}

// declarations whose struct / interface types lose members to ast.FileExports and ast.FilterFile;
// without comments (go/printer then adds its "contains filtered or unexported" line) and with
var c06FilterSrcs = []string{
	"package a\n\ntype S struct {\n\tA int\n\tb string\n}\n\ntype J interface {\n\tm()\n}\n\ntype K interface {\n\tM() int\n\tn()\n}\n\ntype E struct{ x, y int }\n\nvar V struct {\n\tExported bool\n\thidden   bool\n}\n\nfunc F(s S) (r struct{ q int }) { return }\n",
	"package a\n\n// T is a T.\ntype T struct {\n\t// A is exported.\n\tA int // a\n\t// b is not.\n\tb int // b\n\n\tNested struct {\n\t\tX int\n\t\ty int\n\t}\n\tI interface {\n\t\tf() // hidden\n\t}\n}\n\n// U has methods.\ntype U interface {\n\tT() T // t\n\tu()\n}\n\nfunc unexported() {}\n\n// G is generic.\ntype G[P any] struct {\n\tp P\n\tQ []P\n}\n",
	"package a\n\nvar X = struct {\n\tA int\n\tb int\n}{A: 1, b: 2}\n\ntype (\n\tone struct{ a int }\n\tTwo struct{ a int }\n\tThree interface{ m() }\n)\n\nfunc (Two) M(p interface{ q() }) {}\n",
}

func c06Prop(c *Ctx) {
	c.Res.Rule = "hand corpus + $GOROOT/src sample; mode clone: whole-file Clone of a tree decorated on every point (density 1), 1/3 and undecorated, printed, checked for shared nodes/links, then every list of clone (or original) mutated in place; modes dup/dup-managed: a call argument / literal element / result used at two places must panic with 'duplicate node', its clone must print; non-trivial = distinct (source, seed, density, mode, pick)"
	srcs := oracleSources(c, c.N(14), 8000)
	run := func(in c06Input) {
		c.Res.Evaluations++
		c.Res.seen(fmt.Sprint(in.Seed, in.Mode, in.Pick, in.Dens, len(in.Src)))
		c.Res.hist("c06-mode", in.Mode)
		if key, what := c06Check(in); key != "" {
			c.Res.fail(key, what, in)
		}
		if len(c.Res.Samples) < 2 && in.Mode == "dup" {
			c.Res.Samples = append(c.Res.Samples, map[string]interface{}{"src": clip(in.Src, 160), "mode": in.Mode, "pick": in.Pick})
		}
	}
	for _, src := range srcs {
		for _, dens := range []int{1, 3, 0} {
			run(c06Input{Src: src, Seed: c.Rng.Int63(), Dens: dens, Mode: "clone", Pick: c.Rng.Intn(6)})
		}
		for k := 0; k < 3; k++ {
			run(c06Input{Src: src, Seed: 1, Mode: "dup", Pick: c.Rng.Intn(1000)})
		}
	}
	// trees that went through a go/ast filter before decoration, or with Incomplete set by hand
	for i, src := range append(append([]string{}, c06FilterSrcs...), srcs...) {
		for _, prep := range []string{"exports", "filter", "incomplete"} {
			if i >= len(c06FilterSrcs)+c.N(10) {
				break
			}
			in := c06Input{Src: src, Seed: c.Rng.Int63(), Dens: []int{0, 3, 1}[c.Rng.Intn(3)], Mode: "clone", Pick: c.Rng.Intn(6), Prep: prep}
			if f, inc := c06Parse(in, rand.New(rand.NewSource(in.Seed))); f != nil && inc > 0 {
				c.Res.hist("c06-mode", "clone prep="+prep+" with Incomplete nodes")
			}
			run(in)
		}
	}
	for _, src := range c06ManagedSrcs {
		for k := 0; k < 6; k++ {
			run(c06Input{Src: src, Seed: 1, Mode: "dup-managed", Pick: k})
		}
	}
	c06KnownShared(c)
}

// hand-built trees of the two recorded findings: a shared node at a pair of positions the duplicate
// check never looks at
func c06KnownShared(c *Ctx) {
	rejected := func(print func() error) (bool, string) {
		var err error
		pm := safely(func() { err = print() })
		if strings.Contains(pm, "duplicate node") {
			return true, ""
		}
		return false, fmt.Sprintf("no 'duplicate node' panic (error %v, panic %q)", err, pm)
	}
	// (1) one FuncType as the Type of two FuncDecls
	sig := &dst.FuncType{Func: true}
	f1 := &dst.File{Name: dst.NewIdent("p"), Decls: []dst.Decl{
		&dst.FuncDecl{Name: dst.NewIdent("a"), Type: sig, Body: &dst.BlockStmt{}},
		&dst.FuncDecl{Name: dst.NewIdent("b"), Type: sig, Body: &dst.BlockStmt{}},
	}}
	c.Res.Evaluations++
	if ok, what := rejected(func() error { var b bytes.Buffer; return decorator.NewRestorer().Fprint(&b, f1) }); !ok {
		c.Res.fail("shared-funcdecl-type-not-rejected", "one *dst.FuncType used as the Type of two FuncDecls is printed: "+what, map[string]string{"tree": "sig := &dst.FuncType{Func: true}; File{Decls: FuncDecl{Name: a, Type: sig, Body: {}}, FuncDecl{Name: b, Type: sig, Body: {}}}"})
	}
	// (2) one ImportSpec twice in the specs of an import declaration that import management prunes
	is := &dst.ImportSpec{Path: &dst.BasicLit{Kind: token.STRING, Value: `"fmt"`}}
	f2 := &dst.File{Name: dst.NewIdent("p"), Decls: []dst.Decl{
		&dst.GenDecl{Tok: token.IMPORT, Lparen: true, Rparen: true, Specs: []dst.Spec{is, is}},
		&dst.GenDecl{Tok: token.VAR, Specs: []dst.Spec{&dst.ValueSpec{Names: []*dst.Ident{dst.NewIdent("v")}, Type: dst.NewIdent("int")}}},
	}}
	c.Res.Evaluations++
	if ok, what := rejected(func() error {
		var b bytes.Buffer
		return decorator.NewRestorerWithImports("example.com/p", guessNew()).Fprint(&b, f2)
	}); !ok {
		c.Res.fail("managed-pruned-duplicate-not-rejected", "one *dst.ImportSpec twice in an import declaration whose (unused) specs import management removes is printed: "+what, map[string]string{"tree": "is := &dst.ImportSpec{Path: \"fmt\"}; File{Decls: GenDecl{IMPORT, Specs: {is, is}}, var v int}; NewRestorerWithImports(path, guess.New()).Fprint"})
	}
}

// correspondence: model clone vs real Clone
func c06Corr(c *Ctx) {
	var cases []string
	for si, src := range corrSources(c, c.N(4), 1500) {
		for _, dens := range []int{1, 4} {
			if dens == 4 && si >= len(sinkSources) {
				continue
			}
			dec := decorator.NewDecoratorWithImports(token.NewFileSet(), "example.com/self", goastNew())
			f, err := dec.Parse(src)
			if err != nil {
				f, err = decorator.Parse(src)
				if err != nil {
					continue
				}
			}
			c06Decorate(c.Rng, f, dens)
			d1 := newTreeDumper()
			t1 := d1.Dump(f)
			cl := dst.Clone(f)
			d2 := newTreeDumper()
			d2.strs = d1.strs
			t2 := d2.Dump(cl)
			cases = append(cases, fmt.Sprintf("(%s,\n %s)", t1, t2))
			c.Res.CaseInputs = appendCase(c.Res.CaseInputs, "mismatch_C06_clone", map[string]interface{}{"src": src, "density": dens})
			c.Res.Traces++
		}
	}
	c.caseSB.WriteString(coqCaseHeader + "From DV Require Import Model.Clone Model.CloneCases Gen.Universe Gen.CloneTbl.\n")
	c.caseSB.WriteString("Definition ccases : list clone_case := [\n" + strings.Join(cases, ";\n") + "].\n")
	c.caseSB.WriteString("Definition mismatch_C06_clone := Eval vm_compute in bad_clone_cases universe dec_universe clone_tbl ccases.\nPrint mismatch_C06_clone.\n")
}

func init() {
	props["C06"] = c06Prop
	corrs["C06"] = c06Corr
	replays["C06"] = func(c *Ctx, raw json.RawMessage) (bool, string) {
		var in c06Input
		if err := json.Unmarshal(raw, &in); err != nil || in.Mode == "" {
			return false, "not a C06 generated input"
		}
		key, what := c06Check(in)
		return key != "", what
	}
}
