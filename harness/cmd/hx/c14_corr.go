package main

import (
	"fmt"
	"sort"
	"strings"

	"github.com/dave/dst"
	"github.com/dave/dst/decorator"
	"github.com/dave/dst/dstutil"
)

// Correspondence of Model/ApplyTree.v (C14): the real dstutil.Apply is run on decorated files
// with pre / post callbacks that return false on chosen keys (a node, or the nil child in a
// field of a node) and log (key, Parent, Name, Index); the model interprets the child table
// re-extracted from rewrite.go on the dumped tree with the same decisions.

func c14Corr(c *Ctx) {
	var cases []string
	for _, src := range corrSources(c, c.N(8), 2500) {
		f, err := decorator.Parse(src)
		if err != nil {
			continue
		}
		d := newTreeDumper()
		term := d.Dump(f)
		n := len(d.nodes)
		keyOf := func(cur *dstutil.Cursor) string {
			if nd := cur.Node(); nd != nil {
				return fmt.Sprintf("KNode %d%%N", d.ids[nd])
			}
			return fmt.Sprintf("KNil %d%%N %s", d.ids[cur.Parent()], coqStr(cur.Name()))
		}
		var runs []string
		for r := 0; r < 4; r++ {
			preFalse := map[string]bool{}
			postFalse := map[string]bool{}
			// the failure-free log gives the keys to choose from
			var keys []string
			dstutil.Apply(f, func(cur *dstutil.Cursor) bool { keys = append(keys, keyOf(cur)); return true }, nil)
			if r > 0 {
				for k := 0; k < 1+n/10; k++ {
					preFalse[keys[c.Rng.Intn(len(keys))]] = true
				}
			}
			if r > 1 {
				// one post returns false somewhere: Apply aborts there and still returns the tree
				postFalse[keys[c.Rng.Intn(len(keys))]] = true
			}
			var log []string
			finished := false
			var res dst.Node
			pm := safely(func() {
				res = dstutil.Apply(f, func(cur *dstutil.Cursor) bool {
					pid := 0
					if p := cur.Parent(); p != nil {
						pid = d.ids[p] // the synthetic parent of the root is not a dumped node: 0
					}
					log = append(log, fmt.Sprintf("APre (%s) %d%%N %s (%d)%%Z", keyOf(cur), pid, coqStr(cur.Name()), cur.Index()))
					return !preFalse[keyOf(cur)]
				}, func(cur *dstutil.Cursor) bool {
					log = append(log, fmt.Sprintf("APost (%s)", keyOf(cur)))
					if cur.Node() == dst.Node(f) {
						finished = true
					}
					return !postFalse[keyOf(cur)]
				})
			})
			if pm != "" {
				c.Res.fail("c14-apply-panic", "Apply panicked: "+pm, map[string]string{"src": src})
				continue
			}
			if res != dst.Node(f) {
				c.Res.fail("c14-apply-result", "Apply did not return the tree it was given", map[string]string{"src": src})
			}
			// aborted: some post returned false (then nothing after it ran; the root's post ran only if it was the one)
			aborted := false
			for _, l := range log {
				if strings.HasPrefix(l, "APost (") && postFalse[strings.TrimSuffix(strings.TrimPrefix(l, "APost ("), ")")] {
					aborted = true
				}
			}
			_ = finished
			var pf, qf []string
			for k := range preFalse {
				pf = append(pf, k)
			}
			for k := range postFalse {
				qf = append(qf, k)
			}
			sort.Strings(pf)
			sort.Strings(qf)
			runs = append(runs, fmt.Sprintf("mkAR [%s] [%s] [%s] %v", strings.Join(pf, "; "), strings.Join(qf, "; "), strings.Join(log, "; "), aborted))
		}
		cases = append(cases, fmt.Sprintf("(%s,\n [%s])", term, strings.Join(runs, ";\n  ")))
		c.Res.CaseInputs = appendCase(c.Res.CaseInputs, "mismatch_C14_apply_tree", src)
		c.Res.Traces += 4
	}
	c.caseSB.WriteString(coqCaseHeader + "From DV Require Import Model.ApplyTree Model.ApplyCases Gen.ApplyTbl Gen.WalkTbl.\nLocal Open Scope string_scope.\n")
	c.caseSB.WriteString("Definition cases : list apply_case := [\n" + strings.Join(cases, ";\n") + "].\n")
	c.caseSB.WriteString("Definition mismatch_C14_apply_tree := Eval vm_compute in bad_apply_cases walk_tbl apply_tbl cases.\nPrint mismatch_C14_apply_tree.\n")
}

func init() { corrs["C14"] = c14Corr }
