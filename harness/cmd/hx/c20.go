package main

import (
	"bytes"
	"encoding/json"
	"fmt"
	"go/parser"
	"go/token"
	"os"
	"path/filepath"
	"sort"
	"strconv"

	"github.com/dave/dst"
	"github.com/dave/dst/decorator"
	"github.com/dave/dst/decorator/resolver"
	"golang.org/x/tools/go/packages"
)

// C20 on the implementation: a decorator.Package built by hand (decorator.Load needs the go
// tool) over files written to a scratch directory, saved with SaveWithResolver.
//   unedited: every file keeps its bytes, nothing else appears in the directory tree;
//   edited:   the bytes on disk are the import-managed print of the file;
//   failure:  a resolver that fails for a package only file k refers to: the error is returned,
//             files before k are written, file k and the later files keep their bytes, nothing
//             else is created.

type c20File struct {
	Name string `json:"name"` // relative path
	Src  string `json:"src"`
	Edit bool   `json:"edit"`
	// Kind: what an edited file undergoes ("" = grow)
	//   grow         a new declaration at the end: the print is longer than the file on disk
	//   remove-decl  the last declaration that is not an import declaration goes: shorter; imports
	//                only it used are dropped by the import management
	//   remove-all   all declarations but the import declarations go: every import is unused
	//   rename-same  the first declared name gets another first letter: the same length
	Kind string `json:"kind,omitempty"`
	// NoDisk (Outside files only): the source is handed to Decorator.ParseFile, nothing is on disk under the name
	NoDisk bool `json:"no_disk,omitempty"`
	// At (Outside files only): decorated before the file of Syntax with this index (len = after all of them)
	At int `json:"at,omitempty"`
}

type c20Input struct {
	Files    []c20File `json:"files"`
	FailPath string    `json:"fail_path,omitempty"` // the resolver fails for this package path
	// API: "" = Package.SaveWithResolver; "Save" = Package.Save (its go/packages resolver needs the go
	// tool: used when the separately made prints asked their resolver for no package name at all,
	// SaveWithResolver otherwise)
	API string `json:"api,omitempty"`
	// Again: after the first save every edited file is edited once more in this way and the package
	// is saved a second time (not with FailPath)
	Again string `json:"again,omitempty"`
	// Files is the package's Syntax, in this order: the names need not be in lexical order.
	// Outside: files decorated with the package's Decorator (so Decorator.Filenames knows them), edited
	// or not, that are NOT in Syntax -- a file the caller took out of Syntax, a further file or a
	// snippet parsed with the same Decorator. They are not files of the package that is saved: their
	// bytes stay, and one that is not on disk (NoDisk) is not created.
	Outside []c20File `json:"outside,omitempty"`
}

type failPathResolver struct {
	inner resolver.RestorerResolver
	path  string
}

func (r failPathResolver) ResolvePackage(p string) (string, error) {
	if p == r.path {
		return "", errInjected
	}
	return r.inner.ResolvePackage(p)
}

func snapshotDir(root string) map[string]string {
	m := map[string]string{}
	filepath.Walk(root, func(p string, info os.FileInfo, err error) error {
		if err == nil && !info.IsDir() {
			b, _ := os.ReadFile(p)
			rel, _ := filepath.Rel(root, p)
			m[rel] = string(b)
		}
		return nil
	})
	return m
}

// c20Edit edits a decorated file in place
func c20Edit(df *dst.File, kind string) {
	isImport := func(d dst.Decl) bool {
		gd, ok := d.(*dst.GenDecl)
		return ok && gd.Tok == token.IMPORT
	}
	switch kind {
	case "", "grow":
		// a new declaration at the end
		df.Decls = append(df.Decls, &dst.GenDecl{Tok: token.VAR, Specs: []dst.Spec{&dst.ValueSpec{Names: []*dst.Ident{dst.NewIdent("Added")}, Type: dst.NewIdent("int")}},
			Decs: dst.GenDeclDecorations{NodeDecs: dst.NodeDecs{Before: dst.EmptyLine}}})
	case "remove-decl":
		for i := len(df.Decls) - 1; i >= 0; i-- {
			if !isImport(df.Decls[i]) {
				df.Decls = append(df.Decls[:i:i], df.Decls[i+1:]...)
				return
			}
		}
	case "remove-all":
		var keep []dst.Decl
		for _, d := range df.Decls {
			if isImport(d) {
				keep = append(keep, d)
			}
		}
		df.Decls = keep
	case "rename-same":
		other := func(id *dst.Ident) {
			if id.Name != "" && id.Name != "_" {
				first := "Z"
				if id.Name[0] == 'Z' {
					first = "Y"
				}
				id.Name = first + id.Name[1:]
			}
		}
		for _, d := range df.Decls {
			switch d := d.(type) {
			case *dst.FuncDecl:
				other(d.Name)
				return
			case *dst.GenDecl:
				if isImport(d) || len(d.Specs) == 0 {
					continue
				}
				switch sp := d.Specs[0].(type) {
				case *dst.ValueSpec:
					other(sp.Names[0])
				case *dst.TypeSpec:
					other(sp.Name)
				}
				return
			}
		}
	}
}

func c20Check(c *Ctx, in c20Input) (key, what string) {
	root, err := os.MkdirTemp(filepath.Join(c.Verif, ".build"), "c20-")
	if err != nil {
		return "", ""
	}
	defer os.RemoveAll(root)
	for _, f := range in.Files {
		p := filepath.Join(root, f.Name)
		os.MkdirAll(filepath.Dir(p), 0755)
		os.WriteFile(p, []byte(f.Src), 0644)
	}
	fset := token.NewFileSet()
	dec := decorator.NewDecoratorWithImports(fset, "example.com/pkg", goastNew())
	pkg := &decorator.Package{Package: &packages.Package{PkgPath: "example.com/pkg"}, Dir: root, Decorator: dec}
	var outside []*dst.File
	decorateOutside := func(at int) bool {
		for _, f := range in.Outside {
			if f.At != at && !(at == len(in.Files) && (f.At > at || f.At < 0)) {
				continue
			}
			p := filepath.Join(root, f.Name)
			var src interface{}
			if f.NoDisk {
				src = f.Src
			} else {
				os.MkdirAll(filepath.Dir(p), 0755)
				os.WriteFile(p, []byte(f.Src), 0644)
			}
			df, err := dec.ParseFile(p, src, parser.ParseComments)
			if err != nil {
				return false
			}
			outside = append(outside, df)
			if f.Edit {
				c20Edit(df, f.Kind)
			}
		}
		return true
	}
	for i, f := range in.Files {
		if !decorateOutside(i) {
			return "", ""
		}
		p := filepath.Join(root, f.Name)
		df, err := dec.ParseFile(p, nil, parser.ParseComments)
		if err != nil {
			return "", ""
		}
		pkg.Syntax = append(pkg.Syntax, df)
	}
	if !decorateOutside(len(in.Files)) {
		return "", ""
	}
	rounds := []bool{false}
	if in.Again != "" && in.FailPath == "" {
		rounds = append(rounds, true)
	}
	for _, again := range rounds {
		for i, f := range in.Files {
			if f.Edit {
				kind := f.Kind
				if again {
					kind = in.Again
				}
				c20Edit(pkg.Syntax[i], kind)
			}
		}
		if key, what := c20SaveRound(in, root, pkg); key != "" {
			if again {
				what = "second save (edited " + in.Again + " after the first): " + what
			}
			return key, what
		}
	}
	return "", ""
}

var c20Stats = map[string]int{}

// c20SaveRound: one save of the package as it stands, judged against the directory as it stands
func c20SaveRound(in c20Input, root string, pkg *decorator.Package) (key, what string) {
	before := snapshotDir(root)
	expected := map[string]string{}
	names := map[string]string{}
	for _, f := range in.Files {
		for k, v := range accurateNames(f.Src) {
			names[k] = v
		}
	}
	var rr resolver.RestorerResolver = &mapResolver{m: names}
	// what each file should contain: the import-managed print (computed on clones, separately)
	asked := 0 // package names these prints asked their resolvers for
	for i, f := range in.Files {
		cl := dst.Clone(pkg.Syntax[i]).(*dst.File)
		var buf bytes.Buffer
		mr := &mapResolver{m: names}
		if err := decorator.NewRestorerWithImports("example.com/pkg", mr).Fprint(&buf, cl); err == nil {
			expected[f.Name] = buf.String()
		}
		asked += len(mr.calls)
	}
	failIdx := -1
	if in.FailPath != "" {
		rr = failPathResolver{rr, in.FailPath}
		// the package-name resolver is asked only for referenced paths without an alias in effect
		for i, f := range in.Files {
			pf, perr := parser.ParseFile(token.NewFileSet(), "", f.Src, parser.ImportsOnly)
			if perr != nil {
				continue
			}
			if f.Edit && f.Kind != "" && f.Kind != "grow" {
				// an edit that takes declarations out: the path must still be referred to
				still := false
				dst.Inspect(pkg.Syntax[i], func(n dst.Node) bool {
					if id, ok := n.(*dst.Ident); ok && id.Path == in.FailPath {
						still = true
					}
					return true
				})
				if !still {
					continue
				}
			}
			for _, is := range pf.Imports {
				if p, _ := strconv.Unquote(is.Path.Value); p == in.FailPath && is.Name == nil {
					failIdx = i
				}
			}
			if failIdx >= 0 {
				break
			}
		}
	}
	var serr error
	api := "SaveWithResolver"
	if in.API == "Save" && in.FailPath == "" && asked == 0 {
		api = "Save"
		if pm := safely(func() { serr = pkg.Save() }); pm != "" {
			return "c20-panic", "Save panicked: " + pm
		}
	} else if pm := safely(func() { serr = pkg.SaveWithResolver(rr) }); pm != "" {
		return "c20-panic", "SaveWithResolver panicked: " + pm
	}
	after := snapshotDir(root)
	// what was exercised: the entry point, and the length of each edited file's print against the file it replaces
	c20Stats["saved through "+api]++
	for _, f := range in.Files {
		if want, ok := expected[f.Name]; ok && f.Edit && failIdx < 0 {
			switch {
			case len(want) < len(before[f.Name]):
				c20Stats["edited file: print shorter than the file on disk"]++
			case len(want) == len(before[f.Name]):
				c20Stats["edited file: print as long as the file on disk"]++
			default:
				c20Stats["edited file: print longer than the file on disk"]++
			}
		}
	}
	// nothing but the package's files
	var extra []string
	for p := range after {
		if _, ok := before[p]; !ok {
			extra = append(extra, p)
		}
	}
	sort.Strings(extra)
	if len(extra) > 0 {
		return "c20-elsewhere", fmt.Sprintf("%s created files that were not loaded: %v", api, extra)
	}
	for p := range before {
		if _, ok := after[p]; !ok {
			return "c20-elsewhere", api + " removed " + p
		}
	}
	// files the package's Decorator knows but Syntax does not hold are not files of the package
	for _, f := range in.Outside {
		if !f.NoDisk && after[f.Name] != before[f.Name] {
			return "c20-elsewhere", fmt.Sprintf("%s wrote %s (%d bytes -> %d bytes): the file was decorated with the package's Decorator (edited: %v) but is not in Package.Syntax\n%s", api, f.Name, len(before[f.Name]), len(after[f.Name]), f.Edit, firstDiff(before[f.Name], after[f.Name]))
		}
	}
	if failIdx < 0 {
		if serr != nil {
			return "c20-error", api + " failed: " + serr.Error()
		}
		for _, f := range in.Files {
			want := expected[f.Name]
			if !f.Edit && isCanonical(f.Src) {
				want = f.Src
			}
			if after[f.Name] != want {
				what := "unedited gofmt-canonical file changed on disk"
				if f.Edit {
					what = fmt.Sprintf("the bytes %s left on disk (%d; %d before the save) are not the import-managed print of the edited file (%d bytes)", api, len(after[f.Name]), len(before[f.Name]), len(want))
				}
				return "c20-bytes", fmt.Sprintf("%s: %s\n%s", f.Name, what, firstDiff(want, after[f.Name]))
			}
		}
		// what was written is a Go source file
		for _, f := range in.Files {
			if _, perr := parser.ParseFile(token.NewFileSet(), f.Name, after[f.Name], parser.ParseComments); perr != nil {
				return "c20-unparseable", fmt.Sprintf("%s: the file %s left on disk does not parse: %v", f.Name, api, perr)
			}
		}
		return "", ""
	}
	if serr == nil {
		return "c20-swallowed", fmt.Sprintf("the resolver failed for %s (file %d) but Save returned no error", in.FailPath, failIdx)
	}
	for i, f := range in.Files {
		switch {
		case i < failIdx:
			if after[f.Name] != expected[f.Name] {
				return "c20-bytes", fmt.Sprintf("%s (before the failing file) was not written with its print", f.Name)
			}
		default:
			if after[f.Name] != before[f.Name] {
				return "c20-after-failure", fmt.Sprintf("%s (file %d; the resolver failed at file %d) was modified: %d bytes -> %d bytes", f.Name, i, failIdx, len(before[f.Name]), len(after[f.Name]))
			}
		}
	}
	return "", ""
}

var c20Pool = []string{
	"package pkg\n\nimport \"fmt\"\n\n// A prints.\nfunc A() {\n\tfmt.Println(\"a\") // trailing\n}\n",
	"package pkg\n\nimport (\n\t\"os\"\n\t\"strings\"\n)\n\nvar B = strings.ToUpper(os.Args[0])\n",
	"package pkg\n\nimport \"io\"\n\ntype R struct {\n\tio.Reader // embedded\n}\n",
	"//line parser.y:2\npackage pkg\n\nimport \"bytes\"\n\nvar Buf bytes.Buffer\n",
	"package pkg\n\nimport \"errors\"\n\nvar ErrX = errors.New(\"x\")\n\n//line other.y:10\nfunc g() error { return ErrX }\n",
	"package pkg\n\nconst K = 1\n",
	// the same paths as above under other names: one file's view of a package (its alias) must not
	// reach the other files saved through the same restorer
	"package pkg\n\nimport str \"strings\"\n\nvar C = str.ToLower(\"X\")\n",
	"package pkg\n\nimport (\n\tf \"fmt\"\n\tstr \"os\"\n)\n\nvar D = f.Sprint(str.Args)\n",
	"package pkg\n\nimport \"strings\"\n\nvar E = strings.Repeat(\"a\", 2)\n",
	"package pkg\n\nimport (\n\tfmt2 \"fmt\"\n\tio \"bytes\"\n)\n\nvar F = fmt2.Sprint(io.MinRead)\n",
	"package pkg\n\nimport . \"errors\"\n\nvar ErrY = New(\"y\")\n",
}

// c20EditPool: more files for the edits that take declarations out
var c20EditPool = []string{
	// two declarations, each the only user of one import: removing the last one leaves "fmt" in use
	"package pkg\n\nimport (\n\t\"fmt\"\n\t\"strings\"\n)\n\n// G greets.\nfunc G() { fmt.Println(\"g\") }\n\n// H is long.\nfunc H(s string) string {\n\ts = strings.TrimSpace(s)\n\ts = strings.Repeat(s, 3)\n\treturn strings.ToUpper(s)\n}\n",
	// no imports at all, comments everywhere
	"package pkg\n\n// K1 is one.\nconst K1 = 1\n\n// T is a type.\ntype T struct {\n\ta, b int // fields\n}\n\n// M is a method.\nfunc (t T) M() int {\n\treturn t.a + t.b + K1 // sum\n}\n\n// trailing comment of the file\n",
	// a blank import stays whatever goes
	"package pkg\n\nimport (\n\t_ \"embed\"\n\t\"os\"\n)\n\nvar Args = os.Args\n\nvar Env = os.Environ()\n",
}

var c20FailPaths = []string{"fmt", "os", "io", "bytes", "errors"}

func c20Prop(c *Ctx) {
	c.Res.Rule = "packages of 1-5 files drawn from a pool (imports, comments, //line directives before and after the package clause, files in sub-directories), each file edited or not; resolver failing for a package that exactly one file refers to, at every file index; every pool file alone and packages of 1-4 files under edits that make the print longer (a new declaration), shorter (the last declaration removed, all declarations removed: imports become unused) and equally long (a declared name changed), saved through SaveWithResolver or Save (when no package name needs resolving), once or twice in a row: the directory holds exactly the separately made import-managed prints, each of which parses; hand-built packages whose Syntax is not in the order of the file names (failure at a file that sorts after an edited file placed later in Syntax) and whose Decorator has decorated further files (edited, on disk or parsed from text) that are not in Syntax: those keep their bytes / are not created, and nothing after the failing file IN SYNTAX is written; non-trivial = distinct (file list, edits, failing path)"
	for i := 0; i < c.N(60); i++ {
		n := 1 + c.Rng.Intn(5)
		perm := c.Rng.Perm(len(c20Pool))
		var in c20Input
		for j := 0; j < n && j < len(perm); j++ {
			name := fmt.Sprintf("f%d.go", j)
			if c.Rng.Intn(4) == 0 {
				name = fmt.Sprintf("sub/f%d.go", j)
			}
			in.Files = append(in.Files, c20File{Name: name, Src: c20Pool[perm[j]], Edit: c.Rng.Intn(3) == 0})
		}
		if c.Rng.Intn(2) == 0 {
			in.FailPath = c20FailPaths[c.Rng.Intn(len(c20FailPaths))]
			// the failing file must be edited or not -- both; but the failure must come from a file that uses the path
		}
		c.Res.Evaluations++
		b, _ := json.Marshal(in)
		c.Res.seen(string(b))
		c.Res.hist("c20", fmt.Sprintf("files=%d fail=%v", n, in.FailPath != ""))
		if key, what := c20Check(c, in); key != "" {
			c.Res.fail(key, what, in)
		}
		if len(c.Res.Samples) < 2 && in.FailPath != "" {
			c.Res.Samples = append(c.Res.Samples, in)
		}
	}
	// edits that make the print shorter than, as long as and longer than the file on disk, through both
	// public entry points, once and twice in a row: every pool file alone under every kind of edit ...
	pool := append(append([]string{}, c20Pool...), c20EditPool...)
	kinds := []string{"grow", "remove-decl", "remove-all", "rename-same"}
	run := func(in c20Input, bucket string) {
		c.Res.Evaluations++
		b, _ := json.Marshal(in)
		c.Res.seen(string(b))
		c.Res.hist("c20", bucket)
		if key, what := c20Check(c, in); key != "" {
			c.Res.fail(key, what, in)
		}
	}
	for pi, src := range pool {
		for ki, kind := range kinds[1:] {
			in := c20Input{Files: []c20File{{Name: "f0.go", Src: src, Edit: true, Kind: kind}}}
			if (pi+ki)%2 == 0 {
				in.API = "Save"
			}
			if c.Rng.Intn(3) == 0 {
				in.Again = kinds[c.Rng.Intn(len(kinds))]
			}
			run(in, "one file, edit="+kind)
		}
	}
	// ... and packages of several files, edited in different ways or not at all, saved once or twice
	for i := 0; i < c.N(24); i++ {
		n := 1 + c.Rng.Intn(4)
		perm := c.Rng.Perm(len(pool))
		var in c20Input
		for j := 0; j < n; j++ {
			name := fmt.Sprintf("f%d.go", j)
			if c.Rng.Intn(4) == 0 {
				name = fmt.Sprintf("sub/f%d.go", j)
			}
			f := c20File{Name: name, Src: pool[perm[j]], Edit: c.Rng.Intn(3) != 0}
			if f.Edit {
				f.Kind = kinds[c.Rng.Intn(len(kinds))]
			}
			in.Files = append(in.Files, f)
		}
		if c.Rng.Intn(2) == 0 {
			in.API = "Save"
		}
		switch c.Rng.Intn(4) {
		case 0:
			in.Again = kinds[c.Rng.Intn(len(kinds))]
		case 1:
			in.FailPath = c20FailPaths[c.Rng.Intn(len(c20FailPaths))]
		}
		run(in, fmt.Sprintf("files=%d edit kinds, again=%v fail=%v", n, in.Again != "", in.FailPath != ""))
	}
	// hand-built packages whose Syntax is not what the Decorator's file-name table holds, in its order:
	// Syntax in an order other than that of the file names, and files decorated with the package's
	// Decorator (edited, on disk or not) that are not in Syntax. What is written is Syntax, in the order
	// of Syntax: a failure at file k leaves the files after k IN SYNTAX untouched, whatever their names.
	{
		// a package path c20Pool[i] refers to without an alias (i < 5); which file fails is worked out from the sources
		onlyUser := []string{"fmt", "os", "io", "bytes", "errors"}
		// fixed: the failing file is first in Syntax and last by name, the edited file after it
		for fi, failPath := range onlyUser {
			for _, kind := range []string{"grow", "rename-same"} {
				in := c20Input{FailPath: failPath, Files: []c20File{
					{Name: "f2.go", Src: c20Pool[fi]},
					{Name: "f0.go", Src: c20Pool[(fi+1)%5], Edit: true, Kind: kind},
					{Name: "f1.go", Src: c20Pool[5]},
				}}
				run(in, "syntax out of name order, failure at the first file")
			}
		}
		// fixed: an edited file of the Decorator that is not in Syntax, at each place in the decoration order
		for at := 0; at <= 2; at++ {
			for ki, kind := range kinds {
				in := c20Input{Files: []c20File{{Name: "f0.go", Src: c20Pool[0]}, {Name: "f2.go", Src: c20Pool[2], Edit: ki%2 == 1, Kind: "grow"}},
					Outside: []c20File{{Name: "f1.go", Src: c20EditPool[ki%len(c20EditPool)], Edit: true, Kind: kind, At: at}}}
				if ki == 3 {
					in.Outside[0].NoDisk = true
				}
				run(in, "a decorated file outside Syntax")
			}
		}
		for i := 0; i < c.N(30); i++ {
			n := 2 + c.Rng.Intn(3)
			perm := c.Rng.Perm(len(pool))
			namePerm := c.Rng.Perm(n + 2)
			var in c20Input
			for j := 0; j < n; j++ {
				name := fmt.Sprintf("f%d.go", namePerm[j])
				if c.Rng.Intn(5) == 0 {
					name = fmt.Sprintf("sub/f%d.go", namePerm[j])
				}
				f := c20File{Name: name, Src: pool[perm[j]], Edit: c.Rng.Intn(2) == 0}
				if f.Edit {
					f.Kind = kinds[c.Rng.Intn(len(kinds))]
				}
				in.Files = append(in.Files, f)
			}
			for j := n; j < n+c.Rng.Intn(3); j++ {
				f := c20File{Name: fmt.Sprintf("f%d.go", namePerm[j]), Src: pool[perm[j]], Edit: c.Rng.Intn(4) != 0, At: c.Rng.Intn(n + 1), NoDisk: c.Rng.Intn(4) == 0}
				if f.Edit {
					f.Kind = kinds[c.Rng.Intn(len(kinds))]
				}
				in.Outside = append(in.Outside, f)
			}
			switch c.Rng.Intn(3) {
			case 0:
				// fail for a path that a file of Syntax refers to without an alias
				var cand []int
				for j := 0; j < n; j++ {
					if perm[j] < len(onlyUser) {
						cand = append(cand, j)
					}
				}
				if len(cand) > 0 {
					in.FailPath = onlyUser[perm[cand[c.Rng.Intn(len(cand))]]]
				} else {
					in.FailPath = c20FailPaths[c.Rng.Intn(len(c20FailPaths))]
				}
			case 1:
				in.Again = kinds[c.Rng.Intn(len(kinds))]
			}
			run(in, fmt.Sprintf("syntax order / outside files: files=%d outside=%d fail=%v", n, len(in.Outside), in.FailPath != ""))
		}
	}
	for k, n := range c20Stats {
		for ; n > 0; n-- {
			c.Res.hist("c20-saves", k)
		}
	}
	// the recorded finding (same defect as C07/C08 duplicate-path-import): an unedited canonical file
	// that imports one path under two names
	{
		in := c20Input{Files: []c20File{{Name: "f0.go", Src: c20DupPath}, {Name: "f1.go", Src: c20Pool[5]}}}
		c.Res.Evaluations++
		if key, what := c20Check(c, in); key != "" {
			if key == "c20-bytes" {
				key = "duplicate-path-import"
			}
			c.Res.fail(key, what, in)
		}
	}
}

const c20DupPath = "package pkg\n\nimport (\n\t\"net/url\"\n\turlpkg \"net/url\"\n)\n\nvar _ = url.Parse\n\nvar _ = urlpkg.QueryEscape\n"

func init() {
	props["C20"] = c20Prop
	replays["C20"] = func(c *Ctx, raw json.RawMessage) (bool, string) {
		var in c20Input
		if err := json.Unmarshal(raw, &in); err != nil || len(in.Files) == 0 {
			return false, "not a C20 generated input"
		}
		key, what := c20Check(c, in)
		return key != "", what
	}
}
