package main

import (
	"bytes"
	"encoding/json"
	"fmt"
	"go/parser"
	"go/token"
	"os"
	"path/filepath"
	"sort"
	"strconv"

	"github.com/dave/dst"
	"github.com/dave/dst/decorator"
	"github.com/dave/dst/decorator/resolver"
	"golang.org/x/tools/go/packages"
)

// C20 on the implementation: a decorator.Package built by hand (decorator.Load needs the go
// tool) over files written to a scratch directory, saved with SaveWithResolver.
//   unedited: every file keeps its bytes, nothing else appears in the directory tree;
//   edited:   the bytes on disk are the import-managed print of the file;
//   failure:  a resolver that fails for a package only file k refers to: the error is returned,
//             files before k are written, file k and the later files keep their bytes, nothing
//             else is created.

type c20File struct {
	Name string `json:"name"` // relative path
	Src  string `json:"src"`
	Edit bool   `json:"edit"`
}

type c20Input struct {
	Files    []c20File `json:"files"`
	FailPath string    `json:"fail_path,omitempty"` // the resolver fails for this package path
}

type failPathResolver struct {
	inner resolver.RestorerResolver
	path  string
}

func (r failPathResolver) ResolvePackage(p string) (string, error) {
	if p == r.path {
		return "", errInjected
	}
	return r.inner.ResolvePackage(p)
}

func snapshotDir(root string) map[string]string {
	m := map[string]string{}
	filepath.Walk(root, func(p string, info os.FileInfo, err error) error {
		if err == nil && !info.IsDir() {
			b, _ := os.ReadFile(p)
			rel, _ := filepath.Rel(root, p)
			m[rel] = string(b)
		}
		return nil
	})
	return m
}

func c20Check(c *Ctx, in c20Input) (key, what string) {
	root, err := os.MkdirTemp(filepath.Join(c.Verif, ".build"), "c20-")
	if err != nil {
		return "", ""
	}
	defer os.RemoveAll(root)
	for _, f := range in.Files {
		p := filepath.Join(root, f.Name)
		os.MkdirAll(filepath.Dir(p), 0755)
		os.WriteFile(p, []byte(f.Src), 0644)
	}
	before := snapshotDir(root)
	fset := token.NewFileSet()
	dec := decorator.NewDecoratorWithImports(fset, "example.com/pkg", goastNew())
	pkg := &decorator.Package{Package: &packages.Package{PkgPath: "example.com/pkg"}, Dir: root, Decorator: dec}
	expected := map[string]string{}
	for _, f := range in.Files {
		p := filepath.Join(root, f.Name)
		df, err := dec.ParseFile(p, nil, parser.ParseComments)
		if err != nil {
			return "", ""
		}
		if f.Edit {
			// an edit: a new declaration at the end
			df.Decls = append(df.Decls, &dst.GenDecl{Tok: token.VAR, Specs: []dst.Spec{&dst.ValueSpec{Names: []*dst.Ident{dst.NewIdent("Added")}, Type: dst.NewIdent("int")}},
				Decs: dst.GenDeclDecorations{NodeDecs: dst.NodeDecs{Before: dst.EmptyLine}}})
		}
		pkg.Syntax = append(pkg.Syntax, df)
	}
	names := map[string]string{}
	for _, f := range in.Files {
		for k, v := range accurateNames(f.Src) {
			names[k] = v
		}
	}
	var rr resolver.RestorerResolver = &mapResolver{m: names}
	// what each file should contain: the import-managed print (computed on clones, separately)
	for i, f := range in.Files {
		cl := dst.Clone(pkg.Syntax[i]).(*dst.File)
		var buf bytes.Buffer
		if err := decorator.NewRestorerWithImports("example.com/pkg", &mapResolver{m: names}).Fprint(&buf, cl); err == nil {
			expected[f.Name] = buf.String()
		}
	}
	failIdx := -1
	if in.FailPath != "" {
		rr = failPathResolver{rr, in.FailPath}
		// the package-name resolver is asked only for referenced paths without an alias in effect
		for i, f := range in.Files {
			pf, perr := parser.ParseFile(token.NewFileSet(), "", f.Src, parser.ImportsOnly)
			if perr != nil {
				continue
			}
			for _, is := range pf.Imports {
				if p, _ := strconv.Unquote(is.Path.Value); p == in.FailPath && is.Name == nil {
					failIdx = i
				}
			}
			if failIdx >= 0 {
				break
			}
		}
	}
	var serr error
	if pm := safely(func() { serr = pkg.SaveWithResolver(rr) }); pm != "" {
		return "c20-panic", "SaveWithResolver panicked: " + pm
	}
	after := snapshotDir(root)
	// nothing but the package's files
	var extra []string
	for p := range after {
		if _, ok := before[p]; !ok {
			extra = append(extra, p)
		}
	}
	sort.Strings(extra)
	if len(extra) > 0 {
		return "c20-elsewhere", fmt.Sprintf("Save created files that were not loaded: %v", extra)
	}
	for p := range before {
		if _, ok := after[p]; !ok {
			return "c20-elsewhere", "Save removed " + p
		}
	}
	if failIdx < 0 {
		if serr != nil {
			return "c20-error", "Save failed: " + serr.Error()
		}
		for _, f := range in.Files {
			want := expected[f.Name]
			if !f.Edit && isCanonical(f.Src) {
				want = f.Src
			}
			if after[f.Name] != want {
				what := "unedited gofmt-canonical file changed on disk"
				if f.Edit {
					what = "the saved bytes are not the import-managed print of the edited file"
				}
				return "c20-bytes", fmt.Sprintf("%s: %s\n%s", f.Name, what, firstDiff(want, after[f.Name]))
			}
		}
		return "", ""
	}
	if serr == nil {
		return "c20-swallowed", fmt.Sprintf("the resolver failed for %s (file %d) but Save returned no error", in.FailPath, failIdx)
	}
	for i, f := range in.Files {
		switch {
		case i < failIdx:
			if after[f.Name] != expected[f.Name] {
				return "c20-bytes", fmt.Sprintf("%s (before the failing file) was not written with its print", f.Name)
			}
		default:
			if after[f.Name] != before[f.Name] {
				return "c20-after-failure", fmt.Sprintf("%s (file %d; the resolver failed at file %d) was modified: %d bytes -> %d bytes", f.Name, i, failIdx, len(before[f.Name]), len(after[f.Name]))
			}
		}
	}
	return "", ""
}

var c20Pool = []string{
	"package pkg\n\nimport \"fmt\"\n\n// A prints.\nfunc A() {\n\tfmt.Println(\"a\") // trailing\n}\n",
	"package pkg\n\nimport (\n\t\"os\"\n\t\"strings\"\n)\n\nvar B = strings.ToUpper(os.Args[0])\n",
	"package pkg\n\nimport \"io\"\n\ntype R struct {\n\tio.Reader // embedded\n}\n",
	"//line parser.y:2\npackage pkg\n\nimport \"bytes\"\n\nvar Buf bytes.Buffer\n",
	"package pkg\n\nimport \"errors\"\n\nvar ErrX = errors.New(\"x\")\n\n//line other.y:10\nfunc g() error { return ErrX }\n",
	"package pkg\n\nconst K = 1\n",
	// the same paths as above under other names: one file's view of a package (its alias) must not
	// reach the other files saved through the same restorer
	"package pkg\n\nimport str \"strings\"\n\nvar C = str.ToLower(\"X\")\n",
	"package pkg\n\nimport (\n\tf \"fmt\"\n\tstr \"os\"\n)\n\nvar D = f.Sprint(str.Args)\n",
	"package pkg\n\nimport \"strings\"\n\nvar E = strings.Repeat(\"a\", 2)\n",
	"package pkg\n\nimport (\n\tfmt2 \"fmt\"\n\tio \"bytes\"\n)\n\nvar F = fmt2.Sprint(io.MinRead)\n",
	"package pkg\n\nimport . \"errors\"\n\nvar ErrY = New(\"y\")\n",
}

var c20FailPaths = []string{"fmt", "os", "io", "bytes", "errors"}

func c20Prop(c *Ctx) {
	c.Res.Rule = "packages of 1-5 files drawn from a pool (imports, comments, //line directives before and after the package clause, files in sub-directories), each file edited or not; resolver failing for a package that exactly one file refers to, at every file index; non-trivial = distinct (file list, edits, failing path)"
	for i := 0; i < c.N(60); i++ {
		n := 1 + c.Rng.Intn(5)
		perm := c.Rng.Perm(len(c20Pool))
		var in c20Input
		for j := 0; j < n && j < len(perm); j++ {
			name := fmt.Sprintf("f%d.go", j)
			if c.Rng.Intn(4) == 0 {
				name = fmt.Sprintf("sub/f%d.go", j)
			}
			in.Files = append(in.Files, c20File{Name: name, Src: c20Pool[perm[j]], Edit: c.Rng.Intn(3) == 0})
		}
		if c.Rng.Intn(2) == 0 {
			in.FailPath = c20FailPaths[c.Rng.Intn(len(c20FailPaths))]
			// the failing file must be edited or not -- both; but the failure must come from a file that uses the path
		}
		c.Res.Evaluations++
		b, _ := json.Marshal(in)
		c.Res.seen(string(b))
		c.Res.hist("c20", fmt.Sprintf("files=%d fail=%v", n, in.FailPath != ""))
		if key, what := c20Check(c, in); key != "" {
			c.Res.fail(key, what, in)
		}
		if len(c.Res.Samples) < 2 && in.FailPath != "" {
			c.Res.Samples = append(c.Res.Samples, in)
		}
	}
	// the recorded finding (same defect as C07/C08 duplicate-path-import): an unedited canonical file
	// that imports one path under two names
	{
		in := c20Input{Files: []c20File{{Name: "f0.go", Src: c20DupPath}, {Name: "f1.go", Src: c20Pool[5]}}}
		c.Res.Evaluations++
		if key, what := c20Check(c, in); key != "" {
			if key == "c20-bytes" {
				key = "duplicate-path-import"
			}
			c.Res.fail(key, what, in)
		}
	}
}

const c20DupPath = "package pkg\n\nimport (\n\t\"net/url\"\n\turlpkg \"net/url\"\n)\n\nvar _ = url.Parse\n\nvar _ = urlpkg.QueryEscape\n"

func init() {
	props["C20"] = c20Prop
	replays["C20"] = func(c *Ctx, raw json.RawMessage) (bool, string) {
		var in c20Input
		if err := json.Unmarshal(raw, &in); err != nil || len(in.Files) == 0 {
			return false, "not a C20 generated input"
		}
		key, what := c20Check(c, in)
		return key != "", what
	}
}
