package main

import (
	"bytes"
	"encoding/json"
	"fmt"
	"go/format"
	"go/scanner"
	"go/token"
	"math/rand"
	"strings"

	"github.com/dave/dst"
	"github.com/dave/dst/decorator"
)

// C02 on the implementation: a source with two sibling lists of one kind, every element a chunk
// (directly preceding comment lines + the element + a trailing same-line comment, optionally a
// comment inside the element), one element per line, uniform separators.  The same edit history
// (swap, delete, duplicate with Clone, move to the other list) is applied to the dst lists and
// to the chunk lists; the print must equal gofmt of the source rebuilt from the edited chunks.

type c02Chunk struct {
	Name  string   `json:"name"`
	Lead  []string `json:"lead"`  // comment lines before the element
	Tail  string   `json:"tail"`  // same-line comment after it ("" = none)
	Inner bool     `json:"inner"` // a block comment inside the element's call parentheses
	Gaps  []int    `json:"gaps"`  // block comments at these token gaps of the element text (index mod number of gaps)
	// Wide: TWO blank lines stand in front of the chunk (in front of its leading comment lines) in the
	// text that is decorated: legal input, not in gofmt form (gofmt makes one blank line of them).  The
	// blank lines in front of an element are edited with it.
	Wide bool `json:"wide,omitempty"`
}

type c02Op struct {
	Op   string `json:"op"` // swap | delete | dup | move
	List int    `json:"list"`
	I    int    `json:"i"`
	J    int    `json:"j"`
}

type c02Input struct {
	Kind  string       `json:"kind"`
	Blank bool         `json:"blank"` // blank-line separators instead of line breaks
	Lists [][]c02Chunk `json:"lists"`
	Ops   []c02Op      `json:"ops"`
	// Tails (cbody / commbody): what stands between the last statement of clause body k and the next
	// clause, part of the frame and not of any chunk: "" or an empty line and a comment hanging at
	// statement indent (the decorator gives it to the clause: End = ["\n", "\n", "// ..."])
	Tails []string `json:"tails,omitempty"`
}

// qelt / qarg: literal elements and call arguments that are bare qualified identifiers (q.Name), in a
// file that imports "q", decorated with the goast resolver and printed with import management: the
// hand-written collapse (decorateSelectorExpr) and expansion (restoreIdent) carry the chunk's
// comments and spacing
// cbody / commbody: the statement lists of two case / comm clause bodies (a clause has no closing
// token: what ends the line of its last statement is the statement's own After space or the clause's
// End decorations)
var c02Kinds = []string{"stmt", "decl", "spec", "field", "method", "elt", "arg", "case", "import", "qelt", "qarg", "cbody", "commbody"}

func c02ClauseBody(kind string) bool { return kind == "cbody" || kind == "commbody" }

func c02Managed(kind string) bool { return kind == "qelt" || kind == "qarg" }

// the element text (without indentation) and the indentation of the list
func c02Elem(kind string, c c02Chunk) (string, string) {
	call := "()"
	if c.Inner {
		call = "( /* in " + c.Name + " */ )"
	}
	switch kind {
	case "stmt":
		return c.Name + call, "\t"
	case "cbody", "commbody":
		return c.Name + call, "\t\t"
	case "decl":
		return "var " + c.Name + " = f" + call, ""
	case "spec":
		return c.Name + " = f" + call, "\t"
	case "field":
		return strings.ToUpper(c.Name) + " func" + call, "\t"
	case "method":
		return strings.ToUpper(c.Name) + call, "\t"
	case "elt":
		return c.Name + call + ",", "\t\t"
	case "arg":
		return c.Name + call + ",", "\t\t"
	case "qelt", "qarg":
		return "q." + strings.ToUpper(c.Name) + ",", "\t\t"
	case "case":
		return "case " + c.Name + call + ":\n\t\t" + c.Name + "()", "\t"
	case "import":
		return "\"" + c.Name + "\"", "\t"
	}
	return "", ""
}

// block comments at token gaps of the element text: gap k is the position just after token k
func c02WithGaps(el string, c c02Chunk) string {
	if len(c.Gaps) == 0 {
		return el
	}
	fset := token.NewFileSet()
	file := fset.AddFile("", fset.Base(), len(el))
	var sc scanner.Scanner
	sc.Init(file, []byte(el), nil, scanner.ScanComments)
	var ends []int
	for {
		pos, tok, lit := sc.Scan()
		if tok == token.EOF {
			break
		}
		if tok == token.SEMICOLON && lit == "\n" || tok == token.COMMENT {
			continue
		}
		n := len(lit)
		if n == 0 {
			n = len(tok.String())
		}
		ends = append(ends, file.Offset(pos)+n)
	}
	if len(ends) == 0 {
		return el
	}
	ins := map[int]string{}
	for i, g := range c.Gaps {
		e := ends[((g%len(ends))+len(ends))%len(ends)]
		ins[e] += fmt.Sprintf(" /* g%d %s */", i, c.Name)
	}
	var sb strings.Builder
	for i := 0; i <= len(el); i++ {
		if t, ok := ins[i]; ok {
			sb.WriteString(t)
			if i < len(el) && el[i] != ' ' && el[i] != '\n' {
				sb.WriteString(" ")
			}
		}
		if i < len(el) {
			sb.WriteByte(el[i])
		}
	}
	return sb.String()
}

func c02ChunkText(kind string, c c02Chunk) string {
	el, ind := c02Elem(kind, c)
	el = c02WithGaps(el, c)
	var sb strings.Builder
	if c.Wide {
		sb.WriteString("\n\n")
	}
	for _, l := range c.Lead {
		sb.WriteString(ind + l + "\n")
	}
	sb.WriteString(ind + el)
	if c.Tail != "" {
		sb.WriteString(" " + c.Tail)
	}
	sb.WriteString("\n")
	return sb.String()
}

func c02Source(in c02Input, lists [][]c02Chunk) string {
	sep := ""
	if in.Blank {
		sep = "\n"
	}
	body := func(k int) string {
		var parts []string
		for _, c := range lists[k] {
			parts = append(parts, c02ChunkText(in.Kind, c))
		}
		return strings.Join(parts, sep)
	}
	tail := func(k int) string {
		if k < len(in.Tails) {
			return in.Tails[k]
		}
		return ""
	}
	switch in.Kind {
	case "stmt":
		return "package p\n\nfunc fA() {\n" + sep + body(0) + sep + "}\n\nfunc fB() {\n" + sep + body(1) + sep + "}\n"
	case "decl":
		return "package p\n\n" + body(0)
	case "spec":
		return "package p\n\nvar (\n" + body(0) + ")\n\nvar (\n" + body(1) + ")\n"
	case "field":
		return "package p\n\ntype TA struct {\n" + body(0) + "}\n\ntype TB struct {\n" + body(1) + "}\n"
	case "method":
		return "package p\n\ntype IA interface {\n" + body(0) + "}\n\ntype IB interface {\n" + body(1) + "}\n"
	case "elt":
		return "package p\n\nfunc f() {\n\txA := []int{\n" + body(0) + "\t}\n\txB := []int{\n" + body(1) + "\t}\n}\n"
	case "qelt":
		return "package p\n\nimport \"q\"\n\nfunc f() {\n\txA := []int{\n" + body(0) + "\t}\n\txB := []int{\n" + body(1) + "\t}\n}\n"
	case "qarg":
		return "package p\n\nimport \"q\"\n\nfunc f() {\n\tgA(\n" + body(0) + "\t)\n\tgB(\n" + body(1) + "\t)\n}\n"
	case "arg":
		return "package p\n\nfunc f() {\n\tgA(\n" + body(0) + "\t)\n\tgB(\n" + body(1) + "\t)\n}\n"
	case "case":
		return "package p\n\nfunc f() {\n\tswitch xA {\n" + body(0) + "\t}\n\tswitch xB {\n" + body(1) + "\t}\n}\n"
	case "import":
		return "package p\n\nimport (\n" + body(0) + ")\n\nimport (\n" + body(1) + ")\n"
	case "cbody":
		return "package p\n\nfunc f() {\n\tswitch x {\n\tcase 1:\n" + sep + body(0) + tail(0) + "\tcase 2:\n" + sep + body(1) + tail(1) + "\tdefault:\n\t\tz()\n\t}\n}\n"
	case "commbody":
		return "package p\n\nfunc f() {\n\tselect {\n\tcase <-c1:\n" + sep + body(0) + tail(0) + "\tcase c2 <- 1:\n" + sep + body(1) + tail(1) + "\tdefault:\n\t\tz()\n\t}\n}\n"
	}
	return ""
}

// the two dst lists of the parsed source, as generic accessors
type c02List struct {
	get func() []dst.Node
	set func([]dst.Node)
}

func stmtList(p *[]dst.Stmt) c02List {
	return c02List{func() []dst.Node {
		var o []dst.Node
		for _, x := range *p {
			o = append(o, x)
		}
		return o
	}, func(ns []dst.Node) {
		*p = nil
		for _, n := range ns {
			*p = append(*p, n.(dst.Stmt))
		}
	}}
}
func declList(p *[]dst.Decl) c02List {
	return c02List{func() []dst.Node {
		var o []dst.Node
		for _, x := range *p {
			o = append(o, x)
		}
		return o
	}, func(ns []dst.Node) {
		*p = nil
		for _, n := range ns {
			*p = append(*p, n.(dst.Decl))
		}
	}}
}
func specList(p *[]dst.Spec) c02List {
	return c02List{func() []dst.Node {
		var o []dst.Node
		for _, x := range *p {
			o = append(o, x)
		}
		return o
	}, func(ns []dst.Node) {
		*p = nil
		for _, n := range ns {
			*p = append(*p, n.(dst.Spec))
		}
	}}
}
func fieldList(p *[]*dst.Field) c02List {
	return c02List{func() []dst.Node {
		var o []dst.Node
		for _, x := range *p {
			o = append(o, x)
		}
		return o
	}, func(ns []dst.Node) {
		*p = nil
		for _, n := range ns {
			*p = append(*p, n.(*dst.Field))
		}
	}}
}
func exprList(p *[]dst.Expr) c02List {
	return c02List{func() []dst.Node {
		var o []dst.Node
		for _, x := range *p {
			o = append(o, x)
		}
		return o
	}, func(ns []dst.Node) {
		*p = nil
		for _, n := range ns {
			*p = append(*p, n.(dst.Expr))
		}
	}}
}

func c02Locate(kind string, f *dst.File) []c02List {
	var out []c02List
	switch kind {
	case "stmt":
		for _, d := range f.Decls {
			out = append(out, stmtList(&d.(*dst.FuncDecl).Body.List))
		}
	case "decl":
		out = append(out, declList(&f.Decls))
	case "spec", "import":
		for _, d := range f.Decls {
			out = append(out, specList(&d.(*dst.GenDecl).Specs))
		}
	case "field":
		for _, d := range f.Decls {
			out = append(out, fieldList(&d.(*dst.GenDecl).Specs[0].(*dst.TypeSpec).Type.(*dst.StructType).Fields.List))
		}
	case "method":
		for _, d := range f.Decls {
			out = append(out, fieldList(&d.(*dst.GenDecl).Specs[0].(*dst.TypeSpec).Type.(*dst.InterfaceType).Methods.List))
		}
	case "elt":
		for _, s := range f.Decls[0].(*dst.FuncDecl).Body.List {
			out = append(out, exprList(&s.(*dst.AssignStmt).Rhs[0].(*dst.CompositeLit).Elts))
		}
	case "qelt":
		for _, s := range f.Decls[1].(*dst.FuncDecl).Body.List {
			out = append(out, exprList(&s.(*dst.AssignStmt).Rhs[0].(*dst.CompositeLit).Elts))
		}
	case "qarg":
		for _, s := range f.Decls[1].(*dst.FuncDecl).Body.List {
			out = append(out, exprList(&s.(*dst.ExprStmt).X.(*dst.CallExpr).Args))
		}
	case "arg":
		for _, s := range f.Decls[0].(*dst.FuncDecl).Body.List {
			out = append(out, exprList(&s.(*dst.ExprStmt).X.(*dst.CallExpr).Args))
		}
	case "case":
		for _, s := range f.Decls[0].(*dst.FuncDecl).Body.List {
			out = append(out, stmtList(&s.(*dst.SwitchStmt).Body.List))
		}
	case "cbody":
		for _, cc := range f.Decls[0].(*dst.FuncDecl).Body.List[0].(*dst.SwitchStmt).Body.List[:2] {
			out = append(out, stmtList(&cc.(*dst.CaseClause).Body))
		}
	case "commbody":
		for _, cc := range f.Decls[0].(*dst.FuncDecl).Body.List[0].(*dst.SelectStmt).Body.List[:2] {
			out = append(out, stmtList(&cc.(*dst.CommClause).Body))
		}
	}
	return out
}

// The elements an edit may touch.  Spacing travels with the node (README, "Spacing"), so the
// property's "uniform separators" means: every element has the same Before and After once the
// delimiters are counted as separators.  Where gofmt does not allow that (it strips blank lines
// next to ( ) and struct / interface braces; the first declaration of a file always follows a
// blank line) the first / last element is different from the others and stays where it is.
func c02Range(kind string, blank bool) (lo, hs int) {
	switch {
	case kind == "decl" && !blank:
		return 1, 0
	case kind == "decl" && blank:
		return 0, 1
	case blank && kind != "stmt":
		return 1, 1
	}
	return 0, 0
}

// one edit on a pair of lists of anything
func c02Apply[T any](lists [][]T, op c02Op, lo, hs int, clone func(T) T) ([][]T, bool) {
	if op.List < 0 || op.List >= len(lists) {
		return lists, false
	}
	l := lists[op.List]
	n := len(l)
	switch op.Op {
	case "swap":
		if op.I < lo || op.J < lo || op.I >= n-hs || op.J >= n-hs || op.I == op.J {
			return lists, false
		}
		l[op.I], l[op.J] = l[op.J], l[op.I]
	case "delete":
		if n < 2 || op.I < lo || op.I >= n-hs {
			return lists, false
		}
		lists[op.List] = append(append([]T{}, l[:op.I]...), l[op.I+1:]...)
	case "dup":
		if op.I < lo || op.I >= n-hs || op.J < lo || op.J > n-hs {
			return lists, false
		}
		c := clone(l[op.I])
		nl := append(append(append([]T{}, l[:op.J]...), c), l[op.J:]...)
		lists[op.List] = nl
	case "move":
		if len(lists) < 2 || n < 2 || op.I < lo || op.I >= n-hs {
			return lists, false
		}
		o := 1 - op.List
		if op.J < lo || op.J > len(lists[o])-hs {
			return lists, false
		}
		x := l[op.I]
		lists[op.List] = append(append([]T{}, l[:op.I]...), l[op.I+1:]...)
		lists[o] = append(append(append([]T{}, lists[o][:op.J]...), x), lists[o][op.J:]...)
	default:
		return lists, false
	}
	return lists, true
}

var c02Stat = map[string]int{}

func c02Check(in c02Input) (key, what string) {
	// the original: gofmt of the chunk layout (gofmt only aligns trailing comments and field types
	// here; if it does more, the layout is outside the class and skipped)
	raw := c02Source(in, in.Lists)
	fsrc, ferr := format.Source([]byte(raw))
	if ferr != nil || strings.Join(strings.Fields(string(fsrc)), " ") != strings.Join(strings.Fields(raw), " ") {
		c02Stat["skipped: gofmt changes more than alignment"]++
		return "", ""
	}
	src := string(fsrc)
	for _, l := range in.Lists {
		for _, ch := range l {
			if ch.Wide {
				// the layout with its gap of two blank lines is decorated as written (gofmt would
				// make one blank line of the gap); gofmt of the edited text stays the reference
				src = raw
			}
		}
	}
	var f *dst.File
	var err error
	if c02Managed(in.Kind) {
		f, err = decorator.NewDecoratorWithImports(token.NewFileSet(), "example.com/self", goastNew()).Parse(src)
	} else {
		f, err = decorator.Parse(src)
	}
	if err != nil {
		return "", ""
	}
	refs := c02Locate(in.Kind, f)
	if len(refs) != len(in.Lists) {
		return "", ""
	}
	var nodes [][]dst.Node
	for _, r := range refs {
		nodes = append(nodes, r.get())
	}
	chunks := make([][]c02Chunk, len(in.Lists))
	for i := range in.Lists {
		chunks[i] = append([]c02Chunk{}, in.Lists[i]...)
	}
	for i := range nodes {
		if len(nodes[i]) != len(chunks[i]) {
			return "", ""
		}
	}
	applied := 0
	lo, hs := c02Range(in.Kind, in.Blank)
	for _, op := range in.Ops {
		var ok1, ok2 bool
		chunks, ok1 = c02Apply(chunks, op, lo, hs, func(c c02Chunk) c02Chunk { return c })
		if !ok1 {
			continue
		}
		nodes, ok2 = c02Apply(nodes, op, lo, hs, func(n dst.Node) dst.Node { return dst.Clone(n) })
		if !ok2 {
			return "c02-harness", "edit applied to chunks but not to nodes"
		}
		applied++
	}
	for i, r := range refs {
		r.set(nodes[i])
	}
	wantSrc := c02Source(in, chunks)
	want, err := format.Source([]byte(wantSrc))
	if err != nil {
		return "", ""
	}
	var out string
	var perr error
	var pm string
	if c02Managed(in.Kind) {
		pm = safely(func() {
			var buf bytes.Buffer
			perr = decorator.NewRestorerWithImports("example.com/self", guessNew()).Fprint(&buf, f)
			out = buf.String()
		})
	} else {
		out, perr, pm = printDst(f)
	}
	if pm != "" {
		return "c02-panic", "printing the edited tree panicked: " + pm
	}
	if perr != nil {
		return "c02-error", "printing the edited tree failed: " + perr.Error()
	}
	c02Stat[fmt.Sprintf("compared: %d edits applied", applied)]++
	// the same tree through a restorer with Extras (objects and scopes restored; a deleted element that
	// an object still points at is restored outside the tree): nothing of it may reach the print
	if out == string(want) && !c02Managed(in.Kind) {
		var out2 string
		var err2 error
		pm2 := safely(func() {
			r := decorator.NewRestorer()
			r.Extras = true
			var buf bytes.Buffer
			err2 = r.Fprint(&buf, f)
			out2 = buf.String()
		})
		if pm2 == "" && err2 == nil && out2 != out {
			return "c02-extras", fmt.Sprintf("%s list, %d edits: the print with Restorer.Extras differs from the print without:\n%s", in.Kind, applied, firstDiff(out, out2))
		}
	}
	if out != string(want) {
		k := "c02-bytes"
		// every comment still with its element?  (diagnosis only)
		return k, fmt.Sprintf("%s list, %d edits: print differs from gofmt of the chunk-edited source:\n%s", in.Kind, applied, firstDiff(string(want), out))
	}
	return "", ""
}

func c02Gen(r *rand.Rand, kind string, blank bool) c02Input {
	in := c02Input{Kind: kind, Blank: blank}
	nl := 2
	if kind == "decl" {
		nl = 1
	}
	id := 0
	for k := 0; k < nl; k++ {
		var l []c02Chunk
		n := 1 + r.Intn(5)
		for i := 0; i < n; i++ {
			id++
			c := c02Chunk{Name: fmt.Sprintf("a%02d", id)}
			nlead := r.Intn(3)
			if kind == "decl" && !blank && i > 0 {
				nlead = 0 // gofmt forces a blank line before a declaration with a doc comment: not uniform
			}
			for j := nlead; j > 0; j-- {
				c.Lead = append(c.Lead, fmt.Sprintf("// lead %d of %s", j, c.Name))
			}
			if r.Intn(2) == 0 {
				c.Tail = "// tail of " + c.Name
			}
			c.Inner = r.Intn(4) == 0 && kind != "import"
			if r.Intn(3) == 0 && kind != "import" {
				for g := 1 + r.Intn(2); g > 0; g-- {
					c.Gaps = append(c.Gaps, r.Intn(12))
				}
			}
			l = append(l, c)
		}
		if c02ClauseBody(kind) {
			// (the recorded finding clause-body-last-trailing-comment: the same-line comment of the
			// statement that is last when parsed belongs to the clause, and so does a general comment
			// after its last token)
			l[len(l)-1].Tail = ""
			l[len(l)-1].Gaps = nil
			// (a comment hanging directly below the last statement, End = ["\n", "// ..."], is not
			// generated: after an edit that leaves a statement with After: NewLine in last position an
			// empty line appears above it -- reported separately)
			t := ""
			if r.Intn(3) != 0 {
				t = fmt.Sprintf("\n\t\t// the clause %d ends here\n", k)
			}
			in.Tails = append(in.Tails, t)
		}
		in.Lists = append(in.Lists, l)
	}
	// edits chosen against the simulated list lengths so that most of them apply
	lo, hs := c02Range(kind, blank)
	lens := []int{}
	for _, l := range in.Lists {
		lens = append(lens, len(l))
	}
	pick := func(a, b int) int { // a <= x < b, or -1
		if b <= a {
			return -1
		}
		return a + r.Intn(b-a)
	}
	for i := 1 + r.Intn(6); i > 0; i-- {
		op := c02Op{Op: []string{"swap", "delete", "dup", "move", "swap"}[r.Intn(5)], List: r.Intn(nl)}
		n := lens[op.List]
		switch op.Op {
		case "swap":
			op.I, op.J = pick(lo, n-hs), pick(lo, n-hs)
		case "delete":
			op.I = pick(lo, n-hs)
			if n >= 2 && op.I >= 0 {
				lens[op.List]--
			}
		case "dup":
			op.I, op.J = pick(lo, n-hs), pick(lo, n-hs+1)
			if op.I >= 0 && op.J >= 0 {
				lens[op.List]++
			}
		case "move":
			op.I = pick(lo, n-hs)
			if nl == 2 {
				op.J = pick(lo, lens[1-op.List]-hs+1)
				if n >= 2 && op.I >= 0 && op.J >= 0 {
					lens[op.List]--
					lens[1-op.List]++
				}
			}
		}
		in.Ops = append(in.Ops, op)
	}
	return in
}

// c02GenWide: a line-break separated layout as above in which ONE element (not the first) stands behind
// a gap of two blank lines, and an edit history that separates the two neighbours of the gap: the
// element before the gap is deleted, or the element behind it is duplicated with Clone or moved to the
// other list (and the element before the gap deleted afterwards, or first).  In the text the blank
// lines in front of an element are part of what is deleted / copied / moved with it; the histories are
// those for which it makes no difference to gofmt of the edited text whether the gap is also counted
// to the element before it (spacing is stored on both neighbours, README "Spacing").
func c02GenWide(r *rand.Rand, kind string) c02Input {
	lo, _ := c02Range(kind, false)
	var in c02Input
	L := -1
	for try := 0; try < 50 && L < 0; try++ {
		in = c02Gen(r, kind, false)
		var ok []int
		for k, l := range in.Lists {
			if len(l) >= lo+2 {
				ok = append(ok, k)
			}
		}
		if len(ok) > 0 {
			L = ok[r.Intn(len(ok))]
		}
	}
	in.Ops = nil
	if L < 0 {
		return in
	}
	n := len(in.Lists[L])
	g := lo + 1 + r.Intn(n-lo-1)
	in.Lists[L][g].Wide = true
	// (moving an element out takes the element before the gap out as well: that one keeps its share of
	// the gap, and what that means for the element that follows it then is the recorded finding
	// blank-line-separator-stored-per-node; no list is emptied)
	sc := r.Intn(5)
	if (len(in.Lists) != 2 || n < lo+3) && sc >= 2 {
		sc = r.Intn(2)
	}
	switch sc {
	case 0:
		in.Ops = []c02Op{{Op: "delete", List: L, I: g - 1}}
	case 1:
		in.Ops = []c02Op{{Op: "dup", List: L, I: g, J: lo + r.Intn(n+1-lo)}}
		if r.Intn(2) == 0 {
			j := in.Ops[0].J
			a := g - 1 // where the element before the gap is after the insertion
			if j <= a {
				a++
			}
			if r.Intn(2) == 0 {
				in.Ops = append(in.Ops, c02Op{Op: "delete", List: L, I: a})
			} else {
				in.Ops = append([]c02Op{{Op: "delete", List: L, I: g - 1}}, c02Op{Op: "dup", List: L, I: g - 1, J: lo + r.Intn(n-lo)})
			}
		}
	case 2, 3:
		o := 1 - L
		in.Ops = []c02Op{{Op: "move", List: L, I: g, J: lo + r.Intn(len(in.Lists[o])+1-lo)}, {Op: "delete", List: L, I: g - 1}}
	case 4:
		o := 1 - L
		in.Ops = []c02Op{{Op: "delete", List: L, I: g - 1}, {Op: "move", List: L, I: g - 1, J: lo + r.Intn(len(in.Lists[o])+1-lo)}}
	}
	return in
}

func c02Prop(c *Ctx) {
	c.Res.Rule = "nine list kinds (+ qualified-identifier elements / arguments with managed imports, + the statement lists of case / comm clause bodies with nothing or an empty line and a hanging comment between the last statement and the next clause) x {line-break, blank-line} separators x random chunk layouts (0-2 leading comment lines, optional trailing comment, optional inner comment, 1-4 elements per list, two lists) x random edit histories of 1-5 swap/delete/dup(Clone)/move; gofmt-canonical sources, and line-break separated layouts with ONE gap of two blank lines (legal, not gofmt form) under the edit histories that separate the neighbours of the gap (delete the element before it, Clone / move the element behind it); the print must equal gofmt of the chunk-edited source; non-trivial = distinct input with at least one applicable edit"
	for _, kind := range c02Kinds {
		for _, blank := range []bool{false, true} {
			for i := 0; i < c.N(40); i++ {
				in := c02Gen(c.Rng, kind, blank)
				c.Res.Evaluations++
				b, _ := json.Marshal(in)
				c.Res.seen(string(b))
				c.Res.hist("c02-kind", kind)
				for _, op := range in.Ops {
					c.Res.hist("c02-op", op.Op)
				}
				if key, what := c02Check(in); key != "" {
					c.Res.fail(key, what, in)
				}
			}
		}
	}
	// the same list kinds with a gap of two blank lines in the (then not gofmt-canonical) input
	for _, kind := range c02Kinds {
		if kind == "case" {
			// not for case clauses: on the unchanged tree a clause with leading comment lines that comes to stand
			// first in the switch body, or behind a clause whose last statement has a same-line comment, loses
			// the blank line that gofmt of the edited text keeps in front of its comment lines (not yet recorded)
			continue
		}
		for i := 0; i < c.N(16); i++ {
			in := c02GenWide(c.Rng, kind)
			if len(in.Ops) == 0 {
				continue
			}
			c.Res.Evaluations++
			b, _ := json.Marshal(in)
			c.Res.seen(string(b))
			c.Res.hist("c02-kind", kind+"+wide-gap")
			if key, what := c02Check(in); key != "" {
				c.Res.fail(key+"-wide-gap", what, in)
			}
		}
	}
	for k, v := range c02Stat {
		for i := 0; i < v; i++ {
			c.Res.hist("c02-outcome", k)
		}
	}
	c.Res.Samples = append(c.Res.Samples, c02Gen(c.Rng, "stmt", false))
	c02Known(c)
}

// Recorded findings: layouts the generator above does not produce, where the attachment model binds a
// comment (or a separator) to another node than the chunk it belongs to.  Each: a canonical source,
// one edit of one list, and gofmt of the source with the same chunks edited.
type c02Fixed struct {
	Key, Src, Edit, Want string
	Do                   func(f *dst.File)
}

func c02Known(c *Ctx) {
	body := func(f *dst.File) *[]dst.Stmt { return &f.Decls[0].(*dst.FuncDecl).Body.List }
	cases := []c02Fixed{
		{Key: "clause-body-last-trailing-comment",
			Src:  "package a\n\nfunc f() {\n\tswitch x {\n\tcase 1:\n\t\ta()\n\t\tb() // about b\n\t}\n}\n",
			Edit: "swap the two statements of the case body",
			Want: "package a\n\nfunc f() {\n\tswitch x {\n\tcase 1:\n\t\tb() // about b\n\t\ta()\n\t}\n}\n",
			Do: func(f *dst.File) {
				l := &(*body(f))[0].(*dst.SwitchStmt).Body.List[0].(*dst.CaseClause).Body
				(*l)[0], (*l)[1] = (*l)[1], (*l)[0]
			}},
		{Key: "tail-comment-bound-to-last-element",
			Src:  "package a\n\nfunc f() {\n\ta()\n\tb()\n\t// closing remark about the whole block\n}\n",
			Edit: "delete the last statement",
			Want: "package a\n\nfunc f() {\n\ta()\n\t// closing remark about the whole block\n}\n",
			Do:   func(f *dst.File) { l := body(f); *l = (*l)[:1] }},
		{Key: "detached-head-comment-bound-to-first-decl",
			Src:  "package a\n\n// Section: helpers.\n\nfunc f() {}\n\nfunc g() {}\n",
			Edit: "delete the first declaration",
			Want: "package a\n\n// Section: helpers.\n\nfunc g() {}\n",
			Do:   func(f *dst.File) { f.Decls = f.Decls[1:] }},
		{Key: "blank-line-separator-stored-per-node",
			Src:  "package a\n\nfunc f() {\n\ta()\n\n\tb()\n\n\tc()\n}\n",
			Edit: "swap the first two statements of a blank-line-separated list",
			Want: "package a\n\nfunc f() {\n\tb()\n\n\ta()\n\n\tc()\n}\n",
			Do:   func(f *dst.File) { l := body(f); (*l)[0], (*l)[1] = (*l)[1], (*l)[0] }},
	}
	// scenarios that hold on the unchanged tree (regression inputs from seeded changes)
	cases = append(cases,
		c02Fixed{Key: "c02-fixed-deep-ending-statement",
			Src:  "package a\n\nfunc f() {\n\tfoo(a,\n\t\tbar(b,\n\t\t\tc))\n\t// about foo\n\n\tnext()\n\tlast()\n}\n",
			Edit: "delete the statement after a statement that ends two indent levels deeper than it starts and is followed by its comment line and an empty line",
			Want: "package a\n\nfunc f() {\n\tfoo(a,\n\t\tbar(b,\n\t\t\tc))\n\t// about foo\n\n\tlast()\n}\n",
			Do:   func(f *dst.File) { l := body(f); *l = append((*l)[:1], (*l)[2:]...) }},
		c02Fixed{Key: "c02-fixed-trailing-comment-then-empty-line",
			Src:  "package a\n\nfunc f() {\n\ta() // about a\n\tb()\n\n\tc()\n\td() // about d\n\n\te()\n}\n",
			Edit: "delete the statement between a statement with a trailing line comment and an empty line",
			Want: "package a\n\nfunc f() {\n\ta() // about a\n\n\tc()\n\td() // about d\n\n\te()\n}\n",
			Do:   func(f *dst.File) { l := body(f); *l = append((*l)[:1], (*l)[2:]...) }},
		c02Fixed{Key: "c02-fixed-trailing-comment-element-moved-before-empty-line",
			Src:  "package a\n\nvar x = []int{\n\t1, // one\n\t2,\n\n\t3,\n}\n",
			Edit: "delete the literal element between an element with a trailing line comment and an empty line",
			Want: "package a\n\nvar x = []int{\n\t1, // one\n\n\t3,\n}\n",
			Do: func(f *dst.File) {
				cl := f.Decls[0].(*dst.GenDecl).Specs[0].(*dst.ValueSpec).Values[0].(*dst.CompositeLit)
				cl.Elts = append(cl.Elts[:1], cl.Elts[2:]...)
			}},
	)
	for _, k := range cases {
		if !isCanonical(k.Src) || !isCanonical(k.Want) {
			c.Res.Notes = append(c.Res.Notes, "fixed scenario "+k.Key+" is not gofmt-canonical and was skipped")
			continue
		}
		f, err := decorator.Parse(k.Src)
		if err != nil {
			continue
		}
		c.Res.Evaluations++
		var out string
		var perr error
		pm := safely(func() {
			k.Do(f)
			out, perr, _ = printDst(f)
		})
		if pm != "" || perr != nil || out != k.Want {
			c.Res.fail(k.Key, fmt.Sprintf("%s: the print is not gofmt of the chunk-edited source (%v %s):\n%s", k.Edit, perr, pm, firstDiff(k.Want, out)), map[string]string{"src": k.Src, "edit": k.Edit, "want": k.Want})
		}
	}
}

func init() {
	props["C02"] = c02Prop
	corrs["C02"] = func(c *Ctx) { linkCorr(c); restoreCorr(c); fragCorr(c) }
	replays["C02"] = func(c *Ctx, raw json.RawMessage) (bool, string) {
		if handled, fails, msg := replayFixed(c, raw, c02Known); handled {
			return fails, msg
		}
		var in c02Input
		if err := json.Unmarshal(raw, &in); err != nil || in.Kind == "" {
			return false, "not a C02 generated input"
		}
		key, what := c02Check(in)
		return key != "", what
	}
}
