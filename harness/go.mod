module verif/harness

go 1.18

require (
	github.com/dave/dst v0.0.0
	golang.org/x/tools v0.1.12
)

require (
	golang.org/x/mod v0.6.0-dev.0.20220419223038-86c51ed26bb4 // indirect
	golang.org/x/sys v0.0.0-20220722155257-8c9f86f7a55f // indirect
)

replace github.com/dave/dst => /repo
