package main

import (
	"fmt"
	"go/ast"
	"path/filepath"
	"strings"
)

// C15: the inventory of explicit panic sites of the decorate / restore path (file, enclosing
// function, first 40 characters of the argument), and the shape of Decorator.ParseFile: the
// parser's error is returned before decorating when there is no registered file, and next to
// the tree otherwise.

func genPanics() {
	var b strings.Builder
	b.WriteString("(* GENERATED from /repo/decorator/*.go -- do not edit *)\nFrom Coq Require Import List String Bool.\nImport ListNotations.\nLocal Open Scope string_scope.\n\n")
	files := []string{"decorator.go", "decorator-fragment.go", "decorator-fragment-generated.go", "decorator-node-generated.go", "restorer.go", "restorer-generated.go", "helpers.go", "map.go"}
	b.WriteString("Definition panic_sites : list (string * string * string) := [\n")
	first := true
	parseFileOK := false
	for _, file := range files {
		f := parseNoComments(filepath.Join(*repo, "decorator", file))
		if f == nil {
			noteUnknown("decorator/"+file, "cannot parse")
			continue
		}
		for _, d := range f.Decls {
			fd, ok := d.(*ast.FuncDecl)
			if !ok || fd.Body == nil {
				continue
			}
			name := fd.Name.Name
			if fd.Recv != nil {
				name = strings.TrimPrefix(src(fd.Recv.List[0].Type), "*") + "." + name
			}
			ast.Inspect(fd.Body, func(n ast.Node) bool {
				if ce, ok := n.(*ast.CallExpr); ok {
					if id, ok := ce.Fun.(*ast.Ident); ok && id.Name == "panic" && len(ce.Args) == 1 {
						arg := src(ce.Args[0])
						if len(arg) > 40 {
							arg = arg[:40]
						}
						if !first {
							b.WriteString(";\n")
						}
						first = false
						fmt.Fprintf(&b, "  (%s, %s, %s)", q(file), q(name), q(arg))
					}
				}
				return true
			})
			if file == "decorator.go" && name == "Decorator.ParseFile" {
				var sts []string
				for _, s := range fd.Body.List {
					sts = append(sts, strings.Join(strings.Fields(src(s)), " "))
				}
				want := []string{
					"f, perr := parser.ParseFile(d.Fset, filename, src, mode|parser.ParseComments)",
					"if perr != nil && (f == nil || !f.Pos().IsValid()) { return nil, perr }",
					"file, err := d.DecorateFile(f)",
					"if err != nil { return nil, err }",
					"return file, perr",
				}
				parseFileOK = strings.Join(sts, "\n") == strings.Join(want, "\n")
				if !parseFileOK {
					noteUnknown("decorator/decorator.go ParseFile", "unexpected statements: "+strings.Join(sts, " ; "))
				}
			}
		}
	}
	b.WriteString("].\n\n")
	fmt.Fprintf(&b, "Definition parsefile_returns_parser_error : bool := %v.\n", parseFileOK)
	writeIfChanged("PanicSites.v", b.String())
}
