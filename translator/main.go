// Command translator regenerates the Coq tables under coq/Gen from the Go sources of
// dave/dst.  It reads code (go/ast), never the "// Decoration: X" comments.  Anything it
// does not recognise becomes an explicit Unknown constructor carrying the source text,
// which falsifies the corresponding well-formedness obligation on the Coq side.
package main

import (
	"bytes"
	"flag"
	"fmt"
	"go/ast"
	"go/parser"
	"go/printer"
	"go/token"
	"os"
	"path/filepath"
	"strings"
)

var repo = flag.String("repo", "/repo", "path to dave/dst")
var out = flag.String("out", "/verif/coq/Gen", "output directory")

var fset = token.NewFileSet()

func parse(rel string) *ast.File {
	f, err := parser.ParseFile(fset, filepath.Join(*repo, rel), nil, parser.ParseComments)
	if err != nil {
		fmt.Fprintf(os.Stderr, "translator: cannot parse %s: %v\n", rel, err)
		if f == nil {
			return &ast.File{Name: ast.NewIdent("missing")}
		}
	}
	return f
}

func parseAbs(path string) *ast.File {
	f, err := parser.ParseFile(fset, path, nil, parser.ParseComments)
	if err != nil && f == nil {
		fmt.Fprintf(os.Stderr, "translator: cannot parse %s: %v\n", path, err)
		return &ast.File{Name: ast.NewIdent("missing")}
	}
	return f
}

func src(n ast.Node) string {
	var b bytes.Buffer
	printer.Fprint(&b, fset, n)
	s := b.String()
	s = strings.Join(strings.Fields(s), " ")
	return s
}

// coq string literal
func q(s string) string {
	s = strings.ReplaceAll(s, "\"", "\"\"")
	s = strings.Map(func(r rune) rune {
		if r < 32 || r > 126 {
			return '?'
		}
		return r
	}, s)
	if len(s) > 200 {
		s = s[:200]
	}
	return "\"" + s + "\""
}

func qlist(ss []string) string {
	var parts []string
	for _, s := range ss {
		parts = append(parts, q(s))
	}
	return "[" + strings.Join(parts, "; ") + "]"
}

// writeIfChanged keeps timestamps stable so make skips unchanged theorems.
func writeIfChanged(name, content string) {
	path := filepath.Join(*out, name)
	old, err := os.ReadFile(path)
	if err == nil && string(old) == content {
		return
	}
	if err := os.WriteFile(path, []byte(content), 0644); err != nil {
		fmt.Fprintln(os.Stderr, err)
		os.Exit(2)
	}
	fmt.Println("translator: wrote", name)
}

var unknowns []string

func noteUnknown(where, what string) {
	unknowns = append(unknowns, where+": "+what)
}

func main() {
	flag.Parse()
	os.MkdirAll(*out, 0755)
	genDecsIR()
	genAll()
	if len(unknowns) > 0 {
		fmt.Printf("translator: %d unrecognised shapes\n", len(unknowns))
		for _, u := range unknowns {
			fmt.Println("  UNKNOWN", u)
		}
	}
	var b strings.Builder
	for _, u := range unknowns {
		b.WriteString(u + "\n")
	}
	writeIfChanged("UNKNOWN.txt", b.String())
}
