package main

func genAll() {}
