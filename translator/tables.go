package main

import (
	"fmt"
	"go/ast"
	"os"
	"path/filepath"
	"strings"
)

const hdr = "From Coq Require Import List String ZArith NArith Bool.\nImport ListNotations.\nFrom DV Require Import Model.Tree Model.Tables.\nLocal Open Scope string_scope.\nLocal Open Scope list_scope.\n\n"

func genAll() {
	loadTokens()
	genUniverse()
	genWalk()
	genRestorer()
	genPoints()
	genClone()
	genData()
	genApply()
	genDecNode()
	genImportsSrc()
	genErrProp()
	genSaveSrc()
	genCursorSrc()
	genMergeSrc()
	genGoastImportsSrc()
	genEntrySrc()
	genAccess()
	genResolveSrc()
	genResolverSrc()
	genStripVendorSrc()
	genDecisionSrc()
	genPuritySrc()
	genFrag()
	genPanics()
	genRestoreSrc()
}

// ---------------------------------------------------------------------------------
// Universe: struct fields per node kind from dst.go; decoration points per kind from
// decorations-types-generated.go.

type field struct {
	name string
	ft   string // Coq ftype term
}

var dstStructs = map[string][]field{}
var dstStructOrder []string
var nodeIfaces = map[string]bool{"Node": true, "Expr": true, "Stmt": true, "Decl": true, "Spec": true}

func classify(t ast.Expr, structs map[string]bool) string {
	s := src(t)
	switch {
	case nodeIfaces[s]:
		return "FNode " + q(s)
	case strings.HasPrefix(s, "*") && structs[s[1:]]:
		return "FNode " + q(s[1:])
	case s == "*Object":
		return "FObj"
	case s == "*Scope":
		return "FScope"
	case s == "map[string]*File":
		return "FMapFiles"
	case s == "map[string]*Object":
		return "FMapObj"
	case strings.HasPrefix(s, "[]"):
		e := s[2:]
		if nodeIfaces[e] {
			return "FList " + q(e)
		}
		if strings.HasPrefix(e, "*") && structs[e[1:]] {
			return "FList " + q(e[1:])
		}
		return "FOther " + q(s)
	case strings.HasSuffix(s, "Decorations"):
		return "FDecs " + q(s)
	case s == "bool" || s == "string" || s == "int" || s == "token.Token" || s == "token.Pos" || s == "ChanDir" || s == "ObjKind" || s == "SpaceType":
		return "FVal " + q(s)
	}
	return "FOther " + q(s)
}

func collectStructs(f *ast.File) (map[string]*ast.StructType, []string) {
	res := map[string]*ast.StructType{}
	var order []string
	for _, d := range f.Decls {
		gd, ok := d.(*ast.GenDecl)
		if !ok {
			continue
		}
		for _, s := range gd.Specs {
			ts, ok := s.(*ast.TypeSpec)
			if !ok {
				continue
			}
			if st, ok := ts.Type.(*ast.StructType); ok {
				res[ts.Name.Name] = st
				order = append(order, ts.Name.Name)
			}
		}
	}
	return res, order
}

func genUniverse() {
	f := parse("dst.go")
	structs, order := collectStructs(f)
	isStruct := map[string]bool{}
	for k := range structs {
		isStruct[k] = true
	}
	var b strings.Builder
	b.WriteString("(* GENERATED from /repo/dst.go and /repo/decorations-types-generated.go -- do not edit *)\n" + hdr)
	b.WriteString("Definition universe : universe_t := [\n")
	first := true
	for _, name := range order {
		st := structs[name]
		// node kinds are the structs with a Decs field, plus Package
		hasDecs := false
		for _, fl := range st.Fields.List {
			for _, n := range fl.Names {
				if n.Name == "Decs" {
					hasDecs = true
				}
			}
		}
		if !hasDecs && name != "Package" {
			continue
		}
		var fs []field
		for _, fl := range st.Fields.List {
			for _, n := range fl.Names {
				ft := classify(fl.Type, isStruct)
				if name == "File" && n.Name == "Imports" {
					ft = "FImportList"
				}
				if name == "File" && n.Name == "Unresolved" {
					ft = "FIdentList"
				}
				fs = append(fs, field{n.Name, ft})
			}
		}
		dstStructs[name] = fs
		dstStructOrder = append(dstStructOrder, name)
		if !first {
			b.WriteString(";\n")
		}
		first = false
		var parts []string
		for _, x := range fs {
			parts = append(parts, fmt.Sprintf("(%s, %s)", q(x.name), x.ft))
		}
		fmt.Fprintf(&b, "  (%s, [%s])", q(name), strings.Join(parts, "; "))
	}
	b.WriteString("].\n\n")

	// decoration points
	df := parse("decorations-types-generated.go")
	dstructs, dorder := collectStructs(df)
	b.WriteString("(* decoration points per kind in struct order; NodeDecs stands for Start (first) and End (last) *)\nDefinition dec_universe : list (string * list string) := [\n")
	first = true
	for _, name := range dorder {
		if !strings.HasSuffix(name, "Decorations") {
			continue
		}
		kind := strings.TrimSuffix(name, "Decorations")
		// only kinds whose struct really has a Decs field of this type
		used := false
		for _, fld := range dstStructs[kind] {
			if fld.name == "Decs" && fld.ft == "FDecs "+q(name) {
				used = true
			}
		}
		if !used {
			continue
		}
		var pts []string
		hasNodeDecs := false
		for _, fl := range dstructs[name].Fields.List {
			if len(fl.Names) == 0 {
				if src(fl.Type) == "NodeDecs" {
					hasNodeDecs = true
				} else {
					pts = append(pts, "?embedded "+src(fl.Type))
				}
				continue
			}
			for _, n := range fl.Names {
				if src(fl.Type) == "Decorations" {
					pts = append(pts, n.Name)
				} else {
					pts = append(pts, "?"+n.Name+" "+src(fl.Type))
				}
			}
		}
		if hasNodeDecs {
			pts = append(append([]string{"Start"}, pts...), "End")
		}
		if !first {
			b.WriteString(";\n")
		}
		first = false
		fmt.Fprintf(&b, "  (%s, %s)", q(kind), qlist(pts))
	}
	b.WriteString("].\n")
	writeIfChanged("Universe.v", b.String())
}

// ---------------------------------------------------------------------------------
// Walk tables: /repo/walk.go and go/ast's walk.go (reference).

func goroot() string {
	for _, p := range []string{os.Getenv("GOROOT"), "/usr/lib/go-1.23", "/usr/share/go-1.23", "/usr/local/go"} {
		if p == "" {
			continue
		}
		if rp, err := filepath.EvalSymlinks(filepath.Join(p, "src")); err == nil {
			if _, err := os.Stat(filepath.Join(rp, "go/ast/walk.go")); err == nil {
				return rp
			}
		}
	}
	return "/usr/share/go-1.23/src"
}

func selField(e ast.Expr, recv string) (string, bool) {
	se, ok := e.(*ast.SelectorExpr)
	if !ok {
		return "", false
	}
	id, ok := se.X.(*ast.Ident)
	if !ok || id.Name != recv {
		return "", false
	}
	return se.Sel.Name, true
}

// one statement of a Walk case body -> wpart
func walkStmt(s ast.Stmt, recv, where string) string {
	unknown := func() string {
		noteUnknown(where, src(s))
		return "WUnknown " + q(src(s))
	}
	isWalkCall := func(e ast.Expr) (ast.Expr, bool) {
		c, ok := e.(*ast.CallExpr)
		if !ok || len(c.Args) != 2 {
			return nil, false
		}
		if id, ok := c.Fun.(*ast.Ident); ok && id.Name == "Walk" && src(c.Args[0]) == "v" {
			return c.Args[1], true
		}
		return nil, false
	}
	switch s := s.(type) {
	case *ast.ExprStmt:
		if arg, ok := isWalkCall(s.X); ok {
			if f, ok := selField(arg, recv); ok {
				return fmt.Sprintf("WOne %s false", q(f))
			}
		}
		if c, ok := s.X.(*ast.CallExpr); ok && len(c.Args) == 2 && src(c.Args[0]) == "v" {
			if id, ok := c.Fun.(*ast.Ident); ok && strings.HasPrefix(id.Name, "walk") && strings.HasSuffix(id.Name, "List") {
				if f, ok := selField(c.Args[1], recv); ok {
					return fmt.Sprintf("WMany %s", q(f))
				}
			}
		}
	case *ast.IfStmt:
		// if n.F != nil { Walk(v, n.F) }
		if s.Init == nil && s.Else == nil && len(s.Body.List) == 1 {
			if be, ok := s.Cond.(*ast.BinaryExpr); ok && be.Op.String() == "!=" && src(be.Y) == "nil" {
				if f, ok := selField(be.X, recv); ok {
					if es, ok := s.Body.List[0].(*ast.ExprStmt); ok {
						if arg, ok := isWalkCall(es.X); ok {
							if f2, ok := selField(arg, recv); ok && f2 == f {
								return fmt.Sprintf("WOne %s true", q(f))
							}
						}
					}
				}
			}
		}
	case *ast.RangeStmt:
		// for _, x := range n.F { Walk(v, x) }
		if f, ok := selField(s.X, recv); ok && len(s.Body.List) == 1 && s.Value != nil {
			if es, ok := s.Body.List[0].(*ast.ExprStmt); ok {
				if arg, ok := isWalkCall(es.X); ok && src(arg) == src(s.Value) {
					return fmt.Sprintf("WMany %s", q(f))
				}
			}
		}
	}
	return unknown()
}

func walkTable(f *ast.File, funcName, where string) (map[string][]string, []string, bool) {
	tbl := map[string][]string{}
	var order []string
	okShape := false
	for _, d := range f.Decls {
		fd, ok := d.(*ast.FuncDecl)
		if !ok || fd.Name.Name != funcName || fd.Recv != nil || fd.Body == nil {
			continue
		}
		// expected frame: if v = v.Visit(node); v == nil { return }; switch n := node.(type) {...}; v.Visit(nil)
		var sw *ast.TypeSwitchStmt
		frame := []string{}
		for _, s := range fd.Body.List {
			if ts, ok := s.(*ast.TypeSwitchStmt); ok {
				sw = ts
				frame = append(frame, "SWITCH")
			} else {
				frame = append(frame, src(s))
			}
		}
		want := []string{"if v = v.Visit(node); v == nil { return }", "SWITCH", "v.Visit(nil)"}
		if strings.Join(frame, "|") == strings.Join(want, "|") {
			okShape = true
		} else {
			noteUnknown(where, "Walk frame: "+strings.Join(frame, " | "))
		}
		if sw == nil {
			continue
		}
		recv := ""
		if as, ok := sw.Assign.(*ast.AssignStmt); ok && len(as.Lhs) == 1 {
			recv = src(as.Lhs[0])
		}
		for _, c := range sw.Body.List {
			cc := c.(*ast.CaseClause)
			if cc.List == nil {
				continue // default: panic
			}
			var parts []string
			for _, s := range cc.Body {
				parts = append(parts, walkStmt(s, recv, where))
			}
			for _, t := range cc.List {
				name := strings.TrimPrefix(src(t), "*")
				tbl[name] = parts
				order = append(order, name)
			}
		}
	}
	return tbl, order, okShape
}

func emitWalkTable(b *strings.Builder, name string, tbl map[string][]string, order []string) {
	fmt.Fprintf(b, "Definition %s : wtable := [\n", name)
	for i, k := range order {
		if i > 0 {
			b.WriteString(";\n")
		}
		fmt.Fprintf(b, "  (%s, [%s])", q(k), strings.Join(tbl[k], "; "))
	}
	b.WriteString("].\n\n")
}

func genWalk() {
	var b strings.Builder
	b.WriteString("(* GENERATED from /repo/walk.go and $GOROOT/src/go/ast/walk.go -- do not edit *)\n" + hdr)
	tbl, order, ok := walkTable(parse("walk.go"), "Walk", "walk.go")
	emitWalkTable(&b, "walk_tbl", tbl, order)
	fmt.Fprintf(&b, "Definition walk_frame_ok : bool := %v.\n\n", ok)
	atbl, aorder, aok := walkTable(parseAbs(filepath.Join(goroot(), "go/ast/walk.go")), "Walk", "go/ast/walk.go")
	emitWalkTable(&b, "ast_walk_tbl", atbl, aorder)
	fmt.Fprintf(&b, "Definition ast_walk_frame_ok : bool := %v.\n", aok)
	// Inspect: func Inspect(node Node, f func(Node) bool) { Walk(inspector(f), node) } and inspector.Visit
	insp := false
	visit := false
	for _, d := range parse("walk.go").Decls {
		fd, ok := d.(*ast.FuncDecl)
		if !ok || fd.Body == nil {
			continue
		}
		if fd.Name.Name == "Inspect" && fd.Recv == nil && len(fd.Body.List) == 1 && src(fd.Body.List[0]) == "Walk(inspector(f), node)" {
			insp = true
		}
		if fd.Name.Name == "Visit" && fd.Recv != nil && src(fd.Recv.List[0].Type) == "inspector" &&
			src(fd.Body) == "{ if f(node) { return f } return nil }" {
			visit = true
		}
	}
	if !insp || !visit {
		noteUnknown("walk.go", "Inspect / inspector.Visit have an unrecognised shape")
	}
	fmt.Fprintf(&b, "\nDefinition inspect_shape_ok : bool := %v.\n", insp && visit)
	writeIfChanged("WalkTbl.v", b.String())
}
