package main

import (
	"go/ast"
	"go/token"
	"strings"
)

// Loop programs (C20): Package.save -- a function that returns only an error -- is rendered into
//   LBind (an effect-free binding), LCall (if err := CALL; err != nil { return err }),
//   LFor (for _, x := range COLL { ... }) and LRetNil (Gen/SaveSrc.v: save_src).
// Call texts are canonical strings with bindings inlined.

func loopStmts(env *symEnv, list []ast.Stmt, where string) []string {
	var out []string
	for _, s := range list {
		switch s := s.(type) {
		case *ast.AssignStmt:
			// only bindings whose right-hand side is a constructor-like expression (no method of the receiver is called)
			if len(s.Lhs) == 1 && len(s.Rhs) == 1 && s.Tok == token.DEFINE {
				if id, ok := s.Lhs[0].(*ast.Ident); ok {
					env.val[id.Name] = env.sym(s.Rhs[0])
					out = append(out, "LBind "+qfull(src(s)))
					continue
				}
			}
			noteUnknown(where, "statement outside the loop language: "+src(s))
			out = append(out, "LUnknown "+qfull(src(s)))
		case *ast.IfStmt:
			// if err := CALL; err != nil { return err }
			if as, ok := s.Init.(*ast.AssignStmt); ok && s.Else == nil && len(as.Lhs) == 1 && len(as.Rhs) == 1 && src(as.Lhs[0]) == "err" &&
				src(s.Cond) == "err != nil" && len(s.Body.List) == 1 && src(s.Body.List[0]) == "return err" {
				if c, ok := as.Rhs[0].(*ast.CallExpr); ok {
					out = append(out, "LCall "+qfull(env.sym(c)))
					continue
				}
			}
			noteUnknown(where, "statement outside the loop language: "+src(s))
			out = append(out, "LUnknown "+qfull(src(s)))
		case *ast.RangeStmt:
			if k, ok := s.Key.(*ast.Ident); ok && k.Name == "_" && s.Value != nil && s.Tok == token.DEFINE {
				inner := env.clone()
				body := loopStmts(inner, s.Body.List, where)
				out = append(out, "LFor "+qfull(env.sym(s.X))+" ["+strings.Join(body, "; ")+"]")
				continue
			}
			noteUnknown(where, "statement outside the loop language: "+src(s))
			out = append(out, "LUnknown "+qfull(src(s)))
		case *ast.ReturnStmt:
			if len(s.Results) == 1 && src(s.Results[0]) == "nil" {
				out = append(out, "LRetNil")
				continue
			}
			noteUnknown(where, "statement outside the loop language: "+src(s))
			out = append(out, "LUnknown "+qfull(src(s)))
		default:
			noteUnknown(where, "statement outside the loop language: "+src(s))
			out = append(out, "LUnknown "+qfull(src(s)))
		}
	}
	return out
}

func loopProgramOf(f *ast.File, name, where string) string {
	for _, d := range f.Decls {
		fd, ok := d.(*ast.FuncDecl)
		if !ok || fd.Body == nil || fd.Name.Name != name || fd.Recv == nil {
			continue
		}
		env := &symEnv{val: map[string]string{}, pred: map[string]string{}}
		return "[" + strings.Join(loopStmts(env, fd.Body.List, where), ";\n   ") + "]"
	}
	noteUnknown(where, "function not found")
	return "[LUnknown \"missing\"]"
}
