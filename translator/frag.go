package main

import (
	"fmt"
	"go/ast"
	"path/filepath"
	"strings"
)

// decorator/decorator-fragment-generated.go -> Gen/FragTbl.v: the order in which the decorator
// emits decoration points, tokens, strings and children for every kind.

func fragStmts(body []ast.Stmt, where string) []string {
	var out []string
	for _, s := range body {
		t := src(s)
		ok := false
		switch s := s.(type) {
		case *ast.ExprStmt:
			if c, isCall := s.X.(*ast.CallExpr); isCall {
				switch src(c.Fun) {
				case "f.addDecorationFragment":
					if len(c.Args) == 3 {
						if owner, o := cpathOf(c.Args[0], "n"); o {
							out = append(out, fmt.Sprintf("GDec %s %s", qlist(owner), q(litString(c.Args[1]))))
							ok = true
						}
					}
				case "f.addTokenFragment":
					if len(c.Args) == 3 {
						pos := "[]"
						if p, o := cpathOf(c.Args[2], "n"); o {
							pos = qlist(p)
						} else if src(c.Args[2]) != "token.NoPos" {
							break
						}
						out = append(out, fmt.Sprintf("GTok (%s) %s", tokOf(c.Args[1], "n", where), pos))
						ok = true
					}
				case "f.addStringFragment":
					if len(c.Args) == 3 {
						v, o1 := cpathOf(c.Args[1], "n")
						p, o2 := cpathOf(c.Args[2], "n")
						if o1 && o2 {
							out = append(out, fmt.Sprintf("GStr %s %s", qlist(v), qlist(p)))
							ok = true
						}
					}
				case "f.addBadFragment":
					if len(c.Args) == 3 {
						if p, o := cpathOf(c.Args[1], "n"); o && src(c.Args[2]) == "int(n.To - n.From)" {
							out = append(out, "GBad "+qlist(p))
							ok = true
						}
					}
				case "f.addNodeFragments":
					if len(c.Args) == 1 {
						if p, o := cpathOf(c.Args[0], "n"); o {
							out = append(out, "GNode "+qlist(p)+" false")
							ok = true
						}
					}
				}
			}
		case *ast.IfStmt:
			if s.Init == nil && s.Else == nil {
				// if n.F != nil { f.addNodeFragments(n.F) }
				if be, isB := s.Cond.(*ast.BinaryExpr); isB && src(be.Y) == "nil" && be.Op.String() == "!=" && len(s.Body.List) == 1 {
					if cp, o := cpathOf(be.X, "n"); o {
						if es, isE := s.Body.List[0].(*ast.ExprStmt); isE {
							if c, isCall := es.X.(*ast.CallExpr); isCall && src(c.Fun) == "f.addNodeFragments" && len(c.Args) == 1 {
								if ap, o := cpathOf(c.Args[0], "n"); o && samePath(ap, cp) {
									out = append(out, "GNode "+qlist(cp)+" true")
									ok = true
								}
							}
						}
					}
				}
				if !ok {
					inner := fragStmts(s.Body.List, where)
					out = append(out, fmt.Sprintf("GIf (%s) [%s]", condOf(s.Cond, "n", where), strings.Join(inner, "; ")))
					ok = true
				}
			}
		case *ast.RangeStmt:
			if p, o := cpathOf(s.X, "n"); o && s.Value != nil && len(s.Body.List) == 1 && src(s.Body.List[0]) == "f.addNodeFragments("+src(s.Value)+")" {
				out = append(out, "GList "+qlist(p))
				ok = true
			}
		}
		if !ok {
			noteUnknown(where, t)
			out = append(out, "GUnknown "+q(t))
		}
	}
	return out
}

func genFrag() {
	f := parseNoComments(filepath.Join(*repo, "decorator/decorator-fragment-generated.go"))
	var b strings.Builder
	b.WriteString("(* GENERATED from /repo/decorator/decorator-fragment-generated.go -- do not edit *)\n" + hdr + "From DV Require Import Model.FragSkel.\n\n")
	b.WriteString("Definition frag_tbl : list (string * list gstmt) := [\n")
	first := true
	frame := false
	for _, d := range f.Decls {
		fd, ok := d.(*ast.FuncDecl)
		if !ok || fd.Name.Name != "addNodeFragments" || fd.Body == nil {
			continue
		}
		var fr []string
		for _, s := range fd.Body.List {
			sw, ok := s.(*ast.TypeSwitchStmt)
			if !ok {
				fr = append(fr, src(s))
				continue
			}
			fr = append(fr, "SWITCH")
			for _, c := range sw.Body.List {
				cc := c.(*ast.CaseClause)
				for _, t := range cc.List {
					name := strings.TrimPrefix(src(t), "*ast.")
					if !first {
						b.WriteString(";\n")
					}
					first = false
					fmt.Fprintf(&b, "  (%s, [%s])", q(name), strings.Join(fragStmts(cc.Body, "decorator-fragment-generated.go "+name), "; "))
				}
			}
		}
		frame = strings.Join(fr, " | ") == "if n.Pos().IsValid() { f.cursor = int(n.Pos()) } | SWITCH"
		if !frame {
			noteUnknown("decorator-fragment-generated.go", "addNodeFragments frame: "+strings.Join(fr, " | "))
		}
	}
	b.WriteString("].\n\n")
	fmt.Fprintf(&b, "Definition frag_frame_ok : bool := %v.\n\n", frame)
	// which go/ast kinds are statements / declarations (link()'s type assertions)
	af := parseNoComments(filepath.Join(goroot(), "go/ast/ast.go"))
	var stmts, decls []string
	if af != nil {
		for _, d := range af.Decls {
			fd, ok := d.(*ast.FuncDecl)
			if !ok || fd.Recv == nil || len(fd.Recv.List) != 1 {
				continue
			}
			k := strings.TrimPrefix(src(fd.Recv.List[0].Type), "*")
			switch fd.Name.Name {
			case "stmtNode":
				stmts = append(stmts, q(k))
			case "declNode":
				decls = append(decls, q(k))
			}
		}
	}
	if len(stmts) == 0 || len(decls) == 0 {
		noteUnknown("go/ast/ast.go", "stmtNode / declNode methods not found")
	}
	fmt.Fprintf(&b, "Definition ast_stmt_kinds : list string := [%s].\n", strings.Join(stmts, "; "))
	fmt.Fprintf(&b, "Definition ast_decl_kinds : list string := [%s].\n", strings.Join(decls, "; "))
	writeIfChanged("FragTbl.v", b.String())
}
