package main

import (
	"fmt"
	"go/ast"
	"go/token"
	"path/filepath"
	"strings"
)

// Static facts about decorator/restorer.go used by C17 / C07:
//   - in updateImports no statement up to and including the last ResolvePackage call assigns
//     through anything but the function's own local maps (so a resolver failure leaves the
//     file untouched);
//   - the error of ResolvePackage is returned wrapped with %w;
//   - RestoreFile runs updateImports, and returns its error, before restoring any node;
//   - updateImports sorts the required imports before names are assigned (determinism).

func rootIdent(e ast.Expr) string {
	for {
		switch x := e.(type) {
		case *ast.SelectorExpr:
			e = x.X
		case *ast.IndexExpr:
			e = x.X
		case *ast.StarExpr:
			e = x.X
		case *ast.ParenExpr:
			e = x.X
		case *ast.Ident:
			return x.Name
		default:
			return "?"
		}
	}
}

func genImportsSrc() {
	f := parseNoComments(filepath.Join(*repo, "decorator/restorer.go"))
	var b strings.Builder
	b.WriteString("(* GENERATED from /repo/decorator/restorer.go -- do not edit *)\nFrom Coq Require Import List String Bool.\nImport ListNotations.\nLocal Open Scope string_scope.\n\n")
	resolveBeforeMutation, wraps, sortedBeforeNames, restoreOrder := false, false, false, false
	var offenders []string
	for _, d := range f.Decls {
		fd, ok := d.(*ast.FuncDecl)
		if !ok || fd.Body == nil || fd.Recv == nil {
			continue
		}
		switch fd.Name.Name {
		case "updateImports":
			locals := map[string]bool{}
			lastResolve, sortIdx, namesIdx := -1, -1, -1
			for i, s := range fd.Body.List {
				t := src(s)
				if as, ok := s.(*ast.AssignStmt); ok && as.Tok == token.DEFINE {
					for _, l := range as.Lhs {
						if id, ok := l.(*ast.Ident); ok {
							locals[id.Name] = true
						}
					}
				}
				if ds, ok := s.(*ast.DeclStmt); ok {
					if gd, ok := ds.Decl.(*ast.GenDecl); ok {
						for _, sp := range gd.Specs {
							if vs, ok := sp.(*ast.ValueSpec); ok {
								for _, n := range vs.Names {
									locals[n.Name] = true
								}
							}
						}
					}
				}
				if strings.Contains(t, "ResolvePackage(") {
					lastResolve = i
					if strings.Contains(t, `fmt.Errorf("could not resolve package %s: %w", path, err)`) {
						wraps = true
					}
				}
				if strings.HasPrefix(t, "sort.Slice(importsRequiredOrdered") {
					sortIdx = i
				}
				if strings.HasPrefix(t, "for _, path := range importsRequiredOrdered") && namesIdx < 0 {
					namesIdx = i
				}
			}
			sortedBeforeNames = sortIdx >= 0 && namesIdx > sortIdx
			if lastResolve >= 0 {
				resolveBeforeMutation = true
				for i := 0; i <= lastResolve; i++ {
					ast.Inspect(fd.Body.List[i], func(n ast.Node) bool {
						check := func(l ast.Expr) {
							if _, plain := l.(*ast.Ident); plain {
								return
							}
							root := rootIdent(l)
							// local maps of this function, and the packageNames scratch field
							if locals[root] && root != "blocks" {
								if ix, ok := l.(*ast.IndexExpr); ok {
									if _, ok := ix.X.(*ast.Ident); ok {
										return
									}
								}
							}
							if src(l) == "r.packageNames" || strings.HasPrefix(src(l), "r.packageNames[") {
								return
							}
							resolveBeforeMutation = false
							offenders = append(offenders, src(l))
						}
						switch x := n.(type) {
						case *ast.AssignStmt:
							if x.Tok != token.DEFINE {
								for _, l := range x.Lhs {
									check(l)
								}
							}
						case *ast.IncDecStmt:
							check(x.X)
						case *ast.CallExpr:
							// appending to / sorting something reachable from the file
							if fn := src(x.Fun); fn == "sort.Slice" || fn == "delete" {
								if len(x.Args) > 0 && !locals[rootIdent(x.Args[0])] {
									resolveBeforeMutation = false
									offenders = append(offenders, src(x))
								}
							}
						}
						return true
					})
				}
			}
		case "RestoreFile":
			if src(fd.Recv.List[0].Type) != "*FileRestorer" {
				continue
			}
			ui, rn := -1, -1
			for i, s := range fd.Body.List {
				t := src(s)
				if t == "if err := r.updateImports(); err != nil { return nil, err }" {
					ui = i
				}
				if strings.Contains(t, "r.restoreNode(") && rn < 0 {
					rn = i
				}
			}
			restoreOrder = ui >= 0 && rn > ui
		}
	}
	if !resolveBeforeMutation {
		noteUnknown("restorer.go updateImports", "a statement before the last ResolvePackage call writes outside the function's local maps: "+strings.Join(offenders, "; "))
	}
	if !wraps {
		noteUnknown("restorer.go updateImports", "the resolver error is not returned wrapped with %w")
	}
	if !sortedBeforeNames {
		noteUnknown("restorer.go updateImports", "the required imports are not sorted before names are assigned")
	}
	if !restoreOrder {
		noteUnknown("restorer.go RestoreFile", "updateImports is not run (and its error returned) before restoreNode")
	}
	fmt.Fprintf(&b, "Definition imports_resolve_before_mutation : bool := %v.\n", resolveBeforeMutation)
	fmt.Fprintf(&b, "Definition imports_error_wrapped : bool := %v.\n", wraps)
	fmt.Fprintf(&b, "Definition imports_sorted_before_names : bool := %v.\n", sortedBeforeNames)
	fmt.Fprintf(&b, "Definition restorefile_updates_imports_first : bool := %v.\n", restoreOrder)
	writeIfChanged("ImportsSrc.v", b.String())
}
