package main

import (
	"fmt"
	"go/ast"
	"go/token"
	"os"
	"path/filepath"
	"sort"
	"strings"
)

// Shared-state access table (C16):
//   - decorator/resolver/goast/resolver.go: every access to a field of DecoratorResolver, with
//     read/write kind and the state of filesM at that point (exclusive / shared / none);
//   - package-level variables of every non-test package of the module: are they assigned
//     anywhere outside their declaration?

func genAccess() {
	var b strings.Builder
	b.WriteString("(* GENERATED from /repo/decorator/resolver/goast/resolver.go and the package-level variables of /repo -- do not edit *)\nFrom Coq Require Import List String Bool.\nImport ListNotations.\nLocal Open Scope string_scope.\n\n")
	b.WriteString("Inductive lockstate := LExcl | LShared | LNone.\n\n")
	f := parseNoComments(filepath.Join(*repo, "decorator/resolver/goast/resolver.go"))
	// fields of DecoratorResolver
	fields := map[string]string{}
	mutexField := ""
	for _, d := range f.Decls {
		gd, ok := d.(*ast.GenDecl)
		if !ok {
			continue
		}
		for _, s := range gd.Specs {
			ts, ok := s.(*ast.TypeSpec)
			if !ok || ts.Name.Name != "DecoratorResolver" {
				continue
			}
			if st, ok := ts.Type.(*ast.StructType); ok {
				for _, fl := range st.Fields.List {
					for _, n := range fl.Names {
						fields[n.Name] = src(fl.Type)
						if strings.HasPrefix(src(fl.Type), "sync.") {
							mutexField = n.Name
						}
					}
				}
			}
		}
	}
	type acc struct {
		fn, field string
		write     bool
		state     string
	}
	var accs []acc
	for _, d := range f.Decls {
		fd, ok := d.(*ast.FuncDecl)
		if !ok || fd.Body == nil || fd.Recv == nil || len(fd.Recv.List) == 0 || len(fd.Recv.List[0].Names) == 0 {
			continue
		}
		if !strings.HasSuffix(src(fd.Recv.List[0].Type), "DecoratorResolver") {
			continue
		}
		recv := fd.Recv.List[0].Names[0].Name
		state := "LNone"
		deferred := false
		var walkStmts func(list []ast.Stmt)
		record := func(n ast.Node, st string) {
			// writes: r.F = ..., r.F[k] = ..., delete(r.F, k)
			writes := map[ast.Node]bool{}
			ast.Inspect(n, func(x ast.Node) bool {
				switch x := x.(type) {
				case *ast.AssignStmt:
					for _, l := range x.Lhs {
						e := l
						if ix, ok := e.(*ast.IndexExpr); ok {
							e = ix.X
						}
						if se, ok := e.(*ast.SelectorExpr); ok && src(se.X) == recv {
							writes[se] = true
						}
					}
				case *ast.CallExpr:
					if src(x.Fun) == "delete" && len(x.Args) > 0 {
						if se, ok := x.Args[0].(*ast.SelectorExpr); ok && src(se.X) == recv {
							writes[se] = true
						}
					}
				}
				return true
			})
			ast.Inspect(n, func(x ast.Node) bool {
				if se, ok := x.(*ast.SelectorExpr); ok && src(se.X) == recv {
					if _, isField := fields[se.Sel.Name]; isField && se.Sel.Name != mutexField {
						accs = append(accs, acc{fd.Name.Name, se.Sel.Name, writes[se], st})
					}
				}
				return true
			})
		}
		walkStmts = func(list []ast.Stmt) {
			for _, s := range list {
				t := src(s)
				switch t {
				case recv + "." + mutexField + ".Lock()":
					state = "LExcl"
					continue
				case recv + "." + mutexField + ".RLock()":
					state = "LShared"
					continue
				case recv + "." + mutexField + ".Unlock()", recv + "." + mutexField + ".RUnlock()":
					if !deferred {
						state = "LNone"
					}
					continue
				case "defer " + recv + "." + mutexField + ".Unlock()", "defer " + recv + "." + mutexField + ".RUnlock()":
					deferred = true
					continue
				}
				switch x := s.(type) {
				case *ast.IfStmt:
					if x.Init != nil {
						record(x.Init, state)
					}
					record(x.Cond, state)
					walkStmts(x.Body.List)
					if eb, ok := x.Else.(*ast.BlockStmt); ok {
						walkStmts(eb.List)
					} else if x.Else != nil {
						walkStmts([]ast.Stmt{x.Else})
					}
				case *ast.BlockStmt:
					walkStmts(x.List)
				case *ast.ForStmt:
					walkStmts(x.Body.List)
				case *ast.RangeStmt:
					record(x.X, state)
					walkStmts(x.Body.List)
				default:
					record(s, state)
				}
			}
		}
		walkStmts(fd.Body.List)
	}
	b.WriteString("Definition goast_accesses : list (string * string * bool * lockstate) := [\n")
	for i, a := range accs {
		if i > 0 {
			b.WriteString(";\n")
		}
		fmt.Fprintf(&b, "  (%s, %s, %v, %s)", q(a.fn), q(a.field), a.write, a.state)
	}
	b.WriteString("].\n\n")
	if mutexField == "" {
		noteUnknown("goast/resolver.go", "DecoratorResolver has no mutex field")
	}
	fmt.Fprintf(&b, "Definition goast_mutex_is_plain : bool := %v.\n\n", fields[mutexField] == "sync.Mutex")

	// package-level variables
	type pv struct{ pkg, name string }
	written := map[pv]bool{}
	var all []pv
	filepath.Walk(*repo, func(p string, info os.FileInfo, err error) error {
		if err != nil {
			return nil
		}
		if info.IsDir() {
			if n := info.Name(); n == ".git" || n == "testdata" || n == "gendst" || strings.HasPrefix(n, "_") {
				return filepath.SkipDir
			}
			return nil
		}
		if !strings.HasSuffix(p, ".go") || strings.HasSuffix(p, "_test.go") {
			return nil
		}
		pf := parseNoComments(p)
		rel, _ := filepath.Rel(*repo, filepath.Dir(p))
		vars := map[string]bool{}
		for _, d := range pf.Decls {
			if gd, ok := d.(*ast.GenDecl); ok && gd.Tok == token.VAR {
				for _, s := range gd.Specs {
					for _, n := range s.(*ast.ValueSpec).Names {
						if n.Name != "_" {
							vars[n.Name] = true
							all = append(all, pv{rel, n.Name})
						}
					}
				}
			}
		}
		_ = vars
		return nil
	})
	// second pass: assignments to a package-level name of the same package (by directory)
	byPkg := map[string]map[string]bool{}
	for _, v := range all {
		if byPkg[v.pkg] == nil {
			byPkg[v.pkg] = map[string]bool{}
		}
		byPkg[v.pkg][v.name] = true
	}
	filepath.Walk(*repo, func(p string, info os.FileInfo, err error) error {
		if err != nil || info.IsDir() {
			if err == nil && info.IsDir() {
				if n := info.Name(); n == ".git" || n == "testdata" || n == "gendst" {
					return filepath.SkipDir
				}
			}
			return nil
		}
		if !strings.HasSuffix(p, ".go") || strings.HasSuffix(p, "_test.go") {
			return nil
		}
		rel, _ := filepath.Rel(*repo, filepath.Dir(p))
		vars := byPkg[rel]
		if len(vars) == 0 {
			return nil
		}
		pf := parseNoComments(p)
		for _, d := range pf.Decls {
			fd, ok := d.(*ast.FuncDecl)
			if !ok || fd.Body == nil {
				continue
			}
			// names declared inside the function shadow package-level variables
			localNames := map[string]bool{}
			if fd.Type.Params != nil {
				for _, fl := range fd.Type.Params.List {
					for _, n := range fl.Names {
						localNames[n.Name] = true
					}
				}
			}
			ast.Inspect(fd.Body, func(x ast.Node) bool {
				switch x := x.(type) {
				case *ast.AssignStmt:
					if x.Tok == token.DEFINE {
						for _, l := range x.Lhs {
							if id, ok := l.(*ast.Ident); ok {
								localNames[id.Name] = true
							}
						}
					}
				case *ast.ValueSpec:
					for _, n := range x.Names {
						localNames[n.Name] = true
					}
				case *ast.RangeStmt:
					if x.Tok == token.DEFINE {
						for _, e := range []ast.Expr{x.Key, x.Value} {
							if id, ok := e.(*ast.Ident); ok {
								localNames[id.Name] = true
							}
						}
					}
				}
				return true
			})
			ast.Inspect(fd.Body, func(x ast.Node) bool {
				mark := func(e ast.Expr) {
					root := rootIdent(e)
					if vars[root] && !localNames[root] {
						written[pv{rel, root}] = true
					}
				}
				switch x := x.(type) {
				case *ast.AssignStmt:
					if x.Tok != token.DEFINE {
						for _, l := range x.Lhs {
							mark(l)
						}
					}
				case *ast.IncDecStmt:
					mark(x.X)
				case *ast.CallExpr:
					if src(x.Fun) == "delete" && len(x.Args) > 0 {
						mark(x.Args[0])
					}
				}
				return true
			})
		}
		return nil
	})
	sort.Slice(all, func(i, j int) bool { return all[i].pkg+"."+all[i].name < all[j].pkg+"."+all[j].name })
	b.WriteString("Definition package_vars : list (string * bool) := [\n")
	for i, v := range all {
		if i > 0 {
			b.WriteString(";\n")
		}
		if written[v] {
			noteUnknown("package-level variable", v.pkg+"."+v.name+" is assigned inside a function")
		}
		fmt.Fprintf(&b, "  (%s, %v)", q(v.pkg+"."+v.name), written[v])
	}
	b.WriteString("].\n")
	writeIfChanged("Access.v", b.String())
}
