package main

import (
	"fmt"
	"go/ast"
	"go/token"
	"path/filepath"
	"strings"
)

// Decision programs (C09, C10): three hand-written decision functions --
//   gotypes.DecoratorResolver.ResolveIdent, goast.DecoratorResolver.ResolveIdent and
//   fileDecorator.resolvePath
// -- are translated statement by statement into a small language of guarded returns
// (Gen/DecisionSrc.v).  Bindings are inlined symbolically (x, ok := e.(T) makes x stand for
// "e.(T)" and ok for the predicate "is(e,T)"), so a predicate is a canonical string over the
// function's parameters.  Coq interprets the predicates over the abstract state of
// Model/Resolvers.v and proves, by evaluation over every abstract state, that the translated
// program computes what the hand model computes.  Statements outside the language become DUnknown
// and break the obligation.

func qfull(s string) string {
	s = strings.ReplaceAll(s, "\"", "\"\"")
	s = strings.Map(func(r rune) rune {
		if r < 32 || r > 126 {
			return '?'
		}
		return r
	}, s)
	return "\"" + s + "\""
}

// mapSet: M[k] = v  ->  DVal "set(M,k,v)"
func (e *symEnv) mapSet(s ast.Stmt) (string, bool) {
	as, ok := s.(*ast.AssignStmt)
	if !ok || len(as.Lhs) != 1 || len(as.Rhs) != 1 || as.Tok != token.ASSIGN {
		return "", false
	}
	ix, ok := as.Lhs[0].(*ast.IndexExpr)
	if !ok {
		return "", false
	}
	return "DVal " + qfull("set("+e.sym(ix.X)+","+e.sym(ix.Index)+","+e.sym(as.Rhs[0])+")"), true
}

type symEnv struct {
	inLoop bool
	// fork: a block that assigns to outer variables is translated with the rest of the statement list
	// inlined under it (the rest must end in a return), and the rest is translated again for the other path
	fork bool
	// tuple: functions with several results: "return a, b" is the symbol "a , b"; "x, err := CALL; if err != nil
	// { return nil, err }" is a guard; "a, b := CALL" binds CALL.0 and CALL.1
	tuple bool
	// tail: a recogniser for a final run of statements outside the language, rendered as one outcome
	tail func(e *symEnv, rest []ast.Stmt) (string, bool)
	val  map[string]string // variable -> symbolic expression
	pred map[string]string // boolean variable (ok) -> predicate it stands for
}

func (e *symEnv) clone() *symEnv {
	n := &symEnv{val: map[string]string{}, pred: map[string]string{}, inLoop: e.inLoop, fork: e.fork, tail: e.tail, tuple: e.tuple}
	for k, v := range e.val {
		n.val[k] = v
	}
	for k, v := range e.pred {
		n.pred[k] = v
	}
	return n
}

// symbolic text of an expression: bound identifiers are replaced by what they stand for
func (e *symEnv) sym(x ast.Expr) string {
	switch x := x.(type) {
	case *ast.Ident:
		if v, ok := e.val[x.Name]; ok {
			return v
		}
		return x.Name
	case *ast.SelectorExpr:
		return e.sym(x.X) + "." + x.Sel.Name
	case *ast.CallExpr:
		var args []string
		for _, a := range x.Args {
			args = append(args, e.sym(a))
		}
		return e.sym(x.Fun) + "(" + strings.Join(args, ",") + ")"
	case *ast.IndexExpr:
		return e.sym(x.X) + "[" + e.sym(x.Index) + "]"
	case *ast.TypeAssertExpr:
		return e.sym(x.X) + ".(" + src(x.Type) + ")"
	case *ast.ParenExpr:
		return "(" + e.sym(x.X) + ")"
	case *ast.BinaryExpr:
		return e.sym(x.X) + x.Op.String() + e.sym(x.Y)
	case *ast.UnaryExpr:
		return x.Op.String() + e.sym(x.X)
	case *ast.StarExpr:
		return "*" + e.sym(x.X)
	case *ast.BasicLit:
		return x.Value
	}
	return src(x)
}

// a condition as a list of alternatives of (predicate, negated) conjunctions is too general for
// these functions; what occurs is: a single literal, a conjunction (nested DIf), or a disjunction
// in a guard (several DGuard with the same return).
type lit struct {
	p   string
	neg bool
}

func (e *symEnv) literal(c ast.Expr) (lit, bool) {
	switch c := c.(type) {
	case *ast.ParenExpr:
		return e.literal(c.X)
	case *ast.Ident:
		if p, ok := e.pred[c.Name]; ok {
			return lit{p, false}, true
		}
		return lit{c.Name, false}, true
	case *ast.UnaryExpr:
		if c.Op == token.NOT {
			l, ok := e.literal(c.X)
			l.neg = !l.neg
			return l, ok
		}
	case *ast.BinaryExpr:
		switch c.Op {
		case token.EQL, token.NEQ:
			neg := c.Op == token.NEQ
			if id, ok := c.Y.(*ast.Ident); ok && id.Name == "nil" {
				return lit{"nil(" + e.sym(c.X) + ")", neg}, true
			}
			return lit{"eq(" + e.sym(c.X) + "," + e.sym(c.Y) + ")", neg}, true
		}
	case *ast.CallExpr, *ast.IndexExpr, *ast.SelectorExpr:
		return lit{"true(" + e.sym(c) + ")", false}, true
	}
	return lit{}, false
}

func conj(c ast.Expr) []ast.Expr {
	if b, ok := c.(*ast.BinaryExpr); ok && b.Op == token.LAND {
		return append(conj(b.X), conj(b.Y)...)
	}
	if p, ok := c.(*ast.ParenExpr); ok {
		return conj(p.X)
	}
	return []ast.Expr{c}
}

func disj(c ast.Expr) []ast.Expr {
	if b, ok := c.(*ast.BinaryExpr); ok && b.Op == token.LOR {
		return append(disj(b.X), disj(b.Y)...)
	}
	if p, ok := c.(*ast.ParenExpr); ok {
		return disj(p.X)
	}
	return []ast.Expr{c}
}

// bind: x, ok := e.(T) | x, ok := m[k] | x := e | x = e    (no calls with side effects: the caller
// checks that separately for "x, err := call")
func (e *symEnv) bind(s *ast.AssignStmt) bool {
	if len(s.Rhs) != 1 {
		return false
	}
	names := func() ([]string, bool) {
		var out []string
		for _, l := range s.Lhs {
			id, ok := l.(*ast.Ident)
			if !ok {
				return nil, false
			}
			out = append(out, id.Name)
		}
		return out, true
	}
	ns, ok := names()
	if !ok {
		return false
	}
	switch r := s.Rhs[0].(type) {
	case *ast.TypeAssertExpr:
		if len(ns) == 2 {
			x := e.sym(r.X)
			e.val[ns[0]] = x + ".(" + src(r.Type) + ")"
			e.pred[ns[1]] = "is(" + x + "," + src(r.Type) + ")"
			return true
		}
	case *ast.IndexExpr:
		if len(ns) == 2 {
			m, k := e.sym(r.X), e.sym(r.Index)
			e.val[ns[0]] = m + "[" + k + "]"
			e.pred[ns[1]] = "has(" + m + "," + k + ")"
			return true
		}
	}
	if len(ns) == 1 {
		e.val[ns[0]] = e.sym(s.Rhs[0])
		delete(e.pred, ns[0])
		return true
	}
	return false
}

func (e *symEnv) ret(r *ast.ReturnStmt) (string, bool) {
	if e.tuple && len(r.Results) >= 2 {
		var rs []string
		for _, x := range r.Results {
			rs = append(rs, e.sym(x))
		}
		return "DVal " + qfull(strings.Join(rs, " , ")), true
	}
	if len(r.Results) == 1 {
		// a function with one (boolean) result: the returned expression as a symbol
		return "DVal " + qfull(e.sym(r.Results[0])), true
	}
	if len(r.Results) != 2 {
		return "", false
	}
	v, er := r.Results[0], r.Results[1]
	if id, ok := er.(*ast.Ident); ok && id.Name == "nil" {
		if bl, ok := v.(*ast.BasicLit); ok && bl.Value == `""` {
			return "DEmpty", true
		}
		return "DVal " + qfull(e.sym(v)), true
	}
	if bl, ok := v.(*ast.BasicLit); ok && bl.Value == `""` {
		return "DErr", true
	}
	return "", false
}

func isPanic(s ast.Stmt) bool {
	es, ok := s.(*ast.ExprStmt)
	if !ok {
		return false
	}
	c, ok := es.X.(*ast.CallExpr)
	if !ok {
		return false
	}
	id, ok := c.Fun.(*ast.Ident)
	return ok && id.Name == "panic"
}

func (e *symEnv) stmts(list []ast.Stmt, where string) []string {
	var out []string
	unknown := func(s ast.Stmt) {
		noteUnknown(where, "statement outside the decision language: "+src(s))
		out = append(out, "DUnknown "+qfull(src(s)))
	}
	for i := 0; i < len(list); i++ {
		if e.tail != nil {
			if t, ok := e.tail(e, list[i:]); ok {
				return append(out, t)
			}
		}
		switch s := list[i].(type) {
		case *ast.DeclStmt:
			// var x string
			if gd, ok := s.Decl.(*ast.GenDecl); ok && gd.Tok == token.VAR && len(gd.Specs) == 1 {
				if vs, ok := gd.Specs[0].(*ast.ValueSpec); ok && len(vs.Names) == 1 && len(vs.Values) == 0 && src(vs.Type) == "string" {
					e.val[vs.Names[0].Name] = `""`
					continue
				}
			}
			unknown(s)
		case *ast.AssignStmt:
			// x, err := call(...) followed by if err != nil { return "", err }
			if len(s.Lhs) == 2 && len(s.Rhs) == 1 {
				if id, ok := s.Lhs[1].(*ast.Ident); ok && id.Name == "err" {
					if c, ok := s.Rhs[0].(*ast.CallExpr); ok && i+1 < len(list) && src(list[i+1]) == `if err != nil { return "", err }` {
						call := e.sym(c)
						if x, ok := s.Lhs[0].(*ast.Ident); ok {
							e.val[x.Name] = call
						}
						out = append(out, "DGuard "+qfull("fails("+call+")")+" false DErr")
						i++
						continue
					}
				}
			}
			// name, err := call(...) followed by if err != nil { return <an error built from err> }   (loop bodies)
			if e.inLoop && len(s.Lhs) == 2 && len(s.Rhs) == 1 && src(s.Lhs[1]) == "err" && i+1 < len(list) {
				if c, ok := s.Rhs[0].(*ast.CallExpr); ok {
					if is, ok := list[i+1].(*ast.IfStmt); ok && is.Init == nil && is.Else == nil && src(is.Cond) == "err != nil" && len(is.Body.List) == 1 {
						if rs, ok := is.Body.List[0].(*ast.ReturnStmt); ok && len(rs.Results) == 1 && strings.Contains(src(rs.Results[0]), "err") {
							call := e.sym(c)
							if x, ok := s.Lhs[0].(*ast.Ident); ok {
								e.val[x.Name] = call
							}
							out = append(out, "DGuard "+qfull("fails("+call+")")+" false DErr")
							i++
							continue
						}
					}
				}
			}
			// tuple mode: x, err := CALL; if err != nil { return nil, err }
			if e.tuple && len(s.Lhs) == 2 && len(s.Rhs) == 1 && src(s.Lhs[1]) == "err" && i+1 < len(list) && src(list[i+1]) == "if err != nil { return nil, err }" {
				if c, ok := s.Rhs[0].(*ast.CallExpr); ok {
					call := e.sym(c)
					if x, ok := s.Lhs[0].(*ast.Ident); ok {
						e.val[x.Name] = call
					}
					out = append(out, "DGuard "+qfull("fails("+call+")")+" false DErr")
					i++
					continue
				}
			}
			// tuple mode: a, b := CALL
			if e.tuple && len(s.Lhs) == 2 && len(s.Rhs) == 1 && s.Tok == token.DEFINE {
				if c, ok := s.Rhs[0].(*ast.CallExpr); ok {
					a, okA := s.Lhs[0].(*ast.Ident)
					b2, okB := s.Lhs[1].(*ast.Ident)
					if okA && okB {
						call := e.sym(c)
						e.val[a.Name] = call + ".0"
						e.val[b2.Name] = call + ".1"
						continue
					}
				}
			}
			// M[k] = v as the last statement of a loop body
			if t, ok := e.mapSet(s); ok && e.inLoop && i == len(list)-1 {
				out = append(out, "DRet ("+t+")")
				continue
			}
			if !e.bind(s) {
				unknown(s)
			}
		case *ast.IfStmt:
			if s.Else != nil {
				unknown(s)
				continue
			}
			// plumbing of resolvePath: which file is handed to the resolver when a package is decorated
			// (pinned text; it decides nothing about the path)
			if src(s) == resolvePathFilePlumbing {
				e.val["file"] = "file-of(id)"
				continue
			}
			inner := e.clone()
			if s.Init != nil {
				as, ok := s.Init.(*ast.AssignStmt)
				if !ok || !inner.bind(as) {
					unknown(s)
					continue
				}
			}
			// a guard: the body is a single return or panic
			if len(s.Body.List) == 1 {
				r := ""
				if rs, ok := s.Body.List[0].(*ast.ReturnStmt); ok {
					if t, ok := inner.ret(rs); ok {
						r = t
					}
				} else if isPanic(s.Body.List[0]) {
					r = "DPanic"
				} else if br, ok := s.Body.List[0].(*ast.BranchStmt); ok && br.Tok == token.CONTINUE && br.Label == nil && e.inLoop {
					r = "DVal \"continue\""
				}
				if r != "" {
					ds := disj(s.Cond)
					if len(ds) > 1 {
						good := true
						var gs []string
						for _, d := range ds {
							l, ok := inner.literal(d)
							if !ok {
								good = false
								break
							}
							gs = append(gs, fmt.Sprintf("DGuard %s %v (%s)", qfull(l.p), l.neg, r))
						}
						if good {
							out = append(out, gs...)
							continue
						}
						unknown(s)
						continue
					}
					cs := conj(s.Cond)
					// p1 && ... && (d1 || d2 ...): the last conjunct a disjunction
					if last := disj(cs[len(cs)-1]); len(cs) > 1 && len(last) > 1 {
						okAll := true
						var gs []string
						for _, d := range last {
							l, ok := inner.literal(d)
							if !ok {
								okAll = false
								break
							}
							gs = append(gs, fmt.Sprintf("DGuard %s %v (%s)", qfull(l.p), l.neg, r))
						}
						g := strings.Join(gs, "; ")
						for k := len(cs) - 2; k >= 0 && okAll; k-- {
							l, ok := inner.literal(cs[k])
							if !ok {
								okAll = false
								break
							}
							g = fmt.Sprintf("DIf %s %v [%s]", qfull(l.p), l.neg, g)
						}
						if okAll {
							out = append(out, g)
							continue
						}
						unknown(s)
						continue
					}
					good := true
					var lits []lit
					for _, c := range cs {
						l, ok := inner.literal(c)
						if !ok {
							good = false
							break
						}
						lits = append(lits, l)
					}
					if good {
						g := fmt.Sprintf("DGuard %s %v (%s)", qfull(lits[len(lits)-1].p), lits[len(lits)-1].neg, r)
						for k := len(lits) - 2; k >= 0; k-- {
							g = fmt.Sprintf("DIf %s %v [%s]", qfull(lits[k].p), lits[k].neg, g)
						}
						out = append(out, g)
						continue
					}
					unknown(s)
					continue
				}
			}
			// a block: conjunction of literals, body translated in the extended environment
			cs := conj(s.Cond)
			good := true
			var lits []lit
			for _, c := range cs {
				l, ok := inner.literal(c)
				if !ok {
					good = false
					break
				}
				lits = append(lits, l)
			}
			if !good {
				unknown(s)
				continue
			}
			var body []string
			if e.fork {
				body = inner.stmts(append(append([]ast.Stmt{}, s.Body.List...), list[i+1:]...), where)
			} else {
				body = inner.stmts(s.Body.List, where)
			}
			g := "[" + strings.Join(body, "; ") + "]"
			for k := len(lits) - 1; k >= 0; k-- {
				if k == len(lits)-1 {
					g = fmt.Sprintf("DIf %s %v %s", qfull(lits[k].p), lits[k].neg, g)
				} else {
					g = fmt.Sprintf("DIf %s %v [%s]", qfull(lits[k].p), lits[k].neg, g)
				}
			}
			// assignments made inside the block to variables of the outer environment are not tracked:
			// only fresh bindings are allowed inside (checked: the body rebinds no outer variable)
			for k := range inner.val {
				if e.fork {
					break
				}
				if _, outer := e.val[k]; outer && inner.val[k] != e.val[k] {
					noteUnknown(where, "a block rebinds the outer variable "+k)
					g = "DUnknown " + qfull("rebinding of "+k)
				}
			}
			out = append(out, g)
		case *ast.ReturnStmt:
			if t, ok := e.ret(s); ok {
				out = append(out, "DRet ("+t+")")
			} else {
				unknown(s)
			}
		default:
			unknown(s)
		}
	}
	return out
}

const resolvePathFilePlumbing = `if file == nil && f.pkg != nil { tf := f.Fset.File(id.Pos()) for _, pf := range f.pkg.Files { if tf != nil && f.Fset.File(pf.Package) == tf { file = pf break } } }`

func decisionOf(f *ast.File, recv, name, where string) string {
	for _, d := range f.Decls {
		fd, ok := d.(*ast.FuncDecl)
		if !ok || fd.Body == nil || fd.Name.Name != name {
			continue
		}
		if recv != "" && (fd.Recv == nil || !strings.Contains(src(fd.Recv.List[0].Type), recv)) {
			continue
		}
		env := &symEnv{val: map[string]string{}, pred: map[string]string{}}
		return "[" + strings.Join(env.stmts(fd.Body.List, where), ";\n   ") + "]"
	}
	noteUnknown(where, "function not found")
	return "[DUnknown \"missing\"]"
}

// loopBodyOf: the body of the n-th loop "for K, V := range X" of function name, as a decision program over
// one iteration (outcomes: "continue", set(M,k,v), an error, or falling off the end)
func loopBodyOf(f *ast.File, name, rangeX string, nth int, where string) string {
	for _, d := range f.Decls {
		fd, ok := d.(*ast.FuncDecl)
		if !ok || fd.Body == nil || fd.Name.Name != name {
			continue
		}
		count := 0
		var found *ast.RangeStmt
		ast.Inspect(fd.Body, func(n ast.Node) bool {
			if rs, ok := n.(*ast.RangeStmt); ok && src(rs.X) == rangeX && rs.Tok == token.DEFINE {
				if count == nth && found == nil {
					found = rs
				}
				count++
			}
			return true
		})
		if found == nil {
			break
		}
		env := &symEnv{val: map[string]string{}, pred: map[string]string{}, inLoop: true}
		return "[" + strings.Join(env.stmts(found.Body.List, where), ";\n   ") + "]"
	}
	noteUnknown(where, "loop over "+rangeX+" not found")
	return "[DUnknown \"missing\"]"
}

const restoreIdentSelectorTail = `out := &ast.SelectorExpr{} | r.Ast.Nodes[n] = out | r.Dst.Nodes[out] = n | r.applySpace(n, "Before", n.Decs.Before) | r.applyDecorations(out, "Start", n.Decs.Start, false) | x := dst.NewIdent(name) | out.X = r.restoreNode(x, "SelectorExpr", "X", "Expr", allowDuplicate).(ast.Expr) | r.cursor += token.Pos(len(token.PERIOD.String())) | r.applyDecorations(out, "X", n.Decs.X, false) | sel := dst.NewIdent(n.Name) | out.Sel = r.restoreNode(sel, "SelectorExpr", "Sel", "Ident", allowDuplicate).(*ast.Ident) | r.applyDecorations(out, "End", n.Decs.End, true) | r.applySpace(n, "After", n.Decs.After) | r.Dst.Nodes[out.X] = n | r.Dst.Nodes[out.Sel] = n | delete(r.Ast.Nodes, x) | delete(r.Ast.Nodes, sel) | return out`

func restoreIdentProgram(f *ast.File) string {
	where := "restorer.go restoreIdent"
	for _, d := range f.Decls {
		fd, ok := d.(*ast.FuncDecl)
		if !ok || fd.Body == nil || fd.Name.Name != "restoreIdent" || fd.Recv == nil {
			continue
		}
		env := &symEnv{val: map[string]string{}, pred: map[string]string{}, fork: true}
		env.tail = func(e *symEnv, rest []ast.Stmt) (string, bool) {
			if len(rest) == 0 || src(rest[0]) != "out := &ast.SelectorExpr{}" {
				return "", false
			}
			var ts []string
			for _, s := range rest {
				ts = append(ts, src(s))
			}
			if strings.Join(ts, " | ") != restoreIdentSelectorTail {
				noteUnknown(where, "the statements that build the selector differ from the model's selector_acts: "+strings.Join(ts, " | "))
				return "DUnknown " + qfull("selector construction"), true
			}
			return "DRet (DVal " + qfull("selector:"+e.sym(ast.NewIdent("name"))) + ")", true
		}
		return "[" + strings.Join(env.stmts(fd.Body.List, where), ";\n   ") + "]"
	}
	noteUnknown(where, "function not found")
	return "[DUnknown \"missing\"]"
}

func forkDecisionOf(f *ast.File, recv, name, where string) string {
	for _, d := range f.Decls {
		fd, ok := d.(*ast.FuncDecl)
		if !ok || fd.Body == nil || fd.Name.Name != name || fd.Recv == nil || !strings.Contains(src(fd.Recv.List[0].Type), recv) {
			continue
		}
		env := &symEnv{val: map[string]string{}, pred: map[string]string{}, fork: true}
		return "[" + strings.Join(env.stmts(fd.Body.List, where), ";\n   ") + "]"
	}
	noteUnknown(where, "function not found")
	return "[DUnknown \"missing\"]"
}

func tupleDecisionOf(f *ast.File, recv, name, where string) string {
	for _, d := range f.Decls {
		fd, ok := d.(*ast.FuncDecl)
		if !ok || fd.Body == nil || fd.Name.Name != name || fd.Recv == nil || !strings.Contains(src(fd.Recv.List[0].Type), recv) {
			continue
		}
		env := &symEnv{val: map[string]string{}, pred: map[string]string{}, tuple: true}
		return "[" + strings.Join(env.stmts(fd.Body.List, where), ";\n   ") + "]"
	}
	noteUnknown(where, "function not found")
	return "[DUnknown \"missing\"]"
}

func genDecisionSrc() {
	var b strings.Builder
	b.WriteString("(* GENERATED from /repo/decorator/resolver/{gotypes,goast}/resolver.go and decorator/decorator.go -- do not edit *)\nFrom Coq Require Import List String Bool.\nImport ListNotations.\nFrom DV Require Import Model.Decision.\nLocal Open Scope string_scope.\n\n")
	gt := parseNoComments(filepath.Join(*repo, "decorator/resolver/gotypes/resolver.go"))
	ga := parseNoComments(filepath.Join(*repo, "decorator/resolver/goast/resolver.go"))
	df := parseNoComments(filepath.Join(*repo, "decorator/decorator.go"))
	fmt.Fprintf(&b, "Definition gotypes_resolveident_src : list dstmt :=\n  %s.\n\n", decisionOf(gt, "DecoratorResolver", "ResolveIdent", "gotypes.ResolveIdent"))
	fmt.Fprintf(&b, "Definition goast_resolveident_src : list dstmt :=\n  %s.\n\n", decisionOf(ga, "DecoratorResolver", "ResolveIdent", "goast.ResolveIdent"))
	fmt.Fprintf(&b, "Definition resolvepath_src : list dstmt :=\n  %s.\n\n", decisionOf(df, "fileDecorator", "resolvePath", "decorator.resolvePath"))
	// the two package-name resolvers of the library: pure decision programs over their map
	gu := parseNoComments(filepath.Join(*repo, "decorator/resolver/guess/resolver.go"))
	si := parseNoComments(filepath.Join(*repo, "decorator/resolver/simple/resolver.go"))
	fmt.Fprintf(&b, "Definition guess_resolvepackage_src : list dstmt :=\n  %s.\n\n", decisionOf(gu, "RestorerResolver", "ResolvePackage", "guess.ResolvePackage"))
	fmt.Fprintf(&b, "Definition simple_resolvepackage_src : list dstmt :=\n  %s.\n\n", decisionOf(si, "RestorerResolver", "ResolvePackage", "simple.ResolvePackage"))
	// the order in which the import manager names and lists packages
	rf := parseNoComments(filepath.Join(*repo, "decorator/restorer.go"))
	fmt.Fprintf(&b, "Definition packagepathorderless_src : list dstmt :=\n  %s.\n\n", decisionOf(rf, "", "packagePathOrderLess", "restorer.go packagePathOrderLess"))
	// the loops of updateImports that compute the effective alias of every path, mark anonymous imports as
	// required and resolve the names of the packages in use: one decision program per loop body
	fmt.Fprintf(&b, "Definition effalias_found_src : list dstmt :=\n  %s.\n\n", loopBodyOf(rf, "updateImports", "importsFound", 0, "restorer.go updateImports loops"))
	fmt.Fprintf(&b, "Definition effalias_manual_src : list dstmt :=\n  %s.\n\n", loopBodyOf(rf, "updateImports", "r.Alias", 0, "restorer.go updateImports loops"))
	fmt.Fprintf(&b, "Definition anonymous_required_src : list dstmt :=\n  %s.\n\n", loopBodyOf(rf, "updateImports", "effectiveAlias", 0, "restorer.go updateImports loops"))
	fmt.Fprintf(&b, "Definition resolve_names_src : list dstmt :=\n  %s.\n\n", loopBodyOf(rf, "updateImports", "packagesInUseOrdered", 0, "restorer.go updateImports loops"))
	// restoreIdent: which identifiers are restored as package.Name, under which name; the construction of
	// the selector itself is one outcome (its statements are pinned)
	fmt.Fprintf(&b, "Definition restoreident_src : list dstmt :=\n  %s.\n\n", restoreIdentProgram(rf))
	// Decorator.ParseFile: which error is reported when the parser and the decorator both fail
	fmt.Fprintf(&b, "Definition parsefile_src : list dstmt :=\n  %s.\n\n", tupleDecisionOf(df, "Decorator", "ParseFile", "decorator.go Decorator.ParseFile"))
	// gobuild.RestorerResolver.ResolvePackage: hints first, then the finder (default: (*build.Context).Import)
	// with the context (default: &build.Default) -- the defaults are conditional assignments, rendered by forking
	gb := parseNoComments(filepath.Join(*repo, "decorator/resolver/gobuild/resolver.go"))
	fmt.Fprintf(&b, "Definition gobuild_resolvepackage_src : list dstmt :=\n  %s.\n", forkDecisionOf(gb, "RestorerResolver", "ResolvePackage", "gobuild.ResolvePackage program"))
	writeIfChanged("DecisionSrc.v", b.String())
}
