package main

import (
	"fmt"
	"go/ast"
	"go/token"
	"strings"
)

// clone-generated.go / clone.go -> Gen/CloneTbl.v: one cstmt per statement of each case.

// outPath parses out.A.B into ["A","B"] (root must be the identifier root).
func cpathOf(e ast.Expr, root string) ([]string, bool) {
	var rev []string
	for {
		switch x := e.(type) {
		case *ast.SelectorExpr:
			rev = append(rev, x.Sel.Name)
			e = x.X
			continue
		case *ast.Ident:
			if x.Name != root {
				return nil, false
			}
			var p []string
			for i := len(rev) - 1; i >= 0; i-- {
				p = append(p, rev[i])
			}
			return p, true
		}
		return nil, false
	}
}

func samePath(a, b []string) bool {
	if len(a) != len(b) {
		return false
	}
	for i := range a {
		if a[i] != b[i] {
			return false
		}
	}
	return true
}

// splitDecs: ["Type","Decs","Start"] -> owner ["Type"], point "Start"
func splitDecs(p []string) (owner []string, point string, ok bool) {
	if len(p) >= 2 && p[len(p)-2] == "Decs" {
		return p[:len(p)-2], p[len(p)-1], true
	}
	return nil, "", false
}

// cloneCall: Clone(x).(T) or Clone(x) -> (x, T)
func cloneCall(e ast.Expr) (arg ast.Expr, ty string, ok bool) {
	if ta, isTA := e.(*ast.TypeAssertExpr); isTA {
		e = ta.X
		ty = strings.TrimPrefix(src(ta.Type), "*")
	}
	c, isCall := e.(*ast.CallExpr)
	if !isCall || len(c.Args) != 1 {
		return nil, "", false
	}
	if id, isId := c.Fun.(*ast.Ident); isId && id.Name == "Clone" {
		return c.Args[0], ty, true
	}
	return nil, "", false
}

func cloneStmts(body []ast.Stmt, where string) []string {
	var out []string
	unknown := func(s ast.Stmt) {
		noteUnknown(where, src(s))
		out = append(out, "KUnknown "+q(src(s)))
	}
	for i := 0; i < len(body); i++ {
		s := body[i]
		switch s := s.(type) {
		case *ast.AssignStmt:
			if len(s.Lhs) != 1 || len(s.Rhs) != 1 {
				unknown(s)
				continue
			}
			// out := &K{}
			if s.Tok == token.DEFINE && src(s.Lhs[0]) == "out" {
				if ue, ok := s.Rhs[0].(*ast.UnaryExpr); ok && ue.Op == token.AND {
					if cl, ok := ue.X.(*ast.CompositeLit); ok && len(cl.Elts) == 0 {
						out = append(out, "KNew "+q(src(cl.Type)))
						continue
					}
				}
				unknown(s)
				continue
			}
			if s.Tok != token.ASSIGN {
				unknown(s)
				continue
			}
			lp, ok := cpathOf(s.Lhs[0], "out")
			if !ok {
				unknown(s)
				continue
			}
			rhs := s.Rhs[0]
			// out.P = &T{}
			if ue, ok := rhs.(*ast.UnaryExpr); ok && ue.Op == token.AND {
				if cl, ok := ue.X.(*ast.CompositeLit); ok && len(cl.Elts) == 0 {
					out = append(out, fmt.Sprintf("KInit %s %s", qlist(lp), q(src(cl.Type))))
					continue
				}
			}
			// out.P = map[string]*T{}   followed by   for k, v := range n.P { out.P[k] = Clone(v).(*T) | CloneObject(v) }
			if cl, ok := rhs.(*ast.CompositeLit); ok && len(cl.Elts) == 0 && strings.HasPrefix(src(cl.Type), "map[string]*") && i+1 < len(body) {
				if rs, ok := body[i+1].(*ast.RangeStmt); ok && rs.Key != nil && rs.Value != nil && len(rs.Body.List) == 1 {
					np, ok1 := cpathOf(rs.X, "n")
					if as, ok2 := rs.Body.List[0].(*ast.AssignStmt); ok1 && ok2 && samePath(np, lp) && len(as.Lhs) == 1 && len(as.Rhs) == 1 {
						if ix, ok := as.Lhs[0].(*ast.IndexExpr); ok && src(ix.Index) == src(rs.Key) {
							if ip, ok := cpathOf(ix.X, "out"); ok && samePath(ip, lp) {
								if arg, _, ok := cloneCall(as.Rhs[0]); ok && src(arg) == src(rs.Value) {
									out = append(out, "KMapNodes "+qlist(lp))
									i++
									continue
								}
								if c, ok := as.Rhs[0].(*ast.CallExpr); ok && src(c.Fun) == "CloneObject" && len(c.Args) == 1 && src(c.Args[0]) == src(rs.Value) {
									out = append(out, "KMapObjs "+qlist(lp))
									i++
									continue
								}
							}
						}
					}
				}
				unknown(s)
				continue
			}
			// out.O.Decs.X = append(out.O.Decs.X, n.O.Decs.X...)
			if c, ok := rhs.(*ast.CallExpr); ok && src(c.Fun) == "append" && len(c.Args) == 2 && c.Ellipsis.IsValid() {
				a0, ok0 := cpathOf(c.Args[0], "out")
				a1, ok1 := cpathOf(c.Args[1], "n")
				if ok0 && ok1 && samePath(a0, lp) && samePath(a1, lp) {
					if owner, pt, ok := splitDecs(lp); ok {
						out = append(out, fmt.Sprintf("KDec %s %s", qlist(owner), q(pt)))
						continue
					}
				}
				unknown(s)
				continue
			}
			// out.P = CloneObject(n.P) / CloneScope(n.P)
			if c, ok := rhs.(*ast.CallExpr); ok && len(c.Args) == 1 {
				if np, ok := cpathOf(c.Args[0], "n"); ok && samePath(np, lp) {
					switch src(c.Fun) {
					case "CloneObject":
						out = append(out, "KObj "+qlist(lp))
						continue
					case "CloneScope":
						out = append(out, "KScope "+qlist(lp))
						continue
					}
				}
			}
			// out.P = n.P : value copy, or (if the field is a slice / node) an alias -- the Coq side
			// decides from the universe what kind of field P is
			if np, ok := cpathOf(rhs, "n"); ok && samePath(np, lp) {
				if owner, pt, ok := splitDecs(lp); ok {
					if pt == "Before" || pt == "After" {
						out = append(out, fmt.Sprintf("KSpace %s %v", qlist(owner), pt == "After"))
					} else {
						out = append(out, fmt.Sprintf("KAliasDec %s %s", qlist(owner), q(pt)))
					}
					continue
				}
				out = append(out, "KCopy "+qlist(lp))
				continue
			}
			unknown(s)
		case *ast.IfStmt:
			// if n.P != nil { out.P = Clone(n.P).(T) }
			if s.Init == nil && s.Else == nil && len(s.Body.List) == 1 {
				if be, ok := s.Cond.(*ast.BinaryExpr); ok && be.Op == token.NEQ && src(be.Y) == "nil" {
					if cp, ok := cpathOf(be.X, "n"); ok {
						if as, ok := s.Body.List[0].(*ast.AssignStmt); ok && as.Tok == token.ASSIGN && len(as.Lhs) == 1 && len(as.Rhs) == 1 {
							lp, ok1 := cpathOf(as.Lhs[0], "out")
							if arg, ty, ok2 := cloneCall(as.Rhs[0]); ok1 && ok2 && samePath(lp, cp) {
								if ap, ok := cpathOf(arg, "n"); ok && samePath(ap, cp) {
									out = append(out, fmt.Sprintf("KNode %s %s", qlist(lp), q(ty)))
									continue
								}
							}
						}
					}
				}
			}
			unknown(s)
		case *ast.RangeStmt:
			// for _, v := range n.P { out.P = append(out.P, Clone(v).(T)) }
			if np, ok := cpathOf(s.X, "n"); ok && s.Value != nil && len(s.Body.List) == 1 {
				if as, ok := s.Body.List[0].(*ast.AssignStmt); ok && as.Tok == token.ASSIGN && len(as.Lhs) == 1 && len(as.Rhs) == 1 {
					lp, ok1 := cpathOf(as.Lhs[0], "out")
					if c, ok2 := as.Rhs[0].(*ast.CallExpr); ok1 && ok2 && samePath(lp, np) && src(c.Fun) == "append" && len(c.Args) == 2 && !c.Ellipsis.IsValid() {
						a0, ok3 := cpathOf(c.Args[0], "out")
						if arg, ty, ok4 := cloneCall(c.Args[1]); ok3 && ok4 && samePath(a0, lp) && src(arg) == src(s.Value) {
							out = append(out, fmt.Sprintf("KList %s %s", qlist(lp), q(ty)))
							continue
						}
					}
				}
			}
			unknown(s)
		case *ast.ReturnStmt:
			if len(s.Results) == 1 && src(s.Results[0]) == "out" {
				out = append(out, "KReturn")
				continue
			}
			unknown(s)
		default:
			unknown(s)
		}
	}
	return out
}

func genClone() {
	f := parse("clone-generated.go")
	var b strings.Builder
	b.WriteString("(* GENERATED from /repo/clone-generated.go and /repo/clone.go -- do not edit *)\n" + hdr)
	b.WriteString("Definition clone_tbl : list (string * list cstmt) := [\n")
	first := true
	frameOK := false
	for _, d := range f.Decls {
		fd, ok := d.(*ast.FuncDecl)
		if !ok || fd.Name.Name != "Clone" || fd.Recv != nil || fd.Body == nil {
			continue
		}
		if len(fd.Body.List) == 1 {
			if sw, ok := fd.Body.List[0].(*ast.TypeSwitchStmt); ok && src(sw.Assign) == "n := n.(type)" {
				frameOK = true
				for _, c := range sw.Body.List {
					cc := c.(*ast.CaseClause)
					if cc.List == nil {
						if len(cc.Body) != 1 || !strings.HasPrefix(src(cc.Body[0]), "panic(") {
							noteUnknown("clone-generated.go", "default case: "+src(cc))
							frameOK = false
						}
						continue
					}
					for _, t := range cc.List {
						name := strings.TrimPrefix(src(t), "*")
						if !first {
							b.WriteString(";\n")
						}
						first = false
						fmt.Fprintf(&b, "  (%s, [%s])", q(name), strings.Join(cloneStmts(cc.Body, "clone-generated.go "+name), "; "))
					}
				}
			}
		}
	}
	b.WriteString("].\n\n")
	if !frameOK {
		noteUnknown("clone-generated.go", "Clone does not have the shape switch n := n.(type) { case ...: ...; default: panic }")
	}
	// clone.go: CloneObject and CloneScope return nil
	cf := parse("clone.go")
	nilFns := map[string]bool{}
	for _, d := range cf.Decls {
		if fd, ok := d.(*ast.FuncDecl); ok && fd.Body != nil && len(fd.Body.List) == 1 && src(fd.Body.List[0]) == "return nil" {
			nilFns[fd.Name.Name] = true
		}
	}
	if !nilFns["CloneObject"] || !nilFns["CloneScope"] {
		noteUnknown("clone.go", "CloneObject / CloneScope do not simply return nil")
	}
	fmt.Fprintf(&b, "Definition clone_frame_ok : bool := %v.\nDefinition clone_refs_nil : bool := %v.\n", frameOK, nilFns["CloneObject"] && nilFns["CloneScope"])
	writeIfChanged("CloneTbl.v", b.String())
}
