package main

import (
	"fmt"
	"go/ast"
	"go/token"
	"path/filepath"
	"strings"
)

// Entry points (Gen/EntrySrc.v): the print / restore / parse wrappers of package decorator (helpers.go and
// the Print, Fprint, RestoreFile methods of Restorer and FileRestorer) rendered as decision programs:
// bindings inlined, "x..., err := CALL; if err != nil { return ..., err }" as a guard, the returned
// expression as a symbol.  They say that every way of printing is format.Node of RestoreFile and every
// way of parsing is the Decorator's method on a fresh Decorator.

func wrapperProgram(fd *ast.FuncDecl, where string) string {
	env := &symEnv{val: map[string]string{}, pred: map[string]string{}}
	var out []string
	list := fd.Body.List
	for i := 0; i < len(list); i++ {
		switch s := list[i].(type) {
		case *ast.AssignStmt:
			n := len(s.Lhs)
			if len(s.Rhs) == 1 && n >= 2 && src(s.Lhs[n-1]) == "err" && s.Tok == token.DEFINE && i+1 < len(list) {
				if c, ok := s.Rhs[0].(*ast.CallExpr); ok {
					if is, ok := list[i+1].(*ast.IfStmt); ok && is.Init == nil && is.Else == nil && src(is.Cond) == "err != nil" && len(is.Body.List) == 1 {
						if rs, ok := is.Body.List[0].(*ast.ReturnStmt); ok && len(rs.Results) >= 1 && src(rs.Results[len(rs.Results)-1]) == "err" {
							call := env.sym(c)
							for k := 0; k < n-1; k++ {
								if id, ok := s.Lhs[k].(*ast.Ident); ok {
									if n-1 == 1 {
										env.val[id.Name] = call
									} else {
										env.val[id.Name] = fmt.Sprintf("%s.%d", call, k)
									}
								}
							}
							out = append(out, "DGuard "+qfull("fails("+call+")")+" false DErr")
							i++
							continue
						}
					}
				}
			}
			if len(s.Lhs) == 1 && len(s.Rhs) == 1 && s.Tok == token.DEFINE {
				if id, ok := s.Lhs[0].(*ast.Ident); ok {
					env.val[id.Name] = env.sym(s.Rhs[0])
					continue
				}
			}
		case *ast.ReturnStmt:
			var rs []string
			for _, r := range s.Results {
				rs = append(rs, env.sym(r))
			}
			out = append(out, "DRet (DVal "+qfull(strings.Join(rs, " , "))+")")
			continue
		}
		noteUnknown(where, "statement outside the wrapper language: "+src(list[i]))
		out = append(out, "DUnknown "+qfull(src(list[i])))
	}
	return "[" + strings.Join(out, "; ") + "]"
}

func genEntrySrc() {
	var b strings.Builder
	b.WriteString("(* GENERATED from /repo/decorator/helpers.go and restorer.go -- do not edit *)\nFrom Coq Require Import List String Bool.\nImport ListNotations.\nFrom DV Require Import Model.Decision.\nLocal Open Scope string_scope.\n\n")
	var rows []string
	add := func(file string, want map[string]bool) {
		f := parseNoComments(filepath.Join(*repo, file))
		for _, d := range f.Decls {
			fd, ok := d.(*ast.FuncDecl)
			if !ok || fd.Body == nil {
				continue
			}
			name := fd.Name.Name
			if fd.Recv != nil && len(fd.Recv.List) == 1 {
				name = strings.TrimPrefix(src(fd.Recv.List[0].Type), "*") + "." + name
			}
			if !want[name] {
				continue
			}
			rows = append(rows, "("+q(name)+", "+wrapperProgram(fd, file+" "+name)+")")
			delete(want, name)
		}
		for k := range want {
			noteUnknown(file+" "+k, "entry point not found")
		}
	}
	add("decorator/helpers.go", map[string]bool{"Parse": true, "ParseFile": true, "ParseDir": true, "Decorate": true, "DecorateFile": true, "Print": true, "Fprint": true, "RestoreFile": true})
	add("decorator/restorer.go", map[string]bool{"Restorer.Print": true, "Restorer.Fprint": true, "Restorer.RestoreFile": true, "FileRestorer.Print": true, "FileRestorer.Fprint": true})
	fmt.Fprintf(&b, "Definition entry_points_src : list (string * list dstmt) :=\n  [%s].\n", strings.Join(rows, ";\n   "))
	writeIfChanged("EntrySrc.v", b.String())
}
