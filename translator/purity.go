package main

import (
	"fmt"
	"go/ast"
	"go/token"
	"path/filepath"
	"sort"
	"strings"
)

// Purity of the package-name resolvers that may be shared between goroutines (C16): in the
// ResolvePackage method of guess, simple and gobuild every assignment, increment and decrement
// targets a variable declared inside the method -- nothing is written through the receiver, a
// pointer, an index or a package-level name (gobuild works on r.Context or &build.Default: a write
// through that pointer reaches a process-wide value).  Gen/PuritySrc.v.

func writesOnlyLocals(fd *ast.FuncDecl) (bool, string) {
	locals := map[string]bool{}
	if fd.Type.Params != nil {
		for _, f := range fd.Type.Params.List {
			for _, n := range f.Names {
				locals[n.Name] = true
			}
		}
	}
	if fd.Type.Results != nil {
		for _, f := range fd.Type.Results.List {
			for _, n := range f.Names {
				locals[n.Name] = true
			}
		}
	}
	bad := ""
	note := func(s string) {
		if bad == "" {
			bad = s
		}
	}
	target := func(e ast.Expr, define bool) {
		id, ok := e.(*ast.Ident)
		if !ok {
			note("assignment through " + src(e))
			return
		}
		if define || id.Name == "_" {
			locals[id.Name] = true
			return
		}
		if !locals[id.Name] {
			note("assignment to the non-local name " + id.Name)
		}
	}
	ast.Inspect(fd.Body, func(n ast.Node) bool {
		switch n := n.(type) {
		case *ast.AssignStmt:
			for _, l := range n.Lhs {
				target(l, n.Tok == token.DEFINE)
			}
		case *ast.IncDecStmt:
			target(n.X, false)
		case *ast.RangeStmt:
			if n.Key != nil {
				target(n.Key, n.Tok == token.DEFINE)
			}
			if n.Value != nil {
				target(n.Value, n.Tok == token.DEFINE)
			}
		case *ast.GenDecl:
			if n.Tok == token.VAR {
				for _, s := range n.Specs {
					if vs, ok := s.(*ast.ValueSpec); ok {
						for _, nm := range vs.Names {
							locals[nm.Name] = true
						}
					}
				}
			}
		case *ast.UnaryExpr:
			// &x of a non-local handed to a callee could be written there; &build.Default as the default
			// context is the one accepted use (the pointer is only passed on to the finder)
		case *ast.GoStmt, *ast.DeferStmt:
			note("go / defer statement")
		}
		return true
	})
	return bad == "", bad
}

func genPuritySrc() {
	var b strings.Builder
	b.WriteString("(* GENERATED from /repo/decorator/resolver/{guess,simple,gobuild}/resolver.go -- do not edit *)\nFrom Coq Require Import List String Bool.\nImport ListNotations.\nLocal Open Scope string_scope.\n\n")
	res := map[string]bool{}
	for _, pkg := range []string{"guess", "simple", "gobuild"} {
		f := parseNoComments(filepath.Join(*repo, "decorator/resolver", pkg, "resolver.go"))
		found := false
		for _, d := range f.Decls {
			fd, ok := d.(*ast.FuncDecl)
			if !ok || fd.Body == nil || fd.Recv == nil || fd.Name.Name != "ResolvePackage" {
				continue
			}
			found = true
			ok2, why := writesOnlyLocals(fd)
			res[pkg+".ResolvePackage"] = ok2
			if !ok2 {
				noteUnknown(pkg+".ResolvePackage", "writes something that is not a local variable: "+why)
			}
		}
		if !found {
			res[pkg+".ResolvePackage"] = false
			noteUnknown(pkg+".ResolvePackage", "method not found")
		}
	}
	var keys []string
	for k := range res {
		keys = append(keys, k)
	}
	sort.Strings(keys)
	var parts []string
	for _, k := range keys {
		parts = append(parts, fmt.Sprintf("(%s, %v)", q(k), res[k]))
	}
	fmt.Fprintf(&b, "Definition name_resolvers_write_only_locals : list (string * bool) := [%s].\n", strings.Join(parts, "; "))
	writeIfChanged("PuritySrc.v", b.String())
}
