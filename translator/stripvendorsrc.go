package main

// stripVendor (decorator/decorator.go) -> Gen/StripVendorSrc.v: the function is rendered in the
// vocabulary of Model/StripProg.v (a tagless switch of strings.Contains/strings.LastIndex and
// strings.HasPrefix cases inside the closure findVendor, then the slice expression); a shape that
// is not recognised becomes SVUnknown and a line in UNKNOWN.txt. Proofs/StripVendorSrcProofs.v
// proves that the rendered program computes Model.Resolvers.strip_vendor for every path.

import (
	"fmt"
	"go/ast"
	"go/token"
	"path/filepath"
	"strconv"
	"strings"
)

func svStringLit(e ast.Expr) (string, bool) {
	bl, ok := e.(*ast.BasicLit)
	if !ok || bl.Kind != token.STRING {
		return "", false
	}
	s, err := strconv.Unquote(bl.Value)
	return s, err == nil
}

// strings.<fn>(path, "lit")
func svStringsCall(e ast.Expr, fn string) (string, bool) {
	ce, ok := e.(*ast.CallExpr)
	if !ok || len(ce.Args) != 2 || src(ce.Fun) != "strings."+fn || src(ce.Args[0]) != "path" {
		return "", false
	}
	return svStringLit(ce.Args[1])
}

func svIntLit(e ast.Expr) (int, bool) {
	bl, ok := e.(*ast.BasicLit)
	if !ok || bl.Kind != token.INT {
		return 0, false
	}
	n, err := strconv.Atoi(bl.Value)
	return n, err == nil
}

func svTranslate(fd *ast.FuncDecl) (string, string) {
	if src(fd.Type) != "func(path string) string" {
		return "", "signature " + src(fd.Type)
	}
	st := fd.Body.List
	if len(st) != 4 {
		return "", fmt.Sprintf("%d statements", len(st))
	}
	as, ok := st[0].(*ast.AssignStmt)
	if !ok || as.Tok != token.DEFINE || len(as.Lhs) != 1 || len(as.Rhs) != 1 || src(as.Lhs[0]) != "findVendor" {
		return "", "statement 1: " + src(st[0])
	}
	fl, ok := as.Rhs[0].(*ast.FuncLit)
	if !ok || src(fl.Type) != "func(path string) (index int, ok bool)" || len(fl.Body.List) != 2 {
		return "", "findVendor: " + src(as.Rhs[0])
	}
	sw, ok := fl.Body.List[0].(*ast.SwitchStmt)
	if !ok || sw.Init != nil || sw.Tag != nil {
		return "", "findVendor switch: " + src(fl.Body.List[0])
	}
	if src(fl.Body.List[1]) != "return 0, false" {
		return "", "findVendor tail: " + src(fl.Body.List[1])
	}
	var cases []string
	for _, c := range sw.Body.List {
		cc := c.(*ast.CaseClause)
		if len(cc.List) != 1 || len(cc.Body) != 1 {
			return "", "case: " + src(cc)
		}
		ret, ok := cc.Body[0].(*ast.ReturnStmt)
		if !ok || len(ret.Results) != 2 || src(ret.Results[1]) != "true" {
			return "", "case body: " + src(cc.Body[0])
		}
		if needle, ok := svStringsCall(cc.List[0], "Contains"); ok {
			be, ok := ret.Results[0].(*ast.BinaryExpr)
			if !ok || be.Op != token.ADD {
				return "", "case result: " + src(ret.Results[0])
			}
			sep, ok1 := svStringsCall(be.X, "LastIndex")
			plus, ok2 := svIntLit(be.Y)
			if !ok1 || !ok2 {
				return "", "case result: " + src(ret.Results[0])
			}
			cases = append(cases, fmt.Sprintf("SVContainsLast %s %s %d%%Z", q(needle), q(sep), plus))
		} else if pfx, ok := svStringsCall(cc.List[0], "HasPrefix"); ok {
			idx, ok := svIntLit(ret.Results[0])
			if !ok {
				return "", "case result: " + src(ret.Results[0])
			}
			cases = append(cases, fmt.Sprintf("SVPrefix %s %d%%Z", q(pfx), idx))
		} else {
			return "", "case condition: " + src(cc.List[0])
		}
	}
	if src(st[1]) != "i, ok := findVendor(path)" {
		return "", "statement 2: " + src(st[1])
	}
	if src(st[2]) != "if !ok { return path }" {
		return "", "statement 3: " + src(st[2])
	}
	ret, ok := st[3].(*ast.ReturnStmt)
	if !ok || len(ret.Results) != 1 {
		return "", "statement 4: " + src(st[3])
	}
	se, ok := ret.Results[0].(*ast.SliceExpr)
	if !ok || src(se.X) != "path" || se.High != nil || se.Max != nil || se.Slice3 || se.Low == nil {
		return "", "statement 4: " + src(st[3])
	}
	be, ok := se.Low.(*ast.BinaryExpr)
	if !ok || be.Op != token.ADD || src(be.X) != "i" {
		return "", "slice bound: " + src(se.Low)
	}
	ce, ok := be.Y.(*ast.CallExpr)
	if !ok || src(ce.Fun) != "len" || len(ce.Args) != 1 {
		return "", "slice bound: " + src(se.Low)
	}
	skip, ok := svStringLit(ce.Args[0])
	if !ok {
		return "", "slice bound: " + src(se.Low)
	}
	return fmt.Sprintf("SVProg [%s] %s", strings.Join(cases, "; "), q(skip)), ""
}

func genStripVendorSrc() {
	var b strings.Builder
	b.WriteString("(* GENERATED from /repo/decorator/decorator.go (stripVendor) -- do not edit *)\nFrom Coq Require Import List String ZArith.\nImport ListNotations.\nFrom DV Require Import Model.StripProg.\nLocal Open Scope string_scope.\n\n")
	df := parseNoComments(filepath.Join(*repo, "decorator/decorator.go"))
	term, why := "", "function missing"
	for _, d := range df.Decls {
		if fd, ok := d.(*ast.FuncDecl); ok && fd.Recv == nil && fd.Body != nil && fd.Name.Name == "stripVendor" {
			term, why = svTranslate(fd)
		}
	}
	if term == "" {
		noteUnknown("decorator.stripVendor", "shape not recognised: "+why)
		term = "SVUnknown " + q(why)
	}
	fmt.Fprintf(&b, "Definition strip_vendor_src : sv_prog :=\n  %s.\n", term)
	writeIfChanged("StripVendorSrc.v", b.String())
}
