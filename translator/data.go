package main

import (
	"fmt"
	"go/ast"
	"strings"
)

// gendst/data/data.go (the description every generator reads) -> Gen/DataTbl.v: per kind the
// sequence of parts.  Only the literal structure is read (names, field specs, flags); the
// jennifer code fragments (Use / Exists / Token expressions) are not interpreted.

func litString(e ast.Expr) string {
	if bl, ok := e.(*ast.BasicLit); ok {
		return strings.Trim(bl.Value, "\"`")
	}
	return "?" + src(e)
}

// fieldSpec: Field{"X"} -> ["X"]; InnerField{"A","X"} -> ["A";"X"]
func fieldSpec(e ast.Expr) ([]string, bool) {
	cl, ok := e.(*ast.CompositeLit)
	if !ok {
		return nil, false
	}
	var p []string
	for _, el := range cl.Elts {
		if kv, ok := el.(*ast.KeyValueExpr); ok {
			el = kv.Value
		}
		p = append(p, litString(el))
	}
	switch src(cl.Type) {
	case "Field":
		return p, len(p) == 1
	case "InnerField":
		return p, len(p) == 2
	}
	return nil, false
}

func genData() {
	f := parse("gendst/data/data.go")
	var b strings.Builder
	b.WriteString("(* GENERATED from /repo/gendst/data/data.go -- do not edit *)\n" + hdr)
	b.WriteString("Definition data_tbl : list (string * list dpart) := [\n")
	first := true
	found := false
	for _, d := range f.Decls {
		gd, ok := d.(*ast.GenDecl)
		if !ok {
			continue
		}
		for _, s := range gd.Specs {
			vs, ok := s.(*ast.ValueSpec)
			if !ok || len(vs.Names) != 1 || vs.Names[0].Name != "Info" || len(vs.Values) != 1 {
				continue
			}
			cl, ok := vs.Values[0].(*ast.CompositeLit)
			if !ok {
				continue
			}
			found = true
			for _, el := range cl.Elts {
				kv, ok := el.(*ast.KeyValueExpr)
				if !ok {
					noteUnknown("data.go", src(el))
					continue
				}
				kind := litString(kv.Key)
				parts, ok := kv.Value.(*ast.CompositeLit)
				if !ok {
					noteUnknown("data.go "+kind, src(kv.Value))
					continue
				}
				var ps []string
				for _, pe := range parts.Elts {
					ps = append(ps, dataPart(pe, "data.go "+kind))
				}
				if !first {
					b.WriteString(";\n")
				}
				first = false
				fmt.Fprintf(&b, "  (%s, [%s])", q(kind), strings.Join(ps, "; "))
			}
		}
	}
	if !found {
		noteUnknown("data.go", "var Info not found")
	}
	b.WriteString("].\n")
	writeIfChanged("DataTbl.v", b.String())
}

func dataPart(e ast.Expr, where string) string {
	cl, ok := e.(*ast.CompositeLit)
	if !ok {
		noteUnknown(where, src(e))
		return "DUnknown " + q(src(e))
	}
	attrs := map[string]ast.Expr{}
	for _, el := range cl.Elts {
		if kv, ok := el.(*ast.KeyValueExpr); ok {
			attrs[src(kv.Key)] = kv.Value
		}
	}
	name := ""
	if n, ok := attrs["Name"]; ok {
		name = litString(n)
	}
	flag := func(k string) bool { v, ok := attrs[k]; return ok && src(v) == "true" }
	fld := func(k string) (string, bool) {
		v, ok := attrs[k]
		if !ok {
			return "[]", true
		}
		p, ok := fieldSpec(v)
		return qlist(p), ok
	}
	bad := func() string {
		noteUnknown(where, src(e))
		return "DUnknown " + q(src(cl.Type)+" "+name)
	}
	switch src(cl.Type) {
	case "Decoration":
		return fmt.Sprintf("DDec %s %v", q(name), flag("Disable"))
	case "SpecialDecoration":
		p, ok := fld("Decs")
		if !ok {
			return bad()
		}
		return fmt.Sprintf("DSpecialDec %s %s %v", q(name), p, flag("End"))
	case "PathDecoration":
		return fmt.Sprintf("DPathDec %s", q(name))
	case "Token":
		p, ok := fld("PositionField")
		if !ok {
			return bad()
		}
		return fmt.Sprintf("DTok %s %s", q(name), p)
	case "String":
		p, ok := fld("ValueField")
		if !ok {
			return bad()
		}
		pp, ok := fld("PositionField")
		if !ok {
			return bad()
		}
		return fmt.Sprintf("DStr %s %s %s %v", q(name), p, pp, flag("Literal"))
	case "Node":
		p, ok := fld("Field")
		if !ok {
			return bad()
		}
		return fmt.Sprintf("DNode %s %s", q(name), p)
	case "List":
		p, ok := fld("Field")
		if !ok {
			return bad()
		}
		return fmt.Sprintf("DList %s %s %v", q(name), p, flag("NoRestore"))
	case "Map":
		p, ok := fld("Field")
		if !ok {
			return bad()
		}
		return fmt.Sprintf("DMap %s %s", q(name), p)
	case "Bad":
		fp, ok1 := fld("FromField")
		tp, ok2 := fld("ToField")
		lp, ok3 := fld("LengthField")
		if !ok1 || !ok2 || !ok3 {
			return bad()
		}
		return fmt.Sprintf("DBad %s %s %s", lp, fp, tp)
	case "Init":
		p, ok := fld("Field")
		if !ok {
			return bad()
		}
		return fmt.Sprintf("DInit %s %s", q(name), p)
	case "Value":
		p, ok := fld("Field")
		if !ok {
			return bad()
		}
		return fmt.Sprintf("DValue %s %s", q(name), p)
	case "Scope":
		return "DScope"
	case "Object":
		return "DObject"
	}
	return bad()
}
