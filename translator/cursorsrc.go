package main

import (
	"fmt"
	"go/ast"
	"go/token"
	"strconv"
	"strings"
)

// Cursor programs (Gen/CursorSrc.v): the position-assigning functions of decorator/restorer.go --
// applySpace, applyDecorations, applyLiteral, fileSize -- rendered statement by statement into the
// language of coq/Model/Cursor.v.  Anything outside the language becomes SUnknown and is reported.

type curEnv struct {
	recv   string          // receiver name
	bools  map[string]bool // variables known to be boolean
	groups map[string]bool // loop variables ranging over r.comments
	where  string
}

func qnl(s string) string {
	// Coq string literal that keeps a newline (the only control character these sources compare with)
	s = strings.ReplaceAll(s, "\"", "\"\"")
	s = strings.Map(func(r rune) rune {
		if (r < 32 && r != '\n') || r > 126 {
			return '?'
		}
		return r
	}, s)
	return "\"" + s + "\""
}

func (e *curEnv) field(x ast.Expr) string {
	if s, ok := x.(*ast.SelectorExpr); ok {
		if id, ok := s.X.(*ast.Ident); ok && id.Name == e.recv {
			return s.Sel.Name
		}
	}
	return ""
}

func (e *curEnv) cexp(x ast.Expr) (string, bool) {
	switch x := x.(type) {
	case *ast.ParenExpr:
		return e.cexp(x.X)
	case *ast.BasicLit:
		if x.Kind == token.INT {
			return "(EConst " + x.Value + ")", true
		}
	case *ast.Ident:
		if e.bools[x.Name] {
			return "", false
		}
		return "(EVar " + q(x.Name) + ")", true
	case *ast.SelectorExpr:
		switch e.field(x) {
		case "cursor":
			return "ECursor", true
		case "cursorAtNewLine":
			return "EAtNl", true
		case "base":
			return "EBase", true
		}
	case *ast.CallExpr:
		fn := src(x.Fun)
		if (fn == "int" || fn == "token.Pos") && len(x.Args) == 1 {
			return e.cexp(x.Args[0])
		}
		if fn == "len" && len(x.Args) == 1 {
			if id, ok := x.Args[0].(*ast.Ident); ok {
				return "(ELen " + q(id.Name) + ")", true
			}
		}
		if s, ok := x.Fun.(*ast.SelectorExpr); ok && s.Sel.Name == "End" && len(x.Args) == 0 {
			if id, ok := s.X.(*ast.Ident); ok && e.groups[id.Name] {
				return "(EVar " + q(id.Name) + ")", true
			}
		}
	case *ast.BinaryExpr:
		a, ok1 := e.cexp(x.X)
		b, ok2 := e.cexp(x.Y)
		if ok1 && ok2 {
			switch x.Op {
			case token.ADD:
				return "(EAdd " + a + " " + b + ")", true
			case token.SUB:
				return "(ESub " + a + " " + b + ")", true
			}
		}
	}
	return "", false
}

func strLit(x ast.Expr) (string, bool) {
	if l, ok := x.(*ast.BasicLit); ok && l.Kind == token.STRING {
		s, err := strconv.Unquote(l.Value)
		if err == nil {
			return s, true
		}
	}
	return "", false
}

func kindOfType(t ast.Expr) (string, bool) {
	// *dst.BadDecl, *ast.File
	if st, ok := t.(*ast.StarExpr); ok {
		if s, ok := st.X.(*ast.SelectorExpr); ok {
			if p, ok := s.X.(*ast.Ident); ok && (p.Name == "dst" || p.Name == "ast") {
				return s.Sel.Name, true
			}
		}
	}
	return "", false
}

func (e *curEnv) bexp(x ast.Expr) (string, bool) {
	switch x := x.(type) {
	case *ast.ParenExpr:
		return e.bexp(x.X)
	case *ast.Ident:
		if x.Name == "true" || x.Name == "false" {
			return "(BLit " + x.Name + ")", true
		}
		if e.bools[x.Name] {
			return "(BVar " + q(x.Name) + ")", true
		}
	case *ast.UnaryExpr:
		if x.Op == token.NOT {
			if a, ok := e.bexp(x.X); ok {
				return "(BNot " + a + ")", true
			}
		}
	case *ast.CallExpr:
		fn := src(x.Fun)
		if (fn == "strings.HasPrefix" || fn == "strings.Contains") && len(x.Args) == 2 {
			id, ok1 := x.Args[0].(*ast.Ident)
			lit, ok2 := strLit(x.Args[1])
			if ok1 && ok2 {
				if fn == "strings.HasPrefix" {
					return "(BPrefix " + q(id.Name) + " " + qnl(lit) + ")", true
				}
				return "(BContains " + q(id.Name) + " " + qnl(lit) + ")", true
			}
		}
		if fn == e.recv+".hasCommentField" && len(x.Args) == 1 {
			if id, ok := x.Args[0].(*ast.Ident); ok {
				return "(BHasCommentField " + q(id.Name) + ")", true
			}
		}
	case *ast.BinaryExpr:
		switch x.Op {
		case token.LAND, token.LOR:
			a, ok1 := e.bexp(x.X)
			b, ok2 := e.bexp(x.Y)
			if ok1 && ok2 {
				if x.Op == token.LAND {
					return "(BAnd " + a + " " + b + ")", true
				}
				return "(BOr " + a + " " + b + ")", true
			}
			return "", false
		case token.EQL, token.NEQ:
			// string variable against a literal
			if id, ok := x.X.(*ast.Ident); ok {
				if lit, ok := strLit(x.Y); ok {
					r := "(BStrIs " + q(id.Name) + " " + qnl(lit) + ")"
					if x.Op == token.NEQ {
						r = "(BNot " + r + ")"
					}
					return r, true
				}
				if id.Name == "space" {
					if s, ok := x.Y.(*ast.SelectorExpr); ok && src(s.X) == "dst" {
						r := "(BSpaceIs " + q(s.Sel.Name) + ")"
						if x.Op == token.NEQ {
							r = "(BNot " + r + ")"
						}
						return r, true
					}
				}
			}
		}
		a, ok1 := e.cexp(x.X)
		b, ok2 := e.cexp(x.Y)
		if ok1 && ok2 {
			switch x.Op {
			case token.EQL:
				return "(BEq " + a + " " + b + ")", true
			case token.NEQ:
				return "(BNot (BEq " + a + " " + b + "))", true
			case token.LSS:
				return "(BLt " + a + " " + b + ")", true
			case token.GTR:
				return "(BLt " + b + " " + a + ")", true
			case token.GEQ:
				return "(BGe " + a + " " + b + ")", true
			case token.LEQ:
				return "(BGe " + b + " " + a + ")", true
			}
		}
	}
	return "", false
}

func assigns(list []ast.Stmt, names ...string) bool {
	found := false
	for _, s := range list {
		ast.Inspect(s, func(n ast.Node) bool {
			switch n := n.(type) {
			case *ast.AssignStmt:
				for _, l := range n.Lhs {
					for _, nm := range names {
						if src(l) == nm {
							found = true
						}
					}
				}
			case *ast.IncDecStmt:
				for _, nm := range names {
					if src(n.X) == nm {
						found = true
					}
				}
			}
			return true
		})
	}
	return found
}

func (e *curEnv) unknown(s ast.Node) string {
	noteUnknown(e.where, "statement outside the cursor language: "+src(s))
	return "SUnknown " + qfull(src(s))
}

func (e *curEnv) block(list []ast.Stmt) string {
	var out []string
	for _, s := range list {
		out = append(out, e.stmt(s)...)
	}
	return "[" + strings.Join(out, "; ") + "]"
}

func (e *curEnv) assignTo(lhs ast.Expr, val string, decl bool) (string, bool) {
	switch e.field(lhs) {
	case "cursor":
		return "SCursor " + val, !decl
	case "cursorAtNewLine":
		return "SAtNl " + val, !decl
	}
	if id, ok := lhs.(*ast.Ident); ok && !e.bools[id.Name] && id.Name != "_" {
		if decl {
			return "SDeclInt " + q(id.Name) + " " + val, true
		}
		return "SSetInt " + q(id.Name) + " " + val, true
	}
	return "", false
}

func (e *curEnv) stmt(s ast.Stmt) []string {
	switch s := s.(type) {
	case *ast.DeclStmt:
		// var x int
		if gd, ok := s.Decl.(*ast.GenDecl); ok && gd.Tok == token.VAR && len(gd.Specs) == 1 {
			vs := gd.Specs[0].(*ast.ValueSpec)
			if len(vs.Names) == 1 && len(vs.Values) == 0 && src(vs.Type) == "int" {
				return []string{"SDeclInt " + q(vs.Names[0].Name) + " (EConst 0)"}
			}
			if len(vs.Names) == 1 && len(vs.Values) == 0 && src(vs.Type) == "bool" {
				e.bools[vs.Names[0].Name] = true
				return []string{"SDeclBool " + q(vs.Names[0].Name) + " (BLit false)"}
			}
		}
	case *ast.IncDecStmt:
		one := "(EConst 1)"
		if v, ok := e.cexp(s.X); ok {
			op := "EAdd"
			if s.Tok == token.DEC {
				op = "ESub"
			}
			if r, ok := e.assignTo(s.X, "("+op+" "+v+" "+one+")", false); ok {
				return []string{r}
			}
		}
	case *ast.ExprStmt:
		if c, ok := s.X.(*ast.CallExpr); ok && src(c.Fun) == e.recv+".addCommentField" && len(c.Args) == 3 {
			n, ok1 := c.Args[0].(*ast.Ident)
			sl, ok2 := e.cexp(c.Args[1])
			t, ok3 := c.Args[2].(*ast.Ident)
			if ok1 && ok2 && ok3 {
				return []string{"SFieldComment " + q(n.Name) + " " + sl + " " + q(t.Name)}
			}
		}
	case *ast.AssignStmt:
		// _, isX := node.(*ast.File)
		if len(s.Lhs) == 2 && len(s.Rhs) == 1 && src(s.Lhs[0]) == "_" && s.Tok == token.DEFINE {
			if ta, ok := s.Rhs[0].(*ast.TypeAssertExpr); ok && ta.Type != nil {
				if id, ok := ta.X.(*ast.Ident); ok {
					if k, ok := kindOfType(ta.Type); ok {
						name := src(s.Lhs[1])
						e.bools[name] = true
						return []string{"SDeclBool " + q(name) + " (BKindIn " + q(id.Name) + " [" + q(k) + "])"}
					}
				}
			}
		}
		if len(s.Lhs) != 1 || len(s.Rhs) != 1 {
			break
		}
		lhs, rhs := s.Lhs[0], s.Rhs[0]
		// r.lines = append(r.lines, e)
		if e.field(lhs) == "lines" && s.Tok == token.ASSIGN {
			if c, ok := rhs.(*ast.CallExpr); ok && src(c.Fun) == "append" && len(c.Args) == 2 && e.field(c.Args[0]) == "lines" {
				if v, ok := e.cexp(c.Args[1]); ok {
					return []string{"SLine " + v}
				}
			}
			break
		}
		// r.comments = append(r.comments, &ast.CommentGroup{List: []*ast.Comment{{Slash: E, Text: x}}})
		if e.field(lhs) == "comments" && s.Tok == token.ASSIGN {
			if c, ok := rhs.(*ast.CallExpr); ok && src(c.Fun) == "append" && len(c.Args) == 2 && e.field(c.Args[0]) == "comments" {
				if sl, tx, ok := e.oneCommentGroup(c.Args[1]); ok {
					return []string{"SComment " + sl + " " + q(tx)}
				}
			}
			break
		}
		// space = dst.X
		if src(lhs) == "space" && s.Tok == token.ASSIGN {
			if sel, ok := rhs.(*ast.SelectorExpr); ok && src(sel.X) == "dst" {
				return []string{"SSpace " + q(sel.Sel.Name)}
			}
			break
		}
		switch s.Tok {
		case token.ADD_ASSIGN, token.SUB_ASSIGN:
			a, ok1 := e.cexp(lhs)
			b, ok2 := e.cexp(rhs)
			if ok1 && ok2 {
				op := "EAdd"
				if s.Tok == token.SUB_ASSIGN {
					op = "ESub"
				}
				if r, ok := e.assignTo(lhs, "("+op+" "+a+" "+b+")", false); ok {
					return []string{r}
				}
			}
		case token.DEFINE, token.ASSIGN:
			id, isId := lhs.(*ast.Ident)
			if isId && (e.bools[id.Name] || s.Tok == token.DEFINE) {
				if b, ok := e.bexp(rhs); ok {
					e.bools[id.Name] = true
					if s.Tok == token.DEFINE {
						return []string{"SDeclBool " + q(id.Name) + " " + b}
					}
					return []string{"SSetBool " + q(id.Name) + " " + b}
				}
			}
			if isId && s.Tok == token.DEFINE {
				delete(e.bools, id.Name)
			}
			if v, ok := e.cexp(rhs); ok {
				if r, ok := e.assignTo(lhs, v, s.Tok == token.DEFINE); ok {
					return []string{r}
				}
			}
		}
	case *ast.IfStmt:
		if s.Init != nil {
			break
		}
		c, ok := e.bexp(s.Cond)
		if !ok {
			break
		}
		els := "[]"
		switch el := s.Else.(type) {
		case *ast.BlockStmt:
			els = e.block(el.List)
		case *ast.IfStmt:
			els = "[" + strings.Join(e.stmt(el), "; ") + "]"
		}
		return []string{"SIf " + c + " " + e.block(s.Body.List) + " " + els}
	case *ast.SwitchStmt:
		// switch space { case dst.X: ... }
		if s.Init == nil && s.Tag != nil && src(s.Tag) == "space" {
			res := "[]"
			ok := true
			for i := len(s.Body.List) - 1; i >= 0; i-- {
				cc := s.Body.List[i].(*ast.CaseClause)
				if cc.List == nil {
					if i != len(s.Body.List)-1 {
						ok = false
					}
					res = e.block(cc.Body)
					continue
				}
				var conds []string
				for _, v := range cc.List {
					sel, isSel := v.(*ast.SelectorExpr)
					if !isSel || src(sel.X) != "dst" {
						ok = false
						break
					}
					conds = append(conds, "(BSpaceIs "+q(sel.Sel.Name)+")")
				}
				if !ok {
					break
				}
				c := conds[0]
				for _, o := range conds[1:] {
					c = "(BOr " + c + " " + o + ")"
				}
				res = "[SIf " + c + " " + e.block(cc.Body) + " " + res + "]"
			}
			if ok && hasNoFallthrough(s.Body) {
				return []string{strings.TrimSuffix(strings.TrimPrefix(res, "["), "]")}
			}
		}
	case *ast.TypeSwitchStmt:
		// switch node.(type) { case *dst.A, *dst.B: ... }
		if s.Init != nil {
			break
		}
		es, ok := s.Assign.(*ast.ExprStmt)
		if !ok {
			break
		}
		ta, ok := es.X.(*ast.TypeAssertExpr)
		if !ok || ta.Type != nil {
			break
		}
		id, ok := ta.X.(*ast.Ident)
		if !ok {
			break
		}
		res := "[]"
		good := true
		for i := len(s.Body.List) - 1; i >= 0; i-- {
			cc := s.Body.List[i].(*ast.CaseClause)
			if cc.List == nil {
				if i != len(s.Body.List)-1 {
					good = false
				}
				res = e.block(cc.Body)
				continue
			}
			var ks []string
			for _, t := range cc.List {
				k, ok := kindOfType(t)
				if !ok {
					good = false
				}
				ks = append(ks, k)
			}
			res = "[SIf (BKindIn " + q(id.Name) + " " + qlist(ks) + ") " + e.block(cc.Body) + " " + res + "]"
		}
		if good && hasNoFallthrough(s.Body) {
			return []string{strings.TrimSuffix(strings.TrimPrefix(res, "["), "]")}
		}
	case *ast.ForStmt:
		// for i := 0; i < n; i++
		init, ok1 := s.Init.(*ast.AssignStmt)
		post, ok2 := s.Post.(*ast.IncDecStmt)
		cond, ok3 := s.Cond.(*ast.BinaryExpr)
		if ok1 && ok2 && ok3 && init.Tok == token.DEFINE && len(init.Lhs) == 1 && src(init.Rhs[0]) == "0" &&
			post.Tok == token.INC && src(post.X) == src(init.Lhs[0]) && cond.Op == token.LSS && src(cond.X) == src(init.Lhs[0]) {
			if n, ok := cond.Y.(*ast.Ident); ok && !assigns(s.Body.List, n.Name) && !mentionsIdent(s.Body.List, src(init.Lhs[0])) {
				return []string{"SCount " + q(n.Name) + " " + e.block(s.Body.List)}
			}
		}
	case *ast.RangeStmt:
		if s.Tok != token.DEFINE || s.Key == nil {
			break
		}
		key := src(s.Key)
		// for idx, char := range s { if char == '\n' { body } }
		if s.Value != nil && key != "_" {
			if x, ok := s.X.(*ast.Ident); ok && len(s.Body.List) == 1 {
				if is, ok := s.Body.List[0].(*ast.IfStmt); ok && is.Init == nil && is.Else == nil &&
					src(is.Cond) == src(s.Value)+" == '\\n'" && !assigns(is.Body.List, key, x.Name) {
					return []string{"SEachNl " + q(x.Name) + " " + q(key) + " " + e.block(is.Body.List)}
				}
			}
			break
		}
		if key != "_" || s.Value == nil {
			break
		}
		v := src(s.Value)
		if id, ok := s.X.(*ast.Ident); ok && id.Name == "decorations" && !assigns(s.Body.List, v) {
			return []string{"SEachDec " + q(v) + " " + e.block(s.Body.List)}
		}
		switch e.field(s.X) {
		case "comments":
			if !assigns(s.Body.List, v) && !mentionsField(s.Body.List, e.recv+".comments") {
				e.groups[v] = true
				r := "SEachGroup " + q(v) + " " + e.block(s.Body.List)
				delete(e.groups, v)
				return []string{r}
			}
		case "lines":
			if !assigns(s.Body.List, v) && !mentionsField(s.Body.List, e.recv+".lines") {
				return []string{"SEachLine " + q(v) + " " + e.block(s.Body.List)}
			}
		}
	case *ast.ReturnStmt:
		if len(s.Results) == 0 {
			return []string{"SReturn"}
		}
		if len(s.Results) == 1 {
			if v, ok := e.cexp(s.Results[0]); ok {
				return []string{"SReturnInt " + v}
			}
		}
	}
	return []string{e.unknown(s)}
}

func hasNoFallthrough(b *ast.BlockStmt) bool {
	ok := true
	ast.Inspect(b, func(n ast.Node) bool {
		if br, isBr := n.(*ast.BranchStmt); isBr && (br.Tok == token.FALLTHROUGH || br.Tok == token.BREAK) {
			ok = false
		}
		return true
	})
	return ok
}

func mentionsIdent(list []ast.Stmt, name string) bool {
	found := false
	for _, s := range list {
		ast.Inspect(s, func(n ast.Node) bool {
			if id, ok := n.(*ast.Ident); ok && id.Name == name {
				found = true
			}
			return true
		})
	}
	return found
}

func mentionsField(list []ast.Stmt, text string) bool {
	found := false
	for _, s := range list {
		ast.Inspect(s, func(n ast.Node) bool {
			if se, ok := n.(*ast.SelectorExpr); ok && src(se) == text {
				found = true
			}
			return true
		})
	}
	return found
}

// &ast.CommentGroup{List: []*ast.Comment{{Slash: E, Text: x}}}
func (e *curEnv) oneCommentGroup(x ast.Expr) (slash, text string, ok bool) {
	u, isU := x.(*ast.UnaryExpr)
	if !isU || u.Op != token.AND {
		return
	}
	cl, isCl := u.X.(*ast.CompositeLit)
	if !isCl || src(cl.Type) != "ast.CommentGroup" || len(cl.Elts) != 1 {
		return
	}
	kv, isKv := cl.Elts[0].(*ast.KeyValueExpr)
	if !isKv || src(kv.Key) != "List" {
		return
	}
	l, isL := kv.Value.(*ast.CompositeLit)
	if !isL || src(l.Type) != "[]*ast.Comment" || len(l.Elts) != 1 {
		return
	}
	c, isC := l.Elts[0].(*ast.CompositeLit)
	if !isC || len(c.Elts) != 2 {
		return
	}
	var okS, okT bool
	for _, el := range c.Elts {
		kv, isKv := el.(*ast.KeyValueExpr)
		if !isKv {
			return
		}
		switch src(kv.Key) {
		case "Slash":
			slash, okS = e.cexp(kv.Value)
		case "Text":
			if id, isId := kv.Value.(*ast.Ident); isId {
				text, okT = id.Name, true
			}
		}
	}
	ok = okS && okT
	return
}

func cursorProgramOf(f *ast.File, name string) string {
	where := "restorer.go " + name
	for _, d := range f.Decls {
		fd, ok := d.(*ast.FuncDecl)
		if !ok || fd.Body == nil || fd.Name.Name != name || fd.Recv == nil || len(fd.Recv.List) != 1 || len(fd.Recv.List[0].Names) != 1 {
			continue
		}
		env := &curEnv{recv: fd.Recv.List[0].Names[0].Name, bools: map[string]bool{}, groups: map[string]bool{}, where: where}
		for _, p := range fd.Type.Params.List {
			if src(p.Type) == "bool" {
				for _, n := range p.Names {
					env.bools[n.Name] = true
				}
			}
		}
		var out []string
		for _, s := range fd.Body.List {
			out = append(out, env.stmt(s)...)
		}
		return "[" + strings.Join(out, ";\n   ") + "]"
	}
	noteUnknown(where, "function not found")
	return "[SUnknown \"missing\"]"
}

// hasCommentField: the kinds of its single type switch case returning true;
// addCommentField: per kind, the text of the case body with the case's variable
func commentFieldTables(f *ast.File) (kinds []string, cases [][2]string) {
	for _, d := range f.Decls {
		fd, ok := d.(*ast.FuncDecl)
		if !ok || fd.Body == nil || fd.Recv == nil {
			continue
		}
		switch fd.Name.Name {
		case "hasCommentField":
			good := len(fd.Body.List) == 2 && src(fd.Body.List[1]) == "return false"
			if good {
				ts, ok := fd.Body.List[0].(*ast.TypeSwitchStmt)
				good = ok && len(ts.Body.List) == 1
				if good {
					cc := ts.Body.List[0].(*ast.CaseClause)
					good = len(cc.Body) == 1 && src(cc.Body[0]) == "return true"
					for _, t := range cc.List {
						k, ok := kindOfType(t)
						if !ok {
							good = false
						}
						kinds = append(kinds, k)
					}
				}
			}
			if !good {
				noteUnknown("restorer.go hasCommentField", "unexpected shape")
				kinds = append(kinds, "?")
			}
		case "addCommentField":
			good := len(fd.Body.List) == 2 && src(fd.Body.List[0]) == "c := &ast.Comment{Slash: slash, Text: text}"
			if good {
				ts, ok := fd.Body.List[1].(*ast.TypeSwitchStmt)
				good = ok && src(ts.Assign) == "n := n.(type)"
				if good {
					for _, c := range ts.Body.List {
						cc := c.(*ast.CaseClause)
						var body []string
						for _, b := range cc.Body {
							body = append(body, strings.Join(strings.Fields(src(b)), " "))
						}
						if cc.List == nil {
							cases = append(cases, [2]string{"default", strings.Join(body, "; ")})
						}
						for _, t := range cc.List {
							k, ok := kindOfType(t)
							if !ok {
								k = "?"
							}
							cases = append(cases, [2]string{k, strings.Join(body, "; ")})
						}
					}
				}
			}
			if !good {
				noteUnknown("restorer.go addCommentField", "unexpected shape")
				cases = append(cases, [2]string{"?", "?"})
			}
		}
	}
	return
}

func genCursorSrc() {
	f := parse("decorator/restorer.go")
	var b strings.Builder
	b.WriteString("(* GENERATED from /repo/decorator/restorer.go -- do not edit *)\n")
	b.WriteString("From Coq Require Import List String ZArith.\nImport ListNotations.\nFrom DV Require Import Model.Cursor.\nLocal Open Scope string_scope.\nLocal Open Scope Z_scope.\n\n")
	for _, name := range []string{"applySpace", "applyDecorations", "applyLiteral", "fileSize"} {
		fmt.Fprintf(&b, "Definition %s_src : list cstmt :=\n  %s.\n\n", name, cursorProgramOf(f, name))
	}
	kinds, cases := commentFieldTables(f)
	fmt.Fprintf(&b, "Definition has_comment_field_kinds : list string := %s.\n\n", qlist(kinds))
	b.WriteString("Definition add_comment_field_cases : list (string * string) :=\n  [")
	for i, c := range cases {
		if i > 0 {
			b.WriteString(";\n   ")
		}
		fmt.Fprintf(&b, "(%s, %s)", q(c[0]), qfull(c[1]))
	}
	b.WriteString("].\n")
	writeIfChanged("CursorSrc.v", b.String())
}
