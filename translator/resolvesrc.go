package main

import (
	"fmt"
	"go/ast"
	"path/filepath"
	"regexp"
	"strings"
)

// resolve.go / scope.go (dst.NewPackage and the Scope / Object helpers) against go/ast's own
// resolve.go / scope.go -> Gen/ResolveSrc.v.  dst's version is go/ast's with positions removed:
// every function must equal go/ast's text after (1) renaming the package, (2) dropping the
// position argument of p.error / p.errorf calls; the three functions whose bodies mention
// positions (error, errorf, declare) are pinned to their position-free text.

var posArgRe = regexp.MustCompile(`p\.(errorf?)\((file\.Package|spec\.Path\.Pos\(\)|ident\.Pos\(\)|obj\.Pos\(\)), `)

func funcTexts(f *ast.File, pkg string) map[string]string {
	ren := regexp.MustCompile(`\b` + pkg + `\.`)
	out := map[string]string{}
	for _, d := range f.Decls {
		fd, ok := d.(*ast.FuncDecl)
		if !ok || fd.Body == nil {
			continue
		}
		name := fd.Name.Name
		if fd.Recv != nil {
			name = strings.TrimPrefix(src(fd.Recv.List[0].Type), "*") + "." + name
		}
		t := ren.ReplaceAllString(src(fd.Type)+" "+src(fd.Body), "ast.")
		t = posArgRe.ReplaceAllString(t, "p.$1(")
		t = strings.ReplaceAll(t, "...any", "...interface{}")
		t = strings.ReplaceAll(t, "strings.Builder", "bytes.Buffer")
		out[name] = t
	}
	return out
}

const expectDeclare = `func(scope, altScope *Scope, obj *Object) { alt := scope.Insert(obj) if alt == nil && altScope != nil { alt = altScope.Lookup(obj.Name) } if alt != nil { p.error(fmt.Sprintf("%s redeclared in this block", obj.Name)) } }`
const expectError = `func(msg string) { p.errors.Add(p.fset.Position(token.NoPos), msg) }`
const expectErrorf = `func(format string, args ...interface{}) { p.error(fmt.Sprintf(format, args...)) }`

func genResolveSrc() {
	var b strings.Builder
	b.WriteString("(* GENERATED from /repo/resolve.go, /repo/scope.go and $GOROOT/src/go/ast/{resolve,scope}.go -- do not edit *)\nFrom Coq Require Import List String Bool.\nImport ListNotations.\nLocal Open Scope string_scope.\n\n")
	gr := goroot()
	type pair struct {
		dstFile, astFile string
		names            []string
	}
	pairs := []pair{
		{"resolve.go", filepath.Join(gr, "go/ast/resolve.go"), []string{"NewPackage", "resolve"}},
		{"scope.go", filepath.Join(gr, "go/ast/scope.go"), []string{"NewScope", "Scope.Lookup", "Scope.Insert", "Scope.String", "NewObj", "ObjKind.String"}},
	}
	b.WriteString("Definition resolve_same_as_goast : list (string * bool) := [\n")
	first := true
	emit := func(n string, ok bool) {
		if !first {
			b.WriteString(";\n")
		}
		first = false
		fmt.Fprintf(&b, "  (%s, %v)", q(n), ok)
	}
	for _, p := range pairs {
		dt := funcTexts(parseNoComments(filepath.Join(*repo, p.dstFile)), "dst")
		at := funcTexts(parseNoComments(p.astFile), "ast")
		for _, n := range p.names {
			same := dt[n] != "" && dt[n] == at[n]
			if !same {
				noteUnknown(p.dstFile, n+" differs from go/ast's (positions removed)")
			}
			emit(n, same)
		}
		if p.dstFile == "resolve.go" {
			pinned := map[string]string{"pkgBuilder.declare": expectDeclare, "pkgBuilder.error": expectError, "pkgBuilder.errorf": expectErrorf}
			for _, n := range []string{"pkgBuilder.declare", "pkgBuilder.error", "pkgBuilder.errorf"} {
				want := pinned[n]
				got := strings.ReplaceAll(dt[n], "ast.", "")
				ok := got == want
				if !ok {
					noteUnknown("resolve.go", n+": "+got)
				}
				emit(n, ok)
			}
		}
	}
	b.WriteString("].\n")
	writeIfChanged("ResolveSrc.v", b.String())
}
