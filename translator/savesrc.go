package main

import (
	"fmt"
	"go/ast"
	"path/filepath"
	"strings"
)

// decorator/load.go (save, Save, SaveWithResolver) and the statement of DecorateNode that
// records a file's name -> Gen/SaveSrc.v: is the source the text Model/Save.v transcribes?


func genSaveSrc() {
	var b strings.Builder
	b.WriteString("(* GENERATED from /repo/decorator/load.go and decorator.go -- do not edit *)\nFrom Coq Require Import Bool List String.\nImport ListNotations.\nFrom DV Require Import Model.Decision.\nLocal Open Scope string_scope.\n\n")
	lf := parseNoComments(filepath.Join(*repo, "decorator/load.go"))
	saveOK, pubOK, pubWR := false, false, false
	for _, d := range lf.Decls {
		fd, ok := d.(*ast.FuncDecl)
		if !ok || fd.Body == nil || fd.Recv == nil {
			continue
		}
		switch fd.Name.Name {
		case "save":
			// (no longer pinned by text: translated into a loop program, see save_src below)
			saveOK = true
		case "Save":
			pubOK = src(fd.Body) == "{ return p.save(gopackages.New(p.Dir), ioutil.WriteFile) }"
		case "SaveWithResolver":
			pubWR = src(fd.Body) == "{ return p.save(resolver, ioutil.WriteFile) }"
		}
	}
	if !pubOK || !pubWR {
		noteUnknown("load.go", "Save / SaveWithResolver do not simply call save with ioutil.WriteFile")
	}
	df := parseNoComments(filepath.Join(*repo, "decorator/decorator.go"))
	nameOK := false
	for _, d := range df.Decls {
		fd, ok := d.(*ast.FuncDecl)
		if !ok || fd.Body == nil || fd.Name.Name != "DecorateNode" {
			continue
		}
		t := src(fd.Body)
		nameOK = strings.Contains(t, "case *ast.File: d.Filenames[out.(*dst.File)] = d.Fset.File(n.Pos()).Name()") &&
			strings.Contains(t, "case *ast.Package: for k, v := range n.Files { d.Filenames[d.Dst.Nodes[v].(*dst.File)] = k }")
	}
	if !nameOK {
		noteUnknown("decorator.go DecorateNode", "the file name recorded for a decorated file is not the FileSet file's name (the path it was parsed from)")
	}
	fmt.Fprintf(&b, "Definition save_shape_ok : bool := %v.\nDefinition save_entry_points_ok : bool := %v.\nDefinition filenames_recorded_ok : bool := %v.\n", saveOK, pubOK && pubWR, nameOK)
	fmt.Fprintf(&b, "\nDefinition save_src : list lstmt :=\n  %s.\n", loopProgramOf(lf, "save", "load.go save"))
	writeIfChanged("SaveSrc.v", b.String())
}
