package main

import (
	"fmt"
	"go/ast"
	"path/filepath"
	"strings"
)

// decorator/load.go (save, Save, SaveWithResolver) and the statement of DecorateNode that
// records a file's name -> Gen/SaveSrc.v: is the source the text Model/Save.v transcribes?

const expectSave = `{ r := NewRestorerWithImports(p.PkgPath, resolver) for _, file := range p.Syntax { buf := &bytes.Buffer{} if err := r.Fprint(buf, file); err != nil { return err } if err := writeFile(p.Decorator.Filenames[file], buf.Bytes(), 0666); err != nil { return err } } return nil }`

func genSaveSrc() {
	var b strings.Builder
	b.WriteString("(* GENERATED from /repo/decorator/load.go and decorator.go -- do not edit *)\nFrom Coq Require Import Bool.\n\n")
	lf := parseNoComments(filepath.Join(*repo, "decorator/load.go"))
	saveOK, pubOK, pubWR := false, false, false
	for _, d := range lf.Decls {
		fd, ok := d.(*ast.FuncDecl)
		if !ok || fd.Body == nil || fd.Recv == nil {
			continue
		}
		switch fd.Name.Name {
		case "save":
			saveOK = src(fd.Body) == expectSave
			if !saveOK {
				noteUnknown("load.go save", src(fd.Body))
			}
		case "Save":
			pubOK = src(fd.Body) == "{ return p.save(gopackages.New(p.Dir), ioutil.WriteFile) }"
		case "SaveWithResolver":
			pubWR = src(fd.Body) == "{ return p.save(resolver, ioutil.WriteFile) }"
		}
	}
	if !pubOK || !pubWR {
		noteUnknown("load.go", "Save / SaveWithResolver do not simply call save with ioutil.WriteFile")
	}
	df := parseNoComments(filepath.Join(*repo, "decorator/decorator.go"))
	nameOK := false
	for _, d := range df.Decls {
		fd, ok := d.(*ast.FuncDecl)
		if !ok || fd.Body == nil || fd.Name.Name != "DecorateNode" {
			continue
		}
		t := src(fd.Body)
		nameOK = strings.Contains(t, "case *ast.File: d.Filenames[out.(*dst.File)] = d.Fset.File(n.Pos()).Name()") &&
			strings.Contains(t, "case *ast.Package: for k, v := range n.Files { d.Filenames[d.Dst.Nodes[v].(*dst.File)] = k }")
	}
	if !nameOK {
		noteUnknown("decorator.go DecorateNode", "the file name recorded for a decorated file is not the FileSet file's name (the path it was parsed from)")
	}
	fmt.Fprintf(&b, "Definition save_shape_ok : bool := %v.\nDefinition save_entry_points_ok : bool := %v.\nDefinition filenames_recorded_ok : bool := %v.\n", saveOK, pubOK && pubWR, nameOK)
	writeIfChanged("SaveSrc.v", b.String())
}
