package main

import (
	"crypto/sha256"
	"fmt"
	"go/ast"
	"go/token"
	"path/filepath"
	"strings"
)

// goast.DecoratorResolver.imports: the callback's case for an import spec is rendered into a decision
// program over one spec (Gen/GoastImportsSrc.v: goast_spec_step_src: skip / error kind / add under a
// name), proved in Coq to be one step of Model/Resolvers.goast_scan; everything around that case (the
// lock, the cache, the traversal that ends at the first non-import declaration) stays pinned by text
// with the case body struck out.

const goastWhere = "goast.imports"

func errKind(s ast.Stmt) string {
	// outer = fmt.Errorf("...")  /  outer = err
	as, ok := s.(*ast.AssignStmt)
	if !ok || len(as.Lhs) != 1 || len(as.Rhs) != 1 || src(as.Lhs[0]) != "outer" || as.Tok != token.ASSIGN {
		return ""
	}
	r := src(as.Rhs[0])
	switch {
	case r == "err":
		return "err:resolve"
	case strings.Contains(r, "invalid import path"):
		return "err:invalid"
	case strings.Contains(r, "dot-import"):
		return "err:dot"
	case strings.Contains(r, "multiple packages using name"):
		return "err:multiple"
	}
	return ""
}

// { outer = ...; return false }  ->  error kind;  { return false } -> "skip"
func stepExit(b *ast.BlockStmt) string {
	l := b.List
	if len(l) == 1 && src(l[0]) == "return false" {
		return "skip"
	}
	if len(l) == 2 && src(l[1]) == "return false" {
		return errKind(l[0])
	}
	return ""
}

func goastStep(body []ast.Stmt) []string {
	var out []string
	bad := func(s ast.Node) []string {
		noteUnknown(goastWhere, "import spec case: statement outside the step language: "+src(s))
		return append(out, "DUnknown "+qfull(src(s)))
	}
	guard := func(p, r string) { out = append(out, fmt.Sprintf("DGuard %s false (DVal %s)", q(p), q(r))) }
	i := 0
	next := func() ast.Stmt {
		if i < len(body) {
			i++
			return body[i-1]
		}
		return nil
	}
	// if _, err := strconv.Unquote(node.Path.Value); err != nil { outer = ...; return false }
	s := next()
	if is, ok := s.(*ast.IfStmt); ok && is.Init != nil && src(is.Init) == "_, err := strconv.Unquote(node.Path.Value)" && src(is.Cond) == "err != nil" && is.Else == nil && stepExit(is.Body) == "err:invalid" {
		guard("invalid(path)", "err:invalid")
		s = next()
	}
	// path := mustUnquote(node.Path.Value)
	if s == nil || src(s) != "path := mustUnquote(node.Path.Value)" {
		return bad(s)
	}
	// if path == "C" { return false }
	s = next()
	if is, ok := s.(*ast.IfStmt); ok && is.Init == nil && src(is.Cond) == `path == "C"` && is.Else == nil && stepExit(is.Body) == "skip" {
		guard("eq(path,C)", "skip")
		s = next()
	}
	// var name string; if node.Name != nil { name = node.Name.Name }
	if s == nil || src(s) != "var name string" {
		return bad(s)
	}
	s = next()
	if s == nil || src(s) != "if node.Name != nil { name = node.Name.Name }" {
		return bad(s)
	}
	// switch name { case ".": ...; case "_": ...; case "": name, err = resolve(path) ... }
	s = next()
	sw, ok := s.(*ast.SwitchStmt)
	if !ok || sw.Init != nil || sw.Tag == nil || src(sw.Tag) != "name" || !hasNoFallthrough(sw.Body) {
		return bad(s)
	}
	resolved := false
	var fork []string
	for _, c := range sw.Body.List {
		cc := c.(*ast.CaseClause)
		if len(cc.List) != 1 {
			return bad(cc)
		}
		lit, ok := strLit(cc.List[0])
		if !ok {
			return bad(cc)
		}
		if lit == "" {
			// var err error; name, err = r.RestorerResolver.ResolvePackage(path); if err != nil { outer = err; return false }
			if len(cc.Body) == 3 && src(cc.Body[0]) == "var err error" && src(cc.Body[1]) == "name, err = r.RestorerResolver.ResolvePackage(path)" {
				if is, ok := cc.Body[2].(*ast.IfStmt); ok && is.Init == nil && src(is.Cond) == "err != nil" && is.Else == nil && stepExit(is.Body) == "err:resolve" {
					resolved = true
					fork = append(fork, fmt.Sprintf("DGuard %s false (DVal %s)", q("fails(resolve(path))"), q("err:resolve")))
					continue
				}
			}
			return bad(cc)
		}
		r := stepExit(&ast.BlockStmt{List: cc.Body})
		if r == "" {
			return bad(cc)
		}
		guard("eq(name,"+lit+")", r)
	}
	// if p, ok := imports[name]; ok { outer = ...; return false }   imports[name] = path
	tail := func(name string) ([]string, bool) {
		var t []string
		j := i
		if j < len(body) {
			if is, ok := body[j].(*ast.IfStmt); ok && is.Init != nil && src(is.Init) == "p, ok := imports[name]" && src(is.Cond) == "ok" && is.Else == nil && stepExit(is.Body) == "err:multiple" {
				t = append(t, fmt.Sprintf("DGuard %s false (DVal %s)", q("has(imports,"+name+")"), q("err:multiple")))
				j++
			}
		}
		if j+1 == len(body) && src(body[j]) == "imports[name] = path" {
			t = append(t, fmt.Sprintf("DRet (DVal %s)", q("add:"+name)))
			return t, true
		}
		return nil, false
	}
	if resolved {
		t, ok := tail("resolved(path)")
		if !ok {
			return bad(body[len(body)-1])
		}
		out = append(out, fmt.Sprintf("DIf %s false [%s]", q("eq(name,)"), strings.Join(append(fork, t...), "; ")))
	}
	t, ok := tail("name")
	if !ok {
		return bad(body[len(body)-1])
	}
	return append(out, t...)
}

func genGoastImportsSrc() {
	f := parseNoComments(filepath.Join(*repo, "decorator/resolver/goast/resolver.go"))
	step := []string{"DUnknown \"missing\""}
	frameOK := false
	for _, d := range f.Decls {
		fd, ok := d.(*ast.FuncDecl)
		if !ok || fd.Body == nil || fd.Name.Name != "imports" || fd.Recv == nil {
			continue
		}
		var caseBody *ast.CaseClause
		ast.Inspect(fd.Body, func(n ast.Node) bool {
			if cc, ok := n.(*ast.CaseClause); ok && len(cc.List) == 1 && src(cc.List[0]) == "*ast.ImportSpec" && caseBody == nil {
				caseBody = cc
			}
			return true
		})
		if caseBody == nil {
			noteUnknown(goastWhere, "no case for *ast.ImportSpec")
			continue
		}
		step = goastStep(caseBody.Body)
		// the frame: the function with the case body struck out
		saved := caseBody.Body
		caseBody.Body = nil
		t := src(fd.Type) + " " + src(fd.Body)
		caseBody.Body = saved
		h := fmt.Sprintf("%x", sha256.Sum256([]byte(t)))[:16]
		frameOK = h == pinnedHashes["GOAST_IMPORTS_FRAME"]
		if !frameOK {
			noteUnknown(goastWhere, "the frame around the import spec case changed (hash "+h+"): "+t)
		}
	}
	var b strings.Builder
	b.WriteString("(* GENERATED from /repo/decorator/resolver/goast/resolver.go -- do not edit *)\nFrom Coq Require Import List String Bool.\nImport ListNotations.\nFrom DV Require Import Model.Decision.\nLocal Open Scope string_scope.\n\n")
	fmt.Fprintf(&b, "Definition goast_spec_step_src : list dstmt :=\n  [%s].\n\n", strings.Join(step, ";\n   "))
	fmt.Fprintf(&b, "Definition goast_imports_frame_ok : bool := %v.\n", frameOK)
	writeIfChanged("GoastImportsSrc.v", b.String())
}
