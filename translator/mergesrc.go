package main

import (
	"fmt"
	"go/ast"
	"go/token"
	"strings"
)

// Merge programs (Gen/MergeSrc.v): mergeDecorations (decorator/decorator.go) rendered case by case into
// the language of coq/Model/MergeProg.v, and the argument lists of its three calls in decorateSelectorExpr.

const mergeWhere = "decorator.go mergeDecorations"

func mergeStmts(list []ast.Stmt) string {
	var out []string
	for _, s := range list {
		out = append(out, mergeStmt(s))
	}
	return "[" + strings.Join(out, "; ") + "]"
}

func mergeStmt(s ast.Stmt) string {
	switch s := s.(type) {
	case *ast.BranchStmt:
		if s.Tok == token.CONTINUE && s.Label == nil {
			return "MContinue"
		}
	case *ast.AssignStmt:
		if len(s.Lhs) == 1 && len(s.Rhs) == 1 && s.Tok == token.ASSIGN {
			l, r := src(s.Lhs[0]), src(s.Rhs[0])
			if l == "out" {
				if r == "append(out, v...)" {
					return "MAppendAll"
				}
				if c, ok := s.Rhs[0].(*ast.CallExpr); ok && src(c.Fun) == "append" && len(c.Args) >= 2 && src(c.Args[0]) == "out" && !c.Ellipsis.IsValid() {
					all := true
					for _, a := range c.Args[1:] {
						if src(a) != `"\n"` {
							all = false
						}
					}
					if all {
						return fmt.Sprintf("MAppendNl %d", len(c.Args)-1)
					}
				}
			}
			if l == "endsWithNewLine" {
				switch r {
				case "true":
					return "MSetEnds MTrue"
				case "false":
					return "MSetEnds MFalse"
				case `v[len(v)-1] == "\n" || strings.HasPrefix(v[len(v)-1], "//")`:
					return "MSetEnds MLastNlOrLine"
				}
			}
		}
	case *ast.IfStmt:
		if s.Init == nil {
			switch src(s.Cond) {
			case "len(v) == 0":
				if s.Else == nil {
					return "MIfEmpty " + mergeStmts(s.Body.List)
				}
			case "endsWithNewLine":
				els := "[]"
				if b, ok := s.Else.(*ast.BlockStmt); ok {
					els = mergeStmts(b.List)
				} else if s.Else != nil {
					break
				}
				return "MIfEnds " + mergeStmts(s.Body.List) + " " + els
			}
		}
	}
	noteUnknown(mergeWhere, "statement outside the merge language: "+src(s))
	return "MUnknownS " + qfull(src(s))
}

func genMergeSrc() {
	f := parse("decorator/decorator.go")
	nilCase, strCase, defaultPanics := "[MUnknownS \"missing\"]", "[MUnknownS \"missing\"]", "false"
	var spaceCases []string
	shape := false
	var calls []string
	var slots [][4]string
	for _, d := range f.Decls {
		fd, ok := d.(*ast.FuncDecl)
		if !ok || fd.Body == nil {
			continue
		}
		if fd.Name.Name == "decorateSelectorExpr" {
			// the thirteen slots: which map entry each merged local holds, and the two spacings copied directly
			for _, st := range fd.Body.List {
				switch st := st.(type) {
				case *ast.AssignStmt:
					if len(st.Lhs) == 1 && len(st.Rhs) == 1 && st.Tok == token.ASSIGN {
						l, r := src(st.Lhs[0]), src(st.Rhs[0])
						for _, m := range []string{"before", "after"} {
							pre := "f." + m + "["
							if strings.HasPrefix(r, pre) && strings.HasSuffix(r, "]") {
								slots = append(slots, [4]string{l, m, strings.TrimSuffix(strings.TrimPrefix(r, pre), "]"), ""})
							}
						}
					}
				case *ast.IfStmt:
					// if decs, ok := f.decorations[NODE]; ok { v = decs["KEY"] ... }
					if as, ok := st.Init.(*ast.AssignStmt); ok && st.Else == nil && src(st.Cond) == "ok" && len(as.Lhs) == 2 && src(as.Lhs[0]) == "decs" && len(as.Rhs) == 1 {
						r := src(as.Rhs[0])
						if strings.HasPrefix(r, "f.decorations[") && strings.HasSuffix(r, "]") {
							node := strings.TrimSuffix(strings.TrimPrefix(r, "f.decorations["), "]")
							for _, b := range st.Body.List {
								ba, ok := b.(*ast.AssignStmt)
								if !ok || len(ba.Lhs) != 1 || len(ba.Rhs) != 1 || ba.Tok != token.ASSIGN {
									noteUnknown(mergeWhere, "slot assignment of unexpected shape: "+src(b))
									continue
								}
								rr := src(ba.Rhs[0])
								if strings.HasPrefix(rr, `decs["`) && strings.HasSuffix(rr, `"]`) {
									slots = append(slots, [4]string{src(ba.Lhs[0]), "decorations", node, strings.TrimSuffix(strings.TrimPrefix(rr, `decs["`), `"]`)})
								} else {
									noteUnknown(mergeWhere, "slot assignment of unexpected shape: "+src(b))
								}
							}
						}
					}
				}
			}
			ast.Inspect(fd.Body, func(n ast.Node) bool {
				is, ok := n.(*ast.IfStmt)
				if !ok || is.Init == nil {
					return true
				}
				as, ok := is.Init.(*ast.AssignStmt)
				if !ok || len(as.Rhs) != 1 {
					return true
				}
				c, ok := as.Rhs[0].(*ast.CallExpr)
				if !ok || src(c.Fun) != "mergeDecorations" {
					return true
				}
				var args []string
				for _, a := range c.Args {
					args = append(args, src(a))
				}
				// if iX := mergeDecorations(...); len(iX) > 0 { out.Decs.X.Append(iX...) }
				name := src(as.Lhs[0])
				target := "?"
				if src(is.Cond) == "len("+name+") > 0" && len(is.Body.List) == 1 && is.Else == nil {
					t := src(is.Body.List[0])
					if strings.HasPrefix(t, "out.Decs.") && strings.HasSuffix(t, ".Append("+name+"...)") {
						target = strings.TrimSuffix(strings.TrimPrefix(t, "out.Decs."), ".Append("+name+"...)")
					}
				}
				if target == "?" {
					noteUnknown(mergeWhere, "call site of unexpected shape: "+src(is))
				}
				calls = append(calls, "("+q(target)+", "+qlist(args)+")")
				return true
			})
		}
		if fd.Name.Name != "mergeDecorations" || fd.Recv != nil {
			continue
		}
		b := fd.Body.List
		if len(b) == 4 && src(b[0]) == "var endsWithNewLine bool" && src(b[1]) == "var out []string" && src(b[3]) == "return out" &&
			len(fd.Type.Params.List) == 1 && len(fd.Type.Params.List[0].Names) == 1 {
			param := fd.Type.Params.List[0].Names[0].Name
			if rs, ok := b[2].(*ast.RangeStmt); ok && src(rs.Key) == "_" && src(rs.Value) == "v" && src(rs.X) == param && len(rs.Body.List) == 1 {
				if ts, ok := rs.Body.List[0].(*ast.TypeSwitchStmt); ok && src(ts.Assign) == "v := v.(type)" && ts.Init == nil {
					shape = true
					for _, c := range ts.Body.List {
						cc := c.(*ast.CaseClause)
						switch {
						case cc.List == nil:
							if len(cc.Body) == 1 && strings.HasPrefix(src(cc.Body[0]), "panic(") {
								defaultPanics = "true"
							}
						case len(cc.List) == 1 && src(cc.List[0]) == "nil":
							nilCase = mergeStmts(cc.Body)
						case len(cc.List) == 1 && src(cc.List[0]) == "[]string":
							strCase = mergeStmts(cc.Body)
						case len(cc.List) == 1 && src(cc.List[0]) == "dst.SpaceType":
							ok := len(cc.Body) == 1
							if ok {
								sw, isSw := cc.Body[0].(*ast.SwitchStmt)
								ok = isSw && sw.Init == nil && sw.Tag != nil && src(sw.Tag) == "v" && hasNoFallthrough(sw.Body)
								if ok {
									for _, c2 := range sw.Body.List {
										cc2 := c2.(*ast.CaseClause)
										if len(cc2.List) != 1 || !strings.HasPrefix(src(cc2.List[0]), "dst.") {
											ok = false
											break
										}
										spaceCases = append(spaceCases, "("+q(strings.TrimPrefix(src(cc2.List[0]), "dst."))+", "+mergeStmts(cc2.Body)+")")
									}
								}
							}
							if !ok {
								shape = false
							}
						default:
							shape = false
						}
					}
				}
			}
		}
	}
	if !shape {
		noteUnknown(mergeWhere, "function of unexpected shape")
	}
	var b strings.Builder
	b.WriteString("(* GENERATED from /repo/decorator/decorator.go -- do not edit *)\n")
	b.WriteString("From Coq Require Import List String.\nImport ListNotations.\nFrom DV Require Import Model.MergeProg.\nLocal Open Scope string_scope.\n\n")
	fmt.Fprintf(&b, "Definition mergeDecorations_src : mprog :=\n  mkMProg %v\n    %s\n    %s\n    [%s]\n    %s.\n\n", shape, nilCase, strCase, strings.Join(spaceCases, ";\n     "), defaultPanics)
	fmt.Fprintf(&b, "Definition merge_calls : list (string * list string) :=\n  [%s].\n\n", strings.Join(calls, ";\n   "))
	// (local or field, map, node, decoration point)
	var sl []string
	for _, x := range slots {
		sl = append(sl, "("+q(x[0])+", "+q(x[1])+", "+q(x[2])+", "+q(x[3])+")")
	}
	fmt.Fprintf(&b, "Definition merge_slots : list (string * string * string * string) :=\n  [%s].\n", strings.Join(sl, ";\n   "))
	writeIfChanged("MergeSrc.v", b.String())
}
