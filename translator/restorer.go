package main

import (
	"fmt"
	"go/ast"
	"go/token"
	"path/filepath"
	"strings"
)

// ---------------------------------------------------------------------------------
// shared expression translation

var tokenByName = map[string]token.Token{}

func loadTokens() {
	f := parseAbs(filepath.Join(goroot(), "go/token/token.go"))
	for _, d := range f.Decls {
		gd, ok := d.(*ast.GenDecl)
		if !ok || gd.Tok != token.CONST {
			continue
		}
		// the first const block with "ILLEGAL Token = iota"
		if len(gd.Specs) == 0 {
			continue
		}
		vs := gd.Specs[0].(*ast.ValueSpec)
		if len(vs.Names) != 1 || vs.Names[0].Name != "ILLEGAL" {
			continue
		}
		i := 0
		for _, s := range gd.Specs {
			for _, n := range s.(*ast.ValueSpec).Names {
				tokenByName[n.Name] = token.Token(i)
				i++
			}
		}
	}
}

// pathOf translates root.A.B into (root, ["A";"B"]).
func pathOf(e ast.Expr) (root string, p []string, ok bool) {
	switch e := e.(type) {
	case *ast.Ident:
		return e.Name, nil, true
	case *ast.SelectorExpr:
		r, pp, ok := pathOf(e.X)
		if !ok {
			return "", nil, false
		}
		return r, append(pp, e.Sel.Name), true
	case *ast.ParenExpr:
		return pathOf(e.X)
	}
	return "", nil, false
}

func nPath(e ast.Expr, root string) ([]string, bool) {
	r, p, ok := pathOf(e)
	if !ok || r != root || len(p) == 0 {
		return nil, false
	}
	return p, true
}

var chanDirVals = map[string]int{"SEND": 1, "RECV": 2}

func condOf(e ast.Expr, root, where string) string {
	s := src(e)
	unknown := func() string {
		noteUnknown(where, "condition "+s)
		return "CUnknown " + q(s)
	}
	switch e := e.(type) {
	case *ast.Ident:
		if e.Name == "true" {
			return "CTrue"
		}
	case *ast.ParenExpr:
		return condOf(e.X, root, where)
	case *ast.SelectorExpr:
		if p, ok := nPath(e, root); ok {
			return "CBool " + qlist(p)
		}
	case *ast.UnaryExpr:
		if e.Op == token.NOT {
			if p, ok := nPath(e.X, root); ok {
				return "CNotBool " + qlist(p)
			}
		}
	case *ast.CallExpr:
		// n.F.IsValid()
		if se, ok := e.Fun.(*ast.SelectorExpr); ok && se.Sel.Name == "IsValid" && len(e.Args) == 0 {
			if p, ok := nPath(se.X, root); ok {
				return "CPosValid " + qlist(p)
			}
		}
	case *ast.BinaryExpr:
		if e.Op != token.EQL && e.Op != token.NEQ {
			break
		}
		p, ok := nPath(e.X, root)
		if !ok {
			break
		}
		y := src(e.Y)
		switch {
		case y == "nil" && e.Op == token.NEQ:
			return "CNotNil " + qlist(p)
		case y == "nil" && e.Op == token.EQL:
			return "CIsNil " + qlist(p)
		case strings.HasPrefix(y, "token."):
			if t, ok := tokenByName[strings.TrimPrefix(y, "token.")]; ok {
				if e.Op == token.EQL {
					return fmt.Sprintf("CTokEq %s %s", qlist(p), q(t.String()))
				}
				return fmt.Sprintf("CTokNe %s %s", qlist(p), q(t.String()))
			}
		case strings.HasPrefix(y, "dst.") || strings.HasPrefix(y, "ast."):
			if v, ok := chanDirVals[y[4:]]; ok && e.Op == token.EQL {
				return fmt.Sprintf("CIntEq %s %d", qlist(p), v)
			}
		}
	}
	return unknown()
}

// tokOf translates a token-valued expression: token.X, n.Tok, or the function literal
// func() token.Token { if c { return token.A }; return token.B }()
func tokOf(e ast.Expr, root, where string) string {
	s := src(e)
	switch e := e.(type) {
	case *ast.ParenExpr:
		return tokOf(e.X, root, where)
	case *ast.SelectorExpr:
		if id, ok := e.X.(*ast.Ident); ok && id.Name == "token" {
			if t, ok := tokenByName[e.Sel.Name]; ok {
				return fmt.Sprintf("TConst %s %s", q(e.Sel.Name), q(t.String()))
			}
		}
		if p, ok := nPath(e, root); ok {
			return "TField " + qlist(p)
		}
	case *ast.CallExpr:
		if fl, ok := e.Fun.(*ast.FuncLit); ok && len(e.Args) == 0 && len(fl.Body.List) == 2 {
			ifs, ok1 := fl.Body.List[0].(*ast.IfStmt)
			ret, ok2 := fl.Body.List[1].(*ast.ReturnStmt)
			if ok1 && ok2 && ifs.Else == nil && ifs.Init == nil && len(ifs.Body.List) == 1 && len(ret.Results) == 1 {
				if r1, ok := ifs.Body.List[0].(*ast.ReturnStmt); ok && len(r1.Results) == 1 {
					return fmt.Sprintf("TChoice (%s) (%s) (%s)", condOf(ifs.Cond, root, where),
						tokOf(r1.Results[0], root, where), tokOf(ret.Results[0], root, where))
				}
			}
		}
	}
	noteUnknown(where, "token expression "+s)
	return "TUnknown " + q(s)
}

// ---------------------------------------------------------------------------------
// restorer-generated.go -> list rstmt per kind

func genRestorer() {
	f := parse("decorator/restorer-generated.go")
	var b strings.Builder
	b.WriteString("(* GENERATED from /repo/decorator/restorer-generated.go -- do not edit *)\n" + hdr)
	frameOK := false
	var order []string
	cases := map[string]string{}
	for _, d := range f.Decls {
		fd, ok := d.(*ast.FuncDecl)
		if !ok || fd.Name.Name != "restoreNode" || fd.Body == nil {
			continue
		}
		// frame: duplicate check, then the type switch
		if len(fd.Body.List) == 2 {
			dup := src(fd.Body.List[0])
			wantDup := "if an, ok := r.Ast.Nodes[n]; ok { if allowDuplicate { return an } else { panic(fmt.Sprintf(\"duplicate node: %#v\", n)) } }"
			if dup == wantDup {
				frameOK = true
			} else {
				noteUnknown("restorer-generated.go", "duplicate-node frame: "+dup)
			}
		} else {
			noteUnknown("restorer-generated.go", "restoreNode frame has an unexpected number of statements")
		}
		for _, s := range fd.Body.List {
			sw, ok := s.(*ast.TypeSwitchStmt)
			if !ok {
				continue
			}
			for _, c := range sw.Body.List {
				cc := c.(*ast.CaseClause)
				if cc.List == nil {
					continue
				}
				if len(cc.List) != 1 {
					noteUnknown("restorer-generated.go", "multi-type case "+src(cc.List[0]))
					continue
				}
				kind := strings.TrimPrefix(src(cc.List[0]), "*dst.")
				where := "restorer-generated.go " + kind
				cases[kind] = restStmts(cc.Body, kind, where, true)
				order = append(order, kind)
			}
		}
	}
	b.WriteString("Definition rest_tbl : list (string * list rstmt) := [\n")
	for i, k := range order {
		if i > 0 {
			b.WriteString(";\n")
		}
		fmt.Fprintf(&b, "  (%s, [%s])", q(k), cases[k])
	}
	b.WriteString("].\n\n")
	fmt.Fprintf(&b, "Definition rest_frame_ok : bool := %v.\n", frameOK)
	writeIfChanged("RestTbl.v", b.String())
}

func restStmts(body []ast.Stmt, kind, where string, top bool) string {
	var out []string
	stmts := body
	if top {
		// strip  out := &ast.K{}  ...  return out ; the Ident hook is two statements
		var rest []ast.Stmt
		sawAlloc, sawRet := false, false
		for i := 0; i < len(stmts); i++ {
			s := stmts[i]
			ss := src(s)
			switch {
			case ss == "out := &ast."+kind+"{}":
				sawAlloc = true
			case ss == "return out" && i == len(stmts)-1:
				sawRet = true
			case ss == "sel := r.restoreIdent(n, parentName, parentField, parentFieldType, allowDuplicate)" &&
				i+1 < len(stmts) && src(stmts[i+1]) == "if sel != nil { return sel }" && !sawAlloc:
				out = append(out, "RIdentHook")
				i++
			default:
				rest = append(rest, s)
			}
		}
		if !sawAlloc || !sawRet {
			noteUnknown(where, "case does not allocate out / return out")
			out = append(out, "RUnknown "+q("missing alloc/return"))
		}
		stmts = rest
	}
	for _, s := range stmts {
		out = append(out, restStmt(s, kind, where))
	}
	return strings.Join(out, "; ")
}

func restStmt(s ast.Stmt, kind, where string) string {
	ss := src(s)
	unknown := func() string {
		noteUnknown(where, ss)
		return "RUnknown " + q(ss)
	}
	switch s := s.(type) {
	case *ast.AssignStmt:
		if len(s.Lhs) != 1 || len(s.Rhs) != 1 {
			return unknown()
		}
		lhs, rhs := s.Lhs[0], s.Rhs[0]
		ls, rs := src(lhs), src(rhs)
		if s.Tok == token.ADD_ASSIGN && ls == "r.cursor" {
			// r.cursor += token.Pos(<e>)
			c, ok := rhs.(*ast.CallExpr)
			if !ok || src(c.Fun) != "token.Pos" || len(c.Args) != 1 {
				return unknown()
			}
			arg := c.Args[0]
			if lc, ok := arg.(*ast.CallExpr); ok && src(lc.Fun) == "len" && len(lc.Args) == 1 {
				in := lc.Args[0]
				// len(T.String())  or len(n.Value)
				if sc, ok := in.(*ast.CallExpr); ok && len(sc.Args) == 0 {
					if se, ok := sc.Fun.(*ast.SelectorExpr); ok && se.Sel.Name == "String" {
						return "RAdvTok (" + tokOf(se.X, "n", where) + ")"
					}
				}
				if p, ok := nPath(in, "n"); ok {
					return "RAdvStr " + qlist(p)
				}
				return unknown()
			}
			if p, ok := nPath(arg, "n"); ok {
				return "RAdvLen " + qlist(p)
			}
			return unknown()
		}
		if s.Tok != token.ASSIGN {
			return unknown()
		}
		switch {
		case ls == "r.Ast.Nodes[n]" && rs == "out":
			return "RMapAst"
		case ls == "r.Dst.Nodes[out]" && rs == "n":
			return "RMapDst"
		}
		if ix, ok := lhs.(*ast.IndexExpr); ok {
			// r.Ast.Nodes[n.P] = out.P ; r.Dst.Nodes[out.P] = n.P
			if src(ix.X) == "r.Ast.Nodes" {
				if p, ok := nPath(ix.Index, "n"); ok {
					if o, ok := nPath(rhs, "out"); ok && strings.Join(o, ".") == strings.Join(p, ".") {
						return "RMapAstAt " + qlist(p)
					}
				}
			}
			if src(ix.X) == "r.Dst.Nodes" {
				if o, ok := nPath(ix.Index, "out"); ok {
					if p, ok := nPath(rhs, "n"); ok && strings.Join(o, ".") == strings.Join(p, ".") {
						return "RMapDstAt " + qlist(p)
					}
				}
			}
			return unknown()
		}
		o, ok := nPath(lhs, "out")
		if !ok {
			return unknown()
		}
		switch {
		case rs == "r.cursor":
			return "RSetPos " + qlist(o)
		case rs == "token.NoPos":
			return "RSetNoPos " + qlist(o)
		}
		if p, ok := nPath(rhs, "n"); ok {
			return fmt.Sprintf("RCopy %s %s", qlist(o), qlist(p))
		}
		switch r := rhs.(type) {
		case *ast.UnaryExpr:
			// out.F = &ast.T{}
			if cl, ok := r.X.(*ast.CompositeLit); ok && r.Op == token.AND && len(cl.Elts) == 0 && strings.HasPrefix(src(cl.Type), "ast.") {
				return fmt.Sprintf("RInit %s %s", qlist(o), q(strings.TrimPrefix(src(cl.Type), "ast.")))
			}
		case *ast.CompositeLit:
			if len(r.Elts) == 0 && strings.HasPrefix(src(r.Type), "map[") {
				return "RMakeMap " + qlist(o)
			}
		case *ast.CallExpr:
			fs := src(r.Fun)
			if (fs == "r.restoreScope" || fs == "r.restoreObject") && len(r.Args) == 1 {
				if p, ok := nPath(r.Args[0], "n"); ok {
					if fs == "r.restoreScope" {
						return fmt.Sprintf("RScope %s %s", qlist(p), qlist(o))
					}
					return fmt.Sprintf("RObject %s %s", qlist(p), qlist(o))
				}
			}
			// conversions ast.ChanDir(n.Dir), ast.ObjKind(..)
			if strings.HasPrefix(fs, "ast.") && len(r.Args) == 1 {
				if p, ok := nPath(r.Args[0], "n"); ok {
					return fmt.Sprintf("RCopy %s %s", qlist(o), qlist(p))
				}
			}
		case *ast.TypeAssertExpr:
			// out.F = r.restoreNode(n.F, "K", "F", "T", allowDuplicate).(T)  (only legal under the nil check; handled in IfStmt)
		}
		return unknown()
	case *ast.ExprStmt:
		c, ok := s.X.(*ast.CallExpr)
		if !ok {
			return unknown()
		}
		switch src(c.Fun) {
		case "r.applySpace":
			if len(c.Args) == 3 && src(c.Args[0]) == "n" {
				if src(c.Args[1]) == "\"Before\"" && src(c.Args[2]) == "n.Decs.Before" {
					return "RSpace false"
				}
				if src(c.Args[1]) == "\"After\"" && src(c.Args[2]) == "n.Decs.After" {
					return "RSpace true"
				}
			}
		case "r.applyDecorations":
			if len(c.Args) == 4 && src(c.Args[0]) == "out" {
				name := strings.Trim(src(c.Args[1]), "\"")
				end := src(c.Args[3])
				if p, ok := nPath(c.Args[2], "n"); ok && len(p) >= 2 && p[len(p)-2] == "Decs" && (end == "true" || end == "false") {
					// n.<owner>.Decs.<point>; the name passed to applyDecorations is recorded separately
					owner := p[:len(p)-2]
					return fmt.Sprintf("RDec %s %s %s %s", q(name), qlist(owner), q(p[len(p)-1]), end)
				}
			}
		case "r.applyLiteral":
			if len(c.Args) == 1 {
				if p, ok := nPath(c.Args[0], "n"); ok {
					return "RLiteral " + qlist(p)
				}
			}
		}
		return unknown()
	case *ast.IfStmt:
		if s.Init != nil {
			return unknown()
		}
		// if n.F != nil { out.F = r.restoreNode(n.F, "K", "F", "T", allowDuplicate).(T) }
		if be, ok := s.Cond.(*ast.BinaryExpr); ok && be.Op == token.NEQ && src(be.Y) == "nil" && s.Else == nil && len(s.Body.List) == 1 {
			if p, ok := nPath(be.X, "n"); ok {
				if as, ok := s.Body.List[0].(*ast.AssignStmt); ok && len(as.Lhs) == 1 && len(as.Rhs) == 1 && as.Tok == token.ASSIGN {
					if r := restoreCall(as.Rhs[0], "n"); r != nil && strings.Join(r.src, ".") == strings.Join(p, ".") {
						if o, ok := nPath(as.Lhs[0], "out"); ok {
							return fmt.Sprintf("RNode %s %s %s %s %s", qlist(p), qlist(o), q(r.pn), q(r.pf), q(r.pt))
						}
					}
				}
			}
		}
		th := restStmts(s.Body.List, kind, where, false)
		el := ""
		if s.Else != nil {
			eb, ok := s.Else.(*ast.BlockStmt)
			if !ok {
				return unknown()
			}
			el = restStmts(eb.List, kind, where, false)
		}
		return fmt.Sprintf("RIf (%s) [%s] [%s]", condOf(s.Cond, "n", where), th, el)
	case *ast.RangeStmt:
		// for _, v := range n.F { out.F = append(out.F, r.restoreNode(v, ...).(T)) }
		p, ok := nPath(s.X, "n")
		if !ok || len(s.Body.List) != 1 {
			return unknown()
		}
		as, ok := s.Body.List[0].(*ast.AssignStmt)
		if !ok || len(as.Lhs) != 1 || len(as.Rhs) != 1 || as.Tok != token.ASSIGN {
			return unknown()
		}
		if src(s.Key) == "_" && s.Value != nil {
			vn := src(s.Value)
			if ap, ok := as.Rhs[0].(*ast.CallExpr); ok && src(ap.Fun) == "append" && len(ap.Args) == 2 && src(ap.Args[0]) == src(as.Lhs[0]) {
				if r := restoreCall(ap.Args[1], vn); r != nil && len(r.src) == 0 {
					if o, ok := nPath(as.Lhs[0], "out"); ok {
						return fmt.Sprintf("RList %s %s %s %s %s", qlist(p), qlist(o), q(r.pn), q(r.pf), q(r.pt))
					}
				}
			}
			return unknown()
		}
		// for k, v := range n.F { out.F[k] = ... }
		if src(s.Key) == "k" && s.Value != nil {
			ix, ok := as.Lhs[0].(*ast.IndexExpr)
			if !ok || src(ix.Index) != "k" {
				return unknown()
			}
			o, ok := nPath(ix.X, "out")
			if !ok {
				return unknown()
			}
			vn := src(s.Value)
			if r := restoreCall(as.Rhs[0], vn); r != nil && len(r.src) == 0 {
				return fmt.Sprintf("RMapNodes %s %s %s %s %s", qlist(p), qlist(o), q(r.pn), q(r.pf), q(r.pt))
			}
			if c, ok := as.Rhs[0].(*ast.CallExpr); ok && src(c.Fun) == "r.restoreObject" && len(c.Args) == 1 && src(c.Args[0]) == vn {
				return fmt.Sprintf("RMapObjs %s %s", qlist(p), qlist(o))
			}
		}
		return unknown()
	}
	return unknown()
}

type restoreCallInfo struct {
	src        []string
	pn, pf, pt string
}

// r.restoreNode(<root>.P, "K", "F", "T", allowDuplicate).(T)
func restoreCall(e ast.Expr, root string) *restoreCallInfo {
	ta, ok := e.(*ast.TypeAssertExpr)
	if !ok {
		return nil
	}
	c, ok := ta.X.(*ast.CallExpr)
	if !ok || src(c.Fun) != "r.restoreNode" || len(c.Args) != 5 || src(c.Args[4]) != "allowDuplicate" {
		return nil
	}
	r, p, ok := pathOf(c.Args[0])
	if !ok || r != root {
		return nil
	}
	un := func(e ast.Expr) string { return strings.Trim(src(e), "\"") }
	return &restoreCallInfo{p, un(c.Args[1]), un(c.Args[2]), un(c.Args[3])}
}
