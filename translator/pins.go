package main

// Hashes of the normalised source text of hand-modelled functions, recorded when the models
// were written (bin/pins prints the current values).
var pinnedHashes = map[string]string{
	"GOTYPES_RESOLVEIDENT": "37813323b9abdc16",
	"GOAST_RESOLVEIDENT":   "4be53d07a97ef4bd",
	"GOAST_IMPORTS":        "a41afde1826879ac",
	"GOAST_IMPORTS_FRAME":  "2df0f301f9f4a08d",
	"DEC_RESOLVEPATH":      "362e2839feeaba9e",
	"DEC_STRIPVENDOR":      "d4948ac7c1f33463",
}
