package main

import (
	"fmt"
	"go/ast"
	"go/parser"
	"os"
	"path/filepath"
	"regexp"
	"strings"
)

// dstutil/rewrite.go (and golang.org/x/tools' astutil/rewrite.go as reference) -> Gen/ApplyTbl.v:
//   - the per-kind child table of application.apply,
//   - the bodies of the Cursor edit methods as a small slice-operation IR,
//   - for every function, whether its text equals astutil's with dst. for ast.,
//   - whether the hand-modelled frames (Apply, apply's pre/post frame, applyList) have the
//     exact text the Coq model transcribes.

func astutilPath() string {
	cands := []string{}
	if gp := os.Getenv("GOMODCACHE"); gp != "" {
		cands = append(cands, gp)
	}
	if gp := os.Getenv("GOPATH"); gp != "" {
		cands = append(cands, filepath.Join(gp, "pkg/mod"))
	}
	home, _ := os.UserHomeDir()
	cands = append(cands, filepath.Join(home, "go/pkg/mod"), "/root/go/pkg/mod")
	for _, c := range cands {
		p := filepath.Join(c, "golang.org/x/tools@v0.1.12/go/ast/astutil/rewrite.go")
		if _, err := os.Stat(p); err == nil {
			return p
		}
	}
	return ""
}

func applyStmt(s ast.Stmt, where string) string {
	// astutil (x/tools v0.1.12) reaches type parameters through its typeparams shim, under a nil check:
	// no callback is made for a nil list
	if m := tparamsRe.FindStringSubmatch(src(s)); m != nil {
		return fmt.Sprintf("AOneG %s %s", q("TypeParams"), q("TypeParams"))
	}
	// if n.F != nil { a.apply(n, "F", nil, n.F) }
	if m := guardedApplyRe.FindStringSubmatch(strings.Join(strings.Fields(src(s)), " ")); m != nil && m[1] == m[3] {
		return fmt.Sprintf("AOneG %s %s", q(m[2]), q(m[3]))
	}
	if es, ok := s.(*ast.ExprStmt); ok {
		if c, ok := es.X.(*ast.CallExpr); ok {
			switch src(c.Fun) {
			case "a.apply":
				if len(c.Args) == 4 && src(c.Args[0]) == "n" && src(c.Args[2]) == "nil" {
					if f, ok := selField(c.Args[3], "n"); ok {
						return fmt.Sprintf("AOne %s %s", q(litString(c.Args[1])), q(f))
					}
				}
			case "a.applyList":
				if len(c.Args) == 2 && src(c.Args[0]) == "n" {
					return fmt.Sprintf("AMany %s", q(litString(c.Args[1])))
				}
			}
		}
	}
	noteUnknown(where, src(s))
	return "AUnknown " + q(src(s))
}

var guardedApplyRe = regexp.MustCompile(`^if n\.(\w+) != nil \{ a\.apply\(n, "(\w+)", nil, n\.(\w+)\) \}$`)

var tparamsRe = regexp.MustCompile(`^if tparams := typeparams\.For(FuncType|TypeSpec)\(n\); tparams != nil \{ a\.apply\(n, "TypeParams", nil, tparams\) \}$`)

var pkgFilesText = `var names []string | for name := range n.Files { names = append(names, name) } | sort.Strings(names) | for _, name := range names { a.apply(n, name, nil, n.Files[name]) }`

type applyInfo struct {
	tbl    map[string][]string
	order  []string
	funcs  map[string]string // name -> normalised text with the node package renamed to ast.
	frames map[string]string
}

func readApply(f *ast.File, pkg, where string) applyInfo {
	info := applyInfo{tbl: map[string][]string{}, funcs: map[string]string{}, frames: map[string]string{}}
	ren := regexp.MustCompile(`\b` + pkg + `\.`)
	norm := func(n ast.Node) string { return ren.ReplaceAllString(src(n), "ast.") }
	for _, d := range f.Decls {
		switch d := d.(type) {
		case *ast.GenDecl:
			for _, s := range d.Specs {
				if ts, ok := s.(*ast.TypeSpec); ok {
					info.funcs["type "+ts.Name.Name] = norm(ts.Type)
				}
				if vs, ok := s.(*ast.ValueSpec); ok && len(vs.Names) == 1 && vs.Names[0].Name == "abort" {
					info.funcs["var abort"] = norm(vs)
				}
			}
		case *ast.FuncDecl:
			name := d.Name.Name
			if d.Recv != nil {
				name = strings.TrimPrefix(src(d.Recv.List[0].Type), "*") + "." + name
			}
			if d.Body == nil {
				continue
			}
			if name == "application.apply" {
				var frame []string
				for _, s := range d.Body.List {
					sw, ok := s.(*ast.TypeSwitchStmt)
					if !ok {
						frame = append(frame, norm(s))
						continue
					}
					frame = append(frame, "SWITCH "+norm(sw.Assign))
					for _, c := range sw.Body.List {
						cc := c.(*ast.CaseClause)
						if cc.List == nil {
							frame = append(frame, "default: "+norm(&ast.BlockStmt{List: cc.Body}))
							continue
						}
						if len(cc.List) == 1 && (src(cc.List[0]) == "*ast.Comment" || src(cc.List[0]) == "*ast.CommentGroup") {
							continue // comments are not nodes in dst
						}
						if len(cc.List) == 1 && src(cc.List[0]) == "nil" {
							if len(cc.Body) != 0 {
								noteUnknown(where, "case nil has a body")
							}
							continue
						}
						var parts []string
						var txt []string
						for _, s := range cc.Body {
							txt = append(txt, src(s))
						}
						if len(cc.List) == 1 && strings.HasSuffix(src(cc.List[0]), ".Package") {
							if strings.Join(txt, " | ") == pkgFilesText {
								parts = []string{"APkgFiles"}
							} else {
								noteUnknown(where, "Package case: "+strings.Join(txt, " | "))
								parts = []string{"AUnknown " + q("Package case")}
							}
						} else {
							for _, s := range cc.Body {
								// astutil walks Doc / Comment fields; keep them (the Coq side ignores them by name)
								parts = append(parts, applyStmt(s, where))
							}
						}
						for _, t := range cc.List {
							k := src(t)
							k = k[strings.LastIndex(k, ".")+1:]
							info.tbl[k] = parts
							info.order = append(info.order, k)
						}
					}
				}
				info.frames["apply"] = strings.Join(frame, " | ")
				continue
			}
			info.funcs[name] = norm(d.Body)
		}
	}
	return info
}

// the slice-operation IR of a Cursor edit method (statements after the *File special case)
func cursorIR(f *ast.File, method, where string) string {
	dict := map[string]string{
		`i := c.Index()`:                                     "IGetIndex",
		`v := c.field()`:                                     "IField",
		`l := v.Len()`:                                       "ILen",
		`v.Set(reflect.Append(v, reflect.Zero(v.Type().Elem())))`: "IAppendZero",
		`reflect.Copy(v.Slice(i, l), v.Slice(i+1, l))`:       "ICopy 0 1",
		`reflect.Copy(v.Slice(i+2, l), v.Slice(i+1, l))`:     "ICopy 2 1",
		`reflect.Copy(v.Slice(i+1, l), v.Slice(i, l))`:       "ICopy 1 0",
		`v.Index(l - 1).Set(reflect.Zero(v.Type().Elem()))`:  "IZeroLast",
		`v.SetLen(l - 1)`:                                    "ITrunc",
		`v.Index(i + 1).Set(reflect.ValueOf(n))`:             "ISet 1",
		`v.Index(i).Set(reflect.ValueOf(n))`:                 "ISet 0",
		`c.iter.step--`:                                      "IStep (-1)",
		`c.iter.step++`:                                      "IStep 1",
		`c.iter.index++`:                                     "IIndex 1",
		`if i := c.Index(); i >= 0 { v = v.Index(i) }`:       "IAtIndex",
		`v.Set(reflect.ValueOf(n))`:                          "ISetV",
	}
	for _, d := range f.Decls {
		fd, ok := d.(*ast.FuncDecl)
		if !ok || fd.Recv == nil || fd.Name.Name != method || fd.Body == nil || src(fd.Recv.List[0].Type) != "*Cursor" {
			continue
		}
		var ops []string
		for _, s := range fd.Body.List {
			t := src(s)
			if ifs, ok := s.(*ast.IfStmt); ok && strings.Contains(src(ifs.Init), ".(*") && strings.Contains(src(ifs.Init), ".File)") {
				ops = append(ops, "IFileCase")
				continue
			}
			if strings.HasPrefix(t, "if i < 0 { panic(") {
				ops = append(ops, "IPanicIfNoSlice")
				continue
			}
			if op, ok := dict[t]; ok {
				ops = append(ops, op)
				continue
			}
			noteUnknown(where+" Cursor."+method, t)
			ops = append(ops, "IUnknown "+q(t))
		}
		return "[" + strings.Join(ops, "; ") + "]"
	}
	noteUnknown(where, "Cursor."+method+" not found")
	return "[IUnknown \"missing\"]"
}

const expectApplyFrame = `if v := reflect.ValueOf(n); v.Kind() == reflect.Ptr && v.IsNil() { n = nil } | saved := a.cursor | a.cursor.parent = parent | a.cursor.name = name | a.cursor.iter = iter | a.cursor.node = n | if a.pre != nil && !a.pre(&a.cursor) { a.cursor = saved return } | SWITCH n := n.(type) | default: { panic(fmt.Sprintf("Apply: unexpected node type %T", n)) } | if a.post != nil && !a.post(&a.cursor) { panic(abort) } | a.cursor = saved`

const expectApplyList = `{ saved := a.iter a.iter.index = 0 for { v := reflect.Indirect(reflect.ValueOf(parent)).FieldByName(name) if a.iter.index >= v.Len() { break } var x ast.Node if e := v.Index(a.iter.index); e.IsValid() { x = e.Interface().(ast.Node) } a.iter.step = 1 a.apply(parent, name, &a.iter, x) a.iter.index += a.iter.step } a.iter = saved }`

const expectApply = `{ parent := &struct{ ast.Node }{root} defer func() { if r := recover(); r != nil && r != abort { panic(r) } result = parent.Node }() a := &application{pre: pre, post: post} a.apply(parent, "Node", nil, root) return }`

func genApply() {
	var b strings.Builder
	b.WriteString("(* GENERATED from /repo/dstutil/rewrite.go and golang.org/x/tools@v0.1.12 go/ast/astutil/rewrite.go -- do not edit *)\n" + hdr)
	df := parseNoComments(filepath.Join(*repo, "dstutil/rewrite.go"))
	di := readApply(df, "dst", "dstutil/rewrite.go")
	emit := func(name string, info applyInfo) {
		fmt.Fprintf(&b, "Definition %s : list (string * list apart) := [\n", name)
		for i, k := range info.order {
			if i > 0 {
				b.WriteString(";\n")
			}
			fmt.Fprintf(&b, "  (%s, [%s])", q(k), strings.Join(info.tbl[k], "; "))
		}
		b.WriteString("].\n\n")
	}
	emit("apply_tbl", di)
	ap := astutilPath()
	var ai applyInfo
	if ap == "" {
		noteUnknown("astutil", "golang.org/x/tools@v0.1.12 not found in the module cache")
		ai = applyInfo{tbl: map[string][]string{}, funcs: map[string]string{}, frames: map[string]string{}}
	} else {
		ai = readApply(parseNoComments(ap), "ast", "astutil/rewrite.go")
	}
	emit("astutil_tbl", ai)
	// function-by-function textual equality with astutil (dst. renamed to ast.)
	names := []string{"Apply", "var abort", "type Cursor", "Cursor.Node", "Cursor.Parent", "Cursor.Name", "Cursor.Index", "Cursor.field",
		"Cursor.Replace", "Cursor.Delete", "Cursor.InsertAfter", "Cursor.InsertBefore", "type application", "type iterator", "application.applyList"}
	b.WriteString("Definition same_as_astutil : list (string * bool) := [\n")
	for i, n := range names {
		same := di.funcs[n] != "" && di.funcs[n] == ai.funcs[n]
		if !same {
			noteUnknown("dstutil/rewrite.go", n+" differs from astutil's")
		}
		if i > 0 {
			b.WriteString(";\n")
		}
		fmt.Fprintf(&b, "  (%s, %v)", q(n), same)
	}
	b.WriteString("].\n")
	fmt.Fprintf(&b, "Definition apply_frame_same_as_astutil : bool := %v.\n", di.frames["apply"] != "" && di.frames["apply"] == ai.frames["apply"])
	// the frames the Coq model transcribes
	okFrame := di.frames["apply"] == expectApplyFrame
	okList := di.funcs["application.applyList"] == expectApplyList
	okApply := di.funcs["Apply"] == expectApply
	if !okFrame {
		noteUnknown("dstutil/rewrite.go", "application.apply frame: "+di.frames["apply"])
	}
	if !okList {
		noteUnknown("dstutil/rewrite.go", "applyList: "+di.funcs["application.applyList"])
	}
	if !okApply {
		noteUnknown("dstutil/rewrite.go", "Apply: "+di.funcs["Apply"])
	}
	fmt.Fprintf(&b, "Definition apply_frame_ok : bool := %v.\nDefinition apply_list_shape_ok : bool := %v.\nDefinition apply_entry_ok : bool := %v.\n\n", okFrame, okList, okApply)
	for _, m := range []string{"Replace", "Delete", "InsertAfter", "InsertBefore"} {
		fmt.Fprintf(&b, "Definition ir_%s : list iop := %s.\n", m, cursorIR(df, m, "dstutil/rewrite.go"))
	}
	writeIfChanged("ApplyTbl.v", b.String())
}

func parseNoComments(path string) *ast.File {
	f, err := parser.ParseFile(fset, path, nil, 0)
	if err != nil && f == nil {
		fmt.Fprintf(os.Stderr, "translator: cannot parse %s: %v\n", path, err)
		return &ast.File{Name: ast.NewIdent("missing")}
	}
	return f
}
