package main

import (
	"fmt"
	"go/ast"
	"path/filepath"
	"strings"
)

// FileRestorer.RestoreFile (decorator/restorer.go): the statements between the Fset default and
// the updateImports call re-initialise the state the model starts from (Model/Restore.v init_r:
// lines = [0] in a fresh array, no comments, cursorAtNewLine = 0, base = cursor = Fset.Base()).

func genRestoreSrc() {
	f := parseNoComments(filepath.Join(*repo, "decorator/restorer.go"))
	ok := false
	okTail := false
	for _, d := range f.Decls {
		fd, isF := d.(*ast.FuncDecl)
		if !isF || fd.Name.Name != "RestoreFile" || fd.Recv == nil || fd.Body == nil || !strings.Contains(src(fd.Recv.List[0].Type), "FileRestorer") {
			continue
		}
		var sts []string
		on := false
		for _, s := range fd.Body.List {
			t := strings.Join(strings.Fields(src(s)), " ")
			if strings.HasPrefix(t, "if r.Fset == nil") {
				on = true
				continue
			}
			if strings.HasPrefix(t, "if err := r.updateImports()") {
				break
			}
			if on {
				sts = append(sts, t)
			}
		}
		want := []string{
			"r.file = file",
			"r.lines = []int{0}",
			"r.nodeDecl = map[*ast.Object]dst.Node{}",
			"r.nodeData = map[*ast.Object]dst.Node{}",
			"r.deferred = nil",
			"r.packageNames = map[string]string{}",
			"r.comments = []*ast.CommentGroup{}",
			"r.cursorAtNewLine = 0",
			"r.packageNames = map[string]string{}",
			"r.base = r.Fset.Base()",
			"r.cursor = token.Pos(r.base)",
		}
		ok = strings.Join(sts, "\n") == strings.Join(want, "\n")
		if !ok {
			noteUnknown("decorator/restorer.go RestoreFile", "state reset differs from the model's initial state: "+strings.Join(sts, " ; "))
		}
		// the part after updateImports: restore the tree, hand every comment group to the file (a fresh
		// slice, in the order they were recorded), register the file with the size fileSize computes and
		// install the line table (Model/Restore.finish); only then the deferred Extras pass; return f
		var tail []string
		on = false
		for _, s := range fd.Body.List {
			t := strings.Join(strings.Fields(src(s)), " ")
			if strings.HasPrefix(t, "if err := r.updateImports()") {
				on = true
				continue
			}
			if !on {
				continue
			}
			if strings.HasPrefix(t, "if r.Extras {") {
				t = "if r.Extras {...}"
			}
			tail = append(tail, t)
		}
		wantTail := []string{
			`f := r.restoreNode(r.file, "", "", "", false).(*ast.File)`,
			"for _, cg := range r.comments { f.Comments = append(f.Comments, cg) }",
			"ff := r.Fset.AddFile(r.Name, r.base, r.fileSize())",
			`if !ff.SetLines(r.lines) { panic("ff.SetLines failed") }`,
			"if r.Extras {...}",
			"return f, nil",
		}
		okTail = strings.Join(tail, "\n") == strings.Join(wantTail, "\n")
		if !okTail {
			noteUnknown("decorator/restorer.go RestoreFile", "the statements after updateImports differ from the model's finish: "+strings.Join(tail, " ; "))
		}
	}
	// Decorator.DecorateNode (decorator/decorator.go): a File is fragmented and linked as a whole; the
	// files of a Package one at a time on an emptied fragment list, so what the models say about File
	// roots (Model/Fragment.v, Model/Link.v) holds for each file of a package.
	okp := false
	g := parseNoComments(filepath.Join(*repo, "decorator/decorator.go"))
	for _, d := range g.Decls {
		fd, isF := d.(*ast.FuncDecl)
		if !isF || fd.Name.Name != "DecorateNode" || fd.Recv == nil || fd.Body == nil {
			continue
		}
		for _, s := range fd.Body.List {
			t := strings.Join(strings.Fields(src(s)), " ")
			if strings.HasPrefix(t, "if pkg, ok := n.(*ast.Package)") {
				okp = t == "if pkg, ok := n.(*ast.Package); ok { fd.pkg = pkg for _, file := range pkg.Files { fd.fragments = nil fd.fragment(file) fd.link() } } else { fd.fragment(n) fd.link() }"
				if !okp {
					noteUnknown("decorator/decorator.go package-per-file", "fragment/link of a package differs from 'each file on its own': "+t)
				}
			}
		}
		if !okp {
			noteUnknown("decorator/decorator.go package-per-file", "no per-file fragment/link of packages found")
		}
	}
	var b strings.Builder
	b.WriteString("(* GENERATED from /repo/decorator/restorer.go and decorator.go -- do not edit *)\n")
	fmt.Fprintf(&b, "Definition restorefile_starts_from_init_state : bool := %v.\n", ok)
	fmt.Fprintf(&b, "Definition package_files_decorated_one_at_a_time : bool := %v.\n", okp)
	fmt.Fprintf(&b, "Definition restorefile_finishes_as_the_model : bool := %v.\n", okTail)
	writeIfChanged("RestoreSrc.v", b.String())
}
