package main

import (
	"fmt"
	"go/ast"
	"path/filepath"
	"strings"
)

// Error propagation (C17): in the listed hand-written functions every statement that binds a
// variable named err from a call is immediately followed by
//     if err != nil { return ..., err }      (or a return wrapping err with %w),
// or has the form  if err := call(); err != nil { return ..., err }.

func returnsErr(body *ast.BlockStmt) bool {
	if body == nil || len(body.List) == 0 {
		return false
	}
	rs, ok := body.List[len(body.List)-1].(*ast.ReturnStmt)
	if !ok || len(rs.Results) == 0 {
		return false
	}
	last := src(rs.Results[len(rs.Results)-1])
	return last == "err" || last == "perr" || (strings.HasPrefix(last, "fmt.Errorf(") && strings.Contains(last, "%w") && strings.HasSuffix(last, "err)"))
}

func bindsErr(s ast.Stmt) bool {
	as, ok := s.(*ast.AssignStmt)
	if !ok || len(as.Rhs) != 1 {
		return false
	}
	if _, isCall := as.Rhs[0].(*ast.CallExpr); !isCall {
		return false
	}
	for _, l := range as.Lhs {
		if id, ok := l.(*ast.Ident); ok && id.Name == "err" {
			return true
		}
	}
	return false
}

func checkErrProp(list []ast.Stmt, bad *[]string) {
	for i, s := range list {
		if bindsErr(s) {
			ok := false
			if i+1 < len(list) {
				if ifs, isIf := list[i+1].(*ast.IfStmt); isIf && ifs.Init == nil && src(ifs.Cond) == "err != nil" && returnsErr(ifs.Body) {
					ok = true
				}
			}
			if !ok {
				*bad = append(*bad, src(s))
			}
		}
		switch x := s.(type) {
		case *ast.IfStmt:
			if x.Init != nil && bindsErr(x.Init) {
				if !(src(x.Cond) == "err != nil" && returnsErr(x.Body)) {
					*bad = append(*bad, src(x.Init))
				}
			}
			checkErrProp(x.Body.List, bad)
			if eb, ok := x.Else.(*ast.BlockStmt); ok {
				checkErrProp(eb.List, bad)
			}
		case *ast.ForStmt:
			checkErrProp(x.Body.List, bad)
		case *ast.RangeStmt:
			checkErrProp(x.Body.List, bad)
		case *ast.BlockStmt:
			checkErrProp(x.List, bad)
		case *ast.SwitchStmt:
			for _, c := range x.Body.List {
				checkErrProp(c.(*ast.CaseClause).Body, bad)
			}
		case *ast.TypeSwitchStmt:
			for _, c := range x.Body.List {
				checkErrProp(c.(*ast.CaseClause).Body, bad)
			}
		}
	}
}

func genErrProp() {
	var b strings.Builder
	b.WriteString("(* GENERATED from /repo/decorator/decorator.go, restorer.go, load.go -- do not edit *)\nFrom Coq Require Import List String Bool.\nImport ListNotations.\nLocal Open Scope string_scope.\n\n")
	want := map[string][]string{
		"decorator/decorator.go": {"decorateSelectorExpr", "resolvePath", "decorateObject", "decorateScope", "DecorateFile", "DecorateNode", "ParseDir"},
		"decorator/restorer.go":  {"updateImports", "RestoreFile", "Fprint"},
		"decorator/load.go":      {"save"},
	}
	b.WriteString("Definition err_propagation : list (string * bool) := [\n")
	first := true
	for _, file := range []string{"decorator/decorator.go", "decorator/restorer.go", "decorator/load.go"} {
		f := parseNoComments(filepath.Join(*repo, file))
		found := map[string]bool{}
		for _, d := range f.Decls {
			fd, ok := d.(*ast.FuncDecl)
			if !ok || fd.Body == nil {
				continue
			}
			for _, w := range want[file] {
				if fd.Name.Name == w {
					var bad []string
					checkErrProp(fd.Body.List, &bad)
					if len(bad) > 0 {
						noteUnknown(file+" "+w, "error not propagated after: "+strings.Join(bad, " ; "))
					}
					if !first {
						b.WriteString(";\n")
					}
					first = false
					recv := ""
					if fd.Recv != nil {
						recv = strings.TrimPrefix(src(fd.Recv.List[0].Type), "*") + "."
					}
					fmt.Fprintf(&b, "  (%s, %v)", q(recv+w), len(bad) == 0)
					found[w] = true
				}
			}
		}
		for _, w := range want[file] {
			if !found[w] {
				noteUnknown(file, "function "+w+" not found")
				if !first {
					b.WriteString(";\n")
				}
				first = false
				fmt.Fprintf(&b, "  (%s, false)", q(w))
			}
		}
	}
	b.WriteString("].\n")
	writeIfChanged("ErrProp.v", b.String())
}
