package main

import (
	"crypto/sha256"
	"fmt"
	"go/ast"
	"path/filepath"
	"sort"
	"strings"
)

// Resolver sources (C09): the hand models in Model/Resolvers.v transcribe
//   gotypes.DecoratorResolver.ResolveIdent, goast.DecoratorResolver.{ResolveIdent, imports},
//   fileDecorator.resolvePath, stripVendor and the avoid table of decorator.go.
// Gen/ResolverSrc.v records the avoid table (compared with the model's inside Coq) and, for each
// function, whether its normalised text still has the hash the model was written against.

func bodyHash(f *ast.File, name string) (string, string) {
	for _, d := range f.Decls {
		if fd, ok := d.(*ast.FuncDecl); ok && fd.Body != nil && fd.Name.Name == name {
			t := src(fd.Type) + " " + src(fd.Body)
			return fmt.Sprintf("%x", sha256.Sum256([]byte(t)))[:16], t
		}
	}
	return "missing", ""
}

func genResolverSrc() {
	var b strings.Builder
	b.WriteString("(* GENERATED from /repo/decorator/decorator.go and decorator/resolver/{gotypes,goast}/resolver.go -- do not edit *)\nFrom Coq Require Import List String Bool.\nImport ListNotations.\nLocal Open Scope string_scope.\n\n")
	df := parseNoComments(filepath.Join(*repo, "decorator/decorator.go"))
	// the avoid table
	var avoid []string
	for _, d := range df.Decls {
		gd, ok := d.(*ast.GenDecl)
		if !ok {
			continue
		}
		for _, s := range gd.Specs {
			vs, ok := s.(*ast.ValueSpec)
			if !ok || len(vs.Names) != 1 || vs.Names[0].Name != "avoid" || len(vs.Values) != 1 {
				continue
			}
			if cl, ok := vs.Values[0].(*ast.CompositeLit); ok {
				for _, el := range cl.Elts {
					if kv, ok := el.(*ast.KeyValueExpr); ok && src(kv.Value) == "true" {
						avoid = append(avoid, litString(kv.Key))
					} else {
						noteUnknown("decorator.go avoid", src(el))
					}
				}
			}
		}
	}
	sort.Strings(avoid)
	fmt.Fprintf(&b, "Definition avoid_src : list string := %s.\n\n", qlist(avoid))
	files := map[string]*ast.File{
		"gotypes":   parseNoComments(filepath.Join(*repo, "decorator/resolver/gotypes/resolver.go")),
		"goast":     parseNoComments(filepath.Join(*repo, "decorator/resolver/goast/resolver.go")),
		"decorator": df,
	}
	// gotypes.ResolveIdent, goast.ResolveIdent and resolvePath are no longer pinned by hash: they are
	// translated (decision.go -> Gen/DecisionSrc.v) and proved to compute the models
	// goast.imports: its case for one import spec is translated and proved (goastimports.go), the frame
	// around that case pinned there
	want := map[string]string{
		"decorator.stripVendor": "DEC_STRIPVENDOR",
	}
	var keys []string
	for k := range want {
		keys = append(keys, k)
	}
	sort.Strings(keys)
	b.WriteString("Definition resolver_sources_pinned : list (string * bool) := [\n")
	for i, k := range keys {
		parts := strings.SplitN(k, ".", 2)
		h, txt := bodyHash(files[parts[0]], parts[1])
		ok := h == pinnedHashes[want[k]]
		if !ok {
			noteUnknown(k, "source changed (hash "+h+"): "+txt)
		}
		if i > 0 {
			b.WriteString(";\n")
		}
		fmt.Fprintf(&b, "  (%s, %v)", q(k), ok)
	}
	b.WriteString("].\n")
	writeIfChanged("ResolverSrc.v", b.String())
}
