package main

import (
	"fmt"
	"go/ast"
	"go/token"
	"strings"
)

// decorator/decorator-node-generated.go -> Gen/DecTbl.v: one nstmt per statement of each
// decorateNode case.  Statements that touch the node maps, call decorateNode or assign through
// the input ast must be recognised exactly; everything else that only fills value fields of
// out is kept as NOther (irrelevant to the map / failure properties).

func errCheck(s ast.Stmt) bool {
	return src(s) == "if err != nil { return nil, err }"
}

// child, err := f.decorateNode(n, "K", "F", "T", <arg>)
func decorateCall(s ast.Stmt) (k, f, t string, arg ast.Expr, ok bool) {
	as, isAs := s.(*ast.AssignStmt)
	if !isAs || as.Tok != token.DEFINE || len(as.Lhs) != 2 || len(as.Rhs) != 1 || src(as.Lhs[0]) != "child" || src(as.Lhs[1]) != "err" {
		return
	}
	c, isCall := as.Rhs[0].(*ast.CallExpr)
	if !isCall || src(c.Fun) != "f.decorateNode" || len(c.Args) != 5 || src(c.Args[0]) != "n" {
		return
	}
	return litString(c.Args[1]), litString(c.Args[2]), litString(c.Args[3]), c.Args[4], true
}

func mentionsMaps(s string) bool {
	return strings.Contains(s, "Dst.Nodes") || strings.Contains(s, "Ast.Nodes") || strings.Contains(s, "decorateNode") || strings.Contains(s, "decorateSelectorExpr")
}

// assignments whose target is reached through the input node n
func writesInput(s ast.Stmt) bool {
	bad := false
	ast.Inspect(s, func(x ast.Node) bool {
		switch x := x.(type) {
		case *ast.AssignStmt:
			if x.Tok == token.DEFINE {
				return true
			}
			for _, l := range x.Lhs {
				if _, ok := cpathOf(l, "n"); ok {
					bad = true
				}
				if ix, ok := l.(*ast.IndexExpr); ok {
					if _, ok := cpathOf(ix.X, "n"); ok {
						bad = true
					}
				}
			}
		case *ast.IncDecStmt:
			if _, ok := cpathOf(x.X, "n"); ok {
				bad = true
			}
		}
		return true
	})
	return bad
}

// isFCall: a method call on the file decorator, f.M(...)
func isFCall(e ast.Expr) bool {
	c, ok := e.(*ast.CallExpr)
	if !ok {
		return false
	}
	se, ok := c.Fun.(*ast.SelectorExpr)
	if !ok {
		return false
	}
	x, ok := se.X.(*ast.Ident)
	return ok && x.Name == "f"
}

// fCallsChecked: every call of a method of the file decorator inside s (each can reach the
// identifier resolver) is the right-hand side of "..., err := f.M(...)" and is immediately
// followed by "if err != nil { return nil, err }" -- in its own block, or for a top-level
// assignment by the next statement of the case.  A call whose error is discarded, or that is
// buried in an expression, fails the check.
func fCallsChecked(s ast.Stmt, next ast.Stmt) bool {
	checkedCalls := map[*ast.CallExpr]bool{}
	mark := func(st ast.Stmt, nx ast.Stmt) {
		as, ok := st.(*ast.AssignStmt)
		if !ok || len(as.Rhs) != 1 || !isFCall(as.Rhs[0]) || len(as.Lhs) < 2 {
			return
		}
		if id, ok := as.Lhs[len(as.Lhs)-1].(*ast.Ident); !ok || id.Name != "err" {
			return
		}
		if nx != nil && errCheck(nx) {
			checkedCalls[as.Rhs[0].(*ast.CallExpr)] = true
		}
	}
	mark(s, next)
	ast.Inspect(s, func(x ast.Node) bool {
		if b, ok := x.(*ast.BlockStmt); ok {
			for i, st := range b.List {
				var nx ast.Stmt
				if i+1 < len(b.List) {
					nx = b.List[i+1]
				}
				mark(st, nx)
			}
		}
		return true
	})
	ok := true
	ast.Inspect(s, func(x ast.Node) bool {
		if c, isCall := x.(*ast.CallExpr); isCall && isFCall(c) && !checkedCalls[c] {
			ok = false
		}
		return true
	})
	return ok
}

func typeName(e ast.Expr) string {
	s := src(e)
	s = strings.TrimPrefix(s, "*")
	return strings.TrimPrefix(s, "dst.")
}

func decStmts(body []ast.Stmt, where string) []string {
	var out []string
	unknown := func(s ast.Stmt) {
		noteUnknown(where, src(s))
		out = append(out, "NUnknown "+q(src(s)))
	}
	for i := 0; i < len(body); i++ {
		s := body[i]
		t := src(s)
		if writesInput(s) {
			noteUnknown(where, "assigns through the input ast: "+t)
			out = append(out, "NWritesInput "+q(t))
			continue
		}
		var next ast.Stmt
		if i+1 < len(body) {
			next = body[i+1]
		}
		if !fCallsChecked(s, next) {
			noteUnknown(where, "a call into the file decorator whose error is not checked at once: "+t)
			out = append(out, "NUnknown "+q(t))
			continue
		}
		// the SelectorExpr special case
		if t == "id, err := f.decorateSelectorExpr(parent, parentName, parentField, parentFieldType, n)" && i+2 < len(body) &&
			errCheck(body[i+1]) && src(body[i+2]) == "if id != nil { return id, nil }" {
			out = append(out, "NSelectorHook")
			i += 2
			continue
		}
		switch s := s.(type) {
		case *ast.AssignStmt:
			if len(s.Lhs) == 1 && len(s.Rhs) == 1 {
				l, r := s.Lhs[0], s.Rhs[0]
				// out := &dst.K{}
				if s.Tok == token.DEFINE && src(l) == "out" {
					if ue, ok := r.(*ast.UnaryExpr); ok && ue.Op == token.AND {
						if cl, ok := ue.X.(*ast.CompositeLit); ok && len(cl.Elts) == 0 {
							out = append(out, "NNew "+q(typeName(cl.Type)))
							continue
						}
					}
				}
				if s.Tok == token.ASSIGN {
					// f.Dst.Nodes[n.P] = out.P / f.Ast.Nodes[out.P] = n.P
					if ix, ok := l.(*ast.IndexExpr); ok {
						switch src(ix.X) {
						case "f.Dst.Nodes":
							kp, ok1 := cpathOf(ix.Index, "n")
							vp, ok2 := cpathOf(r, "out")
							if ok1 && ok2 && samePath(kp, vp) {
								out = append(out, "NMapDst "+qlist(kp))
								continue
							}
						case "f.Ast.Nodes":
							kp, ok1 := cpathOf(ix.Index, "out")
							vp, ok2 := cpathOf(r, "n")
							if ok1 && ok2 && samePath(kp, vp) {
								out = append(out, "NMapAst "+qlist(kp))
								continue
							}
						}
					}
					if lp, ok := cpathOf(l, "out"); ok {
						// out.Decs.Before = f.before[n]
						if len(lp) == 2 && lp[0] == "Decs" && (lp[1] == "Before" || lp[1] == "After") && src(r) == "f."+strings.ToLower(lp[1])+"[n]" {
							out = append(out, fmt.Sprintf("NSpace %v", lp[1] == "After"))
							continue
						}
						// out.P = &dst.T{}
						if ue, ok := r.(*ast.UnaryExpr); ok && ue.Op == token.AND {
							if cl, ok := ue.X.(*ast.CompositeLit); ok && len(cl.Elts) == 0 {
								out = append(out, fmt.Sprintf("NInit %s %s", qlist(lp), q(typeName(cl.Type))))
								continue
							}
						}
						if !mentionsMaps(t) {
							out = append(out, fmt.Sprintf("NSet %s (%s)", qlist(lp), vsrcOf(r)))
							continue
						}
					}
				}
			}
			// ob, err := f.decorateObject(n.Obj) ... ; scope, err := f.decorateScope(n.Scope)
			if !mentionsMaps(t) {
				out = append(out, "NOther "+q(t))
				continue
			}
			unknown(s)
		case *ast.IfStmt:
			if errCheck(s) {
				out = append(out, "NErrCheck")
				continue
			}
			// if n.P == token.NoPos { out.O = true }
			if s.Init == nil && s.Else == nil && len(s.Body.List) == 1 {
				if be, ok := s.Cond.(*ast.BinaryExpr); ok && be.Op == token.EQL && src(be.Y) == "token.NoPos" {
					if cp, ok := cpathOf(be.X, "n"); ok {
						if as, ok := s.Body.List[0].(*ast.AssignStmt); ok && len(as.Lhs) == 1 && len(as.Rhs) == 1 && src(as.Rhs[0]) == "true" {
							if op, ok := cpathOf(as.Lhs[0], "out"); ok {
								out = append(out, fmt.Sprintf("NSet %s (VNoPos %s)", qlist(op), qlist(cp)))
								continue
							}
						}
					}
				}
			}
			// if n.P != nil { child, err := f.decorateNode(n, "K", "F", "T", n.P); errcheck; out.O = child.(T) }
			if s.Init == nil && s.Else == nil && len(s.Body.List) == 3 {
				if be, ok := s.Cond.(*ast.BinaryExpr); ok && be.Op == token.NEQ && src(be.Y) == "nil" {
					if cp, ok := cpathOf(be.X, "n"); ok {
						k, f, ty, arg, ok1 := decorateCall(s.Body.List[0])
						ap, ok2 := cpathOf(arg, "n")
						if as, ok3 := s.Body.List[2].(*ast.AssignStmt); ok1 && ok2 && ok3 && samePath(ap, cp) && errCheck(s.Body.List[1]) && as.Tok == token.ASSIGN && len(as.Lhs) == 1 {
							if op, ok := cpathOf(as.Lhs[0], "out"); ok {
								if ta, ok := as.Rhs[0].(*ast.TypeAssertExpr); ok && src(ta.X) == "child" {
									out = append(out, fmt.Sprintf("NNode %s %s %s %s %s %s", qlist(cp), qlist(op), q(k), q(f), q(ty), q(typeName(ta.Type))))
									continue
								}
							}
						}
					}
				}
			}
			// decorations: if nd, ok := f.decorations[n]; ok { if decs, ok := nd["X"]; ok { out.Decs.X = decs } ... }
			if src(s.Init) == "nd, ok := f.decorations[n]" && src(s.Cond) == "ok" {
				var pts []string
				good := true
				for _, b := range s.Body.List {
					ifs, ok := b.(*ast.IfStmt)
					if !ok || len(ifs.Body.List) != 1 || src(ifs.Cond) != "ok" {
						good = false
						break
					}
					init := src(ifs.Init)
					if !strings.HasPrefix(init, `decs, ok := nd["`) {
						good = false
						break
					}
					name := strings.TrimSuffix(strings.TrimPrefix(init, `decs, ok := nd["`), `"]`)
					if src(ifs.Body.List[0]) != "out.Decs."+name+" = decs" {
						good = false
						break
					}
					pts = append(pts, name)
				}
				if good {
					out = append(out, "NDecs "+qlist(pts))
					continue
				}
			}
			if !mentionsMaps(t) {
				out = append(out, "NOther "+q(t))
				continue
			}
			unknown(s)
		case *ast.RangeStmt:
			// for _, v := range n.P { child, err := f.decorateNode(n, "K", "F", "T", v); errcheck; out.O = append(out.O, child.(T)) }
			if np, ok := cpathOf(s.X, "n"); ok && s.Value != nil && len(s.Body.List) == 3 {
				k, f, ty, arg, ok1 := decorateCall(s.Body.List[0])
				if as, ok2 := s.Body.List[2].(*ast.AssignStmt); ok1 && ok2 && src(arg) == src(s.Value) && errCheck(s.Body.List[1]) && len(as.Lhs) == 1 && len(as.Rhs) == 1 {
					if op, ok := cpathOf(as.Lhs[0], "out"); ok {
						if c, ok := as.Rhs[0].(*ast.CallExpr); ok && src(c.Fun) == "append" && len(c.Args) == 2 && src(c.Args[0]) == src(as.Lhs[0]) {
							if ta, ok := c.Args[1].(*ast.TypeAssertExpr); ok && src(ta.X) == "child" {
								out = append(out, fmt.Sprintf("NList %s %s %s %s %s %s", qlist(np), qlist(op), q(k), q(f), q(ty), q(typeName(ta.Type))))
								continue
							}
						}
					}
				}
				// map of files: for k, v := range n.Files { child ...; out.Files[k] = child.(*dst.File) }
				if s.Key != nil {
					if as, ok2 := s.Body.List[2].(*ast.AssignStmt); ok1 && ok2 && src(arg) == src(s.Value) && errCheck(s.Body.List[1]) {
						if ix, ok := as.Lhs[0].(*ast.IndexExpr); ok && src(ix.Index) == src(s.Key) {
							if op, ok := cpathOf(ix.X, "out"); ok && samePath(op, np) {
								out = append(out, fmt.Sprintf("NMapNodes %s %s %s %s", qlist(np), q(k), q(f), q(ty)))
								continue
							}
						}
					}
				}
			}
			if !mentionsMaps(t) {
				out = append(out, "NOther "+q(t))
				continue
			}
			unknown(s)
		case *ast.ReturnStmt:
			if t == "return out, nil" {
				out = append(out, "NReturn")
				continue
			}
			unknown(s)
		default:
			if !mentionsMaps(t) {
				out = append(out, "NOther "+q(t))
				continue
			}
			unknown(s)
		}
	}
	return out
}

func genDecNode() {
	f := parseNoComments(*repo + "/decorator/decorator-node-generated.go")
	var b strings.Builder
	b.WriteString("(* GENERATED from /repo/decorator/decorator-node-generated.go -- do not edit *)\n" + hdr)
	b.WriteString("Definition dec_tbl : list (string * list nstmt) := [\n")
	first := true
	frame := false
	for _, d := range f.Decls {
		fd, ok := d.(*ast.FuncDecl)
		if !ok || fd.Name.Name != "decorateNode" || fd.Body == nil {
			continue
		}
		// frame: memo check, switch, (fallthrough) return nil, nil
		var fr []string
		for _, s := range fd.Body.List {
			sw, ok := s.(*ast.TypeSwitchStmt)
			if !ok {
				fr = append(fr, src(s))
				continue
			}
			fr = append(fr, "SWITCH "+src(sw.Assign))
			for _, c := range sw.Body.List {
				cc := c.(*ast.CaseClause)
				if cc.List == nil {
					fr = append(fr, "default: "+src(&ast.BlockStmt{List: cc.Body}))
					continue
				}
				for _, t := range cc.List {
					name := strings.TrimPrefix(src(t), "*ast.")
					if !first {
						b.WriteString(";\n")
					}
					first = false
					fmt.Fprintf(&b, "  (%s, [%s])", q(name), strings.Join(decStmts(cc.Body, "decorator-node-generated.go "+name), "; "))
				}
			}
		}
		got := strings.Join(fr, " | ")
		want := "if dn, ok := f.Dst.Nodes[n]; ok { return dn, nil } | SWITCH n := n.(type) | return nil, nil"
		frame = got == want
		if !frame {
			noteUnknown("decorator-node-generated.go", "decorateNode frame: "+got)
		}
	}
	b.WriteString("].\n\n")
	fmt.Fprintf(&b, "Definition dec_frame_ok : bool := %v.\n", frame)
	writeIfChanged("DecTbl.v", b.String())
}

// vsrcOf classifies the right-hand side of a value assignment of the decorator.
func vsrcOf(r ast.Expr) string {
	if p, ok := cpathOf(r, "n"); ok {
		return "VCopy " + qlist(p)
	}
	if id, ok := r.(*ast.Ident); ok && (id.Name == "true" || id.Name == "false") {
		return "VConst " + q(id.Name)
	}
	if c, ok := r.(*ast.CallExpr); ok {
		// n.P.IsValid()
		if se, ok := c.Fun.(*ast.SelectorExpr); ok && se.Sel.Name == "IsValid" && len(c.Args) == 0 {
			if p, ok := cpathOf(se.X, "n"); ok {
				return "VValid " + qlist(p)
			}
		}
		// a conversion dst.T(n.P)
		if se, ok := c.Fun.(*ast.SelectorExpr); ok && len(c.Args) == 1 {
			if x, ok := se.X.(*ast.Ident); ok && x.Name == "dst" {
				if p, ok := cpathOf(c.Args[0], "n"); ok {
					return "VCopy " + qlist(p)
				}
			}
		}
	}
	return "VExpr " + q(src(r))
}
