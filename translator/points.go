package main

import (
	"fmt"
	"go/ast"
	"strings"
)

// dstutil/decorations-generated.go and decorations-node-generated.go
func genPoints() {
	var b strings.Builder
	b.WriteString("(* GENERATED from /repo/dstutil/decorations-generated.go and /repo/decorations-node-generated.go -- do not edit *)\n" + hdr)
	f := parse("dstutil/decorations-generated.go")
	var order []string
	tbl := map[string][]string{}
	for _, d := range f.Decls {
		fd, ok := d.(*ast.FuncDecl)
		if !ok || fd.Name.Name != "decorations" || fd.Body == nil {
			continue
		}
		for _, s := range fd.Body.List {
			sw, ok := s.(*ast.TypeSwitchStmt)
			if !ok {
				if src(s) != "return" {
					noteUnknown("dstutil/decorations-generated.go", src(s))
				}
				continue
			}
			for _, c := range sw.Body.List {
				cc := c.(*ast.CaseClause)
				if cc.List == nil {
					continue
				}
				for _, t := range cc.List {
					kind := strings.TrimPrefix(src(t), "*dst.")
					var parts []string
					for _, st := range cc.Body {
						ss := src(st)
						switch {
						case ss == "before = n.Decs.Before":
							parts = append(parts, "PBefore")
						case ss == "after = n.Decs.After":
							parts = append(parts, "PAfter")
						default:
							var name, field string
							ok := false
							if as, isAs := st.(*ast.AssignStmt); isAs && len(as.Lhs) == 1 && len(as.Rhs) == 1 && src(as.Lhs[0]) == "points" {
								if ap, isCall := as.Rhs[0].(*ast.CallExpr); isCall && src(ap.Fun) == "append" && len(ap.Args) == 2 && src(ap.Args[0]) == "points" {
									if cl, isCl := ap.Args[1].(*ast.CompositeLit); isCl && src(cl.Type) == "DecorationPoint" && len(cl.Elts) == 2 {
										name = strings.Trim(src(cl.Elts[0]), "\"")
										if p, isP := nPath(cl.Elts[1], "n"); isP && len(p) == 2 && p[0] == "Decs" {
											field = p[1]
											ok = true
										}
									}
								}
							}
							if ok {
								parts = append(parts, fmt.Sprintf("PPoint %s %s", q(name), q(field)))
							} else {
								noteUnknown("dstutil/decorations-generated.go "+kind, ss)
								parts = append(parts, "PUnknown "+q(ss))
							}
						}
					}
					tbl[kind] = parts
					order = append(order, kind)
				}
			}
		}
	}
	b.WriteString("Definition points_tbl : list (string * list ppart) := [\n")
	for i, k := range order {
		if i > 0 {
			b.WriteString(";\n")
		}
		fmt.Fprintf(&b, "  (%s, [%s])", q(k), strings.Join(tbl[k], "; "))
	}
	b.WriteString("].\n\n")

	// accessor: func (n *K) Decorations() *NodeDecs { return &n.Decs.NodeDecs }
	nf := parse("decorations-node-generated.go")
	b.WriteString("Definition accessor_tbl : list (string * bool) := [\n")
	first := true
	for _, d := range nf.Decls {
		fd, ok := d.(*ast.FuncDecl)
		if !ok || fd.Name.Name != "Decorations" || fd.Recv == nil || fd.Body == nil {
			continue
		}
		kind := strings.TrimPrefix(src(fd.Recv.List[0].Type), "*")
		good := len(fd.Body.List) == 1 && src(fd.Body.List[0]) == "return &n.Decs.NodeDecs"
		if kind == "Package" {
			good = len(fd.Body.List) == 1 && src(fd.Body.List[0]) == "return nil"
		}
		if !good {
			noteUnknown("decorations-node-generated.go "+kind, src(fd.Body))
		}
		if !first {
			b.WriteString(";\n")
		}
		first = false
		fmt.Fprintf(&b, "  (%s, %v)", q(kind), good)
	}
	b.WriteString("].\n")
	writeIfChanged("PointsTbl.v", b.String())
}
