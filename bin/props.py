# Per-property configuration for bin/check.
KERNEL = "Coq 8.16.1 kernel (coqc; coqchk in the thorough tier); vm_compute; no native_compute; no axioms declared"
TRANSLATOR = "/verif/translator (Go, go/ast pattern matching) regenerating coq/Gen/*.v from /repo on every run"
HARNESS = "/verif/harness (Go) differential harness: runs the real code, writes coq/Cases/*_cases.v evaluated by vm_compute"

PROPS = {
    "C13": dict(
        unknown_keys=["walk.go", "dst.go"],
        trusted_base=[KERNEL, TRANSLATOR + " (walk.go -> Gen/WalkTbl.v, dst.go -> Gen/Universe.v, go/ast walk.go as reference)", HARNESS,
                      "reflection-based tree dumper (harness/cmd/hx/treedump.go)"],
        assumptions=["trees conform to the universe (checked by conformsb on every dumped tree)",
                     "children walked without a nil check are present (mandatory_okb); C13_nil_mandatory_refuted shows the hypothesis is needed",
                     "the order in which the files of a Package are walked is Go map order in dst and go/ast alike and is not part of the statement",
                     "correspondence with go/ast's traversal of the source ast is proved at table level (same fields in the same order) and checked on the implementation by the oracle"],
    ),
    "C19": dict(
        unknown_keys=["decorations.go"],
        trusted_base=[KERNEL, TRANSLATOR + " (decorations.go -> Gen/DecsIR.v)", HARNESS,
                      "Go slice/append semantics as modelled in Model/SliceHeap.v (go_append), corresponded against the real runtime on every run",
                      "strings abstracted to ids (cell := nat)"],
        assumptions=["arguments live in arrays the list did not allocate (caller-owned); a slice obtained from All() and passed back as an argument is outside the statement",
                     "the runtime's growth policy is any function grow with l+n <= grow l n"],
    ),
}
