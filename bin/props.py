# Per-property configuration for bin/check.
KERNEL = "Coq 8.16.1 kernel (coqc; coqchk in the thorough tier); vm_compute; no native_compute; no axioms declared"
TRANSLATOR = "/verif/translator (Go, go/ast pattern matching) regenerating coq/Gen/*.v from /repo on every run"
HARNESS = "/verif/harness (Go) differential harness: runs the real code, writes coq/Cases/*_cases.v evaluated by vm_compute"

RESTORE_TB = [KERNEL, TRANSLATOR + " (restorer-generated.go -> Gen/RestTbl.v statement by statement; dst.go, decorations-types-generated.go -> Gen/Universe.v; dstutil/decorations-generated.go, decorations-node-generated.go -> Gen/PointsTbl.v)",
              HARNESS + "; hand model Model/Restore.v of restorer.go (applySpace, applyDecorations, applyLiteral, fileSize, SetLines, duplicate check, restoreIdent) tied by correspondence on lines, size, comment groups and every position field",
              "assumption P: go/printer/go/format are not modelled (the printed text is a function of the restored positions, comments and line table)",
              "token.FileSet modelled as its next-base counter"]

PROPS = {
    "C04": dict(
        unknown_keys=["restorer-generated.go", "decorations-generated.go", "decorations-node-generated.go", "dst.go", "decorations-types-generated.go", "data.go"],
        trusted_base=RESTORE_TB,
        assumptions=["'documented point' is tied to the code by the table obligations (each point rendered once, in the order of the Decorations struct, under its own name) and, on the implementation, by the oracle's doc-example check",
                     "decorations that are neither comments nor newlines are not rendered (C04_other_strings_dropped)",
                     "the recorded finding c04-first-emission-newline is excluded"],
    ),
    "C05": dict(
        unknown_keys=["restorer-generated.go"],
        trusted_base=RESTORE_TB,
        assumptions=["the number of line breaks between positions determines blank lines in the printed text (go/printer: >= 2 breaks print as one blank line); the clause about argument lists split one per line is go/printer behaviour checked on the implementation only"],
    ),
    "C06": dict(
        unknown_keys=["clone-generated.go", "clone.go", "dst.go", "decorations-types-generated.go", "restorer-generated.go"],
        trusted_base=[KERNEL, TRANSLATOR + " (clone-generated.go, clone.go -> Gen/CloneTbl.v statement by statement; dst.go, decorations-types-generated.go -> Gen/Universe.v; restorer-generated.go -> Gen/RestTbl.v)",
                      HARNESS + "; the generic clone interpreter (Model/Clone.v, field-by-field semantics of the assignments of a Clone case) is tied to the real dst.Clone by correspondence on dumped trees decorated on every point",
                      "Go append semantics as in Model/SliceHeap.v (corresponded for C19): append(nil-slice, src...) allocates a new array",
                      "hand model of restorer.go for the duplicate-node check (Model/Restore.v, corresponded for C04/C05/C12)",
                      "assumption P for 'prints identically': the printed text is a function of the restorer's action list"],
        assumptions=["trees conform to the universe (conforms_full, spacing_conforms: evaluated on every dumped tree of the correspondence)",
                     "node identity is kept in the model (a clone carries the id of the node it was cloned from); that clone nodes are new allocations is read off the table shape (out := &K{}) and checked on the implementation by pointer-identity comparison",
                     "'prints identically' composes C06_clone_is_complete_copy with the table obligations C06_clone_covers_what_printing_consults / C06_init_spacing_never_rendered; the composition (flatten depends on the tree only through the copied fields) is exercised by C06_nonvacuous and the implementation oracle, not stated as one theorem"],
    ),
    "C07": dict(
        unknown_keys=["restorer.go"],
        trusted_base=[KERNEL, TRANSLATOR + " (decorator/restorer.go -> Gen/ImportsSrc.v: statements of updateImports before the last ResolvePackage call write only local maps, %w wrapping, sort before naming, RestoreFile order; decorator.go/restorer.go/load.go -> Gen/ErrProp.v error propagation lint; decorator-node-generated.go -> Gen/DecTbl.v)",
                      HARNESS + "; hand model Model/Imports.v of FileRestorer.updateImports, tied by correspondence on generated import configurations (final blocks with aliases, spacing and parentheses, the qualifier of every referenced path, or the unresolvable path)",
                      "Go maps modelled as association lists; map iteration order is not modelled (determinism is checked on the implementation, C16)"],
        assumptions=["the source imports no path twice (recorded finding duplicate-path-import otherwise)",
                     "'each identifier is a selector on an import of exactly its path' and alias precedence are established on the implementation by the oracle (re-parsing the output, binding names to paths) and on the model by correspondence + examples; the general theorems proved are: free-name loop, pairwise distinct names, only required imports remain, blocks without additions untouched"],
    ),
    "C17": dict(
        unknown_keys=["restorer.go", "decorator.go", "load.go", "decorator-node-generated.go"],
        trusted_base=[KERNEL, TRANSLATOR + " (decorator/restorer.go -> Gen/ImportsSrc.v: statements of updateImports before the last ResolvePackage call write only local maps, %w wrapping, sort before naming, RestoreFile order; decorator.go/restorer.go/load.go -> Gen/ErrProp.v error propagation lint; decorator-node-generated.go -> Gen/DecTbl.v)",
                      HARNESS + "; hand model Model/Imports.v of FileRestorer.updateImports, tied by correspondence on generated import configurations (final blocks with aliases, spacing and parentheses, the qualifier of every referenced path, or the unresolvable path)",
                      "Go maps modelled as association lists; map iteration order is not modelled (determinism is checked on the implementation, C16)"],
        assumptions=["'input tree left unmodified' on the restore side is the static fact C17_restore_resolves_before_it_mutates plus the oracle's deep comparison; on the decorate side the static fact that no decorateNode statement assigns through n plus the oracle's ast dump comparison",
                     "the error lint covers the listed hand-written functions; generated decorateNode cases are covered by the translator's statement shapes"],
    ),
    "C08": dict(
        unknown_keys=["restorer.go", "decorator.go"],
        trusted_base=[KERNEL, TRANSLATOR, HARNESS + "; hand model Model/Merge.v of decorateSelectorExpr/mergeDecorations tied by correspondence (the same source decorated without and with the identifier resolver, 13 slots vs the collapsed identifier); hand model Model/Imports.v (corresponded, C07); restorer state machine incl. restoreIdent's expansion (corresponded on import-managed files)",
                      "assumption P: byte equality of the printed file follows from equal comments/line breaks/tokens only through go/printer; the byte-level claim itself is checked on the implementation"],
        assumptions=["C08_merged_spacing_renders_the_same_line_breaks needs mergeDecorations' endsWithNewLine=false to describe the restorer's state where the merged list is rendered (C08_merge_needs_matching_state shows the hypothesis is needed); the decorator never attaches a line break to X when the selector itself has one -- covered by the byte-level oracle",
                     "accurate resolvers: goast for identifiers (files it refuses are skipped: C09), guess seeded with the real package names / simple for package names",
                     "gotypes as decorator resolver is exercised under C09/C10 (needs a type-checked program)"],
    ),
    "C11": dict(
        unknown_keys=["decorator-node-generated.go", "restorer-generated.go", "dst.go"],
        trusted_base=[KERNEL, TRANSLATOR + " (decorator-node-generated.go -> Gen/DecTbl.v statement by statement: statements touching the node maps, calling decorateNode or assigning through the input ast must be recognised exactly; restorer-generated.go -> Gen/RestTbl.v; dst.go -> Gen/Universe.v)",
                      HARNESS + " (oracle over the complete maps of real Decorator and Restorer runs)",
                      "hand-written code not translated: decorateSelectorExpr, restoreIdent, the memo check / duplicate check frames (frame text pinned; behaviour checked by the oracle)"],
        assumptions=["node identity is abstract in the model: freshness of out := &dst.K{} and the memo check give the NoDup hypotheses of C11_converse_maps_are_inverse; both are facts about the translated case heads (C11_decorator_cases_record_both_maps) and are checked on the implementation over complete maps",
                     "the order of child statements within a case does not affect which nodes are mapped; C11_every_node_decorated_once is stated for the child table in struct order",
                     "ast trees are viewed through the dst universe (same kinds and Node fields, comments excluded)"],
    ),
    "C12": dict(
        unknown_keys=["restorer-generated.go"],
        trusted_base=RESTORE_TB,
        assumptions=["hypotheses act_ok / safe of C12_position_space_coherent are evaluated (as booleans) on every tree of the correspondence; they are not proved for all trees",
                     "'equals the order of a fresh parse of the printed text' needs go/printer and go/parser and is checked on the implementation only",
                     "the recorded finding c12-first-emission-newline is excluded by nlbad = false"],
    ),
    "C13": dict(
        unknown_keys=["walk.go", "dst.go"],
        trusted_base=[KERNEL, TRANSLATOR + " (walk.go -> Gen/WalkTbl.v, dst.go -> Gen/Universe.v, go/ast walk.go as reference)", HARNESS,
                      "reflection-based tree dumper (harness/cmd/hx/treedump.go)"],
        assumptions=["trees conform to the universe (checked by conformsb on every dumped tree)",
                     "children walked without a nil check are present (mandatory_okb); C13_nil_mandatory_refuted shows the hypothesis is needed",
                     "the order in which the files of a Package are walked is Go map order in dst and go/ast alike and is not part of the statement",
                     "correspondence with go/ast's traversal of the source ast is proved at table level (same fields in the same order) and checked on the implementation by the oracle"],
    ),
    "C14": dict(
        unknown_keys=["dstutil/rewrite.go", "astutil"],
        trusted_base=[KERNEL, TRANSLATOR + " (dstutil/rewrite.go and x/tools@v0.1.12 astutil/rewrite.go -> Gen/ApplyTbl.v: child table, Cursor method IR through a fixed statement dictionary, function-by-function text comparison, pinned text of Apply / apply frame / applyList)",
                      HARNESS + " running dstutil.Apply and astutil.Apply on corresponding trees with one script",
                      "hand model Model/Iter.v of applyList and of the reflect slice operations (reflect.Copy as an overlap-safe block move), tied to the source by the pinned text and to behaviour by the differential oracle"],
        assumptions=["the reference is astutil of golang.org/x/tools v0.1.12 (the version dst's go.mod pins); its pre-1.18 typeparams shim skips a nil TypeParams list where dstutil (and current astutil) call the callbacks with a nil node -- those callbacks are not compared",
                     "pre=false skipping children and post, and post=false aborting while Apply still returns the tree, are facts about the frame text, which is checked to be astutil's and exercised by the oracle; they are not separate Coq theorems",
                     "after Replace/Delete the cursor's Node() keeps returning the old node (astutil semantics); the Parent/Name/Index invariant is checked for nodes still in the tree",
                     "the recorded finding delete-then-insert-same-visit is excluded from C14_each_original_visited_once by delete_last"],
    ),
    "C19": dict(
        unknown_keys=["decorations.go"],
        trusted_base=[KERNEL, TRANSLATOR + " (decorations.go -> Gen/DecsIR.v)", HARNESS,
                      "Go slice/append semantics as modelled in Model/SliceHeap.v (go_append), corresponded against the real runtime on every run",
                      "strings abstracted to ids (cell := nat)"],
        assumptions=["arguments live in arrays the list did not allocate (caller-owned); a slice obtained from All() and passed back as an argument is outside the statement",
                     "the runtime's growth policy is any function grow with l+n <= grow l n"],
    ),
}
